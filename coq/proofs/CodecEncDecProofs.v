(* CodecEncDecProofs.v — lemmas behind props/C01.v: every scalar printer is inverted by the
   reading arm of scalarReflectFromGo (all values of the documented domain), and the
   structural round trip decode_tree (tree of encode m) = m' with m' equivalent to m. *)
From Coq Require Import String List Arith NArith ZArith Bool Lia ZifyN ZifyNat ZifyBool.
From J5V.lib Require Import Outcome Json JsonPrint Base64 Civil Decimal.
From J5V.model Require Import CodecTypes CodecEnc CodecEncSpec CodecEncDec.
From J5V.proofs Require Import CodecEncProofs.
Import ListNotations.
Local Open Scope N_scope.
Local Open Scope bool_scope.
Arguments Nat.sub : simpl never.

(* ================================================================ scalars *)
(* the documented domain of each scalar kind, on the value shapes of CodecTypes *)
Definition rep_scalar (k : scalar_kind) (v : pval) : Prop :=
  match k, v with
  | KInt32, VInt z => (-2147483648 <= z <= 2147483647)%Z
  | KInt64, VInt z => (-9223372036854775808 <= z <= 9223372036854775807)%Z
  | KUint32, VInt z => (0 <= z <= 4294967295)%Z
  | KUint64, VInt z => (0 <= z <= 18446744073709551615)%Z
  | KFloat32, VFloat b => b < 4294967296 /\ float_finite true b = true
  | KFloat64, VFloat b => b < 18446744073709551616 /\ float_finite false b = true
  | KBool, VBool _ => True
  | KString, VStr s | KKey, VStr s => valid_utf8 s = true
  | KBytes, VBytes s => Forall is_byte s
  | KDate, VMsg m =>
      exists y mo d, m = [(1, VInt y); (2, VInt mo); (3, VInt d)] /\
                     (1 <= y <= 9999 /\ 1 <= mo <= 12 /\ 1 <= d <= days_in mo y)%Z
  | KDecimal, VMsg m => exists s s', m = [(1, VStr s)] /\ dec_normalise s = Some s' /\ valid_utf8 s = true
  | KTimestamp, VMsg m => exists s ns, VMsg m = mk_timestamp s ns /\ ts_range s ns
  | _, _ => False
  end.

(* what the decoded value is allowed to differ in: the decimal text is normalised *)
Definition scalar_equiv (k : scalar_kind) (v v' : pval) : Prop :=
  match k with
  | KDecimal => exists s s', v = VMsg [(1, VStr s)] /\ dec_normalise s = Some s' /\ v' = mk_decimal s' /\
                            exists a b, dec_parse s = Some a /\ dec_parse s' = Some b /\ dec_eq a b
  | _ => v' = v
  end.

Lemma print_Z_not_empty z : print_Z z <> [].
Proof.
  destruct z as [|p|p]; cbn [print_Z]; try discriminate. apply digits_of_nonempty.
Qed.

Lemma parse_N_print_nat z : (0 <= z)%Z -> parse_N (print_Z z) = Some (Z.to_N z).
Proof.
  intros H. destruct z as [|p|p]; [reflexivity| |lia]. cbn [print_Z]. rewrite parse_N_digits. reflexivity.
Qed.

Section ScalarRT.
  Variable fmt_float : bool -> N -> bytes.
  Variable parse_float : bool -> bytes -> option N.
  Variable parse_time : bytes -> option (Z * Z).

  (* the assumed law of strconv (exercised on every run against the real functions) *)
  Definition float_roundtrip : Prop :=
    forall (is32 : bool) (bits : N), bits < (if is32 then 4294967296 else 18446744073709551616) ->
      float_finite is32 bits = true -> parse_float is32 (fmt_float is32 bits) = Some bits.
  (* time.Parse(time.RFC3339, _) begins with the fast path modelled by parse_rfc3339 *)
  Definition time_parse_extends : Prop :=
    forall s r, parse_rfc3339 s = Some r -> parse_time s = Some r.

  Hypothesis Hfloat_ok : float_text_ok fmt_float.
  Hypothesis Hfloat_rt : float_roundtrip.
  Hypothesis Htime : time_parse_extends.

  Notation dec_scalar := (dec_scalar parse_float parse_time).

  Lemma mk_timestamp_fields s ns m : VMsg m = mk_timestamp s ns -> zfield 1 m = s /\ zfield 2 m = ns.
  Proof.
    unfold mk_timestamp, wkt_fields. intros [= ->]. cbn [filter snd is_zero negb].
    destruct (Z.eqb s 0) eqn:Es; destruct (Z.eqb ns 0) eqn:En; cbn [negb]; unfold zfield; cbn; lia.
  Qed.

  Lemma field_int_mk_timestamp s ns m : VMsg m = mk_timestamp s ns ->
    field_int 1 m = Ok s /\ field_int 2 m = Ok ns.
  Proof.
    unfold mk_timestamp, wkt_fields. intros [= ->]. cbn [filter snd is_zero negb].
    destruct (Z.eqb s 0) eqn:Es; destruct (Z.eqb ns 0) eqn:En; cbn [negb]; unfold field_int; cbn;
      split; f_equal; lia.
  Qed.

  Lemma scalar_rt_KInt32 v : rep_scalar KInt32 v ->
    exists J, (exists txt, enc_scalar fmt_float KInt32 v = Ok txt /\ txt = print J) /\ wfb J = true /\
              is_container J = false /\ J <> JNull /\
              exists v', dec_scalar KInt32 J = Ok (Some v') /\ scalar_equiv KInt32 v v'.
  Proof.
    intros Hr. destruct v; cbn [rep_scalar] in Hr; try contradiction.
    exists (JNum (print_Z z)). split; [eexists; split; reflexivity|].
      split; [apply print_Z_valid_number|]. split; [reflexivity|]. split; [discriminate|].
      exists (VInt z). split; [|reflexivity]. cbn [CodecEncDec.dec_scalar dec_int]. unfold parse_signed.
      rewrite parse_print_Z. unfold in_rangeZ.
      replace ((-9223372036854775808 <=? z)%Z && (z <=? 9223372036854775807)%Z) with true by lia.
      replace ((-2147483648 <=? z)%Z && (z <=? 2147483647)%Z) with true by lia. reflexivity.
  Qed.

  Lemma scalar_rt_KInt64 v : rep_scalar KInt64 v ->
    exists J, (exists txt, enc_scalar fmt_float KInt64 v = Ok txt /\ txt = print J) /\ wfb J = true /\
              is_container J = false /\ J <> JNull /\
              exists v', dec_scalar KInt64 J = Ok (Some v') /\ scalar_equiv KInt64 v v'.
  Proof.
    intros Hr. destruct v; cbn [rep_scalar] in Hr; try contradiction.
    exists (JStr (print_Z z)). destruct (print_plain_str _ (print_Z_plain z)) as [Hp Hw].
      split; [eexists; split; [reflexivity|symmetry; exact Hp]|]. split; [exact Hw|]. split; [reflexivity|]. split; [discriminate|].
      exists (VInt z). split; [|reflexivity]. cbn [CodecEncDec.dec_scalar dec_int]. unfold parse_signed.
      rewrite parse_print_Z. unfold in_rangeZ.
      replace ((-9223372036854775808 <=? z)%Z && (z <=? 9223372036854775807)%Z) with true by lia. reflexivity.
  Qed.

  Lemma scalar_rt_KUint32 v : rep_scalar KUint32 v ->
    exists J, (exists txt, enc_scalar fmt_float KUint32 v = Ok txt /\ txt = print J) /\ wfb J = true /\
              is_container J = false /\ J <> JNull /\
              exists v', dec_scalar KUint32 J = Ok (Some v') /\ scalar_equiv KUint32 v v'.
  Proof.
    intros Hr. destruct v; cbn [rep_scalar] in Hr; try contradiction.
    exists (JNum (print_Z z)). split; [eexists; split; reflexivity|].
      split; [apply print_Z_valid_number|]. split; [reflexivity|]. split; [discriminate|].
      exists (VInt z). split; [|reflexivity]. cbn [CodecEncDec.dec_scalar dec_int]. unfold parse_signed.
      rewrite parse_print_Z. unfold in_rangeZ.
      replace ((-9223372036854775808 <=? z)%Z && (z <=? 9223372036854775807)%Z) with true by lia.
      replace ((0 <=? z)%Z && (z <=? 4294967295)%Z) with true by lia. reflexivity.
  Qed.

  Lemma scalar_rt_KUint64 v : rep_scalar KUint64 v ->
    exists J, (exists txt, enc_scalar fmt_float KUint64 v = Ok txt /\ txt = print J) /\ wfb J = true /\
              is_container J = false /\ J <> JNull /\
              exists v', dec_scalar KUint64 J = Ok (Some v') /\ scalar_equiv KUint64 v v'.
  Proof.
    intros Hr. destruct v; cbn [rep_scalar] in Hr; try contradiction.
    exists (JStr (print_Z z)). destruct (print_plain_str _ (print_Z_plain z)) as [Hp Hw].
      split; [eexists; split; [reflexivity|symmetry; exact Hp]|]. split; [exact Hw|]. split; [reflexivity|]. split; [discriminate|].
      exists (VInt z). split; [|reflexivity]. cbn [CodecEncDec.dec_scalar dec_int]. unfold parse_unsigned.
      rewrite parse_N_print_nat by lia. rewrite Z2N.id by lia. unfold max_u64.
      replace (z <=? 18446744073709551615)%Z with true by lia. reflexivity.
  Qed.

  Lemma scalar_rt_KFloat32 v : rep_scalar KFloat32 v ->
    exists J, (exists txt, enc_scalar fmt_float KFloat32 v = Ok txt /\ txt = print J) /\ wfb J = true /\
              is_container J = false /\ J <> JNull /\
              exists v', dec_scalar KFloat32 J = Ok (Some v') /\ scalar_equiv KFloat32 v v'.
  Proof.
    intros Hr. destruct v; cbn [rep_scalar] in Hr; try contradiction. destruct Hr as [Hbits Hr].
    exists (JNum (fmt_float true bits)).
      split. { eexists. split; [reflexivity|]. cbn [print]. unfold enc_float, float_is_nan, float_is_inf.
               unfold float_finite in Hr. destruct (float_exp_all_ones true bits); [discriminate|]. reflexivity. }
      split; [cbn [wfb]; apply Hfloat_ok; exact Hr|]. split; [reflexivity|]. split; [discriminate|].
      exists (VFloat bits). split; [|reflexivity]. cbn [CodecEncDec.dec_scalar dec_float]. rewrite Hfloat_rt by assumption. reflexivity.
  Qed.

  Lemma scalar_rt_KFloat64 v : rep_scalar KFloat64 v ->
    exists J, (exists txt, enc_scalar fmt_float KFloat64 v = Ok txt /\ txt = print J) /\ wfb J = true /\
              is_container J = false /\ J <> JNull /\
              exists v', dec_scalar KFloat64 J = Ok (Some v') /\ scalar_equiv KFloat64 v v'.
  Proof.
    intros Hr. destruct v; cbn [rep_scalar] in Hr; try contradiction. destruct Hr as [Hbits Hr].
    exists (JNum (fmt_float false bits)).
      split. { eexists. split; [reflexivity|]. cbn [print]. unfold enc_float, float_is_nan, float_is_inf.
               unfold float_finite in Hr. destruct (float_exp_all_ones false bits); [discriminate|]. reflexivity. }
      split; [cbn [wfb]; apply Hfloat_ok; exact Hr|]. split; [reflexivity|]. split; [discriminate|].
      exists (VFloat bits). split; [|reflexivity]. cbn [CodecEncDec.dec_scalar dec_float]. rewrite Hfloat_rt by assumption. reflexivity.
  Qed.

  Lemma scalar_rt_KBool v : rep_scalar KBool v ->
    exists J, (exists txt, enc_scalar fmt_float KBool v = Ok txt /\ txt = print J) /\ wfb J = true /\
              is_container J = false /\ J <> JNull /\
              exists v', dec_scalar KBool J = Ok (Some v') /\ scalar_equiv KBool v v'.
  Proof.
    intros Hr. destruct v; cbn [rep_scalar] in Hr; try contradiction.
    exists (JBool b). split; [eexists; split; [reflexivity|destruct b; reflexivity]|].
      split; [reflexivity|]. split; [reflexivity|]. split; [discriminate|]. exists (VBool b). split; reflexivity.
  Qed.

  Lemma scalar_rt_KString v : rep_scalar KString v ->
    exists J, (exists txt, enc_scalar fmt_float KString v = Ok txt /\ txt = print J) /\ wfb J = true /\
              is_container J = false /\ J <> JNull /\
              exists v', dec_scalar KString J = Ok (Some v') /\ scalar_equiv KString v v'.
  Proof.
    intros Hr. destruct v; cbn [rep_scalar] in Hr; try contradiction.
    exists (JStr s). split; [eexists; split; [cbn [CodecEnc.enc_scalar]; rewrite escape_spec, Hr; reflexivity|reflexivity]|].
      split; [exact Hr|]. split; [reflexivity|]. split; [discriminate|]. exists (VStr s). split; reflexivity.
  Qed.

  Lemma scalar_rt_KBytes v : rep_scalar KBytes v ->
    exists J, (exists txt, enc_scalar fmt_float KBytes v = Ok txt /\ txt = print J) /\ wfb J = true /\
              is_container J = false /\ J <> JNull /\
              exists v', dec_scalar KBytes J = Ok (Some v') /\ scalar_equiv KBytes v v'.
  Proof.
    intros Hr. destruct v; cbn [rep_scalar] in Hr; try contradiction.
    exists (JStr (b64_encode s)).
      assert (Hpl : Forall plain (b64_encode s)).
      { pose proof (b64_encode_chars s Hr) as H. eapply Forall_impl; [|exact H]. unfold b64_out_char, plain. intros; lia. }
      destruct (print_plain_str _ Hpl) as [Hp Hw].
      split; [eexists; split; [cbn [CodecEnc.enc_scalar]; rewrite escape_spec; cbn [wfb] in Hw; rewrite Hw; reflexivity|reflexivity]|].
      split; [exact Hw|]. split; [reflexivity|]. split; [discriminate|].
      exists (VBytes s). split; [|reflexivity]. cbn [CodecEncDec.dec_scalar]. rewrite b64_lenient_encode by exact Hr. reflexivity.
  Qed.

  Lemma scalar_rt_KKey v : rep_scalar KKey v ->
    exists J, (exists txt, enc_scalar fmt_float KKey v = Ok txt /\ txt = print J) /\ wfb J = true /\
              is_container J = false /\ J <> JNull /\
              exists v', dec_scalar KKey J = Ok (Some v') /\ scalar_equiv KKey v v'.
  Proof.
    intros Hr. destruct v; cbn [rep_scalar] in Hr; try contradiction.
    exists (JStr s). split; [eexists; split; [cbn [CodecEnc.enc_scalar]; rewrite escape_spec, Hr; reflexivity|reflexivity]|].
      split; [exact Hr|]. split; [reflexivity|]. split; [discriminate|]. exists (VStr s). split; reflexivity.
  Qed.

  Lemma dec_scalar_date s : dec_scalar KDate (JStr s) =
    match date_from_string s with Some (y, mo, d) => Ok (Some (mk_date y mo d)) | None => Err "date" end.
  Proof. reflexivity. Qed.

  Lemma enc_scalar_date y mo d : enc_scalar fmt_float KDate (VMsg [(1, VInt y); (2, VInt mo); (3, VInt d)]) = escape (date_string y mo d).
  Proof. reflexivity. Qed.

  Lemma mk_date_nz y mo d : y <> 0%Z -> mo <> 0%Z -> d <> 0%Z -> mk_date y mo d = VMsg [(1, VInt y); (2, VInt mo); (3, VInt d)].
  Proof.
    intros Hy Hmo Hd. unfold mk_date, wkt_fields. cbn [filter snd is_zero].
    replace (Z.eqb y 0) with false by lia. replace (Z.eqb mo 0) with false by lia. replace (Z.eqb d 0) with false by lia.
    reflexivity.
  Qed.

  Lemma date_string_plain y mo d : (1 <= y <= 9999)%Z -> (1 <= mo <= 12)%Z -> (1 <= d <= days_in mo y)%Z ->
    Forall plain (date_string y mo d).
  Proof.
    intros Hy Hmo Hd. pose proof (days_in_le mo y) as Hdi.
    destruct (date_string_shape y mo d ltac:(lia) ltac:(lia) ltac:(lia)) as (a & b & c & Hds & _ & _ & _ & Hdig & _).
    rewrite Hds. rewrite !forallb_app in Hdig. apply andb_true_iff in Hdig as [Ha Hbc]. apply andb_true_iff in Hbc as [Hb Hc].
    repeat (apply Forall_app; split); try (apply digits_plain; assumption); repeat constructor; unfold plain; lia.
  Qed.

  Lemma date_core t y mo d : Forall plain t -> date_string y mo d = t -> date_from_string t = Some (y, mo, d) ->
    y <> 0%Z -> mo <> 0%Z -> d <> 0%Z ->
    exists J, (exists txt, enc_scalar fmt_float KDate (VMsg [(1, VInt y); (2, VInt mo); (3, VInt d)]) = Ok txt /\ txt = print J) /\
              wfb J = true /\ is_container J = false /\ J <> JNull /\
              exists v', dec_scalar KDate J = Ok (Some v') /\
                         scalar_equiv KDate (VMsg [(1, VInt y); (2, VInt mo); (3, VInt d)]) v'.
  Proof.
    intros Hpl Hfmt Hpd Hy Hmo Hd. destruct (print_plain_str _ Hpl) as [Hp Hw].
    exists (JStr t).
    split. { exists (print (JStr t)). split; [|reflexivity]. rewrite enc_scalar_date, Hfmt, escape_spec.
             change (wfb (JStr t)) with (valid_utf8 t) in Hw. rewrite Hw. reflexivity. }
    split; [exact Hw|]. split; [reflexivity|]. split; [discriminate|].
    exists (VMsg [(1, VInt y); (2, VInt mo); (3, VInt d)]). split; [|reflexivity].
    rewrite dec_scalar_date, Hpd. rewrite mk_date_nz by assumption. reflexivity.
  Qed.

  Lemma scalar_rt_KDate v : rep_scalar KDate v ->
    exists J, (exists txt, enc_scalar fmt_float KDate v = Ok txt /\ txt = print J) /\ wfb J = true /\
              is_container J = false /\ J <> JNull /\
              exists v', dec_scalar KDate J = Ok (Some v') /\ scalar_equiv KDate v v'.
  Proof.
    intros Hr. destruct v; cbn [rep_scalar] in Hr; try contradiction.
    destruct Hr as (y & mo & d & -> & Hy & Hmo & Hd).
    apply (date_core (date_string y mo d) y mo d (date_string_plain y mo d Hy Hmo Hd) eq_refl); try lia.
    apply date_roundtrip; lia.
  Qed.

  Lemma scalar_rt_KDecimal v : rep_scalar KDecimal v ->
    exists J, (exists txt, enc_scalar fmt_float KDecimal v = Ok txt /\ txt = print J) /\ wfb J = true /\
              is_container J = false /\ J <> JNull /\
              exists v', dec_scalar KDecimal J = Ok (Some v') /\ scalar_equiv KDecimal v v'.
  Proof.
    intros Hr. destruct v; cbn [rep_scalar] in Hr; try contradiction.
    destruct Hr as (s & s' & -> & Hn & Hv).
      exists (JStr s). split; [eexists; split; [cbn [CodecEnc.enc_scalar]; unfold field_bytes; cbn [msg_get N.eqb Pos.eqb obind]; rewrite escape_spec, Hv; reflexivity|reflexivity]|].
      split; [exact Hv|]. split; [reflexivity|]. split; [discriminate|].
      exists (mk_decimal s'). split; [cbn [CodecEncDec.dec_scalar]; rewrite Hn; reflexivity|].
      exists s, s'. split; [reflexivity|]. split; [exact Hn|]. split; [reflexivity|]. apply dec_normalise_numeric. exact Hn.
  Qed.

  Lemma dec_scalar_ts s : dec_scalar KTimestamp (JStr s) =
    match parse_time s with Some (sec, ns) => Ok (Some (mk_timestamp sec ns)) | None => Err "time.Parse" end.
  Proof. reflexivity. Qed.

  Lemma enc_scalar_ts m : enc_scalar fmt_float KTimestamp (VMsg m) =
    obind (field_int 1 m) (fun s => obind (field_int 2 m) (fun ns => escape (format_rfc3339nano s ns))).
  Proof. reflexivity. Qed.

  Lemma ts_plain s ns : ts_range s ns -> Forall plain (format_rfc3339nano s ns).
  Proof.
    intros Hrange. pose proof (format_rfc3339_chars s ns Hrange) as Hc. eapply Forall_impl; [|exact Hc].
    intros c [Hd|[->|[->|[->|[->| ->]]]]]; unfold plain; try lia. unfold is_digit in Hd. lia.
  Qed.

  (* the text is kept abstract here: the kernel must not unfold the formatter when it compares
     [wfb (JStr t)] with [valid_utf8 t] *)
  Lemma ts_core t s ns m : Forall plain t -> field_int 1 m = Ok s -> field_int 2 m = Ok ns ->
    format_rfc3339nano s ns = t -> parse_time t = Some (s, ns) -> VMsg m = mk_timestamp s ns ->
    exists J, (exists txt, enc_scalar fmt_float KTimestamp (VMsg m) = Ok txt /\ txt = print J) /\ wfb J = true /\
              is_container J = false /\ J <> JNull /\
              exists v', dec_scalar KTimestamp J = Ok (Some v') /\ scalar_equiv KTimestamp (VMsg m) v'.
  Proof.
    intros Hpl H1 H2 Hfmt Hpt Hm. destruct (print_plain_str _ Hpl) as [Hp Hw].
    exists (JStr t).
    split. { exists (print (JStr t)). split; [|reflexivity].
             rewrite enc_scalar_ts, H1. unfold obind at 1. rewrite H2. unfold obind at 1. rewrite Hfmt, escape_spec.
             change (wfb (JStr t)) with (valid_utf8 t) in Hw. rewrite Hw. reflexivity. }
    split; [exact Hw|]. split; [reflexivity|]. split; [discriminate|].
    exists (mk_timestamp s ns). split; [|unfold scalar_equiv; symmetry; exact Hm].
    rewrite dec_scalar_ts, Hpt. reflexivity.
  Qed.

  Lemma scalar_rt_KTimestamp v : rep_scalar KTimestamp v ->
    exists J, (exists txt, enc_scalar fmt_float KTimestamp v = Ok txt /\ txt = print J) /\ wfb J = true /\
              is_container J = false /\ J <> JNull /\
              exists v', dec_scalar KTimestamp J = Ok (Some v') /\ scalar_equiv KTimestamp v v'.
  Proof.
    intros Hr. destruct v; cbn [rep_scalar] in Hr; try contradiction.
    destruct Hr as (s & ns & Hm & Hrange).
    destruct (field_int_mk_timestamp s ns fields Hm) as [H1 H2].
    exact (ts_core (format_rfc3339nano s ns) s ns fields (ts_plain s ns Hrange) H1 H2 eq_refl
             (Htime _ _ (parse_format_rfc3339 s ns Hrange)) Hm).
  Qed.

  Theorem scalar_roundtrip k v : rep_scalar k v ->
    exists J, (exists txt, enc_scalar fmt_float k v = Ok txt /\ txt = print J) /\ wfb J = true /\
              is_container J = false /\ J <> JNull /\
              exists v', dec_scalar k J = Ok (Some v') /\ scalar_equiv k v v'.
  Proof.
    destruct k; [apply scalar_rt_KInt32|apply scalar_rt_KInt64|apply scalar_rt_KUint32|apply scalar_rt_KUint64|
                 apply scalar_rt_KFloat32|apply scalar_rt_KFloat64|apply scalar_rt_KBool|apply scalar_rt_KString|
                 apply scalar_rt_KBytes|apply scalar_rt_KKey|apply scalar_rt_KDate|apply scalar_rt_KDecimal|
                 apply scalar_rt_KTimestamp].
  Qed.
End ScalarRT.

(* what the structural proof needs from a scalar decoding layer [dsc]: every representable scalar
   is printed as a token that [dsc] reads back to an equivalent value *)
Definition scalar_rt_ok (fmt_float : bool -> N -> bytes)
           (dsc : scalar_kind -> jvalue -> outcome (option pval)) : Prop :=
  forall k v, rep_scalar k v ->
    exists J, (exists txt, enc_scalar fmt_float k v = Ok txt /\ txt = print J) /\ wfb J = true /\
              is_container J = false /\ J <> JNull /\
              exists v', dsc k J = Ok (Some v') /\ scalar_equiv k v v'.

Lemma scalar_rt_own fmt_float parse_float parse_time :
  float_text_ok fmt_float -> float_roundtrip fmt_float parse_float -> time_parse_extends parse_time ->
  scalar_rt_ok fmt_float (dec_scalar parse_float parse_time).
Proof. intros H1 H2 H3 k v. apply scalar_roundtrip; assumption. Qed.

(* ================================================================ structure *)
(* ================================================================ message algebra *)
Lemma msg_get_put_same n v m : msg_get n (msg_put n v m) = Some v.
Proof.
  induction m as [|[k w] r IH]; cbn [msg_put msg_get].
  - rewrite N.eqb_refl. reflexivity.
  - destruct (k =? n) eqn:E.
    + cbn [msg_get]. rewrite N.eqb_refl. reflexivity.
    + destruct (n <? k) eqn:L; cbn [msg_get].
      * rewrite N.eqb_refl. reflexivity.
      * rewrite E. exact IH.
Qed.

Lemma msg_get_put_other x n v m : x <> n -> msg_get x (msg_put n v m) = msg_get x m.
Proof.
  intros H. induction m as [|[k w] r IH]; cbn [msg_put msg_get].
  - replace (n =? x) with false by lia. reflexivity.
  - destruct (k =? n) eqn:E.
    + cbn [msg_get]. replace (n =? x) with false by lia. replace (k =? x) with false by lia. reflexivity.
    + destruct (n <? k) eqn:L; cbn [msg_get].
      * replace (n =? x) with false by lia. reflexivity.
      * destruct (k =? x); [reflexivity|exact IH].
Qed.

Lemma msg_get_del_same n m : msg_get n (msg_del n m) = None.
Proof.
  induction m as [|[k w] r IH]; cbn [msg_del msg_get]; [reflexivity|].
  destruct (k =? n) eqn:E; [exact IH|]. cbn [msg_get]. rewrite E. exact IH.
Qed.

Lemma msg_get_del_other x n m : x <> n -> msg_get x (msg_del n m) = msg_get x m.
Proof.
  intros H. induction m as [|[k w] r IH]; cbn [msg_del msg_get]; [reflexivity|].
  destruct (k =? n) eqn:E.
  - replace (k =? x) with false by lia. exact IH.
  - cbn [msg_get]. destruct (k =? x); [reflexivity|exact IH].
Qed.

Lemma msg_get_clear_all x S : forall m,
  msg_get x (msg_clear_all S m) = if existsb (N.eqb x) S then None else msg_get x m.
Proof.
  unfold msg_clear_all. induction S as [|s r IH]; intros m; cbn [fold_left existsb]; [reflexivity|].
  rewrite IH. destruct (existsb (N.eqb x) r) eqn:Er; [rewrite orb_true_r; reflexivity|].
  rewrite orb_false_r. destruct (x =? s) eqn:E.
  - apply N.eqb_eq in E. subst. apply msg_get_del_same.
  - apply msg_get_del_other. lia.
Qed.

(* a value that Set keeps: explicit presence or non-zero, and not an empty list / map *)
Definition kept (explicit : bool) (v : pval) : bool :=
  match v with
  | VList [] | VMap [] => false
  | _ => explicit || negb (is_zero v)
  end.

Lemma msg_set_kept e S n v m : kept e v = true ->
  msg_set e S n v m = msg_put n v (msg_clear_all S m).
Proof.
  unfold kept, msg_set. intros H.
  destruct v as [z|b|s|s|bits|z|fs|[|a l]|[|a l]]; try discriminate;
    destruct e; cbn [orb negb] in *; try reflexivity; try (rewrite negb_true_iff in H; rewrite H; reflexivity).
Qed.

Lemma msg_get_set_same e S n v m : kept e v = true -> msg_get n (msg_set e S n v m) = Some v.
Proof. intros H. rewrite msg_set_kept by exact H. apply msg_get_put_same. Qed.

Lemma msg_get_set_other e S n v m x : kept e v = true -> x <> n ->
  msg_get x (msg_set e S n v m) = if existsb (N.eqb x) S then None else msg_get x m.
Proof. intros H Hx. rewrite msg_set_kept by exact H. rewrite msg_get_put_other by exact Hx. apply msg_get_clear_all. Qed.

Lemma msg_get_set_nosib_other e n v m x : x <> n -> msg_get x (msg_set e [] n v m) = msg_get x m.
Proof.
  intros Hx. unfold msg_set.
  assert (Hd : msg_get x (msg_del n m) = msg_get x m) by (apply msg_get_del_other; exact Hx).
  assert (Hp : msg_get x (msg_put n v (msg_clear_all [] m)) = msg_get x m) by (apply msg_get_put_other; exact Hx).
  destruct v as [z|b|s|s|bits|z|fs|[|a l]|[|a l]]; try exact Hd;
    destruct (negb e && _); assumption.
Qed.

Lemma sfield_set_bytes n b m : sfield n (msg_set false [] n (VBytes b) m) = b.
Proof.
  unfold sfield, msg_set. destruct b as [|c r]; cbn [negb andb is_zero].
  - rewrite msg_get_del_same. reflexivity.
  - rewrite msg_get_put_same. reflexivity.
Qed.

Lemma sfield_set_str n b m : sfield n (msg_set false [] n (VStr b) m) = b.
Proof.
  unfold sfield, msg_set. destruct b as [|c r]; cbn [negb andb is_zero].
  - rewrite msg_get_del_same. reflexivity.
  - rewrite msg_get_put_same. reflexivity.
Qed.

Lemma sfield_set_other e n v m x : x <> n -> sfield x (msg_set e [] n v m) = sfield x m.
Proof. intros Hx. unfold sfield. rewrite msg_get_set_nosib_other by exact Hx. reflexivity. Qed.

(* ================================================================ paths *)
(* the message a proto path leads to when every intermediate message is created on demand *)
Fixpoint hole (a : list N) (m : msg) : msg :=
  match a with
  | [] => m
  | x :: r => match msg_get x m with Some (VMsg s) => hole r s | _ => hole r [] end
  end.

Lemma present_nil_msg path : present path [] = None.
Proof. destruct path as [|n [|n2 r]]; reflexivity. Qed.

Lemma present_app a r m : r <> [] -> present (a ++ r) m = present r (hole a m).
Proof.
  intros Hr. revert m. induction a as [|x a IH]; intros m; [reflexivity|].
  cbn [app hole]. destruct (a ++ r) as [|y t] eqn:E.
  { destruct a; [cbn in E; congruence|discriminate]. }
  change (present (x :: y :: t) m) with (match msg_get x m with Some (VMsg sub) => present (y :: t) sub | _ => None end).
  destruct (msg_get x m) as [[]|]; try apply IH; rewrite <- (IH []); destruct t; reflexivity.
Qed.

Lemma present_cons_congr x rq m m' : msg_get x m' = msg_get x m -> present (x :: rq) m' = present (x :: rq) m.
Proof. intros H. destruct rq as [|y t]; cbn [present]; rewrite H; reflexivity. Qed.

Definition sub_at (z : N) (m : msg) : msg := match msg_get z m with Some (VMsg s) => s | _ => [] end.

Lemma mutable_nil_cases z m : exists m1,
  msg_mutable [] z m = (sub_at z m, m1) /\ (forall x, x <> z -> msg_get x m1 = msg_get x m).
Proof.
  unfold msg_mutable, sub_at. destruct (msg_get z m) as [[]|] eqn:Ez;
    try (eexists; split; [reflexivity|]; intros x Hx; cbn [msg_clear_all fold_left]; apply msg_get_put_other; exact Hx).
  eexists; split; [reflexivity|]. intros; reflexivity.
Qed.

Lemma hole_cons z a m : hole (z :: a) m = hole a (sub_at z m).
Proof. unfold sub_at. cbn [hole]. destruct (msg_get z m) as [[]|]; reflexivity. Qed.

(* holder runs [k] on the hole of the path's prefix and rebuilds the messages on the way back *)
Lemma holder_spec a n k : forall m h',
  k n (hole a m) = Ok h' ->
  exists m', holder (a ++ [n]) m k = Ok m' /\ hole a m' = h' /\
    (forall c x y ra rq, a = c ++ y :: ra -> x <> y ->
       present (c ++ x :: rq) m' = present (c ++ x :: rq) m).
Proof.
  induction a as [|z a IH]; intros m h' Hk.
  - cbn [app holder hole] in *. exists h'. split; [exact Hk|]. split; [reflexivity|].
    intros c x y ra rq E. destruct c; discriminate.
  - rewrite hole_cons in Hk.
    assert (Hstep : holder ((z :: a) ++ [n]) m k =
                    let '(sub, m1) := msg_mutable [] z m in
                    obind (holder (a ++ [n]) sub k) (fun sub' => Ok (msg_put z (VMsg sub') m1))).
    { cbn [app]. destruct (a ++ [n]) as [|y t] eqn:E; [destruct a; discriminate|]. reflexivity. }
    rewrite Hstep. clear Hstep. destruct (mutable_nil_cases z m) as (m1 & Hmm & Hm1). rewrite Hmm.
    destruct (IH (sub_at z m) h' Hk) as (sub' & Hh & Hhole & Hframe).
    rewrite Hh. cbn [obind].
    exists (msg_put z (VMsg sub') m1). split; [reflexivity|]. split.
    + rewrite hole_cons. unfold sub_at. rewrite msg_get_put_same. exact Hhole.
    + intros c x y ra rq E Hxy. destruct c as [|c0 c]; cbn [app] in E.
      * injection E as <- _. cbn [app]. apply present_cons_congr.
        rewrite msg_get_put_other by exact Hxy. apply Hm1. exact Hxy.
      * injection E as <- E. cbn [app].
        assert (Hne : c ++ x :: rq <> []) by (destruct c; discriminate).
        destruct (c ++ x :: rq) as [|q0 qr] eqn:Eq; [congruence|].
        change (present (z :: q0 :: qr) (msg_put z (VMsg sub') m1)) with
          (match msg_get z (msg_put z (VMsg sub') m1) with Some (VMsg s) => present (q0 :: qr) s | _ => None end).
        change (present (z :: q0 :: qr) m) with
          (match msg_get z m with Some (VMsg s) => present (q0 :: qr) s | _ => None end).
        rewrite msg_get_put_same. rewrite <- Eq. rewrite (Hframe c x y ra rq E Hxy).
        unfold sub_at. destruct (msg_get z m) as [[]|]; try reflexivity; apply present_nil_msg.
Qed.

Lemma oneof_conflict_clear a n S : forall m,
  (forall s, In s S -> msg_get s (hole a m) = None) -> oneof_conflict (a ++ [n]) S m = false.
Proof.
  induction a as [|x a IH]; intros m H.
  - cbn [app oneof_conflict]. cbn [hole] in H. apply not_true_is_false. intros E.
    apply existsb_exists in E as (s & Hs & Hh). unfold msg_has in Hh. rewrite (H s Hs) in Hh. discriminate.
  - assert (Hstep : oneof_conflict ((x :: a) ++ [n]) S m =
                    match msg_get x m with Some (VMsg sub) => oneof_conflict (a ++ [n]) S sub | _ => false end).
    { cbn [app]. destruct (a ++ [n]) eqn:E; [destruct a; discriminate|]. reflexivity. }
    rewrite Hstep. destruct (msg_get x m) as [[]|] eqn:Ex; try reflexivity.
    apply IH. intros s Hs. specialize (H s Hs). rewrite hole_cons in H. unfold sub_at in H. rewrite Ex in H. exact H.
Qed.

Lemma present_last a n m : present (a ++ [n]) m = msg_get n (hole a m).
Proof. rewrite present_app by discriminate. reflexivity. Qed.

(* ================================================================ representable messages, equivalence *)
Inductive opt_rel {A} (R : A -> A -> Prop) : option A -> option A -> Prop :=
| OR_none : opt_rel R None None
| OR_some x y : R x y -> opt_rel R (Some x) (Some y).

Definition paths_diverge (p q : list N) : Prop :=
  exists c x y rp rq, p = c ++ x :: rp /\ q = c ++ y :: rq /\ x <> y.

Section RT.
  Variable fmt_float : bool -> N -> bytes.
  Variable any_inner : bytes -> bytes -> outcome bytes.
  Variable dsc : scalar_kind -> jvalue -> outcome (option pval).
  Variable raw : jvalue -> bytes.
  Hypothesis Hraw_ne : forall j, wfb j = true -> raw j <> [].
  Variable mapchk : bool.
  Variable any_back : option (bytes -> bytes -> outcome bytes).
  Variable env : env.

  (* the properties whose proto path addresses a field: an exposed oneof stands for its members *)
  Definition prop_leaves (p : property) : list property :=
    match p_path p with
    | [] => match p_ty p with
            | FOneof r => match lookup env r with Some (SOneof qs) => qs | _ => [] end
            | _ => []
            end
    | _ => [p]
    end.
  Definition leaves (ps : list property) : list property := flat_map prop_leaves ps.

  (* static sanity of a property list (what the reflector produces for a proto message) *)
  Record props_ok (ps : list property) : Prop := {
    po_names : NoDup (map p_json ps);
    po_nodup : NoDup (leaves ps);
    po_paths : forall l, In l (leaves ps) -> p_path l <> [];
    po_diverge : forall l1 l2, In l1 (leaves ps) -> In l2 (leaves ps) -> l1 <> l2 ->
                 paths_diverge (p_path l1) (p_path l2);
    po_siblings : forall l a n s, In l (leaves ps) -> p_path l = a ++ [n] -> In s (p_siblings l) ->
                  s <> n /\ exists l2, In l2 (leaves ps) /\ p_path l2 = a ++ [s];
    po_exposed : forall p, In p ps -> p_path p = [] ->
                 exists r qs, p_ty p = FOneof r /\ lookup env r = Some (SOneof qs);
    po_utf8 : forall p, In p ps -> valid_utf8 (p_json p) = true;
    po_utf8_leaves : forall l, In l (leaves ps) -> valid_utf8 (p_json l) = true
  }.

  (* the JSON text encodeAny emits for the payload of a j5 Any *)
  Definition any_text (m : msg) : outcome bytes :=
    match msg_get 3 m with
    | Some (VBytes js) => Ok js
    | _ => any_inner (sfield 1 m) (sfield 2 m)
    end.

  (* arrays and maps hold scalars, enums, objects or oneofs (the classes the reflector builds) *)
  Definition item_ok (t : field_ty) : bool :=
    match t with FScalar _ | FEnum _ | FObject _ | FOneof _ => true | _ => false end.

  (* members of an exposed oneof property *)
  Definition exposed_members (p : property) : list property :=
    match p_path p with [] => prop_leaves p | _ => [] end.

  Inductive rep_value : field_ty -> pval -> Prop :=
  | RV_scalar k v : rep_scalar k v -> rep_value (FScalar k) v
  | RV_enum r pre opts n name :
      (* n is a declared number of the enum; that its option name reads back as n is DERIVED
         (option_by_name_inverse) from the schema condition "option names are distinct" *)
      lookup env r = Some (SEnum pre opts) -> option_by_number opts n = Some name ->
      NoDup (map fst opts) -> valid_utf8 name = true -> rep_value (FEnum r) (VEnum n)
  | RV_object r ps m :
      lookup env r = Some (SObject ps) -> rep_props ps m -> rep_value (FObject r) (VMsg m)
  | RV_oneof r ps m :
      lookup env r = Some (SOneof ps) -> rep_props ps m ->
      (forall q1 q2, In q1 ps -> In q2 ps ->
         present (p_path q1) m <> None -> present (p_path q2) m <> None -> q1 = q2) ->
      rep_value (FOneof r) (VMsg m)
  | RV_array it l :
      l <> [] -> item_ok it = true -> Forall (rep_value it) l -> rep_value (FArray it) (VList l)
  | RV_map it es :
      es <> [] -> item_ok it = true -> NoDup (map fst es) -> Forall (fun kv => rep_value it (snd kv)) es ->
      Forall (fun kv => valid_utf8 (fst kv) = true) es ->
      rep_value (FMap it) (VMap es)
  | RV_any m :
      (* a j5 Any: the type name is text, the payload is JSON text that the encoder can produce *)
      valid_utf8 (sfield 1 m) = true ->
      (forall n v, msg_get n m = Some v -> (n = 1 /\ exists s, v = VStr s) \/ (n = 2 /\ exists s, v = VBytes s) \/ (n = 3 /\ exists s, v = VBytes s)) ->
      (forall s, msg_get 3 m = Some (VBytes s) -> compact_json s) ->
      (exists t, any_text m = Ok t) ->
      (* with WithProtoToAny the decoder also converts the payload text back to proto bytes *)
      (forall back Jd, any_back = Some back -> wfb Jd = true -> any_text m = Ok (print Jd) ->
                       exists pb', back (sfield 1 m) (raw Jd) = Ok pb') ->
      rep_value (FAny false) (VMsg m)
  | RV_pbany m tn :
      (* a google.protobuf.Any: type URL with the standard prefix, payload bytes that the inner codec
         can encode; it can be decoded only with WithProtoToAny, and the reverse conversion of the
         payload text must succeed *)
      sfield 1 m = any_prefix ++ tn -> valid_utf8 tn = true ->
      (forall n v, msg_get n m = Some v -> (n = 1 /\ exists s, v = VStr s) \/ (n = 2 /\ exists s, v = VBytes s)) ->
      (exists t, any_inner tn (sfield 2 m) = Ok t) ->
      (exists back, any_back = Some back /\
         forall Jd, wfb Jd = true -> any_inner tn (sfield 2 m) = Ok (print Jd) -> exists pb', back tn (raw Jd) = Ok pb') ->
      rep_value (FAny true) (VMsg m)
  (* every populated leaf holds a representable value that Set keeps, no two members of one
     proto oneof are populated, at most one member of an exposed oneof *)
  with rep_props : list property -> msg -> Prop :=
  | RP ps m :
      props_ok ps ->
      (forall l v, In l (leaves ps) -> present (p_path l) m = Some v ->
         rep_value (p_ty l) v /\ kept (p_explicit l) v = true) ->
      (forall l a n s v, In l (leaves ps) -> p_path l = a ++ [n] -> present (p_path l) m = Some v ->
         In s (p_siblings l) -> msg_get s (hole a m) = None) ->
      (forall p q1 q2, In p ps -> In q1 (exposed_members p) -> In q2 (exposed_members p) ->
         present (p_path q1) m <> None -> present (p_path q2) m <> None -> q1 = q2) ->
      rep_props ps m.

  Inductive equiv_value : field_ty -> pval -> pval -> Prop :=
  | EV_scalar k v v' : scalar_equiv k v v' -> equiv_value (FScalar k) v v'
  | EV_enum r v : equiv_value (FEnum r) v v
  | EV_object r ps a b :
      lookup env r = Some (SObject ps) -> equiv_props ps a b -> equiv_value (FObject r) (VMsg a) (VMsg b)
  | EV_oneof r ps a b :
      lookup env r = Some (SOneof ps) -> equiv_props ps a b -> equiv_value (FOneof r) (VMsg a) (VMsg b)
  | EV_array it l l' : Forall2 (equiv_value it) l l' -> equiv_value (FArray it) (VList l) (VList l')
  | EV_map it es es' :
      Forall2 (fun kv kv' => fst kv = fst kv' /\ equiv_value it (snd kv) (snd kv')) es es' ->
      equiv_value (FMap it) (VMap es) (VMap es')
  | EV_any m m' Jd :
      (* same type name; the stored payload is [raw] of the JSON value the encoder embedded *)
      sfield 1 m' = sfield 1 m -> wfb Jd = true -> any_text m = Ok (print Jd) ->
      msg_get 3 m' = Some (VBytes (raw Jd)) ->
      equiv_value (FAny false) (VMsg m) (VMsg m')
  | EV_pbany m m' tn Jd back :
      (* same type URL; the value bytes are what the reverse conversion yields for the JSON value the
         forward conversion produced (that the pair is inverse is the inner codec's own round trip) *)
      sfield 1 m = any_prefix ++ tn -> sfield 1 m' = sfield 1 m -> wfb Jd = true ->
      any_inner tn (sfield 2 m) = Ok (print Jd) -> any_back = Some back ->
      back tn (raw Jd) = Ok (sfield 2 m') ->
      equiv_value (FAny true) (VMsg m) (VMsg m')
  (* equal property by property: hence an empty flattened sub-message and an absent one agree *)
  with equiv_props : list property -> msg -> msg -> Prop :=
  | EP ps a b :
      (forall l, In l (leaves ps) -> opt_rel (equiv_value (p_ty l)) (present (p_path l) a) (present (p_path l) b)) ->
      equiv_props ps a b.

  (* ---------------------------------------------------------------- one leaf is written *)
  Lemma snoc_split {A} (a : list A) n c x rp : a ++ [n] = c ++ x :: rp ->
    (rp = [] /\ c = a /\ x = n) \/ (exists rp', rp = rp' ++ [n] /\ a = c ++ x :: rp').
  Proof.
    revert c. induction a as [|z a IH]; intros c E.
    - destruct c as [|c0 c]; cbn [app] in E.
      + injection E as <- <-. left. repeat split; reflexivity.
      + injection E as _ E. destruct c; discriminate.
    - destruct c as [|c0 c]; cbn [app] in E.
      + injection E as <- <-. right. exists a. split; reflexivity.
      + injection E as <- E. destruct (IH c E) as [(-> & -> & ->)|(rp' & -> & ->)].
        * left. repeat split; reflexivity.
        * right. exists rp'. split; reflexivity.
  Qed.

  Definition setter_ok (S : list N) (n : N) (v' : pval) (h h' : msg) : Prop :=
    msg_get n h' = Some v' /\
    forall x, x <> n -> msg_get x h' = if existsb (N.eqb x) S then None else msg_get x h.

  Lemma leaf_frame ps l a n k acc h' v' :
    props_ok ps -> In l (leaves ps) -> p_path l = a ++ [n] ->
    k n (hole a acc) = Ok h' -> setter_ok (p_siblings l) n v' (hole a acc) h' ->
    exists acc', holder (p_path l) acc k = Ok acc' /\
      present (p_path l) acc' = Some v' /\
      forall l2, In l2 (leaves ps) -> l2 <> l ->
        present (p_path l2) acc' = present (p_path l2) acc \/
        (present (p_path l2) acc' = None /\ exists s, In s (p_siblings l) /\ p_path l2 = a ++ [s]).
  Proof.
    intros Hok Hl Hp Hk [U1 U2]. rewrite Hp.
    destruct (holder_spec a n k acc h' Hk) as (acc' & Hh & Hhole & Hframe).
    exists acc'. split; [exact Hh|]. split.
    - rewrite present_last, Hhole. exact U1.
    - intros l2 Hl2 Hne.
      destruct (po_diverge ps Hok l l2 Hl Hl2 ltac:(congruence)) as (c & x & y & rp & rq & E1 & E2 & Hxy).
      rewrite Hp in E1. destruct (snoc_split a n c x rp E1) as [(-> & -> & ->)|(rp' & -> & Ea)].
      + (* same holder, another field *)
        rewrite E2. rewrite !(present_app a (y :: rq)) by discriminate. rewrite Hhole.
        destruct (existsb (N.eqb y) (p_siblings l)) eqn:Es.
        * right. assert (Hy : msg_get y h' = None) by (rewrite U2 by congruence; rewrite Es; reflexivity).
          apply existsb_exists in Es as (s & Hs & Hys). apply N.eqb_eq in Hys. subst s.
          split; [destruct rq; cbn [present]; rewrite Hy; reflexivity|].
          exists y. split; [exact Hs|].
          destruct (po_siblings ps Hok l a n y Hl Hp Hs) as (_ & l3 & Hl3 & Hp3).
          destruct rq as [|q0 rq]; [reflexivity|]. exfalso.
          assert (Hd : l3 <> l2) by (intros ->; rewrite E2 in Hp3; apply app_inv_head in Hp3; discriminate).
          destruct (po_diverge ps Hok l3 l2 Hl3 Hl2 Hd) as (c' & x' & y' & r1 & r2 & F1 & F2 & Hne').
          rewrite Hp3 in F1. rewrite E2 in F2.
          (* a ++ [y] and a ++ y :: q0 :: rq cannot diverge *)
          clear - F1 F2 Hne'. revert c' F1 F2. induction a as [|z a IH]; intros c' F1 F2.
          -- destruct c' as [|c0 c']; cbn [app] in *.
             ++ injection F1 as -> _. injection F2 as -> _. congruence.
             ++ injection F1 as _ F1. destruct c'; discriminate.
          -- destruct c' as [|c0 c']; cbn [app] in *.
             ++ injection F1 as -> _. injection F2 as -> _. congruence.
             ++ injection F1 as _ F1. injection F2 as _ F2. eapply IH; eassumption.
        * left. apply present_cons_congr. rewrite U2 by congruence. rewrite Es. reflexivity.
      + left. rewrite E2. apply (Hframe c y x rp' rq Ea). congruence.
  Qed.

  (* ---------------------------------------------------------------- the invariant of a member loop *)
  Definition Inv (L : list property) (m : msg) (D : list property) (acc : msg) : Prop :=
    (forall l, In l D -> In l L ->
       opt_rel (equiv_value (p_ty l)) (present (p_path l) m) (present (p_path l) acc)) /\
    (forall l, In l L -> ~ In l D -> present (p_path l) acc = None).

  Lemma inv_step ps m D acc acc' l a n v v' :
    props_ok ps -> rep_props ps m -> Inv (leaves ps) m D acc ->
    In l (leaves ps) -> ~ In l D -> p_path l = a ++ [n] ->
    present (p_path l) m = Some v -> equiv_value (p_ty l) v v' ->
    present (p_path l) acc' = Some v' ->
    (forall l2, In l2 (leaves ps) -> l2 <> l ->
        present (p_path l2) acc' = present (p_path l2) acc \/
        (present (p_path l2) acc' = None /\ exists s, In s (p_siblings l) /\ p_path l2 = a ++ [s])) ->
    Inv (leaves ps) m (l :: D) acc'.
  Proof.
    intros Hok Hrep [I1 I2] Hl HnD Hp Hm Heq Hset Hframe.
    inversion Hrep as [? ? _ _ Hexcl _]; subst.
    split.
    - intros l' [<-|Hin] HL.
      + rewrite Hm, Hset. constructor. exact Heq.
      + assert (Hne : l' <> l) by (intros ->; contradiction).
        destruct (Hframe l' HL Hne) as [->|(Hnone & s & Hs & Hp')].
        * apply I1; assumption.
        * rewrite Hnone. rewrite Hp', present_last. rewrite (Hexcl l a n s v Hl Hp Hm Hs). constructor.
    - intros l' HL HnD'.
      assert (Hne : l' <> l) by (intros ->; apply HnD'; left; reflexivity).
      assert (HnD2 : ~ In l' D) by (intros H; apply HnD'; right; exact H).
      destruct (Hframe l' HL Hne) as [->|(Hnone & _)]; [apply I2; assumption|exact Hnone].
  Qed.

  (* ---------------------------------------------------------------- one step of each decoder function *)
  Notation dec_scalar := dsc.
  Notation dec_value := (dec_value dsc raw mapchk any_back env).
  Notation dec_member := (dec_member dsc raw mapchk any_back env).
  Notation dec_members := (dec_members dsc raw mapchk any_back env).
  Notation dec_oneof := (dec_oneof dsc raw mapchk any_back env).
  Notation dec_items := (dec_items dsc raw mapchk any_back env).
  Notation dec_entries := (dec_entries dsc raw mapchk any_back env).

  Lemma dec_member_S f d p j m seen :
    dec_member (S f) d p j m seen =
      if max_nesting <? d + 1 then Err "exceeded max depth" else
      match j with
      | JNull => Ok (m, seen)
      | _ => if mem_b (p_json p) seen then Err "field is already set"
             else if oneof_conflict (p_path p) (p_siblings p) m then Err "conflicts with another member of the oneof"
             else obind (dec_value f (d + 1) p j m) (fun m' => Ok (m', p_json p :: seen))
      end.
  Proof. reflexivity. Qed.

  Lemma dec_members_S f d props ms m seen :
    dec_members (S f) d props ms m seen =
      match ms with
      | [] => Ok m
      | (k, v) :: r =>
          match find_prop props k with
          | None => Err "no such field"
          | Some p => obind (dec_member f d p v m seen) (fun ms' => dec_members f d props r (fst ms') (snd ms'))
          end
      end.
  Proof. reflexivity. Qed.

  Lemma dec_oneof_S f d props ms m seen found constrain :
    dec_oneof (S f) d props ms m seen found constrain =
      match ms with
      | [] => oneof_post props m found constrain
      | (k, v) :: r =>
          if bytes_eqb k txt_type then
            match v with
            | JStr s => dec_oneof f d props r m seen found (Some s)
            | _ => Err "unexpected token, expected string"
            end
          else
            match find_prop props k with
            | None => Err "no such key"
            | Some p => obind (dec_member f d p v m seen) (fun ms' =>
                          dec_oneof f d props r (fst ms') (snd ms') (found ++ [k]) constrain)
            end
      end.
  Proof. reflexivity. Qed.

  Lemma dec_value_S f d p j m :
    dec_value (S f) d p j m =
      match p_ty p with
      | FScalar k =>
          if is_container j then Err "unexpected token, expected scalar"
          else obind (dec_scalar k j) (fun v =>
                 holder (p_path p) m (fun n h =>
                   Ok (match v with
                       | None => msg_del n h
                       | Some x => msg_set (p_explicit p) (p_siblings p) n x h
                       end)))
      | FEnum r =>
          match j with
          | JStr s =>
              match lookup env r with
              | Some (SEnum prefix opts) =>
                  match option_by_name prefix opts s with
                  | Some z => holder (p_path p) m (fun n h => Ok (msg_set (p_explicit p) (p_siblings p) n (VEnum z) h))
                  | None => Err "enum value not found"
                  end
              | _ => Err "schema"
              end
          | _ => Err "unexpected token, expected string"
          end
      | FObject r =>
          match j, lookup env r with
          | JObj ms, Some (SObject props) =>
              holder (p_path p) m (fun n h =>
                let '(sub, h1) := msg_mutable (p_siblings p) n h in
                obind (dec_members f d props ms sub []) (fun sub' => Ok (msg_put n (VMsg sub') h1)))
          | JObj _, _ => Err "schema"
          | _, _ => Err "unexpected token, expected {"
          end
      | FOneof r =>
          match j, lookup env r with
          | JObj ms, Some (SOneof props) =>
              match p_path p with
              | [] => dec_oneof f d props ms m [] [] None
              | path =>
                  holder path m (fun n h =>
                    let '(sub, h1) := msg_mutable (p_siblings p) n h in
                    obind (dec_oneof f d props ms sub [] [] None) (fun sub' => Ok (msg_put n (VMsg sub') h1)))
              end
          | JObj _, _ => Err "schema"
          | _, _ => Err "unexpected token, expected {"
          end
      | FArray it =>
          match j with
          | JArr js =>
              holder (p_path p) m (fun n h =>
                let existing := match msg_get n h with Some (VList l) => l | _ => [] end in
                obind (dec_items f d it js existing) (fun l => Ok (msg_set true (p_siblings p) n (VList l) h)))
          | _ => Err "unexpected token, expected ["
          end
      | FMap it =>
          match j with
          | JObj ms =>
              holder (p_path p) m (fun n h =>
                let existing := match msg_get n h with Some (VMap l) => l | _ => [] end in
                obind (dec_entries f d it ms existing []) (fun l => Ok (msg_set true (p_siblings p) n (VMap l) h)))
          | _ => Err "unexpected token, expected {"
          end
      | FAny pb =>
          match j with
          | JObj ms =>
              holder (p_path p) m (fun n h =>
                let '(sub, h1) := msg_mutable (p_siblings p) n h in
                obind (any_members ms None None) (fun vt =>
                  match snd vt, fst vt with
                  | None, _ => Err "no type found in Any"
                  | _, None => Err "no value found in Any"
                  | Some tn, Some v =>
                      match any_back with
                      | None =>
                          if pb then Err "proto is required for PB Any"
                          else Ok (msg_put n (VMsg (msg_set false [] 3 (VBytes (raw v)) (msg_set false [] 1 (VStr tn) sub))) h1)
                      | Some back =>
                          obind (back tn (raw v)) (fun pbytes =>
                            if pb then
                              Ok (msg_put n (VMsg (msg_set false [] 2 (VBytes pbytes) (msg_set false [] 1 (VStr (any_prefix ++ tn)) sub))) h1)
                            else
                              Ok (msg_put n (VMsg (msg_set false [] 3 (VBytes (raw v)) (msg_set false [] 2 (VBytes pbytes)
                                                    (msg_set false [] 1 (VStr tn) sub)))) h1))
                      end
                  end))
          | _ => Err "unexpected token, expected {"
          end
      end.
  Proof. reflexivity. Qed.

  (* a setter that stores a kept value *)
  Lemma setter_set e S n v h : kept e v = true -> setter_ok S n v h (msg_set e S n v h).
  Proof.
    intros H. split; [apply msg_get_set_same; exact H|]. intros x Hx. apply msg_get_set_other; assumption.
  Qed.

  (* ... and the message-typed one on a field that is not populated yet *)
  Lemma setter_fresh_msg S n b h : msg_get n h = None ->
    msg_mutable S n h = ([], msg_put n (VMsg []) (msg_clear_all S h)) /\
    setter_ok S n (VMsg b) h (msg_put n (VMsg b) (msg_put n (VMsg []) (msg_clear_all S h))).
  Proof.
    intros H. split; [unfold msg_mutable; rewrite H; reflexivity|]. split.
    - apply msg_get_put_same.
    - intros x Hx. rewrite !msg_get_put_other by exact Hx. apply msg_get_clear_all.
  Qed.

  (* ---------------------------------------------------------------- measures *)
  Definition lsize (ms : list (bytes * jvalue)) : nat := fold_right (fun kv a => (jsize (snd kv) + a)%nat) O ms.
  Definition asize (js : list jvalue) : nat := fold_right (fun x a => (jsize x + a)%nat) O js.
  Lemma jsize_obj ms : jsize (JObj ms) = S (lsize ms). Proof. reflexivity. Qed.
  Lemma jsize_arr js : jsize (JArr js) = S (asize js). Proof. reflexivity. Qed.
  Lemma jsize_pos j : (1 <= jsize j)%nat. Proof. destruct j; cbn [jsize]; lia. Qed.

  (* how many property levels a value opens (the decoder counts them against maxNestingDepth) *)
  Fixpoint jnest (j : jvalue) : nat :=
    match j with
    | JObj ms => S (fold_right (fun kv a => Nat.max (jnest (snd kv)) a) O ms)
    | JArr js => fold_right (fun x a => Nat.max (jnest x) a) O js
    | _ => O
    end.
  Definition lnest (ms : list (bytes * jvalue)) : nat := fold_right (fun kv a => Nat.max (jnest (snd kv)) a) O ms.
  Definition anest (js : list jvalue) : nat := fold_right (fun x a => Nat.max (jnest x) a) O js.
  Lemma jnest_obj ms : jnest (JObj ms) = S (lnest ms). Proof. reflexivity. Qed.
  Lemma jnest_arr js : jnest (JArr js) = anest js. Proof. reflexivity. Qed.

  Definition depth_ok (d : N) (k : nat) : Prop := d + N.of_nat k <= max_nesting.

  (* ---------------------------------------------------------------- what reading a printed value achieves *)
  Definition ObjDec (ps : list property) (m : msg) (ms : list (bytes * jvalue)) : Prop :=
    forall F d, (3 * lsize ms + 3 <= F)%nat -> depth_ok d (S (lnest ms)) ->
    exists b, dec_members F d ps ms [] [] = Ok b /\ equiv_props ps m b.

  Definition OneofDec (ps : list property) (m : msg) (ms : list (bytes * jvalue)) : Prop :=
    forall F d ps0 acc D, (3 * lsize ms + 3 <= F)%nat -> depth_ok d (S (lnest ms)) ->
      props_ok ps0 -> rep_props ps0 m -> (forall q, In q ps -> In q (leaves ps0)) ->
      Inv (leaves ps0) m D acc -> (forall q, In q ps -> ~ In q D) ->
      exists acc', dec_oneof F d ps ms acc [] [] None = Ok acc' /\ Inv (leaves ps0) m (ps ++ D) acc'.

  (* what decodeAny stores in a fresh Any message for the value member Jv and the type name tn *)
  Definition any_stored (pb : bool) (tn : bytes) (Jv : jvalue) : outcome msg :=
    match any_back with
    | None =>
        if pb then Err "proto is required for PB Any"
        else Ok (msg_set false [] 3 (VBytes (raw Jv)) (msg_set false [] 1 (VStr tn) []))
    | Some back =>
        obind (back tn (raw Jv)) (fun pbytes =>
          if pb then Ok (msg_set false [] 2 (VBytes pbytes) (msg_set false [] 1 (VStr (any_prefix ++ tn)) []))
          else Ok (msg_set false [] 3 (VBytes (raw Jv)) (msg_set false [] 2 (VBytes pbytes) (msg_set false [] 1 (VStr tn) []))))
    end.

  Definition dec_ok_value (t : field_ty) (v : pval) (J : jvalue) : Prop :=
    match t with
    | FScalar k =>
        is_container J = false /\
        exists v', dec_scalar k J = Ok (Some v') /\ scalar_equiv k v v' /\ (forall e, kept e v = true -> kept e v' = true)
    | FEnum r =>
        exists pre opts s n, lookup env r = Some (SEnum pre opts) /\ J = JStr s /\
                             option_by_name pre opts s = Some n /\ v = VEnum n
    | FObject r =>
        exists ps ms m, lookup env r = Some (SObject ps) /\ J = JObj ms /\ v = VMsg m /\ ObjDec ps m ms
    | FOneof r =>
        exists ps ms m, lookup env r = Some (SOneof ps) /\ J = JObj ms /\ v = VMsg m /\ OneofDec ps m ms
    | FArray it =>
        exists js l, J = JArr js /\ v = VList l /\
          forall F d, (3 * asize js + 3 <= F)%nat -> depth_ok d (anest js) ->
          exists l', dec_items F d it js [] = Ok l' /\ Forall2 (equiv_value it) l l' /\ l' <> []
    | FMap it =>
        exists ms es, J = JObj ms /\ v = VMap es /\
          forall F d, (3 * lsize ms + 3 <= F)%nat -> depth_ok d (lnest ms) ->
          exists es', dec_entries F d it ms [] [] = Ok es' /\
                      Forall2 (fun kv kv' => fst kv = fst kv' /\ equiv_value it (snd kv) (snd kv')) es es' /\ es' <> []
    | FAny pb =>
        exists ms m tn Jv sub', J = JObj ms /\ v = VMsg m /\ any_members ms None None = Ok (Some Jv, Some tn) /\
                                any_stored pb tn Jv = Ok sub' /\ equiv_value (FAny pb) (VMsg m) (VMsg sub')
    end.

  (* ---------------------------------------------------------------- a leaf property reads its printed value *)
  Lemma kept_list l : l <> [] -> kept true (VList l) = true.
  Proof. destruct l; [congruence|reflexivity]. Qed.
  Lemma kept_map l : l <> [] -> kept true (VMap l) = true.
  Proof. destruct l; [congruence|reflexivity]. Qed.

  Lemma find_prop_nodup ps p : NoDup (map p_json ps) -> In p ps -> find_prop ps (p_json p) = Some p.
  Proof.
    induction ps as [|q r IH]; intros Hnd Hin; [contradiction|]. cbn [map] in Hnd. inversion Hnd as [|? ? Hni Hnd']; subst.
    cbn [find_prop]. destruct Hin as [->|Hin].
    - assert (E : bytes_eqb (p_json p) (p_json p) = true).
      { clear. induction (p_json p) as [|c s IHs]; [reflexivity|]. cbn [bytes_eqb]. rewrite N.eqb_refl, IHs. reflexivity. }
      rewrite E. reflexivity.
    - destruct (bytes_eqb (p_json q) (p_json p)) eqn:E.
      + exfalso. apply Hni.
        assert (Heq : p_json q = p_json p).
        { clear - E. revert E. generalize (p_json p). induction (p_json q) as [|c s IHs]; intros [|c' s'] E; try discriminate; [reflexivity|].
          cbn [bytes_eqb] in E. apply andb_true_iff in E as [E1 E2]. apply N.eqb_eq in E1. subst. f_equal. apply IHs. exact E2. }
        rewrite Heq. apply in_map. exact Hin.
      + apply IH; assumption.
  Qed.

  Lemma field_ty_eq_dec : forall a b : field_ty, {a = b} + {a <> b}.
  Proof.
    decide equality; try apply Bool.bool_dec; try (apply list_eq_dec; apply N.eq_dec).
    decide equality.
  Defined.

  Lemma property_eq_dec : forall p q : property, {p = q} + {p <> q}.
  Proof.
    decide equality; try apply Bool.bool_dec; try (apply list_eq_dec; apply N.eq_dec); apply field_ty_eq_dec.
  Defined.

  Lemma inv_none L m D acc l : Inv L m D acc -> In l L -> present (p_path l) m = None -> present (p_path l) acc = None.
  Proof.
    intros [I1 I2] HL Hm. destruct (in_dec property_eq_dec l D) as [Hin|Hn].
    - specialize (I1 l Hin HL). rewrite Hm in I1. inversion I1. reflexivity.
    - apply I2; assumption.
  Qed.

  Lemma print_nonempty j : wfb j = true -> print j <> [].
  Proof. intros H. destruct (print_head j H) as (c & t & -> & _). discriminate. Qed.

  (* the value member of a well-formed Any object is well-formed *)
  Lemma any_members_wf ms : forallb (fun kv => valid_utf8 (fst kv) && wfb (snd kv)) ms = true ->
    forall val ty Jv tyo, match val with Some j => wfb j = true | None => True end ->
    any_members ms val ty = Ok (Some Jv, tyo) -> wfb Jv = true.
  Proof.
    induction ms as [|[k v] r IH]; intros Hwf val ty Jv tyo Hval H; cbn [any_members] in H.
    - injection H as -> _. exact Hval.
    - cbn [forallb fst snd] in Hwf. apply andb_true_iff in Hwf as [Hkv Hr]. apply andb_true_iff in Hkv as [_ Hv].
      destruct (bytes_eqb k txt_type).
      + destruct v; try discriminate. eapply IH; eassumption.
      + destruct val; [discriminate|]. eapply (IH Hr (Some v)); [exact Hv|exact H].
  Qed.

  Lemma any_result_equiv mv tn Jv : wfb Jv = true -> tn = sfield 1 mv -> any_text mv = Ok (print Jv) ->
    equiv_value (FAny false) (VMsg mv)
      (VMsg (msg_set false [] 3 (VBytes (raw Jv)) (msg_set false [] 1 (VStr tn) []))).
  Proof.
    intros Hwf Htn Htxt. pose proof (Hraw_ne Jv Hwf) as Hpn.
    assert (Hk3 : kept false (VBytes (raw Jv)) = true) by (cbn; destruct (raw Jv); [congruence|reflexivity]).
    apply EV_any with (Jd := Jv); [|exact Hwf|exact Htxt|apply msg_get_set_same; exact Hk3].
    unfold sfield at 1. rewrite msg_get_set_other by (exact Hk3 || lia). cbn [existsb].
    destruct tn as [|c r] eqn:Et.
    - cbn. rewrite <- Htn. reflexivity.
    - rewrite msg_get_set_same by reflexivity. rewrite <- Htn. reflexivity.
  Qed.

  Hypothesis Hflat : oneofs_flat env.
  (* members of a oneof schema have distinct JSON names, none of them "!type" *)
  Definition oneof_names_ok : Prop :=
    forall name ps, lookup env name = Some (SOneof ps) ->
      NoDup (map p_json ps) /\ forall q, In q ps -> p_json q <> txt_type.
  Hypothesis Hnames : oneof_names_ok.

  Lemma leaves_flat ps : Forall (fun p => p_path p <> []) ps -> leaves ps = ps.
  Proof.
    induction 1 as [|p r Hp Hr IH]; [reflexivity|]. unfold leaves in *. cbn [flat_map]. rewrite IH.
    unfold prop_leaves. destruct (p_path p); [congruence|reflexivity].
  Qed.

  Lemma inv_nil L m : Inv L m [] [].
  Proof. split; [intros l []|]. intros l _ _. apply present_nil_msg. Qed.

  (* one member whose property is a leaf: the printed value is read and stored *)
  Lemma leaf_read ps0 m D acc l v J F d seen :
    props_ok ps0 -> rep_props ps0 m -> Inv (leaves ps0) m D acc ->
    In l (leaves ps0) -> ~ In l D -> present (p_path l) m = Some v ->
    dec_ok_value (p_ty l) v J -> J <> JNull -> wfb J = true ->
    (3 * jsize J + 2 <= F)%nat -> depth_ok d (S (jnest J)) -> mem_b (p_json l) seen = false ->
    exists acc', dec_member F d l J acc seen = Ok (acc', p_json l :: seen) /\ Inv (leaves ps0) m (l :: D) acc'.
  Proof.
    intros Hok Hrep HInv Hl HnD Hm Hdec HJ Hwf HF Hd Hseen.
    inversion Hrep as [? ? _ Hvals Hexcl _]; subst.
    destruct (Hvals l v Hl Hm) as [Hrv Hkept].
    pose proof (app_removelast_last 0 (po_paths ps0 Hok l Hl)) as Hsn.
    set (a := removelast (p_path l)) in *. set (n := last (p_path l) 0) in *.
    assert (Hfresh : msg_get n (hole a acc) = None).
    { rewrite <- present_last, <- Hsn. destruct HInv as [_ I2]. apply I2; assumption. }
    destruct F as [|F]; [lia|]. rewrite dec_member_S.
    assert (Hd1 : (max_nesting <? d + 1) = false) by (unfold depth_ok in Hd; lia). rewrite Hd1.
    assert (Hconf : oneof_conflict (p_path l) (p_siblings l) acc = false).
    { rewrite Hsn. apply oneof_conflict_clear. intros s Hs.
      destruct (po_siblings ps0 Hok l a n s Hl Hsn Hs) as (_ & l2 & Hl2 & Hp2).
      rewrite <- present_last, <- Hp2. apply (inv_none _ _ _ _ _ HInv Hl2).
      rewrite Hp2, present_last. apply (Hexcl l a n s v Hl Hsn Hm Hs). }
    assert (Hgoal : exists acc' v', dec_value F (d + 1) l J acc = Ok acc' /\ equiv_value (p_ty l) v v' /\
              present (p_path l) acc' = Some v' /\
              (forall l2, In l2 (leaves ps0) -> l2 <> l ->
                 present (p_path l2) acc' = present (p_path l2) acc \/
                 (present (p_path l2) acc' = None /\ exists s, In s (p_siblings l) /\ p_path l2 = a ++ [s]))).
    { destruct F as [|F]; [pose proof (jsize_pos J); lia|]. rewrite dec_value_S.
      destruct (p_ty l) as [k|r|r|r|it|it|pb] eqn:Et; cbn [dec_ok_value] in Hdec.
      - (* scalar *)
        destruct Hdec as (Hnc & v' & Hds & Heq & Hk). rewrite Hnc, Hds. cbn [obind].
        destruct (leaf_frame ps0 l a n (fun n0 h => Ok (msg_set (p_explicit l) (p_siblings l) n0 v' h)) acc _ v'
                    Hok Hl Hsn eq_refl (setter_set _ _ _ _ _ (Hk _ Hkept)))
          as (acc' & Hh & Hp & Hfr).
        exists acc', v'. split; [exact Hh|]. split; [constructor; exact Heq|]. split; assumption.
      - (* enum *)
        destruct Hdec as (pre & opts & s & z & Hlk & -> & Hbn & ->). rewrite Hlk, Hbn.
        destruct (leaf_frame ps0 l a n (fun n0 h => Ok (msg_set (p_explicit l) (p_siblings l) n0 (VEnum z) h)) acc _ (VEnum z)
                    Hok Hl Hsn eq_refl (setter_set _ _ _ _ _ Hkept))
          as (acc' & Hh & Hp & Hfr).
        exists acc', (VEnum z). split; [exact Hh|]. split; [constructor|]. split; assumption.
      - (* object *)
        destruct Hdec as (ps & ms & mv & Hlk & -> & -> & Hobj). rewrite Hlk.
        destruct (Hobj F (d + 1)) as (b & Hb & Heq).
        { rewrite jsize_obj in HF. lia. } { unfold depth_ok in *. rewrite jnest_obj in Hd. lia. }
        destruct (setter_fresh_msg (p_siblings l) n b (hole a acc) Hfresh) as [Hmut Hset].
        assert (Hk : (fun n0 h => let '(sub, h1) := msg_mutable (p_siblings l) n0 h in
                       obind (dec_members F (d + 1) ps ms sub []) (fun sub' => Ok (msg_put n0 (VMsg sub') h1)))
                     n (hole a acc) = Ok (msg_put n (VMsg b) (msg_put n (VMsg []) (msg_clear_all (p_siblings l) (hole a acc)))))
          by (cbv beta; rewrite Hmut, Hb; reflexivity).
        destruct (leaf_frame ps0 l a n _ acc _ (VMsg b) Hok Hl Hsn Hk Hset) as (acc' & Hh & Hp & Hfr).
        exists acc', (VMsg b). split; [exact Hh|]. split; [econstructor; eassumption|]. split; assumption.
      - (* oneof wrapper held by a field *)
        destruct Hdec as (ps & ms & mv & Hlk & -> & -> & Hone). rewrite Hlk.
        inversion Hrv as [| | |? ? ? Hlk' Hrp Hamo| | | |]; subst. rewrite Hlk in Hlk'. injection Hlk' as <-.
        inversion Hrp as [? ? Hokps _ _ _]; subst.
        pose proof (leaves_flat ps (Hflat _ _ Hlk)) as Hlv.
        destruct (Hone F (d + 1) ps [] []) as (b & Hb & HinvB).
        { rewrite jsize_obj in HF. lia. } { unfold depth_ok in *. rewrite jnest_obj in Hd. lia. }
        { exact Hokps. } { exact Hrp. } { rewrite Hlv. auto. } { apply inv_nil. } { intros q _ []. }
        assert (Heq : equiv_props ps mv b).
        { constructor. intros q Hq. destruct HinvB as [I1 _]. apply I1; [|exact Hq].
          rewrite Hlv in Hq. apply in_or_app. left. exact Hq. }
        destruct (setter_fresh_msg (p_siblings l) n b (hole a acc) Hfresh) as [Hmut Hset].
        assert (Hk : (fun n0 h => let '(sub, h1) := msg_mutable (p_siblings l) n0 h in
                       obind (dec_oneof F (d + 1) ps ms sub [] [] None) (fun sub' => Ok (msg_put n0 (VMsg sub') h1)))
                     n (hole a acc) = Ok (msg_put n (VMsg b) (msg_put n (VMsg []) (msg_clear_all (p_siblings l) (hole a acc)))))
          by (cbv beta; rewrite Hmut, Hb; reflexivity).
        destruct (leaf_frame ps0 l a n _ acc _ (VMsg b) Hok Hl Hsn Hk Hset) as (acc' & Hh & Hp & Hfr).
        exists acc', (VMsg b). split; [|split; [econstructor; eassumption|split; assumption]].
        pose proof (po_paths ps0 Hok l Hl) as Hne.
        destruct (p_path l) as [|p0 pr]; [congruence|]. exact Hh.
      - (* array *)
        destruct Hdec as (js & lv & -> & -> & Harr).
        destruct (Harr F (d + 1)) as (l' & Hl' & Hf2 & Hne).
        { rewrite jsize_arr in HF. lia. } { unfold depth_ok in *. rewrite jnest_arr in Hd. lia. }
        assert (Hk : (fun n0 h => let existing := match msg_get n0 h with Some (VList l0) => l0 | _ => [] end in
                       obind (dec_items F (d + 1) it js existing) (fun l0 => Ok (msg_set true (p_siblings l) n0 (VList l0) h)))
                     n (hole a acc) = Ok (msg_set true (p_siblings l) n (VList l') (hole a acc)))
          by (cbv beta zeta; rewrite Hfresh, Hl'; reflexivity).
        destruct (leaf_frame ps0 l a n _ acc _ (VList l') Hok Hl Hsn Hk (setter_set _ _ _ _ _ (kept_list _ Hne)))
          as (acc' & Hh & Hp & Hfr).
        exists acc', (VList l'). split; [exact Hh|]. split; [constructor; exact Hf2|]. split; assumption.
      - (* map *)
        destruct Hdec as (ms & es & -> & -> & Hmap).
        destruct (Hmap F (d + 1)) as (es' & Hes' & Hf2 & Hne).
        { rewrite jsize_obj in HF. lia. } { unfold depth_ok in *. rewrite jnest_obj in Hd. lia. }
        assert (Hk : (fun n0 h => let existing := match msg_get n0 h with Some (VMap l0) => l0 | _ => [] end in
                       obind (dec_entries F (d + 1) it ms existing []) (fun l0 => Ok (msg_set true (p_siblings l) n0 (VMap l0) h)))
                     n (hole a acc) = Ok (msg_set true (p_siblings l) n (VMap es') (hole a acc)))
          by (cbv beta zeta; rewrite Hfresh, Hes'; reflexivity).
        destruct (leaf_frame ps0 l a n _ acc _ (VMap es') Hok Hl Hsn Hk (setter_set _ _ _ _ _ (kept_map _ Hne)))
          as (acc' & Hh & Hp & Hfr).
        exists acc', (VMap es'). split; [exact Hh|]. split; [constructor; exact Hf2|]. split; assumption.
      - (* any *)
        destruct Hdec as (ms & mv & tn & Jv & sub' & -> & -> & Ham & Hst & Hequiv).
        destruct (setter_fresh_msg (p_siblings l) n sub' (hole a acc) Hfresh) as [Hmut Hset].
        assert (Hk : (fun n0 h => let '(sub, h1) := msg_mutable (p_siblings l) n0 h in
                       obind (any_members ms None None) (fun vt =>
                         match snd vt, fst vt with
                         | None, _ => Err "no type found in Any"
                         | _, None => Err "no value found in Any"
                         | Some tn0, Some v0 =>
                             match any_back with
                             | None =>
                                 if pb then Err "proto is required for PB Any"
                                 else Ok (msg_put n0 (VMsg (msg_set false [] 3 (VBytes (raw v0)) (msg_set false [] 1 (VStr tn0) sub))) h1)
                             | Some back =>
                                 obind (back tn0 (raw v0)) (fun pbytes =>
                                   if pb then
                                     Ok (msg_put n0 (VMsg (msg_set false [] 2 (VBytes pbytes) (msg_set false [] 1 (VStr (any_prefix ++ tn0)) sub))) h1)
                                   else
                                     Ok (msg_put n0 (VMsg (msg_set false [] 3 (VBytes (raw v0)) (msg_set false [] 2 (VBytes pbytes)
                                                           (msg_set false [] 1 (VStr tn0) sub)))) h1))
                             end
                         end))
                     n (hole a acc) = Ok (msg_put n (VMsg sub') (msg_put n (VMsg []) (msg_clear_all (p_siblings l) (hole a acc))))).
        { cbv beta. rewrite Hmut, Ham. cbn [obind fst snd]. unfold any_stored in Hst.
          destruct any_back as [back|].
          - destruct (back tn (raw Jv)) as [pbytes| | |]; try discriminate. cbn [obind] in Hst |- *.
            destruct pb; injection Hst as <-; reflexivity.
          - destruct pb; [discriminate|]. injection Hst as <-. reflexivity. }
        destruct (leaf_frame ps0 l a n _ acc _ (VMsg sub') Hok Hl Hsn Hk Hset) as (acc' & Hh & Hp & Hfr).
        exists acc', (VMsg sub'). split; [exact Hh|]. split; [exact Hequiv|split; assumption]. }
    destruct Hgoal as (acc' & v' & Hdv & Heq & Hp & Hfr).
    rewrite Hseen, Hconf, Hdv. cbn [obind]. exists acc'. split; [destruct J; try reflexivity; congruence|].
    eapply inv_step; eassumption.
  Qed.

  Lemma inv_extend L m D1 D2 acc :
    Inv L m D1 acc -> (forall l, In l D1 -> In l D2) ->
    (forall l, In l D2 -> In l L -> In l D1 \/ present (p_path l) m = None) ->
    Inv L m D2 acc.
  Proof.
    intros HI Hsub Hnew. pose proof HI as [I1 I2]. split.
    - intros l H2 HL. destruct (Hnew l H2 HL) as [H1|Hn]; [apply I1; assumption|].
      rewrite Hn, (inv_none _ _ _ _ _ HI HL Hn). constructor.
    - intros l HL Hn. apply I2; [exact HL|]. intros H1. apply Hn, Hsub, H1.
  Qed.

  Lemma bytes_eqb_refl s : bytes_eqb s s = true.
  Proof. induction s as [|c r IH]; [reflexivity|]. cbn [bytes_eqb]. rewrite N.eqb_refl, IH. reflexivity. Qed.

  Lemma bytes_eqb_eq a b : bytes_eqb a b = true -> a = b.
  Proof.
    revert b. induction a as [|c r IH]; intros [|c' r'] H; try discriminate; [reflexivity|].
    cbn [bytes_eqb] in H. apply andb_true_iff in H as [H1 H2]. apply N.eqb_eq in H1. subst. f_equal. apply IH. exact H2.
  Qed.

  Lemma bytes_eqb_neq a b : a <> b -> bytes_eqb a b = false.
  Proof. intros H. destruct (bytes_eqb a b) eqn:E; [|reflexivity]. exfalso. apply H, bytes_eqb_eq, E. Qed.

  (* EnumSchema.OptionByName inverts OptionByNumber on every enum whose option names are distinct
     (numbers may repeat: aliases read back as the first name, whose number is the same) *)
  Lemma option_by_number_in opts : forall n name, option_by_number opts n = Some name -> In (name, n) opts.
  Proof.
    induction opts as [|[k z] r IH]; intros n name H; cbn [option_by_number] in H; [discriminate|].
    destruct (Z.eqb z n) eqn:E.
    - injection H as <-. apply Z.eqb_eq in E. subst. left. reflexivity.
    - right. apply IH. exact H.
  Qed.

  Lemma option_by_short_nodup opts : forall name n, NoDup (map fst opts) -> In (name, n) opts ->
    option_by_short opts name = Some n.
  Proof.
    induction opts as [|[k z] r IH]; intros name n Hnd Hin; [destruct Hin|].
    cbn [map fst] in Hnd. inversion Hnd as [|? ? Hnotin Hnd']; subst. cbn [option_by_short].
    destruct Hin as [E|Hin].
    - injection E as -> ->. rewrite bytes_eqb_refl. reflexivity.
    - destruct (bytes_eqb k name) eqn:E.
      + apply bytes_eqb_eq in E. subst k. exfalso. apply Hnotin. apply (in_map fst) in Hin. exact Hin.
      + apply IH; assumption.
  Qed.

  Lemma option_by_name_inverse pre opts n name : NoDup (map fst opts) ->
    option_by_number opts n = Some name -> option_by_name pre opts name = Some n.
  Proof.
    intros Hnd H. unfold option_by_name.
    rewrite (option_by_short_nodup opts name n Hnd (option_by_number_in _ _ _ H)). reflexivity.
  Qed.

  (* ---------------------------------------------------------------- oneofs *)
  (* {} : nothing is set *)
  Lemma oneof_dec_empty r ps m : lookup env r = Some (SOneof ps) ->
    (forall q, In q ps -> present (p_path q) m = None) -> OneofDec ps m [].
  Proof.
    intros Hlk Hnone F d ps0 acc D HF Hd Hok Hrep Hsub HInv HnD.
    destruct F as [|F]; [lia|]. rewrite dec_oneof_S. cbn [oneof_post]. exists acc. split; [reflexivity|].
    apply (inv_extend _ _ D); [exact HInv|intros l H; apply in_or_app; right; exact H|].
    intros l H2 HL. apply in_app_or in H2 as [Hq|HD]; [right; apply Hnone; exact Hq|left; exact HD].
  Qed.

  (* {"!type": name, name: value} *)
  Lemma oneof_dec_one r ps m q v J : lookup env r = Some (SOneof ps) ->
    In q ps -> present (p_path q) m = Some v ->
    (forall q', In q' ps -> q' <> q -> present (p_path q') m = None) ->
    dec_ok_value (p_ty q) v J -> J <> JNull -> wfb J = true ->
    OneofDec ps m [(txt_type, JStr (p_json q)); (p_json q, J)].
  Proof.
    intros Hlk Hq Hv Hoth Hdec HJ Hwf F d ps0 acc D HF Hd Hok Hrep Hsub HInv HnD.
    destruct (Hnames _ _ Hlk) as [Hnd Hnt].
    cbn [lsize fold_right snd jsize] in HF. cbn [lnest fold_right snd jnest] in Hd.
    destruct F as [|F]; [lia|]. rewrite dec_oneof_S. rewrite bytes_eqb_refl.
    destruct F as [|F]; [lia|]. rewrite dec_oneof_S.
    rewrite (bytes_eqb_neq _ _ (Hnt q Hq)). rewrite (find_prop_nodup ps q Hnd Hq).
    destruct (leaf_read ps0 m D acc q v J F d [] Hok Hrep HInv (Hsub q Hq) (HnD q Hq) Hv Hdec HJ Hwf)
      as (acc' & Hdm & HInv'); [lia| |reflexivity|].
    { unfold depth_ok in *. lia. }
    rewrite Hdm. cbn [obind fst snd app].
    destruct F as [|F]; [pose proof (jsize_pos J); lia|]. rewrite dec_oneof_S. cbn [oneof_post]. rewrite bytes_eqb_refl.
    exists acc'. split; [reflexivity|].
    apply (inv_extend _ _ (q :: D)); [exact HInv'| |].
    - intros l [<-|HD]; apply in_or_app; [left; exact Hq|right; exact HD].
    - intros l H2 HL. apply in_app_or in H2 as [Hl|HD]; [|left; right; exact HD].
      destruct (property_eq_dec l q) as [->|Hne]; [left; left; reflexivity|right; apply Hoth; assumption].
  Qed.

  (* ---------------------------------------------------------------- arrays and maps *)
  Lemma dec_items_S f d it js acc :
    dec_items (S f) d it js acc =
      match js with
      | [] => Ok acc
      | j :: r =>
          match it with
          | FScalar k =>
              if is_container j then Err "unexpected token, expected scalar"
              else obind (dec_scalar k j) (fun v =>
                     match v with
                     | None => Err "cannot append nil value"
                     | Some x => dec_items f d it r (acc ++ [x])
                     end)
          | FEnum ref =>
              match j, lookup env ref with
              | JStr s, Some (SEnum prefix opts) =>
                  match option_by_name prefix opts s with
                  | Some z => dec_items f d it r (acc ++ [VEnum z])
                  | None => Err "enum value not found"
                  end
              | JStr _, _ => Err "schema"
              | _, _ => Err "cannot set enum value"
              end
          | FObject ref =>
              match j, lookup env ref with
              | JObj ms, Some (SObject props) =>
                  obind (dec_members f d props ms [] []) (fun sub => dec_items f d it r (acc ++ [VMsg sub]))
              | JObj _, _ => Err "schema"
              | _, _ => Err "unexpected token, expected {"
              end
          | FOneof ref =>
              match j, lookup env ref with
              | JObj ms, Some (SOneof props) =>
                  obind (dec_oneof f d props ms [] [] [] None) (fun sub => dec_items f d it r (acc ++ [VMsg sub]))
              | JObj _, _ => Err "schema"
              | _, _ => Err "unexpected token, expected {"
              end
          | _ => Err "unknown array schema type"
          end
      end.
  Proof. reflexivity. Qed.

  Lemma dec_entries_S f d it ms acc seen :
    dec_entries (S f) d it ms acc seen =
      match ms with
      | [] => Ok acc
      | (key, j) :: r =>
          match it with
          | FScalar k =>
              if mem_b key seen then Err "key already exists in map"
              else if mapchk && (match map_get key acc with Some _ => true | None => false end) then Err "key already exists in map"
              else if is_container j then Err "unexpected token, expected scalar"
              else obind (dec_scalar k j) (fun v =>
                     match v with
                     | None => Err "cannot set nil value"
                     | Some x => dec_entries f d it r (map_set key x acc) (key :: seen)
                     end)
          | FEnum ref =>
              if mem_b key seen then Err "key already exists in map"
              else if mapchk && (match map_get key acc with Some _ => true | None => false end) then Err "key already exists in map" else
              match j, lookup env ref with
              | JStr s, Some (SEnum prefix opts) =>
                  match option_by_name prefix opts s with
                  | Some z => dec_entries f d it r (map_set key (VEnum z) acc) (key :: seen)
                  | None => Err "enum value not found"
                  end
              | JStr _, _ => Err "schema"
              | _, _ => Err "unexpected token, expected string"
              end
          | FObject ref =>
              match map_get key acc with
              | Some _ => Err "key already exists in map"
              | None =>
                match j, lookup env ref with
                | JObj ms', Some (SObject props) =>
                    obind (dec_members f d props ms' [] []) (fun sub => dec_entries f d it r (map_set key (VMsg sub) acc) seen)
                | JObj _, _ => Err "schema"
                | _, _ => Err "unexpected token, expected {"
                end
              end
          | FOneof ref =>
              match map_get key acc with
              | Some _ => Err "key already exists in map"
              | None =>
                match j, lookup env ref with
                | JObj ms', Some (SOneof props) =>
                    obind (dec_oneof f d props ms' [] [] [] None) (fun sub => dec_entries f d it r (map_set key (VMsg sub) acc) seen)
                | JObj _, _ => Err "schema"
                | _, _ => Err "unexpected token, expected {"
                end
              end
          | _ => Err "unknown map schema type"
          end
      end.
  Proof. reflexivity. Qed.

  Definition elem_ok (it : field_ty) (v : pval) (J : jvalue) : Prop :=
    rep_value it v /\ dec_ok_value it v J /\ wfb J = true /\ J <> JNull.

  (* the value one element of type [it] decodes to, on its own *)
  Lemma oneof_fresh r ps mv ms F d :
    lookup env r = Some (SOneof ps) -> rep_props ps mv -> OneofDec ps mv ms ->
    (3 * lsize ms + 3 <= F)%nat -> depth_ok d (S (lnest ms)) ->
    exists b, dec_oneof F d ps ms [] [] [] None = Ok b /\ equiv_props ps mv b.
  Proof.
    intros Hlk Hrp Hone HF Hd. inversion Hrp as [? ? Hokps _ _ _]; subst.
    pose proof (leaves_flat ps (Hflat _ _ Hlk)) as Hlv.
    destruct (Hone F d ps [] [] HF Hd Hokps Hrp) as (b & Hb & [I1 _]).
    { rewrite Hlv. auto. } { apply inv_nil. } { intros q _ []. }
    exists b. split; [exact Hb|]. constructor. intros q Hq. apply I1; [|exact Hq].
    rewrite Hlv in Hq. apply in_or_app. left. exact Hq.
  Qed.

  Lemma items_rt it : item_ok it = true -> forall l js, Forall2 (elem_ok it) l js ->
    forall F d acc, (3 * asize js + 3 <= F)%nat -> depth_ok d (anest js) ->
    exists l', dec_items F d it js acc = Ok (acc ++ l') /\ Forall2 (equiv_value it) l l'.
  Proof.
    intros Hit l js H2. induction H2 as [|v J l js (Hrv & Hdec & Hwf & HJ) _ IH]; intros F d acc HF Hd.
    - destruct F as [|F]; [lia|]. rewrite dec_items_S. exists []. rewrite app_nil_r. split; [reflexivity|constructor].
    - cbn [asize fold_right] in HF. fold (asize js) in HF. cbn [anest fold_right] in Hd. fold (anest js) in Hd.
      pose proof (jsize_pos J) as HJs.
      destruct F as [|F]; [lia|]. rewrite dec_items_S.
      assert (Hd' : depth_ok d (anest js)) by (unfold depth_ok in *; lia).
      destruct it as [k|r|r|r|it'|it'|pb]; try discriminate; cbn [dec_ok_value] in Hdec.
      + destruct Hdec as (Hnc & v' & Hds & Heq & _). rewrite Hnc, Hds. cbn [obind].
        destruct (IH F d (acc ++ [v'])) as (l' & Hl' & Hf); [lia|exact Hd'|].
        exists (v' :: l'). rewrite Hl', <- app_assoc. split; [reflexivity|]. constructor; [constructor; exact Heq|exact Hf].
      + destruct Hdec as (pre & opts & s & z & Hlk & -> & Hbn & ->). rewrite Hlk, Hbn.
        destruct (IH F d (acc ++ [VEnum z])) as (l' & Hl' & Hf); [lia|exact Hd'|].
        exists (VEnum z :: l'). rewrite Hl', <- app_assoc. split; [reflexivity|]. constructor; [constructor|exact Hf].
      + destruct Hdec as (ps & ms & mv & Hlk & -> & -> & Hobj). rewrite Hlk.
        destruct (Hobj F d) as (b & Hb & Heq).
        { rewrite jsize_obj in HF. lia. } { unfold depth_ok in *. rewrite jnest_obj in Hd. lia. }
        rewrite Hb. cbn [obind].
        destruct (IH F d (acc ++ [VMsg b])) as (l' & Hl' & Hf); [lia|exact Hd'|].
        exists (VMsg b :: l'). rewrite Hl', <- app_assoc. split; [reflexivity|]. constructor; [econstructor; eassumption|exact Hf].
      + destruct Hdec as (ps & ms & mv & Hlk & -> & -> & Hone). rewrite Hlk.
        inversion Hrv as [| | |? ? ? Hlk' Hrp Hamo| | | |]; subst. rewrite Hlk in Hlk'. injection Hlk' as <-.
        destruct (oneof_fresh r ps mv ms F d Hlk Hrp Hone) as (b & Hb & Heq).
        { rewrite jsize_obj in HF. lia. } { unfold depth_ok in *. rewrite jnest_obj in Hd. lia. }
        rewrite Hb. cbn [obind].
        destruct (IH F d (acc ++ [VMsg b])) as (l' & Hl' & Hf); [lia|exact Hd'|].
        exists (VMsg b :: l'). rewrite Hl', <- app_assoc. split; [reflexivity|]. constructor; [econstructor; eassumption|exact Hf].
  Qed.

  Lemma map_set_fresh k x acc : map_get k acc = None -> map_set k x acc = acc ++ [(k, x)].
  Proof.
    induction acc as [|[k' w] r IH]; intros H; [reflexivity|]. cbn [map_get map_set] in *.
    destruct (bytes_eqb k' k); [discriminate|]. rewrite IH by exact H. reflexivity.
  Qed.

  Lemma map_get_snoc k k1 x acc : k <> k1 -> map_get k (acc ++ [(k1, x)]) = map_get k acc.
  Proof.
    intros Hne. induction acc as [|[k' w] r IH]; cbn [app map_get].
    - rewrite (bytes_eqb_neq k1 k) by congruence. reflexivity.
    - destruct (bytes_eqb k' k); [reflexivity|exact IH].
  Qed.

  Lemma mem_b_false x l : mem_b x l = false <-> ~ In x l.
  Proof.
    induction l as [|y r IH]; cbn [mem_b In]; [tauto|]. split.
    - intros H. apply orb_false_iff in H as [H1 H2]. intros [->|Hin]; [rewrite bytes_eqb_refl in H1; discriminate|].
      apply IH in H2. contradiction.
    - intros H. apply orb_false_iff. split; [apply bytes_eqb_neq; intros ->; apply H; left; reflexivity|].
      apply IH. intros Hin. apply H. right. exact Hin.
  Qed.

  Lemma entries_rt it : item_ok it = true -> forall es ms,
    Forall2 (fun kv km => fst kv = fst km /\ elem_ok it (snd kv) (snd km)) es ms ->
    NoDup (map fst ms) ->
    forall F d acc seen, (3 * lsize ms + 3 <= F)%nat -> depth_ok d (lnest ms) ->
      (forall k, In k (map fst ms) -> map_get k acc = None /\ ~ In k seen) ->
    exists es', dec_entries F d it ms acc seen = Ok (acc ++ es') /\
                Forall2 (fun kv kv' => fst kv = fst kv' /\ equiv_value it (snd kv) (snd kv')) es es'.
  Proof.
    intros Hit es ms H2. induction H2 as [|[k v] [k' J] es ms (Hk & Hrv & Hdec & Hwf & HJ) _ IH]; intros Hnd F d acc seen HF Hd Hfresh.
    - destruct F as [|F]; [lia|]. rewrite dec_entries_S. exists []. rewrite app_nil_r. split; [reflexivity|constructor].
    - cbn [fst snd] in *. subst k'. cbn [map fst] in Hnd. inversion Hnd as [|? ? Hni Hnd']; subst.
      cbn [lsize fold_right snd] in HF. fold (lsize ms) in HF. cbn [lnest fold_right snd] in Hd. fold (lnest ms) in Hd.
      pose proof (jsize_pos J) as HJs.
      destruct (Hfresh k (or_introl eq_refl)) as [Hget Hseen]. apply mem_b_false in Hseen.
      destruct F as [|F]; [lia|]. rewrite dec_entries_S.
      assert (Hd' : depth_ok d (lnest ms)) by (unfold depth_ok in *; lia).
      assert (Hnext : forall x s2, (s2 = seen \/ s2 = k :: seen) ->
                forall k2, In k2 (map fst ms) -> map_get k2 (acc ++ [(k, x)]) = None /\ ~ In k2 s2).
      { intros x s2 Hs2 k2 Hk2. assert (Hne : k2 <> k) by (intros ->; contradiction).
        destruct (Hfresh k2 (or_intror Hk2)) as [Hg Hs]. split; [rewrite map_get_snoc by exact Hne; exact Hg|].
        destruct Hs2 as [->| ->]; [exact Hs|]. intros [E|Hin]; [congruence|contradiction]. }
      destruct it as [sk|r|r|r|it'|it'|pb]; try discriminate; cbn [dec_ok_value] in Hdec.
      + destruct Hdec as (Hnc & v' & Hds & Heq & _). rewrite Hseen, Hget, andb_false_r, Hnc, Hds. cbn [obind].
        rewrite map_set_fresh by exact Hget.
        destruct (IH Hnd' F d (acc ++ [(k, v')]) (k :: seen)) as (es' & Hes' & Hf); [lia|exact Hd'|apply Hnext; right; reflexivity|].
        exists ((k, v') :: es'). rewrite Hes', <- app_assoc. split; [reflexivity|].
        constructor; [split; [reflexivity|constructor; exact Heq]|exact Hf].
      + destruct Hdec as (pre & opts & s & z & Hlk & -> & Hbn & ->). rewrite Hseen, Hget, andb_false_r, Hlk, Hbn.
        rewrite map_set_fresh by exact Hget.
        destruct (IH Hnd' F d (acc ++ [(k, VEnum z)]) (k :: seen)) as (es' & Hes' & Hf); [lia|exact Hd'|apply Hnext; right; reflexivity|].
        exists ((k, VEnum z) :: es'). rewrite Hes', <- app_assoc. split; [reflexivity|].
        constructor; [split; [reflexivity|constructor]|exact Hf].
      + destruct Hdec as (ps & ms' & mv & Hlk & -> & -> & Hobj). rewrite Hget, Hlk.
        destruct (Hobj F d) as (b & Hb & Heq).
        { rewrite jsize_obj in HF. lia. } { unfold depth_ok in *. rewrite jnest_obj in Hd. lia. }
        rewrite Hb. cbn [obind]. rewrite map_set_fresh by exact Hget.
        destruct (IH Hnd' F d (acc ++ [(k, VMsg b)]) seen) as (es' & Hes' & Hf); [lia|exact Hd'|apply Hnext; left; reflexivity|].
        exists ((k, VMsg b) :: es'). rewrite Hes', <- app_assoc. split; [reflexivity|].
        constructor; [split; [reflexivity|econstructor; eassumption]|exact Hf].
      + destruct Hdec as (ps & ms' & mv & Hlk & -> & -> & Hone). rewrite Hget, Hlk.
        inversion Hrv as [| | |? ? ? Hlk' Hrp Hamo| | | |]; subst. rewrite Hlk in Hlk'. injection Hlk' as <-.
        destruct (oneof_fresh r ps mv ms' F d Hlk Hrp Hone) as (b & Hb & Heq).
        { rewrite jsize_obj in HF. lia. } { unfold depth_ok in *. rewrite jnest_obj in Hd. lia. }
        rewrite Hb. cbn [obind]. rewrite map_set_fresh by exact Hget.
        destruct (IH Hnd' F d (acc ++ [(k, VMsg b)]) seen) as (es' & Hes' & Hf); [lia|exact Hd'|apply Hnext; left; reflexivity|].
        exists ((k, VMsg b) :: es'). rewrite Hes', <- app_assoc. split; [reflexivity|].
        constructor; [split; [reflexivity|econstructor; eassumption]|exact Hf].
  Qed.

  (* ---------------------------------------------------------------- the induction over the encoder *)
  Hypothesis Hscalar : scalar_rt_ok fmt_float dsc.
  Hypothesis Hinner : inner_ok any_inner.

  Notation enc_value := (enc_value fmt_float any_inner env).
  Notation enc_object := (enc_object fmt_float any_inner env).
  Notation enc_oneof := (enc_oneof fmt_float any_inner env).

  Definition T_value (f : nat) : Prop := forall t v txt,
    enc_value f t v = Ok txt -> rep_value t v ->
    exists J, txt = print J /\ wfb J = true /\ J <> JNull /\ dec_ok_value t v J.
  Definition T_object (f : nat) : Prop := forall ps m txt,
    enc_object f ps m = Ok txt -> rep_props ps m ->
    exists ms, txt = print (JObj ms) /\ wfb (JObj ms) = true /\ ObjDec ps m ms.
  Definition T_oneof (f : nat) : Prop := forall r qs m txt,
    lookup env r = Some (SOneof qs) -> enc_oneof f qs m = Ok txt ->
    (forall q v, In q qs -> present (p_path q) m = Some v -> rep_value (p_ty q) v) ->
    exists ms, txt = print (JObj ms) /\ wfb (JObj ms) = true /\ OneofDec qs m ms.

  Lemma prop_present_leaf p m : p_path p <> [] -> prop_present env p m = present (p_path p) m.
  Proof. intros H. unfold prop_present. destruct (p_path p); [congruence|reflexivity]. Qed.

  Lemma NoDup_app_l {A} (a b : list A) : NoDup (a ++ b) -> NoDup a /\ NoDup b /\ forall x, In x a -> ~ In x b.
  Proof.
    induction a as [|x a IH]; cbn [app]; intros H.
    - split; [constructor|]. split; [exact H|]. intros x [].
    - inversion H as [|? ? Hni Hnd]; subst. destruct (IH Hnd) as (Ha & Hb & Hd). split; [|split; [exact Hb|]].
      + constructor; [|exact Ha]. intros Hin. apply Hni. apply in_or_app. left. exact Hin.
      + intros y [<-|Hy]; [intros Hin; apply Hni; apply in_or_app; right; exact Hin|apply Hd; exact Hy].
  Qed.

  Lemma mp_in qs m q v : In (q, v) (members_present qs m) -> In q qs /\ present (p_path q) m = Some v.
  Proof.
    unfold members_present. intros H. apply in_flat_map in H as (x & Hx & Hi).
    destruct (present (p_path x) m) eqn:P; [|contradiction]. destruct Hi as [[= <- <-]|[]]. split; assumption.
  Qed.

  Lemma mp_nodup qs m : NoDup qs -> NoDup (map fst (members_present qs m)).
  Proof.
    unfold members_present. induction 1 as [|z r Hni Hnd IH]; cbn [flat_map map]; [constructor|].
    destruct (present (p_path z) m) eqn:P; cbn [app map fst]; [|exact IH].
    constructor; [|exact IH]. intros Hin. apply in_map_iff in Hin as ([q v] & Hq & Hin). cbn [fst] in Hq. subst q.
    apply (mp_in r m z v) in Hin as [Hin _]. contradiction.
  Qed.

  (* members of an exposed oneof that is not "set": none is populated *)
  Lemma exposed_unset m qs : (forall q1 q2, In q1 qs -> In q2 qs ->
        present (p_path q1) m <> None -> present (p_path q2) m <> None -> q1 = q2) ->
    NoDup qs ->
    (match members_present qs m with [_] => Some (VMsg m) | _ => None end) = None ->
    forall q, In q qs -> present (p_path q) m = None.
  Proof.
    intros Hone Hnd Hmp. pose proof (members_spec qs m) as Hs. pose proof (mp_nodup qs m Hnd) as Hn.
    destruct (members_present qs m) as [|[q1 v1] [|[q2 v2] t]] eqn:E.
    - exact Hs.
    - discriminate.
    - exfalso.
      destruct (mp_in qs m q1 v1 ltac:(rewrite E; left; reflexivity)) as [Hi1 P1].
      destruct (mp_in qs m q2 v2 ltac:(rewrite E; right; left; reflexivity)) as [Hi2 P2].
      assert (Heq : q1 = q2) by (apply Hone; try assumption; congruence).
      cbn [map fst] in Hn. inversion Hn as [|? ? Hni _]; subst. apply Hni. left. reflexivity.
  Qed.

  Lemma members_rt f m ps :
    T_value f -> (forall f', f = S f' -> T_oneof f') -> props_ok ps -> rep_props ps m ->
    forall ps1 xs,
      sequence (map (fun p => obind (prop_lookup env lookup_fuel p m) (fun ov =>
                  match ov with
                  | None => Ok []
                  | Some v => obind (escape (p_json p)) (fun l => omap (fun b => [member l b]) (enc_value f (p_ty p) v))
                  end)) ps1) = Ok xs ->
      (forall p, In p ps1 -> In p ps) -> NoDup (map p_json ps1) -> NoDup (leaves ps1) ->
      exists ms1, concat xs = map member_text ms1 /\
        forallb (fun kv => valid_utf8 (fst kv) && wfb (snd kv)) ms1 = true /\
        forall F d acc D seen, (3 * lsize ms1 + 3 <= F)%nat -> depth_ok d (S (lnest ms1)) ->
          Inv (leaves ps) m D acc -> (forall l, In l (leaves ps1) -> ~ In l D) ->
          (forall p, In p ps1 -> ~ In (p_json p) seen) ->
          exists acc', dec_members F d ps ms1 acc seen = Ok acc' /\ Inv (leaves ps) m (leaves ps1 ++ D) acc'.
  Proof.
    intros TV TO Hok Hrep. inversion Hrep as [? ? _ Hvals Hexcl Hexp]; subst.
    induction ps1 as [|p r IH]; intros xs H Hsub Hndn Hndl; cbn [map sequence] in H.
    - injection H as <-. exists []. split; [reflexivity|]. split; [reflexivity|].
      intros F d acc D seen HF Hd HInv _ _. destruct F as [|F]; [lia|]. rewrite dec_members_S.
      exists acc. split; [reflexivity|exact HInv].
    - apply obind_ok in H as (x & Hx & H). apply omap_ok in H as (ys & Hys & ->).
      apply obind_ok in Hx as (ov & Hov & Hx). apply (prop_lookup_present env Hflat) in Hov.
      cbn [map] in Hndn. apply NoDup_cons_iff in Hndn as [Hnin Hndn'].
      assert (Hleaves : leaves (p :: r) = prop_leaves p ++ leaves r) by reflexivity.
      rewrite Hleaves in Hndl. destruct (NoDup_app_l _ _ Hndl) as (Hndp & Hndr & Hdisj).
      destruct (IH ys Hys ltac:(intros; apply Hsub; right; assumption) Hndn' Hndr) as (ms & Hc & Hwf & Hloop).
      assert (Hp : In p ps) by (apply Hsub; left; reflexivity).
      assert (Hpl : forall l, In l (prop_leaves p) -> In l (leaves ps)).
      { intros l Hl0. unfold leaves. apply in_flat_map. exists p. split; assumption. }
      destruct ov as [v|].
      + (* the property is set: one member *)
        apply obind_ok in Hx as (lb & Hlb & Hx). apply omap_ok in Hx as (b & Hb & ->).
        apply escape_ok in Hlb as [Hk ->].
        destruct (p_path p) as [|p0 pr] eqn:Epath.
        * (* exposed oneof: the value is the message itself *)
          unfold prop_present in Hov. rewrite Epath in Hov.
          destruct (p_ty p) as [| | |ro| | |] eqn:Ety; try discriminate.
          destruct (lookup env ro) as [[|qs|]|] eqn:Elk; try discriminate.
          assert (Hv : v = VMsg m) by (destruct (members_present qs m) as [|? [|]]; congruence). subst v.
          assert (Hpq : prop_leaves p = qs) by (unfold prop_leaves; rewrite Epath, Ety, Elk; reflexivity).
          destruct f as [|f']; [discriminate|]. rewrite enc_value_S in Hb. rewrite Elk in Hb.
          destruct (TO f' eq_refl ro qs m b Elk Hb) as (oms & -> & Hwo & Hone).
          { intros q w Hq Hw. apply (Hvals q w); [apply Hpl; rewrite Hpq; exact Hq|exact Hw]. }
          exists ((p_json p, JObj oms) :: ms). split; [cbn [concat map app]; rewrite Hc; reflexivity|].
          split; [cbn [forallb fst snd]; rewrite Hk, Hwo, Hwf; reflexivity|].
          intros F d acc D seen HF Hd HInv HnD Hseen.
          cbn [lsize fold_right snd] in HF. fold (lsize ms) in HF. rewrite jsize_obj in HF.
          cbn [lnest fold_right snd] in Hd. fold (lnest ms) in Hd. rewrite jnest_obj in Hd.
          destruct F as [|F]; [lia|]. rewrite dec_members_S.
          rewrite (find_prop_nodup ps p (po_names ps Hok) Hp).
          destruct F as [|F]; [lia|]. rewrite dec_member_S.
          replace (max_nesting <? d + 1) with false by (unfold depth_ok in Hd; lia).
          replace (mem_b (p_json p) seen) with false by (symmetry; apply mem_b_false; apply Hseen; left; reflexivity).
          rewrite Epath. cbn [oneof_conflict].
          destruct F as [|F]; [lia|]. rewrite dec_value_S. rewrite Ety, Elk, Epath.
          destruct (Hone F (d + 1) ps acc D) as (acc1 & Hd1 & HInv1); try assumption.
          { lia. } { unfold depth_ok in *. lia. }
          { intros q Hq. apply Hpl. rewrite Hpq. exact Hq. }
          { intros q Hq. apply HnD. rewrite Hleaves. apply in_or_app. left. rewrite Hpq. exact Hq. }
          rewrite Hd1. cbn [obind fst snd].
          destruct (Hloop (S (S F)) d acc1 (qs ++ D) (p_json p :: seen)) as (acc2 & Hd2 & HInv2); try assumption.
          { lia. } { unfold depth_ok in *. lia. }
          { intros l Hl0 Hin. apply in_app_or in Hin as [Hq|HD].
            - apply (Hdisj l); [rewrite Hpq; exact Hq|exact Hl0].
            - apply (HnD l); [rewrite Hleaves; apply in_or_app; right; exact Hl0|exact HD]. }
          { intros q Hq [E|Hin]; [apply Hnin; rewrite E; apply in_map; exact Hq|].
            apply (Hseen q); [right; exact Hq|exact Hin]. }
          exists acc2. split; [exact Hd2|].
          apply (inv_extend _ _ (leaves r ++ qs ++ D)); [exact HInv2| |].
          -- intros l Hin. rewrite Hleaves, Hpq. apply in_app_or in Hin as [H1|H1]; [apply in_or_app; left; apply in_or_app; right; exact H1|].
             apply in_app_or in H1 as [H1|H1]; [apply in_or_app; left; apply in_or_app; left; exact H1|apply in_or_app; right; exact H1].
          -- intros l Hin _. left. rewrite Hleaves, Hpq in Hin. apply in_app_or in Hin as [H1|H1]; [|apply in_or_app; right; apply in_or_app; right; exact H1].
             apply in_app_or in H1 as [H1|H1]; [apply in_or_app; right; apply in_or_app; left; exact H1|apply in_or_app; left; exact H1].
        * (* a leaf *)
          assert (Hne : p_path p <> []) by (rewrite Epath; discriminate).
          rewrite (prop_present_leaf p m Hne) in Hov.
          assert (Hpq : prop_leaves p = [p]) by (unfold prop_leaves; destruct (p_path p); [congruence|reflexivity]).
          assert (HpL : In p (leaves ps)) by (apply Hpl; rewrite Hpq; left; reflexivity).
          destruct (Hvals p v HpL Hov) as [Hrv _].
          destruct (TV _ _ _ Hb Hrv) as (J & -> & HwJ & HJ & Hdec).
          exists ((p_json p, J) :: ms). split; [cbn [concat map app]; rewrite Hc; reflexivity|].
          split; [cbn [forallb fst snd]; rewrite Hk, HwJ, Hwf; reflexivity|].
          intros F d acc D seen HF Hd HInv HnD Hseen.
          cbn [lsize fold_right snd] in HF. fold (lsize ms) in HF.
          cbn [lnest fold_right snd] in Hd. fold (lnest ms) in Hd.
          destruct F as [|F]; [lia|]. rewrite dec_members_S.
          rewrite (find_prop_nodup ps p (po_names ps Hok) Hp).
          destruct (leaf_read ps m D acc p v J F d seen Hok Hrep HInv HpL) as (acc1 & Hd1 & HInv1); try assumption.
          { apply HnD. rewrite Hleaves, Hpq. left. reflexivity. }
          { lia. } { unfold depth_ok in *. lia. }
          { apply mem_b_false. apply Hseen. left. reflexivity. }
          rewrite Hd1. cbn [obind fst snd].
          pose proof (jsize_pos J) as HJs.
          destruct (Hloop F d acc1 (p :: D) (p_json p :: seen)) as (acc2 & Hd2 & HInv2); try assumption.
          { lia. } { unfold depth_ok in *. lia. }
          { intros l Hl0 [<-|HD]; [apply (Hdisj p); [rewrite Hpq; left; reflexivity|exact Hl0]|].
            apply (HnD l); [rewrite Hleaves; apply in_or_app; right; exact Hl0|exact HD]. }
          { intros q Hq [E|Hin]; [apply Hnin; rewrite E; apply in_map; exact Hq|].
            apply (Hseen q); [right; exact Hq|exact Hin]. }
          exists acc2. split; [exact Hd2|].
          apply (inv_extend _ _ (leaves r ++ p :: D)); [exact HInv2| |].
          -- intros l Hin. rewrite Hleaves, Hpq. cbn [app]. apply in_app_or in Hin as [H1|[<-|H1]];
               [right; apply in_or_app; left; exact H1|left; reflexivity|right; apply in_or_app; right; exact H1].
          -- intros l Hin _. left. rewrite Hleaves, Hpq in Hin. cbn [app] in Hin. destruct Hin as [<-|Hin];
               [apply in_or_app; right; left; reflexivity|].
             apply in_app_or in Hin as [H1|H1]; [apply in_or_app; left; exact H1|apply in_or_app; right; right; exact H1].
      + (* not set: no member; its leaves are unpopulated in the original *)
        injection Hx as <-. exists ms. split; [exact Hc|]. split; [exact Hwf|].
        intros F d acc D seen HF Hd HInv HnD Hseen.
        destruct (Hloop F d acc D seen HF Hd HInv) as (acc2 & Hd2 & HInv2).
        { intros l Hl0. apply HnD. rewrite Hleaves. apply in_or_app. right. exact Hl0. }
        { intros q Hq. apply Hseen. right. exact Hq. }
        exists acc2. split; [exact Hd2|].
        apply (inv_extend _ _ (leaves r ++ D)); [exact HInv2| |].
        * intros l Hin. rewrite Hleaves. apply in_app_or in Hin as [H1|H1];
            [apply in_or_app; left; apply in_or_app; right; exact H1|apply in_or_app; right; exact H1].
        * intros l Hin HL. rewrite Hleaves in Hin. apply in_app_or in Hin as [H1|H1]; [|left; apply in_or_app; right; exact H1].
          apply in_app_or in H1 as [H1|H1]; [|left; apply in_or_app; left; exact H1].
          right. (* a leaf of the unset property *)
          destruct (p_path p) as [|p0 pr] eqn:Epath.
          -- unfold prop_present in Hov. rewrite Epath in Hov. unfold prop_leaves in H1. rewrite Epath in H1.
             destruct (p_ty p) as [| | |ro| | |] eqn:Ety; try contradiction.
             destruct (lookup env ro) as [[|qs|]|] eqn:Elk; try contradiction.
             eapply (exposed_unset m qs); [| |exact Hov|exact H1].
             ++ intros q1 q2 Hq1 Hq2. apply (Hexp p q1 q2 Hp); unfold exposed_members, prop_leaves; rewrite Epath, Ety, Elk; assumption.
             ++ unfold prop_leaves in Hndp. rewrite Epath, Ety, Elk in Hndp. exact Hndp.
          -- assert (Hne : p_path p <> []) by (rewrite Epath; discriminate).
             rewrite (prop_present_leaf p m Hne) in Hov.
             unfold prop_leaves in H1. destruct (p_path p) eqn:E2; [congruence|]. destruct H1 as [<-|[]]. rewrite E2. exact Hov.
  Qed.

  Lemma kept_scalar_equiv k v v' e : scalar_equiv k v v' -> kept e v = true -> kept e v' = true.
  Proof.
    unfold scalar_equiv. destruct k; try (intros ->; auto).
    intros (s & s' & -> & _ & -> & _) _. unfold mk_decimal, wkt_fields. cbn. destruct e; reflexivity.
  Qed.

  Lemma T_all : forall f, T_value f /\ T_object f /\ T_oneof f.
  Proof.
    induction f as [f IHf] using lt_wf_ind.
    assert (TV : forall f', (f' < f)%nat -> T_value f') by (intros f' H; apply (IHf f' H)).
    assert (TOb : forall f', (f' < f)%nat -> T_object f') by (intros f' H; apply (IHf f' H)).
    assert (TOn : forall f', (f' < f)%nat -> T_oneof f') by (intros f' H; apply (IHf f' H)).
    destruct f as [|f]; [repeat split; intros *; cbn; discriminate || (intros; discriminate)|].
    (* ---- objects *)
    assert (Hobj : T_object (S f)).
    { intros ps m txt H Hrep. rewrite enc_object_S in H. apply omap_ok in H as (xs & Hxs & ->).
      inversion Hrep as [? ? Hok _ _ _]; subst.
      destruct (members_rt f m ps (TV f ltac:(lia)) ltac:(intros f' ->; apply TOn; lia) Hok Hrep ps xs Hxs
                  ltac:(auto) (po_names ps Hok) (po_nodup ps Hok)) as (ms & Hc & Hwf & Hloop).
      exists ms. split; [rewrite print_obj', Hc; reflexivity|]. split; [exact Hwf|].
      intros F d HF Hd. destruct (Hloop F d [] [] [] HF Hd (inv_nil _ _)) as (b & Hb & [I1 _]).
      { intros l _ []. } { intros p _ []. }
      exists b. split; [exact Hb|]. constructor. intros l Hl. apply I1; [|exact Hl]. apply in_or_app. left. exact Hl. }
    (* ---- oneofs *)
    assert (Hone : T_oneof (S f)).
    { intros r qs m txt Hlk H Hvals. rewrite enc_oneof_S in H.
      apply obind_ok in H as (o & Ho & H). pose proof (Hflat _ _ Hlk) as HF.
      apply (get_one_spec env qs m o HF) in Ho.
      assert (Hpp : forall q, In q qs -> prop_present env q m = present (p_path q) m).
      { intros q Hq. apply prop_present_leaf. rewrite Forall_forall in HF. apply HF. exact Hq. }
      destruct o as [[q v]|].
      - destruct Ho as (Hq & Hpv & Hoth). rewrite Hpp in Hpv by exact Hq.
        apply obind_ok in H as (l1 & Hl1 & H). apply obind_ok in H as (nm & Hnm & H).
        apply obind_ok in H as (b & Hb & H). injection H as <-.
        apply escape_ok in Hl1 as [_ ->]. apply escape_ok in Hnm as [Hk ->].
        destruct (TV f ltac:(lia) _ _ _ Hb (Hvals q v Hq Hpv)) as (J & -> & HwJ & HJ & Hdec).
        exists [(txt_type, JStr (p_json q)); (p_json q, J)]. split; [rewrite print_two; reflexivity|].
        split; [cbn [wfb forallb fst snd]; rewrite Hk, HwJ; reflexivity|].
        eapply oneof_dec_one; try eassumption.
        intros q' Hq' Hne. rewrite <- Hpp by exact Hq'. apply Hoth; assumption.
      - injection H as <-. exists []. split; [reflexivity|]. split; [reflexivity|].
        eapply oneof_dec_empty; [exact Hlk|]. intros q Hq. rewrite <- Hpp by exact Hq. apply Ho. exact Hq. }
    split; [|split; assumption].
    (* ---- values *)
    intros t v txt H Hrv. rewrite enc_value_S in H. destruct t as [k|r|r|r|it|it|pb].
    - (* scalar *)
      inversion Hrv as [? ? Hrs| | | | | | |]; subst.
      destruct (Hscalar k v Hrs)
        as (J & (txt0 & He & ->) & Hw & Hnc & HJ & v' & Hds & Heq).
      rewrite He in H. injection H as <-.
      exists J. split; [reflexivity|]. split; [exact Hw|]. split; [exact HJ|].
      cbn [dec_ok_value]. split; [exact Hnc|]. exists v'. split; [exact Hds|]. split; [exact Heq|].
      intros e. apply (kept_scalar_equiv k v v' e Heq).
    - (* enum *)
      inversion Hrv as [|? ? ? ? ? Hlk Hbn Hnd Hvn| | | | | |]; subst.
      pose proof (option_by_name_inverse pre _ _ _ Hnd Hbn) as Hbnm. rewrite Hlk, Hbn in H.
      apply escape_ok in H as [Hv ->]. exists (JStr name). split; [reflexivity|]. split; [exact Hv|]. split; [discriminate|].
      cbn [dec_ok_value]. exists pre, opts, name, n. repeat split; assumption.
    - (* object *)
      inversion Hrv as [| |? ? ? Hlk Hrp| | | | |]; subst. rewrite Hlk in H.
      destruct (TOb f ltac:(lia) _ _ _ H Hrp) as (ms & -> & Hw & Hd).
      exists (JObj ms). split; [reflexivity|]. split; [exact Hw|]. split; [discriminate|].
      cbn [dec_ok_value]. exists ps, ms, m. repeat split; assumption.
    - (* oneof *)
      inversion Hrv as [| | |? ? ? Hlk Hrp Hamo| | | |]; subst. rewrite Hlk in H.
      inversion Hrp as [? ? Hokps Hvals _ _]; subst.
      pose proof (leaves_flat ps (Hflat _ _ Hlk)) as Hlv.
      destruct (TOn f ltac:(lia) r ps m txt Hlk H) as (ms & -> & Hw & Hd).
      { intros q w Hq Hw. apply (Hvals q w); [rewrite Hlv; exact Hq|exact Hw]. }
      exists (JObj ms). split; [reflexivity|]. split; [exact Hw|]. split; [discriminate|].
      cbn [dec_ok_value]. exists ps, ms, m. repeat split; assumption.
    - (* array *)
      inversion Hrv as [| | | |? ? Hne Hit Hall| | |]; subst.
      apply omap_ok in H as (xs & Hxs & ->).
      assert (Hel : exists js, xs = map print js /\ forallb wfb js = true /\ Forall2 (elem_ok it) l js).
      { clear Hne Hrv. revert xs Hxs. induction Hall as [|x r Hx Hr IH]; intros xs Hxs; cbn [map sequence] in Hxs.
        - injection Hxs as <-. exists []. repeat split; constructor.
        - apply obind_ok in Hxs as (b & Hb & Hxs). apply omap_ok in Hxs as (ys & Hys & ->).
          destruct (TV f ltac:(lia) _ _ _ Hb Hx) as (J & -> & HwJ & HJ & Hdec).
          destruct (IH ys Hys) as (js & -> & Hwjs & Hf2).
          exists (J :: js). split; [reflexivity|]. split; [cbn [forallb]; rewrite HwJ, Hwjs; reflexivity|].
          constructor; [repeat split; assumption|exact Hf2]. }
      destruct Hel as (js & -> & Hwjs & Hf2).
      exists (JArr js). split; [reflexivity|]. split; [exact Hwjs|]. split; [discriminate|].
      cbn [dec_ok_value]. exists js, l. split; [reflexivity|]. split; [reflexivity|].
      intros F d HF Hd. destruct (items_rt it Hit l js Hf2 F d [] HF Hd) as (l' & Hl' & Hf).
      exists l'. split; [exact Hl'|]. split; [exact Hf|].
      intros ->. inversion Hf; subst. congruence.
    - (* map *)
      inversion Hrv as [| | | | |? ? Hne Hit Hnd Hall Hku| |]; subst.
      apply omap_ok in H as (xs & Hxs & ->).
      assert (Hel : exists ms, xs = map member_text ms /\
                forallb (fun kv => valid_utf8 (fst kv) && wfb (snd kv)) ms = true /\
                Forall2 (fun kv km => fst kv = fst km /\ elem_ok it (snd kv) (snd km)) es ms).
      { clear Hne Hnd Hrv Hku. revert xs Hxs. induction Hall as [|[k x] r Hx Hr IH]; intros xs Hxs; cbn [map sequence] in Hxs.
        - injection Hxs as <-. exists []. repeat split; constructor.
        - apply obind_ok in Hxs as (b & Hb & Hxs). apply omap_ok in Hxs as (ys & Hys & ->).
          cbn [fst snd] in *. apply obind_ok in Hb as (lb & Hlb & Hb). apply omap_ok in Hb as (b' & Hb' & ->).
          apply escape_ok in Hlb as [Hk ->].
          destruct (TV f ltac:(lia) _ _ _ Hb' Hx) as (J & -> & HwJ & HJ & Hdec).
          destruct (IH ys Hys) as (ms & -> & Hwms & Hf2).
          exists ((k, J) :: ms). split; [reflexivity|]. split; [cbn [forallb fst snd]; rewrite Hk, HwJ, Hwms; reflexivity|].
          constructor; [split; [reflexivity|repeat split; assumption]|exact Hf2]. }
      destruct Hel as (ms & -> & Hwms & Hf2).
      exists (JObj ms). split; [reflexivity|]. split; [exact Hwms|]. split; [discriminate|].
      cbn [dec_ok_value]. exists ms, es. split; [reflexivity|]. split; [reflexivity|].
      assert (Hkeys : map fst ms = map fst es).
      { clear - Hf2. induction Hf2 as [|? ? ? ? [Hk _] _ IH]; [reflexivity|]. cbn [map]. rewrite IH, Hk. reflexivity. }
      assert (Hndm : NoDup (map fst ms)) by (rewrite Hkeys; exact Hnd).
      intros F d HF Hd. destruct (entries_rt it Hit es ms Hf2 Hndm F d [] [] HF Hd) as (es' & Hes' & Hf).
      { intros k _. split; [reflexivity|intros []]. }
      exists es'. split; [exact Hes'|]. split; [exact Hf|].
      intros ->. inversion Hf as [|? ? ? ? ? ? E1 E2]; subst. apply Hne. reflexivity.
    - (* any *)
      destruct v as [| | | | | |m| |]; try discriminate.
      unfold enc_any in H.
      apply obind_ok in H as (tn0 & Htn & H). apply obind_ok in H as (data & Hdata & H).
      apply obind_ok in H as (l1 & Hl1 & H). apply obind_ok in H as (t & Ht & H).
      apply obind_ok in H as (l2 & Hl2 & H). injection H as <-.
      apply escape_ok in Hl1 as [_ ->]. apply escape_ok in Hl2 as [_ ->]. apply escape_ok in Ht as [Hvtn ->].
      pose proof (field_bytes_s _ _ _ Htn) as Hs1.
      revert Hs1. inversion Hrv as [| | | | | |? Hvt Hshape Hraw Hat Hbk|? tn Hurl Hvt Hshape Hat Hbk]; subst; intros Hs1.
      + (* a j5 Any *)
        cbv iota in Hdata, Hvtn |- *.
        assert (Hc : compact_json data /\ any_text m = Ok data).
        { unfold any_text. rewrite Hs1.
          destruct (msg_get 3 m) as [v3|] eqn:E3.
          - destruct (Hshape 3 v3 E3) as [(Hn & _)|[(Hn & _)|(_ & s & ->)]]; try discriminate.
            apply stored_json_ok in Hdata as [-> _]. split; [|reflexivity]. apply Hraw. reflexivity.
          - apply obind_ok in Hdata as (pbytes & Hpb & Hd). rewrite (field_bytes_s _ _ _ Hpb).
            split; [eapply Hinner; exact Hd|exact Hd]. }
        destruct Hc as [(Jd & Hwd & ->) Htxt].
        assert (Hst : exists sub', any_stored false tn0 Jd = Ok sub' /\ equiv_value (FAny false) (VMsg m) (VMsg sub')).
        { unfold any_stored. destruct any_back as [back|] eqn:Eb.
          - destruct (Hbk back Jd eq_refl Hwd Htxt) as (pb' & Hpb'). rewrite Hs1 in Hpb'. rewrite Hpb'. cbn [obind].
            eexists. split; [reflexivity|].
            pose proof (Hraw_ne Jd Hwd) as Hpn.
            assert (Hk3 : kept false (VBytes (raw Jd)) = true) by (cbn; destruct (raw Jd); [congruence|reflexivity]).
            apply EV_any with (Jd := Jd); [|exact Hwd|exact Htxt|apply msg_get_set_same; exact Hk3].
            rewrite sfield_set_other by lia. rewrite sfield_set_other by lia. rewrite sfield_set_str. symmetry. exact Hs1.
          - eexists. split; [reflexivity|]. apply any_result_equiv; [exact Hwd|symmetry; exact Hs1|exact Htxt]. }
        destruct Hst as (sub' & Hst & Hequiv).
        exists (JObj [(txt_type, JStr tn0); (txt_value, Jd)]). split; [rewrite print_two; reflexivity|].
        split; [cbn [wfb forallb fst snd]; rewrite Hvtn, Hwd; reflexivity|]. split; [discriminate|].
        cbn [dec_ok_value]. exists [(txt_type, JStr tn0); (txt_value, Jd)], m, tn0, Jd, sub'.
        repeat split; try assumption; reflexivity.
      + (* a google.protobuf.Any *)
        cbv iota in Hdata, Hvtn |- *.
        assert (Htrim : trim_prefix any_prefix tn0 = tn).
        { rewrite <- Hs1, Hurl. unfold trim_prefix.
          assert (Hsp : forall p t, strip_prefix p (p ++ t) = Some t).
          { clear. induction p as [|c r IH]; intros t; cbn [app strip_prefix]; [reflexivity|]. rewrite N.eqb_refl. apply IH. }
          rewrite Hsp. reflexivity. }
        rewrite Htrim in *.
        apply obind_ok in Hdata as (pbytes & Hpb & Hd). rewrite <- (field_bytes_s _ _ _ Hpb) in Hd.
        destruct (Hinner _ _ _ Hd) as (Jd & Hwd & ->).
        destruct Hbk as (back & Eb & Hbk'). destruct (Hbk' Jd Hwd Hd) as (pb' & Hpb').
        exists (JObj [(txt_type, JStr tn); (txt_value, Jd)]). split; [rewrite print_two; reflexivity|].
        split; [cbn [wfb forallb fst snd]; rewrite Hvtn, Hwd; reflexivity|]. split; [discriminate|].
        cbn [dec_ok_value].
        exists [(txt_type, JStr tn); (txt_value, Jd)], m, tn, Jd,
               (msg_set false [] 2 (VBytes pb') (msg_set false [] 1 (VStr (any_prefix ++ tn)) [])).
        split; [reflexivity|]. split; [reflexivity|]. split; [reflexivity|].
        split; [unfold any_stored; rewrite Eb, Hpb'; reflexivity|].
        apply EV_pbany with (tn := tn) (Jd := Jd) (back := back); try assumption.
        * rewrite sfield_set_other by lia. rewrite sfield_set_str. symmetry. exact Hurl.
        * rewrite sfield_set_bytes. exact Hpb'.
  Qed.

  (* ---------------------------------------------------------------- the codec round trip *)
  Definition rep_root (root : bytes) (m : msg) : Prop :=
    match lookup env root with
    | Some (SObject ps) => rep_props ps m
    | Some (SOneof ps) =>
        rep_props ps m /\
        (forall q1 q2, In q1 ps -> In q2 ps ->
           present (p_path q1) m <> None -> present (p_path q2) m <> None -> q1 = q2)
    | _ => False
    end.
  Definition equiv_root (root : bytes) (m m' : msg) : Prop :=
    match lookup env root with
    | Some (SObject ps) | Some (SOneof ps) => equiv_props ps m m'
    | _ => False
    end.

  Theorem codec_roundtrip_print root m txt :
    rep_root root m -> encode fmt_float any_inner env root m = Ok txt ->
    exists J, txt = print J /\ wfb J = true /\
      (N.of_nat (jnest J) <= max_nesting ->
       exists m', decode_tree dsc raw mapchk any_back env root J = Ok m' /\ equiv_root root m m').
  Proof.
    unfold rep_root, equiv_root, encode, encode_fuel, decode_tree, decode_tree_fuel. intros Hrep H.
    set (f := (4 * pval_depth (VMsg m) + 4)%nat) in *. destruct (T_all f) as (_ & TOb & TOn).
    destruct (lookup env root) as [[ps|ps|]|] eqn:Elk; try contradiction.
    - destruct (TOb _ _ _ H Hrep) as (ms & -> & Hw & Hd). exists (JObj ms). split; [reflexivity|]. split; [exact Hw|].
      intros Hn. rewrite jnest_obj in Hn.
      destruct (Hd (3 * jsize (JObj ms) + 3)%nat 0) as (b & Hb & Heq).
      { rewrite jsize_obj. lia. } { unfold depth_ok. lia. }
      exists b. split; assumption.
    - destruct Hrep as [Hrep _]. inversion Hrep as [? ? Hok Hvals _ _]; subst.
      pose proof (leaves_flat ps (Hflat _ _ Elk)) as Hlv.
      destruct (TOn root ps m txt Elk H) as (ms & -> & Hw & Hd).
      { intros q w Hq Hw. apply (Hvals q w); [rewrite Hlv; exact Hq|exact Hw]. }
      exists (JObj ms). split; [reflexivity|]. split; [exact Hw|].
      intros Hn. rewrite jnest_obj in Hn.
      destruct (oneof_fresh root ps m ms (3 * jsize (JObj ms) + 3)%nat 0 Elk Hrep Hd) as (b & Hb & Heq).
      { rewrite jsize_obj. lia. } { unfold depth_ok. lia. }
      exists b. split; assumption.
  Qed.

  Theorem codec_roundtrip root m txt :
    rep_root root m -> encode fmt_float any_inner env root m = Ok txt ->
    exists J, strict_parse txt = Some J /\
      (N.of_nat (jnest J) <= max_nesting ->
       exists m', decode_tree dsc raw mapchk any_back env root J = Ok m' /\ equiv_root root m m').
  Proof.
    intros Hrep H. destruct (codec_roundtrip_print root m txt Hrep H) as (J & -> & Hw & Hd).
    exists J. split; [apply parse_print; exact Hw|exact Hd].
  Qed.

  (* ---------------------------------------------------------------- the static conditions, decided *)
  Fixpoint diverge_b (p q : list N) : bool :=
    match p, q with
    | x :: p', y :: q' => if x =? y then diverge_b p' q' else true
    | _, _ => false
    end.

  Lemma diverge_b_sound p : forall q, diverge_b p q = true -> paths_diverge p q.
  Proof.
    induction p as [|x p IH]; intros [|y q] H; cbn [diverge_b] in H; try discriminate.
    destruct (x =? y) eqn:E.
    - apply N.eqb_eq in E. subst y. destruct (IH q H) as (c & a & b & rp & rq & -> & -> & Hne).
      exists (x :: c), a, b, rp, rq. repeat split; assumption || reflexivity.
    - exists [], x, y, p, q. repeat split; try reflexivity. lia.
  Qed.

  Definition prop_eqb (a b : property) : bool := if property_eq_dec a b then true else false.
  Fixpoint nodup_b {A} (eqb : A -> A -> bool) (l : list A) : bool :=
    match l with
    | [] => true
    | x :: r => negb (existsb (eqb x) r) && nodup_b eqb r
    end.

  Lemma nodup_b_sound {A} (eqb : A -> A -> bool) (l : list A) :
    (forall a b, a = b -> eqb a b = true) -> nodup_b eqb l = true -> NoDup l.
  Proof.
    intros Heq. induction l as [|x r IH]; intros H; [constructor|]. cbn [nodup_b] in H.
    apply andb_true_iff in H as [H1 H2]. constructor; [|apply IH; exact H2].
    intros Hin. apply negb_true_iff in H1. assert (E : existsb (eqb x) r = true) by (apply existsb_exists; exists x; split; [exact Hin|apply Heq; reflexivity]).
    congruence.
  Qed.

  Definition path_eqb (a b : list N) : bool := if list_eq_dec N.eq_dec a b then true else false.

  Definition siblings_ok_b (L : list property) (l : property) : bool :=
    let a := removelast (p_path l) in
    let n := last (p_path l) 0 in
    forallb (fun s => negb (s =? n) && existsb (fun l2 => path_eqb (p_path l2) (a ++ [s])) L) (p_siblings l).

  Definition props_ok_b (ps : list property) : bool :=
    let L := leaves ps in
    nodup_b bytes_eqb (map p_json ps) && nodup_b prop_eqb L &&
    forallb (fun l => match p_path l with [] => false | _ => true end) L &&
    forallb (fun l1 => forallb (fun l2 => prop_eqb l1 l2 || diverge_b (p_path l1) (p_path l2)) L) L &&
    forallb (siblings_ok_b L) L &&
    forallb (fun p => match p_path p with
                      | [] => match p_ty p with
                              | FOneof r => match lookup env r with Some (SOneof _) => true | _ => false end
                              | _ => false
                              end
                      | _ => true
                      end) ps &&
    forallb (fun p => valid_utf8 (p_json p)) ps && forallb (fun l => valid_utf8 (p_json l)) L.

  Lemma props_ok_b_sound ps : props_ok_b ps = true -> props_ok ps.
  Proof.
    unfold props_ok_b. intros H.
    apply andb_true_iff in H as [H Hul]. apply andb_true_iff in H as [H Hu]. apply andb_true_iff in H as [H Hexp].
    apply andb_true_iff in H as [H Hs]. apply andb_true_iff in H as [H Hd].
    apply andb_true_iff in H as [H Hp]. apply andb_true_iff in H as [Hn Hnd].
    constructor.
    - apply (nodup_b_sound bytes_eqb); [intros a b ->; apply bytes_eqb_refl|exact Hn].
    - apply (nodup_b_sound prop_eqb); [|exact Hnd]. intros a b ->. unfold prop_eqb. destruct (property_eq_dec b b); [reflexivity|congruence].
    - intros l Hl. rewrite forallb_forall in Hp. specialize (Hp l Hl). destruct (p_path l); [discriminate|discriminate].
    - intros l1 l2 H1 H2 Hne. rewrite forallb_forall in Hd. specialize (Hd l1 H1). rewrite forallb_forall in Hd. specialize (Hd l2 H2).
      apply orb_true_iff in Hd as [He|Hdv]; [|apply diverge_b_sound; exact Hdv].
      unfold prop_eqb in He. destruct (property_eq_dec l1 l2); [contradiction|discriminate].
    - intros l a n s Hl Hpath Hsib. rewrite forallb_forall in Hs. specialize (Hs l Hl). unfold siblings_ok_b in Hs.
      rewrite forallb_forall in Hs. specialize (Hs s Hsib). apply andb_true_iff in Hs as [Hne Hex].
      rewrite Hpath in Hne, Hex. rewrite removelast_last in Hex. rewrite last_last in Hne.
      split; [apply negb_true_iff in Hne; lia|].
      apply existsb_exists in Hex as (l2 & Hl2 & He). exists l2. split; [exact Hl2|].
      unfold path_eqb in He. destruct (list_eq_dec N.eq_dec (p_path l2) (a ++ [s])); [assumption|discriminate].
    - intros p0 Hp0 Hpath. rewrite forallb_forall in Hexp. specialize (Hexp p0 Hp0). rewrite Hpath in Hexp.
      destruct (p_ty p0) as [| | |r| | |]; try discriminate. destruct (lookup env r) as [[|qs|]|] eqn:El; try discriminate.
      exists r, qs. split; [reflexivity|exact El].
    - intros p0 Hp0. rewrite forallb_forall in Hu. apply Hu. exact Hp0.
    - intros l Hl. rewrite forallb_forall in Hul. apply Hul. exact Hl.
  Qed.

End RT.

(* ---------------------------------------------------------------- the hypothesis on oneof member names, decided *)
Definition oneof_names_ok_b (e : env) : bool :=
  forallb (fun ns => match snd ns with
                     | SOneof ps => nodup_b bytes_eqb (map p_json ps) &&
                                    forallb (fun q => negb (bytes_eqb (p_json q) txt_type)) ps
                     | _ => true
                     end) e.

Lemma lookup_in (e : env) name s : lookup e name = Some s -> exists n', In (n', s) e.
Proof.
  induction e as [|[n0 s0] r IH]; cbn [lookup]; [discriminate|].
  destruct (bytes_eqb n0 name); [intros [= <-]; exists n0; left; reflexivity|].
  intros H. destruct (IH H) as (n' & Hin). exists n'. right. exact Hin.
Qed.

Lemma oneof_names_ok_b_sound (e : env) : oneof_names_ok_b e = true -> oneof_names_ok e.
Proof.
  unfold oneof_names_ok_b, oneof_names_ok. intros H name ps Hlk. rewrite forallb_forall in H.
  destruct (lookup_in _ _ _ Hlk) as (n' & Hin). specialize (H _ Hin). cbn [snd] in H.
  apply andb_true_iff in H as [H1 H2]. split.
  - apply (nodup_b_sound bytes_eqb); [intros a b ->; apply bytes_eqb_refl|exact H1].
  - intros q Hq E. rewrite forallb_forall in H2. specialize (H2 q Hq). rewrite E, bytes_eqb_refl in H2. discriminate.
Qed.

Lemma oneofs_flat_b_sound (e : env) :
  forallb (fun ns => match snd ns with
                     | SOneof ps => forallb (fun p => match p_path p with [] => false | _ => true end) ps
                     | _ => true
                     end) e = true -> oneofs_flat e.
Proof.
  intros H name ps Hlk. rewrite forallb_forall in H. destruct (lookup_in _ _ _ Hlk) as (n' & Hin).
  specialize (H _ Hin). cbn [snd] in H. apply Forall_forall. intros p Hp. rewrite forallb_forall in H.
  specialize (H p Hp). destruct (p_path p); [discriminate|discriminate].
Qed.

(* the premises about strconv and time.Parse are jointly satisfiable *)
Definition inst_fmt (is32 : bool) (bits : N) : bytes := print_Z (Z.of_N bits).
Definition inst_parse_float (is32 : bool) (s : bytes) : option N := parse_N s.
Lemma premises_satisfiable :
  float_text_ok inst_fmt /\ float_roundtrip inst_fmt inst_parse_float /\ time_parse_extends parse_rfc3339.
Proof.
  split; [intros is32 bits _; apply print_Z_valid_number|].
  split; [|intros s r H; exact H].
  intros is32 bits _ _. unfold inst_fmt, inst_parse_float. rewrite parse_N_print_nat by lia. rewrite N2Z.id. reflexivity.
Qed.

(* arrays and maps hold scalars, enums, objects or oneofs (what the reflector builds); the decoder
   family's model refuses other element types before looking at the elements *)
Definition ty_ok (t : field_ty) : bool :=
  match t with FArray it | FMap it => item_ok it | _ => true end.
Definition env_items_ok (e : env) : Prop :=
  forall r ps, lookup e r = Some (SObject ps) \/ lookup e r = Some (SOneof ps) ->
    forall p, In p ps -> ty_ok (p_ty p) = true.
Definition env_items_ok_b (e : env) : bool :=
  forallb (fun ns => match snd ns with
                     | SObject ps | SOneof ps => forallb (fun p => ty_ok (p_ty p)) ps
                     | SEnum _ _ => true
                     end) e.
Lemma env_items_ok_b_sound e : env_items_ok_b e = true -> env_items_ok e.
Proof.
  intros H r ps Hlk p Hp. unfold env_items_ok_b in H. rewrite forallb_forall in H.
  destruct Hlk as [Hlk|Hlk]; destruct (lookup_in _ _ _ Hlk) as (n' & Hin); specialize (H _ Hin); cbn [snd] in H;
    rewrite forallb_forall in H; apply H; exact Hp.
Qed.

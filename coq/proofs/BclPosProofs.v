(* BclPosProofs.v — positions inside a rune slice: the position of every
   prefix of the input ([P pre]), their order, and what "inside the input"
   means in terms of lines (strings.Split(input, "\n")). *)
From Coq Require Import String List NArith ZArith Bool Lia ZifyN ZifyNat ZifyBool.
From J5V.lib Require Import Text.
From J5V.model Require Import BclLexer.
Import ListNotations.
Local Open Scope Z_scope.

(* advancing over one rune: a newline moves to the start of the next line *)
Definition adv (p : pos) (r : N) : pos :=
  if N.eqb r 10 then (fst p + 1, 0) else (fst p, snd p + 1).
Definition adv_all (p : pos) (pre : list N) : pos := fold_left adv pre p.
(* the position of the rune that follows the prefix [pre] (or of EOF) *)
Definition P (pre : list N) : pos := adv_all pos0 pre.

Definition pos_le (a b : pos) : Prop := fst a < fst b \/ (fst a = fst b /\ snd a <= snd b).
Definition pos_lt (a b : pos) : Prop := fst a < fst b \/ (fst a = fst b /\ snd a < snd b).

Definition pfx (a b : list N) : Prop := exists x, b = a ++ x.
(* a position that some prefix of the input has *)
Definition valid_pos (inp : list N) (p : pos) : Prop := exists pre, pfx pre inp /\ p = P pre.

Lemma pos_le_refl a : pos_le a a.
Proof. unfold pos_le. lia. Qed.
Lemma pos_le_trans a b c : pos_le a b -> pos_le b c -> pos_le a c.
Proof. unfold pos_le. lia. Qed.
Lemma pos_lt_le a b : pos_lt a b -> pos_le a b.
Proof. unfold pos_lt, pos_le. lia. Qed.
Lemma pos_le_lt_trans a b c : pos_le a b -> pos_lt b c -> pos_lt a c.
Proof. unfold pos_le, pos_lt. lia. Qed.
Lemma pos_lt_le_trans a b c : pos_lt a b -> pos_le b c -> pos_lt a c.
Proof. unfold pos_le, pos_lt. lia. Qed.
Lemma pos_lt_irrefl a : ~ pos_lt a a.
Proof. unfold pos_lt. lia. Qed.

Lemma pfx_refl a : pfx a a.
Proof. exists []. now rewrite app_nil_r. Qed.
Lemma pfx_nil a : pfx [] a.
Proof. now exists a. Qed.
Lemma pfx_app a x : pfx a (a ++ x).
Proof. now exists x. Qed.
Lemma pfx_trans a b c : pfx a b -> pfx b c -> pfx a c.
Proof. intros [x ->] [y ->]. exists (x ++ y). now rewrite app_assoc. Qed.
Lemma pfx_snoc a c x : pfx (a ++ [c]) (a ++ c :: x).
Proof. exists x. now rewrite <- app_assoc. Qed.

Lemma adv_all_app p a b : adv_all p (a ++ b) = adv_all (adv_all p a) b.
Proof. unfold adv_all. apply fold_left_app. Qed.
Lemma P_snoc pre c : P (pre ++ [c]) = adv (P pre) c.
Proof. unfold P. rewrite adv_all_app. reflexivity. Qed.

Lemma adv_lt p r : 0 <= snd p -> pos_lt p (adv p r).
Proof. unfold adv, pos_lt. destruct (N.eqb r 10); cbn; lia. Qed.
Lemma adv_nonneg p r : 0 <= fst p -> 0 <= snd p -> 0 <= fst (adv p r) /\ 0 <= snd (adv p r).
Proof. unfold adv. destruct (N.eqb r 10); cbn; lia. Qed.

Lemma adv_all_nonneg x : forall p, 0 <= fst p -> 0 <= snd p ->
  0 <= fst (adv_all p x) /\ 0 <= snd (adv_all p x).
Proof.
  induction x as [|c x IH]; intros p Hf Hs; cbn; [lia|].
  destruct (adv_nonneg p c Hf Hs) as [H1 H2]. apply IH; assumption.
Qed.

Lemma adv_all_le x : forall p, 0 <= snd p -> pos_le p (adv_all p x).
Proof.
  induction x as [|c x IH]; intros p Hs; cbn; [apply pos_le_refl|].
  eapply pos_le_trans; [apply pos_lt_le, adv_lt; exact Hs|].
  apply IH. unfold adv. destruct (N.eqb c 10); cbn; lia.
Qed.

Lemma P_nonneg pre : 0 <= fst (P pre) /\ 0 <= snd (P pre).
Proof. unfold P. apply adv_all_nonneg; cbn; lia. Qed.

Lemma P_mono a b : pfx a b -> pos_le (P a) (P b).
Proof.
  intros [x ->]. unfold P. rewrite adv_all_app. apply adv_all_le.
  apply (P_nonneg a).
Qed.
Lemma P_strict a c x : pos_lt (P a) (P (a ++ c :: x)).
Proof.
  unfold P. rewrite adv_all_app. cbn.
  eapply pos_lt_le_trans; [apply adv_lt, (P_nonneg a)|].
  apply adv_all_le. destruct (P_nonneg a) as [H1 H2].
  unfold adv. destruct (N.eqb c 10); cbn; fold (P a); lia.
Qed.

Lemma valid_pos0 inp : valid_pos inp pos0.
Proof. exists []. split; [apply pfx_nil|reflexivity]. Qed.
Lemma valid_P inp pre : pfx pre inp -> valid_pos inp (P pre).
Proof. intros H. exists pre. auto. Qed.

(* ---- "inside the input": lines and columns -------------------------------- *)
(* strings.Split(input, "\n") on runes *)
Definition rlines (inp : list N) : list (list N) := split_on 10 inp.

Lemma split_on_nonempty sep s : split_on sep s <> [].
Proof.
  induction s as [|c r IH]; cbn; [discriminate|].
  destruct (N.eqb c sep); [discriminate|]. destruct (split_on sep r); discriminate.
Qed.

(* a position inside: 0 <= line < #lines, 0 <= column <= length of that line *)
Definition inside (inp : list N) (p : pos) : Prop :=
  0 <= fst p /\ 0 <= snd p /\
  exists l, nth_error (rlines inp) (Z.to_nat (fst p)) = Some l /\ snd p <= Z.of_nat (length l).

(* generalised: starting at line l0, column c0 = length of the already-read part of the current line *)
Lemma adv_all_inside : forall pre suf (l0 : nat) (cur : list N),
  let p := adv_all (Z.of_nat l0, Z.of_nat (length cur)) pre in
  exists (n : nat) (lastl : list N),
    fst p = Z.of_nat (l0 + n) /\
    snd p = Z.of_nat (length lastl) /\
    exists rest_lines tail,
      split_on 10 (pre ++ suf) = rest_lines /\
      (* the line numbered n of the text (cur prepended to line 0) starts with lastl *)
      nth_error (match rest_lines with [] => [] | l :: ls => (cur ++ l) :: ls end) n = Some (lastl ++ tail).
Proof.
  induction pre as [|c pre IH]; intros suf l0 cur p.
  - exists 0%nat, cur. subst p. cbn. repeat split; try lia.
    destruct (split_on 10 suf) as [|l ls] eqn:E; [exfalso; eapply split_on_nonempty; eauto|].
    exists (l :: ls), l. split; [reflexivity|]. reflexivity.
  - subst p. unfold adv_all. cbn [fold_left app]. fold (adv_all (adv (Z.of_nat l0, Z.of_nat (length cur)) c) pre).
    destruct (N.eqb c 10) eqn:Ec.
    + assert (Ha : adv (Z.of_nat l0, Z.of_nat (length cur)) c = (Z.of_nat (S l0), Z.of_nat (length (@nil N)))).
      { unfold adv. rewrite Ec. cbn [fst snd length]. f_equal. lia. }
      rewrite Ha.
      destruct (IH suf (S l0) []) as (n & lastl & H1 & H2 & rl & tl & H3 & H4).
      exists (S n), lastl. split; [rewrite H1; f_equal; lia|].
      split; [exact H2|]. cbn [split_on]. rewrite Ec.
      exists ([] :: rl), tl. split; [now rewrite H3|].
      cbn [nth_error].
      destruct rl as [|l ls]; [exfalso; eapply split_on_nonempty; eauto|].
      cbn [app] in H4. exact H4.
    + assert (Ha : adv (Z.of_nat l0, Z.of_nat (length cur)) c = (Z.of_nat l0, Z.of_nat (length (cur ++ [c])))).
      { unfold adv. rewrite Ec. cbn [fst snd]. rewrite app_length. cbn [length]. f_equal. lia. }
      rewrite Ha.
      destruct (IH suf l0 (cur ++ [c])) as (n & lastl & H1 & H2 & rl & tl & H3 & H4).
      exists n, lastl. split; [exact H1|]. split; [exact H2|].
      cbn [split_on]. rewrite Ec.
      destruct rl as [|l ls]; [exfalso; eapply split_on_nonempty; eauto|].
      rewrite H3. exists ((c :: l) :: ls), tl. split; [reflexivity|].
      rewrite <- app_assoc in H4. exact H4.
Qed.

Lemma valid_inside inp p : valid_pos inp p -> inside inp p.
Proof.
  intros (pre & [suf ->] & ->).
  destruct (P_nonneg pre) as [Hf Hs]. split; [exact Hf|]. split; [exact Hs|].
  pose proof (adv_all_inside pre suf 0 []) as H. cbn [length] in H. change (Z.of_nat 0) with 0 in H.
  destruct H as (n & lastl & H1 & H2 & rl & tl & H3 & H4).
  fold pos0 in H1, H2. fold (P pre) in H1, H2.
  exists (lastl ++ tl). split.
  - unfold rlines. rewrite H3. rewrite H1. cbn [Nat.add]. rewrite Nat2Z.id.
    destruct rl as [|l ls]; [destruct n; discriminate|]. exact H4.
  - rewrite H2, app_length. lia.
Qed.

(* every rune of every line is the rune after some prefix, at (line, column) *)
Lemma line_rune_prefix : forall suf pre (L : nat) l (j : nat) c,
  nth_error (split_on 10 suf) L = Some l -> nth_error l j = Some c ->
  exists q, pfx pre q /\ pfx (q ++ [c]) (pre ++ suf) /\
            P q = (fst (P pre) + Z.of_nat L, (if Nat.eqb L 0 then snd (P pre) else 0) + Z.of_nat j).
Proof.
  induction suf as [|x r IH]; intros pre L l j c HL Hj.
  - cbn in HL. destruct L as [|L]; [|destruct L; discriminate]. injection HL as <-. destruct j; discriminate.
  - cbn [split_on] in HL. destruct (N.eqb x 10) eqn:Ex.
    + apply N.eqb_eq in Ex. subst x. destruct L as [|L].
      * injection HL as <-. destruct j; discriminate.
      * cbn [nth_error] in HL. destruct (IH (pre ++ [10%N]) L l j c HL Hj) as (q & Hq1 & Hq2 & Hq3).
        exists q. split; [eapply pfx_trans; [apply pfx_app|exact Hq1]|]. split; [rewrite <- app_assoc in Hq2; exact Hq2|].
        rewrite Hq3, P_snoc. unfold adv. cbn [N.eqb Pos.eqb fst snd].
        f_equal; [lia|]. destruct L; cbn; lia.
    + destruct (split_on 10 r) as [|l1 ls] eqn:Es; [exfalso; eapply split_on_nonempty; eauto|].
      destruct L as [|L].
      * injection HL as <-. destruct j as [|j].
        -- injection Hj as <-. exists pre. split; [apply pfx_refl|]. split; [apply pfx_snoc|].
           cbn. rewrite !Z.add_0_r. destruct (P pre); reflexivity.
        -- cbn [nth_error] in Hj.
           destruct (IH (pre ++ [x]) 0%nat l1 j c) as (q & Hq1 & Hq2 & Hq3); [reflexivity|exact Hj|].
           exists q. split; [eapply pfx_trans; [apply pfx_app|exact Hq1]|]. split; [rewrite <- app_assoc in Hq2; exact Hq2|].
           rewrite Hq3, P_snoc. unfold adv. rewrite Ex. cbn [fst snd Nat.eqb]. f_equal; lia.
      * cbn [nth_error] in HL.
        destruct (IH (pre ++ [x]) (S L) l j c) as (q & Hq1 & Hq2 & Hq3); [exact HL|exact Hj|].
        exists q. split; [eapply pfx_trans; [apply pfx_app|exact Hq1]|]. split; [rewrite <- app_assoc in Hq2; exact Hq2|].
        rewrite Hq3, P_snoc. unfold adv. rewrite Ex. cbn [fst snd Nat.eqb]. reflexivity.
Qed.

Lemma line_rune data (L : nat) l (j : nat) c :
  nth_error (rlines data) L = Some l -> nth_error l j = Some c ->
  exists q, pfx (q ++ [c]) data /\ fst (P q) = Z.of_nat L.
Proof.
  intros HL Hj. destruct (line_rune_prefix data [] L l j c HL Hj) as (q & _ & Hq2 & Hq3).
  exists q. split; [exact Hq2|]. rewrite Hq3. reflexivity.
Qed.

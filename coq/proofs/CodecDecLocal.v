(* CodecDecLocal.v — every way a member value is stored (tr_present) is a step at the end of the
   property's proto path that reads and writes only the property's field and its oneof siblings
   (CodecDecSupport.klocal), and keeps messages sorted at every level. *)
From Coq Require Import String List NArith ZArith Bool Lia ZifyN ZifyBool.
From J5V.lib Require Import Outcome Json.
From J5V.model Require Import CodecTypes CodecDecScalar CodecDec CodecDecTree.
From J5V.proofs Require Import CodecDecStored CodecDecMsgSorted CodecDecSupport CodecDecTreeUnfold.
Import ListNotations.
Local Open Scope N_scope.

Lemma klocal_ext {A} sibs (K1 K2 : N -> msg -> outcome (msg * A)) :
  (forall n h, K1 n h = K2 n h) -> klocal sibs K1 -> klocal sibs K2.
Proof.
  intros E H n. specialize (H n). constructor.
  - intros h h' a HK. rewrite <- E in HK. exact (sup_frame _ _ H h h' a HK).
  - intros h1 h2 h1' a Ag HK. rewrite <- E in HK. rewrite <- E. exact (sup_det _ _ H h1 h2 h1' a Ag HK).
  - intros h h' a W HK. rewrite <- E in HK. exact (sup_wf _ _ H h h' a W HK).
Qed.

(* Message.Set on two messages that agree on the field and its siblings *)
Lemma msg_set_agree explicit sibs n v h1 h2 :
  agree (n :: sibs) h1 h2 -> agree (n :: sibs) (msg_set explicit sibs n v h1) (msg_set explicit sibs n v h2).
Proof.
  intros Ag x Hx. destruct (N.eq_dec x n) as [->|Hne]; [rewrite !msg_get_set_same; reflexivity|].
  assert (Hs : In x sibs) by (destruct Hx as [Hx|Hx]; [congruence|exact Hx]).
  unfold msg_set.
  assert (D : msg_get x (msg_del n h1) = msg_get x (msg_del n h2))
    by (rewrite !msg_get_del_other by exact Hne; apply Ag; exact Hx).
  assert (P : msg_get x (msg_put n v (msg_clear_all sibs h1)) = msg_get x (msg_put n v (msg_clear_all sibs h2)))
    by (rewrite !msg_get_put_other by exact Hne; rewrite !msg_get_clear_all_in by exact Hs; reflexivity).
  destruct v as [| | | | | | |l|l]; try (destruct (negb explicit && _); assumption).
  - destruct l; [exact D|]. destruct (negb explicit && _); assumption.
  - destruct l; [exact D|]. destruct (negb explicit && _); assumption.
Qed.

Lemma set_step_supported explicit sibs n (core : option pval -> outcome pval) :
  (forall g v, core g = Ok v -> wf_val v) ->
  supported (n :: sibs) (fun h => obind (core (msg_get n h)) (fun v => Ok (msg_set explicit sibs n v h, tt))).
Proof.
  intros Wc. constructor.
  - intros h h' a H x Hx. destruct (core (msg_get n h)) as [v| | |]; cbn [obind] in H; try discriminate.
    injection H as <- _. apply msg_get_set_other; intros E; apply Hx; [left; congruence|right; exact E].
  - intros h1 h2 h1' a Ag H. rewrite <- (Ag n (or_introl eq_refl)).
    destruct (core (msg_get n h1)) as [v| | |]; cbn [obind] in *; try discriminate.
    injection H as <- <-. eexists. split; [reflexivity|]. apply msg_set_agree. exact Ag.
  - intros h h' a W H. destruct (core (msg_get n h)) as [v| | |] eqn:E; cbn [obind] in H; try discriminate.
    injection H as <- _. apply wf_set; [exact (Wc _ _ E)|exact W].
Qed.

Lemma del_step_supported sibs n : supported (n :: sibs) (fun h => Ok (msg_del n h, tt)).
Proof.
  constructor.
  - intros h h' a H x Hx. injection H as <- _. apply msg_get_del_other. intros E. apply Hx. left. congruence.
  - intros h1 h2 h1' a Ag H. injection H as <- <-. eexists. split; [reflexivity|].
    intros x Hx. destruct (N.eq_dec x n) as [->|Hne]; [rewrite !msg_get_del_same; reflexivity|].
    rewrite !msg_get_del_other by exact Hne. apply Ag. exact Hx.
  - intros h h' a W H. injection H as <- _. apply wf_del. exact W.
Qed.

Lemma msg_mutable_snd_agree sibs n h1 h2 :
  agree (n :: sibs) h1 h2 -> forall x, In x sibs -> x <> n ->
  msg_get x (snd (msg_mutable sibs n h1)) = msg_get x (snd (msg_mutable sibs n h2)).
Proof.
  intros Ag x Hs Hne. unfold msg_mutable. rewrite <- (Ag n (or_introl eq_refl)).
  destruct (msg_get n h1) as [[]|]; cbn [snd];
    try (rewrite !msg_get_put_other by exact Hne; rewrite !msg_get_clear_all_in by exact Hs; reflexivity).
  apply Ag. right. exact Hs.
Qed.

Lemma mut_step_supported sibs n (core : msg -> outcome msg) :
  (forall s s', wf s -> core s = Ok s' -> wf s') ->
  supported (n :: sibs) (fun h => let '(sub, h1) := msg_mutable sibs n h in
                                  obind (core sub) (fun s' => Ok (msg_put n (VMsg s') h1, tt))).
Proof.
  intros Wc.
  assert (E : forall h, (let '(sub, h1) := msg_mutable sibs n h in
                         obind (core sub) (fun s' => Ok (msg_put n (VMsg s') h1, tt)))
                        = obind (core (sub_of n h)) (fun s' => Ok (msg_put n (VMsg s') (snd (msg_mutable sibs n h)), tt))).
  { intros h. rewrite <- (msg_mutable_fst sibs n h). destruct (msg_mutable sibs n h); reflexivity. }
  constructor.
  - intros h h' a H x Hx. rewrite E in H. destruct (core (sub_of n h)) as [s'| | |]; cbn [obind] in H; try discriminate.
    injection H as <- _.
    assert (x <> n) by (intros ->; apply Hx; left; reflexivity).
    rewrite msg_get_put_other by assumption. apply msg_get_mutable_abs; [assumption|].
    left. intros Hs. apply Hx. right. exact Hs.
  - intros h1 h2 h1' a Ag H. rewrite E in H. rewrite E.
    assert (Es : sub_of n h1 = sub_of n h2) by (unfold sub_of; rewrite (Ag n (or_introl eq_refl)); reflexivity).
    rewrite <- Es. destruct (core (sub_of n h1)) as [s'| | |]; cbn [obind] in *; try discriminate.
    injection H as <- <-. eexists. split; [reflexivity|].
    intros x Hx. destruct (N.eq_dec x n) as [->|Hne]; [rewrite !msg_get_put_same; reflexivity|].
    rewrite !msg_get_put_other by exact Hne. apply msg_mutable_snd_agree; [exact Ag| |exact Hne].
    destruct Hx as [Hx|Hx]; [congruence|exact Hx].
  - intros h h' a W H. rewrite E in H. destruct (core (sub_of n h)) as [s'| | |] eqn:Ec; cbn [obind] in H; try discriminate.
    injection H as <- _. apply wf_put; [|exact (proj2 (wf_mutable sibs n h W))].
    rewrite wf_val_msg. exact (Wc _ _ (wf_sub_of n h W) Ec).
Qed.

(* ---------------------------------------------------------------- values the scalar conversions produce *)
Ltac solve_lb := intros x Hx; cbn [msg_get];
  repeat match goal with |- context[(?k =? x)] => replace (k =? x) with false by lia end; reflexivity.

Ltac solve_wkt := unfold wkt_fields; cbn [filter snd is_zero];
  repeat match goal with |- context[negb ?b] => destruct b; cbn [negb] end;
  rewrite wf_val_msg; repeat split; try exact I; solve_lb.

Lemma mk_timestamp_wf sec ns : wf_val (mk_timestamp sec ns).
Proof. unfold mk_timestamp. solve_wkt. Qed.
Lemma mk_date_wf y mo d : wf_val (mk_date y mo d).
Proof. unfold mk_date. solve_wkt. Qed.
Lemma mk_decimal_wf s : wf_val (mk_decimal s).
Proof. unfold mk_decimal. unfold wkt_fields. cbn [filter snd is_zero]. destruct s; cbn [negb]; rewrite wf_val_msg; repeat split; try exact I; solve_lb. Qed.

Lemma scalar_wf orc k v x : scalar_from_go orc k v = Ok (Some x) -> wf_val x.
Proof.
  intros H. destruct k; unfold scalar_from_go in H;
    try unfold int_from_go in H; try (unfold float_from_go in H; destruct v; cbn [obind] in H);
    repeat match type of H with
           | match ?t with _ => _ end = _ => destruct t eqn:?; try discriminate
           | (if ?b then _ else _) = _ => destruct b eqn:?; try discriminate
           end;
    try discriminate; injection H as <-;
    first [exact I | apply mk_timestamp_wf | apply mk_date_wf | apply mk_decimal_wf].
Qed.

Lemma with_holder_wf {A} (K : N -> msg -> outcome (msg * A)) :
  (forall n h h' x, wf h -> K n h = Ok (h', x) -> wf h') ->
  forall path m m' x, wf m -> with_holder path m K = Ok (m', x) -> wf m'.
Proof.
  intros HK. induction path as [|a rest IH]; intros m m' x W H; [discriminate|].
  destruct rest as [|b r]; [exact (HK a m m' x W H)|].
  rewrite with_holder_cons in H. apply lift_ok in H. destruct H as (s' & Hs & ->).
  apply wf_put; [|exact W]. rewrite wf_val_msg. exact (IH _ _ _ (wf_sub_of a m W) Hs).
Qed.

Lemma create_effect_wf p m m' : wf m -> create_effect p m = Ok m' -> wf m'.
Proof.
  intros W H. unfold create_effect in H. destruct (p_path p) as [|a r] eqn:Ep; [injection H as <-; exact W|].
  assert (G : forall K : N -> msg -> outcome (msg * unit), (forall n h h' x, wf h -> K n h = Ok (h', x) -> wf h') ->
              omap fst (with_holder (a :: r) m K) = Ok m' -> wf m').
  { intros K HK HH. unfold omap in HH. destruct (with_holder (a :: r) m K) as [[m1 x]| | |] eqn:E; try discriminate.
    cbn [obind fst] in HH. injection HH as <-. exact (with_holder_wf K HK _ _ _ _ W E). }
  destruct (p_ty p); (eapply G; [|exact H]); intros n h h' x Wh HK; injection HK as <- _;
    first [exact Wh | exact (proj2 (wf_mutable _ _ _ Wh))].
Qed.

Section Local.
  Variable orc : oracles.
  Variable e : env.

  Definition wfl (f : nat) : Prop :=
    (forall d p j m m', wf m -> tr_present orc e f d p j m = Ok m' -> wf m') /\
    (forall d props ms m seen m', wf m -> tr_object orc e f d props ms m seen = Ok m' -> wf m') /\
    (forall d props ms m seen found c m', wf m -> tr_oneof orc e f d props ms m seen found c = Ok m' -> wf m').

  (* how a member value is stored: not at all (the same failure whatever the message), or by a
     local step at the end of the property's path *)
  Inductive shape (f : nat) (d : N) (p : property) (j : jvalue) : Prop :=
  | Sh_const r : is_ok r = false -> (forall m, tr_present orc e (S f) d p j m = r) -> shape f d p j
  | Sh_k (K : N -> msg -> outcome (msg * unit)) : klocal (p_siblings p) K ->
             (forall m, tr_present orc e (S f) d p j m = omap fst (with_holder (p_path p) m K)) -> shape f d p j.

  Lemma any_arm_eq sibs (pb : bool) ms n h :
    (let '(sub, h1) := msg_mutable sibs n h in
     obind (tr_any_body ms None None) (fun vr =>
       match snd vr, fst vr with
       | None, _ => Err "no type found in Any"
       | _, None => Err "no value found in Any"
       | Some tn, Some v =>
         if pb then Err "proto is required for PB Any"
         else
           let sub1 := msg_set false [] 1 (VStr tn) sub in
           let sub2 := msg_set false [] 3 (VBytes (canon_json (tokens_of v))) sub1 in
           Ok (msg_put n (VMsg sub2) h1, tt)
       end))
    = (let '(sub, h1) := msg_mutable sibs n h in
       obind ((fun sub => obind (tr_any_body ms None None) (fun vr =>
                match snd vr, fst vr with
                | None, _ => Err "no type found in Any"
                | _, None => Err "no value found in Any"
                | Some tn, Some v =>
                  if pb then Err "proto is required for PB Any"
                  else Ok (msg_set false [] 3 (VBytes (canon_json (tokens_of v))) (msg_set false [] 1 (VStr tn) sub))
                end)) sub) (fun s' => Ok (msg_put n (VMsg s') h1, tt))).
  Proof.
    destruct (msg_mutable sibs n h) as [sub h1]. cbv beta.
    destruct (tr_any_body ms None None) as [[v ty]| | |]; cbn [obind fst snd]; try reflexivity.
    destruct ty; [|reflexivity]. destruct v; [|reflexivity]. destruct pb; reflexivity.
  Qed.

  Lemma shape_of f d p j : wfl f -> p_path p <> [] -> shape f d p j.
  Proof.
    intros (Wp & Wo & Wn) Hpath.
    destruct (p_ty p) as [k|ref|ref|ref|item|item|pb] eqn:Ety.
    - (* scalar *)
      destruct (is_container j) eqn:Ec.
      + eapply Sh_const with (r := Err _); [reflexivity|]. intros m. rewrite tr_present_S, Ety, Ec. reflexivity.
      + destruct (scalar_from_go orc k (goval_of_json j)) as [v| | |] eqn:Es.
        * eapply Sh_k with (K := fun n h => match v with
                                             | None => Ok (msg_del n h, tt)
                                             | Some x => Ok (msg_set (p_explicit p) (p_siblings p) n x h, tt)
                                             end).
          -- intros n. destruct v as [x|]; [|apply del_step_supported].
             exact (set_step_supported (p_explicit p) (p_siblings p) n (fun _ => Ok x)
                      (fun g v0 H => ltac:(injection H as <-; exact (scalar_wf orc k _ x Es)))).
          -- intros m. rewrite tr_present_S, Ety, Ec, Es. reflexivity.
        * eapply Sh_const with (r := Err _); [reflexivity|]. intros m. rewrite tr_present_S, Ety, Ec, Es. reflexivity.
        * eapply Sh_const with (r := Panic _); [reflexivity|]. intros m. rewrite tr_present_S, Ety, Ec, Es. reflexivity.
        * eapply Sh_const with (r := OutOfFuel); [reflexivity|]. intros m. rewrite tr_present_S, Ety, Ec, Es. reflexivity.
    - (* enum *)
      destruct j; try (eapply Sh_const with (r := Err _); [reflexivity|]; intros m; rewrite tr_present_S, Ety; reflexivity).
      destruct (lookup e ref) as [[| |prefix opts]|] eqn:El;
        try (eapply Sh_const with (r := Err _); [reflexivity|]; intros m; rewrite tr_present_S, Ety, El; reflexivity).
      destruct (option_by_name prefix opts s) as [z|] eqn:Eo.
      + eapply Sh_k with (K := fun n h => Ok (msg_set (p_explicit p) (p_siblings p) n (VEnum z) h, tt)).
        * intros n. exact (set_step_supported (p_explicit p) (p_siblings p) n (fun _ => Ok (VEnum z))
                             (fun g v0 H => ltac:(injection H as <-; exact I))).
        * intros m. rewrite tr_present_S, Ety, El, Eo. reflexivity.
      + eapply Sh_const with (r := Err _); [reflexivity|]. intros m. rewrite tr_present_S, Ety, El, Eo. reflexivity.
    - (* object *)
      destruct j; try (eapply Sh_const with (r := Err _); [reflexivity|]; intros m; rewrite tr_present_S, Ety; reflexivity).
      destruct (lookup e ref) as [[props| |]|] eqn:El;
        try (eapply Sh_const with (r := Err _); [reflexivity|]; intros m; rewrite tr_present_S, Ety, El; reflexivity).
      eapply Sh_k with (K := fun n h => let '(sub, h1) := msg_mutable (p_siblings p) n h in
                               obind (tr_object orc e f d props members sub []) (fun sub' => Ok (msg_put n (VMsg sub') h1, tt))).
      + intros n. apply (mut_step_supported (p_siblings p) n (fun sub => tr_object orc e f d props members sub [])).
        intros s s' Ws Hs. exact (Wo _ _ _ _ _ _ Ws Hs).
      + intros m. rewrite tr_present_S, Ety, El. reflexivity.
    - (* oneof *)
      destruct j; try (eapply Sh_const with (r := Err _); [reflexivity|]; intros m; rewrite tr_present_S, Ety; reflexivity).
      destruct (lookup e ref) as [[|props|]|] eqn:El;
        try (eapply Sh_const with (r := Err _); [reflexivity|]; intros m; rewrite tr_present_S, Ety, El; reflexivity).
      eapply Sh_k with (K := fun n h => let '(sub, h1) := msg_mutable (p_siblings p) n h in
                               obind (tr_oneof orc e f d props members sub [] [] None) (fun sub' => Ok (msg_put n (VMsg sub') h1, tt))).
      + intros n. apply (mut_step_supported (p_siblings p) n (fun sub => tr_oneof orc e f d props members sub [] [] None)).
        intros s s' Ws Hs. exact (Wn _ _ _ _ _ _ _ _ Ws Hs).
      + intros m. rewrite tr_present_S, Ety, El. destruct (p_path p) as [|a r]; [congruence|reflexivity].
    - (* array *)
      destruct j; try (eapply Sh_const with (r := Err _); [reflexivity|]; intros m; rewrite tr_present_S, Ety; reflexivity).
      assert (G : shape f d p (JArr items) \/
                  (forall m, tr_present orc e (S f) d p (JArr items) m = Err "unsupported array item schema")).
      { destruct item; try (right; intros m; rewrite tr_present_S, Ety; reflexivity); left;
        match type of Ety with _ = FArray ?it =>
        (eapply Sh_k with (K := fun n h => let existing := match msg_get n h with Some (VList l) => l | _ => [] end in
                                   obind (tr_array orc e f d it items existing) (fun l =>
                                     Ok (msg_set true (p_siblings p) n (VList l) h, tt)));
         [apply (klocal_ext (p_siblings p)
                   (fun n h => obind ((fun g => obind (tr_array orc e f d it items (match g with Some (VList l) => l | _ => [] end))
                                                      (fun l => Ok (VList l))) (msg_get n h))
                                     (fun v => Ok (msg_set true (p_siblings p) n v h, tt))));
          [intros n0 h; cbv beta zeta; destruct (tr_array orc e f d it items _); reflexivity
          |intros n0; refine (set_step_supported true (p_siblings p) n0
                      (fun g => obind (tr_array orc e f d it items (match g with Some (VList l) => l | _ => [] end)) (fun l => Ok (VList l))) _);
           intros g v Hv; cbv beta in Hv;
           destruct (tr_array orc e f d it items _); cbn [obind] in Hv; try discriminate; injection Hv as <-; exact I]
         |intros m; rewrite tr_present_S, Ety; reflexivity]) end. }
      destruct G as [G|G]; [exact G|]. eapply Sh_const with (r := Err _); [reflexivity|exact G].
    - (* map *)
      destruct j; try (eapply Sh_const with (r := Err _); [reflexivity|]; intros m; rewrite tr_present_S, Ety; reflexivity).
      assert (G : shape f d p (JObj members) \/
                  (forall m, tr_present orc e (S f) d p (JObj members) m = Err "unsupported map item schema")).
      { destruct item; try (right; intros m; rewrite tr_present_S, Ety; reflexivity); left;
        match type of Ety with _ = FMap ?it =>
        (eapply Sh_k with (K := fun n h => let existing := match msg_get n h with Some (VMap l) => l | _ => [] end in
                                   obind (tr_map orc e f d it members existing) (fun l =>
                                     Ok (msg_set true (p_siblings p) n (VMap l) h, tt)));
         [apply (klocal_ext (p_siblings p)
                   (fun n h => obind ((fun g => obind (tr_map orc e f d it members (match g with Some (VMap l) => l | _ => [] end))
                                                      (fun l => Ok (VMap l))) (msg_get n h))
                                     (fun v => Ok (msg_set true (p_siblings p) n v h, tt))));
          [intros n0 h; cbv beta zeta; destruct (tr_map orc e f d it members _); reflexivity
          |intros n0; refine (set_step_supported true (p_siblings p) n0
                      (fun g => obind (tr_map orc e f d it members (match g with Some (VMap l) => l | _ => [] end)) (fun l => Ok (VMap l))) _);
           intros g v Hv; cbv beta in Hv;
           destruct (tr_map orc e f d it members _); cbn [obind] in Hv; try discriminate; injection Hv as <-; exact I]
         |intros m; rewrite tr_present_S, Ety; reflexivity]) end. }
      destruct G as [G|G]; [exact G|]. eapply Sh_const with (r := Err _); [reflexivity|exact G].
    - (* any *)
      destruct j; try (eapply Sh_const with (r := Err _); [reflexivity|]; intros m; rewrite tr_present_S, Ety; reflexivity).
      eapply Sh_k with (K := fun n h =>
            let '(sub, h1) := msg_mutable (p_siblings p) n h in
            obind (tr_any_body members None None) (fun vr =>
              match snd vr, fst vr with
              | None, _ => Err "no type found in Any"
              | _, None => Err "no value found in Any"
              | Some tn, Some v =>
                if pb then Err "proto is required for PB Any"
                else
                  let sub1 := msg_set false [] 1 (VStr tn) sub in
                  let sub2 := msg_set false [] 3 (VBytes (canon_json (tokens_of v))) sub1 in
                  Ok (msg_put n (VMsg sub2) h1, tt)
              end)).
      + eapply klocal_ext; [intros n h; symmetry; apply any_arm_eq|].
        intros n. apply mut_step_supported. intros s s' Ws Hs. cbv beta in Hs.
        destruct (tr_any_body members None None) as [[v ty]| | |]; cbn [obind fst snd] in Hs; try discriminate.
        destruct ty; [|discriminate]. destruct v; [|discriminate]. destruct pb; [discriminate|].
        match type of Hs with Ok ?t = Ok _ => assert (E : s' = t) by congruence end.
        rewrite E. apply wf_set; [exact I|]. apply wf_set; [exact I|exact Ws].
      + intros m. rewrite tr_present_S, Ety. reflexivity.
  Qed.
End Local.

(* ---------------------------------------------------------------- decoding keeps messages sorted at every level *)
Section WfLevel.
  Variable orc : oracles.
  Variable e : env.

  Lemma tr_member_wf d dp p v m seen m1 seen1 :
    (forall m m', wf m -> dp v m = Ok m' -> wf m') ->
    wf m -> tr_member d dp p v m seen = Ok (m1, seen1) -> wf m1.
  Proof.
    intros Hdp W H. unfold tr_member in H. destruct (max_nesting_depth <? d + 1); [discriminate|].
    destruct v; try (injection H as <- _; exact W);
      (destruct (mem_bytes (p_json p) seen); [discriminate|]);
      (destruct (oneof_conflict p m); [discriminate|]);
      match type of H with obind (dp ?v m) _ = _ => destruct (dp v m) as [m2| | |] eqn:E end; try discriminate;
      cbn [obind] in H; injection H as <- _; exact (Hdp _ _ W E).
  Qed.

  Lemma oneof_post_wf props m found c m' : wf m -> oneof_post props m found c = Ok m' -> wf m'.
  Proof.
    intros W H. unfold oneof_post in H.
    destruct (N.of_nat (length found) =? 0).
    - destruct c as [c|]; [|injection H as <-; exact W].
      destruct (find_prop props c) as [p|]; [|discriminate]. exact (create_effect_wf p m m' W H).
    - destruct (1 <? N.of_nat (length found)); [discriminate|].
      destruct c as [c|]; [|injection H as <-; exact W].
      destruct (index0 found) as [k0| | |]; cbn [obind] in H; try discriminate.
      destruct (bytes_eqb k0 c); [injection H as <-; exact W|discriminate].
  Qed.

  Lemma wfl_step f : wfl orc e f -> wfl orc e (S f).
  Proof.
    intros IH. pose proof IH as (Wp & Wo & Wn). split; [|split].
    - intros d p j m m' W H. destruct (p_path p) as [|a r] eqn:Ep.
      + (* no proto path: only an exposed oneof stores anything *)
        rewrite tr_present_S in H. rewrite Ep in H.
        destruct (p_ty p);
          repeat match type of H with
                 | match ?t with _ => _ end = _ => destruct t eqn:?; try discriminate
                 | (if ?b then _ else _) = _ => destruct b eqn:?; try discriminate
                 | obind ?t _ = _ => destruct t eqn:?; cbn [obind] in H; try discriminate
                 end; try discriminate.
        exact (Wn _ _ _ _ _ _ _ _ W H).
      + destruct (shape_of orc e f d p j IH ltac:(congruence)) as [r0 Hr Hc | K HK Hc].
        * rewrite Hc in H. subst r0. discriminate.
        * rewrite Hc in H. unfold omap in H.
          destruct (with_holder (p_path p) m K) as [[m1 x]| | |] eqn:E; cbn [obind fst] in H; try discriminate.
          injection H as <-. apply (with_holder_wf K (fun n h h' x0 Wh HH => sup_wf _ _ (HK n) h h' x0 Wh HH) _ _ _ _ W E).
    - intros d props ms m seen m' W H. rewrite tr_object_S in H. destruct ms as [|[key v] r]; [injection H as <-; exact W|].
      destruct (find_prop props key) as [p|]; [|discriminate].
      destruct (tr_member d (tr_present orc e f (d + 1) p) p v m seen) as [[m1 seen1]| | |] eqn:Em; cbn [obind fst snd] in H; try discriminate.
      apply (Wo _ _ _ _ _ _ (tr_member_wf _ _ _ _ _ _ _ _ (fun m0 m0' => Wp _ _ _ m0 m0') W Em) H).
    - intros d props ms m seen found c m' W H. rewrite tr_oneof_S in H. destruct ms as [|[key v] r].
      + exact (oneof_post_wf _ _ _ _ _ W H).
      + destruct (bytes_eqb key type_key).
        * destruct v; try discriminate. exact (Wn _ _ _ _ _ _ _ _ W H).
        * destruct (find_prop props key) as [p|]; [|discriminate].
          destruct (tr_member d (tr_present orc e f (d + 1) p) p v m seen) as [[m1 seen1]| | |] eqn:Em; cbn [obind fst snd] in H; try discriminate.
          apply (Wn _ _ _ _ _ _ _ _ (tr_member_wf _ _ _ _ _ _ _ _ (fun m0 m0' => Wp _ _ _ m0 m0') W Em) H).
  Qed.

  Lemma wfl_all f : wfl orc e f.
  Proof.
    induction f as [|f IH]; [|apply wfl_step; exact IH].
    split; [|split]; intros; discriminate.
  Qed.

  (* unconditional versions *)
  Lemma shape_total f d p j : p_path p <> [] -> shape orc e f d p j.
  Proof. apply shape_of. apply wfl_all. Qed.
End WfLevel.

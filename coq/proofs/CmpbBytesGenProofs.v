(* CmpbBytesGenProofs.v — the genproto loop writes the same files with the same tokens whatever the package listing, and
   the order of the files CompilePackage returns is the sorted order of their names. *)
From Coq Require Import String List Arith NArith ZArith Bool Lia Permutation Sorted.
From J5V.lib Require Import Outcome Strcase.
From J5V.model Require Import Desc J5sAst J5sWalk J5sConvert CmpbOrder CmpbInstance CmpbBytes CmpbBytesGen.
From J5V.proofs Require Import CmpbOrderProofs CmpbComposeProofs CmpbLinkTotalProofs CmpbBytesProofs CmpbBytesExampleProofs.
Import ListNotations.

(* the order of the returned files: strictly ascending in Go's string order (sort.Strings of the produced names) *)
Theorem output_file_order bd exts ann pkgs r n o :
  valid (flat_bundle pkgs (src_files bd)) -> run_ok pkgs bd r -> compile_and_print bd exts ann r n = Some o ->
  strict_sorted (map (fun x => fst (fst x)) o).
Proof.
  intros Hv Hr E. unfold compile_and_print in E. destruct (compile_run bd exts r n) as [out|] eqn:C; [|discriminate].
  inversion E; subst o. clear E. unfold render. rewrite map_map. cbn [fst].
  destruct (compile_run_spec bd exts pkgs r n out Hv Hr C) as (N1 & _).
  change (map (fun x : bytes * linked => fst x) out) with (map fst out). rewrite N1.
  unfold spec_pkg. destruct (find_pkg n (flat_bundle pkgs (src_files bd))); cbn [p_files].
  - apply set_all_sorted. apply keys_sorted_nil.
  - apply (@keys_sorted_nil cdesc).
Qed.

(* ------------------------------------------------------------------ the genproto loop *)
Lemma with_earlier_ok pkgs bd r e : run_ok pkgs bd r -> run_ok pkgs bd (with_earlier r e).
Proof. intro H. exact H. Qed.

(* what `j5 j5s genproto` writes is a function of the package: the loop over ANY listing returns that function mapped over
   the listing - the set of (file name, text) pairs written is the same for every listing order and every run *)
Theorem genproto_deterministic bd exts ann pkgs rank frank :
  valid (flat_bundle pkgs (src_files bd)) -> well_founded_deps (flat_bundle pkgs (src_files bd)) rank ->
  owner_ok (cmpa_convert bd) split_owner (is_local_of pkgs) (flat_bundle pkgs (src_files bd)) ->
  imports_wf (cmpa_convert bd) split_owner (is_local_of pkgs) (c_ext_file exts) c_deps_of (flat_bundle pkgs (src_files bd)) frank ->
  ann_ok ann ->
  exists table : bytes -> list (bytes * list PP.token), forall r, run_ok pkgs bd r ->
    (forall n, In n pkgs -> (rank n < r_fuel r)%nat) ->
    (forall n f, In n pkgs -> In f (map fst (p_files (spec_pkg (cmpa_convert bd) (flat_bundle pkgs (src_files bd)) n))) -> (frank f < r_lfuel r)%nat) ->
    genproto bd exts ann r = Some (map (fun n => (n, table n)) (r_pkgs r)).
Proof.
  intros Hv Hw Ho Hi Ha.
  set (b0 := flat_bundle pkgs (src_files bd)) in *.
  assert (Hfind : forall n, In n pkgs -> find_pkg n b0 <> None).
  { intros n Hn. unfold b0. rewrite find_pkg_flat. assert (E : existsb (beqb n) pkgs = true) by (apply existsb_beqb; exact Hn).
    rewrite E. discriminate. }
  (* the one output of each package, chosen through the reference run *)
  set (lf0 := fun n => S (list_max (map frank (map fst (p_files (spec_pkg (cmpa_convert bd) b0 n)))))).
  set (table := fun n => match compile_and_print bd exts ann (ref_run bd pkgs (S (rank n)) (lf0 n)) n with Some o => written o | None => [] end).
  exists table. intros r Hr Hfu Hlf. unfold genproto.
  assert (Hin : forall n, In n (r_pkgs r) -> In n pkgs) by (intros n Hn; apply (Permutation_in _ (proj1 Hr)); exact Hn).
  revert Hin. generalize (@nil bytes) as done. generalize (r_pkgs r) as todo.
  induction todo as [|n rest IH]; intros done Hin; cbn [genproto_from map]; [reflexivity|].
  assert (Hn : In n pkgs) by (apply Hin; left; reflexivity).
  destruct (output_total_deterministic bd exts ann pkgs rank frank n Hv Hw Ho Hi (Hfind n Hn) Ha) as [o H].
  rewrite (H (with_earlier r done) (with_earlier_ok pkgs bd r done Hr) (Hfu n Hn) (fun f Hf => Hlf n f Hn Hf)).
  rewrite (IH (done ++ [n]) (fun m Hm => Hin m (or_intror Hm))).
  f_equal. f_equal. f_equal. unfold table.
  rewrite (H (ref_run bd pkgs (S (rank n)) (lf0 n)) (ref_run_ok bd pkgs _ _)); [reflexivity|cbn [ref_run r_fuel]; lia|].
  intros f Hf. cbn [ref_run r_lfuel]. unfold lf0.
  pose proof (proj1 (list_max_le (map frank (map fst (p_files (spec_pkg (cmpa_convert bd) b0 n)))) _) (le_n _)) as Hall.
  rewrite Forall_forall in Hall. specialize (Hall (frank f) (in_map frank _ _ Hf)). lia.
Qed.

(* the loop on the example: listing [foo.v1; baz.v1] and listing [baz.v1; foo.v1] (with everything else reversed too) write
   the same files with the same tokens for each package *)
Lemma exb_genproto : exists wfoo wbaz,
  genproto exb_bd exb_exts exb_ann exb_r1 = Some [(b "foo.v1", wfoo); (b "baz.v1", wbaz)]
  /\ genproto exb_bd exb_exts exb_ann exb_r2 = Some [(b "baz.v1", wbaz); (b "foo.v1", wfoo)]
  /\ map fst wfoo = [b "foo/v1/a.j5s.proto"; b "foo/v1/b.j5s.proto"; b "foo/v1/service/b.p.j5s.proto"]
  /\ map fst wbaz = [b "baz/v1/types.j5s.proto"].
Proof. eexists. eexists. split; [vm_compute; reflexivity|split; [vm_compute; reflexivity|split; vm_compute; reflexivity]]. Qed.

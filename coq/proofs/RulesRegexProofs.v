(* RulesRegexProofs.v — C12 with a concrete regular-expression engine: the RE2
   fragment of model/Regex.v. The declared meaning of a pattern is the DECLARATIVE
   matching relation ([pattern_sem]: the pattern parses to r and r finds a match,
   [Regex.search]); the validator's side is the derivative matcher. *)
From Coq Require Import String List NArith ZArith Bool Lia.
From J5V.lib Require Import Outcome.
From J5V.model Require Import RulesDecl RulesWrite RulesSpec Validate RulesSpecDec Regex.
From J5V.gen Require Id62Gen.
From J5V.proofs Require Import RulesProofs RegexProofs.
Import ListNotations.

(* what a pattern means: it is an expression of the fragment and finds a match in the text *)
Definition pattern_sem (p s : str) : Prop := exists r, re_parse p = Parsed r /\ search r s.

Lemma frag_dec p s : re_frag_match p s = true <-> pattern_sem p s.
Proof.
  unfold re_frag_match, pattern_sem. destruct (re_parse p) as [r| |] eqn:E.
  - rewrite searchb_spec. split.
    + intro H. exists r. auto.
    + intros [r' [Hr H]]. inversion Hr; subst. exact H.
  - split; [discriminate|]. intros [r [Hr _]]. discriminate.
  - split; [discriminate|]. intros [r [Hr _]]. discriminate.
Qed.

Definition id62_cs : cset := CS false [(48, 57); (65, 90); (97, 122)]%N.
Definition id62_re : re :=
  RCat (RCat (RCat REps RBol) (RCat (rep_n 22 (RSet id62_cs)) REps)) REol.

Lemma parse_id62 : re_parse Id62Gen.pattern_string = Parsed id62_re.
Proof. vm_compute. reflexivity. Qed.

Lemma id62_cs_alnum c : cs_mem id62_cs c = true <-> alnum c.
Proof.
  unfold cs_mem, id62_cs, in_ranges, alnum. cbn [cs_neg cs_ranges existsb fst snd].
  destruct ((48 <=? c) && (c <=? 57) || ((65 <=? c) && (c <=? 90) || ((97 <=? c) && (c <=? 122) || false)))%N eqn:E;
    cbn [xorb].
  - split; [intros _|reflexivity].
    rewrite !orb_true_iff, !andb_true_iff, !N.leb_le in E. intuition discriminate.
  - split; [discriminate|]. intro H. exfalso.
    rewrite !orb_false_iff, !andb_false_iff, !N.leb_gt in E. lia.
Qed.

Lemma id62_re_sem s : search id62_re s <-> id62_text s.
Proof.
  unfold id62_re. rewrite anchored_search, mt_cat. unfold id62_text. split.
  - intros [s1 [s2 [Hs [H1 H2]]]]. apply mt_eps in H2. subst. rewrite app_nil_r.
    apply rep_n_set in H1 as [Hl Hf]. split; [exact Hl|].
    eapply Forall_impl; [|exact Hf]. intros c Hc. apply id62_cs_alnum. exact Hc.
  - intros [Hl Hf]. exists s, []. split; [rewrite app_nil_r; reflexivity|]. split; [|constructor].
    apply rep_n_set. split; [exact Hl|].
    eapply Forall_impl; [|exact Hf]. intros c Hc. apply id62_cs_alnum. exact Hc.
Qed.

(* the fragment engine satisfies the laws: the matcher decides the declarative
   meaning of every pattern, and the published id62 pattern means 22 alphanumerics *)
Theorem frag_engine : engine_ok re_frag_ok re_frag_match pattern_sem.
Proof.
  split; [exact frag_dec|]. split.
  - unfold re_frag_ok. rewrite parse_id62. reflexivity.
  - intro s. unfold pattern_sem. rewrite parse_id62. split.
    + intros [r [Hr H]]. inversion Hr; subst. apply id62_re_sem. exact H.
    + intro H. exists id62_re. split; [reflexivity|]. apply id62_re_sem. exact H.
Qed.

(* every pattern the declaration carries lies in the modelled fragment of RE2
   (well-formed or definitely ill-formed; not "valid RE2 the parser does not know") *)
Definition patterns_in_fragment (d : prop) : bool :=
  match elem_ty (p_ty d) with
  | TStr _ (Some r) _ => match sr_pat r with Some p => re_in_fragment p | None => true end
  | TKey (Some (KCustom p)) _ _ => re_in_fragment p
  | _ => true
  end.

(* C12 with the concrete engine *)
Theorem c12_concrete env idx d o fv :
  wf_env env = true -> key_placement_ok d = true ->
  patterns_in_fragment d = true -> evaluable re_frag_ok d = true ->
  write_prop env idx d = Ok o -> fvalue_typed d fv = true ->
  (validate_sem re_frag_ok re_frag_match (defined_numbers env) o fv = VAccept <-> rule_sem pattern_sem env d fv) /\
  (validate_sem re_frag_ok re_frag_match (defined_numbers env) o fv = VReject <-> ~ rule_sem pattern_sem env d fv).
Proof.
  intros Hwf Hkp _ Hev Hw Hty.
  exact (c12_partial re_frag_ok re_frag_match pattern_sem frag_engine env idx d o fv Hwf Hkp Hev Hw Hty).
Qed.

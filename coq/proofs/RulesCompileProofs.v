(* RulesCompileProofs.v — the compiler with its front checks (model/RulesCompile.v):
   what compiles is exactly what the validator can evaluate, so the C12 statement
   holds for EVERY compiled declaration of the extended language; the C04 boundary
   stays an exact iff; the link step's name check. *)
From Coq Require Import String List NArith ZArith Bool Lia.
From J5V.lib Require Import Outcome Strcase.
From J5V.model Require Import RulesDecl RulesWrite RulesSpec Validate RulesSpecDec RulesRead RulesCompile Regex.
From J5V.proofs Require Import RulesProofs RulesReadProofs RegexProofs RulesRegexProofs.
Import ListNotations.

(* ---- front checks = evaluable ------------------------------------------------------ *)
Lemma message_typed_is_msg t : message_typed t = is_msg_ty t.
Proof. destruct t; reflexivity. Qed.

Lemma item_of_elem t : item_of t = elem_ty t.
Proof. destruct t; reflexivity. Qed.

Lemma unique_refused_spec d : unique_refused (p_ty d) = unique_on_messages d.
Proof.
  unfold unique_refused, unique_on_messages. destruct (p_ty d) as [t|r sf t|r t]; try reflexivity.
  destruct r as [r|]; [|reflexivity]. rewrite message_typed_is_msg.
  destruct (ar_uniq r) as [[|]|]; reflexivity.
Qed.

Lemma pattern_of_ok re_ok t :
  fty_patterns_ok re_ok t = match pattern_of t with Some p => re_ok p | None => true end.
Proof.
  destruct t as [k r l|f r l|r|r l|r l|f e l|a b l|r l|r l|r l|a b l|a b r|a b l]; try reflexivity.
  - destruct r as [r|]; reflexivity.
  - destruct f as [[|p| |]|]; reflexivity.
Qed.

Lemma front_checks_spec re_ok x :
  front_checks re_ok x = Ok tt <-> (x_mult x = None /\ evaluable re_ok (x_prop x) = true).
Proof.
  unfold front_checks, evaluable. rewrite <- unique_refused_spec, pattern_of_ok.
  change (elem_ty (p_ty (x_prop x))) with (item_of (p_ty (x_prop x))).
  destruct (x_mult x) as [m|].
  - split; [discriminate|]. intros [H _]. discriminate.
  - destruct (pattern_of (item_of (p_ty (x_prop x)))) as [p|].
    + destruct (re_ok p); destruct (unique_refused (p_ty (x_prop x))); cbn;
        split; try discriminate; try (intros [_ H]; discriminate); auto.
    + destruct (unique_refused (p_ty (x_prop x))); cbn;
        split; try discriminate; try (intros [_ H]; discriminate); auto.
Qed.

Lemma front_checks_unit re_ok x u : front_checks re_ok x = Ok u -> front_checks re_ok x = Ok tt.
Proof. destruct u. auto. Qed.

(* a compiled declaration: no multipleOf, evaluable, and the writer's output up to the map annotation *)
Lemma compile_prop_ok re_ok env idx x o :
  compile_prop re_ok env idx x = Ok o ->
  x_mult x = None /\ evaluable re_ok (x_prop x) = true /\
  exists o', write_prop env idx (x_prop x) = Ok o' /\ o = with_map_ext x o'.
Proof.
  unfold compile_prop. intro H. apply obind_ok in H. destruct H as (u & Hf & H).
  apply front_checks_unit, front_checks_spec in Hf. destruct Hf as [Hm He].
  destruct (enum_filters_ok env (item_of (p_ty (x_prop x)))); [|discriminate H].
  apply obind_ok in H. destruct H as (o' & Hw & H). inversion H; subst.
  split; [exact Hm|]. split; [exact He|]. exists o'. split; [exact Hw|reflexivity].
Qed.

Lemma compile_prop_filters re_ok env idx x o :
  compile_prop re_ok env idx x = Ok o -> enum_filters_ok env (item_of (p_ty (x_prop x))) = true.
Proof.
  unfold compile_prop. intro H. apply obind_ok in H. destruct H as (u & Hf & H).
  destruct (enum_filters_ok env (item_of (p_ty (x_prop x)))); [reflexivity|discriminate H].
Qed.

Lemma compile_prop_intro re_ok env idx x o' :
  x_mult x = None -> evaluable re_ok (x_prop x) = true ->
  enum_filters_ok env (item_of (p_ty (x_prop x))) = true ->
  write_prop env idx (x_prop x) = Ok o' ->
  compile_prop re_ok env idx x = Ok (with_map_ext x o').
Proof.
  intros Hm He Hf Hw. unfold compile_prop.
  rewrite (proj2 (front_checks_spec re_ok x) (conj Hm He)). cbn [obind]. rewrite Hf, Hw. reflexivity.
Qed.

(* on the declarations of RulesDecl alone the compiler is the writer behind the checks *)
Lemma compile_plain re_ok env idx d :
  evaluable re_ok d = true -> enum_filters_ok env (item_of (p_ty d)) = true ->
  compile_prop re_ok env idx (plain d) = write_prop env idx d.
Proof.
  intros He Hf. unfold compile_prop. rewrite (proj2 (front_checks_spec re_ok (plain d)) (conj eq_refl He)).
  cbn [obind plain x_prop]. rewrite Hf. destruct (write_prop env idx d) as [o| | |]; reflexivity.
Qed.

Lemma compile_plain_refused re_ok env idx d :
  evaluable re_ok d = false -> forall o, compile_prop re_ok env idx (plain d) <> Ok o.
Proof.
  intros He o Hc. apply compile_prop_ok in Hc. destruct Hc as (_ & He' & _). cbn [plain x_prop] in He'. congruence.
Qed.

(* the three refusals, as the compile errors they are *)
Lemma compile_multiple_of_refused re_ok env idx x :
  x_mult x <> None -> exists e, compile_prop re_ok env idx x = Err e.
Proof.
  intro H. unfold compile_prop, front_checks. destruct (x_mult x); [|congruence].
  eexists. reflexivity.
Qed.

Lemma compile_not_ok re_ok env idx x :
  (x_mult x <> None \/ evaluable re_ok (x_prop x) = false) ->
  forall o, compile_prop re_ok env idx x <> Ok o.
Proof.
  intros H o Hc. apply compile_prop_ok in Hc. destruct Hc as (Hm & He & _).
  destruct H as [H|H]; congruence.
Qed.

Lemma compile_unique_on_messages_refused re_ok env idx x :
  unique_on_messages (x_prop x) = true -> forall o, compile_prop re_ok env idx x <> Ok o.
Proof.
  intro H. apply compile_not_ok. right. unfold evaluable. rewrite H. apply andb_false_r.
Qed.

Lemma compile_bad_pattern_refused re_ok env idx x p :
  pattern_of (item_of (p_ty (x_prop x))) = Some p -> re_ok p = false ->
  forall o, compile_prop re_ok env idx x <> Ok o.
Proof.
  intros Hp Hr. apply compile_not_ok. right. unfold evaluable.
  rewrite pattern_of_ok. change (elem_ty (p_ty (x_prop x))) with (item_of (p_ty (x_prop x))).
  rewrite Hp, Hr. reflexivity.
Qed.

(* ---- C12 on the compiler ----------------------------------------------------------- *)
(* the map annotation is invisible to the validator *)
Lemma validate_with_map_ext re_ok re_match defined x o fv :
  validate_sem re_ok re_match defined (with_map_ext x o) fv = validate_sem re_ok re_match defined o fv.
Proof.
  unfold with_map_ext. destruct (x_map_ext x) as [sf|]; [|reflexivity].
  destruct (fo_kind o) eqn:Ek; try reflexivity.
  destruct o; cbn in Ek; subst; reflexivity.
Qed.

(* the declared meaning on the extended language: the rules of RulesSpec, and
   every integer of the value is a multiple of the declared multipleOf *)
Definition multiple_of (m z : Z) : Prop := exists q : Z, z = (q * m)%Z.
Definition value_multiple (m : Z) (v : value) : Prop :=
  match v with VInt z => multiple_of m z | _ => True end.
Definition mult_sem (m : option Z) (fv : fvalue) : Prop :=
  match m with
  | None => True
  | Some m =>
      match fv with
      | FAbsent => True
      | FOne v => value_multiple m v
      | FMany vs => Forall (value_multiple m) vs
      | FMap kvs => Forall (fun kv => value_multiple m (snd kv)) kvs
      end
  end.
Definition xrule_sem (pat_sem : str -> str -> Prop) (env : enum_env) (x : xprop) (fv : fvalue) : Prop :=
  rule_sem pat_sem env (x_prop x) fv /\ mult_sem (x_mult x) fv.

Definition c12_compiled_statement : Prop :=
  forall re_ok re_match pat_sem, engine_ok re_ok re_match pat_sem ->
  forall env idx x o fv,
    wf_env env = true -> key_placement_ok (x_prop x) = true ->
    compile_prop re_ok env idx x = Ok o -> fvalue_typed (x_prop x) fv = true ->
    (validate_sem re_ok re_match (defined_numbers env) o fv = VAccept <-> xrule_sem pat_sem env x fv) /\
    (validate_sem re_ok re_match (defined_numbers env) o fv = VReject <-> ~ xrule_sem pat_sem env x fv).

Theorem c12_compiled : c12_compiled_statement.
Proof.
  intros re_ok re_match pat_sem He env idx x o fv Hwf Hkp Hc Hty.
  apply compile_prop_ok in Hc. destruct Hc as (Hm & Hev & o' & Hw & ->).
  rewrite validate_with_map_ext.
  destruct (c12_partial re_ok re_match pat_sem He env idx (x_prop x) o' fv Hwf Hkp Hev Hw Hty) as [Ha Hr].
  unfold xrule_sem. rewrite Hm. cbn [mult_sem]. split.
  - rewrite Ha. tauto.
  - rewrite Hr. tauto.
Qed.

(* ... and it never ends in an error: every compiled declaration gets a verdict *)
Theorem c12_compiled_no_error :
  forall re_ok re_match pat_sem, engine_ok re_ok re_match pat_sem ->
  forall env idx x o fv,
    wf_env env = true -> key_placement_ok (x_prop x) = true ->
    compile_prop re_ok env idx x = Ok o -> fvalue_typed (x_prop x) fv = true ->
    validate_sem re_ok re_match (defined_numbers env) o fv = VAccept \/
    validate_sem re_ok re_match (defined_numbers env) o fv = VReject.
Proof.
  intros re_ok re_match pat_sem He env idx x o fv Hwf Hkp Hc Hty.
  apply compile_prop_ok in Hc. destruct Hc as (Hm & Hev & o' & Hw & ->).
  rewrite validate_with_map_ext.
  rewrite (c12_verdict re_ok re_match (proj1 (proj2 He)) (engine_id62_bool re_ok re_match pat_sem He)
             env idx (x_prop x) o' fv Hwf Hkp Hw Hty).
  unfold evaluable in Hev. apply andb_true_iff in Hev. destruct Hev as [Hp Hu].
  rewrite Hp. apply negb_true_iff in Hu. rewrite Hu. cbn [negb].
  destruct (rule_semb re_match env (x_prop x) fv); [left|right]; reflexivity.
Qed.

(* ---- whole messages ------------------------------------------------------------------- *)
Definition xrule_obj (pat_sem : str -> str -> Prop) (env : enum_env) (xs : list xprop) (fvs : list fvalue) : Prop :=
  rule_obj pat_sem env (map x_prop xs) fvs /\ Forall2 (fun x fv => mult_sem (x_mult x) fv) xs fvs.

Lemma compile_props_from_ok re_ok env xs : forall idx os,
  compile_props_from re_ok env idx xs = Ok os ->
  forallb (evaluable re_ok) (map x_prop xs) = true /\
  Forall (fun x => x_mult x = None) xs /\
  exists os', write_props_from env idx (map x_prop xs) = Ok os' /\
              forall defined re_match fvs,
                validate_obj re_ok re_match defined os fvs = validate_obj re_ok re_match defined os' fvs.
Proof.
  induction xs as [|x r IH]; intros idx os Hc.
  - inversion Hc; subst. split; [reflexivity|]. split; [constructor|]. exists []. split; reflexivity.
  - cbn [compile_props_from] in Hc. apply obind_ok in Hc. destruct Hc as (o & Ho & Hc).
    apply obind_ok in Hc. destruct Hc as (os1 & Hos & Hc). inversion Hc; subst.
    apply compile_prop_ok in Ho. destruct Ho as (Hm & He & o' & Hw & ->).
    destruct (IH (idx + 1)%N os1 Hos) as (Hev & Hmr & os' & Hws & Hv).
    split; [cbn [map forallb]; rewrite He, Hev; reflexivity|].
    split; [constructor; assumption|].
    exists (o' :: os'). split.
    + cbn [map write_props_from]. rewrite Hw. cbn [obind]. rewrite Hws. reflexivity.
    + intros defined re_match fvs. destruct fvs as [|fv fvs]; [reflexivity|].
      cbn [validate_obj]. rewrite validate_with_map_ext, Hv. reflexivity.
Qed.

Theorem c12_compiled_object :
  forall re_ok re_match pat_sem, engine_ok re_ok re_match pat_sem ->
  forall env xs os fvs,
    wf_env env = true ->
    forallb key_placement_ok (map x_prop xs) = true ->
    compile_object re_ok env xs = Ok os ->
    typed_obj (map x_prop xs) fvs = true ->
    (validate_obj re_ok re_match (defined_numbers env) os fvs = VAccept <-> xrule_obj pat_sem env xs fvs) /\
    (validate_obj re_ok re_match (defined_numbers env) os fvs = VReject <-> ~ xrule_obj pat_sem env xs fvs).
Proof.
  intros re_ok re_match pat_sem He env xs os fvs Hwf Hkp Hc Hty.
  unfold compile_object in Hc. destruct (props_distinct xs); [|discriminate].
  destruct (compile_props_from_ok re_ok env xs 0%N os Hc) as (Hev & Hm & os' & Hw & Hv).
  rewrite Hv.
  destruct (c12_object re_ok re_match pat_sem (proj1 He) (proj1 (proj2 He)) (engine_id62_bool re_ok re_match pat_sem He)
              env (map x_prop xs) 0%N os' fvs Hwf Hkp Hev Hw Hty) as [Ha Hr].
  assert (Hmult : length xs = length fvs -> Forall2 (fun x fv => mult_sem (x_mult x) fv) xs fvs).
  { clear - Hm. revert fvs. induction Hm as [|x r Hx Hr IH]; intros [|fv fvs] Hl; try discriminate; constructor.
    - rewrite Hx. exact I.
    - apply IH. injection Hl. auto. }
  assert (Hlen : length xs = length fvs).
  { clear - Hty. revert fvs Hty. induction xs as [|x r IH]; intros [|fv fvs] H; try discriminate; [reflexivity|].
    cbn [map typed_obj] in H. apply andb_true_iff in H. destruct H as [_ H]. cbn [length]. f_equal. exact (IH fvs H). }
  unfold xrule_obj. split.
  - rewrite Ha. split; [intro H; split; [exact H|exact (Hmult Hlen)]|intros [H _]; exact H].
  - rewrite Hr. split; [intros H [H1 _]; exact (H H1)|intros H H1; apply H; split; [exact H1|exact (Hmult Hlen)]].
Qed.

(* ---- closed instance: the RE2 fragment engine -------------------------------------------- *)
(* no engine parameter is left: the compiler's regexp.Compile is the fragment parser,
   the validator's matcher the derivative matcher, the meaning of a pattern the
   declarative relation [pattern_sem] *)
Theorem c12_compiled_concrete env idx x o fv :
  wf_env env = true -> key_placement_ok (x_prop x) = true ->
  compile_prop re_frag_ok env idx x = Ok o -> fvalue_typed (x_prop x) fv = true ->
  (validate_sem re_frag_ok re_frag_match (defined_numbers env) o fv = VAccept <-> xrule_sem pattern_sem env x fv) /\
  (validate_sem re_frag_ok re_frag_match (defined_numbers env) o fv = VReject <-> ~ xrule_sem pattern_sem env x fv).
Proof. exact (c12_compiled re_frag_ok re_frag_match pattern_sem frag_engine env idx x o fv). Qed.

(* what [patterns_in_fragment] buys: the pattern of a compiled declaration inside the
   fragment IS an expression r of the fragment, and its declared meaning is the
   declarative matching relation of r (Regex.search: some substring between the anchors
   matches). Outside the fragment (valid RE2 the parser does not model) pattern_sem is
   empty and nothing is claimed about Go's engine. *)
Lemma in_fragment_pattern d p :
  patterns_in_fragment d = true -> pattern_of (item_of (p_ty d)) = Some p -> re_in_fragment p = true.
Proof.
  unfold patterns_in_fragment. change (elem_ty (p_ty d)) with (item_of (p_ty d)).
  generalize (item_of (p_ty d)). intros t Hin Hp.
  destruct t as [k r l|f r l|r|r l|r l|f e l|a b l|r l|r l|r l|a b l|a b r|a b l];
    cbn [pattern_of] in Hp; try discriminate Hp.
  - destruct r as [r|]; [|discriminate Hp]. rewrite Hp in Hin. exact Hin.
  - destruct f as [[|q| |]|]; try discriminate Hp. injection Hp as <-. exact Hin.
Qed.

Lemma evaluable_pattern re_ok d p :
  evaluable re_ok d = true -> pattern_of (item_of (p_ty d)) = Some p -> re_ok p = true.
Proof.
  unfold evaluable. intros Hev Hp. apply andb_true_iff in Hev. destruct Hev as [Hok _].
  rewrite pattern_of_ok in Hok. change (elem_ty (p_ty d)) with (item_of (p_ty d)) in Hok.
  rewrite Hp in Hok. exact Hok.
Qed.

Lemma frag_parsed p : re_frag_ok p = true -> re_in_fragment p = true -> exists r, re_parse p = Parsed r.
Proof.
  unfold re_frag_ok, re_in_fragment. generalize (re_parse p). intros [r| |] H1 H2.
  - exists r. reflexivity.
  - discriminate H1.
  - discriminate H2.
Qed.

Lemma pattern_sem_parsed p r : re_parse p = Parsed r -> forall s, pattern_sem p s <-> search r s.
Proof.
  intros E s. unfold pattern_sem. split.
  - intros [r' [Hr H]]. rewrite E in Hr. injection Hr as <-. exact H.
  - intro H. exists r. split; [exact E|exact H].
Qed.

Theorem compiled_pattern_meaning env idx x o p :
  compile_prop re_frag_ok env idx x = Ok o ->
  patterns_in_fragment (x_prop x) = true ->
  pattern_of (item_of (p_ty (x_prop x))) = Some p ->
  exists r, re_parse p = Parsed r /\ forall s, pattern_sem p s <-> search r s.
Proof.
  intros Hc Hin Hp. apply compile_prop_ok in Hc. destruct Hc as (_ & Hev & _).
  destruct (frag_parsed p (evaluable_pattern re_frag_ok (x_prop x) p Hev Hp) (in_fragment_pattern (x_prop x) p Hin Hp)) as [r E].
  exists r. split; [exact E|exact (pattern_sem_parsed p r E)].
Qed.

(* ---- required presence, per field kind, as the validator sees it --------------------- *)
Section Presence.
Variable re_ok : str -> bool.
Variable re_match : str -> str -> bool.
Variable pat_sem : str -> str -> Prop.
Hypothesis He : engine_ok re_ok re_match pat_sem.

Lemma mult_sem_absent m : mult_sem m FAbsent.
Proof. destruct m; exact I. Qed.

(* a singular field that can be absent (declared optional, or message typed): absent is
   rejected iff the property must be set — whatever its other rules say *)
Theorem presence_absent env idx x o :
  wf_env env = true -> key_placement_ok (x_prop x) = true ->
  compile_prop re_ok env idx x = Ok o -> fvalue_typed (x_prop x) FAbsent = true ->
  (must_be_set (x_prop x) -> validate_sem re_ok re_match (defined_numbers env) o FAbsent = VReject) /\
  (~ must_be_set (x_prop x) -> validate_sem re_ok re_match (defined_numbers env) o FAbsent = VAccept).
Proof.
  intros Hwf Hkp Hc Hty.
  destruct (c12_compiled re_ok re_match pat_sem He env idx x o FAbsent Hwf Hkp Hc Hty) as [Ha Hr].
  assert (Hx : xrule_sem pat_sem env x FAbsent <-> ~ must_be_set (x_prop x)).
  { unfold xrule_sem, rule_sem. unfold fvalue_typed in Hty.
    destruct (p_ty (x_prop x)) as [t|r sf t|r t]; try discriminate Hty.
    split; [intros [H _]; exact H|intro H; split; [exact H|apply mult_sem_absent]]. }
  split.
  - intro Hm. apply Hr. rewrite Hx. intro H. exact (H Hm).
  - intro Hm. apply Ha. apply Hx. exact Hm.
Qed.

(* repeated fields have no presence: "set" means non-empty. A required array (or map)
   rejects the empty list (map), a non-required one is judged by its count rules only *)
Theorem presence_empty_array env idx x o r sf t :
  wf_env env = true -> key_placement_ok (x_prop x) = true ->
  compile_prop re_ok env idx x = Ok o -> p_ty (x_prop x) = PArray r sf t ->
  must_be_set (x_prop x) ->
  validate_sem re_ok re_match (defined_numbers env) o (FMany []) = VReject.
Proof.
  intros Hwf Hkp Hc Et Hm.
  assert (Hty : fvalue_typed (x_prop x) (FMany []) = true) by (unfold fvalue_typed; rewrite Et; reflexivity).
  destruct (c12_compiled re_ok re_match pat_sem He env idx x o (FMany []) Hwf Hkp Hc Hty) as [_ Hr].
  apply Hr. unfold xrule_sem, rule_sem. rewrite Et. intros [[H _] _]. exact (H Hm eq_refl).
Qed.

Theorem presence_empty_map env idx x o r t :
  wf_env env = true -> key_placement_ok (x_prop x) = true ->
  compile_prop re_ok env idx x = Ok o -> p_ty (x_prop x) = PMap r t ->
  must_be_set (x_prop x) ->
  validate_sem re_ok re_match (defined_numbers env) o (FMap []) = VReject.
Proof.
  intros Hwf Hkp Hc Et Hm.
  assert (Hty : fvalue_typed (x_prop x) (FMap []) = true) by (unfold fvalue_typed; rewrite Et; reflexivity).
  destruct (c12_compiled re_ok re_match pat_sem He env idx x o (FMap []) Hwf Hkp Hc Hty) as [_ Hr].
  apply Hr. unfold xrule_sem, rule_sem. rewrite Et. intros [[H _] _]. exact (H Hm eq_refl).
Qed.

(* a singular field WITHOUT presence (a scalar not declared optional): the validator
   cannot see "not set" — it reads the default value; so for it "absent" and "holds the
   default" are one message and get one verdict *)
Theorem presence_none_reads_default defined o :
  has_presence o = false ->
  validate_sem re_ok re_match defined o FAbsent
  = validate_sem re_ok re_match defined o (FOne (zero_value (fo_kind o))).
Proof. intro H. unfold validate_sem, got. rewrite H. reflexivity. Qed.

(* required together with optional is refused by the compiler *)
Theorem presence_required_and_optional env idx x :
  p_req (x_prop x) = true -> p_opt (x_prop x) = true ->
  forall o, compile_prop re_ok env idx x <> Ok o.
Proof.
  intros Hr Ho o Hc. apply compile_prop_ok in Hc. destruct Hc as (_ & _ & o' & Hw & _).
  unfold write_prop in Hw. apply obind_ok in Hw. destruct Hw as (w & _ & Hw).
  rewrite Hr, Ho in Hw. cbn [orb andb] in Hw. discriminate Hw.
Qed.

End Presence.

(* ---- C04 on the compiler ------------------------------------------------------------ *)
Lemma read_prop_with_map_ext env x o :
  read_prop env (with_map_ext x o) = read_prop env o.
Proof.
  unfold with_map_ext. destruct (x_map_ext x) as [sf|]; [|reflexivity].
  destruct (fo_kind o) eqn:Ek; try reflexivity.
  destruct o; cbn in Ek; subst; reflexivity.
Qed.

Ltac unbind H :=
  repeat match type of H with
         | obind _ _ = Ok _ => let x := fresh in let E := fresh in apply obind_ok in H; destruct H as (x & E & H); clear E
         | (if ?c then _ else _) = Ok _ => destruct c; [try discriminate H|try discriminate H]
         end.

Definition is_map_kind (k : pkind) : bool := match k with KdMapEntry _ => true | _ => false end.

Lemma write_field_not_map env t w : write_field env t = Ok w -> is_map_kind (fw_kind w) = false.
Proof.
  destruct t; cbn [write_field]; intros H; unbind H; inversion H; subst; cbv;
    repeat match goal with |- context [match ?x with _ => _ end] => is_var x; destruct x end; reflexivity.
Qed.

Lemma write_prop_kind_map env idx d o :
  write_prop env idx d = Ok o ->
  is_map_kind (fo_kind o) = match p_ty d with PMap _ _ => true | _ => false end.
Proof.
  unfold write_prop. intro H. apply obind_ok in H. destruct H as (w & Hw & H).
  destruct (p_opt d && _); [discriminate|]. inversion H; subst; clear H. cbn [fo_kind].
  destruct (p_ty d) as [t|r sf t|r t].
  - exact (write_field_not_map env t w Hw).
  - apply obind_ok in Hw. destruct Hw as (w0 & Hw0 & Hw). inversion Hw; subst.
    cbn [wrap_array fw_kind]. exact (write_field_not_map env t w0 Hw0).
  - apply obind_ok in Hw. destruct Hw as (w0 & Hw0 & Hw). inversion Hw; subst. reflexivity.
Qed.

Lemma write_prop_map_ext env idx d o r t :
  write_prop env idx d = Ok o -> p_ty d = PMap r t -> fo_ext o = None.
Proof.
  unfold write_prop. intros H Et. rewrite Et in H. apply obind_ok in H. destruct H as (w & Hw & H).
  apply obind_ok in Hw. destruct Hw as (w0 & Hw0 & Hw). inversion Hw; subst.
  destruct (p_opt d && _); [discriminate|]. inversion H; subst. reflexivity.
Qed.

Lemma with_map_ext_reads env x o' idx :
  x_wf x = true -> write_prop env idx (x_prop x) = Ok o' ->
  match fo_kind (with_map_ext x o'), fo_ext (with_map_ext x o') with
  | KdMapEntry _, Some (XMap sf) => Some sf
  | _, _ => None
  end = x_map_ext x.
Proof.
  intros Hwf Hw. pose proof (write_prop_kind_map env idx (x_prop x) o' Hw) as Hk.
  unfold x_wf in Hwf. apply andb_true_iff in Hwf. destruct Hwf as [_ Hwf].
  unfold with_map_ext. destruct (x_map_ext x) as [sf|].
  - destruct (p_ty (x_prop x)) as [t|r sf0 t|r t] eqn:Et; try discriminate.
    destruct (fo_kind o') eqn:Ek; try discriminate Hk.
    cbn [fo_kind fo_ext]. reflexivity.
  - destruct (fo_kind o') eqn:Ek; try reflexivity.
    (* a map written without Ext carries no (j5.ext.v1.field) *)
    destruct (p_ty (x_prop x)) as [t|r sf0 t|r t] eqn:Et; try discriminate Hk.
    rewrite (write_prop_map_ext env idx (x_prop x) o' r t Hw Et). reflexivity.
Qed.

Theorem c04_xprop_exact re_ok env idx x o :
  zero_std env = true -> x_wf x = true ->
  compile_prop re_ok env idx x = Ok o ->
  (read_xprop env o = Ok (norm_xprop env idx x) <-> xrt_ok x = true).
Proof.
  intros Hstd Hwf Hc. apply compile_prop_ok in Hc. destruct Hc as (Hm & Hev & o' & Hw & ->).
  pose proof (c04_prop_exact env idx (x_prop x) o' Hstd Hw) as Hex.
  unfold read_xprop, norm_xprop, xrt_ok. rewrite read_prop_with_map_ext.
  rewrite (with_map_ext_reads env x o' idx Hwf Hw), Hm. split.
  - intro H. apply Hex. destruct (read_prop env o') as [r| | |]; cbn [obind] in H; try discriminate.
    inversion H. reflexivity.
  - intro H. apply Hex in H. rewrite H. reflexivity.
Qed.

Lemma c04_xprops_exact re_ok env xs : forall idx os,
  zero_std env = true -> forallb x_wf xs = true ->
  compile_props_from re_ok env idx xs = Ok os ->
  (read_xprops env os = Ok (norm_xprops_from env idx xs) <-> forallb xrt_ok xs = true).
Proof.
  induction xs as [|x r IH]; intros idx os Hstd Hwf Hc.
  - inversion Hc; subst. split; reflexivity.
  - cbn [forallb] in Hwf. apply andb_true_iff in Hwf. destruct Hwf as [Hwx Hwr].
    cbn [compile_props_from] in Hc. apply obind_ok in Hc. destruct Hc as (o & Ho & Hc).
    apply obind_ok in Hc. destruct Hc as (os' & Hos & Hc). inversion Hc; subst.
    pose proof (c04_xprop_exact re_ok env idx x o Hstd Hwx Ho) as Hx.
    pose proof (IH (idx + 1)%N os' Hstd Hwr Hos) as Hr.
    cbn [read_xprops norm_xprops_from forallb]. rewrite andb_true_iff. split.
    + intro H. destruct (read_xprop env o) as [p| | |] eqn:Ep; cbn [obind] in H; try discriminate.
      destruct (read_xprops env os') as [ps| | |] eqn:Eps; cbn [obind] in H; try discriminate.
      inversion H; subst. split; [apply Hx|apply Hr]; reflexivity.
    + intros [H1 H2]. apply Hx in H1. apply Hr in H2. rewrite H1. cbn [obind]. rewrite H2. reflexivity.
Qed.

Theorem c04_xobject_exact re_ok env xs os :
  zero_std env = true -> forallb x_wf xs = true ->
  compile_object re_ok env xs = Ok os ->
  (read_xprops env os = Ok (norm_xobject env xs) <-> forallb xrt_ok xs = true).
Proof.
  intros Hstd Hwf Hc. unfold compile_object in Hc. destruct (props_distinct xs); [|discriminate].
  exact (c04_xprops_exact re_ok env xs 0%N os Hstd Hwf Hc).
Qed.

(* ---- the link step ------------------------------------------------------------------ *)
Lemma mem_str_In' s l : mem_str s l = true <-> In s l.
Proof.
  induction l as [|x r IH]; cbn [RulesCompile.mem_str In]; [split; [discriminate|tauto]|].
  rewrite orb_true_iff, IH. split.
  - intros [H|H]; [left; symmetry; apply str_eqb_eq; exact H|right; exact H].
  - intros [H|H]; [left; subst; apply str_eqb_refl|right; exact H].
Qed.

Lemma distinct_strs_NoDup l : distinct_strs l = true <-> NoDup l.
Proof.
  induction l as [|x r IH]; cbn [distinct_strs]; [split; [constructor|reflexivity]|].
  rewrite andb_true_iff, negb_true_iff, IH. split.
  - intros [Hn Hr]. constructor; [|exact Hr]. intro Hin. apply mem_str_In' in Hin. congruence.
  - intro H. inversion H; subst. split; [|assumption].
    destruct (RulesCompile.mem_str x r) eqn:E; [|reflexivity]. apply mem_str_In' in E. contradiction.
Qed.

(* a compiled object has pairwise different proto field names; and two properties
   whose names agree up to strcase.ToSnake (fooBar / foo_bar) never compile together *)
Theorem compile_object_names re_ok env xs os :
  compile_object re_ok env xs = Ok os -> NoDup (proto_names xs).
Proof.
  unfold compile_object. destruct (props_distinct xs) eqn:E; [|discriminate].
  intros _. apply distinct_strs_NoDup. exact E.
Qed.

Theorem compile_object_collision re_ok env xs a b i j :
  nth_error xs i = Some a -> nth_error xs j = Some b -> i <> j ->
  to_snake (p_name (x_prop a)) = to_snake (p_name (x_prop b)) ->
  forall os, compile_object re_ok env xs <> Ok os.
Proof.
  intros Ha Hb Hij Hn os Hc. apply compile_object_names in Hc.
  unfold proto_names in Hc. set (L := map (fun x => to_snake (p_name (x_prop x))) xs) in *.
  assert (Hi : nth_error L i = Some (to_snake (p_name (x_prop a))))
    by (unfold L; rewrite nth_error_map, Ha; reflexivity).
  assert (Hj : nth_error L j = Some (to_snake (p_name (x_prop a))))
    by (unfold L; rewrite nth_error_map, Hb, Hn; reflexivity).
  apply Hij. apply (proj1 (NoDup_nth_error L) Hc i j).
  - apply (proj1 (nth_error_Some L i)). rewrite Hi. discriminate.
  - rewrite Hi, Hj. reflexivity.
Qed.

(* the emitted fields carry exactly those names, in order *)
Lemma compile_prop_name re_ok env idx x o :
  compile_prop re_ok env idx x = Ok o -> fo_name o = to_snake (p_name (x_prop x)).
Proof.
  intro Hc. apply compile_prop_ok in Hc. destruct Hc as (_ & _ & o' & Hw & ->).
  assert (Hn : fo_name o' = to_snake (p_name (x_prop x))).
  { unfold write_prop in Hw. apply obind_ok in Hw. destruct Hw as (w & _ & H).
    destruct (p_opt (x_prop x) && _); [discriminate|]. inversion H; reflexivity. }
  unfold with_map_ext. destruct (x_map_ext x); [|exact Hn]. destruct (fo_kind o'); exact Hn.
Qed.

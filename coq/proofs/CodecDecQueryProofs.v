(* CodecDecQueryProofs.v — totality of the URL-query decoder model (C06). *)
From Coq Require Import String List NArith ZArith Bool Lia ZifyN ZifyNat ZifyBool.
From J5V.lib Require Import Outcome Json Strcase.
From J5V.model Require Import CodecTypes CodecDecScalar CodecDec CodecDecQuery.
From J5V.proofs Require Import CodecDecProofs.
From J5V.gen Require SwitchGen.
Import ListNotations.

Section QueryTotal.
  Variable orc : oracles.
  Variable e : env.

  Lemma create_check_safe p m seen : safe (create_check p m seen).
  Proof. unfold create_check. destruct (mem_bytes (p_json p) seen); [exact I|]. destruct (oneof_conflict p m); exact I. Qed.

  Lemma scalar_list_safe k is_bool vals : forall acc,
    safe ((fix go (vs : list bytes) (acc : list pval) : outcome (list pval) :=
             match vs with
             | [] => Ok acc
             | v :: r =>
               obind (scalar_from_go orc k (query_go_value is_bool v)) (fun x =>
                 match x with
                 | None => Err "cannot append nil value"%string
                 | Some _ => obind (list_append x acc) (go r)
                 end)
             end) vals acc).
  Proof.
    induction vals as [|v r IH]; intros acc; [exact I|].
    apply safe_bind; [intros; exact I | apply scalar_from_go_safe |].
    intros [x|] _; [|exact I]. cbn [list_append obind]. apply IH.
  Qed.

  Lemma enum_list_safe prefix opts vals : forall acc,
    safe ((fix go (vs : list bytes) (acc : list pval) : outcome (list pval) :=
             match vs with
             | [] => Ok acc
             | v :: r =>
               match option_by_name prefix opts v with
               | Some z => go r (acc ++ [VEnum z])
               | None => Err "enum value not found"%string
               end
             end) vals acc).
  Proof.
    induction vals as [|v r IH]; intros acc; [exact I|].
    destruct (option_by_name prefix opts v); [apply IH | exact I].
  Qed.

  (* the JSON body of a container parameter: the decoder proper, on its own token stream *)
  Lemma object_param_safe ps ts me sub eof :
    safe (obind (expect TOpenObj ts) (fun r =>
            obind (object_body orc e me (S (length ts)) 0 ps r sub [])
                  (fun sr => obind (expect TCloseObj (snd sr)) (fun r2 =>
                     obind (end_of_input r2 eof) (fun _ => Ok (fst sr, r2)))))).
  Proof.
    apply safe_bind; [intros; exact I | apply expect_spec |]. intros r Hr. apply expect_len in Hr.
    destruct (level_all orc e me (S (length ts))) as (_ & Hob & _).
    assert (Hb := Hob 0%N ps r sub [] ltac:(lia)).
    destruct (object_body orc e me (S (length ts)) 0 ps r sub []) as [[m' r']| | |];
      cbn [okish] in Hb; try contradiction; [|exact I].
    cbn [obind fst snd]. apply safe_bind; [intros; exact I | apply expect_spec |].
    intros r2 _. unfold end_of_input. destruct r2; [destruct eof|]; exact I.
  Qed.

  Lemma oneof_param_safe ps ts me sub eof :
    safe (obind (expect TOpenObj ts) (fun r =>
            obind (oneof_body orc e me (S (length ts)) 0 ps r sub [] [] None)
                  (fun sr => obind (expect TCloseObj (snd sr)) (fun r2 =>
                     obind (end_of_input r2 eof) (fun _ => Ok (fst sr, r2)))))).
  Proof.
    apply safe_bind; [intros; exact I | apply expect_spec |]. intros r Hr. apply expect_len in Hr.
    destruct (level_all orc e me (S (length ts))) as (_ & _ & Hoo & _).
    assert (Hb := Hoo 0%N ps r sub [] [] None ltac:(lia)).
    destruct (oneof_body orc e me (S (length ts)) 0 ps r sub [] [] None) as [[m' r']| | |];
      cbn [okish] in Hb; try contradiction; [|exact I].
    cbn [obind fst snd]. apply safe_bind; [intros; exact I | apply expect_spec |].
    intros r2 _. unfold end_of_input. destruct r2; [destruct eof|]; exact I.
  Qed.

  Lemma query_final_safe props name vals m st : safe (query_final orc e props name vals m st).
  Proof.
    unfold query_final. destruct (find_prop props name) as [p|]; [|exact I].
    apply safe_bind; [intros; exact I | apply create_check_safe |]. intros _ _.
    destruct (p_ty p) as [k|ref|ref|ref|item|item|pb]; try exact I.
    - (* scalar *)
      destruct vals as [|v [|v2 r]]; try exact I.
      apply safe_bind; [intros; exact I | apply scalar_from_go_safe |]. intros x _.
      apply safe_bind; [intros; exact I | | intros; exact I].
      apply with_holder_safe. intros; destruct x; exact I.
    - (* enum *)
      destruct vals as [|v [|v2 r]]; try exact I.
      destruct (lookup e ref) as [[| |prefix opts]|]; try exact I.
      destruct (option_by_name prefix opts v); [|exact I].
      apply safe_bind; [intros; exact I | | intros; exact I].
      apply with_holder_safe. intros; exact I.
    - (* object *)
      cbn [props_of]. destruct (lookup e ref) as [[ps| |]|]; try exact I.
      destruct vals as [|v [|v2 r]]; try exact I.
      destruct (match trim_space v with c :: _ => (c =? 123)%N | [] => false end); [|exact I].
      destruct (lex (trim_space v)) as [ts me] eqn:El. cbv zeta. cbn iota.
      destruct (p_path p) as [|n0 path0].
      + apply safe_bind; [intros; exact I | apply object_param_safe | intros; exact I].
      + apply safe_bind; [intros; exact I | | intros; exact I].
        apply with_holder_safe. intros n h. destruct (msg_mutable (p_siblings p) n h) as [sub h1].
        apply safe_bind; [intros; exact I | apply object_param_safe | intros; exact I].
    - (* oneof *)
      cbn [props_of]. destruct (lookup e ref) as [[|ps|]|]; try exact I.
      destruct vals as [|v [|v2 r]]; try exact I.
      destruct (match trim_space v with c :: _ => (c =? 123)%N | [] => false end); [|exact I].
      destruct (lex (trim_space v)) as [ts me] eqn:El. cbv zeta. cbn iota.
      destruct (p_path p) as [|n0 path0].
      + apply safe_bind; [intros; exact I | apply oneof_param_safe | intros; exact I].
      + apply safe_bind; [intros; exact I | | intros; exact I].
        apply with_holder_safe. intros n h. destruct (msg_mutable (p_siblings p) n h) as [sub h1].
        apply safe_bind; [intros; exact I | apply oneof_param_safe | intros; exact I].
    - (* array *)
      destruct item as [k|ref| | | | |]; try exact I.
      + apply safe_bind; [intros; exact I | | intros; exact I].
        apply with_holder_safe. intros n h. cbn zeta.
        apply safe_bind; [intros; exact I | apply scalar_list_safe | intros; exact I].
      + destruct (lookup e ref) as [[| |prefix opts]|]; try exact I.
        apply safe_bind; [intros; exact I | | intros; exact I].
        apply with_holder_safe. intros n h. cbn zeta.
        apply safe_bind; [intros; exact I | apply enum_list_safe | intros; exact I].
  Qed.

  Lemma query_at_safe parts : forall props vals m st, safe (query_at orc e props parts vals m st).
  Proof.
    induction parts as [|part rest IH]; intros props vals m st; [exact I|].
    destruct rest as [|part2 rest'].
    - apply query_final_safe.
    - cbn [query_at].
      destruct (find_prop props (to_lower_camel part)) as [p|]; [|exact I].
      destruct (props_of e (p_ty p)) as [[ps is_oneof]|]; [|exact I].
      destruct (mem_bytes (p_json p) (qt_seen st)).
      + destruct (p_path p) as [|n0 path0].
        * apply safe_bind; [intros; exact I | apply IH | intros; exact I].
        * apply safe_bind; [intros; exact I | | intros; exact I].
          apply with_holder_safe. intros n h. destruct (msg_mutable (p_siblings p) n h) as [sub h1].
          apply safe_bind; [intros; exact I | apply IH | intros; exact I].
      + apply safe_bind; [intros; exact I | apply create_check_safe |]. intros _ _.
        destruct (p_path p) as [|n0 path0].
        * apply safe_bind; [intros; exact I | apply IH | intros; exact I].
        * apply safe_bind; [intros; exact I | | intros; exact I].
          apply with_holder_safe. intros n h. destruct (msg_mutable (p_siblings p) n h) as [sub h1].
          apply safe_bind; [intros; exact I | apply IH | intros; exact I].
  Qed.

  Lemma query_loop_safe kvs : forall props m st, safe (query_loop orc e props kvs m st).
  Proof.
    induction kvs as [|[key vals] r IH]; intros props m st; [exact I|].
    cbn [query_loop]. destruct vals as [|v vs]; [apply IH|].
    apply safe_bind; [intros; exact I | apply query_at_safe |]. intros ms _. apply IH.
  Qed.

  Theorem decode_query_safe root kvs : safe (decode_query orc e root kvs).
  Proof.
    unfold decode_query. destruct (lookup e root) as [[props|props|]|]; try exact I; apply query_loop_safe.
  Qed.
End QueryTotal.

(* Codec.QueryToProto: for every list of (key, values) pairs in any visiting order, any schema
   environment and root: success or an error, never a panic (no fuel is involved: the only
   recursion outside the JSON decoder is on the path components of a key) *)
Theorem decode_query_total orc e root kvs :
  is_panic (decode_query orc e root kvs) = false /\ decode_query orc e root kvs <> OutOfFuel.
Proof. apply safe_iff, decode_query_safe. Qed.

(* agreement with the Go source (gen/SwitchGen.v) *)
Lemma gen_query_empty_values_agree : SwitchGen.query_empty_values_skipped = true.
Proof. vm_compute. reflexivity. Qed.

(* ReflectWeakProofs.v — what EVERY successful reflection guarantees, with NO hypothesis on the
   descriptor set (no wf_keys): the keys of the schema set are distinct, no placeholder is left, every
   linked root has pairwise distinct property names (the reader checks them) and importable scalar
   formats, and every reference names an entry of the set.  The same pass as ReflectInvProofs.v with
   the post-condition weakened to "if the step returns Ok" (panics and fuel are the business of
   ReflectFuelProofs.v) and without the name-apartness invariant [Inv], which is what needed wf_keys.
   This is what the export / import round trip (C15) needs of a reflected set. *)
From Coq Require Import String List NArith ZArith Bool Lia Permutation.
From J5V.lib Require Import Outcome.
From J5V.model Require Import ReflectDesc ReflectSchema Reflect ReflectSpec Export.
From J5V.proofs Require Import ReflectProofs ExportProofs ReflectInvProofs.
Import ListNotations.

Lemma build_enum_is_enum e r : build_enum e = Ok r -> exists a b c d f, r = REnum a b c d f.
Proof.
  destruct e as [full pkg path values eo d]. cbn [build_enum].
  destruct values as [|[first num info dv] rest]; [discriminate|].
  destruct (negb (has_suffix s_UNSPECIFIED first)); [discriminate|]. intros H. inversion H. eauto 10.
Qed.

Section Weak.
Variable D : desc.

Definition InvC (st : sset) : Prop :=
  (forall k r, lookup st k = Some (Linked r) -> root_wf r /\ refs_keyed st (root_refs r)) /\
  NoDup (map fst st).

Lemma InvC_nil : InvC [].
Proof. split; [intros k r H; discriminate|constructor]. Qed.

(* a fresh key that is not an enum's name: placeholder or linked root *)
Lemma InvC_cons st k en :
  InvC st -> lookup st k = None ->
  (match en with Placeholder => True | Linked r => root_wf r /\ refs_keyed ((k, en) :: st) (root_refs r) end) ->
  InvC ((k, en) :: st).
Proof.
  intros (H2 & H3) Hl Hen. split.
  - intros k' r Hlk. rewrite lookup_cons in Hlk. destruct (ref_eqb k k') eqn:E.
    + inversion Hlk; subst en. exact Hen.
    + destruct (H2 k' r Hlk) as [Hw Hr]. split; [exact Hw|]. eapply refs_keyed_ext; [apply ext_cons|exact Hr].
  - cbn [map fst]. constructor; [apply lookup_None_notin; exact Hl|exact H3].
Qed.

Lemma InvC_cons_enum st e r :
  InvC st -> lookup st (enum_key e) = None -> (exists a b c d f, r = REnum a b c d f) ->
  InvC ((enum_key e, Linked r) :: st).
Proof.
  intros (H2 & H3) Hl (a & b & c & d & f & ->). split.
  - intros k' r Hlk. rewrite lookup_cons in Hlk. destruct (ref_eqb (enum_key e) k') eqn:E.
    + inversion Hlk; subst r. split; [split; [constructor|reflexivity]|intros k2 []].
    + destruct (H2 k' r Hlk) as [Hw Hr]. split; [exact Hw|]. eapply refs_keyed_ext; [apply ext_cons|exact Hr].
  - cbn [map fst]. constructor; [apply lookup_None_notin; exact Hl|exact H3].
Qed.

Lemma InvC_update st k r :
  InvC st ->
  root_wf r -> refs_keyed st (root_refs r) -> InvC (update st k (Linked r)).
Proof.
  intros (H2 & H3) Hw Hr. split.
  - intros k' r' Hlk. rewrite lookup_update in Hlk. destruct (ref_eqb k k') eqn:E.
    + destruct (lookup st k); [|discriminate]. inversion Hlk; subst r'. split; [exact Hw|].
      eapply refs_keyed_ext; [apply ext_update|exact Hr].
    + destruct (H2 k' r' Hlk) as [Hw' Hr']. split; [exact Hw'|]. eapply refs_keyed_ext; [apply ext_update|exact Hr'].
  - rewrite keys_update. exact H3.
Qed.


(* ---------------------------------------------------------------- the post-condition, with a result predicate *)
Definition Pc {X} (pr : X -> sset) (Q : X -> Prop) (st : sset) (o : outcome X) : Prop :=
  match o with
  | Ok x => InvC (pr x) /\ ext st (pr x) /\ noplace st (pr x) /\ Q x
  | Err _ => True
  | Panic _ => True
  | OutOfFuel => True
  end.

Lemma Pc_bind {X Y} (prx : X -> sset) (pry : Y -> sset) (Qx : X -> Prop) (Qy : Y -> Prop) st (o : outcome X) (g : X -> outcome Y) :
  Pc prx Qx st o ->
  (forall x, InvC (prx x) -> ext st (prx x) -> noplace st (prx x) -> Qx x ->
             match g x with
             | Ok y => InvC (pry y) /\ ext (prx x) (pry y) /\ noplace (prx x) (pry y) /\ Qy y
             | Err _ => True
             | _ => True
             end) ->
  Pc pry Qy st (obind o g).
Proof.
  intros Ho Hg. destruct o as [x| | |]; cbn in *; auto.
  destruct Ho as (H1 & H2 & H3 & H4). specialize (Hg x H1 H2 H3 H4).
  destruct (g x) as [y| | |]; cbn; auto. destruct Hg as (G1 & G2 & G3 & G4).
  split; [exact G1|]. split; [eapply ext_trans; eauto|]. split; [eapply noplace_trans; eauto|exact G4].
Qed.


Lemma build_enum_field_pc st f x : InvC st -> Pc fst Qs st (build_enum_field D st f x).
Proof.
  intros HI. unfold build_enum_field.
  destruct (f_ty f) as [|full|full]; try exact I.
  destruct (find_enum D full) as [e|] eqn:Ef; [|exact I].
  assert (He : In e (d_enums D)) by (eapply find_enum_In; eauto).
  assert (Hst1 : match enum_ref st e with
                 | Ok st1 => InvC st1 /\ ext st st1 /\ noplace st st1 /\
                             exists a b c d g, lookup st1 (enum_key e) = Some (Linked (REnum a b c d g))
                 | _ => True
                 end).
  { destruct (enum_ref st e) as [st1| | |] eqn:Er; try exact I.
    destruct (enum_ref_inv st e st1 Er) as [[-> Hl]|(El & r & Eb & ->)].
    - split; [exact HI|]. split; [apply ext_refl|]. split; [apply noplace_refl|exact Hl].
    - destruct (build_enum_is_enum e r Eb) as (a & b & c & d & g & ->).
      split; [apply InvC_cons_enum; [exact HI|exact El|eauto 10]|]. split; [apply ext_cons|]. split; [apply noplace_cons_linked|].
      exists a, b, c, d, g. rewrite lookup_cons, ref_eqb_refl. reflexivity. }
  destruct (enum_ref st e) as [st1| | |]; cbn [obind]; try exact Hst1.
  destruct Hst1 as (HI1 & He1 & Hn1 & a & b & c & d & g & Hl).
  assert (Hfin : forall rules lr, Pc fst Qs st (Ok (st1, FEnum (enum_key e) rules lr None))).
  { intros rules lr. unfold Pc, Qs. cbn [fst snd field_refs field_importable].
    split; [exact HI1|]. split; [exact He1|]. split; [exact Hn1|]. split; [reflexivity|].
    intros k Hk. destruct Hk as [<-|[]]. eapply has_key_lookup; eauto. }
  rewrite Hl. destruct (x_vty x); cbn [obind]; try apply Hfin.
  match goal with |- context [lift ?r] => destruct r as [v|cls] end; cbn [lift obind]; [apply Hfin|exact I].
Qed.


Section Level.
Variable rec : sset -> msgd -> outcome (sset * root).
Hypothesis Hrec : forall st m, In m (d_msgs D) -> InvC st -> Pc fst Qr st (rec st m).

Lemma build_message_field_pc st f x :
  InvC st -> Pc fst Qs st (build_message_field D rec st f x).
Proof.
  intros HI. unfold build_message_field.
  destruct (f_ty f) as [|full|full]; try exact I.
  destruct (wkt_schema full x) as [[s|]|cls] eqn:Ew; cbn [lift obind]; try exact I.
  - destruct (wkt_schema_ok full x s Ew) as [Hi Hr]. unfold Pc, Qs. cbn [fst snd].
    split; [exact HI|]. split; [apply ext_refl|]. split; [apply noplace_refl|]. split; [exact Hi|].
    rewrite Hr. intros k [].
  - destruct (has_prefix s_google_protobuf full); [exact I|].
    destruct (find_msg D full) as [m|] eqn:Ef; [|exact I].
    assert (Hm : In m (d_msgs D)) by (eapply find_msg_In; eauto).
    assert (Hres : forall st2 s, InvC st2 -> ext st st2 -> noplace st st2 -> has_key st2 (msg_key m) = true ->
                                 (exists fl lr, s = FObject (msg_key m) fl None None \/ s = FOneof (msg_key m) None lr None) ->
                                 Pc fst Qs st (Ok (st2, s))).
    { intros st2 s H1 H2 H3 H4 (fl & lr & [->| ->]); unfold Pc, Qs; cbn [fst snd field_refs field_importable];
        (split; [exact H1|]; split; [exact H2|]; split; [exact H3|]; split; [reflexivity|];
         intros k Hk; destruct Hk as [<-|[]]; exact H4). }
    destruct (lookup st (msg_key m)) as [en|] eqn:El; [destruct (is_enum_entry en)|]; cbn [obind].
    + exact I.
    + apply Hres; try assumption; try apply ext_refl; try apply noplace_refl; [eapply has_key_lookup; eauto|].
      destruct (is_oneof_wrapper m); [exists false; eexists; right; reflexivity|eexists; exists None; left; reflexivity].
    + assert (Hk : has_key st (msg_key m) = false) by (unfold has_key; rewrite El; reflexivity).
      assert (HI' : InvC ((msg_key m, Placeholder) :: st)) by (apply InvC_cons; auto).
      pose proof (Hrec _ m Hm HI') as Hr.
      destruct (rec ((msg_key m, Placeholder) :: st) m) as [[st1 r]| | |]; cbn [obind Pc fst] in *; try exact Hr.
      destruct Hr as (HI1 & He1 & Hn1 & Hw & Hrk). cbn [fst snd] in *.
      apply Hres.
      * apply InvC_update; assumption.
      * eapply ext_trans; [apply ext_cons|]. eapply ext_trans; [exact He1|apply ext_update].
      * eapply noplace_update_linked; eauto.
      * apply ext_update. apply He1. unfold has_key. rewrite lookup_cons, ref_eqb_refl. reflexivity.
      * destruct (is_oneof_wrapper m); [exists false; eexists; right; reflexivity|eexists; exists None; left; reflexivity].
Qed.

Lemma build_schema_pc st f x :
  InvC st -> Pc fst Qs st (build_schema D rec st f x).
Proof.
  intros HI. unfold build_schema.
  destruct (f_kind f) eqn:Ek;
    try (destruct (build_scalar _ x) as [p|cls] eqn:Eb; cbn [lift obind]; [|exact I];
         unfold Pc, Qs; cbn [fst snd field_refs];
         split; [exact HI|]; split; [apply ext_refl|]; split; [apply noplace_refl|];
         split; [eapply build_scalar_importable; eauto|intros k []]).
  - apply build_enum_field_pc; exact HI.
  - apply build_message_field_pc; assumption.
Qed.


Lemma build_field_prop_pc st f :
  InvC st -> Pc fst (Qp f) st (build_field_prop D rec st f).
Proof.
  intros HI. unfold build_field_prop.
  assert (Hk : forall x (mk : fschema -> prop),
             (forall s, p_json (mk s) = f_json f) ->
             (forall s, field_importable (p_schema (mk s)) = field_importable s) ->
             (forall s, field_refs (p_schema (mk s)) = field_refs s) ->
             Pc fst (Qp f) st (obind (build_schema D rec st f x) (fun '(st1, s) => Ok (st1, mk s)))).
  { intros x mk H1 H2 H3. eapply Pc_bind; [apply build_schema_pc; assumption|].
    intros [st1 s] G1 G2 G3 [G4 G5]. cbn [fst snd] in *. unfold Qp. cbn [fst snd].
    split; [exact G1|]. split; [apply ext_refl|]. split; [apply noplace_refl|].
    split; [apply H1|]. split; [rewrite H2; exact G4|rewrite H3; exact G5]. }
  destruct (f_card f) as [| | |kk].
  - apply Hk; intros; reflexivity.
  - apply Hk; intros; reflexivity.
  - destruct (x_vty (field_exts f)); cbn; apply Hk; intros; reflexivity.
  - destruct (negb (kind_eqb kk KString)); [exact I|].
    destruct (x_vty (field_exts f)); cbn; apply Hk; intros; reflexivity.
Qed.

Lemma fields_loop_pc m fs : forall st exs,
  InvC st -> Forall (ex_wf st) exs -> Pc pr3 Ql st (fields_loop D rec m st exs fs).
Proof.
  induction fs as [|f r IH]; intros st exs HI Hex; cbn [fields_loop].
  - unfold Pc, Ql, pr3. cbn [fst snd]. split; [exact HI|]. split; [apply ext_refl|]. split; [apply noplace_refl|].
    split; [reflexivity|]. split; [intros k []|exact Hex].
  - eapply Pc_bind; [apply build_field_prop_pc; assumption|].
    intros [st1 p] HI1 He1 Hn1 (Hj & Hi & Hr). cbn [fst snd] in *.
    assert (Hex1 : Forall (ex_wf st1) exs) by (eapply Forall_ex_wf_ext; eauto).
    (* prepend a property whose schema is importable and whose refs are keyed in st1 *)
    assert (Hcons : forall exs' q,
               Forall (ex_wf st1) exs' -> field_importable (p_schema q) = true -> refs_keyed st1 (field_refs (p_schema q)) ->
               match obind (fields_loop D rec m st1 exs' r) (fun '(st2, exs2, ps) => Ok (st2, exs2, q :: ps)) with
               | Ok y => InvC (pr3 y) /\ ext st1 (pr3 y) /\ noplace st1 (pr3 y) /\ Ql y
               | Err _ => True
               | _ => True
               end).
    { intros exs' q Hex' Hqi Hqr. pose proof (IH st1 exs' HI1 Hex') as H.
      destruct (fields_loop D rec m st1 exs' r) as [[[st2 exs2] ps]| | |]; cbn [obind]; try exact H.
      unfold Pc, Ql, pr3 in *. cbn [fst snd] in *. destruct H as (G1 & G2 & G3 & G4 & G5 & G6).
      split; [exact G1|]. split; [exact G2|]. split; [exact G3|].
      split; [cbn [props_importable forallb]; rewrite Hqi; exact G4|].
      split; [|exact G6]. cbn [props_refs flat_map]. intros k Hk. apply in_app_or in Hk as [Hk|Hk].
      - apply G2. apply Hqr. exact Hk.
      - apply G5. exact Hk. }
    assert (Hdirect := Hcons exs p Hex1 Hi Hr).
    destruct (f_card f); try exact Hdirect;
      (destruct (f_oneof f) as [idx|]; [|exact Hdirect];
       destruct (oneof_is_synthetic m idx); [exact Hdirect|];
       destruct (add_to_exposed exs idx p) as [[exs1 pending]|] eqn:Ea; [|exact Hdirect]).
    all: destruct (add_to_exposed_split _ _ _ _ _ Ea) as (l1 & e & l2 & E1 & E2 & E3).
    all: assert (Hex2 : Forall (ex_wf st1) exs1)
        by (subst exs exs1; apply Forall_app in Hex1 as [Ha Hb]; inversion Hb as [|? ? He Hl2]; subst;
            apply Forall_app; split; [exact Ha|]; constructor; [|exact Hl2];
            destruct He as (W1 & W2 & W3 & W4); unfold ex_wf, bump; cbn [ex_prop ex_key ex_props];
            split; [exact W1|]; split; [exact W2|]; split;
            [rewrite props_importable_app, W3; cbn [props_importable forallb]; rewrite Hi; reflexivity|];
            rewrite props_refs_app; cbn [props_refs flat_map]; rewrite app_nil_r;
            intros k Hk; apply in_app_or in Hk as [Hk|Hk]; [apply W4; exact Hk|apply Hr; exact Hk]).
    all: assert (He : ex_wf st1 e) by (subst exs; apply Forall_app in Hex1 as [_ Hb]; inversion Hb; assumption).
    all: destruct pending as [pp|].
    all: try (assert (Hpp : pp = ex_prop e) by (destruct (ex_pending e); inversion E3; reflexivity); subst pp;
              destruct He as (W1 & W2 & _ & _);
              apply Hcons; [exact Hex2|rewrite W1; reflexivity|rewrite W1; intros k [<-|[]]; exact W2]).
    all: pose proof (IH st1 exs1 HI1 Hex2) as H;
         destruct (fields_loop D rec m st1 exs1 r) as [[[st2 exs2] ps]| | |]; cbn [obind]; exact H.
Qed.

Lemma register_oneofs_pc m : In m (d_msgs D) -> forall os idx st,
  (forall o, In o os -> In o (m_oneofs m)) -> InvC st ->
  match register_oneofs m st idx os with
  | ROk (st1, exs) => InvC st1 /\ ext st st1 /\ noplace st st1 /\ Forall (ex_wf st1) exs /\
                      pn exs = exposed_of os /\ Forall (fun e => ex_props e = []) exs
  | RErr _ => True
  end.
Proof.
  intros Hm. induction os as [|[name jname syn ext0 d] r IH]; intros idx st Hsub HI; cbn [register_oneofs].
  - split; [exact HI|]. split; [apply ext_refl|]. split; [apply noplace_refl|]. repeat split; constructor.
  - assert (Hr : forall o, In o r -> In o (m_oneofs m)) by (intros o Ho; apply Hsub; right; exact Ho).
    cbn [exposed_of flat_map].
    destruct syn; [cbn [app]; apply IH; assumption|].
    destruct ext0 as [[|]|]; try (cbn [app]; apply IH; assumption).
    destruct (lookup st (oneof_key m name)) eqn:El; [exact I|].
    set (k := oneof_key m name). fold k in El.
    set (st1 := (k, Linked (ROneof (snd k) d [])) :: st).
    assert (HI1 : InvC st1).
    { apply InvC_cons; [exact HI|exact El|].
      split; [split; [constructor|reflexivity]|intros k2 []]. }
    pose proof (IH (N.succ idx) st1 Hr HI1) as H.
    destruct (register_oneofs m st1 (N.succ idx) r) as [[st2 exs]|]; cbn [rbind]; [|exact I].
    destruct H as (H1 & H2 & H3 & H4 & H5 & H6).
    split; [exact H1|]. split; [eapply ext_trans; [apply ext_cons|exact H2]|].
    split; [eapply noplace_trans; [apply noplace_cons_linked|exact H3]|].
    split; [|split].
    + constructor; [|exact H4]. unfold ex_wf. cbn [ex_prop ex_key ex_props p_schema].
      split; [reflexivity|]. split; [|split; [reflexivity|intros k2 []]].
      apply H2. unfold has_key, st1. rewrite lookup_cons, ref_eqb_refl. reflexivity.
    + unfold pn. cbn [filter ex_pending map ex_prop p_json app]. fold (pn exs). rewrite H5. reflexivity.
    + constructor; [reflexivity|exact H6].
Qed.

Lemma finish_oneofs_pc m : In m (d_msgs D) -> forall exs st,
  exs_named m exs -> Forall (ex_wf st) exs -> Forall (fun e => NoDup (map p_json (ex_props e))) exs ->
  InvC st -> InvC (finish_oneofs st exs) /\ ext st (finish_oneofs st exs) /\ noplace st (finish_oneofs st exs).
Proof.
  intros Hm. unfold finish_oneofs. induction exs as [|e r IH]; intros st Hnm Hex Hnd HI; cbn [fold_left].
  - split; [exact HI|]. split; [apply ext_refl|apply noplace_refl].
  - assert (Hnm' : exs_named m r) by (intros e' He'; apply Hnm; right; exact He').
    inversion Hex as [|? ? He Hex']; subst. inversion Hnd as [|? ? Hn Hnd']; subst.
    destruct (lookup st (ex_key e)) as [[|[| nm dd ps|]]|] eqn:El; try (apply IH; assumption).
    destruct (Hnm e (or_introl eq_refl)) as (name & j & x & d & Hin & Hkey).
    destruct He as (W1 & W2 & W3 & W4).
    set (st1 := update st (ex_key e) (Linked (ROneof nm dd (ex_props e)))).
    assert (HI1 : InvC st1).
    { apply InvC_update; [exact HI| |].
      - split; [exact Hn|exact W3].
      - exact W4. }
    assert (He1 : ext st st1) by apply ext_update.
    destruct (IH st1 Hnm' (Forall_ex_wf_ext _ _ _ He1 Hex') Hnd' HI1) as (G1 & G2 & G3).
    split; [exact G1|]. split; [eapply ext_trans; eauto|]. eapply noplace_trans; [apply noplace_update_same|exact G3].
Qed.


Definition Qmw (x : sset * list prop) : Prop := props_importable (snd x) = true /\ refs_keyed (fst x) (props_refs (snd x)).


Lemma message_properties_pc st m :
  In m (d_msgs D) -> InvC st -> Pc fst Qmw st (message_properties D rec st m).
Proof.
  intros Hm HI. unfold message_properties.
  pose proof (register_oneofs_pc m Hm (m_oneofs m) 0%N st (fun o H => H) HI) as Hreg.
  destruct (register_oneofs m st 0 (m_oneofs m)) as [[st1 exs]|cls] eqn:Ereg; cbn [lift obind]; [|exact I].
  destruct Hreg as (HI1 & He1 & Hn1 & Hex & Hpn & Hempty).
  assert (Hnamed : exs_named m exs) by (eapply register_oneofs_named; [|exact Ereg]; auto).
  pose proof (fields_loop_pc m (m_fields m) st1 exs HI1 Hex) as Hf.
  destruct (fields_loop D rec m st1 exs (m_fields m)) as [[[st2 exs2] ps]| | |] eqn:Ef; cbn [obind]; try exact Hf.
  unfold Pc, Ql, pr3 in Hf. cbn [fst snd] in Hf. destruct Hf as (HI2 & He2 & Hn2 & Hpi & Hpr & Hex2).
  destruct (existsb ex_pending exs2) eqn:Epend; [exact I|]. destruct (exs_names_ok exs2) eqn:Enames; cbn [negb]; [|exact I].
  assert (Hnamed2 : exs_named m exs2) by (eapply fields_loop_named; eauto).
  (* the members of every exposed oneof: distinct because messageProperties checks them *)
  assert (N3 : Forall (fun e => NoDup (map p_json (ex_props e))) exs2).
  { apply Forall_forall. intros e He. apply nodup_str_NoDup.
    unfold exs_names_ok in Enames. exact (proj1 (forallb_forall _ _) Enames e He). }
  destruct (finish_oneofs_pc m Hm exs2 st2 Hnamed2 Hex2 N3 HI2) as (F1 & F2 & F3).
  unfold Pc, Qmw. cbn [fst snd].
  split; [exact F1|]. split; [eapply ext_trans; [exact He1|]; eapply ext_trans; [exact He2|exact F2]|].
  split; [eapply noplace_trans; [exact Hn1|]; eapply noplace_trans; [exact Hn2|exact F3]|].
  split; [exact Hpi|]. eapply refs_keyed_ext; [exact F2|exact Hpr].
Qed.

Lemma build_root_pc st m :
  In m (d_msgs D) -> InvC st -> Pc fst Qr st (build_root D rec st m).
Proof.
  intros Hm HI. unfold build_root.
  eapply Pc_bind; [apply message_properties_pc; assumption|].
  intros [st1 ps] HI1 He1 Hn1 [Hw Hr]. cbn [fst snd] in *.
  assert (Hfin : forall r, root_props r = ps -> NoDup (map p_json ps) ->
             match Ok (st1, r) : outcome (sset * root) with
             | Ok y => InvC (fst y) /\ ext st1 (fst y) /\ noplace st1 (fst y) /\ Qr y
             | Err _ => True
             | _ => True
             end).
  { intros r Hp Hnd. cbn [fst]. split; [exact HI1|]. split; [apply ext_refl|]. split; [apply noplace_refl|].
    unfold Qr, root_wf, root_refs. cbn [fst snd]. rewrite Hp. split; [split; [exact Hnd|exact Hw]|exact Hr]. }
  destruct (props_valid ps) eqn:Ev; cbn [negb]; [|exact I].
  (* the names of the message's own properties: distinct because the reader checks them *)
  assert (Hnd : NoDup (map p_json ps)).
  { unfold props_valid in Ev. apply andb_true_iff in Ev as [_ Ev]. apply nodup_str_NoDup. exact Ev. }
  destruct (is_oneof_wrapper m); [apply Hfin; [reflexivity|exact Hnd]|].
  destruct (flatten_cycle st1 (msg_key m) ps) as [[|]|]; [exact I| |exact I].
  destruct (find_psm D m) as [ent|cls]; cbn [lift obind]; [apply Hfin; [reflexivity|exact Hnd]|exact I].
Qed.
End Level.

Lemma build_msg_pc : forall fuel st m,
  In m (d_msgs D) -> InvC st -> Pc fst Qr st (build_msg D fuel st m).
Proof.
  induction fuel as [|fuel IH]; intros st m Hm HI; [exact I|].
  cbn [build_msg]. apply build_root_pc; [exact IH|assumption|assumption].
Qed.

Lemma message_schema_pc fuel st m :
  In m (d_msgs D) -> InvC st -> Pc fst (fun _ => True) st (message_schema D fuel st m).
Proof.
  intros Hm HI. unfold message_schema.
  destruct (lookup st (msg_key m)) as [[|r]|] eqn:El.
  - exact I.
  - unfold Pc. cbn [fst]. split; [exact HI|]. split; [apply ext_refl|]. split; [apply noplace_refl|exact I].
  - assert (Hk : has_key st (msg_key m) = false) by (unfold has_key; rewrite El; reflexivity).
    assert (HI' : InvC ((msg_key m, Placeholder) :: st)) by (apply InvC_cons; auto).
    pose proof (build_msg_pc fuel _ m Hm HI') as Hr.
    destruct (build_msg D fuel ((msg_key m, Placeholder) :: st) m) as [[st1 r]| | |]; cbn [obind]; try exact Hr.
    unfold Pc, Qr in *. cbn [fst snd] in *. destruct Hr as (HI1 & He1 & Hn1 & Hw & Hrk).
    split; [apply InvC_update; assumption|].
    split; [eapply ext_trans; [apply ext_cons|]; eapply ext_trans; [exact He1|apply ext_update]|].
    split; [eapply noplace_update_linked; eauto|exact I].
Qed.

Definition good_final (o : outcome sset) : Prop :=
  match o with
  | Ok st => InvC st /\ forall k, lookup st k <> Some Placeholder
  | Err _ => True
  | _ => True
  end.

Lemma messages_loop_pc fuel : forall ms st,
  InvC st -> (forall k, lookup st k <> Some Placeholder) -> good_final (messages_loop D fuel st ms).
Proof.
  induction ms as [|full r IH]; intros st HI Hnp; cbn [messages_loop]; [split; assumption|].
  destruct (find_msg D full) as [m|] eqn:Ef; [|exact I].
  assert (Hm : In m (d_msgs D)) by (eapply find_msg_In; eauto).
  pose proof (message_schema_pc fuel st m Hm HI) as H.
  destruct (message_schema D fuel st m) as [[st1 r1]| | |]; cbn [obind]; try exact H.
  unfold Pc in H. cbn [fst] in H. destruct H as (H1 & H2 & H3 & _).
  apply IH; [exact H1|]. intros k Hk. apply H3 in Hk. apply (Hnp k Hk).
Qed.

Lemma enums_loop_pc : forall es st,
  InvC st -> (forall k, lookup st k <> Some Placeholder) -> good_final (enums_loop D st es).
Proof.
  induction es as [|full r IH]; intros st HI Hnp; cbn [enums_loop]; [split; assumption|].
  destruct (find_enum D full) as [e|] eqn:Ef; [|exact I].
  assert (He : In e (d_enums D)) by (eapply find_enum_In; eauto).
  destruct (lookup st (enum_key e)) eqn:El; [apply IH; assumption|].
  destruct (build_enum e) as [root| | |] eqn:Eb; cbn [obind]; try exact I.
  apply IH; [apply InvC_cons_enum; [exact HI|exact El|exact (build_enum_is_enum e root Eb)]|].
  intros k Hk. rewrite lookup_cons in Hk. destruct (ref_eqb (enum_key e) k); [discriminate|apply (Hnp k Hk)].
Qed.

Theorem reflect_final_weak fs : good_final (reflect D fs).
Proof.
  unfold reflect, reflect_files. destruct (collect fs) as [ms es].
  pose proof (messages_loop_pc (size D) ms [] InvC_nil (fun k H => ltac:(discriminate))) as H.
  destruct (messages_loop D (size D) [] ms) as [st| | |]; cbn [obind]; try exact H.
  destruct H as [H1 H2]. apply enums_loop_pc; assumption.
Qed.


Theorem reflect_ok_guarantees_any fs S :
  reflect D fs = Ok S ->
  keys_distinct S = true /\ set_importable S = true /\ set_closed S = true /\
  (forall k r, lookup S k = Some (Linked r) -> names_unique_b (root_props r) = true) /\
  (forall k, lookup S k <> Some Placeholder) /\ NoDup (map fst S).
Proof.
  intros HS. pose proof (reflect_final_weak fs) as H. rewrite HS in H. destruct H as [(H2 & H3) Hnp].
  assert (Hlinked : forall k e, In (k, e) S -> exists r, e = Linked r /\ root_wf r /\ refs_keyed S (root_refs r)).
  { intros k e Hin. pose proof (lookup_In S H3 k e Hin) as Hl. destruct e as [|r]; [exfalso; apply (Hnp k Hl)|].
    exists r. split; [reflexivity|]. apply (H2 k r Hl). }
  split; [apply keys_distinct_NoDup; exact H3|]. split; [|split; [|split; [|split; [exact Hnp|exact H3]]]].
  - unfold set_importable. apply forallb_forall. intros [k e] Hin. destruct (Hlinked k e Hin) as (r & -> & [_ Hi] & _). exact Hi.
  - unfold set_closed, refs_resolved. apply forallb_forall. intros [k e] Hin.
    destruct (Hlinked k e Hin) as (r & -> & _ & Hr). cbn [snd]. apply forallb_forall. intros k2 Hk2.
    specialize (Hr k2 Hk2). unfold has_key in Hr. destruct (lookup S k2) as [[|r2]|] eqn:E; try discriminate; [|reflexivity].
    exfalso. apply (Hnp k2 E).
  - intros k r Hl. destruct (H2 k r Hl) as [[Hn _] _]. apply nodup_str_NoDup. exact Hn.
Qed.

(* the entries of a reflected set satisfy what the round-trip theorems assume: for every descriptor set *)
Lemma reflect_entries_ok_any fs S :
  reflect D fs = Ok S ->
  export_set S = Ok (export_entries (linked_entries S)) /\
  NoDup (map fst (linked_entries S)) /\ all_importable (linked_entries S) /\ closed (linked_entries S).
Proof.
  intros HS.
  destruct (reflect_ok_guarantees_any fs S HS) as (Hkd & Himp & Hcl & _ & Hnp & Hnd).
  destruct (all_linked_entries S Hnp Hnd) as (E1 & E2 & E3).
  set (L := linked_entries S) in *.
  split; [exact E2|]. split; [rewrite E1; exact Hnd|]. split.
  - intros k r Hin. apply E3 in Hin. unfold set_importable in Himp.
    apply (proj1 (forallb_forall _ _) Himp (k, Linked r) Hin).
  - intros k Hk. unfold entry_refs in Hk. apply in_flat_map in Hk as ([k0 r0] & Hin0 & Hr). cbn [snd] in Hr.
    apply E3 in Hin0. unfold set_closed, refs_resolved in Hcl.
    pose proof (proj1 (forallb_forall _ _) Hcl (k0, Linked r0) Hin0) as H. cbn [snd] in H.
    pose proof (proj1 (forallb_forall _ _) H k Hr) as H2.
    cbn beta in H2. destruct (lookup S k) as [[|r2]|] eqn:El; try discriminate H2.
    rewrite E1. apply lookup_Some_In in El. apply (in_map fst) in El. exact El.
Qed.

End Weak.

Theorem reflect_export_import_roundtrip_any D fs S :
  reflect D fs = Ok S ->
  exists X, export_set S = Ok X /\
  exists S', import_api X = ROk S' /\
    (forall k x, In (k, x) X -> exists r', lookup S' k = Some (Linked r') /\ export_root r' = x) /\
    (forall k, ~ In k (map fst X) -> lookup S' k = None) /\
    refs_resolved S' = true.
Proof.
  intros HS. destruct (reflect_entries_ok_any D fs S HS) as (E2 & HndL & HimpL & HclL).
  exists (export_entries (linked_entries S)). split; [exact E2|].
  apply (export_import_roundtrip_perm (linked_entries S) _ (Permutation_refl _) HndL HimpL HclL).
Qed.

(* BclFmtDiffsIdemProofs.v — C09/C19: FmtDiffs on already formatted text.
   The formatter's output y is a fixed point of Fmt (BclFmtBytesProofs), so y is the joined text of
   the diffs ds that the second run computes from y itself.  FmtDiffs(y) compares, diff by diff,
   lines[from:to] of y with the diff's text.  This file proves: whenever the line numbers of ds
   agree with the line structure of their own texts ([aligned]: the first diff starts on line 0,
   every diff spans as many lines as its text has, the next starts where the previous ended or one
   line later), nothing is merged, no gap edit, no leading edit and no replacement is produced:
   FmtDiffs(y) = [].  [aligned] is a boolean function of ds. *)
From Coq Require Import String List NArith ZArith Bool Lia ZifyN ZifyNat ZifyBool.
From J5V.lib Require Import Text Outcome.
From J5V.model Require Import BclLexer BclParser BclFmt BclFmtAligned.
From J5V.proofs Require Import BclPosProofs BclLexerProofs BclLexerCoverProofs BclParserProofs BclWalkCoverProofs BclTextProofs BclFmtProofs
  BclFragWfProofs BclFmtFileProofs BclDescGapProofs BclFmtRoundProofs BclLineNoProofs BclWalkPosProofs BclWalkBackProofs BclFmtIdemProofs BclFmtBytesProofs.
Import ListNotations.
Local Open Scope Z_scope.
Arguments Nat.sub : simpl never.

(* ---- nothing is merged ------------------------------------------------------------------------- *)
Lemma merge_loop_aligned : forall ms c, aligned ms false (fd_to c) = true ->
  merge_loop ms (Some c) = c :: ms.
Proof.
  induction ms as [|m r IH]; intros c H; [reflexivity|].
  cbn [aligned] in H. apply andb_true_iff in H. destruct H as [H Hr].
  apply andb_true_iff in H. destruct H as [H Hto]. apply andb_true_iff in H. destruct H as [Hfrom Hn].
  cbn [merge_loop]. replace (fd_from m <? fd_to c) with false by lia.
  f_equal. apply IH. exact Hr.
Qed.

Lemma merge_diffs_aligned ms : aligned ms true (-1) = true -> merge_diffs ms = ms.
Proof.
  destruct ms as [|m r]; [reflexivity|]. intros H. unfold merge_diffs. cbn [merge_loop].
  cbn [aligned] in H. apply andb_true_iff in H. destruct H as [_ Hr]. apply merge_loop_aligned. exact Hr.
Qed.

(* ---- lines[from:to] of a document given as three pieces --------------------------------------- *)
Lemma range_lines_mid pre mid post a b : Z.of_nat (length pre) = a -> b = a + Z.of_nat (length mid) ->
  range_lines (pre ++ mid ++ post) a b = Ok (join_with 10 mid ++ [10%N]).
Proof.
  intros Ha Hb. unfold range_lines. rewrite !app_length.
  replace ((a <? 0) || (b <? a) || (Z.of_nat (length pre + (length mid + length post)) <? b))%bool with false by lia.
  f_equal. f_equal. f_equal.
  replace (Z.to_nat a) with (length pre) by lia. replace (Z.to_nat (b - a)) with (length mid) by lia.
  rewrite skipn_app, skipn_all, Nat.sub_diag. cbn [skipn app].
  rewrite firstn_app, firstn_all, Nat.sub_diag. cbn [firstn]. apply app_nil_r.
Qed.

Lemma wf_text_join t : wf_text t -> join_with 10 (text_lines t) ++ [10%N] = t.
Proof. intros [x ->]. rewrite text_lines_snoc, join_split. reflexivity. Qed.

Lemma list_N_eqb_refl a : list_N_eqb a a = true.
Proof. apply list_N_eqb_eq. reflexivity. Qed.

(* ---- the loop ------------------------------------------------------------------------------------ *)
Lemma diffs_loop_aligned : forall ms first le pre post,
  Forall (fun m => wf_text (utf8_encode (fd_text m))) ms ->
  aligned ms first le = true ->
  (first = true -> pre = []) -> (first = false -> Z.of_nat (length pre) = le) ->
  diffs_loop (pre ++ fmt_lines ms first le ++ post) ms first le = Ok [].
Proof.
  induction ms as [|m r IH]; intros first le pre post Hw Ha Hp1 Hp2; [reflexivity|].
  inversion Hw as [|x l Hm Hr]; subst.
  cbn [aligned] in Ha. apply andb_true_iff in Ha. destruct Ha as [Ha Har].
  apply andb_true_iff in Ha. destruct Ha as [Ha Hto]. apply andb_true_iff in Ha. destruct Ha as [Hfrom Hn].
  cbn [diffs_loop fmt_lines]. set (T := utf8_encode (fd_text m)) in *.
  set (blank := (if (negb first && (le <? fd_from m))%bool then [[]] else []) : list (list N)).
  assert (Hlen : Z.of_nat (length (pre ++ blank)) = fd_from m).
  { rewrite app_length. unfold blank. destruct first.
    - rewrite (Hp1 eq_refl). cbn. lia.
    - specialize (Hp2 eq_refl). cbn [negb andb]. destruct (le <? fd_from m) eqn:E; cbn [length]; lia. }
  (* the existing text of the diff's range *)
  assert (Hex : range_lines (pre ++ (blank ++ text_lines T ++ fmt_lines r false (fd_to m)) ++ post) (fd_from m) (fd_to m) = Ok T).
  { replace (pre ++ (blank ++ text_lines T ++ fmt_lines r false (fd_to m)) ++ post)
      with ((pre ++ blank) ++ text_lines T ++ (fmt_lines r false (fd_to m) ++ post)) by (rewrite <- !app_assoc; reflexivity).
    rewrite (range_lines_mid _ _ _ (fd_from m) (fd_to m) Hlen) by (unfold fd_nlines in *; fold T in Hto; lia).
    f_equal. apply wf_text_join. exact Hm. }
  (* what precedes it *)
  assert (Hpre : (if first then Ok (if (0 <? fd_from m) then [mkEdit 0 (fd_from m) []] else [])
                  else if (le <? fd_from m) then
                    obind (range_lines (pre ++ (blank ++ text_lines T ++ fmt_lines r false (fd_to m)) ++ post) le (fd_from m))
                      (fun gap => Ok (if list_N_eqb gap [10%N] then [] else [mkEdit le (fd_from m) [10%N]]))
                  else Ok []) = Ok []).
  { destruct first.
    - replace (0 <? fd_from m) with false by lia. reflexivity.
    - specialize (Hp2 eq_refl). destruct (le <? fd_from m) eqn:E; [|reflexivity].
      unfold blank. cbn [negb andb]. rewrite ?E.
      replace (pre ++ ([[]] ++ text_lines T ++ fmt_lines r false (fd_to m)) ++ post)
        with (pre ++ [[]] ++ ((text_lines T ++ fmt_lines r false (fd_to m)) ++ post)) by (rewrite <- !app_assoc; reflexivity).
      rewrite (range_lines_mid pre [[]] _ le (fd_from m) Hp2) by (cbn [length]; lia).
      reflexivity. }
  fold blank. rewrite Hpre. cbn [obind]. rewrite Hex. cbn [obind]. fold T. rewrite list_N_eqb_refl.
  replace (pre ++ (blank ++ text_lines T ++ fmt_lines r false (fd_to m)) ++ post)
    with ((pre ++ blank ++ text_lines T) ++ fmt_lines r false (fd_to m) ++ post) by (rewrite <- !app_assoc; reflexivity).
  rewrite (IH false (fd_to m) (pre ++ blank ++ text_lines T) post Hr Har).
  - reflexivity.
  - intros H. discriminate.
  - intros _. rewrite app_assoc, app_length. unfold fd_nlines in *. fold T in Hto. lia.
Qed.

Theorem fmt_diffs_of_aligned ms :
  Forall (fun m => wf_text (utf8_encode (fd_text m))) ms ->
  aligned ms true (-1) = true ->
  fmt_diffs_of (utf8_encode (fmt_join ms true (-1))) ms = Ok [].
Proof.
  intros Hw Ha. unfold fmt_diffs_of. rewrite (merge_diffs_aligned ms Ha).
  rewrite fmt_join_enc, (fmt_join_lines ms true (-1) Hw).
  apply (diffs_loop_aligned ms true (-1) [] [[]] Hw Ha); [reflexivity|intros H; discriminate].
Qed.

(* ---- the formatter's output ----------------------------------------------------------------------- *)
(* the full statement: FmtDiffs of formatted text is the empty edit list *)
Definition fmt_diffs_idem_full_statement : Prop :=
  forall x y, fmt_bytes x = Ok y -> fmt_diffs y = Ok [].

(* proved: the output y is the joined text of the diffs the second run computes from y, FmtDiffs(y)
   never fails, and it is empty whenever those diffs' line numbers are aligned with their texts *)
Theorem fmt_diffs_idem_partial x y : fmt_bytes x = Ok y ->
  exists ds, collect_fmt (utf8_decode y) = Ok ds /\ y = utf8_encode (fmt_join ds true (-1)) /\
             (aligned ds true (-1) = true -> fmt_diffs y = Ok []).
Proof.
  intros H. pose proof (fmt_bytes_idempotent x y H) as Hy.
  unfold fmt_bytes, fmt_runes in Hy.
  destruct (collect_fmt (utf8_decode y)) as [ds|e|p|] eqn:Hc; try discriminate.
  cbn [omap] in Hy. injection Hy as Hy. exists ds. split; [reflexivity|]. split; [symmetry; exact Hy|].
  intros Ha. unfold fmt_diffs. rewrite Hc. cbn [obind]. rewrite <- Hy at 1.
  apply fmt_diffs_of_aligned; [|exact Ha].
  unfold collect_fmt in Hc. destruct (collect_fragments (utf8_decode y)) as [fs|e|p|]; try discriminate.
  cbn [omap] in Hc. injection Hc as <-. apply diff_file_wf_text.
Qed.

(* the statement for any document that is the joined text of aligned diffs (no parser involved) *)
Theorem fmt_diffs_idem_of_aligned y ds : collect_fmt (utf8_decode y) = Ok ds ->
  y = utf8_encode (fmt_join ds true (-1)) -> aligned ds true (-1) = true -> fmt_diffs y = Ok [].
Proof.
  intros Hc Hy Ha. unfold fmt_diffs. rewrite Hc. cbn [obind]. rewrite Hy.
  apply fmt_diffs_of_aligned; [|exact Ha].
  unfold collect_fmt in Hc. destruct (collect_fragments (utf8_decode y)) as [fs|e|p|]; try discriminate.
  cbn [omap] in Hc. injection Hc as <-. apply diff_file_wf_text.
Qed.

(* ---- the start lines of the second run's diffs ARE aligned (BclWalkPosProofs) -------------------- *)
(* what remains of [aligned] once the start lines are known: every diff spans the lines of its text *)
Fixpoint rel_ft (V : Z) (ps : list (Z * Z)) (bs : list bool) : Prop :=
  match ps, bs with
  | [], [] => True
  | (a, b) :: pr, fl :: br => a = V + (if fl then 1 else 0) /\ rel_ft b pr br
  | _, _ => False
  end.

Lemma lines_rel_ft : forall fs' es V, lines_rel V fs' es ->
  rel_ft V (map (fun f => (fst (frag_start f), fst (frag_end f) + 1)) fs') (map fst es).
Proof.
  induction fs' as [|f r IH]; intros [|[b e] er] V H; cbn [lines_rel] in H; try contradiction; [exact I|].
  destruct H as [H1 H2]. cbn [map fst rel_ft]. split; [exact H1|]. apply IH. exact H2.
Qed.

Lemma entries_first_flag fs n last : match map fst (entries fs n true last) with [] => True | b :: _ => b = false end.
Proof. destruct fs as [|f r]; [exact I|]. destruct f; reflexivity. Qed.

Lemma wf_text_nlines m : wf_text (utf8_encode (fd_text m)) -> 0 < fd_nlines m.
Proof.
  intros [x Hx]. unfold fd_nlines. rewrite Hx, text_lines_snoc, split_on_length. lia.
Qed.

Lemma rel_ft_aligned : forall ms bs V first le,
  rel_ft V (map (fun d => (fd_from d, fd_to d)) ms) bs ->
  (first = true -> V = 0 /\ match bs with [] => True | b :: _ => b = false end) ->
  (first = false -> le = V) ->
  Forall (fun m => wf_text (utf8_encode (fd_text m))) ms -> extent_ok ms = true ->
  aligned ms first le = true.
Proof.
  induction ms as [|m r IH]; intros bs V first le Hrel Hf1 Hf2 Hw He; [reflexivity|].
  destruct bs as [|fl br]; cbn [map rel_ft] in Hrel; [contradiction|]. destruct Hrel as [Hfrom Hrest].
  inversion Hw as [|x l Hm Hr]; subst. cbn [extent_ok forallb] in He. apply andb_true_iff in He. destruct He as [He Her].
  pose proof (wf_text_nlines m Hm) as Hpos.
  cbn [aligned]. rewrite He. replace (0 <? fd_nlines m) with true by lia.
  rewrite (IH br (fd_to m) false (fd_to m) Hrest); [| intros H; discriminate | reflexivity | exact Hr | exact Her].
  rewrite !andb_true_r. destruct first.
  - destruct (Hf1 eq_refl) as [HV Hb]. subst fl. lia.
  - rewrite (Hf2 eq_refl). destruct fl; lia.
Qed.

(* the second run on the formatter's output, with the positions of the fragments read back *)
Theorem fmt_output_reread data fs : collect_fragments data = Ok fs ->
  exists fs', collect_fragments (fmt_join (diff_file fs 0) true (-1)) = Ok fs' /\
              fmt_join (diff_file fs' 0) true (-1) = fmt_join (diff_file fs 0) true (-1) /\
              lines_rel 0 fs' (entries fs 0 true (-1)).
Proof.
  intros Hc. set (out := fmt_join (diff_file fs 0) true (-1)).
  pose proof (collect_fragments_lx data fs Hc) as Hlx. pose proof (collect_fragments_gap data fs Hc) as Hgap.
  destruct (fmt_output_tokens fs Hlx) as (ts & Hlex & Hts). fold out in Hlex.
  pose proof (entries_stream_ok fs 0 true (-1) Hlx Hgap) as Hok.
  pose proof (all_tokens_ok true out) as Hch. rewrite Hlex in Hch.
  destruct (all_tokens_cover true out ts Hlex) as [Hlc _].
  pose proof (all_tokens_vchain true out ts Hlex) as Hvc.
  assert (Hwok : wst_ok out (mkW ts None)).
  { split; [apply valid_pos0|]. split; [apply schain_chain, Hch|]. intros p Hp. discriminate. }
  destruct (walk_stream_pos out (entries fs 0 true (-1)) (S (length ts)) (mkW ts None) Hok) as (fs' & Hw & Hdocs & Hlines);
    [rewrite pt_mk; exact Hts|exact Hwok|exact Hlc|exact Hvc|cbn; lia|].
  assert (Hc' : collect_fragments out = Ok fs').
  { unfold collect_fragments. rewrite Hlex. unfold walk_fragments. rewrite Hw. reflexivity. }
  pose proof (collect_fragments_lx out fs' Hc') as Hlx'.
  exists fs'. split; [exact Hc'|]. split; [|exact Hlines].
  apply (fmt_join_again fs fs' 0 true (-1) 0 (-1) Hlx Hlx' Hdocs Hlines). intros H. discriminate.
Qed.

(* FmtDiffs of the formatter's output: empty as soon as every diff of the second run spans exactly the
   lines of its own text *)
Theorem fmt_diffs_idem_extent x y : fmt_bytes x = Ok y ->
  exists ds, collect_fmt (utf8_decode y) = Ok ds /\ y = utf8_encode (fmt_join ds true (-1)) /\
             (extent_ok ds = true -> fmt_diffs y = Ok []).
Proof.
  intros H. destruct (fmt_bytes_runes x y H) as (out & Hout & Hy & Hdec).
  unfold fmt_runes, collect_fmt in Hout.
  destruct (collect_fragments (utf8_decode x)) as [fs|e|p|] eqn:Hc; try discriminate.
  cbn [omap] in Hout. injection Hout as Hout.
  destruct (fmt_output_reread _ fs Hc) as (fs' & Hc' & Hjoin & Hlines). rewrite Hout in Hc', Hjoin.
  assert (Hcf : collect_fmt (utf8_decode y) = Ok (diff_file fs' 0)).
  { rewrite Hdec. unfold collect_fmt. rewrite Hc'. reflexivity. }
  exists (diff_file fs' 0). split; [exact Hcf|]. split; [rewrite Hjoin; exact Hy|].
  intros He. apply (fmt_diffs_idem_of_aligned y _ Hcf); [rewrite Hjoin; exact Hy|].
  apply (rel_ft_aligned _ (map fst (entries fs 0 true (-1))) 0 true (-1)).
  - rewrite diff_file_from_to. apply lines_rel_ft. exact Hlines.
  - intros _. split; [reflexivity|apply entries_first_flag].
  - intros H0. discriminate.
  - apply diff_file_wf_text.
  - exact He.
Qed.

(* BclFmtDiffsIdemProofs.v — C09/C19: FmtDiffs on already formatted text.
   The formatter's output y is a fixed point of Fmt (BclFmtBytesProofs), so y is the joined text of
   the diffs ds that the second run computes from y itself.  FmtDiffs(y) compares, diff by diff,
   lines[from:to] of y with the diff's text.  This file proves: whenever the line numbers of ds
   agree with the line structure of their own texts ([aligned]: the first diff starts on line 0,
   every diff spans as many lines as its text has, the next starts where the previous ended or one
   line later), nothing is merged, no gap edit, no leading edit and no replacement is produced:
   FmtDiffs(y) = [].  [aligned] is a boolean function of ds. *)
From Coq Require Import String List NArith ZArith Bool Lia ZifyN ZifyNat ZifyBool.
From J5V.lib Require Import Text Outcome.
From J5V.model Require Import BclLexer BclParser BclFmt.
From J5V.proofs Require Import BclTextProofs BclFmtProofs BclFmtBytesProofs.
Import ListNotations.
Local Open Scope Z_scope.
Arguments Nat.sub : simpl never.

(* number of lines of a diff's (byte) text *)
Definition fd_nlines (m : fdiff) : Z := Z.of_nat (length (text_lines (utf8_encode (fd_text m)))).

Fixpoint aligned (ms : list fdiff) (first : bool) (le : Z) : bool :=
  match ms with
  | [] => true
  | m :: r =>
    (if first then fd_from m =? 0 else (fd_from m =? le) || (fd_from m =? le + 1))
    && (0 <? fd_nlines m) && (fd_to m =? fd_from m + fd_nlines m)
    && aligned r false (fd_to m)
  end.

(* ---- nothing is merged ------------------------------------------------------------------------- *)
Lemma merge_loop_aligned : forall ms c, aligned ms false (fd_to c) = true ->
  merge_loop ms (Some c) = c :: ms.
Proof.
  induction ms as [|m r IH]; intros c H; [reflexivity|].
  cbn [aligned] in H. apply andb_true_iff in H. destruct H as [H Hr].
  apply andb_true_iff in H. destruct H as [H Hto]. apply andb_true_iff in H. destruct H as [Hfrom Hn].
  cbn [merge_loop]. replace (fd_from m <? fd_to c) with false by lia.
  f_equal. apply IH. exact Hr.
Qed.

Lemma merge_diffs_aligned ms : aligned ms true (-1) = true -> merge_diffs ms = ms.
Proof.
  destruct ms as [|m r]; [reflexivity|]. intros H. unfold merge_diffs. cbn [merge_loop].
  cbn [aligned] in H. apply andb_true_iff in H. destruct H as [_ Hr]. apply merge_loop_aligned. exact Hr.
Qed.

(* ---- lines[from:to] of a document given as three pieces --------------------------------------- *)
Lemma range_lines_mid pre mid post a b : Z.of_nat (length pre) = a -> b = a + Z.of_nat (length mid) ->
  range_lines (pre ++ mid ++ post) a b = Ok (join_with 10 mid ++ [10%N]).
Proof.
  intros Ha Hb. unfold range_lines. rewrite !app_length.
  replace ((a <? 0) || (b <? a) || (Z.of_nat (length pre + (length mid + length post)) <? b))%bool with false by lia.
  f_equal. f_equal. f_equal.
  replace (Z.to_nat a) with (length pre) by lia. replace (Z.to_nat (b - a)) with (length mid) by lia.
  rewrite skipn_app, skipn_all, Nat.sub_diag. cbn [skipn app].
  rewrite firstn_app, firstn_all, Nat.sub_diag. cbn [firstn]. apply app_nil_r.
Qed.

Lemma wf_text_join t : wf_text t -> join_with 10 (text_lines t) ++ [10%N] = t.
Proof. intros [x ->]. rewrite text_lines_snoc, join_split. reflexivity. Qed.

Lemma list_N_eqb_refl a : list_N_eqb a a = true.
Proof. apply list_N_eqb_eq. reflexivity. Qed.

(* ---- the loop ------------------------------------------------------------------------------------ *)
Lemma diffs_loop_aligned : forall ms first le pre post,
  Forall (fun m => wf_text (utf8_encode (fd_text m))) ms ->
  aligned ms first le = true ->
  (first = true -> pre = []) -> (first = false -> Z.of_nat (length pre) = le) ->
  diffs_loop (pre ++ fmt_lines ms first le ++ post) ms first le = Ok [].
Proof.
  induction ms as [|m r IH]; intros first le pre post Hw Ha Hp1 Hp2; [reflexivity|].
  inversion Hw as [|x l Hm Hr]; subst.
  cbn [aligned] in Ha. apply andb_true_iff in Ha. destruct Ha as [Ha Har].
  apply andb_true_iff in Ha. destruct Ha as [Ha Hto]. apply andb_true_iff in Ha. destruct Ha as [Hfrom Hn].
  cbn [diffs_loop fmt_lines]. set (T := utf8_encode (fd_text m)) in *.
  set (blank := (if (negb first && (le <? fd_from m))%bool then [[]] else []) : list (list N)).
  assert (Hlen : Z.of_nat (length (pre ++ blank)) = fd_from m).
  { rewrite app_length. unfold blank. destruct first.
    - rewrite (Hp1 eq_refl). cbn. lia.
    - specialize (Hp2 eq_refl). cbn [negb andb]. destruct (le <? fd_from m) eqn:E; cbn [length]; lia. }
  (* the existing text of the diff's range *)
  assert (Hex : range_lines (pre ++ (blank ++ text_lines T ++ fmt_lines r false (fd_to m)) ++ post) (fd_from m) (fd_to m) = Ok T).
  { replace (pre ++ (blank ++ text_lines T ++ fmt_lines r false (fd_to m)) ++ post)
      with ((pre ++ blank) ++ text_lines T ++ (fmt_lines r false (fd_to m) ++ post)) by (rewrite <- !app_assoc; reflexivity).
    rewrite (range_lines_mid _ _ _ (fd_from m) (fd_to m) Hlen) by (unfold fd_nlines in *; fold T in Hto; lia).
    f_equal. apply wf_text_join. exact Hm. }
  (* what precedes it *)
  assert (Hpre : (if first then Ok (if (0 <? fd_from m) then [mkEdit 0 (fd_from m) []] else [])
                  else if (le <? fd_from m) then
                    obind (range_lines (pre ++ (blank ++ text_lines T ++ fmt_lines r false (fd_to m)) ++ post) le (fd_from m))
                      (fun gap => Ok (if list_N_eqb gap [10%N] then [] else [mkEdit le (fd_from m) [10%N]]))
                  else Ok []) = Ok []).
  { destruct first.
    - replace (0 <? fd_from m) with false by lia. reflexivity.
    - specialize (Hp2 eq_refl). destruct (le <? fd_from m) eqn:E; [|reflexivity].
      unfold blank. cbn [negb andb]. rewrite ?E.
      replace (pre ++ ([[]] ++ text_lines T ++ fmt_lines r false (fd_to m)) ++ post)
        with (pre ++ [[]] ++ ((text_lines T ++ fmt_lines r false (fd_to m)) ++ post)) by (rewrite <- !app_assoc; reflexivity).
      rewrite (range_lines_mid pre [[]] _ le (fd_from m) Hp2) by (cbn [length]; lia).
      reflexivity. }
  fold blank. rewrite Hpre. cbn [obind]. rewrite Hex. cbn [obind]. fold T. rewrite list_N_eqb_refl.
  replace (pre ++ (blank ++ text_lines T ++ fmt_lines r false (fd_to m)) ++ post)
    with ((pre ++ blank ++ text_lines T) ++ fmt_lines r false (fd_to m) ++ post) by (rewrite <- !app_assoc; reflexivity).
  rewrite (IH false (fd_to m) (pre ++ blank ++ text_lines T) post Hr Har).
  - reflexivity.
  - intros H. discriminate.
  - intros _. rewrite app_assoc, app_length. unfold fd_nlines in *. fold T in Hto. lia.
Qed.

Theorem fmt_diffs_of_aligned ms :
  Forall (fun m => wf_text (utf8_encode (fd_text m))) ms ->
  aligned ms true (-1) = true ->
  fmt_diffs_of (utf8_encode (fmt_join ms true (-1))) ms = Ok [].
Proof.
  intros Hw Ha. unfold fmt_diffs_of. rewrite (merge_diffs_aligned ms Ha).
  rewrite fmt_join_enc, (fmt_join_lines ms true (-1) Hw).
  apply (diffs_loop_aligned ms true (-1) [] [[]] Hw Ha); [reflexivity|intros H; discriminate].
Qed.

(* ---- the formatter's output ----------------------------------------------------------------------- *)
(* the full statement: FmtDiffs of formatted text is the empty edit list *)
Definition fmt_diffs_idem_full_statement : Prop :=
  forall x y, fmt_bytes x = Ok y -> fmt_diffs y = Ok [].

(* proved: the output y is the joined text of the diffs the second run computes from y, FmtDiffs(y)
   never fails, and it is empty whenever those diffs' line numbers are aligned with their texts *)
Theorem fmt_diffs_idem_partial x y : fmt_bytes x = Ok y ->
  exists ds, collect_fmt (utf8_decode y) = Ok ds /\ y = utf8_encode (fmt_join ds true (-1)) /\
             (aligned ds true (-1) = true -> fmt_diffs y = Ok []).
Proof.
  intros H. pose proof (fmt_bytes_idempotent x y H) as Hy.
  unfold fmt_bytes, fmt_runes in Hy.
  destruct (collect_fmt (utf8_decode y)) as [ds|e|p|] eqn:Hc; try discriminate.
  cbn [omap] in Hy. injection Hy as Hy. exists ds. split; [reflexivity|]. split; [symmetry; exact Hy|].
  intros Ha. unfold fmt_diffs. rewrite Hc. cbn [obind]. rewrite <- Hy at 1.
  apply fmt_diffs_of_aligned; [|exact Ha].
  unfold collect_fmt in Hc. destruct (collect_fragments (utf8_decode y)) as [fs|e|p|]; try discriminate.
  cbn [omap] in Hc. injection Hc as <-. apply diff_file_wf_text.
Qed.

(* the statement for any document that is the joined text of aligned diffs (no parser involved) *)
Theorem fmt_diffs_idem_of_aligned y ds : collect_fmt (utf8_decode y) = Ok ds ->
  y = utf8_encode (fmt_join ds true (-1)) -> aligned ds true (-1) = true -> fmt_diffs y = Ok [].
Proof.
  intros Hc Hy Ha. unfold fmt_diffs. rewrite Hc. cbn [obind]. rewrite Hy.
  apply fmt_diffs_of_aligned; [|exact Ha].
  unfold collect_fmt in Hc. destruct (collect_fragments (utf8_decode y)) as [fs|e|p|]; try discriminate.
  cbn [omap] in Hc. injection Hc as <-. apply diff_file_wf_text.
Qed.

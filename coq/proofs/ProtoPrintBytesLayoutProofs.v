(* ProtoPrintBytesLayoutProofs.v — towards "is_layout (tokens D) (render_bytes D)" as a LEMMA (C05 byte level).
   Framework: (1) a line given as tokens with whitespace-only separators (empty where the next token's first byte
   ends the token) is a layout step [items_line]; (2) the writer of model/ProtoPrintBytes.v: every wp / wend appends
   "optional empty line, indentation, line, newline", so a state transformer that writes lines whose tokens are ts
   extends any layout by ts [T_wp, T_wgap, T_wend, T_comp, T_wfold, T_final]. *)
From Coq Require Import String List NArith ZArith Bool Lia.
From J5V.lib Require Import Outcome Corr.
From J5V.model Require Import ProtoPrintLit ProtoPrint ProtoLex ProtoLayout ProtoPrintCorr ProtoPrintFile
  ProtoPrintFileErase ProtoPrintBytes.
From J5V.proofs Require Import ProtoLexProofs.
Import ListNotations.
Local Open Scope N_scope.

(* ---------------------------------------------------------------- whitespace in front *)
Lemma eat_sep_ws ws s : forallb is_ws ws = true -> eat_sep false (ws ++ s) = eat_sep false s.
Proof.
  induction ws as [|a ws IH]; intro H; [reflexivity|]. cbn [forallb] in H. apply andb_prop in H. destruct H as [Ha Hw].
  cbn [app eat_sep]. rewrite Ha. exact (IH Hw).
Qed.

Lemma is_layout_ws ts ws s : forallb is_ws ws = true -> is_layout ts (ws ++ s) = is_layout ts s.
Proof. intro H. destruct ts as [|t ts]; cbn [is_layout]; rewrite (eat_sep_ws ws s H); reflexivity. Qed.

Lemma ws_cases c : is_ws c = true -> c = 10 \/ c = 13 \/ c = 9 \/ c = 12 \/ c = 11 \/ c = 32.
Proof.
  unfold is_ws. intro H. repeat (apply orb_prop in H; destruct H as [H|H]); apply N.eqb_eq in H; tauto.
Qed.

Lemma boundary_sep t c r : is_ident_char c = false -> is_num_char c = false -> is_digit c = false ->
  boundary t (c :: r) = true.
Proof.
  intros H1 H2 H3. destruct t as [s|s| | | | | | | | | | | | | |x|x]; cbn [boundary head_is]; rewrite ?H1, ?H2, ?H3; try reflexivity.
  destruct (classify_lit s); rewrite ?H1, ?H2, ?H3; reflexivity.
Qed.

Lemma boundary_ws t c r : is_ws c = true -> boundary t (c :: r) = true.
Proof.
  intro H. apply ws_cases in H.
  destruct H as [H|[H|[H|[H|[H|H]]]]]; subst c; apply boundary_sep; reflexivity.
Qed.

Lemma boundary_head t c a b : boundary t (c :: a) = boundary t (c :: b).
Proof. destruct t as [s|s| | | | | | | | | | | | | |x|x]; cbn [boundary head_is]; reflexivity. Qed.

(* ---------------------------------------------------------------- a line as tokens + separators *)
Definition item := (token * list N)%type.
Definition items_text (l : list item) : list N := flat_map (fun p => tok_text (fst p) ++ snd p) l.

Fixpoint items_ok (l : list item) : bool :=
  match l with
  | [] => true
  | p :: r =>
      tok_ok (fst p) && forallb is_ws (snd p)
      && match snd p, r with
         | [], q :: _ => match tok_text (fst q) with c :: x => boundary (fst p) (c :: x) | [] => false end
         | _, _ => true
         end
      && items_ok r
  end.

(* a line: its text followed by the newline extends every layout by its tokens *)
Definition Lline (ts : list token) (s : list N) : Prop :=
  forall ts' rest, is_layout ts' rest = true -> is_layout (ts ++ ts') (s ++ 10 :: rest) = true.

Lemma Lline_nil : Lline [] [].
Proof. intros ts' rest H. cbn [app]. change (10 :: rest) with ([10] ++ rest). rewrite (is_layout_ws ts' [10] rest eq_refl). exact H. Qed.

Lemma items_line l : items_ok l = true -> Lline (map fst l) (items_text l).
Proof.
  induction l as [|[t sep] r IH]; intro H; [exact Lline_nil|].
  cbn [items_ok fst snd] in H. apply andb_prop in H. destruct H as [H Hr]. apply andb_prop in H. destruct H as [H Hb].
  apply andb_prop in H. destruct H as [Ht Hs].
  intros ts' rest Hrest. cbn [map fst app items_text flat_map snd is_layout].
  rewrite <- !app_assoc. rewrite (eat_sep_tok t _ Ht), strip_prefix_self. rewrite Ht. cbn [andb].
  apply andb_true_intro. split.
  - destruct sep as [|c sep'].
    + cbn [app]. destruct r as [|[t2 sep2] r'].
      * cbn [flat_map app]. apply boundary_ws. reflexivity.
      * cbn [fst] in Hb. cbn [flat_map fst snd]. destruct (tok_text t2) as [|c x]; [discriminate|].
        rewrite <- !app_assoc. cbn [app]. rewrite (boundary_head t c _ x). exact Hb.
    + cbn [forallb] in Hs. apply andb_prop in Hs. destruct Hs as [Hc _]. cbn [app]. apply boundary_ws. exact Hc.
  - rewrite (is_layout_ws _ sep _ Hs). exact (IH Hr ts' rest Hrest).
Qed.

(* a // comment line *)
Lemma eat_cmt gen rest : gen_ok gen = true -> eat_sep true (gen ++ 10 :: rest) = eat_sep false rest.
Proof.
  unfold gen_ok. induction gen as [|c g IH]; intro H.
  - reflexivity.
  - cbn [forallb] in H. apply andb_prop in H. destruct H as [Hc Hg]. apply andb_prop in Hc. destruct Hc as [H10 H0].
    cbn [app eat_sep]. apply negb_true_iff in H10. apply negb_true_iff in H0. rewrite H10, H0. exact (IH Hg).
Qed.

Lemma Lline_comment gen : gen_ok gen = true -> Lline [] (sb "// " ++ gen).
Proof.
  intros Hg ts' rest H. cbn [app].
  assert (E : eat_sep false ((sb "// " ++ gen) ++ 10 :: rest) = eat_sep false rest).
  { rewrite <- app_assoc. change (sb "// " ++ gen ++ 10 :: rest) with (47 :: 47 :: 32 :: (gen ++ 10 :: rest)).
    cbn [eat_sep is_ws N.eqb Pos.eqb orb]. exact (eat_cmt gen rest Hg). }
  destruct ts' as [|t ts']; cbn [is_layout] in H |- *; rewrite E; exact H.
Qed.

(* ---------------------------------------------------------------- the writer *)
Lemma indent_ws n : forallb is_ws (indent_bytes n) = true.
Proof. unfold indent_bytes. induction (2 * n)%nat as [|k IH]; [reflexivity|]. cbn [repeat forallb]. rewrite IH. reflexivity. Qed.

Lemma wbytes_wp ind s w :
  wbytes (wp ind s w) = wbytes w ++ (if snd w then [10] else []) ++ indent_bytes ind ++ s ++ [10].
Proof.
  destruct w as [ls g]. unfold wbytes, wp. cbn [fst snd]. destruct g; cbn [rev].
  - rewrite !flat_map_app. cbn [flat_map app]. rewrite !app_nil_r, <- !app_assoc. reflexivity.
  - rewrite !flat_map_app. cbn [flat_map app]. rewrite !app_nil_r, <- !app_assoc. reflexivity.
Qed.

Definition W (ts0 : list token) (w : wst) : Prop :=
  forall ts' rest, is_layout ts' rest = true -> is_layout (ts0 ++ ts') (wbytes w ++ rest) = true.
Definition T (ts : list token) (f : wst -> wst) : Prop := forall ts0 w, W ts0 w -> W (ts0 ++ ts) (f w).

Lemma T_wp ts ind s : Lline ts s -> T ts (wp ind s).
Proof.
  intros HL ts0 w HW ts' rest Hr. rewrite wbytes_wp, <- !app_assoc. apply HW.
  rewrite is_layout_ws by (destruct (snd w); reflexivity).
  rewrite is_layout_ws by apply indent_ws. cbn [app]. exact (HL ts' rest Hr).
Qed.

Lemma T_wgap : T [] wgap.
Proof. intros ts0 w HW. rewrite app_nil_r. exact HW. Qed.

Lemma T_wend ts ind s : Lline ts s -> T ts (wend ind s).
Proof. intros HL ts0 w HW. unfold wend. apply (T_wp ts ind s HL). exact HW. Qed.

Lemma T_id : T [] (fun w => w).
Proof. intros ts0 w HW. rewrite app_nil_r. exact HW. Qed.

Lemma T_comp a b f g : T a f -> T b g -> T (a ++ b) (fun w => g (f w)).
Proof. intros Hf Hg ts0 w HW. rewrite app_assoc. apply Hg. apply Hf. exact HW. Qed.

Lemma T_wfold {A} (tk : A -> list token) (f : A -> wst -> wst) l :
  (forall x, In x l -> T (tk x) (f x)) -> T (flat_map tk l) (wfold f l).
Proof.
  induction l as [|x l IH]; intro H; [exact T_id|].
  cbn [flat_map]. unfold wfold. cbn [fold_left].
  apply (T_comp (tk x) (flat_map tk l) (f x) (wfold f l)); [apply H; left; reflexivity|].
  apply IH. intros y Hy. apply H. right. exact Hy.
Qed.

Lemma T_final ts f : T ts f -> is_layout ts (wbytes (f ([], false))) = true.
Proof.
  intro HT. assert (HW : W [] ([], false)) by (intros ts' rest H; exact H).
  specialize (HT [] _ HW [] [] eq_refl). cbn [app] in HT. rewrite !app_nil_r in HT. exact HT.
Qed.

(* ---------------------------------------------------------------- dotted names *)
Fixpoint dot_items (q : list ident) (last : list N) : list item :=
  match q with
  | [] => []
  | b :: r => match r with
              | [] => [(TDot, []); (TIdent b, last)]
              | _ => (TDot, []) :: (TIdent b, []) :: dot_items r last
              end
  end.
Definition qname_items (q : list ident) (last : list N) : list item :=
  match q with
  | [] => []
  | a :: r => match r with [] => [(TIdent a, last)] | _ => (TIdent a, []) :: dot_items r last end
  end.

Lemma dot_items_tokens last : forall q, map fst (dot_items q last) = emit_dots q.
Proof. induction q as [|b r IH]; [reflexivity|]. cbn [dot_items emit_dots]. destruct r as [|b2 r']; [reflexivity|]. cbn [map fst]. rewrite IH. reflexivity. Qed.

Lemma qname_items_tokens last q : map fst (qname_items q last) = emit_qname q.
Proof. destruct q as [|a r]; [reflexivity|]. cbn [qname_items emit_qname]. destruct r as [|b r']; [reflexivity|]. cbn [map fst]. rewrite dot_items_tokens. reflexivity. Qed.

Lemma dot_items_text last : forall q, q <> [] -> items_text (dot_items q last) = 46 :: join_dot q ++ last.
Proof.
  induction q as [|b r IH]; intro Hq; [contradiction|]. cbn [dot_items join_dot]. destruct r as [|b2 r'].
  - cbn. rewrite app_nil_r. reflexivity.
  - unfold items_text in *. cbn [flat_map fst snd tok_text punct_char app]. rewrite IH by discriminate.
    rewrite app_nil_r, <- app_assoc. reflexivity.
Qed.

Lemma qname_items_text last q : q <> [] -> items_text (qname_items q last) = join_dot q ++ last.
Proof.
  destruct q as [|a r]; intro Hq; [contradiction|]. cbn [qname_items join_dot]. destruct r as [|b r'].
  - cbn. rewrite app_nil_r. reflexivity.
  - unfold items_text. cbn [flat_map fst snd tok_text app]. fold (items_text (dot_items (b :: r') last)).
    rewrite dot_items_text by discriminate. rewrite app_nil_r, <- app_assoc. reflexivity.
Qed.

Lemma ident_head b : is_ident b = true -> exists c x, b = c :: x /\ is_digit c = false.
Proof.
  destruct b as [|c x]; [discriminate|]. cbn [is_ident]. intro H. apply andb_prop in H. destruct H as [H _].
  exists c, x. split; [reflexivity|]. unfold is_ident_start in H. unfold is_digit. lia.
Qed.

Lemma items_ok_cons2 t q r :
  items_ok ((t, []) :: q :: r)
  = tok_ok t && (match tok_text (fst q) with c :: x => boundary t (c :: x) | [] => false end) && items_ok (q :: r).
Proof. cbn [items_ok fst snd forallb]. destruct (tok_ok t); reflexivity. Qed.

(* "." ident in front of items that start with a byte no identifier continues with *)
Lemma step_dot_ident b p l : is_ident b = true ->
  (exists c x, tok_text (fst p) = c :: x /\ is_ident_char c = false) ->
  items_ok (p :: l) = true -> items_ok ((TDot, []) :: (TIdent b, []) :: p :: l) = true.
Proof.
  intros Hb (c & x & E & Hc) Hl. destruct (ident_head b Hb) as (d & y & Eb & Hd).
  rewrite !items_ok_cons2. rewrite Hl, E. cbn [fst tok_text tok_ok boundary head_is punct_char]. rewrite Hb, Hc. rewrite Eb.
  cbn [head_is]. rewrite Hd. reflexivity.
Qed.

Lemma dot_items_ok p l : (exists c x, tok_text (fst p) = c :: x /\ is_ident_char c = false) -> items_ok (p :: l) = true ->
  forall q, forallb is_ident q = true -> items_ok (dot_items q [] ++ p :: l) = true.
Proof.
  intros Hp Hl. induction q as [|b r IH]; intro H; [exact Hl|].
  cbn [forallb] in H. apply andb_prop in H. destruct H as [Hb Hr]. cbn [dot_items]. destruct r as [|b2 r'].
  - cbn [app]. apply step_dot_ident; assumption.
  - specialize (IH Hr). cbn [app]. cbn [dot_items] in IH.
    destruct r' as [|b3 r'']; cbn [app] in IH |- *;
      (apply step_dot_ident; [exact Hb|exists 46, []; split; reflexivity|exact IH]).
Qed.

Lemma qname_items_ok p l : (exists c x, tok_text (fst p) = c :: x /\ is_ident_char c = false) -> items_ok (p :: l) = true ->
  forall q, forallb is_ident q = true -> items_ok (qname_items q [] ++ p :: l) = true.
Proof.
  intros Hp Hl [|a r] H; [exact Hl|]. cbn [forallb] in H. apply andb_prop in H. destruct H as [Ha Hr].
  cbn [qname_items]. destruct r as [|b r'].
  - cbn [app]. rewrite items_ok_cons2, Hl. destruct Hp as (c & x & E & Hc). rewrite E.
    cbn [tok_ok boundary head_is]. rewrite Ha, Hc. reflexivity.
  - assert (Hd := dot_items_ok p l Hp Hl (b :: r') Hr). cbn [dot_items] in Hd |- *.
    destruct r' as [|b3 r'']; cbn [app] in Hd |- *; rewrite items_ok_cons2;
      (apply andb_true_intro; split; [|exact Hd]);
      cbn [fst tok_text punct_char tok_ok boundary head_is]; rewrite Ha; reflexivity.
Qed.

(* ---------------------------------------------------------------- the lines of the file header *)
Lemma boundary_semi t r : boundary t (59 :: r) = true.
Proof. apply boundary_sep; reflexivity. Qed.

Lemma Lline_items ts s l : map fst l = ts -> items_text l = s -> items_ok l = true -> Lline ts s.
Proof. intros <- <- H. exact (items_line l H). Qed.

Lemma items_text_cons p l : items_text (p :: l) = (tok_text (fst p) ++ snd p) ++ items_text l.
Proof. reflexivity. Qed.
Lemma items_text_app l1 l2 : items_text (l1 ++ l2) = items_text l1 ++ items_text l2.
Proof. unfold items_text. apply flat_map_app. Qed.

Lemma Lline_syntax : Lline [TIdent kw_syntax; TEq; TLit lit_proto3; TSemi] (sb "syntax = ""proto3"";").
Proof.
  apply (Lline_items _ _ [(TIdent kw_syntax, [32]); (TEq, [32]); (TLit lit_proto3, []); (TSemi, [])]); vm_compute; reflexivity.
Qed.

Lemma Lline_package q : q <> [] -> forallb is_ident q = true ->
  Lline (TIdent kw_package :: emit_qname q ++ [TSemi]) (sb "package " ++ join_dot q ++ sb ";").
Proof.
  intros Hq Hi. apply (Lline_items _ _ ((TIdent kw_package, [32]) :: qname_items q [] ++ [(TSemi, [])])).
  - cbn [map fst]. rewrite map_app, qname_items_tokens. reflexivity.
  - rewrite items_text_cons, items_text_app, (qname_items_text [] q Hq). cbn. rewrite !app_nil_r. reflexivity.
  - assert (H : items_ok (qname_items q [] ++ [(TSemi, [])]) = true).
    { apply qname_items_ok; [exists 59, []; split; reflexivity|reflexivity|exact Hi]. }
    cbn [items_ok fst snd]. rewrite H. reflexivity.
Qed.

Lemma Lline_import p : tok_ok (TLit (quote p)) = true -> Lline (emit_import p) (sb "import """ ++ p ++ sb """;").
Proof.
  intro H. apply (Lline_items _ _ [(TIdent kw_import, [32]); (TLit (quote p), []); (TSemi, [])]).
  - reflexivity.
  - unfold items_text, quote. cbn. rewrite <- !app_assoc. reflexivity.
  - cbn [items_ok fst snd forallb tok_text punct_char]. rewrite H, boundary_semi. reflexivity.
Qed.

Lemma Lline_fopt (o : ident * token) : is_ident (fst o) = true -> tok_ok (snd o) = true ->
  Lline (emit_fopt o) (sb "option " ++ fst o ++ sb " = " ++ tok_text (snd o) ++ sb ";").
Proof.
  destruct o as [n t]. cbn [fst snd]. intros Hn Ht.
  apply (Lline_items _ _ [(TIdent kw_option, [32]); (TIdent n, [32]); (TEq, [32]); (t, []); (TSemi, [])]).
  - reflexivity.
  - unfold items_text. cbn. rewrite <- !app_assoc. reflexivity.
  - cbn [items_ok fst snd forallb tok_text punct_char tok_ok]. rewrite Hn, Ht, boundary_semi. reflexivity.
Qed.

(* ---------------------------------------------------------------- the file header (everything in front of the
   declarations): comment, syntax, package, imports, file options, with their blank lines *)
Definition header_ok (gen : list N) (s : sfile) : bool :=
  gen_ok gen && negb (match s_pkg s with [] => true | _ => false end) && forallb is_ident (s_pkg s)
  && forallb (fun p => tok_ok (TLit (quote p))) (s_imports s)
  && forallb (fun o => is_ident (fst o) && tok_ok (snd o)) (s_fopts s).

Definition write_header (gen : list N) (s : sfile) : wst :=
  let w1 := wp 0 [] (wp 0 (sb "// " ++ gen) ([], false)) in
  let w2 := wgap (wp 0 (sb "package " ++ join_dot (s_pkg s) ++ sb ";") (wp 0 [] (wp 0 (sb "syntax = ""proto3"";") w1))) in
  let w3 := match s_imports s with
            | [] => w2
            | imps => wgap (wfold (fun p => wp 0 (sb "import """ ++ p ++ sb """;")) imps w2)
            end in
  wgap (wfold (fun o => wp 0 (sb "option " ++ fst o ++ sb " = " ++ tok_text (snd o) ++ sb ";")) (s_fopts s) w3).

Definition header_tokens (s : sfile) : list token :=
  (([TIdent kw_syntax; TEq; TLit lit_proto3; TSemi] ++ (TIdent kw_package :: emit_qname (s_pkg s) ++ [TSemi]))
   ++ flat_map emit_import (s_imports s)) ++ flat_map emit_fopt (s_fopts s).

Lemma W_eq ts ts' w : ts = ts' -> W ts w -> W ts' w.
Proof. intros <- H. exact H. Qed.

Lemma header_W gen s : header_ok gen s = true -> W (header_tokens s) (write_header gen s).
Proof.
  unfold header_ok. intro H. apply andb_prop in H. destruct H as [H Hf]. apply andb_prop in H. destruct H as [H Hi].
  apply andb_prop in H. destruct H as [H Hp]. apply andb_prop in H. destruct H as [Hg Hne].
  assert (Hq : s_pkg s <> []) by (destruct (s_pkg s); [discriminate|discriminate]).
  assert (W0 : W [] ([], false)) by (intros ts' rest Hr; exact Hr).
  pose proof (T_wp _ 0 _ (Lline_comment gen Hg) _ _ W0) as W1.
  pose proof (T_wp _ 0 _ Lline_nil _ _ W1) as W2.
  pose proof (T_wp _ 0 _ Lline_syntax _ _ W2) as W3.
  pose proof (T_wp _ 0 _ Lline_nil _ _ W3) as W4.
  pose proof (T_wp _ 0 _ (Lline_package (s_pkg s) Hq Hp) _ _ W4) as W5.
  pose proof (T_wgap _ _ W5) as W6.
  assert (W7 : W (([TIdent kw_syntax; TEq; TLit lit_proto3; TSemi] ++ (TIdent kw_package :: emit_qname (s_pkg s) ++ [TSemi]))
                  ++ flat_map emit_import (s_imports s))
                 (match s_imports s with
                  | [] => wgap (wp 0 (sb "package " ++ join_dot (s_pkg s) ++ sb ";") (wp 0 [] (wp 0 (sb "syntax = ""proto3"";") (wp 0 [] (wp 0 (sb "// " ++ gen) ([], false))))))
                  | imps => wgap (wfold (fun p => wp 0 (sb "import """ ++ p ++ sb """;")) imps
                              (wgap (wp 0 (sb "package " ++ join_dot (s_pkg s) ++ sb ";") (wp 0 [] (wp 0 (sb "syntax = ""proto3"";") (wp 0 [] (wp 0 (sb "// " ++ gen) ([], false))))))))
                  end)).
  { assert (TI : T (flat_map emit_import (s_imports s)) (wfold (fun p => wp 0 (sb "import """ ++ p ++ sb """;")) (s_imports s))).
    { apply T_wfold. intros p Hin. apply T_wp. apply Lline_import. rewrite forallb_forall in Hi. exact (Hi p Hin). }
    destruct (s_imports s) as [|p0 imps] eqn:E.
    - refine (W_eq _ _ _ _ W6). cbn [flat_map]. rewrite ?app_nil_r, <- ?app_assoc. reflexivity.
    - pose proof (TI _ _ W6) as W7. pose proof (T_wgap _ _ W7) as W8.
      refine (W_eq _ _ _ _ W8). rewrite ?app_nil_r, <- ?app_assoc. reflexivity. }
  assert (TF : T (flat_map emit_fopt (s_fopts s))
                 (wfold (fun o => wp 0 (sb "option " ++ fst o ++ sb " = " ++ tok_text (snd o) ++ sb ";")) (s_fopts s))).
  { apply T_wfold. intros o Hin. apply T_wp. rewrite forallb_forall in Hf. specialize (Hf o Hin).
    apply andb_prop in Hf. destruct Hf as [Hn Ht]. exact (Lline_fopt o Hn Ht). }
  pose proof (TF _ _ W7) as W8. pose proof (T_wgap _ _ W8) as W9.
  unfold header_tokens, write_header. cbv zeta.
  refine (W_eq _ _ _ _ W9). rewrite ?app_nil_r, <- ?app_assoc. reflexivity.
Qed.

(* files without declarations: the rendered bytes are a layout of the printed tokens — a LEMMA, no computed test *)
Theorem render_header_layout gen s : s_exts s = [] -> s_body s = [] -> header_ok gen s = true ->
  is_layout (emit_file s) (render_sfile gen s) = true.
Proof.
  intros Hx Hb H. pose proof (header_W gen s H) as HW.
  specialize (HW [] [] eq_refl). rewrite !app_nil_r in HW.
  unfold render_sfile, emit_file. rewrite Hx, Hb. cbv zeta. unfold wfold at 1 2. cbn [fold_left flat_map emit_elems].
  rewrite !app_nil_r. unfold write_header, header_tokens in HW. cbv zeta in HW.
  cbn [app] in HW |- *. rewrite <- ?app_assoc in HW. rewrite <- ?app_assoc. cbn [app] in HW |- *. exact HW.
Qed.

(* descriptor level: a file without declarations (package, imports, file options) *)
Theorem bytes_layout_no_decls gen imp D : d_exts D = [] -> d_body D = [] ->
  header_ok gen (lay_file (to_symtab (dfile_symtab imp D)) D) = true ->
  is_layout (print_file_tokens (to_symtab (dfile_symtab imp D)) D) (render_bytes gen imp D) = true.
Proof.
  intros Hx Hb H. unfold print_file_tokens, render_bytes. apply render_header_layout; [| |exact H].
  - unfold lay_file. cbn [s_exts]. rewrite Hx. reflexivity.
  - unfold lay_file. cbn [s_body]. rewrite Hb. reflexivity.
Qed.

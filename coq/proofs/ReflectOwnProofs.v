(* ReflectOwnProofs.v — the reader with name ownership (model/ReflectOwn.v, the code since fix 0e6056c)
   against the reader without it (model/Reflect.v):

   every function of ReflectOwn.v either returns an ERROR or returns exactly what its counterpart
   of Reflect.v returns on the state with the owners erased ([sim]).  Hence
     - it never panics / exhausts fuel where Reflect.v does not,
     - every "if the reflection succeeds then ..." theorem about Reflect.v holds of it,
   and in addition (what Reflect.v cannot say): owners are never reassigned, and a message that is
   answered owns its schema name (a name is never answered with the schema of another descriptor). *)
From Coq Require Import String List NArith ZArith Bool Lia.
From J5V.lib Require Import Outcome.
From J5V.model Require Import ReflectDesc ReflectSchema Reflect ReflectOwn.
From J5V.model Require Import ReflectSpec Export.
From J5V.proofs Require Import ReflectProofs ReflectInvProofs ReflectPathProofs ReflectFuelProofs ReflectCodecProofs ReflectWeakProofs.
Import ListNotations.

(* ---------------------------------------------------------------- the relation *)
Definition sim {T' T} (er : T' -> T) (o : outcome T') (f : outcome T) : Prop :=
  is_err o = true \/ omap er o = f.

Lemma sim_err {T' T} (er : T' -> T) c f : sim er (Err c) f.
Proof. left. reflexivity. Qed.
Lemma sim_refl {T' T} (er : T' -> T) o : sim er o (omap er o).
Proof. right. reflexivity. Qed.
Lemma sim_ok {T' T} (er : T' -> T) a : sim er (Ok a) (Ok (er a)).
Proof. right. reflexivity. Qed.

Lemma sim_bind {T' T U' U} (er : T' -> T) (er2 : U' -> U) o f g h :
  sim er o f -> (forall a, sim er2 (g a) (h (er a))) -> sim er2 (obind o g) (obind f h).
Proof.
  intros [He|Heq] Hg.
  - destruct o; try discriminate. left. reflexivity.
  - subst f. destruct o; cbn; [apply Hg|left; reflexivity|right; reflexivity|right; reflexivity].
Qed.

(* a step that does not touch the state *)
Lemma sim_bind_pure {A U' U} (er2 : U' -> U) (o : outcome A) g h :
  (forall a, sim er2 (g a) (h a)) -> sim er2 (obind o g) (obind o h).
Proof.
  intros Hg. destruct o; cbn; [apply Hg|left; reflexivity|right; reflexivity|right; reflexivity].
Qed.

Definition er2 {A} (x : ost * A) : sset * A := (fst (fst x), snd x).
Definition er3 {A B} (x : ost * A * B) : sset * A * B := (fst (fst (fst x)), snd (fst x), snd x).

(* consequences *)
Lemma sim_not_panic {T' T} (er : T' -> T) o f s : sim er o f -> o = Panic s -> f = Panic s.
Proof. intros [He|Heq] ->; [discriminate|]. subst f. reflexivity. Qed.
Lemma sim_not_fuel {T' T} (er : T' -> T) o f : sim er o f -> o = OutOfFuel -> f = OutOfFuel.
Proof. intros [He|Heq] ->; [discriminate|]. subst f. reflexivity. Qed.
Lemma sim_ok_inv {T' T} (er : T' -> T) o f a : sim er o f -> o = Ok a -> f = Ok (er a).
Proof. intros [He|Heq] ->; [discriminate|]. subst f. reflexivity. Qed.

(* ---------------------------------------------------------------- leaves *)
Lemma o_enum_ref_sim s e : sim fst (o_enum_ref s e) (enum_ref (fst s) e).
Proof.
  unfold o_enum_ref. destruct (claim (snd s) (enum_key e) (e_full e)) as [ow1|]; [|apply sim_err].
  destruct (enum_ref (fst s) e); cbn; [right; reflexivity|left; reflexivity|right; reflexivity|right; reflexivity].
Qed.

Lemma o_build_enum_field_sim D s f x :
  sim er2 (o_build_enum_field D s f x) (build_enum_field D (fst s) f x).
Proof.
  unfold o_build_enum_field, build_enum_field.
  destruct (f_ty f) as [|full|full]; try apply sim_err.
  destruct (find_enum D full) as [e|]; [|apply sim_err].
  eapply (sim_bind fst er2); [apply o_enum_ref_sim|].
  intros s1. apply sim_bind_pure. intros rules. (right; reflexivity).
Qed.

Section Step.
Variable D : desc.
Variable orec : ost -> msgd -> outcome (ost * root).
Variable rec : sset -> msgd -> outcome (sset * root).
Hypothesis Hrec : forall s m, sim er2 (orec s m) (rec (fst s) m).

Lemma o_build_message_field_sim s f x :
  sim er2 (o_build_message_field D orec s f x) (build_message_field D rec (fst s) f x).
Proof.
  unfold o_build_message_field, build_message_field.
  destruct (f_ty f) as [|full|full]; try apply sim_err.
  apply sim_bind_pure. intros w. destruct w as [sc|]; [(right; reflexivity)|].
  destruct (has_prefix s_google_protobuf full); [apply sim_err|].
  destruct (find_msg D full) as [m|]; [|apply sim_err].
  destruct (claim (snd s) (msg_key m) (m_full m)) as [ow1|]; [|apply sim_err].
  eapply (sim_bind fst er2).
  - destruct (lookup (fst s) (msg_key m)) as [e|].
    + destruct (is_enum_entry e); [apply sim_err|(right; reflexivity)].
    + eapply (sim_bind er2 fst); [apply (Hrec ((msg_key m, Placeholder) :: fst s, ow1) m)|].
      intros [s1 r]. (right; reflexivity).
  - intros s2. (right; reflexivity).
Qed.

Lemma o_build_schema_sim s f x :
  sim er2 (o_build_schema D orec s f x) (build_schema D rec (fst s) f x).
Proof.
  unfold o_build_schema, build_schema.
  destruct (f_kind f); try (apply sim_bind_pure; intros p; (right; reflexivity));
    [apply o_build_enum_field_sim|apply o_build_message_field_sim].
Qed.

Lemma o_build_field_prop_sim s f :
  sim er2 (o_build_field_prop D orec s f) (build_field_prop D rec (fst s) f).
Proof.
  unfold o_build_field_prop, build_field_prop.
  destruct (f_card f) as [| | |kk].
  - eapply (sim_bind er2 er2); [apply o_build_schema_sim|]. intros [s1 sc]. (right; reflexivity).
  - eapply (sim_bind er2 er2); [apply o_build_schema_sim|]. intros [s1 sc]. (right; reflexivity).
  - destruct (match x_vty (field_exts f) with VRepeated mn mx un it => (Some (mn, mx, un), it) | _ => (None, None) end) as [rules items].
    eapply (sim_bind er2 er2); [apply o_build_schema_sim|]. intros [s1 sc]. (right; reflexivity).
  - destruct (negb (kind_eqb kk KString)); [apply sim_err|].
    destruct (match x_vty (field_exts f) with VMap mn mx vs => (Some (mn, mx), vs) | _ => (None, None) end) as [rules values].
    eapply (sim_bind er2 er2); [apply o_build_schema_sim|]. intros [s1 sc]. (right; reflexivity).
Qed.

Lemma o_fields_loop_sim m : forall fs s exs,
  sim er3 (o_fields_loop D orec m s exs fs) (fields_loop D rec m (fst s) exs fs).
Proof.
  induction fs as [|f r IH]; intros s exs; cbn [o_fields_loop fields_loop]; [(right; reflexivity)|].
  eapply (sim_bind er2 er3); [apply o_build_field_prop_sim|].
  intros [s1 p]. cbn [er2 fst snd].
  assert (Hdirect : sim er3 (obind (o_fields_loop D orec m s1 exs r) (fun '(s2, exs2, ps) => Ok (s2, exs2, p :: ps)))
                            (obind (fields_loop D rec m (fst s1) exs r) (fun '(st2, exs2, ps) => Ok (st2, exs2, p :: ps)))).
  { eapply (sim_bind er3 er3); [apply IH|]. intros [[s2 exs2] ps]. (right; reflexivity). }
  destruct (f_card f); try exact Hdirect;
    (destruct (f_oneof f) as [idx|]; [|exact Hdirect];
     destruct (oneof_is_synthetic m idx); [exact Hdirect|];
     destruct (add_to_exposed exs idx p) as [[exs1 pending]|]; [|exact Hdirect];
     eapply (sim_bind er3 er3); [apply IH|]; intros [[s2 exs2] ps]; (right; reflexivity)).
Qed.
End Step.

(* registration of the exposed oneofs: a res, not an outcome *)
Lemma o_register_oneofs_sim m : forall os s idx,
  match o_register_oneofs m s idx os with
  | ROk (s1, exs) => register_oneofs m (fst s) idx os = ROk (fst s1, exs)
  | RErr _ => True
  end.
Proof.
  induction os as [|[name jname syn ext d] r IH]; intros s idx; cbn [o_register_oneofs register_oneofs]; [reflexivity|].
  destruct syn; [apply IH|]. destruct ext as [[|]|]; try apply IH.
  destruct (claim (snd s) (oneof_key m name) (oneof_full m name)) as [ow1|]; [|exact I].
  destruct (lookup (fst s) (oneof_key m name)); [exact I|].
  pose proof (IH ((oneof_key m name, Linked (ROneof (snd (oneof_key m name)) d [])) :: fst s, ow1) (N.succ idx)) as H.
  destruct (o_register_oneofs m ((oneof_key m name, Linked (ROneof (snd (oneof_key m name)) d [])) :: fst s, ow1) (N.succ idx) r)
    as [[s2 exs]|c]; cbn [rbind]; [|exact I].
  cbn [fst] in H. rewrite H. reflexivity.
Qed.

Section Step2.
Variable D : desc.
Variable orec : ost -> msgd -> outcome (ost * root).
Variable rec : sset -> msgd -> outcome (sset * root).
Hypothesis Hrec : forall s m, sim er2 (orec s m) (rec (fst s) m).

Lemma o_message_properties_sim s m :
  sim er2 (o_message_properties D orec s m) (message_properties D rec (fst s) m).
Proof.
  unfold o_message_properties, message_properties.
  pose proof (o_register_oneofs_sim m (m_oneofs m) s 0%N) as Hreg.
  destruct (o_register_oneofs m s 0 (m_oneofs m)) as [[s1 exs]|c]; cbn [lift obind]; [|apply sim_err].
  rewrite Hreg. cbn [lift obind].
  eapply (sim_bind er3 er2); [apply (o_fields_loop_sim D orec rec Hrec)|].
  intros [[s2 exs2] ps]. cbn [er3 fst snd].
  destruct (existsb ex_pending exs2); [apply sim_err|].
  destruct (negb (exs_names_ok exs2)); [apply sim_err|]. (right; reflexivity).
Qed.

Lemma o_build_root_sim s m :
  sim er2 (o_build_root D orec s m) (build_root D rec (fst s) m).
Proof.
  unfold o_build_root, build_root.
  eapply (sim_bind er2 er2); [apply o_message_properties_sim|].
  intros [s1 ps]. cbn [er2 fst snd].
  destruct (negb (props_valid ps)); [apply sim_err|].
  destruct (is_oneof_wrapper m); [(right; reflexivity)|].
  destruct (flatten_cycle (fst s1) (msg_key m) ps) as [[|]|]; [apply sim_err| |right; reflexivity].
  apply sim_bind_pure. intros entity. (right; reflexivity).
Qed.
End Step2.

Lemma o_build_msg_sim D : forall fuel s m, sim er2 (o_build_msg D fuel s m) (build_msg D fuel (fst s) m).
Proof.
  induction fuel as [|fuel IH]; intros s m; cbn [o_build_msg build_msg]; [right; reflexivity|].
  apply o_build_root_sim. exact IH.
Qed.

Lemma o_message_schema_sim D fuel s m :
  sim er2 (o_message_schema D fuel s m) (message_schema D fuel (fst s) m).
Proof.
  unfold o_message_schema, message_schema.
  destruct (claim (snd s) (msg_key m) (m_full m)) as [ow1|]; [|apply sim_err].
  destruct (lookup (fst s) (msg_key m)) as [[|r]|]; [apply sim_err|(right; reflexivity)|].
  eapply (sim_bind er2 er2); [apply (o_build_msg_sim D fuel ((msg_key m, Placeholder) :: fst s, ow1) m)|].
  intros [s1 r]. (right; reflexivity).
Qed.

(* SchemaCache.Schema: either an error that leaves the cache (and the owners) as they were, or the
   answer and the new schema set of the reader without owners *)
Lemma o_cache_schema_sim D fuel s m :
  ((exists c, snd (o_cache_schema D fuel s m) = Err c) /\ fst (o_cache_schema D fuel s m) = s) \/
  (fst (fst (o_cache_schema D fuel s m)), snd (o_cache_schema D fuel s m)) = cache_schema D fuel (fst s) m.
Proof.
  unfold o_cache_schema, cache_schema.
  destruct (o_message_schema_sim D fuel s m) as [He|Heq].
  - revert He. destruct (o_message_schema D fuel s m) as [[s1 r]|c| |]; try discriminate. intros _. left. cbn. split; [eexists; reflexivity|reflexivity].
  - rewrite <- Heq. destruct (o_message_schema D fuel s m) as [[s1 r]|c| |]; cbn; right; reflexivity.
Qed.

Lemma o_messages_loop_sim D fuel : forall ms s, sim fst (o_messages_loop D fuel s ms) (messages_loop D fuel (fst s) ms).
Proof.
  induction ms as [|full r IH]; intros s; cbn [o_messages_loop messages_loop]; [(right; reflexivity)|].
  destruct (find_msg D full) as [m|]; [|apply sim_err].
  eapply (sim_bind er2 fst); [apply o_message_schema_sim|]. intros [s1 x]. apply IH.
Qed.

Lemma o_enums_loop_sim D : forall es s, sim fst (o_enums_loop D s es) (enums_loop D (fst s) es).
Proof.
  induction es as [|full r IH]; intros s; cbn [o_enums_loop enums_loop]; [(right; reflexivity)|].
  destruct (find_enum D full) as [e|]; [|apply sim_err].
  destruct (claim (snd s) (enum_key e) (e_full e)) as [ow1|]; [|apply sim_err].
  destruct (lookup (fst s) (enum_key e)); [apply (IH (fst s, ow1))|].
  apply sim_bind_pure. intros root. apply (IH ((enum_key e, Linked root) :: fst s, ow1)).
Qed.

(* SchemaSetFromFiles *)
Theorem o_reflect_sim D fs : sim fst (o_reflect D fs) (reflect D fs).
Proof.
  unfold o_reflect, reflect, o_reflect_files, reflect_files. destruct (collect fs) as [ms es].
  eapply (sim_bind fst fst); [apply (o_messages_loop_sim D (size D) ms ([], []))|]. intros s. apply o_enums_loop_sim.
Qed.

Corollary o_reflect_ok D fs S ow : o_reflect D fs = Ok (S, ow) -> reflect D fs = Ok S.
Proof. intros H. exact (sim_ok_inv fst _ _ _ (o_reflect_sim D fs) H). Qed.
Corollary o_reflect_panic D fs s : o_reflect D fs = Panic s -> reflect D fs = Panic s.
Proof. exact (sim_not_panic fst _ _ s (o_reflect_sim D fs)). Qed.
Corollary o_reflect_fuel D fs : o_reflect D fs = OutOfFuel -> reflect D fs = OutOfFuel.
Proof. exact (sim_not_fuel fst _ _ (o_reflect_sim D fs)). Qed.

(* ---------------------------------------------------------------- ownership *)
(* owners are only ever added: a name keeps the descriptor it was first given to *)
Definition ow_ext (a b : owners) : Prop := forall k o, owner a k = Some o -> owner b k = Some o.
Lemma ow_ext_refl a : ow_ext a a. Proof. intros k o H. exact H. Qed.
Lemma ow_ext_trans a b c : ow_ext a b -> ow_ext b c -> ow_ext a c.
Proof. intros H1 H2 k o H. apply H2, H1, H. Qed.

Lemma claim_ext ow k full ow1 : claim ow k full = Some ow1 -> ow_ext ow ow1 /\ owner ow1 k = Some full.
Proof.
  unfold claim. destruct (owner ow k) as [o|] eqn:Eo.
  - destruct (str_eqb o full) eqn:E; [|discriminate]. apply str_eqb_eq in E. subst o.
    intros H. inversion H; subst ow1. split; [apply ow_ext_refl|exact Eo].
  - intros H. inversion H; subst ow1. split.
    + intros k' o H'. cbn [owner]. destruct (ref_eqb k k') eqn:E; [|exact H'].
      apply ref_eqb_eq in E. subst k'. rewrite Eo in H'. discriminate.
    + cbn [owner]. rewrite ref_eqb_refl. reflexivity.
Qed.

(* the owners after a step extend the owners before it *)
Definition Pow {A} (ow : owners) (o : outcome (ost * A)) : Prop :=
  match o with Ok (s1, _) => ow_ext ow (snd s1) | _ => True end.
Definition Pow3 {A B} (ow : owners) (o : outcome (ost * A * B)) : Prop :=
  match o with Ok (s1, _, _) => ow_ext ow (snd s1) | _ => True end.

Lemma o_enum_ref_ow s e : match o_enum_ref s e with Ok s1 => ow_ext (snd s) (snd s1) | _ => True end.
Proof.
  unfold o_enum_ref. destruct (claim (snd s) (enum_key e) (e_full e)) as [ow1|] eqn:Ec; [|exact I].
  destruct (enum_ref (fst s) e); cbn; try exact I. apply (claim_ext _ _ _ _ Ec).
Qed.

Lemma o_build_enum_field_ow D s f x : Pow (snd s) (o_build_enum_field D s f x).
Proof.
  unfold o_build_enum_field. destruct (f_ty f) as [|full|full]; try exact I.
  destruct (find_enum D full) as [e|]; [|exact I].
  pose proof (o_enum_ref_ow s e) as H. destruct (o_enum_ref s e) as [s1| | |]; cbn [obind]; try exact I.
  match goal with |- Pow _ (obind ?o _) => destruct o end; cbn; try exact I. exact H.
Qed.

Section OwStep.
Variable D : desc.
Variable orec : ost -> msgd -> outcome (ost * root).
Hypothesis Hrec : forall s m, Pow (snd s) (orec s m).

Lemma o_build_message_field_ow s f x : Pow (snd s) (o_build_message_field D orec s f x).
Proof.
  unfold o_build_message_field. destruct (f_ty f) as [|full|full]; try exact I.
  destruct (lift (wkt_schema full x)) as [w| | |]; cbn [obind]; try exact I.
  destruct w as [sc|]; [apply ow_ext_refl|].
  destruct (has_prefix s_google_protobuf full); [exact I|].
  destruct (find_msg D full) as [m|]; [|exact I].
  destruct (claim (snd s) (msg_key m) (m_full m)) as [ow1|] eqn:Ec; [|exact I].
  destruct (claim_ext _ _ _ _ Ec) as [Hext _].
  destruct (lookup (fst s) (msg_key m)) as [e|].
  - destruct (is_enum_entry e); cbn; [exact I|exact Hext].
  - pose proof (Hrec ((msg_key m, Placeholder) :: fst s, ow1) m) as H.
    destruct (orec ((msg_key m, Placeholder) :: fst s, ow1) m) as [[s1 r]| | |]; cbn; try exact I.
    cbn in H. eapply ow_ext_trans; eauto.
Qed.

Lemma o_build_schema_ow s f x : Pow (snd s) (o_build_schema D orec s f x).
Proof.
  unfold o_build_schema.
  destruct (f_kind f);
    try (match goal with |- Pow _ (obind ?o _) => destruct o end; cbn; try exact I; apply ow_ext_refl);
    [apply o_build_enum_field_ow|apply o_build_message_field_ow].
Qed.

Lemma o_build_field_prop_ow s f : Pow (snd s) (o_build_field_prop D orec s f).
Proof.
  unfold o_build_field_prop.
  destruct (f_card f) as [| | |kk].
  - pose proof (o_build_schema_ow s f (field_exts f)) as H.
    destruct (o_build_schema D orec s f (field_exts f)) as [[s1 sc]| | |]; cbn; try exact I. exact H.
  - pose proof (o_build_schema_ow s f (field_exts f)) as H.
    destruct (o_build_schema D orec s f (field_exts f)) as [[s1 sc]| | |]; cbn; try exact I. exact H.
  - destruct (match x_vty (field_exts f) with VRepeated mn mx un it => (Some (mn, mx, un), it) | _ => (None, None) end) as [rules items].
    pose proof (o_build_schema_ow s f (child_exts f items true)) as H.
    destruct (o_build_schema D orec s f (child_exts f items true)) as [[s1 sc]| | |]; cbn; try exact I. exact H.
  - destruct (negb (kind_eqb kk KString)); [exact I|].
    destruct (match x_vty (field_exts f) with VMap mn mx vs => (Some (mn, mx), vs) | _ => (None, None) end) as [rules values].
    pose proof (o_build_schema_ow s f (child_exts f values false)) as H.
    destruct (o_build_schema D orec s f (child_exts f values false)) as [[s1 sc]| | |]; cbn; try exact I. exact H.
Qed.

Lemma o_fields_loop_ow m : forall fs s exs, Pow3 (snd s) (o_fields_loop D orec m s exs fs).
Proof.
  induction fs as [|f r IH]; intros s exs; cbn [o_fields_loop]; [apply ow_ext_refl|].
  pose proof (o_build_field_prop_ow s f) as Hp.
  destruct (o_build_field_prop D orec s f) as [[s1 p]| | |]; cbn [obind]; try exact I. cbn in Hp.
  assert (Hgen : forall exs' (k : ost * list exposed * list prop -> outcome (ost * list exposed * list prop)),
             (forall s2 e2 ps, match k (s2, e2, ps) with Ok (s3, _, _) => s3 = s2 | _ => True end) ->
             Pow3 (snd s) (obind (o_fields_loop D orec m s1 exs' r) k)).
  { intros exs' k Hk. pose proof (IH s1 exs') as H.
    destruct (o_fields_loop D orec m s1 exs' r) as [[[s2 e2] ps]| | |]; cbn [obind]; try exact I.
    specialize (Hk s2 e2 ps). destruct (k (s2, e2, ps)) as [[[s3 e3] ps3]| | |]; try exact I. subst s3.
    cbn in H |- *. eapply ow_ext_trans; eauto. }
  assert (Hdirect : Pow3 (snd s) (obind (o_fields_loop D orec m s1 exs r) (fun '(s2, exs2, ps) => Ok (s2, exs2, p :: ps))))
    by (apply Hgen; intros; reflexivity).
  destruct (f_card f); try exact Hdirect;
    (destruct (f_oneof f) as [idx|]; [|exact Hdirect];
     destruct (oneof_is_synthetic m idx); [exact Hdirect|];
     destruct (add_to_exposed exs idx p) as [[exs1 pending]|]; [|exact Hdirect];
     apply Hgen; intros; reflexivity).
Qed.
End OwStep.

Lemma o_register_oneofs_ow m : forall os s idx,
  match o_register_oneofs m s idx os with ROk (s1, _) => ow_ext (snd s) (snd s1) | RErr _ => True end.
Proof.
  induction os as [|[name jname syn ext d] r IH]; intros s idx; cbn [o_register_oneofs]; [apply ow_ext_refl|].
  destruct syn; [apply IH|]. destruct ext as [[|]|]; try apply IH.
  destruct (claim (snd s) (oneof_key m name) (oneof_full m name)) as [ow1|] eqn:Ec; [|exact I].
  destruct (lookup (fst s) (oneof_key m name)); [exact I|].
  pose proof (IH ((oneof_key m name, Linked (ROneof (snd (oneof_key m name)) d [])) :: fst s, ow1) (N.succ idx)) as H.
  destruct (o_register_oneofs m ((oneof_key m name, Linked (ROneof (snd (oneof_key m name)) d [])) :: fst s, ow1) (N.succ idx) r)
    as [[s2 exs]|c]; cbn [rbind]; [|exact I].
  cbn in H. eapply ow_ext_trans; [apply (claim_ext _ _ _ _ Ec)|exact H].
Qed.

Section OwStep2.
Variable D : desc.
Variable orec : ost -> msgd -> outcome (ost * root).
Hypothesis Hrec : forall s m, Pow (snd s) (orec s m).

Lemma o_build_root_ow s m : Pow (snd s) (o_build_root D orec s m).
Proof.
  unfold o_build_root, o_message_properties.
  pose proof (o_register_oneofs_ow m (m_oneofs m) s 0%N) as Hreg.
  destruct (o_register_oneofs m s 0 (m_oneofs m)) as [[s1 exs]|c]; cbn [lift obind]; [|exact I].
  pose proof (o_fields_loop_ow D orec Hrec m (m_fields m) s1 exs) as Hf.
  destruct (o_fields_loop D orec m s1 exs (m_fields m)) as [[[s2 exs2] ps]| | |]; cbn [obind]; try exact I.
  cbn in Hf.
  destruct (existsb ex_pending exs2); cbn [obind]; [exact I|].
  destruct (negb (exs_names_ok exs2)); cbn [obind]; [exact I|].
  destruct (negb (props_valid ps)); [exact I|].
  assert (Hs : ow_ext (snd s) (snd s2)) by (eapply ow_ext_trans; eauto).
  destruct (is_oneof_wrapper m); [exact Hs|].
  cbn [fst snd].
  destruct (flatten_cycle (finish_oneofs (fst s2) exs2) (msg_key m) ps) as [[|]|]; try exact I.
  destruct (lift (find_psm D m)); cbn; try exact I. exact Hs.
Qed.
End OwStep2.

Lemma o_build_msg_ow D : forall fuel s m, Pow (snd s) (o_build_msg D fuel s m).
Proof.
  induction fuel as [|fuel IH]; intros s m; cbn [o_build_msg]; [exact I|]. apply o_build_root_ow. exact IH.
Qed.

(* a message that is answered owns its schema name; nobody else's owner changed *)
Theorem o_message_schema_owned D fuel s m s1 r :
  o_message_schema D fuel s m = Ok (s1, r) ->
  ow_ext (snd s) (snd s1) /\ owner (snd s1) (msg_key m) = Some (m_full m).
Proof.
  unfold o_message_schema.
  destruct (claim (snd s) (msg_key m) (m_full m)) as [ow1|] eqn:Ec; [|discriminate].
  destruct (claim_ext _ _ _ _ Ec) as [Hext Hown].
  destruct (lookup (fst s) (msg_key m)) as [[|r0]|]; [discriminate| |].
  - intros H. inversion H; subst s1 r. cbn. split; assumption.
  - pose proof (o_build_msg_ow D fuel ((msg_key m, Placeholder) :: fst s, ow1) m) as Hb.
    destruct (o_build_msg D fuel ((msg_key m, Placeholder) :: fst s, ow1) m) as [[s2 r2]| | |]; cbn [obind]; try discriminate.
    intros H. inversion H; subst s1 r. cbn in Hb |- *. split; [eapply ow_ext_trans; eauto|apply Hb; exact Hown].
Qed.

(* a name owned by another descriptor is never answered: the call is an error *)
Theorem o_message_schema_foreign D fuel s m o :
  owner (snd s) (msg_key m) = Some o -> o <> m_full m -> exists c, o_message_schema D fuel s m = Err c.
Proof.
  intros Ho Hne. unfold o_message_schema, claim. rewrite Ho.
  destruct (str_eqb o (m_full m)) eqn:E; [|eauto].
  exfalso. apply Hne. apply str_eqb_eq. exact E.
Qed.

(* ---------------------------------------------------------------- the headline theorems, for the model of the code *)
Theorem o_reflect_total D : enums_nonempty D -> forall fs,
  (forall s, o_reflect D fs <> Panic s) /\ o_reflect D fs <> OutOfFuel.
Proof.
  intros He fs. destruct (reflect_total_any_names D He fs) as [Hp Hf].
  split; [intros s H; exact (Hp s (o_reflect_panic D fs s H))|intros H; exact (Hf (o_reflect_fuel D fs H))].
Qed.

Theorem o_reflect_never_out_of_fuel D fs : o_reflect D fs <> OutOfFuel.
Proof. intros H. exact (reflect_never_out_of_fuel D fs (o_reflect_fuel D fs H)). Qed.

Theorem o_cache_schema_total D : enums_nonempty D -> forall s m, In m (d_msgs D) ->
  (forall p, snd (o_cache_schema D (size D) s m) <> Panic p) /\ snd (o_cache_schema D (size D) s m) <> OutOfFuel.
Proof.
  intros He s m Hm. destruct (cache_schema_total_any_state D He (fst s) m Hm) as (_ & Hp & Hf).
  destruct (o_cache_schema_sim D (size D) s m) as [[[c Hc] _]|Heq].
  - rewrite Hc. split; [intros p|]; discriminate.
  - rewrite <- Heq in Hp, Hf. cbn [snd] in Hp, Hf. split; assumption.
Qed.

Theorem o_reflect_full_on_supported D fs :
  wf_paths D ->
  (forall s, o_reflect D fs <> Panic s) /\ o_reflect D fs <> OutOfFuel /\
  forall S ow, o_reflect D fs = Ok (S, ow) ->
    set_consistent D S = true /\
    forall m r, In m (d_msgs D) -> lookup S (msg_key m) = Some (Linked r) ->
      exists pfs, new_prop_set D S r m = Ok pfs /\
        ((forall q f, In (q, Some f) pfs -> supported_b (p_schema q) f = true) ->
         (forall q k n d ops opfs p2 f2, In (q, None) pfs -> p_schema q = FOneof k None None None ->
            lookup S k = Some (Linked (ROneof n d ops)) -> new_prop_set D S (ROneof n d ops) m = Ok opfs ->
            In (p2, Some f2) opfs -> supported_b (p_schema p2) f2 = true) ->
         codec_classes D S m r = (0%N, 0%N) /\ codec_classes_strict D S m r = (0%N, 0%N)).
Proof.
  intros Hwp. destruct (reflect_full_on_supported D fs Hwp) as (Hp & Hf & Hok).
  split; [intros s H; exact (Hp s (o_reflect_panic D fs s H))|].
  split; [intros H; exact (Hf (o_reflect_fuel D fs H))|].
  intros S ow HO. exact (Hok S (o_reflect_ok D fs S ow HO)).
Qed.

(* what every successful reflection guarantees, for EVERY descriptor set (no hypothesis): distinct keys,
   importable scalar formats, closed references, pairwise distinct property names, no placeholder *)
Theorem o_reflect_ok_guarantees D fs S ow :
  o_reflect D fs = Ok (S, ow) ->
  keys_distinct S = true /\ set_importable S = true /\ set_closed S = true /\
  (forall k r, lookup S k = Some (Linked r) -> names_unique_b (root_props r) = true) /\
  (forall k, lookup S k <> Some Placeholder) /\ NoDup (map fst S).
Proof. intros HO. exact (reflect_ok_guarantees_any D fs S (o_reflect_ok D fs S ow HO)). Qed.

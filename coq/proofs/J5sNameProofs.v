(* J5sNameProofs.v — the names the compiler derives with iancoleman/strcase (lib/Strcase.v)
   never contain a dot: ToCamel writes letters and digits only, ToSnake / ToScreamingSnake
   replace '.' by the delimiter. *)
From Coq Require Import List NArith Bool Lia ZifyN ZifyBool.
From J5V.lib Require Import Strcase.
From J5V.model Require Import J5sAst.
From J5V.proofs Require Import J5sCompileProofs.
Import ListNotations.
Local Open Scope N_scope.

Lemma cap_range c : is_cap c = true -> 65 <= c <= 90.
Proof. unfold is_cap. intros H. apply andb_true_iff in H. destruct H as [H1 H2]. apply N.leb_le in H1, H2. lia. Qed.
Lemma low_range c : is_low c = true -> 97 <= c <= 122.
Proof. unfold is_low. intros H. apply andb_true_iff in H. destruct H as [H1 H2]. apply N.leb_le in H1, H2. lia. Qed.
Lemma num_range c : is_num c = true -> 48 <= c <= 57.
Proof. unfold is_num. intros H. apply andb_true_iff in H. destruct H as [H1 H2]. apply N.leb_le in H1, H2. lia. Qed.

Lemma ne_dot c : c <> 46 -> negb (c =? 46) = true.
Proof. intros H. apply negb_true_iff. apply N.eqb_neq. exact H. Qed.

Lemma nodot_cons c r : c <> 46 -> nodot_b r = true -> nodot_b (c :: r) = true.
Proof. intros Hc Hr. unfold nodot_b in *. cbn. rewrite (ne_dot c Hc), Hr. reflexivity. Qed.

Theorem camel_go_nodot : forall s f cn pc, nodot_b (camel_go f cn pc s) = true.
Proof.
  induction s as [|v0 r IH]; intros f cn pc; [reflexivity|]. cbn [camel_go].
  destruct (is_cap v0) eqn:Ec; destruct (is_low v0) eqn:El; cbn [orb].
  - apply nodot_cons; [|apply IH]. apply cap_range in Ec. apply low_range in El. lia.
  - apply nodot_cons; [|apply IH]. apply cap_range in Ec.
    destruct cn; [lia|]. destruct f; [lia|]. destruct (pc && true); lia.
  - apply nodot_cons; [|apply IH]. apply low_range in El.
    destruct cn; [lia|]. destruct f; [lia|]. destruct (pc && false); lia.
  - assert (Hv : (if cn then v0 else if f then v0 else if pc && false then v0 + 32 else v0) = v0).
    { destruct cn; [reflexivity|]. destruct f; [reflexivity|]. rewrite andb_false_r. reflexivity. }
    rewrite Hv. destruct (is_num v0) eqn:En; [|apply IH].
    apply nodot_cons; [|apply IH]. apply num_range in En. lia.
Qed.

Theorem to_camel_nodot s : nodot_b (to_camel s) = true.
Proof. apply camel_go_nodot. Qed.

Lemma sep_dot : is_sep 46 = true.
Proof. reflexivity. Qed.

Lemma nodot_app2 x y : nodot_b x = true -> nodot_b y = true -> nodot_b (x ++ y) = true.
Proof. apply nodot_app. Qed.

Theorem delimited_go_nodot sc : forall s pc, nodot_b (delimited_go 95 sc pc s) = true.
Proof.
  induction s as [|v0 r IH]; intros pc; [reflexivity|]. cbn [delimited_go].
  set (v := if is_low v0 && sc then v0 - 32 else if is_cap v0 && negb sc then v0 + 32 else v0).
  assert (Hplain : nodot_b ((if is_sep v then 95 else v) :: delimited_go 95 sc (is_cap v0) r) = true).
  { apply nodot_cons; [|apply IH]. destruct (is_sep v) eqn:Es; [lia|]. intros E. rewrite E in Es. discriminate. }
  destruct r as [|next r']; [exact Hplain|].
  destruct ((is_cap v0 && (is_low next || is_num next) || is_low v0 && (is_cap next || is_num next) ||
             is_num v && (is_cap next || is_low next))) eqn:Econd; [|exact Hplain].
  assert (Hv : v <> 46).
  { unfold v. destruct (is_low v0) eqn:El; destruct (is_cap v0) eqn:Ec; cbn [andb] in *.
    - apply low_range in El. apply cap_range in Ec. lia.
    - apply low_range in El. destruct sc; lia.
    - apply cap_range in Ec. destruct sc; cbn; lia.
    - cbn [andb orb] in Econd. apply andb_true_iff in Econd. destruct Econd as [En _].
      unfold v in En. cbn [andb] in En. apply num_range in En. lia. }
  apply nodot_app2.
  - destruct (is_cap v0 && is_low next && pc); reflexivity.
  - apply nodot_cons; [exact Hv|]. apply nodot_app2; [|apply IH].
    destruct (is_low v0 || is_num v || is_num next); reflexivity.
Qed.

Theorem to_snake_nodot s : nodot_b (to_snake s) = true.
Proof. apply delimited_go_nodot. Qed.

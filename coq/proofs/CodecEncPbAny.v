(* CodecEncPbAny.v — the payload of a google.protobuf.Any after a round trip, stated WITHOUT reference
   to "what the reverse conversion yields".

   equiv_value (FAny true) (EV_pbany) says: the decoded value bytes are back tn (raw Jd), the result of
   the reverse conversion on the payload text.  Here the two conversions are instantiated with what
   the Go code runs (any.go / WithProtoToAny):
     forward  inner (S k) tn pb  = resolver reg, proto.Unmarshal, Codec.encode of the payload message
     reverse  back_of ab tn txt  = resolver reg, Codec.decode of the text, proto.Marshal
   and the conclusion is about the payload MESSAGES: the message the decoded value bytes unmarshal to
   is equivalent (equiv_root of the payload type) to the message the original bytes unmarshal to.
   The only law of the proto wire format used: Unmarshal (Marshal x) = x, for the messages x the
   decoder produces for the payload type. *)
From Coq Require Import String List Arith NArith ZArith Bool Lia.
From J5V.lib Require Import Outcome Json JsonPrint.
From J5V.model Require Import CodecTypes CodecEnc CodecEncSpec CodecEncDec.
From J5V.proofs Require Import CodecEncProofs CodecEncDecProofs CodecEncTotal CodecEncInner CodecEncRep.
Import ListNotations.
Local Open Scope N_scope.

Section PbAnyPayload.
  Variable fmt_float : bool -> N -> bytes.
  Variable parse_float : bool -> bytes -> option N.
  Variable parse_time : bytes -> option (Z * Z).
  Variable reg : bytes -> option (env * bytes).
  Variable unmarshal : bytes -> bytes -> option msg.
  Variable marshal : bytes -> msg -> bytes.
  Hypothesis Hfloat_ok : float_text_ok fmt_float.
  Hypothesis Hfloat_rt : float_roundtrip fmt_float parse_float.
  Hypothesis Htime : time_parse_extends parse_time.
  Hypothesis Hreg_flat : forall tn e root, reg tn = Some (e, root) -> oneofs_flat e.
  Hypothesis Hpayload_raw : forall tn pb e root m, reg tn = Some (e, root) -> unmarshal tn pb = Some m ->
    raw_root_gen e compact_json root m.

  Notation inner := (inner_n fmt_float reg unmarshal).
  Notation dsc := (dec_scalar parse_float parse_time).

  (* the reverse conversion of WithProtoToAny: resolve the type, decode the payload text with the
     codec (Any values inside it converted by ab), marshal the message *)
  Definition back_of (ab : option (bytes -> bytes -> outcome bytes)) (tn txt : bytes) : outcome bytes :=
    match reg tn with
    | Some (e, root) => obind (decode_text dsc ab e root txt) (fun pm => Ok (marshal tn pm))
    | None => Err "unknown type"
    end.

  Theorem pbany_payload_equiv k ab (env0 : env) tn fuel m m' :
    (* the pair is related as the round-trip theorem concludes for a google.protobuf.Any field *)
    equiv_value (inner (S k)) print (Some (back_of ab)) env0 (FAny true) (VMsg m) (VMsg m') ->
    sfield 1 m = any_prefix ++ tn ->
    (* the one law of the proto wire format that is used: a message the decoder built for the payload
       type is read back by Unmarshal from its Marshal bytes *)
    (forall e root txt x, reg tn = Some (e, root) -> decode_text dsc ab e root txt = Ok x ->
       unmarshal tn (marshal tn x) = Some x) ->
    (* the payload type's schema and the payload message are inside the round-trip theorem *)
    (forall e root, reg tn = Some (e, root) -> env_static_b e = true) ->
    (forall e root pm, reg tn = Some (e, root) -> unmarshal tn (sfield 2 m) = Some pm ->
       rep_root_b (inner k) print ab e fuel root pm = true) ->
    (forall J, strict_parse (match inner (S k) tn (sfield 2 m) with Ok t => t | _ => [] end) = Some J ->
       N.of_nat (jnest J) <= max_nesting) ->
    exists e root pm pm',
      reg tn = Some (e, root) /\
      unmarshal tn (sfield 2 m) = Some pm /\
      unmarshal tn (sfield 2 m') = Some pm' /\
      sfield 1 m' = sfield 1 m /\
      equiv_root (inner k) print ab e root pm pm'.
  Proof.
    intros Heq Htn Hwire Hst Hrep Hdepth.
    inversion Heq as [| | | | | | | m0 m0' tn0 Jd back Hp1 Hp1' Hwf Hfw Hab Hbk]; subst.
    rewrite Htn in Hp1. apply app_inv_head in Hp1. subst tn0.
    injection Hab as <-.
    rewrite Hfw in Hdepth.
    pose proof Hfw as Hfw0. cbn [inner_n] in Hfw0.
    destruct (reg tn) as [[e root]|] eqn:Er; [|discriminate].
    destruct (unmarshal tn (sfield 2 m)) as [pm|] eqn:Eu; [|discriminate].
    destruct (codec_full_inner fmt_float parse_float parse_time reg unmarshal Hfloat_ok Hfloat_rt Htime Hreg_flat
                Hpayload_raw k ab e fuel root pm (Hst e root eq_refl) (Hrep e root pm eq_refl eq_refl))
      as (txt & J & Henc & Hparse & Hdec).
    rewrite Hfw0 in Henc. injection Henc as <-.
    destruct (Hdec (Hdepth J Hparse)) as (pm' & Hd & Hequiv).
    assert (Hdt : decode_text dsc ab e root (print Jd) = Ok pm') by (unfold decode_text; rewrite Hparse; exact Hd).
    unfold back_of in Hbk. rewrite Er, Hdt in Hbk.
    cbn [obind] in Hbk. injection Hbk as Hbk.
    exists e, root, pm, pm'. repeat split; try assumption; try reflexivity.
    rewrite <- Hbk. exact (Hwire e root (print Jd) pm' eq_refl Hdt).
  Qed.
End PbAnyPayload.

(* CodecDecSpaceDoc.v — white space at every token boundary at once, at the level of the decoder (C03):
   the spaced text has the tokens of the compact text, hence the same descent of decodeRoot; JSONToProto
   (descent + end-of-input check) agrees as soon as the end-of-input observation does. *)
From Coq Require Import String List NArith ZArith Bool.
From J5V.lib Require Import Outcome Json JsonPrint.
From J5V.model Require Import CodecTypes CodecDecScalar CodecDec.
From J5V.proofs Require Import CodecDecSpace CodecDecSpaceAll2.
Import ListNotations.

Theorem spaced_same_tokens J tx w0 w1 : wfb J = true -> sp J tx -> all_space w0 -> all_space w1 ->
  lex (w0 ++ tx ++ w1) = lex (print J).
Proof.
  intros Hw Hsp H0 H1. rewrite (lex_spaced J tx w0 w1 Hw Hsp H0 H1).
  pose proof (lex_spaced J (print J) [] [] Hw (sp_print J) (Forall_nil _) (Forall_nil _)) as E.
  cbn [app] in E. rewrite app_nil_r in E. symmetry. exact E.
Qed.

Theorem spaced_same_descent orc e root J tx w0 w1 : wfb J = true -> sp J tx -> all_space w0 -> all_space w1 ->
  decode_bytes orc e root (w0 ++ tx ++ w1) = decode_bytes orc e root (print J).
Proof. intros Hw Hsp H0 H1. unfold decode_bytes. rewrite (spaced_same_tokens J tx w0 w1 Hw Hsp H0 H1). reflexivity. Qed.

Theorem spaced_same_document orc e root J tx w0 w1 : wfb J = true -> sp J tx -> all_space w0 -> all_space w1 ->
  lex_at_eof (w0 ++ tx ++ w1) = lex_at_eof (print J) ->
  decode_document orc e root (w0 ++ tx ++ w1) = decode_document orc e root (print J).
Proof.
  intros Hw Hsp H0 H1 He. unfold decode_document.
  rewrite (spaced_same_tokens J tx w0 w1 Hw Hsp H0 H1), He. reflexivity.
Qed.

(* BclBytesProofs.v — positions inside the input as a Go string: lines are
   strings.Split(input, "\n") (bytes), columns count runes of that line. *)
From Coq Require Import String List NArith ZArith Bool Lia ZifyN ZifyNat ZifyBool.
From J5V.lib Require Import Text.
From J5V.model Require Import BclLexer.
From J5V.proofs Require Import BclPosProofs BclTextProofs.
Import ListNotations.
Local Open Scope Z_scope.

Definition inside_bytes (input : list N) (p : pos) : Prop :=
  0 <= fst p /\ 0 <= snd p /\
  exists l, nth_error (split_on 10 input) (Z.to_nat (fst p)) = Some l /\
            snd p <= Z.of_nat (length (utf8_decode l)).

Lemma nth_error_map_some {A B} (f : A -> B) l n y : nth_error (map f l) n = Some y ->
  exists x, nth_error l n = Some x /\ y = f x.
Proof.
  revert n. induction l as [|a r IH]; intros [|n] H; cbn in *; try discriminate.
  - injection H as <-. eauto.
  - apply IH. exact H.
Qed.

Theorem valid_inside_bytes input p : valid_pos (utf8_decode input) p -> inside_bytes input p.
Proof.
  intros H. pose proof (valid_inside _ _ H) as Hi. unfold inside in Hi.
  destruct Hi as (A & B & l & Hn & Hl). unfold rlines in Hn. rewrite decode_lines in Hn.
  apply nth_error_map_some in Hn. destruct Hn as (x & Hx & ->).
  split; [exact A|]. split; [exact B|]. exists x. split; [exact Hx|exact Hl].
Qed.

(* BclParserProofs.v — the walker model never panics and never runs out of
   fuel on lexer output; every node and diagnostic range is made of valid
   positions with start <= end; fail-fast and collect-all agree on the first
   diagnostic. *)
From Coq Require Import String List NArith ZArith Bool Lia ZifyN ZifyNat ZifyBool.
From J5V.lib Require Import Text Outcome.
From J5V.model Require Import BclLexer BclParser.
From J5V.proofs Require Import BclPosProofs BclLexerProofs.
Import ListNotations.
Local Open Scope Z_scope.
Arguments Nat.sub : simpl never.

Section Walker.
Variable inp : list N.

Definition hw (s : wstate) : pos := current_pos s.

Definition wst_ok (s : wstate) : Prop :=
  valid_pos inp (hw s) /\ chain_from inp (hw s) (wrest s) /\
  (forall p, wprev s = Some p -> ty p <> EOF).
Definition wlive (s : wstate) : Prop := wrest s <> [] \/ wprev s <> None.

(* a range made of valid positions, ordered, between lo and hi *)
Definition range_ok (lo hi st en : pos) : Prop :=
  valid_pos inp st /\ valid_pos inp en /\ pos_le lo st /\ pos_le st en /\ pos_le en hi.
Definition node_ok (lo hi : pos) (n : pnode) : Prop :=
  let '(_, st, en) := n in range_ok lo hi st en.
Definition nodes_ok (lo hi : pos) (ns : list pnode) : Prop := Forall (node_ok lo hi) ns.
Definition tok_in (lo hi : pos) (t : token) : Prop := range_ok lo hi (tstart t) (tend t).

Lemma range_weaken lo hi lo' hi' st en :
  pos_le lo' lo -> pos_le hi hi' -> range_ok lo hi st en -> range_ok lo' hi' st en.
Proof.
  intros H1 H2 (A & B & C & D & E). repeat split; auto; eapply pos_le_trans; eauto.
Qed.
Lemma nodes_weaken lo hi lo' hi' ns :
  pos_le lo' lo -> pos_le hi hi' -> nodes_ok lo hi ns -> nodes_ok lo' hi' ns.
Proof.
  intros H1 H2 H. eapply Forall_impl; [|exact H]. intros [[k st] en]. apply range_weaken; auto.
Qed.
Lemma nodes_app lo hi a b : nodes_ok lo hi a -> nodes_ok lo hi b -> nodes_ok lo hi (a ++ b).
Proof. intros. apply Forall_app. auto. Qed.

(* one or more walker steps from s to s' *)
Record wstep (s s' : wstate) : Prop := {
  ws_ok : wst_ok s';
  ws_prev : wprev s' <> None;
  ws_hw : pos_le (hw s) (hw s');
  ws_len : (length (wrest s') <= length (wrest s))%nat;
  ws_strict : wrest s <> [] -> (length (wrest s') < length (wrest s))%nat;
  (* the tokens consumed in between; the previous token is the last of them *)
  ws_cons : exists consumed, wrest s = consumed ++ wrest s' /\
                             wprev s' = last (map Some consumed) (wprev s) }.

Lemma last_cons_dflt {A} (l : list A) : forall x d, last (x :: l) d = last l x.
Proof.
  induction l as [|y r IH]; intros x d; [reflexivity|].
  change (last (x :: y :: r) d) with (last (y :: r) d). rewrite !IH. reflexivity.
Qed.

Lemma last_map_app {A} (a b : list A) (d : option A) :
  last (map Some (a ++ b)) d = last (map Some b) (last (map Some a) d).
Proof.
  revert d. induction a as [|x r IH]; intros d; [reflexivity|].
  cbn [app map]. rewrite !last_cons_dflt. apply IH.
Qed.

Lemma wstep_trans a b c : wstep a b -> wstep b c -> wstep a c.
Proof.
  intros [A1 A2 A3 A4 A5 (c1 & A6 & A7)] [B1 B2 B3 B4 B5 (c2 & B6 & B7)].
  split; auto; [eapply pos_le_trans; eauto|lia| |].
  - intros H. specialize (A5 H). lia.
  - exists (c1 ++ c2). split; [rewrite A6, B6, app_assoc; reflexivity|].
    rewrite B7, A7, last_map_app. reflexivity.
Qed.
Lemma wstep_live s s' : wstep s s' -> wlive s'.
Proof. intros H. right. apply H. Qed.

Lemma next_type_nil s : wrest s = [] -> next_type s = EOF.
Proof. unfold next_type. intros ->. reflexivity. Qed.
Lemma next_type_not_eof s : wst_ok s -> next_type s <> EOF -> wrest s <> [].
Proof. intros _ H Hr. apply H, next_type_nil, Hr. Qed.
Lemma next_type_rest s : wst_ok s -> wrest s <> [] -> next_type s <> EOF.
Proof.
  intros (_ & Hc & _) Hr. unfold next_type. destruct (wrest s) as [|t r]; [exfalso; apply Hr; reflexivity|].
  cbn in Hc. apply Hc.
Qed.

Lemma pop_token_spec s : wst_ok s -> wlive s ->
  exists t s', pop_token s = WOk t s' /\ wstep s s' /\ tok_in (hw s) (hw s') t /\
    ty t = next_type s /\
    (wrest s <> [] -> (length (wrest s') < length (wrest s))%nat) /\ tend t = hw s'.
Proof.
  intros (Hv & Hc & Hp) Hl. unfold pop_token, next_type.
  destruct (wrest s) as [|t r] eqn:Hr.
  - destruct (wprev s) as [p|] eqn:Hpv; [|destruct Hl; congruence].
    assert (E : tt_eqb (ty p) EOF = false).
    { unfold tt_eqb. apply N.eqb_neq. intros H. apply (Hp p eq_refl).
      destruct (ty p); cbn in H; try discriminate; reflexivity. }
    rewrite E. eexists _, s. split; [reflexivity|].
    assert (Hh : hw s = tend p) by (unfold hw, current_pos; rewrite Hpv; reflexivity).
    split; [|split].
    + split.
      * split; [exact Hv|]. split; [rewrite Hr; exact I|rewrite Hpv; exact Hp].
      * rewrite Hpv. discriminate.
      * apply pos_le_refl.
      * rewrite Hr. cbn. lia.
      * intros Hne. exfalso. apply Hne. exact Hr.
      * exists []. split; reflexivity.
    + unfold tok_in, range_ok. cbn. rewrite <- Hh. repeat split; auto using pos_le_refl.
    + split; [reflexivity|]. split; [intros Hne; exfalso; apply Hne; reflexivity|]. cbn. symmetry. exact Hh.
  - cbn in Hc. destruct Hc as (H1 & (H2 & H3 & H4) & H5 & H6).
    eexists t, _. split; [reflexivity|].
    assert (Hh : hw (mkW r (Some t)) = tend t) by reflexivity.
    split; [split|].
    + unfold wst_ok. rewrite Hh. cbn. repeat split; auto. intros p [= <-]. exact H5.
    + cbn. discriminate.
    + rewrite Hh. eapply pos_le_trans; eauto.
    + rewrite Hr. cbn. lia.
    + intros _. rewrite Hr. cbn. lia.
    + exists [t]. rewrite Hr. split; reflexivity.
    + split; [|split; [reflexivity|split; [intros _; cbn; lia|reflexivity]]].
      unfold tok_in, range_ok. rewrite Hh. repeat split; auto using pos_le_refl.
Qed.

(* generic shape of a production's result *)
Definition wres_ok {A} (s : wstate) (nodes : A -> wstate -> Prop) (r : wres A) : Prop :=
  match r with
  | WOk a s' => wstep s s' /\ nodes a s' /\ (wrest s <> [] -> (length (wrest s') < length (wrest s))%nat)
  | WErr t _ s' => wstep s s' /\ tok_in (hw s) (hw s') t
  | WPanic _ => False
  | WFuel => False
  end.

Lemma tt_eqb_true a b : tt_eqb a b = true <-> a = b.
Proof.
  unfold tt_eqb. rewrite N.eqb_eq. split; [|intros ->; reflexivity].
  destruct a, b; cbn; intros H; try discriminate; reflexivity.
Qed.
Lemma tt_eqb_false a b : tt_eqb a b = false <-> a <> b.
Proof.
  rewrite <- tt_eqb_true. destruct (tt_eqb a b); split; congruence.
Qed.

(* ---- popIdent / popReference ---------------------------------------------- *)
Lemma as_ident_pos t i : as_ident t = Some i -> tstart i = tstart t /\ tend i = tend t.
Proof. unfold as_ident. destruct (ty t); intros [= <-]; auto. Qed.
Lemma as_ident_some t : ty t = IDENT \/ ty t = BOOL -> exists i, as_ident t = Some i.
Proof. unfold as_ident. intros [-> | ->]; eauto. Qed.

Lemma pop_ident_spec s : wst_ok s -> wlive s ->
  wres_ok s (fun i s' => tok_in (hw s) (hw s') i /\ tend i = hw s') (pop_ident s) /\
  (next_type s = IDENT \/ next_type s = BOOL -> exists i s', pop_ident s = WOk i s').
Proof.
  intros Hok Hl. unfold pop_ident.
  destruct (pop_token_spec s Hok Hl) as (t & s' & E & Hst & Hin & Hty & Hlen & Hte).
  rewrite E. cbn [wbind]. split.
  - destruct (as_ident t) as [i|] eqn:Ei; cbn.
    + destruct (as_ident_pos _ _ Ei) as [A B]. split; [exact Hst|]. split; [|exact Hlen].
      unfold tok_in in *. rewrite A, B. split; [exact Hin|exact Hte].
    + split; assumption.
  - intros Hn. rewrite <- Hty in Hn. destruct (as_ident_some t Hn) as [i ->]. eauto.
Qed.

Lemma ref_start_snoc acc i : ref_start (acc ++ [i]) = match acc with [] => tstart i | t :: _ => tstart t end.
Proof. destruct acc; reflexivity. Qed.
Lemma ref_end_snoc acc i : ref_end (acc ++ [i]) = tend i.
Proof. unfold ref_end. rewrite last_last. reflexivity. Qed.

Definition ident_nodes (r : reference) : list pnode := map (fun t => (7%N, tstart t, tend t)) r.

Lemma pop_reference_loop_spec : forall fuel acc s lo,
  wst_ok s -> wlive s -> pos_le lo (hw s) ->
  nodes_ok lo (hw s) (ident_nodes acc) ->
  (acc <> [] -> pos_le lo (ref_start acc) /\ valid_pos inp (ref_start acc) /\ pos_le (ref_start acc) (hw s)) ->
  (acc = [] -> next_type s = IDENT \/ next_type s = BOOL) ->
  (length (wrest s) < fuel)%nat ->
  match pop_reference_loop fuel acc s with
  | WOk r s' => wstep s s' /\ r <> [] /\ nodes_ok lo (hw s') (ref_nodes r) /\ ref_end r = hw s' /\
                (wrest s <> [] -> (length (wrest s') < length (wrest s))%nat)
  | WErr t _ s' => wstep s s' /\ tok_in (hw s) (hw s') t
  | WPanic _ => False
  | WFuel => False
  end.
Proof.
  induction fuel as [|f IH]; intros acc s lo Hok Hl Hlo Hacc Hst Hfirst Hf; [lia|].
  cbn [pop_reference_loop].
  destruct (pop_ident_spec s Hok Hl) as [Hspec Hsome].
  destruct (pop_ident s) as [i s1|t wet s1|p|] eqn:E; cbn in Hspec.
  - destruct Hspec as (Hs1 & (Hin & Hend) & Hlen).
    assert (Hacc' : nodes_ok lo (hw s1) (ident_nodes (acc ++ [i]))).
    { unfold ident_nodes. rewrite map_app. apply nodes_app.
      - eapply nodes_weaken; [apply pos_le_refl|apply Hs1|exact Hacc].
      - constructor; [|constructor]. eapply range_weaken; [exact Hlo|apply pos_le_refl|exact Hin]. }
    assert (Hst' : pos_le lo (ref_start (acc ++ [i])) /\ valid_pos inp (ref_start (acc ++ [i])) /\
                   pos_le (ref_start (acc ++ [i])) (hw s1)).
    { rewrite ref_start_snoc. destruct acc as [|a0 acc0].
      - destruct Hin as (A & B & C & D & F). repeat split; auto.
        + eapply pos_le_trans; eauto.
        + eapply pos_le_trans; eauto.
      - destruct (Hst ltac:(discriminate)) as (A & B & C). cbn in *. repeat split; auto.
        eapply pos_le_trans; [exact C|apply Hs1]. }
    assert (Hne : acc ++ [i] <> []) by (destruct acc; discriminate).
    destruct (tt_eqb (next_type s1) DOT) eqn:Edot.
    + apply tt_eqb_true in Edot.
      assert (Hr1 : wrest s1 <> []).
      { apply next_type_not_eof; [apply Hs1|]. rewrite Edot. discriminate. }
      destruct (pop_token_spec s1 (ws_ok _ _ Hs1) (wstep_live _ _ Hs1)) as (t2 & s2 & E2 & Hs2 & Hin2 & Hty2 & Hlen2 & Hte2).
      rewrite E2. cbn [wbind].
      specialize (IH (acc ++ [i]) s2 lo (ws_ok _ _ Hs2) (wstep_live _ _ Hs2)).
      assert (H12 : wstep s s2) by (eapply wstep_trans; eauto).
      destruct (pop_reference_loop f (acc ++ [i]) s2) as [r s'|t wet s'|p|].
      * destruct IH as (A & B & C & D & F).
        -- eapply pos_le_trans; [exact Hlo|apply H12].
        -- eapply nodes_weaken; [apply pos_le_refl|apply Hs2|exact Hacc'].
        -- intros _. destruct Hst' as (X & Y & Z). repeat split; auto. eapply pos_le_trans; [exact Z|apply Hs2].
        -- intros Hn. contradiction.
        -- specialize (Hlen2 Hr1). pose proof (ws_len _ _ Hs1). lia.
        -- split; [eapply wstep_trans; eauto|]. repeat split; auto.
           intros Hr. specialize (Hlen2 Hr1). pose proof (ws_len _ _ Hs1). pose proof (ws_len _ _ A). lia.
      * destruct IH as (A & B).
        -- eapply pos_le_trans; [exact Hlo|apply H12].
        -- eapply nodes_weaken; [apply pos_le_refl|apply Hs2|exact Hacc'].
        -- intros _. destruct Hst' as (X & Y & Z). repeat split; auto. eapply pos_le_trans; [exact Z|apply Hs2].
        -- intros Hn. contradiction.
        -- specialize (Hlen2 Hr1). pose proof (ws_len _ _ Hs1). lia.
        -- split; [eapply wstep_trans; eauto|].
           eapply range_weaken; [apply H12|apply pos_le_refl|exact B].
      * apply IH.
        -- eapply pos_le_trans; [exact Hlo|apply H12].
        -- eapply nodes_weaken; [apply pos_le_refl|apply Hs2|exact Hacc'].
        -- intros _. destruct Hst' as (X & Y & Z). repeat split; auto. eapply pos_le_trans; [exact Z|apply Hs2].
        -- intros Hn. contradiction.
        -- specialize (Hlen2 Hr1). pose proof (ws_len _ _ Hs1). lia.
      * apply IH.
        -- eapply pos_le_trans; [exact Hlo|apply H12].
        -- eapply nodes_weaken; [apply pos_le_refl|apply Hs2|exact Hacc'].
        -- intros _. destruct Hst' as (X & Y & Z). repeat split; auto. eapply pos_le_trans; [exact Z|apply Hs2].
        -- intros Hn. contradiction.
        -- specialize (Hlen2 Hr1). pose proof (ws_len _ _ Hs1). lia.
    + split; [exact Hs1|]. split; [exact Hne|]. split; [|split; [rewrite ref_end_snoc; exact Hend|exact Hlen]].
      unfold ref_nodes. constructor; [|exact Hacc'].
      destruct Hst' as (X & Y & Z). rewrite ref_end_snoc, Hend. cbn.
      destruct Hin as (A & B & C & D & F). rewrite Hend in B. repeat split; auto using pos_le_refl.
  - destruct acc as [|a0 acc0].
    + destruct (Hsome (Hfirst eq_refl)) as (i & s' & E'). congruence.
    + exact Hspec.
  - exact Hspec.
  - exact Hspec.
Qed.

Lemma pop_reference_spec s :
  wst_ok s -> wlive s -> next_type s = IDENT \/ next_type s = BOOL ->
  wres_ok s (fun r s' => r <> [] /\ nodes_ok (hw s) (hw s') (ref_nodes r) /\ ref_end r = hw s') (pop_reference s).
Proof.
  intros Hok Hl Hn. unfold pop_reference.
  assert (H : match pop_reference_loop (S (length (wrest s))) [] s with
              | WOk r s' => wstep s s' /\ r <> [] /\ nodes_ok (hw s) (hw s') (ref_nodes r) /\ ref_end r = hw s' /\
                            (wrest s <> [] -> (length (wrest s') < length (wrest s))%nat)
              | WErr t _ s' => wstep s s' /\ tok_in (hw s) (hw s') t
              | WPanic _ => False
              | WFuel => False
              end).
  { apply pop_reference_loop_spec; auto.
    - apply pos_le_refl.
    - constructor.
    - intros Hne. exfalso. apply Hne. reflexivity. }
  destruct (pop_reference_loop (S (length (wrest s))) [] s) as [r s'|t wet s'|p|]; cbn; auto.
  destruct H as (A & B & C & D & F). split; [exact A|]. split; [|exact F]. split; [exact B|]. split; [exact C|exact D].
Qed.


(* ---- popValue --------------------------------------------------------------- *)
Lemma is_literal_not_eof t : is_literal t = true -> t <> EOF.
Proof. intros H ->. discriminate. Qed.

Lemma value_nodes_range lo hi v : nodes_ok lo hi (value_nodes v) ->
  range_ok lo hi (value_start v) (value_end v).
Proof. destruct v; cbn; intros H; inversion H; subst; assumption. Qed.

Definition value_res (s : wstate) (r : wres value) : Prop :=
  wres_ok s (fun v s' => nodes_ok (hw s) (hw s') (value_nodes v)) r.

Lemma pop_elems_spec pv (bound : nat) s s1 op :
  (forall s2, wst_ok s2 -> wlive s2 -> (length (wrest s2) < bound)%nat -> value_res s2 (pv s2)) ->
  wstep s s1 -> tok_in (hw s) (hw s1) op -> (length (wrest s1) < length (wrest s))%nat ->
  forall fuel2 acc s2,
  wstep s s2 -> pos_le (hw s1) (hw s2) -> (length (wrest s2) <= length (wrest s1))%nat ->
  nodes_ok (hw s) (hw s2) (flat_map value_nodes acc) ->
  (length (wrest s2) < fuel2)%nat -> (length (wrest s2) < bound)%nat ->
  value_res s (pop_elems pv fuel2 op acc s2).
Proof.
  intros Hpv Hst Hin Hlen.
  induction fuel2 as [|f2 IH2]; intros acc s2 H02 Hhw12 Hlen12 Hacc Hf2 Hff; [lia|].
  cbn [pop_elems].
  pose proof (Hpv s2 (ws_ok _ _ H02) (wstep_live _ _ H02) Hff) as Hv. unfold value_res in Hv.
  destruct (pv s2) as [v s3|t wet s3|p|]; cbn [wbind]; cbn in Hv; auto.
  - destruct Hv as (H23 & Hn & Hl3).
    assert (H03 : wstep s s3) by (eapply wstep_trans; eauto).
    assert (Hacc' : nodes_ok (hw s) (hw s3) (flat_map value_nodes (acc ++ [v]))).
    { rewrite flat_map_app. apply nodes_app.
      - eapply nodes_weaken; [apply pos_le_refl|apply H23|exact Hacc].
      - cbn. rewrite app_nil_r. eapply nodes_weaken; [apply H02|apply pos_le_refl|exact Hn]. }
    destruct (pop_token_spec s3 (ws_ok _ _ H23) (wstep_live _ _ H23)) as (t4 & s4 & E5 & H34 & Hin4 & Hty4 & Hlen4 & Hte4).
    assert (H04 : wstep s s4) by (eapply wstep_trans; eauto).
    destruct (tt_eqb (next_type s3) COMMA) eqn:Ec.
    + rewrite E5. cbn [wbind]. apply tt_eqb_true in Ec.
      assert (Hr3 : wrest s3 <> []). { apply next_type_not_eof; [apply H23|]. rewrite Ec. discriminate. }
      specialize (Hlen4 Hr3). pose proof (ws_len _ _ H23).
      apply IH2.
      * exact H04.
      * eapply pos_le_trans; [exact Hhw12|]. eapply pos_le_trans; [apply H23|apply H34].
      * pose proof (ws_len _ _ H34). lia.
      * eapply nodes_weaken; [apply pos_le_refl|apply H34|exact Hacc'].
      * lia.
      * lia.
    + destruct (tt_eqb (next_type s3) RBRACK) eqn:Eb; rewrite E5; cbn.
      * split; [exact H04|]. split; [|intros _; pose proof (ws_len _ _ H23); pose proof (ws_len _ _ H34); lia].
        constructor.
        -- cbn. destruct Hin as (A & B & C & D & F). destruct (ws_ok _ _ H34) as (V & _).
           repeat split; auto using pos_le_refl.
           eapply pos_le_trans; [exact D|]. eapply pos_le_trans; [exact F|].
           eapply pos_le_trans; [exact Hhw12|]. eapply pos_le_trans; [apply H23|apply H34].
        -- eapply nodes_weaken; [apply pos_le_refl|apply H34|exact Hacc'].
      * split; [exact H04|]. eapply range_weaken; [apply H03|apply pos_le_refl|exact Hin4].
  - destruct Hv as (H23 & Hin3). split; [eapply wstep_trans; eauto|].
    eapply range_weaken; [apply H02|apply pos_le_refl|exact Hin3].
Qed.

Lemma pop_value_spec : forall fuel depth s,
  wst_ok s -> wlive s -> (length (wrest s) < fuel)%nat -> value_res s (pop_value fuel depth s).
Proof.
  induction fuel as [|f IH]; intros depth s Hok Hl Hf; [lia|].
  cbn [pop_value].
  destruct (tt_eqb (next_type s) IDENT) eqn:E1.
  { apply tt_eqb_true in E1.
    pose proof (pop_reference_spec s Hok Hl (or_introl E1)) as H.
    destruct (pop_reference s) as [r s1|t wet s1|p|]; cbn in *; auto.
    destruct H as (A & (B & C & D) & F). split; [exact A|]. split; [|exact F].
    inversion C as [|x l Hx Hl']; subst. constructor; [exact Hx|constructor; [exact Hx|constructor]]. }
  destruct (is_literal (next_type s)) eqn:E2.
  { destruct (pop_token_spec s Hok Hl) as (t & s1 & E & Hst & Hin & Hty & Hlen & Hte).
    rewrite E. cbn. split; [exact Hst|]. split; [|exact Hlen]. constructor; [exact Hin|constructor; [exact Hin|constructor]]. }
  destruct (tt_eqb (next_type s) LBRACK) eqn:E3; cycle 1.
  { destruct (pop_token_spec s Hok Hl) as (t & s1 & E & Hst & Hin & Hty & Hlen & Hte).
    rewrite E. cbn. split; assumption. }
  apply tt_eqb_true in E3.
  assert (Hr : wrest s <> []). { apply next_type_not_eof; auto. rewrite E3. discriminate. }
  destruct (pop_token_spec s Hok Hl) as (op & s1 & E & Hst & Hin & Hty & Hlen & Hte).
  rewrite E. cbn [wbind]. specialize (Hlen Hr).
  destruct (N.leb max_value_depth depth); [cbn; split; assumption|].
  destruct (tt_eqb (next_type s1) RBRACK) eqn:E4.
  { destruct (pop_token_spec s1 (ws_ok _ _ Hst) (wstep_live _ _ Hst)) as (t2 & s2 & E' & Hst2 & Hin2 & Hty2 & Hlen2 & Hte2).
    rewrite E'. cbn. split; [eapply wstep_trans; eauto|]. split; [|intros _; pose proof (ws_len _ _ Hst2); lia].
    constructor; [|constructor]. cbn.
    destruct Hin as (A & B & C & D & F). destruct (ws_ok _ _ Hst2) as (V & _).
    repeat split; auto using pos_le_refl.
    eapply pos_le_trans; [exact D|]. eapply pos_le_trans; [exact F|apply Hst2]. }
  eapply (pop_elems_spec (pop_value f (N.succ depth)) f s s1 op); auto.
  - apply pos_le_refl.
  - constructor.
  - lia.
Qed.

Lemma pop_value_top_spec s : wst_ok s -> wlive s -> value_res s (pop_value_top s).
Proof. intros. apply pop_value_spec; auto. Qed.


(* ---- popDescription ------------------------------------------------------------ *)
Lemma peek_type_0 s : peek_type 0 s = next_type s.
Proof. unfold peek_type, next_type. destruct (wrest s); reflexivity. Qed.

Lemma toks_in_weaken lo hi hi' (l : list token) : pos_le hi hi' -> Forall (tok_in lo hi) l -> Forall (tok_in lo hi') l.
Proof. intros H. apply Forall_impl. intros t. apply range_weaken; [apply pos_le_refl|exact H]. Qed.

Lemma pop_description_loop_spec : forall fuel acc s lo,
  wst_ok s -> wlive s -> pos_le lo (hw s) ->
  (acc <> [] -> pos_le lo (ref_start acc) /\ valid_pos inp (ref_start acc) /\ pos_le (ref_start acc) (hw s)) ->
  Forall (tok_in lo (hw s)) acc ->
  (length (wrest s) < fuel)%nat ->
  match pop_description_loop fuel acc s with
  | WOk d s' => wstep s s' /\ range_ok lo (hw s') (dsstart d) (dsend d) /\ Forall (tok_in lo (hw s')) (dtoks d) /\
                (wrest s <> [] -> (length (wrest s') < length (wrest s))%nat)
  | _ => False
  end.
Proof.
  induction fuel as [|f IH]; intros acc s lo Hok Hl Hlo Hst Hacc Hf; [lia|].
  cbn [pop_description_loop].
  destruct (pop_token_spec s Hok Hl) as (t & s1 & E & Hs1 & Hin & Hty & Hlen & Hte).
  rewrite E. cbn [wbind].
  assert (Hacc1 : Forall (tok_in lo (hw s1)) (acc ++ [t])).
  { apply Forall_app. split; [eapply toks_in_weaken; [apply Hs1|exact Hacc]|].
    constructor; [|constructor]. eapply range_weaken; [exact Hlo|apply pos_le_refl|exact Hin]. }
  assert (Hst' : pos_le lo (ref_start (acc ++ [t])) /\ valid_pos inp (ref_start (acc ++ [t])) /\
                 pos_le (ref_start (acc ++ [t])) (hw s1)).
  { rewrite ref_start_snoc. destruct acc as [|a0 acc0].
    - destruct Hin as (A & B & C & D & F). repeat split; auto.
      + eapply pos_le_trans; eauto.
      + eapply pos_le_trans; eauto.
    - destruct (Hst ltac:(discriminate)) as (A & B & C). cbn in *. repeat split; auto.
      eapply pos_le_trans; [exact C|apply Hs1]. }
  destruct (tt_eqb (peek_type 0 s1) EOL && tt_eqb (peek_type 1 s1) DESCRIPTION)%bool eqn:Ep.
  - apply andb_true_iff in Ep. destruct Ep as [Ep0 Ep1]. rewrite peek_type_0 in Ep0. apply tt_eqb_true in Ep0.
    assert (Hr1 : wrest s1 <> []). { apply next_type_not_eof; [apply Hs1|]. rewrite Ep0. discriminate. }
    destruct (pop_token_spec s1 (ws_ok _ _ Hs1) (wstep_live _ _ Hs1)) as (t2 & s2 & E2 & Hs2 & Hin2 & Hty2 & Hlen2 & Hte2).
    rewrite E2. cbn [wbind]. specialize (Hlen2 Hr1).
    assert (H12 : wstep s s2) by (eapply wstep_trans; eauto).
    assert (P1 : pos_le lo (hw s2)) by (eapply pos_le_trans; [exact Hlo|apply H12]).
    assert (P2 : acc ++ [t] <> [] -> pos_le lo (ref_start (acc ++ [t])) /\ valid_pos inp (ref_start (acc ++ [t])) /\
                                      pos_le (ref_start (acc ++ [t])) (hw s2)).
    { intros _. destruct Hst' as (X & Y & Z). repeat split; auto. eapply pos_le_trans; [exact Z|apply Hs2]. }
    assert (P3 : Forall (tok_in lo (hw s2)) (acc ++ [t])) by (eapply toks_in_weaken; [apply Hs2|exact Hacc1]).
    assert (P4 : (length (wrest s2) < f)%nat) by (pose proof (ws_len _ _ Hs1); lia).
    specialize (IH (acc ++ [t]) s2 lo (ws_ok _ _ Hs2) (wstep_live _ _ Hs2) P1 P2 P3 P4).
    destruct (pop_description_loop f (acc ++ [t]) s2) as [d s'|t' wetq s'|p|]; try exact IH.
    destruct IH as (A & B & Bt & C).
    split; [eapply wstep_trans; eauto|]. split; [exact B|]. split; [exact Bt|].
    intros _. pose proof (ws_len _ _ Hs1). pose proof (ws_len _ _ A). lia.
  - split; [exact Hs1|]. split; [|split; [exact Hacc1|exact Hlen]]. cbn. rewrite ref_end_snoc, Hte.
    destruct Hst' as (X & Y & Z). destruct (ws_ok _ _ Hs1) as (V & _).
    repeat split; auto using pos_le_refl.
Qed.

Lemma pop_description_spec s k : wst_ok s -> wlive s ->
  wres_ok s (fun d s' => nodes_ok (hw s) (hw s') (desc_nodes k d)) (pop_description s).
Proof.
  intros Hok Hl. unfold pop_description.
  pose proof (pop_description_loop_spec (S (length (wrest s))) [] s (hw s) Hok Hl (pos_le_refl _)) as H.
  assert (Hnil : @nil token <> [] -> pos_le (hw s) (ref_start []) /\ valid_pos inp (ref_start []) /\ pos_le (ref_start []) (hw s)).
  { intros Hne. exfalso. apply Hne. reflexivity. }
  specialize (H Hnil (Forall_nil _) ltac:(lia)).
  destruct (pop_description_loop (S (length (wrest s))) [] s) as [d s'|t wet s'|p|]; cbn; auto; try contradiction.
  destruct H as (A & B & Bt & C). split; [exact A|]. split; [|exact C].
  unfold desc_nodes. constructor; [exact B|]. apply Forall_forall. intros n Hn. apply in_map_iff in Hn.
  destruct Hn as (t & <- & Ht). rewrite Forall_forall in Bt. apply (Bt t Ht).
Qed.

(* ---- popTag ------------------------------------------------------------------------ *)
Definition tag_res (s : wstate) (r : wres tag) : Prop :=
  wres_ok s (fun t s' => nodes_ok (hw s) (hw s') (tag_nodes t)) r.

(* a tag without its mark token *)
Definition tag_core (t : tag) : list pnode :=
  (8%N, tgstart t, tgend t) :: match tbody t with TagRef r => ref_nodes r | TagVal v => value_nodes v end.
Lemma tag_nodes_of_core lo hi t : nodes_ok lo hi (tag_core t) -> nodes_ok lo hi (mark_nodes t) -> nodes_ok lo hi (tag_nodes t).
Proof.
  unfold tag_core, tag_nodes. intros H Hm. inversion H as [|x l Hx Hl']; subst.
  constructor; [exact Hx|]. apply Forall_app. split; assumption.
Qed.

Lemma after_mark_spec s0 s mk mt : wstep s0 s \/ (s0 = s /\ wst_ok s /\ wlive s) ->
  let r := match next_type s with
    | IDENT | BOOL =>
      wbind (pop_reference s) (fun r s1 => WOk (mkTag mk mt (TagRef r) (ref_start r) (ref_end r)) s1)
    | STRING =>
      wbind (pop_value_top s) (fun v s1 => WOk (mkTag mk mt (TagVal v) (value_start v) (value_end v)) s1)
    | _ => wbind (pop_token s) (fun t s1 => WErr t (Expected exp_tag) s1)
    end in
  match r with
  | WOk t s' => wstep s s' /\ nodes_ok (hw s) (hw s') (tag_core t) /\ tmark_tok t = mt /\
                (wrest s <> [] -> (length (wrest s') < length (wrest s))%nat)
  | WErr t _ s' => wstep s s' /\ tok_in (hw s) (hw s') t
  | _ => False
  end.
Proof.
  intros H0.
  assert (Hok : wst_ok s) by (destruct H0 as [H|(_ & H & _)]; [apply H|exact H]).
  assert (Hl : wlive s) by (destruct H0 as [H|(_ & _ & H)]; [eapply wstep_live; eauto|exact H]).
  cbv zeta.
  assert (Href : next_type s = IDENT \/ next_type s = BOOL ->
    match wbind (pop_reference s) (fun r s1 => WOk (mkTag mk mt (TagRef r) (ref_start r) (ref_end r)) s1) with
    | WOk t s' => wstep s s' /\ nodes_ok (hw s) (hw s') (tag_core t) /\ tmark_tok t = mt /\
                  (wrest s <> [] -> (length (wrest s') < length (wrest s))%nat)
    | WErr t _ s' => wstep s s' /\ tok_in (hw s) (hw s') t
    | _ => False
    end).
  { intros Hn. pose proof (pop_reference_spec s Hok Hl Hn) as H.
    destruct (pop_reference s) as [r s1|t wet s1|p|]; cbn in *; auto.
    destruct H as (A & (B & C & D) & F). split; [exact A|]. split; [|split; [reflexivity|exact F]].
    unfold tag_core. cbn. inversion C as [|x l Hx Hl']; subst. constructor; [exact Hx|exact C]. }
  assert (Hdef : match wbind (pop_token s) (fun t s1 => WErr (A:=tag) t (Expected exp_tag) s1) with
    | WOk t s' => wstep s s' /\ nodes_ok (hw s) (hw s') (tag_core t) /\ tmark_tok t = mt /\
                  (wrest s <> [] -> (length (wrest s') < length (wrest s))%nat)
    | WErr t _ s' => wstep s s' /\ tok_in (hw s) (hw s') t
    | _ => False
    end).
  { destruct (pop_token_spec s Hok Hl) as (t & s1 & E & Hst & Hin & Hty & Hlen & Hte).
    rewrite E. cbn. split; assumption. }
  destruct (next_type s) eqn:En; try exact Hdef; try (apply Href; auto).
  pose proof (pop_value_top_spec s Hok Hl) as H. unfold value_res in H.
  destruct (pop_value_top s) as [v s1|t wet s1|p|]; cbn in *; auto.
  destruct H as (A & B & C). split; [exact A|]. split; [|split; [reflexivity|exact C]].
  unfold tag_core. cbn. constructor; [|exact B]. apply value_nodes_range, B.
Qed.

Lemma no_mark_lift s (r : wres tag) :
  match r with
  | WOk t s' => wstep s s' /\ nodes_ok (hw s) (hw s') (tag_core t) /\ tmark_tok t = None /\
                (wrest s <> [] -> (length (wrest s') < length (wrest s))%nat)
  | WErr t _ s' => wstep s s' /\ tok_in (hw s) (hw s') t
  | _ => False
  end -> wres_ok s (fun t s' => nodes_ok (hw s) (hw s') (tag_nodes t)) r.
Proof.
  destruct r as [tg s2|t2 wet2 s2|p|]; cbn; auto.
  intros (A & B & Hmt & C). split; [exact A|]. split; [|exact C].
  apply tag_nodes_of_core; [exact B|]. unfold mark_nodes. rewrite Hmt. constructor.
Qed.

Lemma pop_tag_spec s : wst_ok s -> wlive s -> tag_res s (pop_tag s).
Proof.
  intros Hok Hl. unfold tag_res, pop_tag.
  assert (Hmark : forall mk,
    wres_ok s (fun t s' => nodes_ok (hw s) (hw s') (tag_nodes t))
     (wbind (pop_token s) (fun t s1 =>
        match next_type s1 with
        | IDENT | BOOL =>
          wbind (pop_reference s1) (fun r s2 => WOk (mkTag mk (Some t) (TagRef r) (ref_start r) (ref_end r)) s2)
        | STRING =>
          wbind (pop_value_top s1) (fun v s2 => WOk (mkTag mk (Some t) (TagVal v) (value_start v) (value_end v)) s2)
        | _ => wbind (pop_token s1) (fun t s2 => WErr t (Expected exp_tag) s2)
        end))).
  { intros mk. destruct (pop_token_spec s Hok Hl) as (t & s1 & E & Hst & Hin & Hty & Hlen & Hte).
    rewrite E. cbn [wbind].
    pose proof (after_mark_spec s s1 mk (Some t) (or_introl Hst)) as H. cbv zeta in H.
    match goal with |- wres_ok _ _ ?r => destruct r as [tg s2|t2 wet2 s2|p|] end; cbn in *; auto.
    - destruct H as (A & B & Hmt & C). split; [eapply wstep_trans; eauto|]. split.
      + apply tag_nodes_of_core.
        * eapply nodes_weaken; [apply Hst|apply pos_le_refl|exact B].
        * unfold mark_nodes. rewrite Hmt. constructor; [|constructor].
          eapply range_weaken; [apply pos_le_refl|apply A|exact Hin].
      + intros Hr. specialize (Hlen Hr). pose proof (ws_len _ _ A). lia.
    - destruct H as (A & B). split; [eapply wstep_trans; eauto|].
      eapply range_weaken; [apply Hst|apply pos_le_refl|exact B]. }
  destruct (next_type s) eqn:En; try apply Hmark;
    pose proof (after_mark_spec s s MarkNone None (or_intror (conj eq_refl (conj Hok Hl)))) as H; cbv zeta in H;
    rewrite En in H; apply no_mark_lift; exact H.
Qed.

(* ---- endStatement ------------------------------------------------------------------ *)
Lemma end_statement_spec s : wst_ok s -> wlive s ->
  wres_ok s (fun c s' => nodes_ok (hw s) (hw s') (comment_nodes c)) (end_statement s).
Proof.
  intros Hok Hl. unfold end_statement.
  destruct (pop_token_spec s Hok Hl) as (t & s1 & E & Hst & Hin & Hty & Hlen & Hte).
  rewrite E. cbn [wbind].
  destruct (ty t) eqn:Et; try (cbn; split; assumption);
    try (cbn; split; [exact Hst|]; split; [constructor|exact Hlen]).
  destruct (pop_token_spec s1 (ws_ok _ _ Hst) (wstep_live _ _ Hst)) as (t2 & s2 & E2 & Hs2 & Hin2 & Hty2 & Hlen2 & Hte2).
  rewrite E2. cbn [wbind].
  assert (H02 : wstep s s2) by (eapply wstep_trans; eauto).
  assert (Hc : nodes_ok (hw s) (hw s2) (comment_nodes (Some (mkComment (lit t) (tstart t) (tend t))))).
  { cbn. constructor; [|constructor]. eapply range_weaken; [apply pos_le_refl|apply Hs2|exact Hin]. }
  assert (Hlen' : wrest s <> [] -> (length (wrest s2) < length (wrest s))%nat).
  { intros Hr. specialize (Hlen Hr). pose proof (ws_len _ _ Hs2). lia. }
  destruct (ty t2); cbn; try (split; [exact H02|split; [exact Hc|exact Hlen']]);
    (split; [exact H02|eapply range_weaken; [apply Hst|apply pos_le_refl|exact Hin2]]).
Qed.


(* ---- statements ---------------------------------------------------------------------- *)
(* a fragment produced between s and s', with everything at or after lo *)
Definition frag_res (lo : pos) (s : wstate) (r : wres fragment) : Prop :=
  match r with
  | WOk f s' => wstep s s' /\ nodes_ok lo (hw s') (frag_nodes f) /\
                (wrest s <> [] -> (length (wrest s') < length (wrest s))%nat)
  | WErr t _ s' => wstep s s' /\ tok_in (hw s) (hw s') t
  | _ => False
  end.

Lemma ref_nodes_head lo hi r : nodes_ok lo hi (ref_nodes r) -> range_ok lo hi (ref_start r) (ref_end r).
Proof. intros H. inversion H; subst. assumption. Qed.

Lemma walk_value_assign_spec r app s lo :
  wst_ok s -> wlive s -> pos_le lo (hw s) -> nodes_ok lo (hw s) (ref_nodes r) ->
  frag_res lo s (walk_value_assign r app s).
Proof.
  intros Hok Hl Hlo Hr. unfold walk_value_assign.
  destruct (pop_token_spec s Hok Hl) as (t & s1 & E & Hst & Hin & Hty & Hlen & Hte).
  rewrite E. cbn [wbind].
  destruct (negb (tt_eqb (ty t) ASSIGN)); [cbn; split; assumption|].
  pose proof (pop_value_top_spec s1 (ws_ok _ _ Hst) (wstep_live _ _ Hst)) as Hv. unfold value_res in Hv.
  destruct (pop_value_top s1) as [v s2|t2 wet2 s2|p|]; cbn [wbind]; cbn in Hv; auto.
  - destruct Hv as (H12 & Hvn & Hl2).
    pose proof (end_statement_spec s2 (ws_ok _ _ H12) (wstep_live _ _ H12)) as He.
    destruct (end_statement s2) as [c s3|t3 wet3 s3|p|]; cbn [wbind]; cbn in He; auto.
    + destruct He as (H23 & Hcn & Hl3). cbn.
      assert (H03 : wstep s s3) by (eapply wstep_trans; [exact Hst|eapply wstep_trans; eauto]).
      split; [exact H03|]. split.
      * constructor.
        -- cbn. destruct (ref_nodes_head _ _ _ Hr) as (A & B & C & D & F).
           destruct (value_nodes_range _ _ _ Hvn) as (A' & B' & C' & D' & F').
           repeat split; auto.
           ++ eapply pos_le_trans; [exact D|]. eapply pos_le_trans; [exact F|].
              eapply pos_le_trans; [apply Hst|]. eapply pos_le_trans; [exact C'|exact D'].
           ++ eapply pos_le_trans; [exact F'|apply H23].
        -- apply nodes_app; [eapply nodes_weaken; [apply pos_le_refl|apply H03|exact Hr]|].
           apply nodes_app.
           ++ eapply nodes_weaken; [|apply H23|exact Hvn]. eapply pos_le_trans; [exact Hlo|apply Hst].
           ++ eapply nodes_weaken; [|apply pos_le_refl|exact Hcn].
              eapply pos_le_trans; [exact Hlo|]. eapply pos_le_trans; [apply Hst|apply H12].
      * intros Hne. specialize (Hlen Hne). pose proof (ws_len _ _ H12). pose proof (ws_len _ _ H23). lia.
    + destruct He as (H23 & Hin3). split; [eapply wstep_trans; [exact Hst|eapply wstep_trans; eauto]|].
      eapply range_weaken; [|apply pos_le_refl|exact Hin3]. eapply pos_le_trans; [apply Hst|apply H12].
  - destruct Hv as (H12 & Hin2). split; [eapply wstep_trans; eauto|].
    eapply range_weaken; [apply Hst|apply pos_le_refl|exact Hin2].
Qed.

Lemma can_start_tag_not_eof t : can_start_tag t = true -> t <> EOF.
Proof. intros H ->. discriminate. Qed.

Lemma tags_loop_spec : forall fuel acc s lo,
  wst_ok s -> wlive s -> pos_le lo (hw s) -> nodes_ok lo (hw s) (flat_map tag_nodes acc) ->
  (length (wrest s) < fuel)%nat ->
  match tags_loop fuel acc s with
  | WOk ts s' => (s' = s \/ wstep s s') /\ wst_ok s' /\ wlive s' /\ pos_le (hw s) (hw s') /\
                 (length (wrest s') <= length (wrest s))%nat /\
                 nodes_ok lo (hw s') (flat_map tag_nodes ts)
  | WErr t _ s' => wstep s s' /\ tok_in (hw s) (hw s') t
  | _ => False
  end.
Proof.
  induction fuel as [|f IH]; intros acc s lo Hok Hl Hlo Hacc Hf; [lia|].
  cbn [tags_loop]. destruct (can_start_tag (next_type s)) eqn:Ec.
  - assert (Hr : wrest s <> []). { apply next_type_not_eof; auto. apply can_start_tag_not_eof, Ec. }
    pose proof (pop_tag_spec s Hok Hl) as Ht. unfold tag_res in Ht.
    destruct (pop_tag s) as [t s1|t wet s1|p|]; cbn [wbind]; cbn in Ht; auto.
    destruct Ht as (H01 & Hn & Hlen). specialize (Hlen Hr).
    specialize (IH (acc ++ [t]) s1 lo (ws_ok _ _ H01) (wstep_live _ _ H01)).
    destruct (tags_loop f (acc ++ [t]) s1) as [ts s'|t' wetq s'|p|]; try (apply IH).
    + destruct IH as (A & B & C & D & E & F).
      * eapply pos_le_trans; [exact Hlo|apply H01].
      * rewrite flat_map_app. apply nodes_app.
        -- eapply nodes_weaken; [apply pos_le_refl|apply H01|exact Hacc].
        -- cbn. rewrite app_nil_r. eapply nodes_weaken; [exact Hlo|apply pos_le_refl|exact Hn].
      * lia.
      * split; [right; destruct A as [->|A]; [exact H01|eapply wstep_trans; eauto]|].
        split; [exact B|]. split; [exact C|]. split; [eapply pos_le_trans; [apply H01|exact D]|]. split; [pose proof (ws_len _ _ H01); lia|exact F].
    + destruct IH as (A & B).
      * eapply pos_le_trans; [exact Hlo|apply H01].
      * rewrite flat_map_app. apply nodes_app.
        -- eapply nodes_weaken; [apply pos_le_refl|apply H01|exact Hacc].
        -- cbn. rewrite app_nil_r. eapply nodes_weaken; [exact Hlo|apply pos_le_refl|exact Hn].
      * lia.
      * split; [eapply wstep_trans; eauto|]. eapply range_weaken; [apply H01|apply pos_le_refl|exact B].
    + eapply pos_le_trans; [exact Hlo|apply H01].
    + rewrite flat_map_app. apply nodes_app.
      -- eapply nodes_weaken; [apply pos_le_refl|apply H01|exact Hacc].
      -- cbn. rewrite app_nil_r. eapply nodes_weaken; [exact Hlo|apply pos_le_refl|exact Hn].
    + lia.
    + eapply pos_le_trans; [exact Hlo|apply H01].
    + rewrite flat_map_app. apply nodes_app.
      -- eapply nodes_weaken; [apply pos_le_refl|apply H01|exact Hacc].
      -- cbn. rewrite app_nil_r. eapply nodes_weaken; [exact Hlo|apply pos_le_refl|exact Hn].
    + lia.
  - split; [left; reflexivity|]. split; [exact Hok|]. split; [exact Hl|]. split; [apply pos_le_refl|]. split; [lia|exact Hacc].
Qed.

Lemma quals_loop_spec : forall fuel acc s lo,
  wst_ok s -> wlive s -> pos_le lo (hw s) -> nodes_ok lo (hw s) (flat_map tag_nodes acc) ->
  (length (wrest s) < fuel)%nat ->
  match quals_loop fuel acc s with
  | WOk ts s' => (s' = s \/ wstep s s') /\ wst_ok s' /\ wlive s' /\ pos_le (hw s) (hw s') /\
                 (length (wrest s') <= length (wrest s))%nat /\
                 nodes_ok lo (hw s') (flat_map tag_nodes ts)
  | WErr t _ s' => wstep s s' /\ tok_in (hw s) (hw s') t
  | _ => False
  end.
Proof.
  induction fuel as [|f IH]; intros acc s lo Hok Hl Hlo Hacc Hf; [lia|].
  cbn [quals_loop]. destruct (tt_eqb (next_type s) COLON) eqn:Ec.
  - apply tt_eqb_true in Ec.
    assert (Hr : wrest s <> []). { apply next_type_not_eof; auto. rewrite Ec. discriminate. }
    destruct (pop_token_spec s Hok Hl) as (t0 & s0 & E & Hst & Hin & Hty & Hlen0 & Hte).
    rewrite E. cbn [wbind]. specialize (Hlen0 Hr).
    pose proof (pop_tag_spec s0 (ws_ok _ _ Hst) (wstep_live _ _ Hst)) as Ht. unfold tag_res in Ht.
    destruct (pop_tag s0) as [t s1|t wet s1|p|]; cbn [wbind]; cbn in Ht; auto.
    + destruct Ht as (H01' & Hn & Hlen).
      assert (H01 : wstep s s1) by (eapply wstep_trans; eauto).
      assert (Hacc' : nodes_ok lo (hw s1) (flat_map tag_nodes (acc ++ [t]))).
      { rewrite flat_map_app. apply nodes_app.
        -- eapply nodes_weaken; [apply pos_le_refl|apply H01|exact Hacc].
        -- cbn. rewrite app_nil_r. eapply nodes_weaken; [|apply pos_le_refl|exact Hn].
           eapply pos_le_trans; [exact Hlo|apply Hst]. }
      specialize (IH (acc ++ [t]) s1 lo (ws_ok _ _ H01) (wstep_live _ _ H01)).
      assert (Hlo1 : pos_le lo (hw s1)) by (eapply pos_le_trans; [exact Hlo|apply H01]).
      assert (Hf1 : (length (wrest s1) < f)%nat) by (pose proof (ws_len _ _ H01'); lia).
      destruct (quals_loop f (acc ++ [t]) s1) as [ts s'|t' wetq s'|p|]; try (apply IH; auto).
      * destruct (IH Hlo1 Hacc' Hf1) as (A & B & C & D & E' & F).
        split; [right; destruct A as [->|A]; [exact H01|eapply wstep_trans; eauto]|].
        split; [exact B|]. split; [exact C|]. split; [eapply pos_le_trans; [apply H01|exact D]|]. split; [pose proof (ws_len _ _ H01); lia|exact F].
      * destruct (IH Hlo1 Hacc' Hf1) as (A & B).
        split; [eapply wstep_trans; eauto|]. eapply range_weaken; [apply H01|apply pos_le_refl|exact B].
    + destruct Ht as (A & B). split; [eapply wstep_trans; eauto|].
      eapply range_weaken; [apply Hst|apply pos_le_refl|exact B].
  - split; [left; reflexivity|]. split; [exact Hok|]. split; [exact Hl|]. split; [apply pos_le_refl|]. split; [lia|exact Hacc].
Qed.


Lemma header_nodes_ok lo hi r tags quals d c st en op :
  nodes_ok lo hi (ref_nodes r) -> nodes_ok lo hi (flat_map tag_nodes tags) ->
  nodes_ok lo hi (flat_map tag_nodes quals) ->
  nodes_ok lo hi (match d with Some d => desc_nodes 12 d | None => [] end) ->
  nodes_ok lo hi (comment_nodes c) -> range_ok lo hi st en ->
  nodes_ok lo hi (header_nodes (mkHeader r tags quals d op st en c)).
Proof.
  intros H1 H2 H3 H4 H5 H6. unfold header_nodes.
  cbn [hstart hend htype htags hquals hdesc hcomment].
  constructor; [exact H6|].
  apply nodes_app; [exact H1|]. apply nodes_app; [exact H2|]. apply nodes_app; [exact H3|].
  apply nodes_app; [exact H4|exact H5].
Qed.

Lemma step_or_same s1 s2 s : wstep s s1 -> s2 = s1 \/ wstep s1 s2 -> wstep s s2.
Proof. intros H [->|H2]; [exact H|eapply wstep_trans; eauto]. Qed.

Lemma walk_statement_spec s :
  wst_ok s -> wlive s -> next_type s = IDENT \/ next_type s = BOOL ->
  frag_res (hw s) s (walk_statement s).
Proof.
  intros Hok Hl Hn. unfold walk_statement.
  pose proof (pop_reference_spec s Hok Hl Hn) as Href.
  destruct (pop_reference s) as [r s1|t wet s1|p|]; cbn [wbind]; cbn in Href; auto.
  destruct Href as (H01 & (Hrne & Hrn & Hre) & Hlen1).
  assert (Hr0 : wrest s <> []).
  { apply next_type_not_eof; auto. destruct Hn as [-> | ->]; discriminate. }
  specialize (Hlen1 Hr0).
  assert (Hcompose : forall r0, frag_res (hw s) s1 r0 -> frag_res (hw s) s r0).
  { intros [f s'|t wet s'|p|]; cbn; auto.
    - intros (A & B & C). split; [eapply wstep_trans; eauto|]. split; [exact B|].
      intros _. pose proof (ws_len _ _ A). lia.
    - intros (A & B). split; [eapply wstep_trans; eauto|].
      eapply range_weaken; [apply H01|apply pos_le_refl|exact B]. }
  destruct (tt_eqb (next_type s1) ASSIGN) eqn:Ea.
  { apply Hcompose. apply walk_value_assign_spec; [apply H01|eapply wstep_live; eauto|apply H01|exact Hrn]. }
  destruct (tt_eqb (next_type s1) PLUS) eqn:Ep.
  { destruct (pop_token_spec s1 (ws_ok _ _ H01) (wstep_live _ _ H01)) as (t & s2 & E & H12 & Hin & Hty & Hlen & Hte).
    rewrite E. cbn [wbind].
    assert (H02 : wstep s s2) by (eapply wstep_trans; eauto).
    destruct (negb (tt_eqb (next_type s2) ASSIGN)).
    - destruct (pop_token_spec s2 (ws_ok _ _ H12) (wstep_live _ _ H12)) as (t3 & s3 & E3 & H23 & Hin3 & Hty3 & Hlen3 & Hte3).
      rewrite E3. cbn. split; [eapply wstep_trans; eauto|].
      eapply range_weaken; [apply H02|apply pos_le_refl|exact Hin3].
    - pose proof (walk_value_assign_spec r true s2 (hw s) (ws_ok _ _ H12) (wstep_live _ _ H12)) as Hw.
      destruct (walk_value_assign r true s2) as [f s'|t' wetq s'|p|]; cbn in *.
      + destruct Hw as (A & B & C); [apply H02|eapply nodes_weaken; [apply pos_le_refl|apply H12|exact Hrn]|].
        split; [eapply wstep_trans; eauto|]. split; [exact B|].
        intros _. pose proof (ws_len _ _ A). pose proof (ws_len _ _ H12). lia.
      + destruct Hw as (A & B); [apply H02|eapply nodes_weaken; [apply pos_le_refl|apply H12|exact Hrn]|].
        split; [eapply wstep_trans; eauto|]. eapply range_weaken; [apply H02|apply pos_le_refl|exact B].
      + apply Hw; [apply H02|eapply nodes_weaken; [apply pos_le_refl|apply H12|exact Hrn]].
      + apply Hw; [apply H02|eapply nodes_weaken; [apply pos_le_refl|apply H12|exact Hrn]]. }
  (* a block header *)
  pose proof (tags_loop_spec (S (length (wrest s1))) [] s1 (hw s) (ws_ok _ _ H01) (wstep_live _ _ H01)) as Ht.
  destruct (tags_loop (S (length (wrest s1))) [] s1) as [tags s2|t wet s2|p|]; cbn [wbind];
    try (apply Ht; [apply H01|constructor|lia]).
  2:{ destruct Ht as (A & B); [apply H01|constructor|lia|]. cbn.
      split; [eapply wstep_trans; eauto|]. eapply range_weaken; [apply H01|apply pos_le_refl|exact B]. }
  destruct Ht as (A2 & Hok2 & Hl2 & Hhw2 & Hlen2 & Htn); [apply H01|constructor|lia|].
  assert (H02 : wstep s s2) by (eapply step_or_same; eauto).
  pose proof (quals_loop_spec (S (length (wrest s2))) [] s2 (hw s) Hok2 Hl2) as Hq.
  destruct (quals_loop (S (length (wrest s2))) [] s2) as [quals s3|t wet s3|p|]; cbn [wbind];
    try (apply Hq; [apply H02|constructor|lia]).
  2:{ destruct Hq as (A & B); [apply H02|constructor|lia|]. cbn.
      split; [eapply wstep_trans; eauto|]. eapply range_weaken; [apply H02|apply pos_le_refl|exact B]. }
  destruct Hq as (A3 & Hok3 & Hl3 & Hhw3 & Hlen3 & Hqn); [apply H02|constructor|lia|].
  assert (H03 : wstep s s3) by (eapply step_or_same; eauto).
  assert (Hlt3 : (length (wrest s3) < length (wrest s))%nat) by lia.
  destruct (ref_nodes_head _ _ _ Hrn) as (R1 & R2 & R3 & R4 & R5).
  assert (Hstart3 : pos_le (ref_start r) (hw s3)).
  { eapply pos_le_trans; [exact R4|]. eapply pos_le_trans; [exact R5|].
    eapply pos_le_trans; [exact Hhw2|exact Hhw3]. }
  (* assembling a header whose last state is sN *)
  assert (Hhdr : forall sN d c en op, wstep s sN -> pos_le (hw s3) (hw sN) ->
            nodes_ok (hw s) (hw sN) (match d with Some d => desc_nodes 12 d | None => [] end) ->
            nodes_ok (hw s) (hw sN) (comment_nodes c) ->
            valid_pos inp en -> pos_le (hw s3) en -> pos_le en (hw sN) ->
            nodes_ok (hw s) (hw sN) (frag_nodes (FHeader (mkHeader r tags quals d op (ref_start r) en c)))).
  { intros sN d c en op HN H3N Hd Hc Hv He1 He2. cbn [frag_nodes]. apply header_nodes_ok; auto.
    - eapply nodes_weaken; [apply pos_le_refl| |exact Hrn].
      eapply pos_le_trans; [exact Hhw2|]. eapply pos_le_trans; [exact Hhw3|exact H3N].
    - eapply nodes_weaken; [apply pos_le_refl|exact H3N|].
      eapply nodes_weaken; [apply pos_le_refl|exact Hhw3|exact Htn].
    - eapply nodes_weaken; [apply pos_le_refl|exact H3N|exact Hqn].
    - repeat split; auto. eapply pos_le_trans; [exact Hstart3|exact He1]. }
  destruct (pop_token_spec s3 Hok3 Hl3) as (t4 & s4 & E4 & H34 & Hin4 & Hty4 & Hlen4 & Hte4).
  assert (H04 : wstep s s4) by (eapply wstep_trans; [exact H03|exact H34]).
  assert (Hdefault : frag_res (hw s) s (wbind (pop_token s3) (fun t s4 => WErr t (Expected exp_header) s4))).
  { rewrite E4. cbn. split; [exact H04|]. eapply range_weaken; [apply H03|apply pos_le_refl|exact Hin4]. }
  destruct (next_type s3) eqn:En3; try exact Hdefault.
  - (* EOF *) cbn. split; [exact H03|]. split; [|intros _; exact Hlt3].
    apply (Hhdr s3 None None (hw s3) false H03 (pos_le_refl _));
      [constructor|constructor|apply Hok3|apply pos_le_refl|apply pos_le_refl].
  - (* EOL *) cbn. split; [exact H03|]. split; [|intros _; exact Hlt3].
    apply (Hhdr s3 None None (hw s3) false H03 (pos_le_refl _));
      [constructor|constructor|apply Hok3|apply pos_le_refl|apply pos_le_refl].
  - (* COMMENT *)
    pose proof (end_statement_spec s3 Hok3 Hl3) as He.
    destruct (end_statement s3) as [c s5|t5 wet5 s5|p|]; cbn [wbind]; cbn in He; auto.
    + destruct He as (H35 & Hcn & Hl5). cbn.
      assert (H05 : wstep s s5) by (eapply wstep_trans; [exact H03|exact H35]).
      split; [exact H05|]. split; [|intros _; pose proof (ws_len _ _ H35); lia].
      apply (Hhdr s5 None c (hw s3) false H05 (ws_hw _ _ H35));
        [constructor| |apply Hok3|apply pos_le_refl|apply H35].
      eapply nodes_weaken; [apply H03|apply pos_le_refl|exact Hcn].
    + destruct He as (H35 & Hin5). cbn. split; [eapply wstep_trans; [exact H03|exact H35]|].
      eapply range_weaken; [apply H03|apply pos_le_refl|exact Hin5].
  - (* DESCRIPTION *)
    rewrite E4. cbn [wbind]. cbn. split; [exact H04|]. split; [|intros _; pose proof (ws_len _ _ H34); lia].
    apply (Hhdr s4 (Some (mkDescr [t4] (lit t4) (tstart t4) (tend t4))) None (hw s4) false H04 (ws_hw _ _ H34));
      [|constructor|apply H34|apply H34|apply pos_le_refl].
    unfold desc_nodes. cbn [dsstart dsend dtoks map].
    assert (Hr4 : range_ok (hw s) (hw s4) (tstart t4) (tend t4)) by (eapply range_weaken; [apply H03|apply pos_le_refl|exact Hin4]).
    constructor; [exact Hr4|]. constructor; [exact Hr4|constructor].
  - (* LBRACE *)
    rewrite E4. cbn [wbind].
    pose proof (end_statement_spec s4 (ws_ok _ _ H34) (wstep_live _ _ H34)) as He.
    destruct (end_statement s4) as [c s5|t5 wet5 s5|p|]; cbn [wbind]; cbn in He; auto.
    + destruct He as (H45 & Hcn & Hl5). cbn.
      assert (H05 : wstep s s5) by (eapply wstep_trans; [exact H04|exact H45]).
      split; [exact H05|]. split; [|intros _; pose proof (ws_len _ _ H34); pose proof (ws_len _ _ H45); lia].
      assert (H35 : pos_le (hw s3) (hw s5)) by (eapply pos_le_trans; [apply H34|apply H45]).
      apply (Hhdr s5 None c (hw s4) true H05 H35);
        [constructor| |apply H34|apply H34|apply H45].
      eapply nodes_weaken; [apply H04|apply pos_le_refl|exact Hcn].
    + destruct He as (H45 & Hin5). cbn. split; [eapply wstep_trans; [exact H04|exact H45]|].
      eapply range_weaken; [apply H04|apply pos_le_refl|exact Hin5].
Qed.

(* ---- nextFragment, recoverError, walkFragments ------------------------------------- *)
Definition ofrag_nodes (fo : option fragment) : list pnode :=
  match fo with Some f => frag_nodes f | None => [] end.

Lemma next_fragment_spec s : wst_ok s -> wlive s ->
  wres_ok s (fun fo s' => nodes_ok (hw s) (hw s') (ofrag_nodes fo)) (next_fragment s).
Proof.
  intros Hok Hl. unfold next_fragment.
  destruct (pop_token_spec s Hok Hl) as (t & s1 & E & Hst & Hin & Hty & Hlen & Hte).
  assert (Hnone : wres_ok s (fun fo s' => nodes_ok (hw s) (hw s') (ofrag_nodes fo))
                    (wbind (pop_token s) (fun _ s1 => WOk None s1))).
  { rewrite E. cbn. split; [exact Hst|]. split; [constructor|exact Hlen]. }
  assert (Herr : wres_ok s (fun fo s' => nodes_ok (hw s) (hw s') (ofrag_nodes fo))
                    (wbind (pop_token s) (fun t s1 => WErr t (Expected exp_fragment) s1))).
  { rewrite E. cbn. split; assumption. }
  assert (Hstmt : next_type s = IDENT \/ next_type s = BOOL ->
            wres_ok s (fun fo s' => nodes_ok (hw s) (hw s') (ofrag_nodes fo))
                    (wbind (walk_statement s) (fun f s1 => WOk (Some f) s1))).
  { intros Hn. pose proof (walk_statement_spec s Hok Hl Hn) as H.
    destruct (walk_statement s) as [f s'|t' wetq s'|p|]; cbn in *; auto. }
  destruct (next_type s) eqn:En; try exact Hnone; try exact Herr; try (apply Hstmt; auto).
  - (* COMMENT *) rewrite E. cbn. split; [exact Hst|]. split; [|exact Hlen]. constructor; [exact Hin|constructor].
  - (* BLOCK_COMMENT *) rewrite E. cbn. split; [exact Hst|]. split; [|exact Hlen]. constructor; [exact Hin|constructor].
  - (* DESCRIPTION *)
    pose proof (pop_description_spec s 3 Hok Hl) as H.
    destruct (pop_description s) as [d s'|t' wetq s'|p|]; cbn [wbind wres_ok ofrag_nodes frag_nodes] in *; auto.
  - (* RBRACE *) rewrite E. cbn. split; [exact Hst|]. split; [|exact Hlen]. constructor; [exact Hin|constructor].
Qed.

Lemma skip_to_eol_spec : forall fuel s, wst_ok s -> wlive s -> (length (wrest s) < fuel)%nat ->
  exists s', skip_to_eol fuel s = WOk tt s' /\ wstep s s'.
Proof.
  induction fuel as [|f IH]; intros s Hok Hl Hf; [lia|].
  cbn [skip_to_eol].
  destruct (pop_token_spec s Hok Hl) as (t & s1 & E & Hst & Hin & Hty & Hlen & Hte).
  rewrite E. cbn [wbind].
  destruct (tt_eqb (next_type s) EOL || tt_eqb (next_type s) EOF)%bool eqn:Ee.
  - exists s1. auto.
  - apply orb_false_iff in Ee. destruct Ee as [_ Ee]. apply tt_eqb_false in Ee.
    assert (Hr : wrest s <> []) by (apply next_type_not_eof; auto).
    specialize (Hlen Hr).
    destruct (IH s1 (ws_ok _ _ Hst) (wstep_live _ _ Hst)) as (s' & E' & H'); [lia|].
    exists s'. split; [exact E'|eapply wstep_trans; eauto].
Qed.

(* fragments one after the other: each within [lo_i, hi_i], hi_i <= lo_(i+1) *)
Fixpoint frags_chain (lo : pos) (fs : list fragment) : Prop :=
  match fs with
  | [] => True
  | f :: r => exists hi, nodes_ok lo hi (frag_nodes f) /\ pos_le lo hi /\ frags_chain hi r
  end.

Lemma frags_chain_weaken fs : forall lo lo', pos_le lo' lo -> frags_chain lo fs -> frags_chain lo' fs.
Proof.
  destruct fs as [|f r]; intros lo lo' Hl H; [exact I|].
  destruct H as (hi & A & B & C). exists hi. split; [eapply nodes_weaken; [exact Hl|apply pos_le_refl|exact A]|].
  split; [eapply pos_le_trans; eauto|exact C].
Qed.

Lemma tok_in_diag lo hi t e : tok_in lo hi t -> diag_wf inp (diag_of_tok t e).
Proof. intros (A & B & C & D & E). repeat split; assumption. Qed.

Lemma walk_fragments_loop_spec ff : forall fuel s,
  wst_ok s -> (length (wrest s) < fuel)%nat ->
  match walk_fragments_loop fuel ff s with
  | WalkOk fs ds => frags_chain (hw s) fs /\ Forall (diag_wf inp) ds
  | _ => False
  end.
Proof.
  induction fuel as [|f IH]; intros s Hok Hf; [lia|].
  cbn [walk_fragments_loop].
  destruct (tt_eqb (next_type s) EOF) eqn:Ee; [split; [exact I|constructor]|].
  apply tt_eqb_false in Ee.
  assert (Hr : wrest s <> []) by (apply next_type_not_eof; auto).
  assert (Hl : wlive s) by (left; exact Hr).
  pose proof (next_fragment_spec s Hok Hl) as Hn.
  destruct (next_fragment s) as [fo s1|t wet s1|p|]; cbn in Hn; auto.
  - destruct Hn as (H01 & Hnodes & Hlen). specialize (Hlen Hr).
    specialize (IH s1 (ws_ok _ _ H01) ltac:(lia)).
    destruct (walk_fragments_loop f ff s1) as [fs ds|p|]; auto.
    destruct IH as (A & B). split; [|exact B].
    destruct fo as [fr|]; cbn in *.
    + exists (hw s1). split; [exact Hnodes|]. split; [apply H01|exact A].
    + eapply frags_chain_weaken; [apply H01|exact A].
  - destruct Hn as (H01 & Hin).
    destruct ff.
    + split; [exact I|]. constructor; [eapply tok_in_diag; eauto|constructor].
    + destruct (skip_to_eol_spec (S (length (wrest s1))) s1 (ws_ok _ _ H01) (wstep_live _ _ H01)) as (s2 & E & H12); [lia|].
      rewrite E.
      (* the error path pops at least the offending token *)
      assert (Hlt : (length (wrest s2) < length (wrest s))%nat).
      { pose proof (ws_len _ _ H12). pose proof (ws_strict _ _ H01 Hr). lia. }
      specialize (IH s2 (ws_ok _ _ H12) ltac:(lia)).
      destruct (walk_fragments_loop f false s2) as [fs ds|p|]; auto.
      destruct IH as (A & B). split.
      * eapply frags_chain_weaken; [|exact A]. eapply pos_le_trans; [apply H01|apply H12].
      * constructor; [eapply tok_in_diag; eauto|exact B].
Qed.
End Walker.

(* ====================================================================== *)
(* fragmentsToFile and ParseFile                                            *)
Section File.
Variable inp : list N.

Definition node_wf (n : pnode) : Prop :=
  let '(_, st, en) := n in valid_pos inp st /\ valid_pos inp en /\ pos_le st en.

Lemma node_ok_wf lo hi n : node_ok inp lo hi n -> node_wf n.
Proof. destruct n as [[k st] en]. intros (A & B & C & D & E). repeat split; assumption. Qed.

Lemma frags_chain_wf fs : forall lo, frags_chain inp lo fs -> Forall node_wf (flat_map frag_nodes fs).
Proof.
  induction fs as [|f r IH]; intros lo H; [constructor|].
  destruct H as (hi & A & B & C). cbn. apply Forall_app. split.
  - eapply Forall_impl; [|exact A]. intros n. apply node_ok_wf.
  - eapply IH; eauto.
Qed.

(* consecutive fragments do not go backwards: the next one starts at or after the end of the previous *)
Fixpoint frags_ordered (fs : list fragment) : Prop :=
  match fs with
  | [] => True
  | f :: r => pos_le (frag_start f) (frag_end f) /\
              match r with [] => True | g :: _ => pos_le (frag_end f) (frag_start g) end /\
              frags_ordered r
  end.

Lemma frag_nodes_head f : exists k rest, frag_nodes f = (k, frag_start f, frag_end f) :: rest.
Proof. destruct f; cbn [frag_nodes frag_start frag_end]; unfold header_nodes, assign_nodes; do 2 eexists; reflexivity. Qed.

Lemma frags_chain_ordered fs : forall lo, frags_chain inp lo fs ->
  frags_ordered fs /\ match fs with [] => True | f :: _ => pos_le lo (frag_start f) end.
Proof.
  induction fs as [|f r IH]; intros lo H; [split; exact I|].
  destruct H as (hi & A & B & C).
  destruct (frag_nodes_head f) as (k & rest & E). rewrite E in A. inversion A as [|x l Hx Hl]; subst.
  destruct Hx as (V1 & V2 & L1 & L2 & L3).
  destruct (IH hi C) as (O & Hd). split; [|exact L1].
  cbn. split; [exact L2|]. split; [|exact O].
  destruct r as [|g r']; [exact I|]. eapply pos_le_trans; [exact L3|exact Hd].
Qed.

Definition stmts_wf (ss : list stmt) : Prop := Forall node_wf (flat_map stmt_nodes ss).
Definition stack_wf (st : list (header * list stmt)) : Prop :=
  Forall (fun hp => Forall node_wf (header_nodes (fst hp)) /\ stmts_wf (snd hp)) st.

Lemma marker_wf k : node_wf (k, pos0, pos0).
Proof. repeat split; try apply valid_pos0. apply pos_le_refl. Qed.

Lemma stmts_wf_snoc ss s : stmts_wf ss -> Forall node_wf (stmt_nodes s) -> stmts_wf (ss ++ [s]).
Proof.
  intros H1 H2. unfold stmts_wf. rewrite flat_map_app. apply Forall_app. split; [exact H1|].
  cbn. rewrite app_nil_r. exact H2.
Qed.

Lemma block_wf h body : Forall node_wf (header_nodes h) -> stmts_wf body ->
  Forall node_wf (stmt_nodes (SBlock h body)).
Proof.
  intros H1 H2. cbn [stmt_nodes]. apply Forall_app. split; [exact H1|].
  constructor; [apply marker_wf|]. apply Forall_app. split; [exact H2|].
  constructor; [apply marker_wf|constructor].
Qed.

Lemma to_file_loop_wf : forall fs cur stack errs,
  Forall node_wf (flat_map frag_nodes fs) -> stmts_wf cur -> stack_wf stack -> Forall (diag_wf inp) errs ->
  let '(cur', stack', errs') := to_file_loop fs cur stack errs in
  stmts_wf cur' /\ stack_wf stack' /\ Forall (diag_wf inp) errs'.
Proof.
  induction fs as [|f r IH]; intros cur stack errs Hf Hc Hs He; [cbn; auto|].
  cbn [flat_map] in Hf. apply Forall_app in Hf. destruct Hf as [Hf Hr].
  cbn [to_file_loop]. destruct f as [h|a|d|t|t].
  - cbn [frag_nodes] in Hf. destruct (hopen h).
    + apply IH; [exact Hr|constructor| |exact He]. constructor; [split; [exact Hf|exact Hc]|exact Hs].
    + apply IH; auto. apply stmts_wf_snoc; [exact Hc|]. apply block_wf; [exact Hf|constructor].
  - apply IH; auto. apply stmts_wf_snoc; [exact Hc|exact Hf].
  - apply IH; auto. apply stmts_wf_snoc; [exact Hc|exact Hf].
  - apply IH; auto.
  - destruct stack as [|[h parent] st].
    + apply IH; auto. apply Forall_app. split; [exact He|]. constructor; [|constructor].
      cbn in Hf. inversion Hf as [|x l Hx Hl]; subst. exact Hx.
    + inversion Hs as [|x l [Hh Hp] Hl]; subst. apply IH; auto.
      unfold close_level. apply stmts_wf_snoc; [exact Hp|]. apply block_wf; assumption.
Qed.

Lemma unwind_wf : forall stack cur, stmts_wf cur -> stack_wf stack -> stmts_wf (unwind cur stack).
Proof.
  induction stack as [|[h parent] st IH]; intros cur Hc Hs; [exact Hc|].
  inversion Hs as [|x l [Hh Hp] Hl]; subst. cbn [unwind]. apply IH; [|exact Hl].
  unfold close_level. apply stmts_wf_snoc; [exact Hp|]. apply block_wf; assumption.
Qed.

Lemma last_some_in {A} (l : list A) x : last (map Some l) None = Some x -> In x l.
Proof.
  induction l as [|a r IH]; cbn; [discriminate|].
  destruct r as [|b r']; cbn in *; [intros [= ->]; auto|]. intros H. right. apply IH, H.
Qed.

Lemma fragments_to_file_wf fs : Forall node_wf (flat_map frag_nodes fs) ->
  let '(body, errs) := fragments_to_file fs in stmts_wf body /\ Forall (diag_wf inp) errs.
Proof.
  intros Hf. unfold fragments_to_file.
  assert (H0 : stmts_wf []) by constructor.
  assert (H1 : stack_wf []) by constructor.
  assert (H2 : Forall (diag_wf inp) []) by constructor.
  pose proof (to_file_loop_wf fs [] [] [] Hf H0 H1 H2) as H.
  destruct (to_file_loop fs [] [] []) as [[cur stack] errs].
  destruct H as (A & B & C).
  cbv beta iota.
  split; [apply unwind_wf; assumption|].
  destruct stack as [|x st]; [exact C|].
  destruct (last (map Some fs) None) as [lf|] eqn:El; [|exact C].
  apply Forall_app. split; [exact C|]. constructor; [|constructor].
  apply last_some_in in El.
  assert (Hin : In (frag_nodes lf) (map frag_nodes fs)) by (apply in_map, El).
  destruct (frag_nodes_head lf) as (k & rest & E).
  assert (Hn : node_wf (k, frag_start lf, frag_end lf)).
  { rewrite Forall_forall in Hf. apply Hf. apply in_flat_map. exists lf. split; [exact El|].
    rewrite E. left. reflexivity. }
  exact Hn.
Qed.
End File.

(* ---- ParseFile: totality, tree-or-diagnostics, positions ---------------------------- *)
Lemma walk_fragments_spec data ff toks :
  chain_from data pos0 toks ->
  match walk_fragments ff toks with
  | WalkOk fs ds => frags_chain data pos0 fs /\ Forall (diag_wf data) ds
  | _ => False
  end.
Proof.
  intros Hc. unfold walk_fragments.
  apply (walk_fragments_loop_spec data ff (S (length toks)) (mkW toks None)); [|cbn; lia].
  split; [apply valid_pos0|]. split; [exact Hc|]. intros p Hp. discriminate.
Qed.

Theorem parse_runes_total ff data : exists p, parse_runes ff data = Ok p.
Proof.
  unfold parse_runes. pose proof (all_tokens_ok ff data) as Hl.
  destruct (all_tokens ff data) as [toks|ds|]; [|eauto|contradiction].
  pose proof (walk_fragments_spec data ff toks (schain_chain _ _ _ Hl)) as Hw.
  destruct (walk_fragments ff toks) as [fs ds|p|]; try contradiction.
  destruct ds as [|d r]; [|eauto]. destruct (fragments_to_file fs). eauto.
Qed.

Theorem parse_runes_tree_or_diags ff data p :
  parse_runes ff data = Ok p ->
  (exists body, ptree p = Some body) /\ pdiags p = [] \/ pdiags p <> [].
Proof.
  unfold parse_runes. pose proof (all_tokens_ok ff data) as Hl.
  destruct (all_tokens ff data) as [toks|ds|]; [| |contradiction].
  - destruct (walk_fragments ff toks) as [fs ds|pp|]; try discriminate.
    destruct ds as [|d r].
    + destruct (fragments_to_file fs) as [body errs]. intros [= <-]. cbn.
      destruct errs; [left; eauto|right; discriminate].
    + intros [= <-]. right. discriminate.
  - intros [= <-]. right. apply Hl.
Qed.

Theorem parse_runes_positions ff data p :
  parse_runes ff data = Ok p ->
  Forall (diag_wf data) (pdiags p) /\
  forall body, ptree p = Some body -> Forall (node_wf data) (flat_map stmt_nodes body).
Proof.
  unfold parse_runes. pose proof (all_tokens_ok ff data) as Hl.
  destruct (all_tokens ff data) as [toks|ds|]; [| |contradiction].
  - pose proof (walk_fragments_spec data ff toks (schain_chain _ _ _ Hl)) as Hw.
    destruct (walk_fragments ff toks) as [fs ds|pp|]; try contradiction.
    destruct Hw as [Hc Hd].
    destruct ds as [|d r].
    + pose proof (fragments_to_file_wf data fs (frags_chain_wf data fs pos0 Hc)) as Hf.
      destruct (fragments_to_file fs) as [body errs]. intros [= <-]. cbn.
      destruct Hf as [A B]. split; [exact B|]. intros b [= <-]. exact A.
    + intros [= <-]. cbn. split; [exact Hd|]. intros b [= <-]. constructor.
  - intros [= <-]. cbn. split; [apply Hl|discriminate].
Qed.

(* ---- collect-all reports the fail-fast diagnostic first ------------------------------ *)
Lemma walk_fragments_loop_modes : forall fuel s,
  match walk_fragments_loop fuel true s, walk_fragments_loop fuel false s with
  | WalkOk f1 d1, WalkOk f2 d2 => hd_error d1 = hd_error d2 /\ (d2 = [] -> f1 = f2)
  | _, _ => True
  end.
Proof.
  induction fuel as [|f IH]; intros s; cbn [walk_fragments_loop]; [exact I|].
  destruct (tt_eqb (next_type s) EOF); [auto|].
  destruct (next_fragment s) as [fo s1|t wet s1|p|]; auto.
  - specialize (IH s1).
    destruct (walk_fragments_loop f true s1) as [f1 d1|p1|]; auto;
    destruct (walk_fragments_loop f false s1) as [f2 d2|p2|]; auto.
    destruct IH as [A B]. split; [exact A|]. intros H. rewrite (B H). reflexivity.
  - destruct (skip_to_eol (S (length (wrest s1))) s1) as [u s2|t2 wet2 s2|p|]; auto.
    destruct (walk_fragments_loop f false s2) as [f2 d2|p2|]; auto.
    split; [reflexivity|discriminate].
Qed.

Theorem parse_runes_modes data :
  match parse_runes true data, parse_runes false data with
  | Ok p1, Ok p2 => hd_error (pdiags p1) = hd_error (pdiags p2)
  | _, _ => False
  end.
Proof.
  unfold parse_runes.
  pose proof (all_tokens_modes data) as Hm.
  pose proof (all_tokens_ok true data) as Hl1.
  destruct (all_tokens true data) as [t1|d1|], (all_tokens false data) as [t2|d2|]; try contradiction.
  - subst t2.
    pose proof (walk_fragments_spec data true t1 (schain_chain _ _ _ Hl1)) as H1.
    pose proof (walk_fragments_spec data false t1 (schain_chain _ _ _ Hl1)) as H2.
    pose proof (walk_fragments_loop_modes (S (length t1)) (mkW t1 None)) as Hw.
    unfold walk_fragments in *.
    destruct (walk_fragments_loop (S (length t1)) true (mkW t1 None)) as [f1 e1|p1|]; try contradiction.
    destruct (walk_fragments_loop (S (length t1)) false (mkW t1 None)) as [f2 e2|p2|]; try contradiction.
    destruct Hw as [A B].
    destruct e1 as [|x1 r1], e2 as [|x2 r2]; cbn in A; try discriminate.
    + rewrite (B eq_refl). destruct (fragments_to_file f2). reflexivity.
    + cbn. exact A.
  - cbn. exact Hm.
Qed.

(* CodecDecConverse.v — the converse of the leniency theorem for respelled leaves: [respelled] is the fragment
   of CodecDecLenient.lenient that keeps the member order and adds no nulls (two spellings of a leaf that the
   field kind's conversion maps to the same result, at any depth).  It is symmetric, so for two documents
   related by it acceptance and the decoded message coincide in BOTH directions, and so does rejection. *)
From Coq Require Import String List NArith ZArith Bool Lia Permutation.
From J5V.lib Require Import Outcome Json.
From J5V.model Require Import CodecTypes CodecDecScalar CodecDec CodecDecTree CodecDecCommute.
From J5V.proofs Require Import CodecDecProofs CodecDecTreeProofs CodecDecStored CodecDecFaults CodecDecReorder
                               CodecDecOneofReorder CodecDecLenient CodecDecDenote CodecDecFull.
Import ListNotations.
Local Open Scope N_scope.

Section Conv.
  Variable orc : oracles.
  Variable e : env.

  Inductive respelled : field_ty -> jvalue -> jvalue -> Prop :=
  | R_same ty j : respelled ty j j
  | R_scalar k j j' :
      is_container j = false -> is_container j' = false -> (j = JNull <-> j' = JNull) ->
      scalar_from_go orc k (goval_of_json j) = scalar_from_go orc k (goval_of_json j') ->
      respelled (FScalar k) j j'
  | R_enum ref prefix opts s s' :
      lookup e ref = Some (SEnum prefix opts) ->
      option_by_name prefix opts s = option_by_name prefix opts s' ->
      respelled (FEnum ref) (JStr s) (JStr s')
  | R_object ref props ms ms' :
      lookup e ref = Some (SObject props) -> respelled_members props ms ms' ->
      respelled (FObject ref) (JObj ms) (JObj ms')
  | R_oneof ref props ms ms' :
      lookup e ref = Some (SOneof props) -> (type_count ms <= 1)%nat -> respelled_members props ms ms' ->
      respelled (FOneof ref) (JObj ms) (JObj ms')
  | R_array item js js' : respelled_items item js js' -> respelled (FArray item) (JArr js) (JArr js')
  | R_map item ms ms' : respelled_entries item ms ms' -> respelled (FMap item) (JObj ms) (JObj ms')

  with respelled_members : list property -> list (bytes * jvalue) -> list (bytes * jvalue) -> Prop :=
  | RM_nil props : respelled_members props [] []
  | RM_same props k v r r' : respelled_members props r r' -> respelled_members props ((k, v) :: r) ((k, v) :: r')
  | RM_member props k v v' r r' p :
      bytes_eqb k type_key = false ->
      find_prop props k = Some p -> (v = JNull <-> v' = JNull) -> respelled (p_ty p) v v' ->
      respelled_members props r r' -> respelled_members props ((k, v) :: r) ((k, v') :: r')

  with respelled_items : field_ty -> list jvalue -> list jvalue -> Prop :=
  | RI_nil item : respelled_items item [] []
  | RI_cons item v v' r r' : respelled item v v' -> respelled_items item r r' -> respelled_items item (v :: r) (v' :: r')

  with respelled_entries : field_ty -> list (bytes * jvalue) -> list (bytes * jvalue) -> Prop :=
  | RE_nil item : respelled_entries item [] []
  | RE_cons item k v v' r r' : respelled item v v' -> respelled_entries item r r' ->
      respelled_entries item ((k, v) :: r) ((k, v') :: r').

  Scheme respelled_mut := Minimality for respelled Sort Prop
    with respelled_members_mut := Minimality for respelled_members Sort Prop
    with respelled_items_mut := Minimality for respelled_items Sort Prop
    with respelled_entries_mut := Minimality for respelled_entries Sort Prop.
  Combined Scheme respelled_all from respelled_mut, respelled_members_mut, respelled_items_mut, respelled_entries_mut.

  (* the keys are those of the original, in order *)
  Lemma respelled_members_types props ms ms' : respelled_members props ms ms' -> type_count ms' = type_count ms.
  Proof.
    induction 1 as [props|props k v r r' H IH|props k v v' r r' p Hk Hf Hn Hv H IH]; [reflexivity| |];
      unfold type_count in *; cbn [filter];
      [change (is_type (k, v)) with (bytes_eqb k type_key)
      |change (is_type (k, v')) with (bytes_eqb k type_key); change (is_type (k, v)) with (bytes_eqb k type_key)];
      destruct (bytes_eqb k type_key); cbn [length]; rewrite ?IH; reflexivity.
  Qed.

  (* the fragment is part of the relation of the leniency theorem *)
  Lemma respelled_is_lenient :
    (forall ty j j', respelled ty j j' -> lenient orc e ty j j') /\
    (forall props ms ms', respelled_members props ms ms' -> lenient_members orc e props ms ms') /\
    (forall item js js', respelled_items item js js' -> lenient_items orc e item js js') /\
    (forall item ms ms', respelled_entries item ms ms' -> lenient_entries orc e item ms ms').
  Proof.
    apply respelled_all; intros.
    - apply L_same.
    - apply L_scalar; assumption.
    - eapply L_enum; eassumption.
    - eapply (L_object orc e ref props ms [] ms ms'); [eassumption | constructor | left; reflexivity | apply Permutation_refl | assumption].
    - eapply (L_oneof orc e ref props ms ms ms'); [eassumption | apply Permutation_refl | assumption | assumption].
    - apply L_array; assumption.
    - apply L_map; assumption.
    - apply LM_nil.
    - apply LM_same; assumption.
    - eapply LM_member; eassumption.
    - apply LI_nil.
    - apply LI_cons; assumption.
    - apply LE_nil.
    - apply LE_cons; assumption.
  Qed.

  (* and it is symmetric *)
  Lemma respelled_sym :
    (forall ty j j', respelled ty j j' -> respelled ty j' j) /\
    (forall props ms ms', respelled_members props ms ms' -> respelled_members props ms' ms) /\
    (forall item js js', respelled_items item js js' -> respelled_items item js' js) /\
    (forall item ms ms', respelled_entries item ms ms' -> respelled_entries item ms' ms).
  Proof.
    apply respelled_all; intros.
    - apply R_same.
    - apply R_scalar; try assumption; [tauto | congruence].
    - eapply R_enum; [eassumption | congruence].
    - eapply R_object; eassumption.
    - eapply R_oneof; [eassumption | | assumption].
      match goal with Hm : respelled_members _ ?a ?b |- (type_count ?b <= 1)%nat =>
        rewrite (respelled_members_types _ _ _ Hm); assumption end.
    - apply R_array; assumption.
    - apply R_map; assumption.
    - apply RM_nil.
    - apply RM_same; assumption.
    - eapply RM_member; try eassumption. tauto.
    - apply RI_nil.
    - apply RI_cons; assumption.
    - apply RE_nil.
    - apply RE_cons; assumption.
  Qed.
End Conv.

(* documents: the root's members respelled at any depth, same order *)
Definition doc_respelled (orc : oracles) (e : env) (root : bytes) (ms ms' : list (bytes * jvalue)) : Prop :=
  (exists props, lookup e root = Some (SObject props) /\ respelled_members orc e props ms ms') \/
  (exists props, lookup e root = Some (SOneof props) /\ (type_count ms <= 1)%nat /\ respelled_members orc e props ms ms').

Lemma doc_respelled_sym orc e root ms ms' : doc_respelled orc e root ms ms' -> doc_respelled orc e root ms' ms.
Proof.
  destruct (respelled_sym orc e) as (_ & Hm & _).
  intros [(props & Hl & H) | (props & Hl & Ht & H)]; [left | right]; exists props.
  - split; [exact Hl | apply Hm, H].
  - split; [exact Hl | split; [rewrite (respelled_members_types orc e _ _ _ H); exact Ht | apply Hm, H]].
Qed.

Lemma doc_respelled_variant orc e root ms ms' : doc_respelled orc e root ms ms' -> doc_variant orc e root ms ms'.
Proof.
  destruct (respelled_is_lenient orc e) as (_ & Hm & _).
  intros [(props & Hl & H) | (props & Hl & Ht & H)].
  - apply (DV_object orc e root ms ms' props [] ms); [exact Hl | constructor | left; reflexivity | apply Permutation_refl | apply Hm, H].
  - apply (DV_oneof orc e root ms ms' props ms); [exact Hl | apply Permutation_refl | exact Ht | apply Hm, H].
Qed.

(* both directions: a document and a respelling of it are accepted together, with the same message *)
Theorem respelled_document_iff orc e root bs bs' ms ms' me me' :
  env_separate e = true -> env_commute e = true ->
  lex bs = (tokens_of (JObj ms), me) -> lex_at_eof bs = true ->
  lex bs' = (tokens_of (JObj ms'), me') -> lex_at_eof bs' = true ->
  doc_respelled orc e root ms ms' ->
  forall m', decode_document orc e root bs = Ok m' <-> decode_document orc e root bs' = Ok m'.
Proof.
  intros Hs Hc Hl He Hl' He' Hr m'. destruct (C03_full orc e root Hs Hc) as (_ & Hv & _). split.
  - apply (Hv bs bs' ms ms' me me' m' Hl He Hl' He'). apply doc_respelled_variant, Hr.
  - apply (Hv bs' bs ms' ms me' me m' Hl' He' Hl He). apply doc_respelled_variant, doc_respelled_sym, Hr.
Qed.

(* ... and rejected together: the converse of the variant theorem on this fragment *)
Theorem respelled_document_rejected_iff orc e root bs bs' ms ms' me me' :
  env_separate e = true -> env_commute e = true ->
  lex bs = (tokens_of (JObj ms), me) -> lex_at_eof bs = true ->
  lex bs' = (tokens_of (JObj ms'), me') -> lex_at_eof bs' = true ->
  doc_respelled orc e root ms ms' ->
  (is_err (decode_document orc e root bs) = true <-> is_err (decode_document orc e root bs') = true).
Proof.
  intros Hs Hc Hl He Hl' He' Hr.
  pose proof (respelled_document_iff orc e root bs bs' ms ms' me me' Hs Hc Hl He Hl' He' Hr) as Hiff.
  destruct (decode_document_total orc e root bs) as [Hp Hf]. destruct (decode_document_total orc e root bs') as [Hp' Hf'].
  destruct (decode_document orc e root bs) as [m1|c1|s1|] eqn:E1; destruct (decode_document orc e root bs') as [m2|c2|s2|] eqn:E2;
    cbn in *; try discriminate; try congruence; try tauto.
  - destruct (Hiff m1) as [H _]. specialize (H eq_refl). discriminate.
  - destruct (Hiff m2) as [_ H]. specialize (H eq_refl). discriminate.
Qed.

(* PipelineProofs.v — lemmas behind props/C16.v *)
From Coq Require Import String Ascii List Arith NArith Bool Lia ZifyN ZifyNat ZifyBool Permutation.
From J5V.lib Require Import Outcome Corr.
From J5V.model Require Import Pipeline PipelineCompile.
From J5V.gen Require SwaggerGen.
Import ListNotations.
Local Open Scope N_scope.
Local Open Scope bool_scope.

(* ---------- equality tests ------------------------------------------------ *)
Lemma str_eqb_eq a b : str_eqb a b = true <-> a = b.
Proof.
  unfold str_eqb. revert b. induction a as [|x r IH]; intros [|y s]; cbn [list_eqb]; split; intro H;
    try reflexivity; try discriminate.
  - apply andb_true_iff in H as [H1 H2]. apply N.eqb_eq in H1. apply IH in H2. congruence.
  - injection H as -> ->. rewrite N.eqb_refl. cbn. apply IH. reflexivity.
Qed.

Lemma str_eqb_refl a : str_eqb a a = true.
Proof. apply str_eqb_eq. reflexivity. Qed.

Lemma str_eqb_neq a b : str_eqb a b = false <-> a <> b.
Proof.
  split; intro H.
  - intro E. apply str_eqb_eq in E. congruence.
  - destruct (str_eqb a b) eqn:E; [|reflexivity]. apply str_eqb_eq in E. contradiction.
Qed.

Lemma key_eqb_eq a b : key_eqb a b = true <-> a = b.
Proof.
  unfold key_eqb. destruct a as [a1 a2], b as [b1 b2]. cbn [fst snd]. rewrite andb_true_iff, !str_eqb_eq.
  split; [intros [-> ->]; reflexivity|intros [= -> ->]; auto].
Qed.

Lemma key_eqb_refl a : key_eqb a a = true.
Proof. apply key_eqb_eq. reflexivity. Qed.

Lemma mem_key_In k l : mem_key k l = true <-> In k l.
Proof.
  unfold mem_key. rewrite existsb_exists. split.
  - intros [x [Hx E]]. apply key_eqb_eq in E. subst. exact Hx.
  - intro H. exists k. split; [exact H|apply key_eqb_refl].
Qed.

Lemma mem_key_false k l : mem_key k l = false <-> ~ In k l.
Proof.
  split; intro H.
  - intro E. apply mem_key_In in E. congruence.
  - destruct (mem_key k l) eqn:E; [|reflexivity]. apply mem_key_In in E. contradiction.
Qed.

Lemma mem_str_In k l : mem_str k l = true <-> In k l.
Proof.
  unfold mem_str. rewrite existsb_exists. split.
  - intros [x [Hx E]]. apply str_eqb_eq in E. subst. exact Hx.
  - intro H. exists k. split; [exact H|apply str_eqb_refl].
Qed.

(* ---------- tables regenerated from the Go source -------------------------- *)
Lemma suffix_table_agrees : suffix_table = SwaggerGen.add_structure_suffixes.
Proof. vm_compute. reflexivity. Qed.

Lemma swagger_arms_cover :
  forallb (fun a => mem_string a SwaggerGen.convert_schema_arms) SwaggerGen.field_alternatives = true.
Proof. vm_compute. reflexivity. Qed.

Lemma swagger_root_arms_cover :
  forallb (fun a => mem_string a SwaggerGen.convert_root_arms) SwaggerGen.root_alternatives = true.
Proof. vm_compute. reflexivity. Qed.

Lemma http_arms_agree :
  SwaggerGen.http_rule_arms = ["HttpRule_Get"; "HttpRule_Post"; "HttpRule_Put"; "HttpRule_Delete"; "HttpRule_Patch"]%string.
Proof. vm_compute. reflexivity. Qed.

Lemma invalid_chars_agree : map bytes_of SwaggerGen.invalid_path_chars = [invalid_chars].
Proof. vm_compute. reflexivity. Qed.

Lemma has_body_agrees : SwaggerGen.has_body_expr = "HttpMethod != HTTPMethod_GET"%string.
Proof. vm_compute. reflexivity. Qed.

Lemma fill_request_literals_agree :
  map bytes_of SwaggerGen.fill_request_prefixes = [[COLON]; [COLON]] /\ map bytes_of SwaggerGen.fill_request_split = [[SLASH]].
Proof. vm_compute. split; reflexivity. Qed.

Lemma build_method_literals_agree :
  SwaggerGen.build_method_literals = ["+ Request"; "+ Response"; "!= google.api.HttpBody"; "== "]%string
  /\ SwaggerGen.build_topic_method_literals = ["+ Message"; "!= google.protobuf.Empty"]%string.
Proof. vm_compute. split; reflexivity. Qed.

(* collectPackageRefs follows object, oneof and enum references through arrays and maps;
   walkSchemaFields descends into object and oneof properties and carries the recursion guard
   (its fifth parameter) *)
Lemma walk_arms_agree :
  SwaggerGen.collect_refs_switch_1 = ["ObjectField"; "OneofField"; "EnumField"; "ArrayField"; "MapField"]%string
  /\ SwaggerGen.walk_fields_switch_1 = ["ObjectField"; "OneofField"]%string
  /\ SwaggerGen.walk_fields_params = 5%nat.
Proof. vm_compute. repeat split; reflexivity. Qed.

(* ---------- strings.Split / strings.Join ---------------------------------- *)
Lemma split_on_nonempty sep s : split_on sep s <> [].
Proof.
  induction s as [|c r IH]; cbn [split_on]; [discriminate|].
  destruct (c =? sep); [discriminate|]. destruct (split_on sep r); discriminate.
Qed.

Lemma join_split sep s : join_with sep (split_on sep s) = s.
Proof.
  induction s as [|c r IH]; cbn [split_on]; [reflexivity|].
  destruct (c =? sep) eqn:E.
  - apply N.eqb_eq in E. subst c. pose proof (split_on_nonempty sep r) as Hn.
    destruct (split_on sep r) as [|p ps] eqn:Es; [contradiction|].
    change (join_with sep ([] :: p :: ps)) with ([] ++ sep :: join_with sep (p :: ps)).
    rewrite IH. reflexivity.
  - pose proof (split_on_nonempty sep r) as Hn.
    destruct (split_on sep r) as [|p ps] eqn:Es; [contradiction|].
    destruct ps as [|q qs].
    + cbn [join_with] in *. rewrite IH. reflexivity.
    + change (join_with sep ((c :: p) :: q :: qs)) with ((c :: p) ++ sep :: join_with sep (q :: qs)).
      change (join_with sep (p :: q :: qs)) with (p ++ sep :: join_with sep (q :: qs)) in IH.
      cbn [app]. rewrite IH. reflexivity.
Qed.

Definition no_char (c : N) (s : str) : Prop := ~ In c s.

Lemma split_no_sep sep s : no_char sep s -> split_on sep s = [s].
Proof.
  induction s as [|c r IH]; intro H; cbn [split_on]; [reflexivity|].
  destruct (c =? sep) eqn:E.
  - apply N.eqb_eq in E. exfalso. apply H. left. exact E.
  - rewrite IH; [reflexivity|]. intro Hin. apply H. right. exact Hin.
Qed.

Lemma split_app_sep sep p rest : no_char sep p ->
  split_on sep (p ++ sep :: rest) = p :: split_on sep rest.
Proof.
  induction p as [|c r IH]; intro H; cbn [app split_on].
  - rewrite N.eqb_refl. reflexivity.
  - destruct (c =? sep) eqn:E.
    + apply N.eqb_eq in E. exfalso. apply H. left. exact E.
    + rewrite IH; [reflexivity|]. intro Hin. apply H. right. exact Hin.
Qed.

Lemma split_join sep ps : ps <> [] -> Forall (no_char sep) ps -> split_on sep (join_with sep ps) = ps.
Proof.
  induction ps as [|p r IH]; intros Hne Hf; [contradiction|].
  inversion Hf as [|? ? Hp Hr]; subst.
  destruct r as [|q qs].
  - cbn [join_with]. apply split_no_sep. exact Hp.
  - change (join_with sep (p :: q :: qs)) with (p ++ sep :: join_with sep (q :: qs)).
    rewrite split_app_sep by exact Hp. rewrite IH; [reflexivity|discriminate|exact Hr].
Qed.

(* ---------- fillRequest: the partition -------------------------------------- *)
Lemma filter_split_perm {A} (f : A -> bool) (l : list A) :
  Permutation (filter f l ++ filter (fun x => negb (f x)) l) l.
Proof.
  induction l as [|x r IH]; cbn [filter]; [constructor|].
  destruct (f x); cbn [negb app].
  - constructor. exact IH.
  - apply Permutation_sym. apply Permutation_cons_app. apply Permutation_sym. exact IH.
Qed.

Definition body_list (r : request) : list prop := match r_body r with Some ps => ps | None => [] end.
Definition is_path_prop (path : str) (p : prop) : bool := mem_str (p_json p) (path_param_names path).

(* path ∪ query ∪ body = all request properties (as a permutation: multiplicities kept) *)
Lemma fill_request_union verb path props :
  let r := fill_request verb path props in
  Permutation (r_path r ++ r_query r ++ body_list r) props.
Proof.
  cbv zeta. unfold fill_request, body_list. destruct (has_body verb); cbn [r_path r_query r_body].
  - cbn [app]. apply (filter_split_perm (fun p => mem_str (p_json p) (path_param_names path))).
  - rewrite app_nil_r. apply (filter_split_perm (fun p => mem_str (p_json p) (path_param_names path))).
Qed.

(* pairwise disjoint: a property is a path parameter iff its name occurs as ":name" in the path,
   and then it is in neither of the other two *)
Lemma fill_request_path_spec verb path props p :
  In p (r_path (fill_request verb path props)) <->
  In p props /\ In (p_json p) (path_param_names path).
Proof.
  unfold fill_request. destruct (has_body verb); cbn [r_path]; rewrite filter_In, mem_str_In; reflexivity.
Qed.

Lemma fill_request_rest_spec verb path props p :
  In p (r_query (fill_request verb path props) ++ body_list (fill_request verb path props)) <->
  In p props /\ ~ In (p_json p) (path_param_names path).
Proof.
  unfold fill_request, body_list. destruct (has_body verb); cbn [r_query r_body app]; rewrite ?app_nil_r, filter_In.
  - rewrite negb_true_iff. split; intros [H1 H2]; split; auto.
    + intro E. apply mem_str_In in E. congruence.
    + destruct (mem_str (p_json p) (path_param_names path)) eqn:E; [|reflexivity]. apply mem_str_In in E. contradiction.
  - rewrite negb_true_iff. split; intros [H1 H2]; split; auto.
    + intro E. apply mem_str_In in E. congruence.
    + destruct (mem_str (p_json p) (path_param_names path)) eqn:E; [|reflexivity]. apply mem_str_In in E. contradiction.
Qed.

Lemma fill_request_disjoint verb path props p :
  In p (r_path (fill_request verb path props)) ->
  ~ In p (r_query (fill_request verb path props) ++ body_list (fill_request verb path props)).
Proof.
  intros H1 H2. apply fill_request_path_spec in H1. apply fill_request_rest_spec in H2. tauto.
Qed.

Lemma fill_request_query_body_disjoint verb path props :
  r_query (fill_request verb path props) = [] \/ r_body (fill_request verb path props) = None.
Proof. unfold fill_request. destruct (has_body verb); cbn; auto. Qed.

(* split by verb, as the code dictates: only GET has no body (DELETE carries one) *)
Lemma fill_request_verb verb path props :
  (verb = GET -> r_body (fill_request verb path props) = None) /\
  (verb <> GET -> r_query (fill_request verb path props) = [] /\ exists b, r_body (fill_request verb path props) = Some b).
Proof.
  unfold fill_request, has_body. split; intro H.
  - subst verb. rewrite N.eqb_refl. reflexivity.
  - replace (verb =? GET) with false by (symmetry; apply N.eqb_neq; exact H). cbn. eauto.
Qed.

(* order is kept in each part *)
Lemma fill_request_order verb path props :
  r_path (fill_request verb path props) = filter (is_path_prop path) props /\
  r_query (fill_request verb path props) ++ body_list (fill_request verb path props)
    = filter (fun p => negb (is_path_prop path p)) props.
Proof.
  unfold fill_request, body_list, is_path_prop. destruct (has_body verb); cbn [r_path r_query r_body app];
    rewrite ?app_nil_r; split; reflexivity.
Qed.

(* every path parameter of the client method names a request property *)
Lemma path_params_name_props verb path props p :
  In p (r_path (fill_request verb path props)) -> In p props.
Proof. intro H. apply fill_request_path_spec in H. tauto. Qed.

(* ---------- the path mapping law -------------------------------------------- *)
Section PathLaw.
Variable to_snake : str -> str.

Local Notation fields_of := (PipelineCompile.fields_of to_snake).

(* a literal path segment: none of the characters buildMethod rejects, and no slash *)
Definition clean_part (part : str) : Prop :=
  forall c, In c part -> c <> LBRACE /\ c <> RBRACE /\ c <> STAR /\ c <> COLON /\ c <> SLASH.

Definition wf_part (props : list str) (part : str) : Prop :=
  clean_part part \/ exists n, part = COLON :: n /\ In n props.

Definition snake_inj (props : list str) : Prop :=
  forall n m, In n props -> In m props -> to_snake n = to_snake m -> n = m.

Definition snake_ok (props : list str) : Prop :=
  forall n, In n props -> no_char SLASH n /\ no_char SLASH (to_snake n).

Lemma find_field props : snake_inj props -> forall l n, incl l props -> In n l ->
  find (fun f => str_eqb (f_proto f) (to_snake n)) (fields_of l) = Some {| f_proto := to_snake n; f_json := n |}.
Proof.
  intros Hinj. induction l as [|m r IH]; intros n Hincl Hin; [contradiction|].
  cbn [fields_of map find f_proto].
  destruct (str_eqb (to_snake m) (to_snake n)) eqn:E.
  - apply str_eqb_eq in E. assert (m = n).
    { apply Hinj; [apply Hincl; left; reflexivity|apply Hincl; exact Hin|exact E]. }
    subst m. reflexivity.
  - destruct Hin as [->|Hin].
    + rewrite str_eqb_refl in E. discriminate.
    + apply IH; [|exact Hin]. intros x Hx. apply Hincl. right. exact Hx.
Qed.

Lemma last_or_snoc d x s c : last_or d (x :: s ++ [c]) = c.
Proof.
  revert x. induction s as [|y r IH]; intro x; [reflexivity|].
  change (last_or d (x :: (y :: r) ++ [c])) with (last_or d (y :: r ++ [c])). apply IH.
Qed.

Lemma clean_no_invalid part : clean_part part ->
  existsb (fun x => existsb (N.eqb x) invalid_chars) part = false.
Proof.
  intro H. destruct (existsb _ part) eqn:E; [|reflexivity]. exfalso.
  apply existsb_exists in E as [c [Hc E]]. destruct (H c Hc) as (H1 & H2 & H3 & H4 & _).
  unfold invalid_chars in E. cbn [existsb] in E. rewrite !orb_true_iff, !N.eqb_eq in E.
  destruct E as [E|[E|[E|[E|E]]]]; try contradiction. discriminate.
Qed.

Lemma map_part_http props part : snake_inj props -> wf_part props part ->
  map_part (fields_of props) (http_part to_snake part) = Ok part.
Proof.
  intros Hinj [Hc|[n [-> Hn]]].
  - destruct part as [|c r]; [reflexivity|].
    destruct (Hc c (or_introl eq_refl)) as (H1 & _ & _ & H4 & _).
    unfold http_part. replace (c =? COLON) with false by (symmetry; apply N.eqb_neq; exact H4).
    unfold map_part. replace (c =? LBRACE) with false by (symmetry; apply N.eqb_neq; exact H1).
    cbn [andb]. rewrite clean_no_invalid by exact Hc. reflexivity.
  - unfold http_part. rewrite N.eqb_refl. unfold map_part.
    rewrite last_or_snoc, !N.eqb_refl. cbn [andb]. rewrite removelast_last.
    rewrite (find_field props Hinj props n (incl_refl _) Hn). reflexivity.
Qed.

Lemma map_parts_http props parts : snake_inj props -> Forall (wf_part props) parts ->
  map_parts (fields_of props) (map (http_part to_snake) parts) = Ok parts.
Proof.
  intros Hinj Hf. induction Hf as [|p r Hp Hr IH]; [reflexivity|].
  cbn [map map_parts]. rewrite map_part_http by assumption. cbn [obind]. rewrite IH. reflexivity.
Qed.

Lemma http_part_no_slash props part : snake_ok props -> wf_part props part ->
  no_char SLASH part /\ no_char SLASH (http_part to_snake part).
Proof.
  intros Hok [Hc|[n [-> Hn]]].
  - assert (Hns : no_char SLASH part). { intro Hin. destruct (Hc _ Hin) as (_ & _ & _ & _ & H). congruence. }
    split; [exact Hns|]. destruct part as [|c r]; [exact Hns|].
    destruct (Hc c (or_introl eq_refl)) as (_ & _ & _ & H4 & _).
    unfold http_part. replace (c =? COLON) with false by (symmetry; apply N.eqb_neq; exact H4). exact Hns.
  - destruct (Hok n Hn) as [H1 H2]. split.
    + intros [E|Hin]; [discriminate|contradiction].
    + unfold http_part. rewrite N.eqb_refl. intros [E|Hin]; [discriminate|].
      apply in_app_or in Hin as [Hin|[E|[]]]; [contradiction|discriminate].
Qed.

Theorem path_law props parts :
  parts <> [] -> Forall (wf_part props) parts -> snake_inj props -> snake_ok props ->
  to_client_path (fields_of props) (to_http_path to_snake (join_with SLASH parts)) = Ok (join_with SLASH parts).
Proof.
  intros Hne Hf Hinj Hok.
  assert (Hns : Forall (no_char SLASH) parts /\ Forall (no_char SLASH) (map (http_part to_snake) parts)).
  { clear Hne. induction Hf as [|p r Hp Hr IH]; [split; constructor|].
    destruct IH as [I1 I2]. destruct (http_part_no_slash props p Hok Hp) as [N1 N2].
    split; constructor; assumption. }
  destruct Hns as [N1 N2].
  unfold to_http_path, to_client_path. rewrite (split_join SLASH parts Hne N1).
  rewrite split_join; [|destruct parts; [contradiction|discriminate]|exact N2].
  rewrite map_parts_http by assumption. reflexivity.
Qed.

(* the same for a path given as text *)
Corollary path_law_text props p :
  Forall (wf_part props) (split_on SLASH p) -> snake_inj props -> snake_ok props ->
  to_client_path (fields_of props) (to_http_path to_snake p) = Ok p.
Proof.
  intros Hf Hinj Hok.
  pose proof (path_law props (split_on SLASH p) (split_on_nonempty SLASH p) Hf Hinj Hok) as H.
  rewrite (join_split SLASH p) in H. exact H.
Qed.

(* the counterexample class: two request properties with the same snake name. The path that
   names the second one comes back naming the first. *)
Theorem path_law_collision n m :
  n <> m -> to_snake n = to_snake m -> no_char SLASH m -> no_char SLASH (to_snake m) ->
  to_client_path (fields_of [n; m]) (to_http_path to_snake (join_with SLASH [[]; COLON :: m]))
    = Ok (join_with SLASH [[]; COLON :: n])
  /\ join_with SLASH [[]; COLON :: n] <> join_with SLASH [[]; COLON :: m].
Proof.
  intros Hnm Hs N1 N2. split.
  - unfold to_http_path, to_client_path.
    rewrite (split_join SLASH [[]; COLON :: m]).
    2: discriminate.
    2:{ repeat constructor; [intros []|intros [E|Hin]; [discriminate|contradiction]]. }
    assert (Hm : map (http_part to_snake) [[]; COLON :: m] = [[]; LBRACE :: to_snake m ++ [RBRACE]]).
    { unfold http_part. cbn [map]. rewrite N.eqb_refl. reflexivity. }
    rewrite Hm.
    rewrite (split_join SLASH [[]; LBRACE :: to_snake m ++ [RBRACE]]).
    2: discriminate.
    2:{ repeat constructor; [intros []|]. intros [E|Hin]; [discriminate|].
        apply in_app_or in Hin as [Hin|[E|[]]]; [contradiction|discriminate]. }
    cbn [map_parts map_part obind]. rewrite last_or_snoc, !N.eqb_refl. cbn [andb].
    rewrite removelast_last. cbn [fields_of map find f_proto]. rewrite Hs, str_eqb_refl.
    reflexivity.
  - cbn [join_with app]. intros [= E]. apply Hnm. exact E.
Qed.
End PathLaw.

(* ---------- outcomes that are neither a panic nor out of fuel ---------------- *)
Definition fine {A} (o : outcome A) : Prop := match o with Ok _ | Err _ => True | _ => False end.

Lemma fine_spec {A} (o : outcome A) : fine o <-> o <> OutOfFuel /\ is_panic o = false.
Proof.
  destruct o as [a|c|p|]; cbn [fine is_panic]; split; intro H.
  - split; [discriminate|reflexivity].
  - exact I.
  - split; [discriminate|reflexivity].
  - exact I.
  - contradiction.
  - destruct H as [_ H]. discriminate.
  - contradiction.
  - destruct H as [H _]. apply H. reflexivity.
Qed.

Lemma fine_omap {A B} (f : A -> B) o : fine o -> fine (omap f o).
Proof. destruct o; cbn; auto. Qed.

Lemma fold_obind_stuck {X P} (body : P -> X -> outcome X) ps (o : outcome X) :
  (forall x, o <> Ok x) -> fold_left (fun acc p => obind acc (body p)) ps o = o.
Proof.
  revert o. induction ps as [|p r IH]; intros o H; [reflexivity|].
  cbn [fold_left]. destruct o as [x| | |]; [exfalso; eapply H; reflexivity| | |]; cbn [obind]; apply IH; discriminate.
Qed.

Lemma fold_obind_fine {X P} (body : P -> X -> outcome X) ps init :
  fine init -> (forall p x, In p ps -> fine (body p x)) ->
  fine (fold_left (fun acc p => obind acc (body p)) ps init).
Proof.
  revert init. induction ps as [|p r IH]; intros init Hi Hb; [exact Hi|].
  cbn [fold_left]. apply IH.
  - destruct init as [x|c|s|]; cbn [obind fine] in *; try exact Hi. apply Hb. left. reflexivity.
  - intros q x Hq. apply Hb. right. exact Hq.
Qed.

(* ---------- schema graph ------------------------------------------------------ *)
Lemma lookup_In g k s : lookup g k = Some s -> In k (map fst g).
Proof.
  induction g as [|[k' s'] r IH]; cbn [lookup map fst]; [discriminate|].
  destruct (key_eqb k k') eqn:E.
  - apply key_eqb_eq in E. subst. intros _. left. reflexivity.
  - intro H. right. apply IH. exact H.
Qed.

Definition present (g : env) (k : key) : Prop := lookup g k <> None.
Definition linked (g : env) (ks : list key) : Prop := forall a, In a ks -> present g a.

Lemma linked_bound g ks : NoDup ks -> linked g ks -> (length ks <= length g)%nat.
Proof.
  intros Hnd Hl. rewrite <- (map_length fst g). apply NoDup_incl_length; [exact Hnd|].
  intros a Ha. specialize (Hl a Ha). unfold present in Hl.
  destruct (lookup g a) eqn:E; [|contradiction]. eapply lookup_In. exact E.
Qed.

(* ---------- walkSchemaFields with the guard terminates ------------------------ *)
Lemma walk_fields_fine g : forall f k anc path,
  NoDup anc -> linked g anc -> (length g < f + length anc)%nat ->
  fine (walk_fields f g k anc path).
Proof.
  induction f as [|f IH]; intros k anc path Hnd Hl Hlen.
  - pose proof (linked_bound g anc Hnd Hl). lia.
  - cbn [walk_fields]. destruct (lookup g k) as [s|] eqn:Ek; [|exact I].
    destruct (mem_key k anc) eqn:Em; [exact I|].
    apply (fold_obind_fine (fun p out =>
       match direct_ref (p_ty p) with
       | Some k' => omap (fun sub => out ++ (path ++ [p_json p], p_ty p) :: sub)
                         (walk_fields f g k' (k :: anc) (path ++ [p_json p]))
       | None => Ok (out ++ [(path ++ [p_json p], p_ty p)])
       end)); [exact I|].
    intros p out _. destruct (direct_ref (p_ty p)) as [k'|]; [|exact I].
    apply fine_omap. apply IH.
    + constructor; [apply mem_key_false; exact Em|exact Hnd].
    + intros a [<-|Ha]; [unfold present; rewrite Ek; discriminate|apply Hl; exact Ha].
    + cbn [length]. lia.
Qed.

Theorem walk_fields_terminates g k path :
  fine (walk_fields (S (length g)) g k [] path).
Proof. apply walk_fields_fine; [constructor|intros a []|cbn; lia]. Qed.

(* the walk as shipped in the snapshot (no guard) does not terminate on a one-node cycle: #29 *)
Definition cyc_key : key := (bytes_of "p.v1", bytes_of "Node").
Definition cyc_env : env :=
  [(cyc_key, SObject [{| p_json := bytes_of "next"; p_ty := TRef "object" cyc_key |}])].

Theorem walk_fields_unguarded_diverges : forall fuel path,
  walk_fields_unguarded fuel cyc_env cyc_key path = OutOfFuel.
Proof.
  induction fuel as [|f IH]; intro path; [reflexivity|].
  cbn [walk_fields_unguarded]. change (lookup cyc_env cyc_key) with (Some (snd (hd (cyc_key, SEnum) cyc_env))).
  cbn [cyc_env hd snd schema_props fold_left obind p_ty p_json direct_ref].
  change (String.eqb "object" "object" || String.eqb "object" "oneof") with true. cbn iota.
  rewrite IH. reflexivity.
Qed.

Theorem walk_fields_guarded_on_cycle :
  exists out, walk_fields 2 cyc_env cyc_key [] [] = Ok out.
Proof. eexists. vm_compute. reflexivity. Qed.

(* ---------- collectPackageRefs: the walk with a visited set -------------------- *)
Lemma walk_ref_unfold f g own k vis :
  walk_ref (S f) g own k vis =
  match lookup g k with
  | None => if mem_str (fst k) own then Err "unlinked ref in linked package" else Ok vis
  | Some s => if mem_key k vis then Ok vis else walk_refs f g own (succs s) (k :: vis)
  end.
Proof. reflexivity. Qed.

Lemma walk_refs_nil f g own vis : walk_refs f g own [] vis = Ok vis.
Proof. reflexivity. Qed.

Lemma walk_refs_cons f g own m r vis :
  walk_refs f g own (m :: r) vis =
  match walk_ref f g own m vis with
  | Ok v1 => walk_refs f g own r v1
  | o => o
  end.
Proof.
  unfold walk_refs. cbn [fold_left obind].
  destruct (walk_ref f g own m vis) as [v1| | |] eqn:E; [reflexivity| | |];
    apply (fold_obind_stuck (fun m acc => walk_ref f g own m acc)); discriminate.
Qed.

(* termination: fuel = number of schemas + 1 is enough, whatever the graph *)
Definition inv (g : env) (vis : list key) : Prop := NoDup vis /\ linked g vis.

Lemma walk_total g own : forall f,
  (forall k vis, inv g vis -> (length g < f + length vis)%nat ->
     fine (walk_ref f g own k vis) /\
     forall vis', walk_ref f g own k vis = Ok vis' -> inv g vis' /\ incl vis vis') /\
  (forall ks vis, inv g vis -> (length g < f + length vis)%nat ->
     fine (walk_refs f g own ks vis) /\
     forall vis', walk_refs f g own ks vis = Ok vis' -> inv g vis' /\ incl vis vis').
Proof.
  induction f as [|f [IH1 IH2]].
  - split; intros k vis [Hnd Hl] Hlen; pose proof (linked_bound g vis Hnd Hl); lia.
  - assert (H1 : forall k vis, inv g vis -> (length g < S f + length vis)%nat ->
       fine (walk_ref (S f) g own k vis) /\
       forall vis', walk_ref (S f) g own k vis = Ok vis' -> inv g vis' /\ incl vis vis').
    { intros k vis [Hnd Hl] Hlen. rewrite walk_ref_unfold.
      destruct (lookup g k) as [s|] eqn:Ek.
      - destruct (mem_key k vis) eqn:Em.
        + split; [exact I|]. intros vis' [= <-]. split; [split; assumption|apply incl_refl].
        + assert (Hi : inv g (k :: vis)).
          { split; [constructor; [apply mem_key_false; exact Em|exact Hnd]|].
            intros a [<-|Ha]; [unfold present; rewrite Ek; discriminate|apply Hl; exact Ha]. }
          destruct (IH2 (succs s) (k :: vis) Hi) as [F R]; [cbn [length]; lia|].
          split; [exact F|]. intros vis' E. destruct (R vis' E) as [Hi' Hinc].
          split; [exact Hi'|]. intros a Ha. apply Hinc. right. exact Ha.
      - destruct (mem_str (fst k) own); split; try exact I; [discriminate|].
        intros vis' [= <-]. split; [split; assumption|apply incl_refl]. }
    split; [exact H1|].
    intros ks. induction ks as [|m r IHr]; intros vis Hi Hlen.
    + rewrite walk_refs_nil. split; [exact I|]. intros vis' [= <-]. split; [exact Hi|apply incl_refl].
    + rewrite walk_refs_cons. destruct (H1 m vis Hi Hlen) as [F R].
      destruct (walk_ref (S f) g own m vis) as [v1| | |] eqn:E; try contradiction.
      * destruct (R v1 eq_refl) as [Hi1 Hinc1].
        assert (Hlen1 : (length g < S f + length v1)%nat).
        { destruct Hi as [Hnd _]. pose proof (NoDup_incl_length Hnd Hinc1). lia. }
        destruct (IHr v1 Hi1 Hlen1) as [F2 R2]. split; [exact F2|].
        intros vis' E2. destruct (R2 vis' E2) as [Hi2 Hinc2]. split; [exact Hi2|].
        intros a Ha. apply Hinc2. apply Hinc1. exact Ha.
      * split; [exact I|discriminate].
Qed.

Theorem walk_refs_terminates g own ks :
  fine (walk_refs (S (length g)) g own ks []).
Proof.
  destruct (walk_total g own (S (length g))) as [_ H].
  apply H; [split; [constructor|intros a []]|cbn; lia].
Qed.

(* what the walk returns: exactly the schemas reachable from the roots *)
Definition edge (g : env) (a b : key) : Prop := exists s, lookup g a = Some s /\ In b (succs s).

Inductive reach (g : env) : key -> key -> Prop :=
| reach_refl a : reach g a a
| reach_step a b c : reach g a b -> edge g b c -> reach g a c.

Lemma reach_head g a b c : edge g a b -> reach g b c -> reach g a c.
Proof.
  intros He Hr. induction Hr as [b|b c d Hbc IH Hcd].
  - eapply reach_step; [apply reach_refl|exact He].
  - eapply reach_step; [apply IH; exact He|exact Hcd].
Qed.

(* new = in the result but not in the visited set the call started from *)
Definition closed_new (g : env) (vis vis' : list key) : Prop :=
  forall x, In x vis' -> ~ In x vis -> forall y, edge g x y -> present g y -> In y vis'.

Lemma walk_spec g own : forall f,
  (forall k vis vis', walk_ref f g own k vis = Ok vis' ->
     incl vis vis' /\ (present g k -> In k vis') /\ closed_new g vis vis' /\
     (forall x, In x vis' -> ~ In x vis -> reach g k x /\ present g x)) /\
  (forall ks vis vis', walk_refs f g own ks vis = Ok vis' ->
     incl vis vis' /\ (forall k, In k ks -> present g k -> In k vis') /\ closed_new g vis vis' /\
     (forall x, In x vis' -> ~ In x vis -> exists k, In k ks /\ reach g k x /\ present g x)).
Proof.
  induction f as [|f [IH1 IH2]].
  - split; [intros k vis vis' E; discriminate|].
    intros ks vis vis'. destruct ks as [|m r]; [|rewrite walk_refs_cons; cbn [walk_ref]; discriminate].
    rewrite walk_refs_nil. intros [= <-]. split; [apply incl_refl|]. split; [intros k []|].
    split; [intros x Hx Hn; contradiction|intros x Hx Hn; contradiction].
  - assert (H1 : forall k vis vis', walk_ref (S f) g own k vis = Ok vis' ->
       incl vis vis' /\ (present g k -> In k vis') /\ closed_new g vis vis' /\
       (forall x, In x vis' -> ~ In x vis -> reach g k x /\ present g x)).
    { intros k vis vis'. rewrite walk_ref_unfold. destruct (lookup g k) as [s|] eqn:Ek.
      - destruct (mem_key k vis) eqn:Em.
        + intros [= <-]. split; [apply incl_refl|]. split; [intros _; apply mem_key_In; exact Em|].
          split; intros x Hx Hn; contradiction.
        + intro E. destruct (IH2 (succs s) (k :: vis) vis' E) as (A & B & C & D).
          assert (Hk : In k vis') by (apply A; left; reflexivity).
          split; [intros a Ha; apply A; right; exact Ha|]. split; [intros _; exact Hk|]. split.
          * intros x Hx Hn y [s' [Es' Hy]] Hp.
            destruct (key_eqb x k) eqn:Exk.
            -- apply key_eqb_eq in Exk. subst x. rewrite Ek in Es'. injection Es' as <-.
               apply B; assumption.
            -- apply (C x Hx); [|exists s'; split; assumption|exact Hp].
               intros [<-|Hin]; [rewrite key_eqb_refl in Exk; discriminate|contradiction].
          * intros x Hx Hn. destruct (key_eqb x k) eqn:Exk.
            -- apply key_eqb_eq in Exk. subst x. split; [apply reach_refl|unfold present; rewrite Ek; discriminate].
            -- destruct (D x Hx) as [m [Hm [Hr Hp]]].
               { intros [<-|Hin]; [rewrite key_eqb_refl in Exk; discriminate|contradiction]. }
               split; [|exact Hp]. eapply reach_head; [|exact Hr]. exists s. split; assumption.
      - destruct (mem_str (fst k) own); [discriminate|]. intros [= <-].
        split; [apply incl_refl|]. split; [intro Hp; unfold present in Hp; rewrite Ek in Hp; contradiction|].
        split; intros x Hx Hn; contradiction. }
    split; [exact H1|].
    intros ks. induction ks as [|m r IHr]; intros vis vis'.
    + rewrite walk_refs_nil. intros [= <-]. split; [apply incl_refl|]. split; [intros k []|].
      split; intros x Hx Hn; contradiction.
    + rewrite walk_refs_cons. destruct (walk_ref (S f) g own m vis) as [v1| | |] eqn:E; try discriminate.
      intro E2. destruct (H1 m vis v1 E) as (A1 & B1 & C1 & D1).
      destruct (IHr v1 vis' E2) as (A2 & B2 & C2 & D2).
      split; [intros a Ha; apply A2; apply A1; exact Ha|]. split.
      * intros k [<-|Hk] Hp; [apply A2; apply B1; exact Hp|apply B2; assumption].
      * split.
        -- intros x Hx Hn y He Hp. destruct (mem_key x v1) eqn:Ex.
           ++ apply mem_key_In in Ex. apply A2. apply (C1 x Ex Hn y He Hp).
           ++ apply mem_key_false in Ex. apply (C2 x Hx Ex y He Hp).
        -- intros x Hx Hn. destruct (mem_key x v1) eqn:Ex.
           ++ apply mem_key_In in Ex. destruct (D1 x Ex Hn) as [Hr Hp]. exists m. split; [left; reflexivity|split; assumption].
           ++ apply mem_key_false in Ex. destruct (D2 x Hx Ex) as [k [Hk [Hr Hp]]].
              exists k. split; [right; exact Hk|split; assumption].
Qed.

Theorem walk_refs_exact g own f ks vis' :
  walk_refs f g own ks [] = Ok vis' ->
  forall x, In x vis' <-> present g x /\ exists k, In k ks /\ present g k /\ reach g k x.
Proof.
  intro E. destruct (walk_spec g own f) as [_ H]. destruct (H ks [] vis' E) as (_ & B & C & D).
  intro x. split.
  - intro Hx. destruct (D x Hx (fun F => F)) as [k [Hk [Hr Hp]]]. split; [exact Hp|].
    exists k. split; [exact Hk|]. split; [|exact Hr].
    clear -Hr Hp. induction Hr as [a|a b c Hab IH [s [Es _]]]; [exact Hp|].
    apply IH. unfold present. rewrite Es. discriminate.
  - intros [Hp [k [Hk [Hpk Hr]]]]. revert Hp. induction Hr as [a|a b c Hab IH Hbc]; intro Hp.
    + apply B; assumption.
    + assert (Hb : In b vis').
      { apply IH; [exact Hk|exact Hpk|]. destruct Hbc as [s [Es _]]. unfold present. rewrite Es. discriminate. }
      apply (C b Hb (fun F => F) c Hbc Hp).
Qed.

(* ---------- swagger: every Field alternative converts --------------------------- *)
Lemma mem_string_In a l : mem_string a l = true <-> In a l.
Proof.
  unfold mem_string. rewrite existsb_exists. split.
  - intros [x [Hx E]]. apply String.eqb_eq in E. subst. exact Hx.
  - intro H. exists a. split; [exact H|apply String.eqb_refl].
Qed.

Lemma convert_ok_mono alts arms t :
  (forall a, In a alts -> In a arms) -> convert_ok alts t = true -> convert_ok arms t = true.
Proof.
  intro Hsub. induction t as [a|a k|i IH|i IH]; cbn [convert_ok]; intro H.
  - apply mem_string_In. apply Hsub. apply mem_string_In. exact H.
  - apply mem_string_In. apply Hsub. apply mem_string_In. exact H.
  - apply andb_true_iff in H as [H1 H2]. apply andb_true_iff. split; [|apply IH; exact H2].
    apply mem_string_In. apply Hsub. apply mem_string_In. exact H1.
  - apply andb_true_iff in H as [H1 H2]. apply andb_true_iff. split; [|apply IH; exact H2].
    apply mem_string_In. apply Hsub. apply mem_string_In. exact H1.
Qed.

Lemma alternatives_have_arms a : In a SwaggerGen.field_alternatives -> In a SwaggerGen.convert_schema_arms.
Proof.
  intro H. apply mem_string_In.
  pose proof swagger_arms_cover as C. rewrite forallb_forall in C. apply C. exact H.
Qed.

(* a field type built from the alternatives of j5.schema.v1.Field *)
(* ---------- flattened object fields ------------------------------------------------------- *)
(* no field of any schema is a flattened object field: the client properties are the properties *)
Definition flat_free (g : env) : Prop :=
  forall ks, In ks g -> forall p, In p (schema_props (snd ks)) -> is_flat (p_ty p) = None.

Lemma client_props_noflat g : forall fuel ps, (fuel <> 0)%nat -> (forall p, In p ps -> is_flat (p_ty p) = None) ->
  client_props fuel g ps = Some ps.
Proof.
  intros fuel ps Hf. destruct fuel as [|f]; [contradiction|]. clear Hf. cbn [client_props].
  induction ps as [|p r IH]; intro H; [reflexivity|]. cbn [fold_right].
  rewrite IH by (intros q Hq; apply H; right; exact Hq). rewrite (H p (or_introl eq_refl)). reflexivity.
Qed.

Lemma client_env_of_noflat g : forall l, (forall ks, In ks l -> forall p, In p (schema_props (snd ks)) -> is_flat (p_ty p) = None) ->
  client_env_of g l = Some l.
Proof.
  induction l as [|[k s] r IH]; intro H; [reflexivity|]. cbn [client_env_of].
  rewrite IH by (intros ks Hks; apply H; right; exact Hks).
  assert (Es : client_schema g s = Some s).
  { destruct s as [ps|ps|]; cbn [client_schema]; try reflexivity.
    rewrite client_props_noflat; [reflexivity|discriminate|]. intros p Hp. exact (H (k, SObject ps) (or_introl eq_refl) p Hp). }
  rewrite Es. reflexivity.
Qed.

Lemma cenv_noflat g : flat_free g -> cenv g = g /\ client_env g = Some g.
Proof. intro H. unfold cenv, client_env. rewrite (client_env_of_noflat g g H). split; reflexivity. Qed.

Definition wf_ty (t : fty) : Prop := convert_ok SwaggerGen.field_alternatives t = true.
Definition wf_props (ps : list prop) : Prop := Forall (fun p => wf_ty (p_ty p)) ps.

Lemma convert_total t : wf_ty t -> convert_ok SwaggerGen.convert_schema_arms t = true.
Proof. apply convert_ok_mono. exact alternatives_have_arms. Qed.

Lemma props_total ps : wf_props ps -> props_ok SwaggerGen.convert_schema_arms ps = true.
Proof.
  intro H. unfold props_ok. apply forallb_forall. intros p Hp.
  apply convert_total. unfold wf_props in H. rewrite Forall_forall in H. apply H. exact Hp.
Qed.

Definition wf_request (r : request) : Prop :=
  wf_props (r_path r) /\ wf_props (r_query r) /\ wf_props (body_list r).
Definition wf_client_method (m : client_method) : Prop :=
  wf_request (cm_req m) /\ match cm_resp m with Some ps => wf_props ps | None => True end.

Lemma swagger_method_total m : wf_client_method m ->
  swagger_method SwaggerGen.convert_schema_arms true m = Ok tt.
Proof.
  intros [[H1 [H2 H3]] H4]. unfold swagger_method.
  rewrite (props_total _ H1), (props_total _ H2). cbn [negb].
  unfold body_list in H3. destruct (r_body (cm_req m)) as [b|].
  - rewrite (props_total _ H3). cbn [negb]. destruct (cm_resp m) as [ps|]; [|reflexivity].
    rewrite (props_total _ H4). reflexivity.
  - cbn [negb]. destruct (cm_resp m) as [ps|]; [|reflexivity]. rewrite (props_total _ H4). reflexivity.
Qed.

Lemma swagger_methods_total ms : Forall wf_client_method ms ->
  swagger_methods SwaggerGen.convert_schema_arms true ms = Ok tt.
Proof.
  induction 1 as [|m r Hm Hr IH]; [reflexivity|].
  cbn [swagger_methods]. rewrite swagger_method_total by exact Hm. cbn [obind]. exact IH.
Qed.

Definition wf_env (g : env) : Prop := Forall (fun ks => wf_props (schema_props (snd ks))) g.

Lemma lookup_wf g k s : wf_env g -> lookup g k = Some s -> wf_props (schema_props s).
Proof.
  intro H. induction H as [|[k' s'] r Hs Hr IH]; cbn [lookup]; [discriminate|].
  destruct (key_eqb k k'); [intros [= <-]; exact Hs|exact IH].
Qed.

Theorem build_swagger_total g ms ks : wf_env g -> Forall wf_client_method ms ->
  build_swagger SwaggerGen.convert_schema_arms true g ms ks = Ok tt.
Proof.
  intros Hg Hm. unfold build_swagger. rewrite swagger_methods_total by exact Hm. cbn [obind].
  replace (swagger_schemas SwaggerGen.convert_schema_arms g ks) with true; [reflexivity|].
  symmetry. unfold swagger_schemas. apply forallb_forall. intros k _.
  destruct (lookup g k) as [s|] eqn:E; [|reflexivity]. apply props_total. eapply lookup_wf; eassumption.
Qed.

(* the arm list of the snapshot (before the repair) misses five alternatives: #18 *)
Definition snapshot_arms : list string :=
  ["any"; "array"; "bool"; "enum"; "float"; "integer"; "map"; "object"; "oneof"; "string"]%string.

Theorem snapshot_arms_refuted :
  exists t, wf_ty t /\ convert_ok snapshot_arms t = false.
Proof. exists (TScalar "key"). split; vm_compute; reflexivity. Qed.

Theorem snapshot_missing_arms :
  filter (fun a => negb (mem_string a snapshot_arms)) SwaggerGen.field_alternatives
  = ["bytes"; "date"; "decimal"; "key"; "timestamp"]%string.
Proof. vm_compute. reflexivity. Qed.

(* a method without response body made the snapshot's addMethod dereference nil *)
Theorem snapshot_nil_response_panics arms m :
  cm_resp m = None -> wf_client_method m -> (forall a, In a SwaggerGen.field_alternatives -> In a arms) ->
  is_panic (swagger_method arms false m) = true.
Proof.
  intros Hr [[H1 [H2 H3]] _] Hsub. unfold swagger_method.
  assert (P : forall ps, wf_props ps -> props_ok arms ps = true).
  { intros ps H. unfold props_ok. apply forallb_forall. intros p Hp.
    apply (convert_ok_mono SwaggerGen.field_alternatives); [exact Hsub|].
    unfold wf_props in H. rewrite Forall_forall in H. apply H. exact Hp. }
  rewrite (P _ H1), (P _ H2). cbn [negb]. unfold body_list in H3.
  destruct (r_body (cm_req m)); [rewrite (P _ H3)|]; cbn [negb]; rewrite Hr; reflexivity.
Qed.

(* ---------- naming conventions shared by compiler and structure reader ---------- *)
Lemma has_prefix_app p r : has_prefix p (p ++ r) = true.
Proof. induction p as [|a p IH]; cbn [has_prefix app]; [reflexivity|]. rewrite N.eqb_refl, IH. reflexivity. Qed.

Lemma has_suffix_app x suf : has_suffix suf (x ++ suf) = true.
Proof. unfold has_suffix. rewrite rev_app_distr. apply has_prefix_app. Qed.

Lemma classify_service_suffix x : classify_service (x ++ bytes_of "Service") = KService.
Proof. unfold classify_service. rewrite has_suffix_app. reflexivity. Qed.

Lemma classify_topic_suffix x : classify_service (x ++ bytes_of "Topic") = KTopic.
Proof.
  unfold classify_service.
  assert (E : forall suf, suf <> [] -> last_or 0 suf <> 99 -> has_suffix suf (x ++ bytes_of "Topic") = false).
  { intros suf Hne Hl. unfold has_suffix. rewrite rev_app_distr.
    change (rev (bytes_of "Topic")) with [99; 105; 112; 111; 84].
    destruct (rev suf) as [|c r] eqn:Er.
    - apply (f_equal (@rev N)) in Er. rewrite rev_involutive in Er. contradiction.
    - cbn [app has_prefix]. replace (c =? 99) with false; [reflexivity|].
      symmetry. apply N.eqb_neq. intro Ec. apply Hl. subst c.
      apply (f_equal (@rev N)) in Er. rewrite rev_involutive in Er. rewrite Er. cbn [rev].
      clear. induction (rev r) as [|y s IH]; [reflexivity|].
      change (last_or 0 ((y :: s) ++ [99])) with (last_or 0 (y :: s ++ [99])). apply last_or_snoc. }
  rewrite (E (bytes_of "Service")), (E (bytes_of "Sandbox")), (E (bytes_of "Events")); try discriminate;
    try (vm_compute; discriminate).
  rewrite has_suffix_app. reflexivity.
Qed.

(* what the compiler emits for one declared method (j5convert/service.go, sourcewalk/service.go) *)
Section Declared.
Variable to_snake : str -> str.

Local Notation fields_of := (PipelineCompile.fields_of to_snake).
Local Notation compile_method := (PipelineCompile.compile_method to_snake).
Local Notation compile_service := (PipelineCompile.compile_service to_snake).

Definition wf_decl (d : decl_method) : Prop :=
  1 <= dm_verb d <= 5 /\ dm_parts d <> [] /\ Forall (wf_part (dm_props d)) (dm_parts d)
  /\ snake_inj to_snake (dm_props d) /\ snake_ok to_snake (dm_props d).

Definition declared_src (d : decl_method) : src_method :=
  {| sm_name := dm_name d; sm_verb := dm_verb d; sm_path := decl_path d;
     sm_req := dm_name d ++ bytes_of "Request";
     sm_resp := if dm_raw d then bytes_of "HttpBody" else dm_name d ++ bytes_of "Response" |}.

(* buildMethod accepts what the compiler emits and recovers the declared verb and path *)
Theorem build_method_declared d : wf_decl d -> build_method (compile_method d) = Ok (declared_src d).
Proof.
  intros (Hv & Hne & Hf & Hinj & Hok). unfold build_method, compile_method.
  cbn [md_in_same_pkg md_in_name md_name md_out_name md_out_full md_http md_in_fields].
  rewrite str_eqb_refl. cbn [andb negb].
  assert (Hout : negb (str_eqb (if dm_raw d then bytes_of "HttpBody" else dm_name d ++ bytes_of "Response")
                               (dm_name d ++ bytes_of "Response"))
                 && negb (str_eqb (if dm_raw d then HTTPBODY else bytes_of "p." ++ dm_name d ++ bytes_of "Response") HTTPBODY) = false).
  { destruct (dm_raw d); [rewrite (str_eqb_refl HTTPBODY); apply andb_false_r|rewrite str_eqb_refl; reflexivity]. }
  rewrite Hout.
  replace ((dm_verb d =? 0) || (5 <? dm_verb d)) with false by lia.
  unfold decl_path. rewrite (path_law to_snake (dm_props d) (dm_parts d) Hne Hf Hinj Hok).
  reflexivity.
Qed.

Definition declared_service (s : decl_service) : src_service :=
  {| ss_sub := bytes_of "service"; ss_name := ds_name s ++ bytes_of "Service";
     ss_methods := map declared_src (ds_methods s) |}.

Lemma omapM_build ds : Forall wf_decl ds ->
  omapM build_method (map compile_method ds) = Ok (map declared_src ds).
Proof.
  induction 1 as [|d r Hd Hr IH]; [reflexivity|].
  cbn [map omapM]. rewrite build_method_declared by exact Hd. cbn [obind]. rewrite IH. reflexivity.
Qed.

(* addStructure lists exactly the declared services and methods, with declared verb and path *)
Theorem add_structure_declared svcs acc :
  Forall (fun s => Forall wf_decl (ds_methods s)) svcs ->
  add_structure (map compile_service svcs) acc =
  Ok {| sa_services := sa_services acc ++ map declared_service svcs; sa_topics := sa_topics acc |}.
Proof.
  intro H. revert acc. induction H as [|s r Hs Hr IH]; intro acc.
  - cbn [map add_structure]. rewrite app_nil_r. destruct acc; reflexivity.
  - cbn [map]. change (add_structure (compile_service s :: map compile_service r) acc) with
      (match classify_service (sd_name (compile_service s)) with
       | KService =>
          obind (omapM build_method (sd_methods (compile_service s))) (fun ms =>
            add_structure (map compile_service r)
              {| sa_services := sa_services acc ++ [{| ss_sub := sd_sub (compile_service s); ss_name := sd_name (compile_service s); ss_methods := ms |}];
                 sa_topics := sa_topics acc |})
       | KIgnored => add_structure (map compile_service r) acc
       | KTopic =>
          obind (omapM build_topic_method (sd_methods (compile_service s))) (fun ms =>
            add_structure (map compile_service r)
              {| sa_services := sa_services acc; sa_topics := sa_topics acc ++ [(sd_name (compile_service s), ms)] |})
       | KUnsupported => Err "unsupported service name"
       end).
    unfold compile_service at 1 2 3 4. cbn [sd_name sd_methods sd_sub].
    rewrite classify_service_suffix. rewrite (omapM_build (ds_methods s) Hs). cbn [obind].
    rewrite IH. cbn [sa_services sa_topics]. rewrite <- app_assoc. reflexivity.
Qed.
(* topics: <Name>Topic services whose methods take <M>Message and return google.protobuf.Empty *)
Definition declared_topic (t : decl_topic) : str * list str := (dt_name t ++ bytes_of "Topic", dt_msgs t).

Lemma build_topic_method_declared m : build_topic_method (compile_topic_method m) = Ok m.
Proof.
  unfold build_topic_method, compile_topic_method. cbn [md_in_same_pkg md_in_name md_name md_out_full].
  rewrite !str_eqb_refl. reflexivity.
Qed.

Lemma omapM_build_topic ms : omapM build_topic_method (map compile_topic_method ms) = Ok ms.
Proof.
  induction ms as [|m r IH]; [reflexivity|].
  cbn [map omapM]. rewrite build_topic_method_declared. cbn [obind]. rewrite IH. reflexivity.
Qed.

(* addStructure on the services followed by the topics of a package *)
Theorem add_structure_topics tops acc :
  add_structure (map compile_topic tops) acc =
  Ok {| sa_services := sa_services acc; sa_topics := sa_topics acc ++ map declared_topic tops |}.
Proof.
  revert acc. induction tops as [|t r IH]; intro acc.
  - cbn [map add_structure]. rewrite app_nil_r. destruct acc; reflexivity.
  - cbn [map]. change (add_structure (compile_topic t :: map compile_topic r) acc) with
      (match classify_service (sd_name (compile_topic t)) with
       | KService =>
          obind (omapM build_method (sd_methods (compile_topic t))) (fun ms =>
            add_structure (map compile_topic r)
              {| sa_services := sa_services acc ++ [{| ss_sub := sd_sub (compile_topic t); ss_name := sd_name (compile_topic t); ss_methods := ms |}];
                 sa_topics := sa_topics acc |})
       | KIgnored => add_structure (map compile_topic r) acc
       | KTopic =>
          obind (omapM build_topic_method (sd_methods (compile_topic t))) (fun ms =>
            add_structure (map compile_topic r)
              {| sa_services := sa_services acc; sa_topics := sa_topics acc ++ [(sd_name (compile_topic t), ms)] |})
       | KUnsupported => Err "unsupported service name"
       end).
    cbn [compile_topic sd_name sd_methods sd_sub].
    rewrite classify_topic_suffix. rewrite omapM_build_topic. cbn [obind].
    rewrite IH. cbn [sa_services sa_topics]. rewrite <- app_assoc. reflexivity.
Qed.

Lemma add_structure_app l1 : forall l2 acc mid,
  add_structure l1 acc = Ok mid -> add_structure (l1 ++ l2) acc = add_structure l2 mid.
Proof.
  induction l1 as [|s r IH]; intros l2 acc mid H.
  - cbn in H. injection H as <-. reflexivity.
  - cbn [app add_structure] in *. destruct (classify_service (sd_name s)).
    + destruct (omapM build_method (sd_methods s)) as [ms| | |]; cbn [obind] in *; try discriminate.
      apply IH. exact H.
    + apply IH. exact H.
    + destruct (omapM build_topic_method (sd_methods s)) as [ms| | |]; cbn [obind] in *; try discriminate.
      apply IH. exact H.
    + discriminate.
Qed.
End Declared.

(* ---------- a declared package and what the compiler emits for it ---------------- *)
Section Package.
Variable to_snake : str -> str.

Local Notation compile_image := (PipelineCompile.compile_image to_snake).

(* the paths a list method exposes: the walk over the item object of the response's array *)
Definition declared_list (g : env) (d : decl_full) : option (list (list str * fty)) :=
  if is_query_request (df_req d) then
    match list_root (df_resp d) with
    | Ok root => match walk_fields (S (length g)) (cenv g) root [] [] with Ok l => Some l | _ => None end
    | _ => None
    end
  else None.

(* the client method the declaration asks for *)
Definition declared_client (g : env) (svc : str) (d : decl_full) : client_method :=
  {| cm_service := svc ++ bytes_of "Service"; cm_name := df_name d; cm_verb := df_verb d;
     cm_path := join_with SLASH (df_parts d);
     cm_req := fill_request (df_verb d) (join_with SLASH (df_parts d)) (df_req d);
     cm_resp := df_resp d; cm_list := declared_list g d |}.

Definition declared_clients (P : decl_package) : list client_method :=
  flat_map (fun s => map (declared_client (im_schemas (compile_image P)) (fst s)) (snd s)) (dp_services P).

Definition valid_package (P : decl_package) : Prop :=
  (* every method: verb, path segments, request property names as the compiler needs them *)
  Forall (fun d => wf_decl to_snake (df_decl d)) (all_methods P)
  (* method names are unique in the package (they name the request and response messages) *)
  /\ NoDup (map df_name (all_methods P))
  (* a list method (a j5.list.v1.QueryRequest among the request properties) has exactly one array of
     object references in its response *)
  /\ Forall (fun d => is_query_request (df_req d) = true -> exists root, list_root (df_resp d) = Ok root) (all_methods P)
  (* every reference is to a declared schema, every field type is a Field alternative *)
  /\ all_refs_link (im_schemas (compile_image P)) = true
  /\ wf_env (im_schemas (compile_image P))
  (* flattened object fields do not form a cycle (ClientProperties would not return) *)
  /\ client_env (im_schemas (compile_image P)) <> None.
End Package.

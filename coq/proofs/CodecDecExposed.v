(* CodecDecExposed.v — a member whose property has no proto path of its own (an exposed oneof: its
   arms are fields of the enclosing message) is stored by running the oneof body on the enclosing
   message.  As a step on that message it reads and writes only the fields its arms can touch. *)
From Coq Require Import String List NArith ZArith Bool Lia.
From J5V.lib Require Import Outcome Json.
From J5V.model Require Import CodecTypes CodecDecScalar CodecDec CodecDecTree.
From J5V.proofs Require Import CodecDecStored CodecDecMsgSorted CodecDecSupport CodecDecLocal CodecDecTreeUnfold.
Import ListNotations.
Local Open Scope N_scope.

Lemma supported_ext {A} S (F G : msg -> outcome (msg * A)) : (forall h, F h = G h) -> supported S F -> supported S G.
Proof.
  intros E SF. constructor.
  - intros h h' a H. rewrite <- E in H. exact (sup_frame _ _ SF h h' a H).
  - intros h1 h2 h1' a Ag H. rewrite <- E in H. rewrite <- E. exact (sup_det _ _ SF h1 h2 h1' a Ag H).
  - intros h h' a W H. rewrite <- E in H. exact (sup_wf _ _ SF h h' a W H).
Qed.

Lemma supported_ret {A} S (a : A) : supported S (fun h => Ok (h, a)).
Proof.
  constructor.
  - intros h h' x H n _. injection H as <- _. reflexivity.
  - intros h1 h2 h1' x Ag H. injection H as <- <-. exists h2. split; [reflexivity|exact Ag].
  - intros h h' x W H. injection H as <- _. exact W.
Qed.

Lemma supported_fail {A} S (r : outcome (msg * A)) : is_ok r = false -> supported S (fun _ => r).
Proof.
  intros Hr. constructor; intros; cbv beta in *;
    match goal with H : r = Ok _ |- _ => rewrite H in Hr; discriminate end.
Qed.

Lemma supported_bind {A B} S (F : msg -> outcome (msg * A)) (G : A -> msg -> outcome (msg * B)) :
  supported S F -> (forall a, supported S (G a)) ->
  supported S (fun h => obind (F h) (fun r => G (snd r) (fst r))).
Proof.
  intros SF SG. constructor.
  - intros h h' b H n Hn. destruct (F h) as [[h1 a]| | |] eqn:E; cbn [obind fst snd] in H; try discriminate.
    rewrite (sup_frame _ _ (SG a) h1 h' b H n Hn). exact (sup_frame _ _ SF h h1 a E n Hn).
  - intros h1 h2 h1' b Ag H. destruct (F h1) as [[k1 a]| | |] eqn:E; cbn [obind fst snd] in H; try discriminate.
    destruct (sup_det _ _ SF h1 h2 k1 a Ag E) as (k2 & E2 & Ag2). rewrite E2. cbn [obind fst snd].
    exact (sup_det _ _ (SG a) k1 k2 h1' b Ag2 H).
  - intros h h' b W H. destruct (F h) as [[h1 a]| | |] eqn:E; cbn [obind fst snd] in H; try discriminate.
    exact (sup_wf _ _ (SG a) h1 h' b (sup_wf _ _ SF h h1 a W E) H).
Qed.

(* with_holder alone (no oneof check in front) *)
Lemma with_holder_supported {A} sibs (K : N -> msg -> outcome (msg * A)) : klocal sibs K ->
  forall path, path <> [] -> supported (supp_path path sibs) (fun h => with_holder path h K).
Proof.
  intros HK. induction path as [|a rest IH]; intros Hne; [congruence|].
  destruct rest as [|b r]; [exact (HK a)|]. cbn [supp_path].
  specialize (IH ltac:(discriminate)).
  apply (supported_ext _ (lift a (fun sub => with_holder (b :: r) sub K))); [intros h; reflexivity|].
  apply lift_supported. intros s s' x W H. exact (sup_wf _ _ IH s s' x W H).
Qed.

(* the fields a property can touch in the message that holds the object *)
Definition arms_support (arms : list property) : list N :=
  flat_map (fun a => supp_path (p_path a) (p_siblings a)) arms.

Lemma arms_support_in arms a : In a arms -> forall n, In n (supp_path (p_path a) (p_siblings a)) -> In n (arms_support arms).
Proof. intros Ha n Hn. unfold arms_support. apply in_flat_map. exists a. split; assumption. Qed.

Section Exposed.
  Variable orc : oracles.
  Variable e : env.

  (* the part of a member step that depends on the message: the oneof check and the store *)
  Definition cstep (d : N) (f : nat) (p : property) (v : jvalue) (h : msg) : outcome (msg * unit) :=
    if oneof_conflict p h then Err conflict_msg
    else omap (fun m' => (m', tt)) (tr_present orc e f (d + 1) p v h).

  Lemma omap_fst_unit (o : outcome (msg * unit)) : omap (fun m' => (m', tt)) (omap fst o) = o.
  Proof. destruct o as [[m []]| | |]; reflexivity. Qed.

  Lemma cstep_ordinary d f p v : p_path p <> [] -> supported (supp_path (p_path p) (p_siblings p)) (cstep d f p v).
  Proof.
    intros Hp. destruct f as [|f].
    { apply (supported_ext _ (fun h => if oneof_conflict p h then Err conflict_msg else OutOfFuel)).
      - intros h. reflexivity.
      - constructor; intros h; intros; destruct (oneof_conflict p h); discriminate. }
    destruct (shape_total orc e f (d + 1) p v Hp) as [r Hr Hc | K HK Hc].
    - apply (supported_ext _ (fun h => if oneof_conflict p h then Err conflict_msg else omap (fun m' => (m', tt)) r)).
      + intros h. unfold cstep. rewrite Hc. reflexivity.
      + constructor; intros h; intros; destruct (oneof_conflict p h); destruct r; discriminate.
    - apply (supported_ext _ (pstep (p_path p) (p_siblings p) K)).
      + intros h. unfold cstep, pstep. rewrite oneof_conflict_at. destruct (conflict_at _ _ h); [reflexivity|].
        rewrite Hc. rewrite omap_fst_unit. reflexivity.
      + apply pstep_supported; assumption.
  Qed.

  Definition arms_ok (arms : list property) : Prop := forall a, In a arms -> p_path a <> [].

  (* create_effect of an arm (a "!type" alone brings a message-typed arm into existence) *)
  Lemma create_effect_supported a : p_path a <> [] ->
    supported (supp_path (p_path a) (p_siblings a)) (fun h => omap (fun m' => (m', tt)) (create_effect a h)).
  Proof.
    intros Hp.
    assert (Kmut : klocal (p_siblings a) (fun n h => Ok (snd (msg_mutable (p_siblings a) n h), tt))).
    { intros n. constructor.
      - intros h h' x H y Hy. injection H as <- _. apply msg_get_mutable_abs.
        + intros ->. apply Hy. left. reflexivity.
        + left. intros Hs. apply Hy. right. exact Hs.
      - intros h1 h2 h1' x Ag H. injection H as <- <-. eexists. split; [reflexivity|].
        intros y Hy. destruct (N.eq_dec y n) as [->|Hne].
        + unfold msg_mutable. rewrite <- (Ag n (or_introl eq_refl)).
          destruct (msg_get n h1) as [[]|] eqn:E; cbn [snd]; rewrite ?msg_get_put_same; try reflexivity.
          rewrite E. symmetry. rewrite <- (Ag n (or_introl eq_refl)). exact E.
        + apply msg_mutable_snd_agree; [exact Ag| |exact Hne]. destruct Hy as [Hy|Hy]; [congruence|exact Hy].
      - intros h h' x W H. injection H as <- _. exact (proj2 (wf_mutable _ _ _ W)). }
    assert (Kid : klocal (p_siblings a) (fun (n : N) h => Ok (h, tt))) by (intros n; apply supported_ret).
    assert (G : forall K : N -> msg -> outcome (msg * unit), klocal (p_siblings a) K ->
                supported (supp_path (p_path a) (p_siblings a))
                          (fun h => omap (fun m' => (m', tt)) (omap fst (with_holder (p_path a) h K)))).
    { intros K HK. apply (supported_ext _ (fun h => with_holder (p_path a) h K)).
      - intros h. symmetry. apply omap_fst_unit.
      - apply with_holder_supported; assumption. }
    unfold create_effect. destruct (p_path a) as [|x r] eqn:Ep; [congruence|]. rewrite <- Ep in *.
    destruct (p_ty a); first [exact (G _ Kmut) | exact (G _ Kid)].
  Qed.

  Lemma oneof_post_supported arms found c : arms_ok arms ->
    supported (arms_support arms) (fun h => omap (fun m' => (m', tt)) (oneof_post arms h found c)).
  Proof.
    intros Hok. unfold oneof_post.
    destruct (N.of_nat (length found) =? 0).
    - destruct c as [c|]; [|apply supported_ret].
      destruct (find_prop arms c) as [a|] eqn:Ea; [|apply supported_fail; reflexivity].
      destruct (find_prop_In _ _ _ Ea) as [Ina _].
      apply (supported_weaken (supp_path (p_path a) (p_siblings a))); [apply arms_support_in; exact Ina|].
      apply create_effect_supported. apply Hok. exact Ina.
    - destruct (1 <? N.of_nat (length found)); [apply supported_fail; reflexivity|].
      destruct c as [c|]; [|apply supported_ret].
      destruct (index0 found) as [k0| | |]; cbn [obind]; try (apply supported_fail; reflexivity).
      destruct (bytes_eqb k0 c); [apply supported_ret|apply supported_fail; reflexivity].
  Qed.

  (* a member step of the oneof body, as a function of the message *)
  Lemma arm_member_supported d f a v seen arms : In a arms -> p_path a <> [] ->
    supported (arms_support arms) (fun h => tr_member d (tr_present orc e f (d + 1) a) a v h seen).
  Proof.
    intros Ina Hp. unfold tr_member. destruct (max_nesting_depth <? d + 1); [apply supported_fail; reflexivity|].
    assert (G : supported (arms_support arms)
                  (fun h => if mem_bytes (p_json a) seen then Err "field is already set"%string
                            else if oneof_conflict a h then Err conflict_msg
                            else obind (tr_present orc e f (d + 1) a v h) (fun m' => Ok (m', p_json a :: seen)))).
    { destruct (mem_bytes (p_json a) seen); [apply supported_fail; reflexivity|].
      apply (supported_ext _ (fun h => obind (cstep d f a v h) (fun r => (fun (_ : unit) h1 => Ok (h1, p_json a :: seen)) (snd r) (fst r)))).
      - intros h. unfold cstep. destruct (oneof_conflict a h); [reflexivity|].
        destruct (tr_present orc e f (d + 1) a v h); reflexivity.
      - apply (supported_bind (arms_support arms) (cstep d f a v) (fun (_ : unit) h1 => Ok (h1, p_json a :: seen))); [|intros _; apply supported_ret].
        apply (supported_weaken (supp_path (p_path a) (p_siblings a))); [apply arms_support_in; exact Ina|].
        apply cstep_ordinary. exact Hp. }
    destruct v; try exact G. apply supported_ret.
  Qed.

  Lemma oneof_body_supported arms : arms_ok arms -> forall f d ms seen found c,
    supported (arms_support arms) (fun h => omap (fun m' => (m', tt)) (tr_oneof orc e f d arms ms h seen found c)).
  Proof.
    intros Hok. induction f as [|f IH]; intros d ms seen found c;
      [apply (supported_ext _ (fun _ => OutOfFuel)); [intros h; reflexivity|apply supported_fail; reflexivity]|].
    apply (supported_ext _ (fun h => omap (fun m' => (m', tt))
      (match ms with
       | [] => oneof_post arms h found c
       | (key, v) :: r =>
         if bytes_eqb key type_key then
           match v with
           | JStr s => tr_oneof orc e f d arms r h seen found (Some s)
           | _ => Err "unexpected token, expected string"%string
           end
         else
           match find_prop arms key with
           | None => Err "no such key"%string
           | Some p =>
             obind (tr_member d (tr_present orc e f (d + 1) p) p v h seen) (fun ms' =>
               tr_oneof orc e f d arms r (fst ms') (snd ms') (found ++ [key]) c)
           end
       end))); [intros h; rewrite tr_oneof_S; reflexivity|].
    destruct ms as [|[key v] r]; [apply oneof_post_supported; exact Hok|].
    destruct (bytes_eqb key type_key).
    - destruct v; try (apply supported_fail; reflexivity). apply IH.
    - destruct (find_prop arms key) as [a|] eqn:Ea; [|apply supported_fail; reflexivity].
      destruct (find_prop_In _ _ _ Ea) as [Ina _].
      apply (supported_ext _ (fun h => obind (tr_member d (tr_present orc e f (d + 1) a) a v h seen)
               (fun r0 => (fun s1 h1 => omap (fun m' => (m', tt)) (tr_oneof orc e f d arms r h1 s1 (found ++ [key]) c)) (snd r0) (fst r0)))).
      + intros h. destruct (tr_member d (tr_present orc e f (d + 1) a) a v h seen) as [[h1 s1]| | |]; reflexivity.
      + apply (supported_bind (arms_support arms) (fun h => tr_member d (tr_present orc e f (d + 1) a) a v h seen)
                 (fun s1 h1 => omap (fun m' => (m', tt)) (tr_oneof orc e f d arms r h1 s1 (found ++ [key]) c)));
          [apply arm_member_supported; [exact Ina|apply Hok; exact Ina]|]. intros s1. apply IH.
  Qed.

  (* the support of any property of an object *)
  Definition prop_support (p : property) : list N :=
    match p_path p with
    | [] => match p_ty p with
            | FOneof ref => match lookup e ref with Some (SOneof arms) => arms_support arms | _ => [] end
            | _ => []
            end
    | path => supp_path path (p_siblings p)
    end.

  Definition prop_ok (p : property) : Prop :=
    match p_path p with
    | [] => match p_ty p with
            | FOneof ref => match lookup e ref with Some (SOneof arms) => arms_ok arms | _ => True end
            | _ => True
            end
    | _ => True
    end.

  Theorem cstep_supported d f p v : prop_ok p -> supported (prop_support p) (cstep d f p v).
  Proof.
    intros Hok. unfold prop_support, prop_ok in *. destruct (p_path p) as [|a r] eqn:Ep.
    - (* no path: the conflict check is vacuous; only an exposed oneof stores anything *)
      assert (Hc : forall h, oneof_conflict p h = false) by (intros h; unfold oneof_conflict; rewrite Ep; reflexivity).
      destruct f as [|f].
      { apply (supported_ext _ (fun _ => OutOfFuel)); [intros h; unfold cstep; rewrite Hc; reflexivity|].
        apply supported_fail. reflexivity. }
      assert (Fail : forall c, (forall h, tr_present orc e (S f) (d + 1) p v h = Err c) -> forall T, supported T (cstep d (S f) p v)).
      { intros c Hc' T. apply (supported_ext _ (fun _ => Err c)); [|apply supported_fail; reflexivity].
        intros h. unfold cstep. rewrite Hc, Hc'. reflexivity. }
      destruct (p_ty p) as [k|ref|ref|ref|item|item|pb] eqn:Ety.
      + destruct (is_container v) eqn:Ec; [eapply Fail; intros h; rewrite tr_present_S, Ety, Ec; reflexivity|].
        destruct (scalar_from_go orc k (goval_of_json v)) as [x|c0|s|] eqn:Es.
        * eapply Fail. intros h. rewrite tr_present_S, Ety, Ec, Es, Ep. reflexivity.
        * eapply Fail. intros h. rewrite tr_present_S, Ety, Ec, Es. reflexivity.
        * apply (supported_ext _ (fun _ => Panic s)); [|apply supported_fail; reflexivity].
          intros h. unfold cstep. rewrite Hc, tr_present_S, Ety, Ec, Es. reflexivity.
        * apply (supported_ext _ (fun _ => OutOfFuel)); [|apply supported_fail; reflexivity].
          intros h. unfold cstep. rewrite Hc, tr_present_S, Ety, Ec, Es. reflexivity.
      + destruct v; try (eapply Fail; intros h; rewrite tr_present_S, Ety; reflexivity).
        destruct (lookup e ref) as [[| |prefix opts]|] eqn:El;
          try (eapply Fail; intros h; rewrite tr_present_S, Ety, El; reflexivity).
        destruct (option_by_name prefix opts s) eqn:Eo; eapply Fail; intros h; rewrite tr_present_S, Ety, El, Eo, ?Ep; reflexivity.
      + destruct v; try (eapply Fail; intros h; rewrite tr_present_S, Ety; reflexivity).
        destruct (lookup e ref) as [[props| |]|] eqn:El;
          eapply Fail; intros h; rewrite tr_present_S, Ety, El, ?Ep; reflexivity.
      + destruct v; try (eapply Fail; intros h; rewrite tr_present_S, Ety; reflexivity).
        destruct (lookup e ref) as [[|arms|]|] eqn:El;
          try (eapply Fail; intros h; rewrite tr_present_S, Ety, El; reflexivity).
        apply (supported_ext _ (fun h => omap (fun m' => (m', tt)) (tr_oneof orc e f (d + 1) arms members h [] [] None))).
        * intros h. unfold cstep. rewrite Hc, tr_present_S, Ety, El, Ep. reflexivity.
        * apply oneof_body_supported. exact Hok.
      + destruct v; try (eapply Fail; intros h; rewrite tr_present_S, Ety; reflexivity).
        destruct item; eapply Fail; intros h; rewrite tr_present_S, Ety, ?Ep; reflexivity.
      + destruct v; try (eapply Fail; intros h; rewrite tr_present_S, Ety; reflexivity).
        destruct item; eapply Fail; intros h; rewrite tr_present_S, Ety, ?Ep; reflexivity.
      + destruct v; try (eapply Fail; intros h; rewrite tr_present_S, Ety; reflexivity).
        eapply Fail. intros h. rewrite tr_present_S, Ety, Ep. reflexivity.
    - rewrite <- Ep. apply cstep_ordinary. congruence.
  Qed.
End Exposed.

(* ProtoPrintLitProofs.v - lemmas about model/ProtoPrintLit.v (literal layer of C05).

   Main results (all for ALL inputs, no fuel anywhere: the loops are structural):
     utf8_decode_class / utf8_decode_encode   Go UTF-8: decode then encode = consumed bytes
     parse_print_string    parse_string_lit (print_string_lit s) = Some s      (bytes < 256)
     lex_print_string      lex_string_lit (print_string_lit s ++ t) = Some (s, t)
                           (the closing quote found is the printed one, whatever follows:
                            this is the usable form of "no unescaped quote in the body")
     parse_string_lit_lex  parse_string_lit = lex_string_lit with nothing left over
     print_string_ascii    every output byte is in 0x20..0x7e                  (no hypothesis)
     print_string_lit_go_eq  the transcription with Go's exact slicing
                           (indexNeedEscapeInString fast path) = print_string_lit
     parse_print_uint / parse_print_int / parse_print_bool
     split_join_dot        split_dot (join_dot parts) = parts for non-empty lists of identifiers
   Not modelled: floats (fFloat); strconv.ParseInt's sign inside \x \u \U on the reader side. *)
From Coq Require Import String List Arith NArith ZArith Bool Lia ZifyN ZifyNat ZifyBool.
From J5V.lib Require Import Radix.
From J5V.model Require Import ProtoPrintLit.
Import ListNotations.
Local Open Scope N_scope.
Local Open Scope bool_scope.
Arguments Nat.sub : simpl never.

(* lia with / and mod by literals *)
Ltac dlia := zify; Z.div_mod_to_equations; lia.

Definition is_byte (b : N) : Prop := b < 256.
Definition is_print_ascii (b : N) : Prop := 32 <= b <= 126.

(* ====================================================================== *)
(* UTF-8: decode then encode gives back the consumed bytes                *)
(* ====================================================================== *)
Lemma enc2 s0 s1 :
  194 <= s0 < 224 -> 128 <= s1 <= 191 ->
  utf8_encode ((s0 - 192) * 64 + (s1 - 128)) = [s0; s1].
Proof.
  intros H0 H1. unfold utf8_encode.
  set (r := (s0 - 192) * 64 + (s1 - 128)).
  assert (Hr : 128 <= r < 2048) by (subst r; lia).
  replace (r <? 128) with false by lia.
  replace (r <? 2048) with true by lia.
  assert (E1 : 192 + r / 64 = s0) by (subst r; dlia).
  assert (E2 : 128 + r mod 64 = s1) by (subst r; dlia).
  rewrite E1, E2. reflexivity.
Qed.

Lemma enc3 s0 s1 s2 :
  224 <= s0 < 240 -> 128 <= s1 <= 191 -> 128 <= s2 <= 191 ->
  (s0 = 224 -> 160 <= s1) -> (s0 = 237 -> s1 <= 159) ->
  let r := (s0 - 224) * 4096 + (s1 - 128) * 64 + (s2 - 128) in
  utf8_encode r = [s0; s1; s2] /\ 2048 <= r < 65536.
Proof.
  intros H0 H1 H2 Hlo Hhi r.
  assert (Hr : 2048 <= r < 65536) by (subst r; lia).
  assert (Hs : r < 55296 \/ 57343 < r) by (subst r; lia).
  split; [|exact Hr]. unfold utf8_encode, max_rune.
  replace (r <? 128) with false by lia.
  replace (r <? 2048) with false by lia.
  replace ((1114111 <? r) || ((55296 <=? r) && (r <=? 57343))) with false by lia.
  replace (r <? 65536) with true by lia.
  assert (E1 : 224 + r / 4096 = s0) by (subst r; dlia).
  assert (E2 : 128 + (r / 64) mod 64 = s1) by (subst r; dlia).
  assert (E3 : 128 + r mod 64 = s2) by (subst r; dlia).
  rewrite E1, E2, E3. reflexivity.
Qed.

Lemma enc4 s0 s1 s2 s3 :
  240 <= s0 <= 244 -> 128 <= s1 <= 191 -> 128 <= s2 <= 191 -> 128 <= s3 <= 191 ->
  (s0 = 240 -> 144 <= s1) -> (s0 = 244 -> s1 <= 143) ->
  let r := (s0 - 240) * 262144 + (s1 - 128) * 4096 + (s2 - 128) * 64 + (s3 - 128) in
  utf8_encode r = [s0; s1; s2; s3] /\ 65536 <= r <= max_rune.
Proof.
  intros H0 H1 H2 H3 Hlo Hhi r. unfold max_rune.
  assert (Hr : 65536 <= r <= 1114111) by (subst r; lia).
  split; [|exact Hr]. unfold utf8_encode, max_rune.
  replace (r <? 128) with false by lia.
  replace (r <? 2048) with false by lia.
  replace ((1114111 <? r) || ((55296 <=? r) && (r <=? 57343))) with false by lia.
  replace (r <? 65536) with false by lia.
  assert (E1 : 240 + r / 262144 = s0) by (subst r; dlia).
  assert (E2 : 128 + (r / 4096) mod 64 = s1) by (subst r; dlia).
  assert (E3 : 128 + (r / 64) mod 64 = s2) by (subst r; dlia).
  assert (E4 : 128 + r mod 64 = s3) by (subst r; dlia).
  rewrite E1, E2, E3, E4. reflexivity.
Qed.

(* the three possible results of DecodeRuneInString on a non-empty string *)
Inductive decode_class (s0 : N) (s : list N) : N * nat -> Prop :=
| DcAscii : s0 < 128 -> decode_class s0 s (s0, 1%nat)
| DcInvalid : 128 <= s0 -> decode_class s0 s (rune_error, 1%nat)
| DcMulti r n : 128 <= s0 -> 128 <= r <= max_rune -> (2 <= n <= 4)%nat ->
    (n <= length s)%nat -> utf8_encode r = firstn n s -> decode_class s0 s (r, n).

Lemma utf8_decode_class s0 r' : decode_class s0 (s0 :: r') (utf8_decode (s0 :: r')).
Proof.
  unfold utf8_decode.
  destruct (s0 <? 128) eqn:E0; [apply DcAscii; lia|].
  destruct ((s0 <? 194) || (244 <? s0)) eqn:E1; [apply DcInvalid; lia|].
  destruct (s0 <? 224) eqn:E2.
  { (* two bytes *)
    destruct r' as [|s1 r1]; [apply DcInvalid; lia|].
    unfold is_cont. destruct ((128 <=? s1) && (s1 <=? 191)) eqn:C1; [|apply DcInvalid; lia].
    apply DcMulti; [lia| |lia|cbn [length]; lia|].
    - unfold max_rune. lia.
    - cbn [firstn]. apply enc2; lia. }
  destruct (s0 <? 240) eqn:E3.
  { (* three bytes *)
    destruct r' as [|s1 [|s2 r2]]; try (apply DcInvalid; lia).
    unfold is_cont.
    destruct (((if s0 =? 224 then 160 else 128) <=? s1)
              && (s1 <=? (if s0 =? 237 then 159 else 191))
              && ((128 <=? s2) && (s2 <=? 191))) eqn:C; [|apply DcInvalid; lia].
    assert (H1 : 128 <= s1 <= 191) by (destruct (s0 =? 224), (s0 =? 237); lia).
    assert (Hlo : s0 = 224 -> 160 <= s1) by (destruct (s0 =? 224) eqn:?; lia).
    assert (Hhi : s0 = 237 -> s1 <= 159) by (destruct (s0 =? 237) eqn:?; lia).
    destruct (enc3 s0 s1 s2) as [He Hr]; try lia.
    apply DcMulti; [lia| |lia|cbn [length]; lia|].
    - unfold max_rune. lia.
    - cbn [firstn]. exact He. }
  (* four bytes *)
  destruct r' as [|s1 [|s2 [|s3 r3]]]; try (apply DcInvalid; lia).
  unfold is_cont.
  destruct (((if s0 =? 240 then 144 else 128) <=? s1)
            && (s1 <=? (if s0 =? 244 then 143 else 191))
            && ((128 <=? s2) && (s2 <=? 191)) && ((128 <=? s3) && (s3 <=? 191))) eqn:C;
    [|apply DcInvalid; lia].
  assert (H1 : 128 <= s1 <= 191) by (destruct (s0 =? 240), (s0 =? 244); lia).
  assert (Hlo : s0 = 240 -> 144 <= s1) by (destruct (s0 =? 240) eqn:?; lia).
  assert (Hhi : s0 = 244 -> s1 <= 143) by (destruct (s0 =? 244) eqn:?; lia).
  destruct (enc4 s0 s1 s2 s3) as [He Hr]; try lia.
  apply DcMulti; [lia| |lia|cbn [length]; lia|].
  - lia.
  - cbn [firstn]. exact He.
Qed.

(* the statement asked for: a well-formed prefix decodes to a code point whose
   encoding is exactly the consumed bytes *)
Lemma utf8_decode_encode s r n :
  s <> [] -> utf8_decode s = (r, n) -> ~ (r = rune_error /\ n = 1%nat) ->
  utf8_encode r = firstn n s /\ (1 <= n <= length s)%nat.
Proof.
  intros Hs Hd Hne. destruct s as [|s0 r']; [congruence|].
  pose proof (utf8_decode_class s0 r') as Hc. rewrite Hd in Hc.
  inversion Hc as [Ha|Hi|r0 n0 H0 Hr Hn Hl He]; subst.
  - split; [|cbn [length]; lia]. unfold utf8_encode. replace (r <? 128) with true by lia. reflexivity.
  - exfalso. apply Hne. split; reflexivity.
  - split; [exact He|lia].
Qed.

(* ====================================================================== *)
(* hex digits                                                             *)
(* ====================================================================== *)
Lemma hexval_hex_digit d : d < 16 -> hexval (hex_digit d) = Some d.
Proof.
  intros H. unfold hex_digit, hexval. destruct (d <? 10) eqn:E.
  - replace ((48 <=? 48 + d) && (48 + d <=? 57)) with true by lia. f_equal. lia.
  - replace ((48 <=? 87 + d) && (87 + d <=? 57)) with false by lia.
    replace ((97 <=? 87 + d) && (87 + d <=? 102)) with true by lia. f_equal. lia.
Qed.

Lemma hex_digit_ascii d : d < 16 -> is_print_ascii (hex_digit d).
Proof. intros H. unfold is_print_ascii, hex_digit. destruct (d <? 10) eqn:E; lia. Qed.

Lemma hexvals_app a b : forall acc,
  hexvals acc (a ++ b) =
  match hexvals acc a with Some v => hexvals v b | None => None end.
Proof.
  induction a as [|x a IH]; intros acc; cbn [app hexvals]; [reflexivity|].
  destruct (hexval x); [apply IH|reflexivity].
Qed.

Lemma hexvals_hex_be k : forall v acc,
  v < 16 ^ N.of_nat k -> hexvals acc (hex_be k v) = Some (acc * 16 ^ N.of_nat k + v).
Proof.
  induction k as [|k IH]; intros v acc Hv.
  - change (N.of_nat 0) with 0 in *. rewrite N.pow_0_r in *. cbn [hex_be hexvals]. f_equal. lia.
  - rewrite Nnat.Nat2N.inj_succ, N.pow_succ_r' in *. cbn [hex_be].
    rewrite hexvals_app, IH by (apply N.div_lt_upper_bound; lia).
    cbn [hexvals]. rewrite hexval_hex_digit by (apply N.mod_lt; lia).
    f_equal. pose proof (N.div_mod v 16). set (X := 16 ^ N.of_nat k) in *.
    set (q := v / 16) in *. set (m := v mod 16) in *. lia.
Qed.

Lemma hex_be_length k : forall v, length (hex_be k v) = k.
Proof.
  induction k as [|k IH]; intros v; cbn [hex_be]; [reflexivity|].
  rewrite app_length, IH. cbn [length]. lia.
Qed.

Lemma hex_be_ascii k : forall v, Forall is_print_ascii (hex_be k v).
Proof.
  induction k as [|k IH]; intros v; cbn [hex_be]; [constructor|].
  apply Forall_app. split; [apply IH|]. constructor; [|constructor].
  apply hex_digit_ascii. apply N.mod_lt. lia.
Qed.

Lemma hex_be_2 v : hex_be 2 v = [hex_digit (v / 16 mod 16); hex_digit (v mod 16)].
Proof. reflexivity. Qed.

Lemma hex_be_4 v : exists a b c d, hex_be 4 v = [a; b; c; d].
Proof. cbn [hex_be app]. repeat eexists. Qed.

Lemma hex_be_8 v : exists a b c d a' b' c' d', hex_be 8 v = [a; b; c; d; a'; b'; c'; d'].
Proof. cbn [hex_be app]. repeat eexists. Qed.

(* ---- the reader on each escape the printer can emit -------------------- *)
Lemma lex_escape_x c rest :
  c < 256 -> lex_escape (120 :: hex_be 2 c ++ rest) = Some ([c], 4%nat).
Proof.
  intros Hc. rewrite hex_be_2. cbn [app].
  change (lex_escape (120 :: hex_digit (c / 16 mod 16) :: hex_digit (c mod 16) :: rest))
    with (match hexval (hex_digit (c / 16 mod 16)) with
          | None => None
          | Some v1 => match hexval (hex_digit (c mod 16)) with
                       | Some v2 => Some ([v1 * 16 + v2], 4%nat)
                       | None => Some ([v1], 3%nat)
                       end
          end).
  rewrite !hexval_hex_digit by (apply N.mod_lt; lia).
  do 3 f_equal. dlia.
Qed.

Lemma lex_escape_u_unfold a b c d rest :
  lex_escape (117 :: a :: b :: c :: d :: rest) =
  match hexvals 0 [a; b; c; d] with
  | Some v => Some (utf8_encode v, 6%nat)
  | None => None
  end.
Proof. reflexivity. Qed.

Lemma lex_escape_U_unfold a b c d a' b' c' d' rest :
  lex_escape (85 :: a :: b :: c :: d :: a' :: b' :: c' :: d' :: rest) =
  match hexvals 0 [a; b; c; d; a'; b'; c'; d'] with
  | Some v => if max_rune <? v then None else Some (utf8_encode v, 10%nat)
  | None => None
  end.
Proof. reflexivity. Qed.

Lemma lex_escape_u r rest :
  r <= 65535 -> lex_escape (117 :: hex_be 4 r ++ rest) = Some (utf8_encode r, 6%nat).
Proof.
  intros Hr. destruct (hex_be_4 r) as (a & b & c & d & E). rewrite E. cbn [app].
  rewrite lex_escape_u_unfold, <- E, hexvals_hex_be.
  - reflexivity.
  - change (16 ^ N.of_nat 4) with 65536. lia.
Qed.

Lemma lex_escape_U r rest :
  r <= max_rune -> lex_escape (85 :: hex_be 8 r ++ rest) = Some (utf8_encode r, 10%nat).
Proof.
  unfold max_rune. intros Hr.
  destruct (hex_be_8 r) as (a & b & c & d & a' & b' & c' & d' & E). rewrite E. cbn [app].
  rewrite lex_escape_U_unfold, <- E, hexvals_hex_be.
  - cbn [N.mul N.add]. unfold max_rune. replace (1114111 <? r) with false by lia. reflexivity.
  - change (16 ^ N.of_nat 8) with 4294967296. lia.
Qed.

(* ====================================================================== *)
(* one printer step read back by one reader step                          *)
(* ====================================================================== *)
Lemma lex_rune_esc_low r rest :
  r < 128 -> (r <? 32) || (r =? 34) || (r =? 92) || (r =? 127) = true ->
  lex_step (print_rune_esc r ++ rest) = Some ([r], length (print_rune_esc r)).
Proof.
  intros Hr Hc. unfold print_rune_esc. cbn [app].
  change (lex_step (92 :: ?x)) with (lex_escape x).
  destruct ((r =? 34) || (r =? 92)) eqn:E1.
  { assert (Hq : r = 34 \/ r = 92) by lia. destruct Hq; subst r; reflexivity. }
  destruct (r =? 10) eqn:E2; [assert (r = 10) by lia; subst r; reflexivity|].
  destruct (r =? 13) eqn:E3; [assert (r = 13) by lia; subst r; reflexivity|].
  destruct (r =? 9) eqn:E4; [assert (r = 9) by lia; subst r; reflexivity|].
  cbn [app]. rewrite lex_escape_x by lia. cbn [length]. rewrite hex_be_length. reflexivity.
Qed.

Lemma lex_rune_esc_high c rest :
  128 <= c < 256 ->
  lex_step (print_rune_esc c ++ rest) = Some ([c], length (print_rune_esc c)).
Proof.
  intros Hc. unfold print_rune_esc.
  replace ((c =? 34) || (c =? 92)) with false by lia.
  replace (c =? 10) with false by lia. replace (c =? 13) with false by lia.
  replace (c =? 9) with false by lia. cbn [app].
  change (lex_step (92 :: ?x)) with (lex_escape x).
  rewrite lex_escape_x by lia. cbn [length]. rewrite hex_be_length. reflexivity.
Qed.

Lemma lex_rune_uni r rest :
  128 <= r <= max_rune ->
  lex_step (print_rune_uni r ++ rest) = Some (utf8_encode r, length (print_rune_uni r)).
Proof.
  intros Hr. unfold print_rune_uni. destruct (r <=? 65535) eqn:E; cbn [app].
  - change (lex_step (92 :: ?x)) with (lex_escape x).
    rewrite lex_escape_u by lia. cbn [length]. rewrite hex_be_length. reflexivity.
  - change (lex_step (92 :: ?x)) with (lex_escape x).
    rewrite lex_escape_U by lia. cbn [length]. rewrite hex_be_length. reflexivity.
Qed.

Lemma lex_raw c rest :
  32 <= c < 127 -> c <> 34 -> c <> 92 -> lex_step (c :: rest) = Some ([c], 1%nat).
Proof.
  intros Hc H1 H2. unfold lex_step.
  replace (c =? 10) with false by lia. replace (c =? 0) with false by lia.
  replace (c =? 92) with false by lia. replace (c <? 128) with true by lia. reflexivity.
Qed.

Lemma print_rune_esc_head r : exists t, print_rune_esc r = 92 :: t.
Proof. unfold print_rune_esc. eexists. reflexivity. Qed.
Lemma print_rune_uni_head r : exists t, print_rune_uni r = 92 :: t.
Proof. unfold print_rune_uni. destruct (r <=? 65535); eexists; reflexivity. Qed.

(* what one iteration of the printer loop produces *)
Record step_ok (s : list N) (out : list N) (n : nat) : Prop := {
  so_width : (1 <= n <= length s)%nat;
  so_head : exists o t, out = o :: t /\ o <> 34;
  so_ascii : Forall is_print_ascii out;
  so_lex : Forall is_byte s ->
           forall rest, lex_step (out ++ rest) = Some (firstn n s, length out)
}.

Lemma print_rune_esc_ascii r : r < 32 \/ r = 34 \/ r = 92 \/ r = 127 \/ 128 <= r ->
  Forall is_print_ascii (print_rune_esc r).
Proof.
  intros Hr. unfold print_rune_esc. constructor; [unfold is_print_ascii; lia|].
  destruct ((r =? 34) || (r =? 92)) eqn:E1.
  { constructor; [unfold is_print_ascii; lia|constructor]. }
  destruct (r =? 10); [repeat constructor; unfold is_print_ascii; lia|].
  destruct (r =? 13); [repeat constructor; unfold is_print_ascii; lia|].
  destruct (r =? 9); [repeat constructor; unfold is_print_ascii; lia|].
  constructor; [unfold is_print_ascii; lia|apply hex_be_ascii].
Qed.

Lemma print_rune_uni_ascii r : Forall is_print_ascii (print_rune_uni r).
Proof.
  unfold print_rune_uni.
  destruct (r <=? 65535); (constructor; [unfold is_print_ascii; lia|]);
    (constructor; [unfold is_print_ascii; lia|apply hex_be_ascii]).
Qed.

Lemma print_step_ok s0 r' :
  step_ok (s0 :: r') (fst (print_step (s0 :: r'))) (snd (print_step (s0 :: r'))).
Proof.
  unfold print_step.
  pose proof (utf8_decode_class s0 r') as Hc.
  destruct (utf8_decode (s0 :: r')) as [r n].
  inversion Hc as [Ha|Hi|r0 n0 H0 Hr Hn Hl He]; subst.
  - (* ASCII *)
    unfold rune_error. replace ((r =? 65533) && Nat.eqb 1 1) with false by lia.
    destruct ((r <? 32) || (r =? 34) || (r =? 92) || (r =? 127)) eqn:E; cbn [fst snd].
    + constructor.
      * cbn [length]. lia.
      * destruct (print_rune_esc_head r) as [t Ht]. exists 92, t. split; [exact Ht|lia].
      * apply print_rune_esc_ascii. lia.
      * intros _ rest. cbn [firstn]. apply lex_rune_esc_low; [lia|exact E].
    + replace (128 <=? r) with false by lia. cbn [fst snd firstn]. constructor.
      * cbn [length]. lia.
      * exists r, []. split; [reflexivity|lia].
      * constructor; [unfold is_print_ascii; lia|constructor].
      * intros _ rest. cbn [app length]. apply lex_raw; lia.
  - (* invalid byte *)
    cbn [Nat.eqb]. rewrite N.eqb_refl. cbn [andb fst snd hd]. constructor.
    + cbn [length]. lia.
    + destruct (print_rune_esc_head s0) as [t Ht]. exists 92, t. split; [exact Ht|lia].
    + apply print_rune_esc_ascii. lia.
    + intros Hb rest. cbn [firstn]. apply lex_rune_esc_high.
      inversion Hb as [|? ? Hb0 ?]; subst. unfold is_byte in Hb0. lia.
  - (* well-formed multi-byte *)
    replace ((r =? rune_error) && Nat.eqb n 1) with false
      by (destruct n as [|[|n]]; [lia|lia|cbn [Nat.eqb]; rewrite andb_false_r; reflexivity]).
    replace ((r <? 32) || (r =? 34) || (r =? 92) || (r =? 127)) with false by lia.
    replace (128 <=? r) with true by lia. cbn [fst snd]. constructor.
    + lia.
    + destruct (print_rune_uni_head r) as [t Ht]. exists 92, t. split; [exact Ht|lia].
    + apply print_rune_uni_ascii.
    + intros _ rest. rewrite <- He. apply lex_rune_uni. exact Hr.
Qed.

(* ====================================================================== *)
(* the loops                                                              *)
(* ====================================================================== *)
Lemma print_body_skip : forall s k,
  (k <= length s)%nat -> print_body k s = print_body 0 (skipn k s).
Proof.
  induction s as [|c r IH]; intros k Hk.
  - destruct k; [reflexivity|cbn [length] in Hk; lia].
  - destruct k as [|k]; [reflexivity|]. cbn [print_body skipn]. apply IH. cbn [length] in Hk. lia.
Qed.

Lemma parse_body_skip : forall s k,
  (k <= length s)%nat -> parse_body k s = parse_body 0 (skipn k s).
Proof.
  induction s as [|c r IH]; intros k Hk.
  - destruct k; [reflexivity|cbn [length] in Hk; lia].
  - destruct k as [|k]; [reflexivity|]. cbn [parse_body skipn]. apply IH. cbn [length] in Hk. lia.
Qed.

Lemma print_body_cons s0 r' :
  print_body 0 (s0 :: r') =
  fst (print_step (s0 :: r')) ++
  print_body 0 (skipn (snd (print_step (s0 :: r'))) (s0 :: r')).
Proof.
  pose proof (print_step_ok s0 r') as Hok. destruct Hok as [Hw _ _ _].
  cbn [print_body]. destruct (print_step (s0 :: r')) as [out n]. cbn [fst snd] in *.
  cbn [length] in Hw. rewrite print_body_skip by lia.
  destruct n as [|n]; [lia|]. reflexivity.
Qed.

Lemma parse_body_cons c r :
  parse_body 0 (c :: r) =
  if c =? 34 then match r with [] => Some [] | _ => None end
  else match lex_step (c :: r) with
       | None => None
       | Some (out, n) =>
           match parse_body (pred n) r with
           | Some rest => Some (out ++ rest)
           | None => None
           end
       end.
Proof. reflexivity. Qed.

Lemma skipn_app_length {A} (a b : list A) : skipn (length a) (a ++ b) = b.
Proof. induction a as [|x a IH]; [reflexivity|exact IH]. Qed.

Lemma parse_print_body : forall m s,
  (length s <= m)%nat -> Forall is_byte s ->
  parse_body 0 (print_body 0 s ++ [34]) = Some s.
Proof.
  induction m as [|m IH]; intros s Hm Hb.
  - destruct s; [reflexivity|cbn [length] in Hm; lia].
  - destruct s as [|s0 r']; [reflexivity|].
    rewrite print_body_cons.
    pose proof (print_step_ok s0 r') as Hok.
    destruct (print_step (s0 :: r')) as [out n]. cbn [fst snd] in *.
    destruct Hok as [Hw (o & t & Ho & Ho34) _ Hlex].
    specialize (Hlex Hb (print_body 0 (skipn n (s0 :: r')) ++ [34])).
    rewrite <- app_assoc. subst out. cbn [app] in *.
    rewrite parse_body_cons. replace (o =? 34) with false by lia.
    rewrite Hlex. cbn [length Nat.pred].
    rewrite parse_body_skip by (rewrite app_length; lia).
    rewrite skipn_app_length.
    rewrite IH.
    + rewrite firstn_skipn. reflexivity.
    + rewrite skipn_length. cbn [length] in *. lia.
    + rewrite <- (firstn_skipn n (s0 :: r')) in Hb. apply Forall_app in Hb. tauto.
Qed.

(* ---- Theorem 1 -------------------------------------------------------- *)
Theorem parse_print_string : forall s,
  Forall (fun b => b < 256) s -> parse_string_lit (print_string_lit s) = Some s.
Proof.
  intros s Hb. unfold print_string_lit, parse_string_lit. rewrite N.eqb_refl.
  apply (parse_print_body (length s)); [lia|exact Hb].
Qed.

(* ---- Theorem 2 -------------------------------------------------------- *)
Lemma print_body_ascii : forall m s,
  (length s <= m)%nat -> Forall is_print_ascii (print_body 0 s).
Proof.
  induction m as [|m IH]; intros s Hm.
  - destruct s; [constructor|cbn [length] in Hm; lia].
  - destruct s as [|s0 r']; [constructor|].
    rewrite print_body_cons.
    pose proof (print_step_ok s0 r') as Hok.
    destruct (print_step (s0 :: r')) as [out n]. cbn [fst snd] in *.
    destruct Hok as [Hw _ Ha _]. apply Forall_app. split; [exact Ha|].
    apply IH. rewrite skipn_length. cbn [length] in *. lia.
Qed.

Theorem print_string_ascii : forall s,
  Forall (fun b => 32 <= b <= 126) (print_string_lit s).
Proof.
  intros s. unfold print_string_lit. constructor; [lia|].
  apply Forall_app. split.
  - apply (print_body_ascii (length s)). lia.
  - constructor; [lia|constructor].
Qed.

(* ====================================================================== *)
(* Go's control flow (indexNeedEscapeInString fast path) = the per-rune loop *)
(* ====================================================================== *)
Definition plain (c : N) : Prop := need_escape c = false.

Lemma print_step_plain c r : plain c -> print_step (c :: r) = ([c], 1%nat).
Proof.
  unfold plain, need_escape. intros Hp. unfold print_step, utf8_decode.
  replace (c <? 128) with true by lia. unfold rune_error.
  replace ((c =? 65533) && Nat.eqb 1 1) with false by lia.
  replace ((c <? 32) || (c =? 34) || (c =? 92) || (c =? 127)) with false by lia.
  replace (128 <=? c) with false by lia. reflexivity.
Qed.

Lemma print_body_plain_prefix p t :
  Forall plain p -> print_body 0 (p ++ t) = p ++ print_body 0 t.
Proof.
  induction 1 as [|c p Hc Hp IH]; [reflexivity|].
  cbn [app print_body]. rewrite print_step_plain by exact Hc.
  cbn [Nat.pred app]. rewrite IH. reflexivity.
Qed.

Lemma index_need_escape_plain s :
  Forall plain (firstn (index_need_escape s) s) /\ (index_need_escape s <= length s)%nat.
Proof.
  induction s as [|c r [IH1 IH2]]; cbn [index_need_escape].
  - split; [constructor|lia].
  - destruct (need_escape c) eqn:E; cbn [firstn length].
    + split; [constructor|lia].
    + split; [constructor; [exact E|exact IH1]|lia].
Qed.

Lemma print_body_go_skip : forall s k,
  (k <= length s)%nat -> print_body_go k s = print_body_go 0 (skipn k s).
Proof.
  induction s as [|c r IH]; intros k Hk.
  - destruct k; [reflexivity|cbn [length] in Hk; lia].
  - destruct k as [|k]; [reflexivity|]. cbn [print_body_go skipn]. apply IH. cbn [length] in Hk. lia.
Qed.

Lemma print_step_go_cases s0 r' :
  print_step_go (s0 :: r') = print_step (s0 :: r') \/
  (print_step (s0 :: r') = ([s0], 1%nat) /\
   print_step_go (s0 :: r') =
     (s0 :: firstn (index_need_escape r') r', S (index_need_escape r'))).
Proof.
  unfold print_step_go, print_step.
  pose proof (utf8_decode_class s0 r') as Hc.
  destruct (utf8_decode (s0 :: r')) as [r n].
  destruct ((r =? rune_error) && Nat.eqb n 1); [left; reflexivity|].
  destruct ((r <? 32) || (r =? 34) || (r =? 92) || (r =? 127)); [left; reflexivity|].
  destruct (128 <=? r) eqn:E; [left; reflexivity|].
  right. inversion Hc as [Ha|Hi|r0 n0 H0 Hr Hn Hl He]; subst.
  - split; reflexivity.
  - unfold rune_error in E. lia.
  - lia.
Qed.

Lemma print_body_go_eq : forall m s,
  (length s <= m)%nat -> print_body_go 0 s = print_body 0 s.
Proof.
  induction m as [|m IH]; intros s Hm.
  - destruct s; [reflexivity|cbn [length] in Hm; lia].
  - destruct s as [|s0 r']; [reflexivity|]. cbn [length] in Hm.
    destruct (print_step_go_cases s0 r') as [E|[E1 E2]].
    + rewrite print_body_cons. pose proof (print_step_ok s0 r') as Hok.
      cbn [print_body_go]. rewrite E.
      destruct (print_step (s0 :: r')) as [out n]. cbn [fst snd] in *.
      destruct Hok as [Hw _ _ _]. cbn [length] in Hw.
      rewrite print_body_go_skip by lia. destruct n as [|n]; [lia|].
      cbn [Nat.pred skipn]. rewrite IH; [reflexivity|]. rewrite skipn_length. lia.
    + destruct (index_need_escape_plain r') as [Hp Hl].
      cbn [print_body_go print_body]. rewrite E1, E2. cbn [Nat.pred app].
      rewrite print_body_go_skip by exact Hl.
      rewrite IH by (rewrite skipn_length; lia).
      replace (print_body 0 r')
        with (print_body 0 (firstn (index_need_escape r') r' ++ skipn (index_need_escape r') r'))
        by (rewrite firstn_skipn; reflexivity).
      rewrite print_body_plain_prefix by exact Hp. reflexivity.
Qed.

(* the transcription of prototextString with its exact slicing agrees, on every
   input, with the per-rune function the theorems are stated for *)
Theorem print_string_lit_go_eq : forall s, print_string_lit_go s = print_string_lit s.
Proof.
  intros s. unfold print_string_lit_go, print_string_lit.
  destruct (index_need_escape_plain s) as [Hp Hl].
  rewrite (print_body_go_eq (length s)) by (rewrite skipn_length; lia).
  replace (print_body 0 s)
    with (print_body 0 (firstn (index_need_escape s) s ++ skipn (index_need_escape s) s))
    by (rewrite firstn_skipn; reflexivity).
  rewrite print_body_plain_prefix by exact Hp. rewrite <- app_assoc. reflexivity.
Qed.

(* ====================================================================== *)
(* prefix lexer: the printed literal is found again inside any longer text *)
(* (this is the usable form of "no unescaped quote inside the body")       *)
(* ====================================================================== *)
Lemma lex_body_skip : forall s k,
  (k <= length s)%nat -> lex_body k s = lex_body 0 (skipn k s).
Proof.
  induction s as [|c r IH]; intros k Hk.
  - destruct k; [reflexivity|cbn [length] in Hk; lia].
  - destruct k as [|k]; [reflexivity|]. cbn [lex_body skipn]. apply IH. cbn [length] in Hk. lia.
Qed.

Lemma lex_body_cons c r :
  lex_body 0 (c :: r) =
  if c =? 34 then Some ([], r)
  else match lex_step (c :: r) with
       | None => None
       | Some (out, n) =>
           match lex_body (pred n) r with
           | Some (v, rest) => Some (out ++ v, rest)
           | None => None
           end
       end.
Proof. reflexivity. Qed.

(* parse_string_lit = lex_string_lit with nothing left over *)
Lemma parse_body_lex_body : forall s k,
  parse_body k s = match lex_body k s with Some (v, []) => Some v | _ => None end.
Proof.
  induction s as [|c r IH]; intros k; [reflexivity|].
  destruct k as [|k]; [|cbn [parse_body lex_body]; apply IH].
  rewrite parse_body_cons, lex_body_cons.
  destruct (c =? 34); [destruct r; reflexivity|].
  destruct (lex_step (c :: r)) as [[out n]|]; [|reflexivity].
  rewrite IH. destruct (lex_body (Nat.pred n) r) as [[v [|x rest]]|]; reflexivity.
Qed.

Lemma parse_string_lit_lex s :
  parse_string_lit s = match lex_string_lit s with Some (v, []) => Some v | _ => None end.
Proof.
  unfold parse_string_lit, lex_string_lit. destruct s as [|c r]; [reflexivity|].
  destruct (c =? 34); [apply parse_body_lex_body|reflexivity].
Qed.

Lemma lex_print_body : forall m s t,
  (length s <= m)%nat -> Forall is_byte s ->
  lex_body 0 (print_body 0 s ++ 34 :: t) = Some (s, t).
Proof.
  induction m as [|m IH]; intros s t Hm Hb.
  - destruct s; [reflexivity|cbn [length] in Hm; lia].
  - destruct s as [|s0 r']; [reflexivity|].
    rewrite print_body_cons.
    pose proof (print_step_ok s0 r') as Hok.
    destruct (print_step (s0 :: r')) as [out n]. cbn [fst snd] in *.
    destruct Hok as [Hw (o & t' & Ho & Ho34) _ Hlex].
    specialize (Hlex Hb (print_body 0 (skipn n (s0 :: r')) ++ 34 :: t)).
    rewrite <- app_assoc. subst out. cbn [app] in *.
    rewrite lex_body_cons. replace (o =? 34) with false by lia.
    rewrite Hlex. cbn [length Nat.pred].
    rewrite lex_body_skip by (rewrite app_length; lia).
    rewrite skipn_app_length.
    rewrite IH.
    + rewrite firstn_skipn. reflexivity.
    + rewrite skipn_length. cbn [length] in *. lia.
    + rewrite <- (firstn_skipn n (s0 :: r')) in Hb. apply Forall_app in Hb. tauto.
Qed.

Theorem lex_print_string : forall s t,
  Forall (fun b => b < 256) s -> lex_string_lit (print_string_lit s ++ t) = Some (s, t).
Proof.
  intros s t Hb. unfold print_string_lit, lex_string_lit. cbn [app]. rewrite N.eqb_refl.
  rewrite <- app_assoc. cbn [app].
  apply (lex_print_body (length s)); [lia|exact Hb].
Qed.

(* ====================================================================== *)
(* numbers and bools                                                      *)
(* ====================================================================== *)
Definition is_dec_digit (c : N) : Prop := 48 <= c <= 57.

Lemma dec_digits_map l :
  Forall (fun d => d < 10) l -> dec_digits (map (fun d => 48 + d) l) = Some l.
Proof.
  induction 1 as [|d l Hd Hl IH]; [reflexivity|].
  cbn [map dec_digits]. replace ((48 <=? 48 + d) && (48 + d <=? 57)) with true by lia.
  rewrite IH. do 2 f_equal. lia.
Qed.

Lemma dec_fuel_enough n : n < 10 ^ N.of_nat (dec_fuel n).
Proof.
  unfold dec_fuel. rewrite Nnat.Nat2N.inj_succ, Nnat.N2Nat.id, N.pow_succ_r'.
  pose proof (N.size_gt n) as H1.
  assert (H2 : 2 ^ N.size n <= 10 ^ N.size n) by (apply N.pow_le_mono_l; lia).
  lia.
Qed.

Lemma print_uint_digits n :
  n <> 0 -> print_uint n = map (fun d => 48 + d) (rev (to_digits_le 10 (dec_fuel n) n)).
Proof.
  intros Hn. unfold print_uint. replace (n =? 0) with false by lia. rewrite map_rev. reflexivity.
Qed.

Lemma print_uint_all_digits n : Forall is_dec_digit (print_uint n).
Proof.
  destruct (N.eq_dec n 0) as [->|Hn]; [repeat constructor; unfold is_dec_digit; lia|].
  rewrite print_uint_digits by exact Hn. apply Forall_map, Forall_rev.
  eapply Forall_impl; [|apply (to_digits_bound 10); lia].
  cbn beta. intros d Hd. unfold is_dec_digit. lia.
Qed.

Lemma print_uint_nonempty n : print_uint n <> [].
Proof.
  unfold print_uint. destruct (n =? 0) eqn:E; [discriminate|].
  unfold dec_fuel. cbn [to_digits_le]. rewrite E. cbn [map rev].
  intros H. apply app_eq_nil in H. destruct H as [_ H]. discriminate.
Qed.

(* ---- Theorem 3 -------------------------------------------------------- *)
Theorem parse_print_uint : forall n, parse_uint (print_uint n) = Some n.
Proof.
  intros n. destruct (N.eq_dec n 0) as [->|Hn]; [reflexivity|].
  pose proof (print_uint_nonempty n) as Hne. unfold parse_uint.
  destruct (print_uint n) as [|c r] eqn:E; [congruence|]. rewrite <- E. clear E Hne c r.
  rewrite print_uint_digits by exact Hn.
  rewrite dec_digits_map by (apply Forall_rev, to_digits_bound; lia).
  rewrite of_digits_be_rev_le, of_to_le; [f_equal; lia|lia|apply dec_fuel_enough].
Qed.

Theorem parse_print_int : forall z, parse_int (print_int z) = Some z.
Proof.
  intros z. destruct z as [|p|p]; [reflexivity| |].
  - cbn [print_int]. pose proof (print_uint_all_digits (Npos p)) as Hd.
    pose proof (parse_print_uint (Npos p)) as Hp. unfold parse_int.
    destruct (print_uint (Npos p)) as [|c r]; [discriminate|].
    inversion Hd as [|? ? Hc ?]; subst. unfold is_dec_digit in Hc.
    replace (c =? 45) with false by lia. rewrite Hp. reflexivity.
  - cbn [print_int]. unfold parse_int. rewrite N.eqb_refl, parse_print_uint. reflexivity.
Qed.

Theorem parse_print_bool : forall b, parse_bool (print_bool b) = Some b.
Proof. intros [|]; reflexivity. Qed.

(* printed numbers are plain ASCII: digits with an optional leading minus *)
Lemma print_int_chars z :
  Forall (fun c => c = 45 \/ is_dec_digit c) (print_int z).
Proof.
  destruct z as [|p|p]; cbn [print_int].
  - constructor; [right; unfold is_dec_digit; lia|constructor].
  - eapply Forall_impl; [|apply print_uint_all_digits]. cbn beta. tauto.
  - constructor; [left; reflexivity|].
    eapply Forall_impl; [|apply print_uint_all_digits]. cbn beta. tauto.
Qed.

(* ====================================================================== *)
(* dotted names                                                           *)
(* ====================================================================== *)
Lemma split_dot_app_nodot p t :
  Forall (fun c => c <> 46) p ->
  split_dot (p ++ t) =
  match split_dot t with q :: qs => (p ++ q) :: qs | [] => [p] end.
Proof.
  induction 1 as [|c p Hc Hp IH]; cbn [app].
  - destruct (split_dot t) eqn:E; [|reflexivity].
    destruct t as [|x t]; [discriminate|]. cbn [split_dot] in E.
    destruct (x =? 46); [discriminate|]. destruct (split_dot t); discriminate.
  - cbn [split_dot]. replace (c =? 46) with false by lia. rewrite IH.
    destruct (split_dot t) as [|q qs]; reflexivity.
Qed.

Lemma split_dot_nodot p : Forall (fun c => c <> 46) p -> split_dot p = [p].
Proof.
  intros H. rewrite <- (app_nil_r p) at 1. rewrite split_dot_app_nodot by exact H.
  cbn [split_dot]. rewrite app_nil_r. reflexivity.
Qed.

Lemma is_ident_nodot p : is_ident p = true -> Forall (fun c => c <> 46) p.
Proof.
  destruct p as [|c r]; [discriminate|]. cbn [is_ident]. intros H.
  apply andb_true_iff in H. destruct H as [H1 H2]. constructor.
  - unfold is_ident_start in H1. lia.
  - apply Forall_forall. intros x Hx. rewrite forallb_forall in H2. specialize (H2 x Hx).
    unfold is_ident_char, is_ident_start in H2. lia.
Qed.

Lemma split_join_dot_nodot : forall parts,
  parts <> [] -> Forall (fun p => Forall (fun c => c <> 46) p) parts ->
  split_dot (join_dot parts) = parts.
Proof.
  induction parts as [|p rest IH]; intros Hne Hf; [congruence|].
  inversion Hf as [|? ? Hp Hrest]; subst.
  destruct rest as [|q rest'].
  - cbn [join_dot]. apply split_dot_nodot. exact Hp.
  - change (join_dot (p :: q :: rest')) with (p ++ 46 :: join_dot (q :: rest')).
    rewrite split_dot_app_nodot by exact Hp.
    change (split_dot (46 :: join_dot (q :: rest'))) with ([] :: split_dot (join_dot (q :: rest'))).
    rewrite IH by (try exact Hrest; discriminate). rewrite app_nil_r. reflexivity.
Qed.

(* ---- Theorem 4 -------------------------------------------------------- *)
Theorem split_join_dot : forall parts,
  parts <> [] -> Forall (fun p => is_ident p = true) parts ->
  split_dot (join_dot parts) = parts.
Proof.
  intros parts Hne Hf. apply split_join_dot_nodot; [exact Hne|].
  eapply Forall_impl; [|exact Hf]. intros p. apply is_ident_nodot.
Qed.

(* a joined name of identifiers contains only identifier characters and dots *)
Lemma join_dot_chars : forall parts,
  Forall (fun p => is_ident p = true) parts ->
  Forall (fun c => c = 46 \/ is_ident_char c = true) (join_dot parts).
Proof.
  induction parts as [|p rest IH]; intros Hf; [constructor|].
  inversion Hf as [|? ? Hp Hrest]; subst.
  assert (Hpc : Forall (fun c => c = 46 \/ is_ident_char c = true) p).
  { destruct p as [|c r]; [discriminate|]. cbn [is_ident] in Hp.
    apply andb_true_iff in Hp. destruct Hp as [H1 H2]. constructor.
    - right. unfold is_ident_char. rewrite H1. reflexivity.
    - apply Forall_forall. intros x Hx. rewrite forallb_forall in H2. right. exact (H2 x Hx). }
  destruct rest as [|q rest']; [exact Hpc|].
  change (join_dot (p :: q :: rest')) with (p ++ 46 :: join_dot (q :: rest')).
  apply Forall_app. split; [exact Hpc|]. constructor; [left; reflexivity|apply IH; exact Hrest].
Qed.

(* BclExtentFullProofs.v — extent_ok for the diffs the formatter computes from its own output, and with it the
   full statement: FmtDiffs of formatted text is the empty list.
   Lexer side (BclExtentProofs): the closing EOL of fragment i is on line (newlines of the text up to fragment i) - 1.
   Walker side (BclWalkTokProofs): fragment i ends on the line of that token.  Starts: walk_stream_pos. *)
From Coq Require Import String List NArith ZArith Bool Lia ZifyN ZifyNat ZifyBool.
From J5V.lib Require Import Text Outcome.
From J5V.model Require Import BclLexer BclParser BclFmt BclFmtAligned.
From J5V.proofs Require Import BclPosProofs BclLexerProofs BclLexerCoverProofs BclParserProofs BclWalkCoverProofs BclTextProofs BclFmtProofs
  BclFragWfProofs BclFmtFileProofs BclDescGapProofs BclFmtRoundProofs BclLineNoProofs BclWalkPosProofs BclWalkBackProofs BclFmtIdemProofs
  BclFmtBytesProofs BclFmtDiffsIdemProofs BclTokEndProofs BclExtentProofs BclWalkTokProofs BclFmtFullProofs.
Import ListNotations.
Local Open Scope Z_scope.
Arguments Nat.sub : simpl never.

(* ---- newlines of the UTF-8 encoding -------------------------------------------------------------------- *)
Lemma encode_rune_nl c : count_nl (encode_rune c) = count_nl [c].
Proof.
  unfold encode_rune. destruct (N.ltb c 128) eqn:E1; [reflexivity|].
  assert (Hc : N.eqb c 10 = false) by lia.
  destruct (N.ltb c 2048); [|destruct (negb (valid_rune c)); [|destruct (N.ltb c 65536)]]; cbn [count_nl]; rewrite Hc;
    repeat match goal with |- context [N.eqb ?a 10] => replace (N.eqb a 10) with false by (symmetry; apply N.eqb_neq; lia) end; reflexivity.
Qed.

Lemma encode_count_nl l : count_nl (utf8_encode l) = count_nl l.
Proof.
  induction l as [|c r IH]; [reflexivity|]. unfold utf8_encode in *. cbn [flat_map].
  rewrite count_nl_app, IH, encode_rune_nl. cbn [count_nl]. destruct (N.eqb c 10); reflexivity.
Qed.

(* ---- the walker's ends against the lexer's lines ----------------------------------------------------------- *)
Fixpoint abs_list (out : list N) (tos : list Z) (rs : list (list N)) : Prop :=
  match tos, rs with
  | [], [] => True
  | to :: tr, R :: rr => (forall C, out = C ++ R -> to = Z.of_nat (count_nl C)) /\ abs_list out tr rr
  | _, _ => False
  end.

Lemma app_eq_len {A} (a a' : list A) b b' : a ++ b = a' ++ b' -> length a = length a' -> a = a' /\ b = b'.
Proof.
  revert a'. induction a as [|x r IH]; intros [|x' r'] H Hl; try discriminate; [auto|].
  cbn in H. injection H as -> H. cbn in Hl. destruct (IH r' H) as [-> ->]; [lia|]. auto.
Qed.

Lemma ends_abs out : forall es rs ts fs, ends_rel ts fs es -> tok_lines out ts es rs ->
  abs_list out (map (fun f => fst (frag_end f) + 1) fs) rs.
Proof.
  induction es as [|[b e] er IH]; intros rs ts fs He Ht; destruct fs as [|f fr]; destruct rs as [|R rr];
    cbn [ends_rel tok_lines abs_list map] in *; try contradiction; [exact I|].
  destruct He as (c & t & ts1 & Hts & Hlen & Hend & Her). destruct Ht as (c2 & t2 & ts2 & Hts2 & Hm & Hty & Hline & Htr).
  assert (Hl2 : length c = length c2) by (rewrite Hlen, <- Hm; apply map_length).
  rewrite Hts in Hts2. destruct (app_eq_len _ _ _ _ Hts2 Hl2) as [<- Hcons]. injection Hcons as <- <-.
  split.
  - intros C HC. rewrite (Hline C HC), Hend. cbn [vl]. rewrite Hty. reflexivity.
  - apply (IH rr ts1 fr Her Htr).
Qed.

(* ---- the arithmetic ------------------------------------------------------------------------------------------ *)
Fixpoint flags (ps : list (Z * Z)) (first : bool) (last : Z) : list bool :=
  match ps with [] => [] | (a, b) :: r => (negb first && (last <? a))%bool :: flags r false b end.

Lemma entries_flags : forall fs n first last,
  map fst (entries fs n first last) = flags (map (fun f => (fst (frag_start f), fst (frag_end f) + 1)) fs) first last.
Proof.
  induction fs as [|f r IH]; intros n first last; [reflexivity|].
  destruct f; cbn [entries map fst flags frag_start frag_end]; rewrite IH; reflexivity.
Qed.

Definition ft (d : fdiff) : Z * Z := (fd_from d, fd_to d).

Lemma extent_arith : forall ds first last pre V,
  rel_ft V (map ft ds) (flags (map ft ds) first last) ->
  V = Z.of_nat (count_nl pre) -> (first = false -> last = V) ->
  abs_list (pre ++ fmt_join ds first last) (map fd_to ds) (rems ds) ->
  Forall (fun m => exists x, fd_text m = x ++ [10%N]) ds ->
  Forall (fun d => fd_to d = fd_from d + Z.of_nat (count_nl (fd_text d))) ds.
Proof.
  induction ds as [|d r IH]; intros first last pre V Hrel HV Hlast Habs Hw; [constructor|].
  inversion Hw as [|x y _ Hwr]; subst x y.
  cbn [map ft flags rel_ft] in Hrel. destruct Hrel as [Hfrom Hrest].
  cbn [map rems abs_list fmt_join] in Habs. destruct Habs as [Habs0 Habsr].
  set (blank := (if (negb first && (last <? fd_from d))%bool then [10%N] else []) : list N) in *.
  assert (Hto : fd_to d = Z.of_nat (count_nl (pre ++ blank ++ fd_text d))).
  { apply Habs0. rewrite <- !app_assoc. reflexivity. }
  assert (Hd : fd_to d = fd_from d + Z.of_nat (count_nl (fd_text d))).
  { rewrite Hto, !count_nl_app, Hfrom, HV. unfold blank. cbn [fst snd].
    destruct (negb first && (last <? fd_from d))%bool; cbn [count_nl]; try replace (N.eqb 10 10) with true by reflexivity; lia. }
  constructor; [exact Hd|].
  apply (IH false (fd_to d) (pre ++ blank ++ fd_text d) (fd_to d)); auto.
  rewrite <- !app_assoc. exact Habsr.
Qed.

(* ---- the diffs of a fixed point of Fmt span exactly the lines of their texts ------------------------------ *)
Theorem fixed_point_extents d fs : collect_fragments d = Ok fs -> fmt_join (diff_file fs 0) true (-1) = d ->
  Forall (fun m => fd_to m = fd_from m + Z.of_nat (count_nl (fd_text m))) (diff_file fs 0).
Proof.
  intros Hc Hjoin.
  pose proof (collect_fragments_lx d fs Hc) as Hlx. pose proof (collect_fragments_gap d fs Hc) as Hgap.
  destruct (fmt_output_tokens fs Hlx) as (ts & Hlex & Hts).
  pose proof (fmt_output_tok_lines fs ts Hlx Hlex) as Htl. rewrite Hjoin in Hlex, Htl.
  pose proof (entries_stream_ok fs 0 true (-1) Hlx Hgap) as Hok.
  pose proof (all_tokens_ok true d) as Hch. rewrite Hlex in Hch.
  destruct (all_tokens_cover true d ts Hlex) as [Hlc _].
  pose proof (all_tokens_vchain true d ts Hlex) as Hvc.
  assert (Hwok : wst_ok d (mkW ts None)).
  { split; [apply valid_pos0|]. split; [apply schain_chain, Hch|]. intros p Hp. discriminate. }
  destruct (walk_stream_tok d (entries fs 0 true (-1)) (S (length ts)) (mkW ts None) Hok) as (fs' & Hw & _ & Hlines & Hends);
    [rewrite pt_mk; exact Hts|exact Hwok|exact Hlc|exact Hvc|cbn; lia|].
  assert (Hc' : collect_fragments d = Ok fs').
  { unfold collect_fragments. rewrite Hlex. unfold walk_fragments. rewrite Hw. reflexivity. }
  rewrite Hc in Hc'. injection Hc' as <-. cbn [wrest wprev vl] in Hlines, Hends.
  pose proof (ends_abs d _ _ _ _ Hends Htl) as Habs. rewrite <- (diff_file_to fs 0) in Habs.
  pose proof (lines_rel_ft _ _ _ Hlines) as Hrel. rewrite entries_flags, <- (diff_file_from_to fs 0) in Hrel.
  apply (extent_arith (diff_file fs 0) true (-1) [] 0).
  - exact Hrel.
  - reflexivity.
  - intros H. discriminate.
  - cbn [app]. rewrite Hjoin. exact Habs.
  - apply diff_file_text_nl.
Qed.

Lemma nlines_count m : (exists x, fd_text m = x ++ [10%N]) -> fd_nlines m = Z.of_nat (count_nl (fd_text m)).
Proof.
  intros [x Hx]. unfold fd_nlines. rewrite Hx, utf8_encode_app. change (utf8_encode [10%N]) with [10%N].
  rewrite text_lines_snoc, split_on_length, encode_count_nl, count_nl_app. cbn [count_nl].
  replace (N.eqb 10 10) with true by reflexivity. lia.
Qed.

Theorem fixed_point_extent_ok d fs : collect_fragments d = Ok fs -> fmt_join (diff_file fs 0) true (-1) = d ->
  extent_ok (diff_file fs 0) = true.
Proof.
  intros Hc Hjoin. pose proof (fixed_point_extents d fs Hc Hjoin) as H. pose proof (diff_file_text_nl fs 0) as Hw.
  unfold extent_ok. apply forallb_forall. intros m Hin. rewrite Forall_forall in H, Hw.
  rewrite (nlines_count m (Hw m Hin)), <- (H m Hin). apply Z.eqb_refl.
Qed.

(* ---- the full statement ---------------------------------------------------------------------------------------- *)
Theorem fmt_diffs_idem_full : fmt_diffs_idem_full_statement.
Proof.
  intros x y H. destruct (fmt_diffs_idem_extent x y H) as (ds & Hcf & _ & Himp). apply Himp.
  destruct (fmt_bytes_runes x y H) as (out & Hout & _ & Hdec).
  pose proof (fmt_idempotent _ _ Hout) as Hid. rewrite Hdec in Hcf.
  unfold fmt_runes, collect_fmt in Hid. unfold collect_fmt in Hcf.
  destruct (collect_fragments out) as [fs'|e|p|] eqn:Hc; try discriminate.
  cbn [omap] in Hid, Hcf. injection Hid as Hjoin. injection Hcf as <-.
  exact (fixed_point_extent_ok out fs' Hc Hjoin).
Qed.

(* BclDocBytesProofs.v — the C09 statement on Go strings: for every BYTE string the parser accepts
   (ParseFile decodes it with []rune, invalid UTF-8 included), Fmt's output bytes are accepted, read
   back to the same document, and are a fixed point of Fmt.  From the rune-level theorems and
   decode (encode out) = out for the formatter's output (BclRuneClosedProofs, BclUtf8Proofs). *)
From Coq Require Import String List NArith ZArith Bool.
From J5V.lib Require Import Text Outcome.
From J5V.model Require Import BclLexer BclParser BclFmt.
From J5V.proofs Require Import BclUtf8Proofs BclRuneClosedProofs BclFmtBytesProofs BclFmtIdemProofs BclFmtRoundProofs BclDocProofs BclFmtProofs BclFmtFullProofs.
From J5V.model Require Import BclDoc.
Import ListNotations.

Theorem fmt_full_bytes : forall input, accepted_bytes input ->
  exists outb fs fs',
    fmt_bytes input = Ok outb /\ accepted_bytes outb /\
    collect_fragments (utf8_decode input) = Ok fs /\ collect_fragments (utf8_decode outb) = Ok fs' /\
    map doc_of fs' = map doc_of fs /\
    fmt_bytes outb = Ok outb.
Proof.
  intros input Ha. unfold accepted_bytes, parse_file in Ha.
  destruct (fmt_full (utf8_decode input) Ha) as (out & fs & fs' & Hf & Hacc & Hc & Hc' & Hd & Hi).
  pose proof (fmt_bytes_of_runes input out Hf) as Hb.
  pose proof (fmt_bytes_decode input out Hf) as Hdec.
  exists (utf8_encode out), fs, fs'. split; [exact Hb|]. split.
  - unfold accepted_bytes, parse_file. rewrite Hdec. exact Hacc.
  - split; [exact Hc|]. split; [rewrite Hdec; exact Hc'|]. split; [exact Hd|].
    exact (fmt_bytes_idempotent input _ Hb).
Qed.

Theorem fmt_same_tree_bytes : forall input body, parse_file input true = Ok (mkP (Some body) []) ->
  exists outb body', fmt_bytes input = Ok outb /\ parse_file outb true = Ok (mkP (Some body') []) /\
                     map stmt_doc body' = map stmt_doc body.
Proof.
  intros input body Hp. unfold parse_file in Hp.
  destruct (fmt_same_tree (utf8_decode input) body Hp) as (out & body' & Hf & Hp' & Hd).
  exists (utf8_encode out), body'. split; [exact (fmt_bytes_of_runes input out Hf)|]. split; [|exact Hd].
  unfold parse_file. rewrite (fmt_bytes_decode input out Hf). exact Hp'.
Qed.

(* what Fmt does to the bytes of an input that is not valid UTF-8: the output is always valid UTF-8
   (it is the encoding of valid runes), so it decodes and re-encodes to itself *)
Theorem fmt_bytes_output_utf8 : forall input outb, fmt_bytes input = Ok outb ->
  utf8_encode (utf8_decode outb) = outb.
Proof.
  intros input outb H. destruct (fmt_bytes_runes input outb H) as (out & Hf & He & Hd).
  rewrite Hd. symmetry. exact He.
Qed.

(* C09 and C19 together: on the formatter's own output the edit list is computed, well-formed, and applying
   it leaves the text as it is (up to trailing blank lines): an editor reaches a fixed point after one format *)
Theorem fmt_diffs_of_output_stable : forall input out, fmt_bytes input = Ok out ->
  exists es, fmt_diffs out = Ok es /\
    edits_wf (Z.of_nat (length (split_on 10 out))) 0%Z es /\
    strip_trailing_blank (apply_edits (split_on 10 out) 0%Z es) = strip_trailing_blank (split_on 10 out).
Proof.
  intros input out H. exact (fmt_diffs_full out out (fmt_bytes_idempotent input out H)).
Qed.

(* PipelineSpecProofs.v — an independent, declarative reading of the client clauses of C16, and the chain
   theorem against it.

   The property text: "The client API lists exactly the declared services and methods with the declared verb and
   path, each path parameter names a request property, request properties are split into path/query/body as the
   verb dictates".  [client_meets svc d cm] says this of one declared method d (service svc) and one client
   method cm, in terms of MEMBERSHIP in the declaration only: it does not mention fill_request,
   path_param_names, filter or any other function of the model (C16_full states the client API as
   [declared_clients], which is built with the model's own fill_request).  The chain theorem below then says:
   the client stage's output is, method by method and in declaration order, a client method that meets the
   declaration. *)
From Coq Require Import String Ascii List Arith NArith Bool Lia ZifyN ZifyNat ZifyBool Permutation.
From J5V.lib Require Import Outcome Corr.
From J5V.model Require Import Pipeline PipelineCompile PipelineCorr.
From J5V.proofs Require Import PipelineProofs PipelinePathProofs PipelineChainProofs.
Import ListNotations.
Local Open Scope N_scope.
Local Open Scope bool_scope.

(* ------------------------------------------------------------------ the declarative reading *)
(* the declared path has a segment ":n" *)
Definition declares_param (d : decl_full) (n : str) : Prop := In (COLON :: n) (df_parts d).

(* l is what remains of m after deleting some elements: same relative order, nothing duplicated *)
Inductive kept {A} : list A -> list A -> Prop :=
| kept_nil : kept [] []
| kept_skip x l m : kept l m -> kept l (x :: m)
| kept_take x l m : kept l m -> kept (x :: l) (x :: m).

Record client_meets (svc : str) (d : decl_full) (cm : client_method) : Prop := {
  (* exactly the declared service / method / verb *)
  meets_service : cm_service cm = svc ++ bytes_of "Service";
  meets_name : cm_name cm = df_name d;
  meets_verb : cm_verb cm = df_verb d;
  (* the declared path, segment by segment *)
  meets_path : split_on SLASH (cm_path cm) = df_parts d;
  (* each path parameter names a request property (which is then a path property of the client method) *)
  meets_params : forall n, declares_param d n ->
      exists p, In p (df_req d) /\ p_json p = n /\ In p (r_path (cm_req cm));
  (* path properties: exactly the request properties a ":name" segment names *)
  meets_path_props : forall p, In p (r_path (cm_req cm)) <-> In p (df_req d) /\ declares_param d (p_json p);
  (* GET has no body: the other request properties are query parameters *)
  meets_get : df_verb d = GET ->
      r_body (cm_req cm) = None
      /\ forall p, In p (r_query (cm_req cm)) <-> In p (df_req d) /\ ~ declares_param d (p_json p);
  (* every other verb carries a body: the other request properties are the body, no query parameters *)
  meets_body : df_verb d <> GET ->
      r_query (cm_req cm) = []
      /\ exists b, r_body (cm_req cm) = Some b
                   /\ forall p, In p b <-> In p (df_req d) /\ ~ declares_param d (p_json p);
  (* nothing is reordered or duplicated inside a part *)
  meets_order : kept (r_path (cm_req cm)) (df_req d) /\ kept (r_query (cm_req cm)) (df_req d)
                /\ forall b, r_body (cm_req cm) = Some b -> kept b (df_req d);
  (* the response body is the declared one (None: no response body) *)
  meets_resp : cm_resp cm = df_resp d
}.

(* ------------------------------------------------------------------ the model's client method meets it *)
Lemma kept_filter {A} (f : A -> bool) l : kept (filter f l) l.
Proof.
  induction l as [|x r IH]; cbn [filter]; [constructor|].
  destruct (f x); [apply kept_take|apply kept_skip]; exact IH.
Qed.

Lemma kept_nil_any {A} (m : list A) : kept [] m.
Proof. induction m; constructor; assumption. Qed.

Section Meets.
Variable to_snake : str -> str.

Lemma wf_parts_no_slash d : wf_decl to_snake (df_decl d) -> Forall (no_char SLASH) (df_parts d).
Proof.
  intros (_ & _ & Hp & _ & Hok). cbn [df_decl dm_parts dm_props] in *.
  apply Forall_forall. intros part Hin. rewrite Forall_forall in Hp. specialize (Hp part Hin).
  destruct Hp as [Hc | (n & -> & Hn)].
  - intros Hs. destruct (Hc SLASH Hs) as (_ & _ & _ & _ & H). apply H. reflexivity.
  - intros [E | Hs]; [discriminate E|]. destruct (Hok n Hn) as [H _]. exact (H Hs).
Qed.

Lemma declared_path_parts d : wf_decl to_snake (df_decl d) ->
  split_on SLASH (join_with SLASH (df_parts d)) = df_parts d.
Proof.
  intro Hw. apply split_join; [|exact (wf_parts_no_slash d Hw)].
  destruct Hw as (_ & Hne & _). exact Hne.
Qed.

Lemma param_iff d n : wf_decl to_snake (df_decl d) ->
  In n (path_param_names (join_with SLASH (df_parts d))) <-> declares_param d n.
Proof. intro Hw. rewrite In_path_param_names, (declared_path_parts d Hw). reflexivity. Qed.

Theorem declared_client_meets g svc d : wf_decl to_snake (df_decl d) ->
  client_meets svc d (declared_client g svc d).
Proof.
  intro Hw. pose proof (param_iff d) as Hpi.
  set (path := join_with SLASH (df_parts d)) in *.
  assert (Hpath : forall p, In p (r_path (fill_request (df_verb d) path (df_req d)))
                            <-> In p (df_req d) /\ declares_param d (p_json p)).
  { intro p. rewrite fill_request_path_spec, (Hpi (p_json p) Hw). reflexivity. }
  constructor; cbn [declared_client cm_service cm_name cm_verb cm_path cm_req cm_resp]; try reflexivity; fold path.
  - exact (declared_path_parts d Hw).
  - intros n Hn. destruct Hw as (Hv & Hne & Hp & Hrest). cbn [df_decl dm_parts dm_props] in Hp.
    rewrite Forall_forall in Hp. destruct (Hp _ Hn) as [Hc | (m & E & Hm)].
    + exfalso. destruct (Hc COLON (or_introl eq_refl)) as (_ & _ & _ & H & _). apply H. reflexivity.
    + injection E as <-. apply in_map_iff in Hm as (p & Hj & Hin). exists p. split; [exact Hin|]. split; [exact Hj|].
      apply Hpath. split; [exact Hin|]. rewrite Hj. exact Hn.
  - exact Hpath.
  - intro Hg. destruct (fill_request_verb (df_verb d) path (df_req d)) as [HG _]. split; [exact (HG Hg)|].
    intro p. pose proof (fill_request_rest_spec (df_verb d) path (df_req d) p) as Hr. unfold body_list in Hr.
    rewrite (HG Hg), app_nil_r in Hr. rewrite Hr, (Hpi (p_json p) Hw). reflexivity.
  - intro Hg. destruct (fill_request_verb (df_verb d) path (df_req d)) as [_ HB]. destruct (HB Hg) as [Hq [b Hb]].
    split; [exact Hq|]. exists b. split; [exact Hb|].
    intro p. pose proof (fill_request_rest_spec (df_verb d) path (df_req d) p) as Hr. unfold body_list in Hr.
    rewrite Hq, Hb in Hr. cbn [app] in Hr. rewrite Hr, (Hpi (p_json p) Hw). reflexivity.
  - unfold fill_request. destruct (has_body (df_verb d)); cbn [r_path r_query r_body].
    + split; [apply kept_filter|]. split; [apply kept_nil_any|]. intros b E. injection E as <-. apply kept_filter.
    + split; [apply kept_filter|]. split; [apply kept_filter|]. intros b E. discriminate E.
Qed.

(* ------------------------------------------------------------------ the chain against the declarative reading *)
(* the declared methods of a package, with the name of their service, in declaration order *)
Definition declared_methods (P : decl_package) : list (str * decl_full) :=
  flat_map (fun s => map (fun d => (fst s, d)) (snd s)) (dp_services P).

Lemma Forall2_flat_map {A B C} (R : B -> C -> Prop) (f : A -> list B) (g : A -> list C) l :
  (forall a, In a l -> Forall2 R (f a) (g a)) -> Forall2 R (flat_map f l) (flat_map g l).
Proof.
  induction l as [|a r IH]; intro H; cbn [flat_map]; [constructor|].
  apply Forall2_app; [apply H; left; reflexivity|apply IH; intros x Hx; apply H; right; exact Hx].
Qed.

Lemma Forall2_map_both {A B C} (R : B -> C -> Prop) (f : A -> B) (g : A -> C) l :
  (forall a, In a l -> R (f a) (g a)) -> Forall2 R (map f l) (map g l).
Proof.
  induction l as [|a r IH]; intro H; cbn [map]; constructor; [apply H; left; reflexivity|].
  apply IH. intros x Hx. apply H. right. exact Hx.
Qed.

Lemma declared_clients_meet P : valid_package to_snake P ->
  Forall2 (fun sd cm => client_meets (fst sd) (snd sd) cm) (declared_methods P) (declared_clients to_snake P).
Proof.
  intros (Hw & _). unfold declared_methods, declared_clients. apply Forall2_flat_map. intros s Hs.
  apply Forall2_map_both. intros d Hd. cbn [fst snd]. apply declared_client_meets.
  rewrite Forall_forall in Hw. apply Hw. unfold all_methods. apply in_flat_map. exists s. split; assumption.
Qed.

(* C16, client clauses, against the declarative reading: for every valid declared package every stage is Ok and
   the client API consists, in declaration order, of one method per declared method that meets its declaration
   (so: exactly the declared services and methods, declared verb and path, path parameters name request
   properties, path / query / body split as the verb dictates) *)
Theorem chain_full_declarative : forall P, valid_package to_snake P ->
  let r := run_chain current_config (compile_image to_snake P) in
  exists cms ks,
    cr_source r = Ok (declared_api P)
    /\ cr_client r = Ok (cms, ks)
    /\ Forall2 (fun sd cm => client_meets (fst sd) (snd sd) cm) (declared_methods P) cms
    /\ cr_swagger r = Ok tt.
Proof.
  intros P Hv. destruct (chain_full to_snake P Hv) as (ks & Hs & Hc & _ & Hsw).
  exists (declared_clients to_snake P), ks. split; [exact Hs|]. split; [exact Hc|]. split; [|exact Hsw].
  exact (declared_clients_meet P Hv).
Qed.
End Meets.

(* the reading determines the three parts of the request as SETS with their order: two client methods that
   meet the same declaration have the same path properties (as lists), when the declaration has no duplicate
   property *)
Lemma kept_In {A} (l m : list A) x : kept l m -> In x l -> In x m.
Proof.
  induction 1 as [|y l m H IH|y l m H IH]; intro Hin; [destruct Hin|right; auto|].
  destruct Hin as [<-|Hin]; [left; reflexivity|right; auto].
Qed.

Lemma kept_same {A} (m : list A) : NoDup m -> forall l1 l2, kept l1 m -> kept l2 m ->
  (forall x, In x l1 <-> In x l2) -> l1 = l2.
Proof.
  induction m as [|x m IH]; intros Hnd l1 l2 H1 H2 Hiff.
  - inversion H1. inversion H2. reflexivity.
  - inversion Hnd as [|? ? Hx Hm]; subst.
    inversion H1 as [|? ? ? K1|? l1' ? K1]; subst; inversion H2 as [|? ? ? K2|? l2' ? K2]; subst.
    + apply IH; assumption.
    + exfalso. apply Hx. apply (kept_In l1 m x K1). apply Hiff. left. reflexivity.
    + exfalso. apply Hx. apply (kept_In l2 m x K2). apply Hiff. left. reflexivity.
    + f_equal. apply IH; [exact Hm|exact K1|exact K2|].
      intro y. split; intro Hy.
      * destruct (proj1 (Hiff y) (or_intror Hy)) as [E|H]; [|exact H].
        exfalso. subst y. apply Hx. exact (kept_In l1' m x K1 Hy).
      * destruct (proj2 (Hiff y) (or_intror Hy)) as [E|H]; [|exact H].
        exfalso. subst y. apply Hx. exact (kept_In l2' m x K2 Hy).
Qed.

Theorem client_meets_unique_path svc d cm cm' : NoDup (df_req d) ->
  client_meets svc d cm -> client_meets svc d cm' ->
  r_path (cm_req cm) = r_path (cm_req cm') /\ cm_path cm = cm_path cm' /\ cm_verb cm = cm_verb cm' /\ cm_resp cm = cm_resp cm'.
Proof.
  intros Hnd M M'. split; [|split; [|split]].
  - apply (kept_same (df_req d) Hnd); [exact (proj1 (meets_order _ _ _ M))|exact (proj1 (meets_order _ _ _ M'))|].
    intro p. rewrite (meets_path_props _ _ _ M), (meets_path_props _ _ _ M'). reflexivity.
  - rewrite <- (join_split SLASH (cm_path cm)), <- (join_split SLASH (cm_path cm')).
    rewrite (meets_path _ _ _ M), (meets_path _ _ _ M'). reflexivity.
  - rewrite (meets_verb _ _ _ M), (meets_verb _ _ _ M'). reflexivity.
  - rewrite (meets_resp _ _ _ M), (meets_resp _ _ _ M'). reflexivity.
Qed.

(* ------------------------------------------------------------------ the source-image stage, through C05 *)
(* "the compiled output can be turned into a source image without error": the image is built by printing every
   compiled file (PrintFile) and compiling the text again (ReadFSImage -> protocompile).  With the file model of
   C05 (model/ProtoPrintFile.v, model/ProtoParseFile.v) this stage is parse_file_tokens (print_file_tokens D):
   for every well-formed compiled descriptor it succeeds, and every element of the file — in particular every
   service with its methods, input / output types and options (google.api.http), every message with its fields
   and json names — has an equivalent element in the descriptor read back, and vice versa. *)
From J5V.model Require ProtoPrint ProtoPrintFile ProtoParseFile.
From J5V.proofs Require ProtoPrintFileFullProofs.

Section ImageStage.
Import ProtoPrint ProtoPrintFile ProtoParseFile ProtoPrintFileFullProofs.

Lemma perm_equiv_covers {A} (R : A -> A -> Prop) l l' : perm_equiv R l l' ->
  (forall x, In x l -> exists y, In y l' /\ R x y) /\ (forall y, In y l' -> exists x, In x l /\ R x y).
Proof.
  intros (m & Hp & Hf). split.
  - intros x Hx. apply (Permutation_in _ Hp) in Hx. clear Hp. induction Hf as [|a b m l2 Hab Hf IH]; [destruct Hx|].
    destruct Hx as [<-|Hx]; [exists b; split; [left; reflexivity|exact Hab]|].
    destruct (IH Hx) as (y & Hy & Hr). exists y. split; [right; exact Hy|exact Hr].
  - intros y Hy. assert (H : exists x, In x m /\ R x y).
    { clear Hp. induction Hf as [|a b m l2 Hab Hf IH]; [destruct Hy|].
      destruct Hy as [<-|Hy]; [exists a; split; [left; reflexivity|exact Hab]|].
      destruct (IH Hy) as (x & Hx & Hr). exists x. split; [right; exact Hx|exact Hr]. }
    destruct H as (x & Hx & Hr). exists x. split; [|exact Hr]. apply (Permutation_in _ (Permutation_sym Hp)). exact Hx.
Qed.

Theorem image_stage imp D : wf_dfile imp D ->
  exists D', parse_file_tokens imp (print_file_tokens (to_symtab (dfile_symtab imp D)) D) = Some D'
    /\ d_pkg D' = d_pkg D
    /\ (forall e, In e (d_body D) -> exists e', In e' (d_body D') /\ elem_equiv e e')
    /\ (forall e', In e' (d_body D') -> exists e, In e (d_body D) /\ elem_equiv e e').
Proof.
  intro Hw. destruct (token_roundtrip imp D Hw) as (D' & Hp & He & _ & _). exists D'. split; [exact Hp|].
  destruct He as (Hpk & _ & _ & _ & Hb). split; [symmetry; exact Hpk|]. exact (perm_equiv_covers elem_equiv _ _ Hb).
Qed.
End ImageStage.

(* BclExtentProofs.v — towards extent_ok (BclFmtDiffsIdemProofs): where the tokens of the formatter's own
   output lie.  (1) [tok_end_by_rest]: the END of a token NextToken returns is determined by what the lexer has
   left: input = pe ++ c :: rest s1, tend = P pe (c = the token's last rune), or the lexer is at EOF.
   (2) [fmt_join_frun]: lexing the formatter's output proceeds fragment by fragment; after the closing EOL of
   fragment i the lexer has exactly the text of the later fragments left ([rems]).
   (3) [lex_run_snoc_inv]: the last token of such a block and the state before it. *)
From Coq Require Import String List NArith ZArith Bool Lia ZifyN ZifyNat ZifyBool.
From J5V.lib Require Import Text Outcome.
From J5V.model Require Import BclLexer BclParser BclFmt.
From J5V.proofs Require Import BclPosProofs BclLexerProofs BclParserProofs BclFmtLitProofs BclLexLitProofs
                               BclFmtSeqProofs BclFragWfProofs BclFmtLineProofs BclWalkBackProofs BclReflowProofs
                               BclTextProofs BclFmtFileProofs BclTokEndProofs BclLexerCoverProofs.
Import ListNotations.
Local Open Scope Z_scope.
Arguments Nat.sub : simpl never.

(* ---- (1) the end of a token from the rest of the input ------------------------------------------ *)
Lemma next_token_as_fuel s : next_token s = next_token_fuel (S (length (rest s))) s.
Proof. reflexivity. Qed.

Theorem tok_end_by_rest inp s pre t s1 : linv inp s pre -> next_token s = (LTok t, s1) ->
  (exists pe c, inp = pe ++ c :: rest s1 /\ tend t = P pe /\ linv inp s1 (pe ++ [c]) /\ pfx pre (pe ++ [c])) \/
  (leof inp s1 /\ tend t = P inp).
Proof.
  intros Hi E. pose proof (next_token_fuel_spec inp (S (length (rest s))) s pre Hi) as Hn.
  rewrite <- next_token_as_fuel, E in Hn. cbn in Hn. destruct Hn as [(ps & pe & c0 & H1 & H2 & H3 & H4 & H5 & H6) _]; [lia|].
  destruct H6 as [[c Hc]|[He Hpe]].
  - left. exists pe, c. pose proof (lc_inv _ _ _ _ Hc) as Hl. split.
    + rewrite (li_split _ _ _ Hl), <- app_assoc. reflexivity.
    + split; [exact H5|]. split; [exact Hl|]. eapply pfx_trans; [exact H1|]. eapply pfx_trans; [exact H3|]. apply pfx_app.
  - right. split; [exact He|]. rewrite H5, Hpe. reflexivity.
Qed.

(* ---- (3) the last token of a run -------------------------------------------------------------------- *)
Lemma lex_run_snoc_inv : forall q s p s1, lex_run s (q ++ [p]) s1 ->
  exists sm t, lex_run s q sm /\ next_token sm = (LTok t, s1) /\ etok t = p.
Proof.
  induction q as [|x r IH]; intros s p s1 H.
  - inversion H as [|s0 t s2 ts s3 E Hr]; subst. inversion Hr; subst. exists s, t. split; [constructor|]. auto.
  - inversion H as [|s0 t s2 ts s3 E Hr]; subst. destruct (IH _ _ _ Hr) as (sm & u & Hq & Eu & Hu).
    exists sm, u. split; [econstructor; eauto|]. auto.
Qed.

(* ---- (2) fragment by fragment ------------------------------------------------------------------------ *)
(* the text left after each diff *)
Fixpoint rems (ds : list fdiff) : list (list N) :=
  match ds with [] => [] | d :: r => fmt_join r false (fd_to d) :: rems r end.

(* one block of tokens per entry — [eol] when Fmt printed an empty line, the entry's tokens, the closing eol —
   and after each block the lexer has exactly the later text left *)
Fixpoint frun (s : lstate) (es : list (bool * entry)) (rs : list (list N)) : Prop :=
  match es, rs with
  | [], [] => True
  | (b, e) :: er, R :: rr =>
    exists s1, lex_run s ((if b then [eol_tok] else []) ++ entry_toks e ++ [eol_tok]) s1 /\ rest s1 = R /\ frun s1 er rr
  | _, _ => False
  end.

Theorem fmt_join_frun : forall fs n first last s, Forall frag_lx fs ->
  rest s = fmt_join (diff_file fs n) first last ->
  frun s (entries fs n first last) (rems (diff_file fs n)).
Proof.
  induction fs as [|f r IH]; intros n first last s Hlx Hr; [exact I|].
  inversion Hlx as [|x y Hf Hrest]; subst.
  assert (Hcomb : forall (b : bool) e n' last',
            (exists s1, lex_run s ((if b then [eol_tok] else []) ++ entry_toks e ++ [eol_tok]) s1 /\
                        rest s1 = fmt_join (diff_file r n') false last') ->
            frun s ((b, e) :: entries r n' false last') (fmt_join (diff_file r n') false last' :: rems (diff_file r n'))).
  { intros b e n' last' (s1 & Hrun1 & Hs1). cbn [frun]. exists s1. split; [exact Hrun1|]. split; [exact Hs1|].
    apply IH; assumption. }
  destruct f as [h|a|d|t|t]; cbn [diff_file fmt_join entries rems] in Hr |- *.
  - apply Hcomb. apply (single_line_step (FHeader h) n _ s _ (hstart h) (hend h) Hf); [discriminate|]. exact Hr.
  - apply Hcomb. apply (single_line_step (FAssign a) n _ s _ (astart a) (aend a) Hf); [discriminate|]. exact Hr.
  - apply Hcomb. cbn [entry_toks]. eapply blank_step.
    + cbn [description_diff multi_line fd_from fd_to fd_text] in Hr. rewrite <- app_assoc in Hr. exact Hr.
    + intros s0 H0. destruct (desc_lines_ok n d) as [Hne Hok].
      apply (desc_block_relex n (desc_lines n d) _ s0 Hne Hok). rewrite H0.
      unfold desc_lines, dline_text. destruct (reformat_description (dvalue d) (80 - Z.of_nat n * 4)); reflexivity.
  - apply Hcomb. apply (single_line_step (FComment t) n _ s _ (tstart t) (tend t) Hf); [discriminate|]. exact Hr.
  - apply Hcomb. apply (single_line_step (FClose t) (Nat.pred n) _ s _ (tstart t) (tend t) Hf); [discriminate|]. exact Hr.
Qed.

(* ---- (4) the EOL token: the lexer is left ON the newline rune, which is the token's start and end ----- *)
Lemma next_token_eol_state : forall fuel s t s', next_token_fuel fuel s = (LTok t, s') -> ty t = EOL ->
  ch s' = Some 10%N /\ tstart t = get_pos s' /\ tend t = get_pos s'.
Proof.
  induction fuel as [|f IH]; intros s t s'; cbn [next_token_fuel]; [discriminate|].
  destruct (ch (next s)) as [c|] eqn:Hch; [|discriminate].
  destruct (op_of c) as [op|] eqn:Eop.
  { intros [= <- <-]. cbn [ty]. intros ->. exfalso.
    revert Eop. unfold op_of, model_operators. cbn [assoc_N].
    repeat (match goal with |- context [N.eqb ?k c] => destruct (N.eqb k c) eqn:? end; [intros [= E]; discriminate E|]).
    discriminate. }
  destruct (N.eqb c 47) eqn:E47.
  { destruct (opt_eq (peek (next s)) 47) eqn:E1; [|destruct (opt_eq (peek (next s)) 42) eqn:E2].
    - unfold lift_lit. destruct (lex_line_comment (next s)) as [l s1|d s1|]; try discriminate.
      intros [= <- <-]. cbn. discriminate.
    - unfold lift_lit. destruct (lex_block_comment (next s)) as [l s1|d s1|]; try discriminate.
      intros [= <- <-]. cbn. discriminate.
    - unfold lift_lit. destruct (lex_regex (next s)) as [l s1|d s1|]; try discriminate.
      intros [= <- <-]. cbn. discriminate. }
  destruct (N.eqb c 34) eqn:E34.
  { unfold lift_lit. destruct (lex_string (next s)) as [l s1|d s1|]; try discriminate. intros [= <- <-]. cbn. discriminate. }
  destruct (N.eqb c 124) eqn:E124.
  { unfold lift_lit. destruct (lex_description_line (next s)) as [l s1|d s1|]; try discriminate.
    intros [= <- <-]. cbn. discriminate. }
  destruct (N.eqb c 10) eqn:E10.
  { intros [= <- <-]. cbn. intros _. apply N.eqb_eq in E10. subst c. auto. }
  destruct (is_space c) eqn:Esp.
  { apply IH. }
  destruct (is_digit c) eqn:Edg.
  { unfold lex_number.
    destruct (number_loop _ (next s) false (ch_list (next s))) as [[typ l] s1|d s1|] eqn:E; try discriminate.
    intros [= <- <-]. cbn [ty]. destruct (number_loop_type _ _ _ _ _ _ _ E) as [-> | ->]; discriminate. }
  destruct (is_letter c) eqn:Elt; [|discriminate].
  unfold lex_ident. destruct (ident_loop _ (next s) (ch_list (next s))) as [l s1|d s1|] eqn:E; try discriminate.
  destruct (list_N_eqb l lit_true || list_N_eqb l lit_false)%bool; intros [= <- <-]; cbn; discriminate.
Qed.

(* the closing EOL of a block: when the text consumed up to the state after it is [A ++ [10]], the token sits
   on the line count_nl A (its start and end) *)
Theorem closing_eol_line inp sm pm t s1 A : linv inp sm pm -> next_token sm = (LTok t, s1) -> ty t = EOL ->
  inp = (A ++ [10%N]) ++ rest s1 ->
  tstart t = P A /\ tend t = P A /\ fst (tstart t) = Z.of_nat (count_nl A) /\ linv inp s1 (A ++ [10%N]).
Proof.
  intros Hi E Hty Hinp.
  destruct (next_token_eol_state _ _ _ _ E Hty) as (Hch & Hs & He).
  destruct (tok_end_by_rest inp sm pm t s1 Hi E) as [(pe & c & H1 & H2 & H3 & _)|[Hl _]].
  - assert (Hpe : pe ++ [c] = A ++ [10%N]).
    { apply (app_inv_tail (rest s1)). rewrite <- Hinp, <- app_assoc. symmetry. exact H1. }
    apply app_inj_tail in Hpe. destruct Hpe as [-> ->].
    rewrite Hs, <- He, H2. split; [reflexivity|]. split; [reflexivity|]. split; [apply P_line|exact H3].
  - exfalso. rewrite (le_ch _ _ Hl) in Hch. discriminate.
Qed.

(* ---- (5) the lexer invariant along a run ---------------------------------------------------------------- *)
Lemma next_token_tok_not_eof inp s t s1 : leof inp s -> next_token s = (LTok t, s1) -> False.
Proof. intros Hl E. destruct (next_token_eof s (le_rest _ _ Hl)) as (sx & Hx). rewrite Hx in E. discriminate. Qed.

Lemma lex_run_linv inp : forall s q sm, lex_run s q sm -> forall pre, linv inp s pre ->
  (exists pm, linv inp sm pm) \/ leof inp sm.
Proof.
  induction 1 as [s|s t s1 ts s' E Hrun IH]; intros pre Hi; [left; eauto|].
  destruct (tok_end_by_rest inp s pre t s1 Hi E) as [(pe & c & _ & _ & H3 & _)|[Hl _]].
  - apply (IH _ H3).
  - inversion Hrun as [|s0 t2 s2 ts2 s3 E2 Hr2]; subst; [right; exact Hl|].
    exfalso. exact (next_token_tok_not_eof inp s1 t2 s2 Hl E2).
Qed.

(* a block of tokens closed by an EOL, consumed text ending with a newline: the line of the closing EOL *)
Theorem block_eol inp s pre blk s1 A : linv inp s pre -> lex_run s (blk ++ [eol_tok]) s1 ->
  inp = (A ++ [10%N]) ++ rest s1 ->
  exists sm t, lex_run s blk sm /\ next_token sm = (LTok t, s1) /\ ty t = EOL /\
               tstart t = P A /\ fst (tstart t) = Z.of_nat (count_nl A) /\ linv inp s1 (A ++ [10%N]).
Proof.
  intros Hi Hrun Hinp. destruct (lex_run_snoc_inv _ _ _ _ Hrun) as (sm & t & Hq & E & Ht).
  assert (Hty : ty t = EOL) by (unfold etok, eol_tok in Ht; congruence).
  destruct (lex_run_linv inp _ _ _ Hq pre Hi) as [[pm Hm]|Hl]; [|exfalso; exact (next_token_tok_not_eof inp sm t s1 Hl E)].
  destruct (closing_eol_line inp sm pm t s1 A Hm E Hty Hinp) as (H1 & _ & H3 & H4).
  exists sm, t. split; [exact Hq|]. split; [exact E|]. split; [exact Hty|]. split; [exact H1|]. split; [exact H3|exact H4].
Qed.

(* ---- (6) every fragment of the formatter's output --------------------------------------------------------- *)
(* frun with the closing EOL token of every block and its line: one less than the number of newlines of the
   text consumed so far *)
Fixpoint frun_lines (inp : list N) (s : lstate) (es : list (bool * entry)) (rs : list (list N)) : Prop :=
  match es, rs with
  | [], [] => True
  | (b, e) :: er, R :: rr =>
    exists sm t s1, lex_run s ((if b then [eol_tok] else []) ++ entry_toks e) sm /\
      next_token sm = (LTok t, s1) /\ ty t = EOL /\ rest s1 = R /\
      (forall C, inp = C ++ R -> Z.of_nat (count_nl C) = fst (tstart t) + 1) /\
      frun_lines inp s1 er rr
  | _, _ => False
  end.

Theorem frun_eol_lines inp : forall es rs s pre, linv inp s pre -> frun s es rs ->
  Forall (fun R => exists A, inp = (A ++ [10%N]) ++ R) rs -> frun_lines inp s es rs.
Proof.
  induction es as [|[b e] er IH]; intros rs s pre Hi Hf Hrs; destruct rs as [|R rr]; cbn [frun frun_lines] in *; try contradiction; [exact I|].
  destruct Hf as (s1 & Hrun & HR & Hrest). pose proof (Forall_inv Hrs) as [A HA]. pose proof (Forall_inv_tail Hrs) as Hrr. rewrite <- HR in HA.
  rewrite app_assoc in Hrun.
  destruct (block_eol inp s pre _ s1 A Hi Hrun HA) as (sm & t & Hq & E & Hty & Hs & Hline & Hl1).
  exists sm, t, s1. split; [exact Hq|]. split; [exact E|]. split; [exact Hty|]. split; [exact HR|]. split.
  - intros C HC. rewrite <- HR in HC. rewrite HA in HC at 1. apply app_inv_tail in HC. subst C. rewrite count_nl_app. cbn [count_nl]. rewrite Hline.
    replace (N.eqb 10 10) with true by reflexivity. lia.
  - apply (IH rr s1 _ Hl1 Hrest Hrr).
Qed.

Lemma rems_split : forall ds first last, Forall (fun m => exists x, fd_text m = x ++ [10%N]) ds ->
  Forall (fun R => exists A, fmt_join ds first last = (A ++ [10%N]) ++ R) (rems ds).
Proof.
  induction ds as [|d r IH]; intros first last Hw; [constructor|].
  inversion Hw as [|x y [tx Hx] Hr]; subst. cbn [rems fmt_join]. constructor.
  - exists ((if (negb first && (last <? fd_from d))%bool then [10%N] else []) ++ tx). rewrite Hx, <- !app_assoc. reflexivity.
  - specialize (IH false (fd_to d) Hr). revert IH. apply Forall_impl. intros R [A HA].
    exists (((if (negb first && (last <? fd_from d))%bool then [10%N] else []) ++ fd_text d) ++ A).
    rewrite HA, <- !app_assoc. reflexivity.
Qed.

(* ---- (7) the formatter's output ------------------------------------------------------------------------------ *)
Lemma diff_file_text_nl : forall fs n, Forall (fun m => exists x, fd_text m = x ++ [10%N]) (diff_file fs n).
Proof.
  assert (Hsl : forall i s e c parts, exists x, fd_text (single_line i s e c parts) = x ++ [10%N]).
  { intros. unfold single_line. cbn [fd_text]. rewrite !app_assoc. eexists. reflexivity. }
  induction fs as [|f r IH]; intros n; [constructor|].
  destruct f; cbn [diff_file]; constructor; auto.
  unfold description_diff, multi_line. cbn [fd_text]. eexists. reflexivity.
Qed.

(* Lexing the formatter's own output: block by block (one block per fragment: the empty line's EOL when Fmt printed
   one, the fragment's canonical tokens, the closing EOL); after block i the lexer has exactly the text of the later
   fragments left, and the closing EOL token of block i starts on line (newlines of the text of fragments 0..i) - 1. *)
Theorem fmt_output_eol_lines fs : Forall frag_lx fs ->
  let out := fmt_join (diff_file fs 0) true (-1) in
  frun_lines out (new_lexer out) (entries fs 0 true (-1)) (rems (diff_file fs 0)).
Proof.
  intros Hlx out. apply (frun_eol_lines out _ _ (new_lexer out) [] (new_lexer_inv out)).
  - apply (fmt_join_frun fs 0 true (-1) (new_lexer out) Hlx). reflexivity.
  - apply rems_split. apply diff_file_text_nl.
Qed.

(* ---- (8) the same for the token list AllTokens returns ------------------------------------------------------ *)
Lemma lex_run_prefix : forall s q sm, lex_run s q sm -> forall fuel ts ds, all_tokens_loop fuel true s = (ts, ds, false) ->
  exists c ts1 fuel1, ts = c ++ ts1 /\ map etok c = q /\ all_tokens_loop fuel1 true sm = (ts1, ds, false).
Proof.
  induction 1 as [s|s t s1 q0 s' E Hrun IH]; intros fuel ts ds Hl.
  - exists [], ts, fuel. auto.
  - destruct fuel as [|f]; [discriminate|]. cbn [all_tokens_loop] in Hl. rewrite E in Hl.
    destruct (all_tokens_loop f true s1) as [[ts1 ds1] b1] eqn:E1. injection Hl as <- <- ->.
    destruct (IH f ts1 ds1 E1) as (c & ts2 & f2 & -> & Hm & Hl2).
    exists (t :: c), ts2, f2. split; [reflexivity|]. split; [cbn [map]; rewrite Hm; reflexivity|exact Hl2].
Qed.

Fixpoint tok_lines (inp : list N) (ts : list token) (es : list (bool * entry)) (rs : list (list N)) : Prop :=
  match es, rs with
  | [], [] => True
  | (b, e) :: er, R :: rr =>
    exists c t ts', ts = c ++ t :: ts' /\ map etok c = (if b then [eol_tok] else []) ++ entry_toks e /\ ty t = EOL /\
      (forall C, inp = C ++ R -> Z.of_nat (count_nl C) = fst (tstart t) + 1) /\ tok_lines inp ts' er rr
  | _, _ => False
  end.

Lemma frun_lines_tokens inp : forall es rs s fuel ts, frun_lines inp s es rs ->
  all_tokens_loop fuel true s = (ts, [], false) -> tok_lines inp ts es rs.
Proof.
  induction es as [|[b e] er IH]; intros rs s fuel ts Hf Hl; destruct rs as [|R rr]; cbn [frun_lines tok_lines] in *; try contradiction; [exact I|].
  destruct Hf as (sm & t & s1 & Hq & E & Hty & HR & Hline & Hrest).
  destruct (lex_run_prefix _ _ _ Hq fuel ts [] Hl) as (c & ts1 & f1 & -> & Hm & Hl1).
  destruct f1 as [|f]; [discriminate|]. cbn [all_tokens_loop] in Hl1. rewrite E in Hl1.
  destruct (all_tokens_loop f true s1) as [[ts2 ds2] b2] eqn:E2. injection Hl1 as <- -> ->.
  exists c, t, ts2. split; [reflexivity|]. split; [exact Hm|]. split; [exact Hty|]. split; [exact Hline|].
  apply (IH rr s1 f ts2 Hrest E2).
Qed.

Theorem fmt_output_tok_lines fs ts : Forall frag_lx fs ->
  all_tokens true (fmt_join (diff_file fs 0) true (-1)) = LexOk ts ->
  tok_lines (fmt_join (diff_file fs 0) true (-1)) ts (entries fs 0 true (-1)) (rems (diff_file fs 0)).
Proof.
  intros Hlx Hl. pose proof (fmt_output_eol_lines fs Hlx) as Hf. cbv zeta in Hf.
  set (out := fmt_join (diff_file fs 0) true (-1)) in *. unfold all_tokens in Hl.
  destruct (all_tokens_loop (S (S (length out))) true (new_lexer out)) as [[ts0 ds] b] eqn:E.
  destruct b; [discriminate|]. destruct ds; [|discriminate]. injection Hl as ->.
  exact (frun_lines_tokens out _ _ _ _ _ Hf E).
Qed.

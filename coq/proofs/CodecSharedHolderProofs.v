(* CodecSharedHolderProofs.v — the round-trip theorem on the hoisted view of an environment with the
   shared-holder oneof shape (model/CodecSharedHolder.v), and conservativity of the hoisting. *)
From Coq Require Import String List Arith NArith ZArith Bool Lia.
From J5V.lib Require Import Outcome Json JsonPrint.
From J5V.model Require Import CodecTypes CodecEnc CodecEncSpec CodecEncDec CodecSharedHolder.
From J5V.proofs Require Import CodecEncProofs CodecEncDecProofs CodecEncTotal CodecEncRep.
Import ListNotations.
Local Open Scope N_scope.

(* hoisting changes nothing in an environment without the shape *)
Lemma hoist_props_id ps : existsb (shared_holder_b ps) ps = false -> hoist_props ps = ps.
Proof.
  intros H. unfold hoist_props. rewrite <- (map_id ps) at 3. apply map_ext_in. intros p Hp.
  unfold hoist_prop. destruct (shared_holder_b ps p) eqn:E; [|reflexivity].
  exfalso. assert (Ht : existsb (shared_holder_b ps) ps = true) by (apply existsb_exists; exists p; split; assumption).
  congruence.
Qed.

Lemma flat_map_nil_in {A B} (f : A -> list B) l : (forall x, In x l -> f x = []) -> flat_map f l = [].
Proof.
  induction l as [|a r IH]; intros H; [reflexivity|]. cbn [flat_map]. rewrite (H a (or_introl eq_refl)).
  cbn [app]. apply IH. intros x Hx. apply H. right. exact Hx.
Qed.

Lemma hoisted_schemas_nil e ps : existsb (shared_holder_b ps) ps = false -> hoisted_schemas e ps = [].
Proof.
  intros H. unfold hoisted_schemas. apply flat_map_nil_in. intros p Hp.
  destruct (shared_holder_b ps p) eqn:E; [|reflexivity].
  exfalso. assert (Ht : existsb (shared_holder_b ps) ps = true) by (apply existsb_exists; exists p; split; assumption).
  congruence.
Qed.

Theorem hoist_env_id e : env_shared_holder_b e = false -> hoist_env e = e.
Proof.
  unfold env_shared_holder_b, hoist_env. intros H.
  assert (Hall : forall ns ps, In ns e -> snd ns = SObject ps -> existsb (shared_holder_b ps) ps = false).
  { intros ns ps Hin Hs. destruct (existsb (shared_holder_b ps) ps) eqn:E; [|reflexivity].
    assert (Ht : existsb (fun ns => match snd ns with SObject ps => existsb (shared_holder_b ps) ps | _ => false end) e = true).
    { apply existsb_exists. exists ns. split; [exact Hin|]. rewrite Hs. exact E. }
    congruence. }
  rewrite flat_map_nil_in.
  - rewrite app_nil_r. rewrite <- (map_id e) at 2. apply map_ext_in. intros [n s] Hin. cbn [fst snd].
    destruct s as [ps|ps|pre opts]; try reflexivity.
    rewrite (hoist_props_id ps (Hall (n, SObject ps) ps Hin eq_refl)). reflexivity.
  - intros [n s] Hin. cbn [snd]. destruct s as [ps|ps|pre opts]; try reflexivity.
    apply hoisted_schemas_nil. exact (Hall (n, SObject ps) ps Hin eq_refl).
Qed.

(* the full round-trip statement on the hoisted view: its side conditions are the two deciders
   evaluated on hoist_env e *)
Theorem codec_full_hoisted fmt_float parse_float parse_time any_inner any_back e :
  float_text_ok fmt_float -> float_roundtrip fmt_float parse_float -> time_parse_extends parse_time ->
  inner_ok any_inner ->
  env_static_b (hoist_env e) = true ->
  forall fuel root m,
    rep_root_b any_inner print any_back (hoist_env e) fuel root m = true ->
    exists txt J, encode fmt_float any_inner (hoist_env e) root m = Ok txt /\ strict_parse txt = Some J /\
      (N.of_nat (jnest J) <= max_nesting ->
       exists m', decode_tree (dec_scalar parse_float parse_time) print false any_back (hoist_env e) root J = Ok m' /\
                  equiv_root any_inner print any_back (hoist_env e) root m m').
Proof.
  intros Hf1 Hf2 Ht Hi Hs fuel root m Hb.
  exact (codec_full_decided fmt_float parse_float parse_time any_inner any_back (hoist_env e) Hf1 Hf2 Ht Hi Hs fuel root m Hb).
Qed.

(* ... and on the environment itself, for the messages on which the codec on e and on hoist_env e
   produce the same document and read it to the same message (the two agreement premises are what
   CRound evaluates per case against the real codec; proving them for all messages in which every
   existing holder has a populated member is the open part) *)
Theorem codec_full_shared_holder fmt_float parse_float parse_time any_inner any_back e :
  float_text_ok fmt_float -> float_roundtrip fmt_float parse_float -> time_parse_extends parse_time ->
  inner_ok any_inner ->
  env_static_b (hoist_env e) = true ->
  forall fuel root m,
    rep_root_b any_inner print any_back (hoist_env e) fuel root m = true ->
    encode fmt_float any_inner e root m = encode fmt_float any_inner (hoist_env e) root m ->
    (forall J, strict_parse (match encode fmt_float any_inner e root m with Ok t => t | _ => [] end) = Some J ->
       decode_tree (dec_scalar parse_float parse_time) print false any_back e root J =
       decode_tree (dec_scalar parse_float parse_time) print false any_back (hoist_env e) root J) ->
    exists txt J, encode fmt_float any_inner e root m = Ok txt /\ strict_parse txt = Some J /\
      (N.of_nat (jnest J) <= max_nesting ->
       exists m', decode_tree (dec_scalar parse_float parse_time) print false any_back e root J = Ok m' /\
                  equiv_root any_inner print any_back (hoist_env e) root m m').
Proof.
  intros Hf1 Hf2 Ht Hi Hs fuel root m Hb Henc Hdec.
  destruct (codec_full_hoisted fmt_float parse_float parse_time any_inner any_back e Hf1 Hf2 Ht Hi Hs fuel root m Hb)
    as (txt & J & He & Hp & Hd).
  exists txt, J. rewrite Henc. split; [exact He|]. split; [exact Hp|].
  intros Hn. destruct (Hd Hn) as (m' & Hdm & Heq). exists m'. split; [|exact Heq].
  rewrite <- Hdm. apply Hdec. rewrite Henc, He. exact Hp.
Qed.

(* CmpbEntityProofs.v — entity expansions (C17's model) through the converter model: no panic, every
   output file links, accepted when the expansion is closed and its fields are well-formed.  Totality of
   the expansion itself is cited from proofs/EntityProofs.v (C17_expand_total). *)
From Coq Require Import String List NArith Bool Arith Lia.
From J5V.lib Require Import Outcome.
From J5V.model Require Import Entity CmpbFields CmpbDecls CmpbEntity.
From J5V.proofs Require Import EntityProofs CmpbFieldsProofs CmpbDeclsProofs.
Import ListNotations.
Local Open Scope bool_scope.

(* ---- the per-file fold *)
Lemma tstate_fold_sound t tds : forall s,
  (forall td, In td tds -> decl_has_list_request (snd td) = false) -> sound s ->
  sound (fold_left (fun s td => if target_eqb (fst td) t then merge s (decl_state (snd td)) else s) tds s).
Proof.
  induction tds as [|td r IH]; intros s Hl Hs; cbn [fold_left]; [exact Hs|].
  apply IH; [intros x Hx; apply Hl; right; exact Hx|].
  destruct (target_eqb (fst td) t); [|exact Hs].
  apply sound_merge; [exact Hs|apply sound_decl; apply Hl; left; reflexivity].
Qed.
Lemma tstate_sound t tds : (forall td, In td tds -> decl_has_list_request (snd td) = false) -> sound (tstate t tds).
Proof. intro H. unfold tstate. apply tstate_fold_sound; [exact H|apply sound_d0]. Qed.

Lemma tstate_fold_nerr t tds : forall s,
  (forall td, In td tds -> d_nerr (decl_state (snd td)) = 0) ->
  d_nerr (fold_left (fun s td => if target_eqb (fst td) t then merge s (decl_state (snd td)) else s) tds s) = d_nerr s.
Proof.
  induction tds as [|td r IH]; intros s H; cbn [fold_left]; [reflexivity|].
  rewrite IH; [|intros x Hx; apply H; right; exact Hx].
  destruct (target_eqb (fst td) t); [|reflexivity]. rewrite nerr_merge, (H td (or_introl eq_refl)). lia.
Qed.

(* ---- no component of an expansion carries a list request *)
Lemma abs_methods_no_listreq pok ms : existsb m_list_request (map (abs_method pok) ms) = false.
Proof. induction ms as [|m r IH]; cbn; [reflexivity|exact IH]. Qed.

(* induction over the nested tfield tree (Entity.v): leaves, and inline schemas with Forall on their fields *)
Section TfieldInd.
  Variable P : tfield -> Prop.
  Hypothesis Hleaf : forall n k r o d, (match k with TKInline _ _ _ _ => False | _ => True end) -> P (TF n k r o d).
  Hypothesis Hinl : forall n ik c fs os r o d, Forall P fs -> P (TF n (TKInline ik c fs os) r o d).
  Fixpoint tfield_forall_ind (t : tfield) : P t :=
    match t with
    | TF n k r o d =>
        match k return P (TF n k r o d) with
        | TKInline ik c fs os =>
            Hinl n ik c fs os r o d
                 ((fix go (l : list tfield) : Forall P l :=
                     match l with
                     | [] => Forall_nil P
                     | x :: rest => Forall_cons x (tfield_forall_ind x) (go rest)
                     end) fs)
        | TK i => Hleaf n (TK i) r o d I
        | TKArray i => Hleaf n (TKArray i) r o d I
        | TKMap i => Hleaf n (TKMap i) r o d I
        end
    end.
End TfieldInd.

Lemma inl_decl_no_listreq t k ps td : In td (inl_decl t k ps) -> decl_has_list_request (snd td) = false.
Proof.
  unfold inl_decl. destruct (N.eqb k 2); [contradiction|]. intros [<-|[]]. cbn [snd]. destruct (N.eqb k 1); reflexivity.
Qed.
Lemma tree_decls_no_listreq defs t tf : forall td, In td (tree_decls defs t tf) -> decl_has_list_request (snd td) = false.
Proof.
  induction tf as [n k r o d Hk|n ik c fs os r o d IH] using tfield_forall_ind; intros td H.
  - destruct k; try contradiction; destruct H.
  - cbn [tree_decls] in H. apply in_app_or in H. destruct H as [H|H]; [eapply inl_decl_no_listreq; exact H|].
    apply in_flat_map in H. destruct H as [x [Hx H]]. rewrite Forall_forall in IH. exact (IH x Hx td H).
Qed.

Lemma comp_decls_no_listreq defs pok c td : In td (comp_decls defs pok c) -> decl_has_list_request (snd td) = false.
Proof.
  destruct c as [file m|n vs|file s]; cbn [comp_decls].
  - intros [<-|H]; [cbn; destruct (m_oneof m); reflexivity|].
    apply in_app_or in H. destruct H as [H|H].
    + apply in_map_iff in H. destruct H as [x [<- _]]. reflexivity.
    + unfold inline_decls in H. apply in_flat_map in H. destruct H as [f [_ H]].
      destruct (f_inline f) as [il|]; [|contradiction].
      destruct (il_tree il) as [|tf0 tfs]; [eapply inl_decl_no_listreq; exact H|].
      apply in_app_or in H. destruct H as [H|H]; [eapply inl_decl_no_listreq; exact H|].
      apply in_flat_map in H. destruct H as [x [_ H]]. eapply tree_decls_no_listreq; exact H.
  - intros [<-|[]]. reflexivity.
  - destruct (Entity.sv_ann s); intros [<-|[]]; cbn; try reflexivity; apply abs_methods_no_listreq.
Qed.
Lemma entity_decls_no_listreq pok cs td : In td (entity_decls pok cs) -> decl_has_list_request (snd td) = false.
Proof.
  unfold entity_decls. intro H. apply in_flat_map in H. destruct H as [c [_ Hc]].
  eapply comp_decls_no_listreq. exact Hc.
Qed.

(* ---- never a panic, never a link error: for EVERY list of components *)
Theorem entity_total_links : forall pok cs,
  entity_verdict pok cs <> VPanic /\ entity_verdict pok cs <> VLinkErr.
Proof.
  intros pok cs. unfold entity_verdict.
  destruct (tstate_sound FMain (entity_decls pok cs) (entity_decls_no_listreq pok cs)) as [P1 L1].
  destruct (tstate_sound FService (entity_decls pok cs) (entity_decls_no_listreq pok cs)) as [P2 L2].
  destruct (tstate_sound FTopic (entity_decls pok cs) (entity_decls_no_listreq pok cs)) as [P3 L3].
  rewrite P1, P2, P3, L1, L2, L3. cbn [orb andb].
  match goal with |- context [if ?b then _ else _] => destruct b end; split; discriminate.
Qed.

(* the whole declaration: expansion (C17: total) then conversion *)
Theorem compile_entity_total : forall e,
  match compile_entity e with
  | Ok v => v <> VPanic /\ v <> VLinkErr
  | Err _ => True
  | _ => False
  end.
Proof.
  intro e. unfold compile_entity. destruct (expand_total e) as [Hp Hf].
  destruct (expand e) as [cs|c|s|]; [apply entity_total_links|exact I|discriminate|contradiction].
Qed.

(* ---- acceptance *)
(* a generated or user field is well-formed: not optional when required or a primary key; no map of maps *)
Definition ofield_ok (f : ofield) : bool :=
  negb (f_optional f && (f_required f || f_primary f))
  && match f_type f with Entity.TMap (Entity.TMap _) => false | _ => true end.

Lemma ref_of_resolves defs (want : bool) p n :
  ref_resolves defs (if want then Entity.TEnum p n else Entity.TObject p n) = true ->
  ref_ok (if want then KEnum else KMsg) (ref_of defs want p n) = true.
Proof.
  unfold ref_of. destruct p as [|c p'].
  - destruct want; cbn [ref_resolves]; intro H; rewrite H; reflexivity.
  - destruct want; cbn [ref_resolves negb andb]; intro H; [discriminate|]. rewrite H. reflexivity.
Qed.

Lemma scalar_fty_in_language pt k lr : fty_in_language (scalar_fty pt k lr) = true.
Proof.
  unfold scalar_fty.
  repeat match goal with |- context [if ?b then _ else _] => destruct b end; reflexivity.
Qed.
(* a scalar never is a key, never carries float rules *)
Definition plain_scalar (t : fty) : Prop :=
  match t with
  | TFloat _ r _ => r = false
  | TKey _ _ _ _ => False
  | _ => True
  end.
Lemma scalar_fty_shape pt k lr : plain_scalar (scalar_fty pt k lr).
Proof.
  unfold scalar_fty.
  repeat match goal with |- context [if ?b then _ else _] => destruct b end; try exact I; reflexivity.
Qed.

(* facts about the converter type of a non-map type *)
Lemma abs_ty_facts defs f t :
  ref_resolves defs t = true -> (match t with Entity.TMap _ => False | _ => True end) ->
  fty_in_language (abs_ty defs f t) = true
  /\ (match abs_ty defs f t with TFloat _ r _ => r = false | _ => True end)
  /\ (match abs_ty defs f t with TKey _ _ k _ => k = KNone | _ => True end)
  /\ (match abs_ty defs f t with TKey (EPrimary true) _ _ _ => f_primary f = true | _ => True end).
Proof.
  intros Hr Hm. destruct t as [pt k|p n|p n|p n|tn k|v|nn nk]; cbn [abs_ty]; try contradiction.
  - destruct (bytes_eqb k (bs "key")).
    + cbn. repeat split; destruct (f_primary f); try reflexivity; destruct (is_some (f_foreign f)); reflexivity.
    + pose proof (scalar_fty_shape pt k (is_some (f_filter f))) as Hs.
      split; [apply scalar_fty_in_language|]. destruct (scalar_fty pt k (is_some (f_filter f))); cbn in Hs; try contradiction; repeat split; assumption.
  - repeat split. exact (ref_of_resolves defs false p n Hr).
  - repeat split. cbn [ref_resolves] in Hr. cbn [fty_in_language]. unfold ref_of. destruct p as [|c p']; [rewrite Hr; reflexivity|].
    cbn [negb andb] in Hr. rewrite Hr. reflexivity.
  - repeat split. cbn [fty_in_language]. rewrite (ref_of_resolves defs true p n Hr). reflexivity.
  - pose proof (scalar_fty_shape 11 k (is_some (f_filter f))) as Hs.
    split; [apply scalar_fty_in_language|]. destruct (scalar_fty 11 k (is_some (f_filter f))); cbn in Hs; try contradiction; repeat split; assumption.
  - destruct (N.eqb nk 0); [repeat split|]. destruct (N.eqb nk 1); repeat split.
Qed.

Definition is_primary_fty (t : fty) : bool := match t with TKey (EPrimary true) _ _ _ => true | _ => false end.

(* a property built from a clean field type is in the accepted language *)
Lemma accepted_of_facts (t : fty) (rep req opt : bool) :
  fty_in_language t = true ->
  (match t with TFloat _ r _ => r = false | _ => True end) ->
  (match t with TKey _ _ k _ => k = KNone | _ => True end) ->
  req && opt = false -> opt && is_primary_fty t = false ->
  prop_accepted (mkProp false (if rep then Array (Some t) None false else Plain t) req opt) = true.
Proof.
  intros Hl Hf Hk Hro Hop.
  unfold prop_accepted, in_language, uses_float_rules;
    cbn [p_schema_nil p_required p_optional p_shape negb andb]. rewrite Hro. cbn [negb andb].
  destruct rep; cbn [primary_key_shape]; rewrite Hl; cbn [andb];
    destruct t as [r fl ru|r ru lr|r ru lr|ru lr|ru|ru lr|ru lr|ff ru lr|ff ru lr|e te kf lr|ru lr|ru lr|lr|];
    cbn [is_primary_fty] in Hop; try (rewrite ?andb_false_r; reflexivity);
    try (rewrite Hf; rewrite ?andb_false_r; reflexivity);
    try (destruct e as [|[|]| |]; rewrite ?Hop, ?andb_false_r; reflexivity).
Qed.
Lemma accepted_map_of_facts (t : fty) (req opt : bool) :
  fty_in_language t = true ->
  (match t with TFloat _ r _ => r = false | _ => True end) ->
  (match t with TKey _ _ k _ => k = KNone | _ => True end) ->
  req && opt = false ->
  prop_accepted (mkProp false (Map (Some t) false) req opt) = true.
Proof.
  intros Hl Hf Hk Hro.
  unfold prop_accepted, in_language, uses_float_rules;
    cbn [p_schema_nil p_required p_optional p_shape negb andb]. rewrite Hro, Hl. cbn [negb andb].
  destruct t as [r fl ru|r ru lr|r ru lr|ru lr|ru|ru lr|ru lr|ff ru lr|ff ru lr|e te kf lr|ru lr|ru lr|lr|];
    try reflexivity. rewrite Hf. reflexivity.
Qed.

Lemma abs_prop_accepted defs f :
  ref_resolves defs (f_type f) = true -> ofield_ok f = true -> prop_accepted (abs_prop defs f) = true.
Proof.
  intros Hr Hok. unfold ofield_ok in Hok. apply andb_prop in Hok. destruct Hok as [Hok Hmm]. apply negb_true_iff in Hok.
  assert (Hro : f_required f && f_optional f = false).
  { destruct (f_optional f); [|apply andb_false_r]. destruct (f_required f); [discriminate|reflexivity]. }
  assert (Hop : forall t, (match t with Entity.TMap _ => False | _ => True end) -> ref_resolves defs t = true ->
                          f_optional f && is_primary_fty (abs_ty defs f t) = false).
  { intros t Ht Hrt. destruct (abs_ty_facts defs f t Hrt Ht) as (_ & _ & _ & Hp).
    destruct (f_optional f); [|reflexivity]. cbn [andb] in *.
    destruct (abs_ty defs f t) as [| | | | | | | | |e te kf lr| | | |]; try reflexivity.
    destruct e as [|[|]| |]; try reflexivity. rewrite Hp in Hok. rewrite orb_true_r in Hok. discriminate. }
  unfold abs_prop. destruct (f_type f) as [pt k|p n|p n|p n|tn k|v|nn nk] eqn:Et.
  6: { assert (Hv : match v with Entity.TMap _ => False | _ => True end) by (destruct v; try exact I; discriminate).
       cbn [ref_resolves] in Hr. destruct (abs_ty_facts defs f v Hr Hv) as (Hl & Hf & Hk & _).
       apply accepted_map_of_facts; assumption. }
  - destruct (abs_ty_facts defs f (Entity.TScalar pt k) Hr I) as (Hl & Hf & Hk & _).
    apply accepted_of_facts; [exact Hl|exact Hf|exact Hk|exact Hro|exact (Hop (Entity.TScalar pt k) I Hr)].
  - destruct (abs_ty_facts defs f (Entity.TObject p n) Hr I) as (Hl & Hf & Hk & _).
    apply accepted_of_facts; [exact Hl|exact Hf|exact Hk|exact Hro|exact (Hop (Entity.TObject p n) I Hr)].
  - destruct (abs_ty_facts defs f (Entity.TOneof p n) Hr I) as (Hl & Hf & Hk & _).
    apply accepted_of_facts; [exact Hl|exact Hf|exact Hk|exact Hro|exact (Hop (Entity.TOneof p n) I Hr)].
  - destruct (abs_ty_facts defs f (Entity.TEnum p n) Hr I) as (Hl & Hf & Hk & _).
    apply accepted_of_facts; [exact Hl|exact Hf|exact Hk|exact Hro|exact (Hop (Entity.TEnum p n) I Hr)].
  - destruct (abs_ty_facts defs f (Entity.TExt tn k) Hr I) as (Hl & Hf & Hk & _).
    apply accepted_of_facts; [exact Hl|exact Hf|exact Hk|exact Hro|exact (Hop (Entity.TExt tn k) I Hr)].
  - destruct (abs_ty_facts defs f (Entity.TNested nn nk) Hr I) as (Hl & Hf & Hk & _).
    apply accepted_of_facts; [exact Hl|exact Hf|exact Hk|exact Hro|exact (Hop (Entity.TNested nn nk) I Hr)].
Qed.

(* a service component is clean: its path parameters exist and every method has an HTTP verb *)
Definition verb_known (v : N) : bool := (N.leb 1 v && N.leb v 5)%N.
Definition comp_clean (pok : bool) (c : component) : bool :=
  match c with
  | CSvc _ s => match Entity.sv_ann s with
                | STopic _ _ _ => true
                | _ => pok && forallb (fun m => verb_known (mt_verb m)) (Entity.sv_methods s)
                end
  | _ => true
  end.

Lemma verb_http_known v : verb_known v = true -> verb_http v <> HUnspecified.
Proof.
  unfold verb_known, verb_http. intro H. apply andb_prop in H. destruct H as [H1 H2].
  apply N.leb_le in H1. apply N.leb_le in H2.
  destruct (N.eqb v 1) eqn:E1; [discriminate|]. destruct (N.eqb v 2) eqn:E2; [discriminate|].
  destruct (N.eqb v 3) eqn:E3; [discriminate|]. destruct (N.eqb v 4) eqn:E4; [discriminate|].
  destruct (N.eqb v 5) eqn:E5; [discriminate|].
  apply N.eqb_neq in E1. apply N.eqb_neq in E2. apply N.eqb_neq in E3. apply N.eqb_neq in E4. apply N.eqb_neq in E5.
  exfalso. lia.
Qed.

Lemma abs_methods_in_language ms :
  forallb (fun m => verb_known (mt_verb m)) ms = true ->
  forallb method_in_language (map (abs_method true) ms) = true.
Proof.
  induction ms as [|m r IH]; cbn [map forallb]; [reflexivity|]. intro H. apply andb_prop in H. destruct H as [Hv Hr].
  rewrite (IH Hr), andb_true_r. unfold method_in_language, abs_method; cbn [m_request m_path_params_ok m_http andb].
  pose proof (verb_http_known _ Hv) as Hh. destruct (verb_http (mt_verb m)); try reflexivity. contradiction.
Qed.

Lemma nerr_service_clean ms o : forallb method_in_language ms = true -> no_list_request ms ->
  d_nerr (compile_service (mkService ms o)) = 0.
Proof.
  intros H Hn. unfold compile_service, visit_io_objects; cbn [sv_methods sv_options].
  destruct (existsb m_request ms); destruct o; rewrite ?nerr_set, ?nerr_ens, ?nerr_set, ?nerr_ens, (methods_nerr ms d0 H Hn); reflexivity.
Qed.
Lemma abs_methods_no_list_request pok ms : no_list_request (map (abs_method pok) ms).
Proof. intros m Hm. apply in_map_iff in Hm. destruct Hm as [x [<- _]]. reflexivity. Qed.

(* a field and, when its type is defined inline, the fields of that definition (at every depth for the tree form)
   are well-formed *)
Definition ofield_ok_deep (f : ofield) : bool :=
  ofield_ok f && match f_inline f with
                 | Some il => forallb (fun sf => ofield_ok (of_sfield sf)) (il_fields il) && forallb tfield_ok (il_tree il)
                 | None => true
                 end.

Lemma otype_of_item_not_map i : match otype_of_item i with Entity.TMap _ => False | _ => True end.
Proof. destruct i; exact I. Qed.

(* a field of an inline schema of the tree form is accepted when it resolves and is not optional + required *)
Lemma of_tfield_accepted defs x :
  tfield_resolves defs x = true -> tfield_ok x = true -> prop_accepted (abs_prop defs (of_tfield x)) = true.
Proof.
  intros Hr Hok. destruct x as [n k r o d]. cbn [tfield_ok] in Hok. apply andb_prop in Hok. destruct Hok as [Hro _].
  apply negb_true_iff in Hro. cbn [tfield_resolves] in Hr.
  apply abs_prop_accepted.
  - destruct k as [i|i|i|ik c fs os]; cbn [of_tfield f_type ref_resolves]; try exact Hr.
    unfold inline_type. destruct (N.eqb c 2); reflexivity.
  - unfold ofield_ok. destruct k as [i|i|i|ik c fs os]; cbn [of_tfield f_optional f_required f_primary f_type].
    + rewrite orb_false_r, Hro. cbn. pose proof (otype_of_item_not_map i). destruct (otype_of_item i); try reflexivity; contradiction.
    + cbn. pose proof (otype_of_item_not_map i). destruct (otype_of_item i); try reflexivity; contradiction.
    + cbn. pose proof (otype_of_item_not_map i). destruct (otype_of_item i); try reflexivity; contradiction.
    + rewrite orb_false_r. replace (o && N.eqb c 0 && r) with (o && r && N.eqb c 0) by (destruct o, r, (N.eqb c 0); reflexivity).
      rewrite Hro. cbn. unfold inline_type. destruct (N.eqb c 2); reflexivity.
Qed.
Lemma tprops_accepted defs fs :
  forallb (tfield_resolves defs) fs = true -> forallb tfield_ok fs = true -> forallb prop_accepted (tprops defs fs) = true.
Proof.
  intros Hr Hok. apply forallb_forall. intros p Hp. unfold tprops in Hp. apply in_map_iff in Hp. destruct Hp as [x [<- Hx]].
  rewrite forallb_forall in Hr, Hok. apply of_tfield_accepted; [exact (Hr x Hx)|exact (Hok x Hx)].
Qed.
Lemma inl_decl_nerr t k ps td : forallb prop_accepted ps = true -> In td (inl_decl t k ps) -> d_nerr (decl_state (snd td)) = 0.
Proof.
  intros Hps. unfold inl_decl. destruct (N.eqb k 2); [contradiction|]. intros [<-|[]]. cbn [snd].
  destruct (N.eqb k 1); apply nerr_decl; try reflexivity; exact Hps.
Qed.
Lemma tree_decls_nerr defs t tf :
  tfield_resolves defs tf = true -> tfield_ok tf = true ->
  forall td, In td (tree_decls defs t tf) -> d_nerr (decl_state (snd td)) = 0.
Proof.
  induction tf as [n k r o d Hk|n ik c fs os r o d IH] using tfield_forall_ind; intros Hr Hok td H.
  - destruct k; try contradiction; destruct H.
  - cbn [tfield_resolves] in Hr. cbn [tfield_ok] in Hok. apply andb_prop in Hok. destruct Hok as [_ Hok].
    cbn [tree_decls] in H. apply in_app_or in H. destruct H as [H|H].
    + eapply inl_decl_nerr; [|exact H]. apply tprops_accepted; assumption.
    + apply in_flat_map in H. destruct H as [x [Hx H]]. rewrite Forall_forall in IH.
      rewrite forallb_forall in Hr, Hok. exact (IH x Hx (Hr x Hx) (Hok x Hx) td H).
Qed.

Lemma comp_decls_nerr defs pok c :
  forallb (field_resolves defs) (Entity.fields_of [c]) = true ->
  forallb ofield_ok_deep (Entity.fields_of [c]) = true -> comp_clean pok c = true ->
  forall td, In td (comp_decls defs pok c) -> d_nerr (decl_state (snd td)) = 0.
Proof.
  intros Hr Hok Hc td Hin.
  assert (Hacc : forall f, In f (Entity.fields_of [c]) -> prop_accepted (abs_prop defs f) = true).
  { intros f Hf. rewrite forallb_forall in Hr, Hok. specialize (Hr f Hf). specialize (Hok f Hf).
    unfold field_resolves in Hr. apply andb_prop in Hr. unfold ofield_ok_deep in Hok. apply andb_prop in Hok.
    apply abs_prop_accepted; [exact (proj1 Hr)|exact (proj1 Hok)]. }
  assert (Hinl : forall f il, In f (Entity.fields_of [c]) -> f_inline f = Some il ->
                  (il_tree il = [] -> forallb prop_accepted (map (fun sf => abs_prop defs (of_sfield sf)) (il_fields il)) = true)
                  /\ forallb (tfield_resolves defs) (il_tree il) = true /\ forallb tfield_ok (il_tree il) = true).
  { intros f il Hf Hil. rewrite forallb_forall in Hr, Hok. specialize (Hr f Hf). specialize (Hok f Hf).
    unfold field_resolves in Hr. apply andb_prop in Hr. destruct Hr as [_ Hr]. rewrite Hil in Hr.
    unfold ofield_ok_deep in Hok. apply andb_prop in Hok. destruct Hok as [_ Hok]. rewrite Hil in Hok.
    apply andb_prop in Hok. destruct Hok as [Hokf Hokt].
    destruct (il_tree il) as [|tf0 tfs] eqn:Et.
    - split; [|split; reflexivity]. intros _. apply forallb_forall. intros p Hp. apply in_map_iff in Hp.
      destruct Hp as [sf [<- Hsf]]. rewrite forallb_forall in Hr, Hokf.
      apply abs_prop_accepted; [exact (Hr sf Hsf)|exact (Hokf sf Hsf)].
    - split; [discriminate|]. split; [exact Hr|exact Hokt]. }
  destruct c as [file m|n vs|file s]; cbn [comp_decls] in Hin.
  - assert (Hfs : forall l, incl l (Entity.fields_of [CMsg file m]) -> forallb prop_accepted (map (abs_prop defs) l) = true).
    { intros l Hl. apply forallb_forall. intros p Hp. apply in_map_iff in Hp. destruct Hp as [f [<- Hf]]. apply Hacc, Hl, Hf. }
    assert (Hall : Entity.fields_of [CMsg file m] = m_fields m ++ flat_map snd (m_nested m)).
    { unfold Entity.fields_of; cbn. apply app_nil_r. }
    assert (Hmain : incl (m_fields m) (Entity.fields_of [CMsg file m])) by (rewrite Hall; apply incl_appl, incl_refl).
    destruct Hin as [<-|Hin].
    + cbn [snd]. destruct (m_oneof m); apply nerr_decl; try reflexivity; cbn [decl_in_language]; apply Hfs, Hmain.
    + apply in_app_or in Hin. destruct Hin as [Hin|Hin].
      * apply in_map_iff in Hin. destruct Hin as [nst [<- Hn]]. cbn [snd]. apply nerr_decl; [|reflexivity].
        cbn [decl_in_language]. apply Hfs. rewrite Hall. apply incl_appr.
        intros x Hx. apply in_flat_map. exists nst. split; assumption.
      * unfold inline_decls in Hin. apply in_flat_map in Hin. destruct Hin as [f [Hf Hin]].
        destruct (f_inline f) as [il|] eqn:Eil; [|contradiction].
        assert (Hf' : In f (Entity.fields_of [CMsg file m])) by (rewrite Hall; exact Hf).
        destruct (Hinl f il Hf' Eil) as (Hflat & Htr & Htok).
        destruct (il_tree il) as [|tf0 tfs] eqn:Et.
        -- eapply inl_decl_nerr; [|exact Hin]. apply Hflat. reflexivity.
        -- apply in_app_or in Hin. destruct Hin as [Hin|Hin].
           ++ eapply inl_decl_nerr; [|exact Hin]. apply tprops_accepted; assumption.
           ++ apply in_flat_map in Hin. destruct Hin as [x [Hx Hin]].
              rewrite forallb_forall in Htr, Htok. exact (tree_decls_nerr defs _ x (Htr x Hx) (Htok x Hx) td Hin).
  - destruct Hin as [<-|[]]. apply nerr_decl; reflexivity.
  - cbn [comp_clean] in Hc. destruct (Entity.sv_ann s).
    + destruct Hin as [<-|[]]. cbn [snd decl_state]. apply andb_prop in Hc. destruct Hc as [-> Hv].
      apply nerr_service_clean; [apply abs_methods_in_language, Hv|apply abs_methods_no_list_request].
    + destruct Hin as [<-|[]]. cbn [snd decl_state]. apply andb_prop in Hc. destruct Hc as [-> Hv].
      apply nerr_service_clean; [apply abs_methods_in_language, Hv|apply abs_methods_no_list_request].
    + destruct Hin as [<-|[]]. apply nerr_decl; reflexivity.
Qed.

Lemma fields_of_single cs c : In c cs -> incl (Entity.fields_of [c]) (Entity.fields_of cs).
Proof.
  intros Hc f Hf. unfold Entity.fields_of in *. cbn in Hf. rewrite app_nil_r in Hf.
  apply in_flat_map. exists c. split; assumption.
Qed.

(* a closed expansion with well-formed fields and clean services is accepted: every output file converts
   without an error and links *)
Theorem entity_accepted : forall pok cs,
  closed cs = true -> forallb ofield_ok_deep (Entity.fields_of cs) = true -> forallb (comp_clean pok) cs = true ->
  entity_verdict pok cs = VOk.
Proof.
  intros pok cs Hcl Hok Hclean.
  assert (Hn : forall td, In td (entity_decls pok cs) -> d_nerr (decl_state (snd td)) = 0).
  { intros td Htd. unfold entity_decls in Htd. apply in_flat_map in Htd. destruct Htd as [c [Hc Htd]].
    unfold closed in Hcl. rewrite forallb_forall in Hcl, Hok, Hclean.
    eapply comp_decls_nerr; [| |apply Hclean; exact Hc|exact Htd].
    - apply forallb_forall. intros f Hf. apply Hcl. eapply fields_of_single; eassumption.
    - apply forallb_forall. intros f Hf. apply Hok. eapply fields_of_single; eassumption. }
  unfold entity_verdict.
  destruct (tstate_sound FMain (entity_decls pok cs) (entity_decls_no_listreq pok cs)) as [P1 L1].
  destruct (tstate_sound FService (entity_decls pok cs) (entity_decls_no_listreq pok cs)) as [P2 L2].
  destruct (tstate_sound FTopic (entity_decls pok cs) (entity_decls_no_listreq pok cs)) as [P3 L3].
  rewrite P1, P2, P3, L1, L2, L3. cbn [orb andb].
  unfold tstate. rewrite !tstate_fold_nerr by exact Hn. reflexivity.
Qed.

(* CmpbPackageProofs.v — package loading for C07 (model/CmpbPackage.v): the loadPackage recursion terminates
   (the resolveBaton chain bounds it), what it returns is an error list from a known stage, front-end errors
   are positioned inside their file, loader errors (unknown package, import cycle) carry NO position:
   the refutation of "every error carries a position" with witnesses. *)
From Coq Require Import String List NArith ZArith Bool Arith Lia.
From J5V.lib Require Import Text Outcome.
From J5V.model Require Import BclLexer BclParser CmpbFields CmpbDecls CmpbFront CmpbPackage.
From J5V.proofs Require Import BclPosProofs CmpbDeclsProofs CmpbFrontProofs.
Import ListNotations.
Local Open Scope bool_scope.

Lemma mem_pkg_In n l : mem_pkg n l = true <-> In n l.
Proof.
  unfold mem_pkg. rewrite existsb_exists. split.
  - intros [x [Hx E]]. apply N.eqb_eq in E. subst. exact Hx.
  - intro H. exists n. split; [exact H|apply N.eqb_refl].
Qed.
Lemma find_pkg_In n b fs : find_pkg n b = Some fs -> In n (map fst b) /\ incl fs (all_files b).
Proof.
  induction b as [|[m gs] r IH]; cbn; [discriminate|].
  destruct (N.eqb n m) eqn:E.
  - intro H. injection H as <-. apply N.eqb_eq in E. subst. split; [left; reflexivity|].
    unfold all_files; cbn. apply incl_appl, incl_refl.
  - intro H. destruct (IH H) as [H1 H2]. split; [right; exact H1|].
    unfold all_files in *; cbn. apply incl_appr. exact H2.
Qed.

Section Load.
  Variable fres : sfile -> fileres.

  (* ---- termination: the chain holds distinct local package names, so it cannot outgrow the bundle *)
  Lemma load_fuel_ok : forall fuel b chain name,
    NoDup chain -> incl chain (map fst b) -> length b < fuel + length chain ->
    load fres fuel b chain name <> OutOfFuel.
  Proof.
    induction fuel as [|f IH]; intros b chain name Hnd Hinc Hlen.
    - exfalso. pose proof (NoDup_incl_length Hnd Hinc) as H. rewrite map_length in H. cbn in Hlen. lia.
    - cbn [load]. destruct (mem_pkg name chain) eqn:Em; [discriminate|].
      destruct (find_pkg name b) as [files|] eqn:Ef; [|discriminate].
      destruct (first_early fres files); [discriminate|].
      destruct (find_pkg_In _ _ _ Ef) as [Hin _].
      assert (Hnd' : NoDup (name :: chain)).
      { constructor; [|exact Hnd]. intro H. apply mem_pkg_In in H. congruence. }
      assert (Hinc' : incl (name :: chain) (map fst b)).
      { intros x [<-|Hx]; [exact Hin|apply Hinc; exact Hx]. }
      assert (Hlen' : length b < f + length (name :: chain)) by (cbn; lia).
      set (deps := filter _ _). clearbody deps.
      induction deps as [|d r IHd].
      + destruct (first_late fres files) as [[|e es]|c|s|] eqn:El; try discriminate.
        clear -El. induction files as [|x xs IHx]; cbn in El; [discriminate|].
        destruct (fres x); try discriminate; auto.
      + pose proof (IH b (name :: chain) d Hnd' Hinc' Hlen') as Hd.
        destruct (load fres f b (name :: chain) d) as [[|e es]|c|s|]; try discriminate; [exact IHd|contradiction].
  Qed.

  Theorem load_package_terminates : forall b name, load_package fres b name <> OutOfFuel.
  Proof.
    intros b name. unfold load_package. apply load_fuel_ok; [constructor|intros x []|cbn; lia].
  Qed.

  (* ---- what comes back: Err never; a Panic only from a file whose conversion panics *)
  Lemma first_late_shape files : match first_late fres files with
    | Ok es => es = [] \/ exists f, In f files /\ fres f = FRLate es
    | Panic _ => exists f, In f files /\ fres f = FRPanic
    | _ => False end.
  Proof.
    induction files as [|x xs IH]; cbn; [left; reflexivity|].
    destruct (fres x) eqn:E.
    - destruct (first_late fres xs) as [es'|c|s|]; try contradiction.
      + destruct IH as [->|[f [Hf Ef]]]; [left; reflexivity|right; exists f; split; [right; exact Hf|exact Ef]].
      + destruct IH as [f [Hf Ef]]. exists f. split; [right; exact Hf|exact Ef].
    - right. exists x. split; [left; reflexivity|exact E].
    - exists x. split; [left; reflexivity|exact E].
    - destruct (first_late fres xs) as [es'|c|s|]; try contradiction.
      + destruct IH as [->|[f [Hf Ef]]]; [left; reflexivity|right; exists f; split; [right; exact Hf|exact Ef]].
      + destruct IH as [f [Hf Ef]]. exists f. split; [right; exact Hf|exact Ef].
  Qed.
  Lemma first_early_shape files es : first_early fres files = Some es -> exists f, In f files /\ fres f = FREarly es.
  Proof.
    induction files as [|x xs IH]; cbn; [discriminate|].
    destruct (fres x) eqn:E; try (intro H; destruct (IH H) as [f [Hf Ef]]; exists f; split; [right; exact Hf|exact Ef]).
    intro H. injection H as <-. exists x. split; [left; reflexivity|exact E].
  Qed.

  (* every error that comes back is a loader error without position, or the error list of ONE file of the bundle *)
  Definition from_file (b : bundle) (es : list perr) : Prop :=
    exists f, In f (all_files b) /\ (fres f = FREarly es \/ fres f = FRLate es).
  Lemma load_shape : forall fuel b chain name,
    match load fres fuel b chain name with
    | Ok es => es = [] \/ es = [mkPE EPkgCycle None None] \/ es = [mkPE ENoFiles None None] \/ from_file b es
    | Panic _ => exists f, In f (all_files b) /\ fres f = FRPanic
    | Err _ => False
    | OutOfFuel => True
    end.
  Proof.
    induction fuel as [|f IH]; intros b chain name; cbn [load]; [exact I|].
    destruct (mem_pkg name chain); [right; left; reflexivity|].
    destruct (find_pkg name b) as [files|] eqn:Ef; [|right; right; left; reflexivity].
    destruct (find_pkg_In _ _ _ Ef) as [_ Hsub].
    destruct (first_early fres files) as [es|] eqn:Ee.
    { destruct (first_early_shape _ _ Ee) as [x [Hx Ex]]. right; right; right. exists x. split; [apply Hsub; exact Hx|left; exact Ex]. }
    set (deps := filter _ _). clearbody deps.
    induction deps as [|d r IHd].
    - pose proof (first_late_shape files) as Hl.
      destruct (first_late fres files) as [es|c|s|]; try contradiction.
      + destruct es as [|e es]; [left; reflexivity|].
        destruct Hl as [Hl|[x [Hx Ex]]]; [discriminate|].
        right; right; right. exists x. split; [apply Hsub; exact Hx|right; exact Ex].
      + destruct Hl as [x [Hx Ex]]. exists x. split; [apply Hsub; exact Hx|exact Ex].
    - pose proof (IH b (name :: chain) d) as Hd.
      destruct (load fres f b (name :: chain) d) as [[|e es]|c|s|]; try exact Hd. exact IHd.
  Qed.
End Load.

(* ---- positions of the front-end errors (stage EFront) *)
Definition perr_inside (b : bundle) (e : perr) : Prop :=
  exists f sp, In f (all_files b) /\ pe_file e = Some (sf_id f) /\ pe_pos e = Some sp
               /\ span_inside (utf8_decode (sf_input f)) sp.

Lemma front_fres_positioned walk f es : walker_contract walk ->
  front_fres walk f = FREarly es \/ front_fres walk f = FRLate es ->
  es <> [] /\ Forall (fun e => pe_file e = Some (sf_id f) /\ exists sp, pe_pos e = Some sp /\ span_inside (utf8_decode (sf_input f)) sp) es.
Proof.
  intros Hc H. unfold front_fres in H.
  destruct (front_end walk true (sf_input f)) as [out|c|s|] eqn:Ef; try (destruct H; discriminate).
  destruct out as [st sps|v lf]; [|destruct H; discriminate].
  destruct (front_end_errors_positioned walk true (sf_input f) st sps Hc Ef) as [Hne Hall].
  assert (Hes : es = map (fun sp => mkPE (EFront st) (Some (sf_id f)) (Some sp)) sps).
  { destruct st; destruct H as [H|H]; try discriminate; injection H as <-; reflexivity. }
  subst es. split; [destruct sps; [contradiction|discriminate]|].
  apply Forall_forall. intros e He. apply in_map_iff in He. destruct He as [sp [<- Hsp]].
  rewrite Forall_forall in Hall. cbn. split; [reflexivity|]. exists sp. split; [reflexivity|apply Hall; exact Hsp].
Qed.

(* what holds: every error of a package load is positioned inside a file of the bundle, or it is one of the
   two loader errors *)
Theorem load_errors_positioned_partial : forall walk b name es, walker_contract walk ->
  load_package (front_fres walk) b name = Ok es ->
  Forall (fun e => perr_inside b e \/ (pe_stage e = ENoFiles /\ pe_pos e = None) \/ (pe_stage e = EPkgCycle /\ pe_pos e = None)) es.
Proof.
  intros walk b name es Hc H. unfold load_package in H.
  pose proof (load_shape (front_fres walk) (S (length b)) b [] name) as Hs. rewrite H in Hs.
  destruct Hs as [->|[->|[->|[f [Hf Hfr]]]]].
  - constructor.
  - constructor; [right; right; split; reflexivity|constructor].
  - constructor; [right; left; split; reflexivity|constructor].
  - destruct (front_fres_positioned walk f es Hc Hfr) as [_ Hall].
    eapply Forall_impl; [|exact Hall]. intros e [H1 [sp [H2 H3]]]. left. exists f, sp.
    split; [exact Hf|]. split; [exact H1|]. split; [exact H2|exact H3].
Qed.

(* package-level "never panics or hangs": the load returns for every bundle; it panics only when a file's
   front end does (the walker, or the converter on a list request) *)
Theorem load_package_total : forall walk b name,
  match load_package (front_fres walk) b name with
  | Ok _ => True
  | Panic _ => exists f, In f (all_files b) /\ forall out, front_end walk true (sf_input f) <> Ok out
  | _ => False
  end.
Proof.
  intros walk b name. pose proof (load_package_terminates (front_fres walk) b name) as Ht.
  pose proof (load_shape (front_fres walk) (S (length b)) b [] name) as Hs. unfold load_package in *.
  destruct (load (front_fres walk) (S (length b)) b [] name) as [es|c|s|]; try exact I; try contradiction.
  destruct Hs as [f [Hf Hp]]. exists f. split; [exact Hf|].
  intros out Ho. unfold front_fres in Hp. rewrite Ho in Hp. destruct out as [[] es|v lf]; discriminate.
Qed.

(* ---- the full statement and its refutation *)
(* "errors carry a position inside the offending file", for a package *)
Definition package_errors_positioned_statement : Prop :=
  forall walk, walker_returns walk -> walker_contract walk ->
  forall b name es, load_package (front_fres walk) b name = Ok es -> Forall (perr_inside b) es.

(* "a {\n}\n" *)
Definition fine_text : list N := [97;32;123;10;125;10]%N.
(* package 1 imports package 2, which no local package or dependency provides *)
Definition unknown_pkg_bundle : bundle := [(1%N, [mkSF 10%N fine_text [2%N]])].
(* packages 1 and 2 import each other *)
Definition cycle_bundle : bundle := [(1%N, [mkSF 10%N fine_text [2%N]]); (2%N, [mkSF 20%N fine_text [1%N]])].

Lemma unknown_package_unpositioned :
  load_package (front_fres demo_walk) unknown_pkg_bundle 1%N = Ok [mkPE ENoFiles None None].
Proof. vm_compute. reflexivity. Qed.
Lemma package_cycle_unpositioned :
  load_package (front_fres demo_walk) cycle_bundle 1%N = Ok [mkPE EPkgCycle None None].
Proof. vm_compute. reflexivity. Qed.

Theorem package_errors_positioned_refuted : ~ package_errors_positioned_statement.
Proof.
  intro H. pose proof (H demo_walk demo_walk_returns demo_walk_contract unknown_pkg_bundle 1%N _ unknown_package_unpositioned) as Hf.
  inversion Hf as [|e l He _]. destruct He as [f [sp [_ [_ [Hp _]]]]]. discriminate.
Qed.

(* ---- the import-order loader is one of the outcomes the order-free description allows *)
Definition kind_of (es : list perr) : N :=
  match es with
  | [] => 0
  | e :: _ => match pe_stage e with EPkgCycle => 1 | ENoFiles => 2 | _ => 3 end
  end%N.

Lemma load_kinds_shape : forall fuel b chain name,
  load_kinds fuel b chain name = [0%N] \/ Forall (fun k => N.eqb k 0 = false) (load_kinds fuel b chain name).
Proof.
  induction fuel as [|f IH]; intros b chain name; cbn [load_kinds]; [right; constructor|].
  destruct (mem_pkg name chain); [right; repeat constructor|].
  destruct (find_pkg name b) as [files|]; [|right; repeat constructor].
  set (ks := flat_map _ _).
  assert (Hks : Forall (fun k => N.eqb k 0 = false) ks).
  { apply Forall_forall. intros k Hk. unfold ks in Hk. apply in_flat_map in Hk. destruct Hk as [d [_ Hk]].
    apply filter_In in Hk. destruct Hk as [_ Hk]. apply negb_true_iff in Hk. exact Hk. }
  destruct ks; [left; reflexivity|right; exact Hks].
Qed.

Lemma first_early_fine files : first_early (fun _ => FRFine) files = None.
Proof. induction files; cbn; auto. Qed.
Lemma first_late_fine files : first_late (fun _ => FRFine) files = Ok [].
Proof. induction files; cbn; auto. Qed.

Theorem load_in_load_kinds : forall fuel b chain name es,
  load (fun _ => FRFine) fuel b chain name = Ok es -> In (kind_of es) (load_kinds fuel b chain name).
Proof.
  induction fuel as [|f IH]; intros b chain name es; cbn [load load_kinds]; [discriminate|].
  destruct (mem_pkg name chain); [intro H; injection H as <-; left; reflexivity|].
  destruct (find_pkg name b) as [files|]; [|intro H; injection H as <-; left; reflexivity].
  rewrite first_early_fine, first_late_fine.
  set (deps := filter _ _). clearbody deps.
  induction deps as [|d r IHd]; cbn [flat_map].
  - intro H. injection H as <-. left. reflexivity.
  - pose proof (IH b (name :: chain) d) as Hd. pose proof (load_kinds_shape f b (name :: chain) d) as Hsh.
    destruct (load (fun _ => FRFine) f b (name :: chain) d) as [[|e es']|c|s|] eqn:El; try discriminate.
    + (* this import loads: its outcome set is {0}, it contributes nothing *)
      specialize (Hd [] eq_refl). cbn [kind_of] in Hd.
      destruct Hsh as [Hsh|Hsh]; [|rewrite Forall_forall in Hsh; specialize (Hsh _ Hd); discriminate].
      rewrite Hsh. cbn [filter N.eqb negb app]. exact IHd.
    + intro H. injection H as <-. specialize (Hd (e :: es') eq_refl).
      assert (Hnz : N.eqb (kind_of (e :: es')) 0 = false) by (cbn; destruct (pe_stage e); reflexivity).
      assert (Hin : In (kind_of (e :: es')) (filter (fun k => negb (N.eqb k 0)) (load_kinds f b (name :: chain) d))).
      { apply filter_In. split; [exact Hd|]. rewrite Hnz. reflexivity. }
      destruct (filter (fun k => negb (N.eqb k 0)) (load_kinds f b (name :: chain) d) ++ _) eqn:Ea.
      * apply app_eq_nil in Ea. destruct Ea as [Ea _]. rewrite Ea in Hin. contradiction.
      * rewrite <- Ea. apply in_or_app. left. exact Hin.
Qed.

(* ---- the positive side: the loader adds no error of its own.  When every import names a local package of the
   bundle, the import relation is acyclic (a rank that decreases along imports) and every file passes its front
   end, loading returns the empty error list.  Together with the two refutation witnesses above: the loader's own
   errors are exactly "an import names no package" and "the imports form a cycle". *)
Definition acyclic_closed (b : bundle) (rank : pkgid -> nat) : Prop :=
  forall n files, find_pkg n b = Some files ->
    forall d, In d (flat_map sf_imports files) -> d <> n -> find_pkg d b <> None /\ (rank d < rank n)%nat.

Lemma dedupe_pkgs_In x l : In x (dedupe_pkgs l) -> In x l.
Proof.
  induction l as [|y r IH]; cbn [dedupe_pkgs]; [auto|].
  destruct (mem_pkg y r); [intro H; right; apply IH, H|intros [->|H]; [left; reflexivity|right; apply IH, H]].
Qed.

Section LoadSucceeds.
  Variable fres : sfile -> fileres.
  Variable b : bundle.
  Variable rank : pkgid -> nat.
  Hypothesis Hac : acyclic_closed b rank.
  Hypothesis Hfine : forall f, In f (all_files b) -> fres f = FRFine.

  Lemma first_early_all_fine files : incl files (all_files b) -> first_early fres files = None.
  Proof.
    induction files as [|f r IH]; intro Hi; cbn [first_early]; [reflexivity|].
    rewrite (Hfine f (Hi f (or_introl eq_refl))). apply IH. intros x Hx. apply Hi. right. exact Hx.
  Qed.
  Lemma first_late_all_fine files : incl files (all_files b) -> first_late fres files = Ok [].
  Proof.
    induction files as [|f r IH]; intro Hi; cbn [first_late]; [reflexivity|].
    rewrite (Hfine f (Hi f (or_introl eq_refl))). apply IH. intros x Hx. apply Hi. right. exact Hx.
  Qed.

  Theorem load_succeeds : forall fuel chain name,
    NoDup chain -> incl chain (map fst b) -> (length b < fuel + length chain)%nat ->
    find_pkg name b <> None -> (forall c, In c chain -> (rank name < rank c)%nat) ->
    load fres fuel b chain name = Ok [].
  Proof.
    induction fuel as [|f IH]; intros chain name Hnd Hinc Hlen Hf Hr.
    - exfalso. pose proof (NoDup_incl_length Hnd Hinc) as H. rewrite map_length in H. cbn in Hlen. lia.
    - cbn [load]. destruct (mem_pkg name chain) eqn:Em.
      { apply mem_pkg_In in Em. specialize (Hr name Em). lia. }
      destruct (find_pkg name b) as [files|] eqn:Ef; [|contradiction].
      destruct (find_pkg_In _ _ _ Ef) as [Hin Hfiles].
      rewrite (first_early_all_fine files Hfiles).
      assert (Hnd' : NoDup (name :: chain)).
      { constructor; [|exact Hnd]. intro H. apply mem_pkg_In in H. congruence. }
      assert (Hinc' : incl (name :: chain) (map fst b)).
      { intros x [<-|Hx]; [exact Hin|apply Hinc; exact Hx]. }
      assert (Hlen' : (length b < f + length (name :: chain))%nat) by (cbn; lia).
      assert (Hdeps : forall d, In d (filter (fun d => negb (N.eqb d name)) (dedupe_pkgs (flat_map sf_imports files))) ->
                find_pkg d b <> None /\ (rank d < rank name)%nat).
      { intros d Hd. apply filter_In in Hd. destruct Hd as [Hd Hne]. apply dedupe_pkgs_In in Hd.
        apply negb_true_iff, N.eqb_neq in Hne. exact (Hac name files Ef d Hd Hne). }
      set (deps := filter _ _) in *. clearbody deps.
      induction deps as [|d r IHd].
      + apply first_late_all_fine. exact Hfiles.
      + destruct (Hdeps d (or_introl eq_refl)) as [Hfd Hrd].
        rewrite (IH (name :: chain) d Hnd' Hinc' Hlen' Hfd).
        * apply IHd. intros x Hx. apply Hdeps. right. exact Hx.
        * intros c [<-|Hc]; [exact Hrd|specialize (Hr c Hc); lia].
  Qed.

  Corollary load_package_succeeds name : find_pkg name b <> None -> load_package fres b name = Ok [].
  Proof.
    intro Hf. unfold load_package. apply load_succeeds; [constructor|intros x []|cbn; lia|exact Hf|intros c []].
  Qed.
End LoadSucceeds.

(* with the front end of CmpbFront.v: a package of files the front end converts, with local acyclic imports, loads *)
Theorem package_of_accepted_files_loads : forall walk b rank name,
  acyclic_closed b rank ->
  (forall f, In f (all_files b) -> exists v lf, front_end walk true (sf_input f) = Ok (FEConverted v lf)) ->
  find_pkg name b <> None ->
  load_package (front_fres walk) b name = Ok [].
Proof.
  intros walk b rank name Hac Hfe Hf. apply (load_package_succeeds (front_fres walk) b rank Hac); [|exact Hf].
  intros f Hin. destruct (Hfe f Hin) as [v [lf E]]. unfold front_fres. rewrite E. reflexivity.
Qed.

(* non-vacuity: package 1 imports package 2 (and names itself, which resolveDependencies deletes); every file converts
   under the demo walker; the hypotheses hold and the package loads *)
Definition ok_bundle : bundle := [(1%N, [mkSF 10%N fine_text [2%N; 1%N]; mkSF 11%N fine_text []]); (2%N, [mkSF 20%N fine_text []])].
Lemma ok_bundle_acyclic : acyclic_closed ok_bundle (fun n => if N.eqb n 1 then 1%nat else 0%nat).
Proof.
  intros n files Hf d Hd Hne. cbn [ok_bundle find_pkg] in Hf.
  destruct (N.eqb n 1) eqn:E1.
  - apply N.eqb_eq in E1. subst n. inversion Hf; subst files. cbn in Hd.
    destruct Hd as [<-|[<-|[]]]; [|congruence]. split; [cbn; discriminate|cbn; auto].
  - destruct (N.eqb n 2) eqn:E2; [|discriminate]. inversion Hf; subst files. destruct Hd.
Qed.
Lemma ok_bundle_loads : load_package (front_fres demo_walk) ok_bundle 1%N = Ok [].
Proof.
  apply (package_of_accepted_files_loads demo_walk ok_bundle _ 1%N ok_bundle_acyclic); [|cbn; discriminate].
  intros f Hin. cbn in Hin. destruct Hin as [<-|[<-|[<-|[]]]]; eexists; eexists; vm_compute; reflexivity.
Qed.

(* CmpbPackageProofs.v — package loading for C07 (model/CmpbPackage.v): the loadPackage recursion terminates
   (the resolveBaton chain bounds it), what it returns is an error list from a known stage, front-end errors
   are positioned inside their file, loader errors (unknown package, import cycle) are positioned at the import
   statement of the importing file (fix 3f76693; before it they carried NO position and "every error carries
   a position" was refuted with two witnesses). *)
From Coq Require Import String List NArith ZArith Bool Arith Lia.
From J5V.lib Require Import Text Outcome.
From J5V.model Require Import BclLexer BclParser CmpbFields CmpbDecls CmpbFront CmpbPackage.
From J5V.proofs Require Import BclPosProofs BclParserProofs CmpbDeclsProofs CmpbFrontProofs.
Import ListNotations.
Local Open Scope bool_scope.

Lemma mem_pkg_In n l : mem_pkg n l = true <-> In n l.
Proof.
  unfold mem_pkg. rewrite existsb_exists. split.
  - intros [x [Hx E]]. apply N.eqb_eq in E. subst. exact Hx.
  - intro H. exists n. split; [exact H|apply N.eqb_refl].
Qed.
Lemma find_pkg_In n b fs : find_pkg n b = Some fs -> In n (map fst b) /\ incl fs (all_files b).
Proof.
  induction b as [|[m gs] r IH]; cbn; [discriminate|].
  destruct (N.eqb n m) eqn:E.
  - intro H. injection H as <-. apply N.eqb_eq in E. subst. split; [left; reflexivity|].
    unfold all_files; cbn. apply incl_appl, incl_refl.
  - intro H. destruct (IH H) as [H1 H2]. split; [right; exact H1|].
    unfold all_files in *; cbn. apply incl_appr. exact H2.
Qed.

Section Load.
  Variable fres : sfile -> fileres.

  (* ---- termination: the chain holds distinct local package names, so it cannot outgrow the bundle *)
  Lemma load_fuel_ok : forall fuel b chain name,
    NoDup chain -> incl chain (map fst b) -> length b < fuel + length chain ->
    load fres fuel b chain name <> OutOfFuel.
  Proof.
    induction fuel as [|f IH]; intros b chain name Hnd Hinc Hlen.
    - exfalso. pose proof (NoDup_incl_length Hnd Hinc) as H. rewrite map_length in H. cbn in Hlen. lia.
    - cbn [load]. destruct (mem_pkg name chain) eqn:Em; [discriminate|].
      destruct (find_pkg name b) as [files|] eqn:Ef; [|discriminate].
      destruct (first_early fres files); [discriminate|].
      destruct (find_pkg_In _ _ _ Ef) as [Hin _].
      assert (Hnd' : NoDup (name :: chain)).
      { constructor; [|exact Hnd]. intro H. apply mem_pkg_In in H. congruence. }
      assert (Hinc' : incl (name :: chain) (map fst b)).
      { intros x [<-|Hx]; [exact Hin|apply Hinc; exact Hx]. }
      assert (Hlen' : length b < f + length (name :: chain)) by (cbn; lia).
      set (deps := filter _ _). clearbody deps.
      induction deps as [|d r IHd].
      + destruct (first_late fres files) as [[|e es]|c|s|] eqn:El; try discriminate.
        clear -El. induction files as [|x xs IHx]; cbn in El; [discriminate|].
        destruct (fres x); try discriminate; auto.
      + pose proof (IH b (name :: chain) d Hnd' Hinc' Hlen') as Hd.
        destruct (load fres f b (name :: chain) d) as [[|e es]|c|s|]; try discriminate; [exact IHd|contradiction].
  Qed.

  Theorem load_package_terminates : forall b name, load_package fres b name <> OutOfFuel.
  Proof.
    intros b name. unfold load_package. apply load_fuel_ok; [constructor|intros x []|cbn; lia].
  Qed.

  (* ---- what comes back: Err never; a Panic only from a file whose conversion panics *)
  Lemma first_late_shape files : match first_late fres files with
    | Ok es => es = [] \/ exists f, In f files /\ fres f = FRLate es
    | Panic _ => exists f, In f files /\ fres f = FRPanic
    | _ => False end.
  Proof.
    induction files as [|x xs IH]; cbn; [left; reflexivity|].
    destruct (fres x) eqn:E.
    - destruct (first_late fres xs) as [es'|c|s|]; try contradiction.
      + destruct IH as [->|[f [Hf Ef]]]; [left; reflexivity|right; exists f; split; [right; exact Hf|exact Ef]].
      + destruct IH as [f [Hf Ef]]. exists f. split; [right; exact Hf|exact Ef].
    - right. exists x. split; [left; reflexivity|exact E].
    - exists x. split; [left; reflexivity|exact E].
    - destruct (first_late fres xs) as [es'|c|s|]; try contradiction.
      + destruct IH as [->|[f [Hf Ef]]]; [left; reflexivity|right; exists f; split; [right; exact Hf|exact Ef]].
      + destruct IH as [f [Hf Ef]]. exists f. split; [right; exact Hf|exact Ef].
  Qed.
  Lemma first_early_shape files es : first_early fres files = Some es -> exists f, In f files /\ fres f = FREarly es.
  Proof.
    induction files as [|x xs IH]; cbn; [discriminate|].
    destruct (fres x) eqn:E; try (intro H; destruct (IH H) as [f [Hf Ef]]; exists f; split; [right; exact Hf|exact Ef]).
    intro H. injection H as <-. exists x. split; [left; reflexivity|exact E].
  Qed.

  (* every error that comes back is a loader error (fresh: without position, as loadPackage itself returns it;
     located: at an import statement of a file of the bundle), or the error list of ONE file of the bundle *)
  Definition from_file (b : bundle) (es : list perr) : Prop :=
    exists f, In f (all_files b) /\ (fres f = FREarly es \/ fres f = FRLate es).
  Definition loader_stage (st : estage) : Prop := st = EPkgCycle \/ st = ENoFiles.
  Inductive load_res (b : bundle) : list perr -> Prop :=
  | LRnone : load_res b []
  | LRfresh st : loader_stage st -> load_res b [mkPE st None None]
  | LRlocated st f d sp : loader_stage st -> In f (all_files b) -> In (d, sp) (sf_imports f) ->
      load_res b [mkPE st (Some (sf_id f)) (Some sp)]
  | LRfile es : from_file b es -> load_res b es.

  (* the errors a file's front end reports all carry a position (true of front_fres by construction) *)
  Definition fres_positioned : Prop :=
    forall f es, fres f = FREarly es \/ fres f = FRLate es -> Forall (fun e => pe_pos e <> None) es.

  Lemma map_locate_positioned src es : Forall (fun e => pe_pos e <> None) es -> map (locate src) es = es.
  Proof.
    induction 1 as [|e es He _ IH]; cbn [map]; [reflexivity|]. rewrite IH. f_equal.
    unfold locate. destruct (pe_pos e); [reflexivity|contradiction].
  Qed.
  Lemma import_span_In d l sp : import_span d l = Some sp -> In (d, sp) l.
  Proof.
    induction l as [|[x s0] r IH]; cbn [import_span]; [discriminate|].
    destruct (N.eqb d x) eqn:E.
    - intro H. injection H as <-. apply N.eqb_eq in E. subst. left. reflexivity.
    - intro H. right. apply IH, H.
  Qed.
  Lemma dep_source_In d files fid sp : dep_source d files = Some (fid, sp) ->
    exists f, In f files /\ sf_id f = fid /\ In (d, sp) (sf_imports f).
  Proof.
    induction files as [|f r IH]; cbn [dep_source]; [discriminate|].
    destruct (import_span d (sf_imports f)) as [s0|] eqn:E.
    - intro H. injection H as <- <-. exists f. split; [left; reflexivity|]. split; [reflexivity|apply import_span_In, E].
    - intro H. destruct (IH H) as [g [Hg [Hi Hs]]]. exists g. split; [right; exact Hg|]. split; assumption.
  Qed.

  Lemma load_shape : fres_positioned -> forall fuel b chain name,
    match load fres fuel b chain name with
    | Ok es => load_res b es
    | Panic _ => exists f, In f (all_files b) /\ fres f = FRPanic
    | Err _ => False
    | OutOfFuel => True
    end.
  Proof.
    intro Hpos. induction fuel as [|f IH]; intros b chain name; cbn [load]; [exact I|].
    destruct (mem_pkg name chain); [apply LRfresh; left; reflexivity|].
    destruct (find_pkg name b) as [files|] eqn:Ef; [|apply LRfresh; right; reflexivity].
    destruct (find_pkg_In _ _ _ Ef) as [_ Hsub].
    destruct (first_early fres files) as [es|] eqn:Ee.
    { destruct (first_early_shape _ _ Ee) as [x [Hx Ex]]. apply LRfile. exists x. split; [apply Hsub; exact Hx|left; exact Ex]. }
    set (deps := filter _ _). clearbody deps.
    induction deps as [|d r IHd].
    - pose proof (first_late_shape files) as Hl.
      destruct (first_late fres files) as [es|c|s|]; try contradiction.
      + destruct es as [|e es]; [apply LRnone|].
        destruct Hl as [Hl|[x [Hx Ex]]]; [discriminate|].
        apply LRfile. exists x. split; [apply Hsub; exact Hx|right; exact Ex].
      + destruct Hl as [x [Hx Ex]]. exists x. split; [apply Hsub; exact Hx|exact Ex].
    - pose proof (IH b (name :: chain) d) as Hd.
      destruct (load fres f b (name :: chain) d) as [[|e es]|c|s|]; try exact Hd; [exact IHd|].
      (* a failing dependency: its error, located at the import unless it has a position *)
      inversion Hd as [|st Hst|st g d' sp Hst Hg Hi|es' Hff]; subst.
      + cbn [map]. unfold locate; cbn [pe_pos pe_stage].
        destruct (dep_source d files) as [[fid sp]|] eqn:Es; [|apply LRfresh; exact Hst].
        destruct (dep_source_In _ _ _ _ Es) as [g [Hg [<- Hi]]].
        eapply LRlocated; [exact Hst|apply Hsub; exact Hg|exact Hi].
      + cbn [map]. unfold locate; cbn [pe_pos]. eapply LRlocated; eassumption.
      + assert (Hp : Forall (fun e => pe_pos e <> None) (e :: es)).
        { destruct Hff as [x [_ Hx]]. exact (Hpos x _ Hx). }
        rewrite (map_locate_positioned _ _ Hp). apply LRfile. exact Hff.
  Qed.

  (* ---- since fix 3f76693: loading a package OF THE BUNDLE from the top returns positioned errors only.  One
     unfolding of [load] suffices: whatever a dependency returns is located at the import that names it *)
  Lemma dedupe_pkgs_In' x l : In x (dedupe_pkgs l) -> In x l.
  Proof.
    induction l as [|y r IH]; cbn [dedupe_pkgs]; [auto|].
    destruct (mem_pkg y r); [intro H; right; apply IH, H|intros [->|H]; [left; reflexivity|right; apply IH, H]].
  Qed.
  Lemma import_span_some d l : In d (map fst l) -> import_span d l <> None.
  Proof.
    induction l as [|[x s0] r IH]; cbn [map import_span fst]; [intros []|].
    destruct (N.eqb d x) eqn:E; [discriminate|].
    intros [H|H]; [subst; rewrite N.eqb_refl in E; discriminate|apply IH, H].
  Qed.
  Lemma dep_source_some d files : In d (flat_map sf_deps files) -> dep_source d files <> None.
  Proof.
    induction files as [|f r IH]; cbn [flat_map dep_source]; [intros []|].
    intro H. destruct (import_span d (sf_imports f)) eqn:E; [discriminate|].
    apply in_app_or in H. destruct H as [H|H]; [|apply IH, H].
    exfalso. exact (import_span_some d _ H E).
  Qed.
  Lemma locate_some_positioned fid sp es : Forall (fun e => pe_pos e <> None) (map (locate (Some (fid, sp))) es).
  Proof.
    apply Forall_forall. intros e He. apply in_map_iff in He. destruct He as [e0 [<- _]].
    unfold locate. destruct (pe_pos e0) eqn:E; [rewrite E; discriminate|cbn; discriminate].
  Qed.

  Lemma load_positioned : fres_positioned -> forall fuel b chain name es,
    mem_pkg name chain = false -> find_pkg name b <> None ->
    load fres fuel b chain name = Ok es -> Forall (fun e => pe_pos e <> None) es.
  Proof.
    intros Hpos fuel b chain name es Hm Hf. destruct fuel as [|f]; cbn [load]; [discriminate|].
    rewrite Hm. destruct (find_pkg name b) as [files|] eqn:Ef; [|contradiction].
    destruct (first_early fres files) as [es0|] eqn:Ee.
    { intro H. injection H as <-. destruct (first_early_shape _ _ Ee) as [x [_ Ex]]. apply (Hpos x). left. exact Ex. }
    assert (Hdeps : forall d, In d (filter (fun d => negb (N.eqb d name)) (dedupe_pkgs (flat_map sf_deps files))) ->
              dep_source d files <> None).
    { intros d Hd. apply filter_In in Hd. destruct Hd as [Hd _]. apply dedupe_pkgs_In' in Hd. apply dep_source_some, Hd. }
    set (deps := filter _ _) in *. clearbody deps.
    induction deps as [|d r IHd].
    - pose proof (first_late_shape files) as Hl.
      destruct (first_late fres files) as [es1|c|s|]; try discriminate.
      intro H. injection H as <-. destruct Hl as [->|[x [_ Ex]]]; [constructor|]. apply (Hpos x). right. exact Ex.
    - destruct (load fres f b (name :: chain) d) as [[|e es']|c|s|]; try discriminate.
      + apply IHd. intros x Hx. apply Hdeps. right. exact Hx.
      + destruct (dep_source d files) as [[fid sp]|] eqn:Es; [|exfalso; exact (Hdeps d (or_introl eq_refl) Es)].
        intro H. injection H as <-. exact (locate_some_positioned fid sp (e :: es')).
  Qed.
End Load.

(* ---- positions of the front-end errors (stage EFront) *)
Definition perr_inside (b : bundle) (e : perr) : Prop :=
  exists f sp, In f (all_files b) /\ pe_file e = Some (sf_id f) /\ pe_pos e = Some sp
               /\ span_inside (utf8_decode (sf_input f)) sp.

Lemma front_fres_positioned walk f es : walker_contract walk ->
  front_fres walk f = FREarly es \/ front_fres walk f = FRLate es ->
  es <> [] /\ Forall (fun e => pe_file e = Some (sf_id f) /\ exists sp, pe_pos e = Some sp /\ span_inside (utf8_decode (sf_input f)) sp) es.
Proof.
  intros Hc H. unfold front_fres in H.
  destruct (front_end walk true (sf_input f)) as [out|c|s|] eqn:Ef; try (destruct H; discriminate).
  destruct out as [st sps|v lf]; [|destruct H; discriminate].
  destruct (front_end_errors_positioned walk true (sf_input f) st sps Hc Ef) as [Hne Hall].
  assert (Hes : es = map (fun sp => mkPE (EFront st) (Some (sf_id f)) (Some sp)) sps).
  { destruct st; destruct H as [H|H]; try discriminate; injection H as <-; reflexivity. }
  subst es. split; [destruct sps; [contradiction|discriminate]|].
  apply Forall_forall. intros e He. apply in_map_iff in He. destruct He as [sp [<- Hsp]].
  rewrite Forall_forall in Hall. cbn. split; [reflexivity|]. exists sp. split; [reflexivity|apply Hall; exact Hsp].
Qed.

Lemma front_fres_is_positioned walk : fres_positioned (front_fres walk).
Proof.
  intros f es H. unfold front_fres in H.
  destruct (front_end walk true (sf_input f)) as [out|c|s|]; try (destruct H; discriminate).
  destruct out as [st sps|v lf]; [|destruct H; discriminate].
  assert (Hes : es = map (fun sp => mkPE (EFront st) (Some (sf_id f)) (Some sp)) sps).
  { destruct st; destruct H as [H|H]; try discriminate; injection H as <-; reflexivity. }
  subst es. apply Forall_forall. intros e He. apply in_map_iff in He. destruct He as [sp [<- _]]. cbn. discriminate.
Qed.

(* the hypothesis on the bundle: the span recorded for an import statement (SourceFile.source_locations, child
   "imports") joins two end points of nodes of the syntax tree of the file's text — the walker's position contract
   (walk_out_ok: forallb (span_from body) (spans t)) for that entry of the location tree.  The CPkgLoad
   correspondence evaluates it on the real location tree of every generated file *)
Definition import_located (f : sfile) (sp : span) : Prop :=
  exists p body, parse_file (sf_input f) true = Ok p /\ ptree p = Some body /\ span_from body sp = true.
Definition imports_located (b : bundle) : Prop :=
  forall f, In f (all_files b) -> forall d sp, In (d, sp) (sf_imports f) -> import_located f sp.

Lemma import_located_inside f sp : import_located f sp -> span_inside (utf8_decode (sf_input f)) sp.
Proof.
  intros [p [body [Hp [Hb Hs]]]]. unfold parse_file in Hp.
  destruct (parse_runes_positions true _ p Hp) as [_ Hn].
  eapply span_from_inside; [exact (Hn body Hb)|exact Hs].
Qed.

(* every error of loading a package of the bundle is positioned inside a file of the bundle: front-end errors inside
   their own file, the two loader errors at the import statement that names the failing package *)
Theorem load_errors_positioned : forall walk b name es, walker_contract walk -> imports_located b ->
  find_pkg name b <> None ->
  load_package (front_fres walk) b name = Ok es -> Forall (perr_inside b) es.
Proof.
  intros walk b name es Hc Hil Hf H. unfold load_package in H.
  pose proof (load_shape (front_fres walk) (front_fres_is_positioned walk) (S (length b)) b [] name) as Hs. rewrite H in Hs.
  pose proof (load_positioned (front_fres walk) (front_fres_is_positioned walk) _ b [] name es eq_refl Hf H) as Hp.
  inversion Hs as [|st Hst|st f d sp Hst Hin Hi|es' Hff]; subst.
  - constructor.
  - inversion Hp as [|e l He _]. cbn in He. contradiction.
  - constructor; [|constructor]. exists f, sp. split; [exact Hin|]. split; [reflexivity|]. split; [reflexivity|].
    apply import_located_inside. exact (Hil f Hin d sp Hi).
  - destruct Hff as [f [Hin Hfr]].
    destruct (front_fres_positioned walk f es Hc Hfr) as [_ Hall].
    eapply Forall_impl; [|exact Hall]. intros e [H1 [sp [H2 H3]]]. exists f, sp.
    split; [exact Hin|]. split; [exact H1|]. split; [exact H2|exact H3].
Qed.

(* package-level "never panics or hangs": the load returns for every bundle; it panics only when a file's
   front end does (the walker, or the converter on a list request) *)
Theorem load_package_total : forall walk b name,
  match load_package (front_fres walk) b name with
  | Ok _ => True
  | Panic _ => exists f, In f (all_files b) /\ forall out, front_end walk true (sf_input f) <> Ok out
  | _ => False
  end.
Proof.
  intros walk b name. pose proof (load_package_terminates (front_fres walk) b name) as Ht.
  pose proof (load_shape (front_fres walk) (front_fres_is_positioned walk) (S (length b)) b [] name) as Hs. unfold load_package in *.
  destruct (load (front_fres walk) (S (length b)) b [] name) as [es|c|s|]; try exact I; try contradiction.
  destruct Hs as [f [Hf Hp]]. exists f. split; [exact Hf|].
  intros out Ho. unfold front_fres in Hp. rewrite Ho in Hp. destruct out as [[] es|v lf]; discriminate.
Qed.

(* ---- the full statement (proved since fix 3f76693) *)
(* "errors carry a position inside the offending file", for a package of the bundle *)
Definition package_errors_positioned_statement : Prop :=
  forall walk, walker_returns walk -> walker_contract walk ->
  forall b name es, imports_located b -> find_pkg name b <> None ->
  load_package (front_fres walk) b name = Ok es -> Forall (perr_inside b) es.
Theorem package_errors_positioned : package_errors_positioned_statement.
Proof. intros walk _ Hc b name es Hil Hf H. exact (load_errors_positioned walk b name es Hc Hil Hf H). Qed.

(* "a {\n}\n" : the import spans of the witnesses are the header of that block, (0,0)-(0,2) *)
Definition fine_text : list N := [97;32;123;10;125;10]%N.
Definition fine_span : span := ((0, 0), (0, 2))%Z.
(* package 1 imports package 2, which no local package or dependency provides *)
Definition unknown_pkg_bundle : bundle := [(1%N, [mkSF 10%N fine_text [(2%N, fine_span)]])].
(* packages 1 and 2 import each other *)
Definition cycle_bundle : bundle :=
  [(1%N, [mkSF 10%N fine_text [(2%N, fine_span)]]); (2%N, [mkSF 20%N fine_text [(1%N, fine_span)]])].

(* the two former refutation witnesses: the loader errors now sit at the import statement — of the importing file
   for an unknown package, of the file that closes the cycle for an import cycle *)
Lemma unknown_package_positioned :
  load_package (front_fres demo_walk) unknown_pkg_bundle 1%N = Ok [mkPE ENoFiles (Some 10%N) (Some fine_span)].
Proof. vm_compute. reflexivity. Qed.
Lemma package_cycle_positioned :
  load_package (front_fres demo_walk) cycle_bundle 1%N = Ok [mkPE EPkgCycle (Some 20%N) (Some fine_span)].
Proof. vm_compute. reflexivity. Qed.
Lemma fine_span_located id imps : import_located (mkSF id fine_text imps) fine_span.
Proof.
  unfold import_located. cbn [sf_input].
  destruct (parse_file fine_text true) as [p|c|s|] eqn:Hp; try (vm_compute in Hp; discriminate).
  destruct (ptree p) as [body|] eqn:Hb.
  - exists p, body. split; [reflexivity|]. split; [exact Hb|].
    revert Hb. vm_compute in Hp. injection Hp as <-. intro Hb. vm_compute in Hb. injection Hb as <-. vm_compute. reflexivity.
  - exfalso. vm_compute in Hp. injection Hp as <-. vm_compute in Hb. discriminate.
Qed.
Lemma witnesses_located : imports_located unknown_pkg_bundle /\ imports_located cycle_bundle.
Proof.
  split; intros f Hf d sp Hi; cbn in Hf.
  - destruct Hf as [<-|[]]. cbn in Hi. destruct Hi as [Hi|[]]. injection Hi as _ <-. apply fine_span_located.
  - destruct Hf as [<-|[<-|[]]]; cbn in Hi; destruct Hi as [Hi|[]]; injection Hi as _ <-; apply fine_span_located.
Qed.
(* the unpositioned form survives only where no file of the bundle is involved: compiling a package NOBODY provides *)
Lemma absent_package_unpositioned :
  load_package (front_fres demo_walk) unknown_pkg_bundle 2%N = Ok [mkPE ENoFiles None None].
Proof. vm_compute. reflexivity. Qed.

(* ---- the import-order loader is one of the outcomes the order-free description allows *)
Definition kind_of (es : list perr) : lkind :=
  match es with
  | [] => (0%N, None)
  | e :: _ => (match pe_stage e with EPkgCycle => 1 | ENoFiles => 2 | _ => 3 end%N,
               match pe_pos e with
               | Some sp => Some (match pe_file e with Some f => f | None => 0%N end, sp)
               | None => None
               end)
  end.

Lemma locate_kind_fst src k : fst (locate_kind src k) = fst k.
Proof. unfold locate_kind. destruct (snd k); reflexivity. Qed.
Lemma kind_of_locate src e l l' : kind_of (locate src e :: l) = locate_kind src (kind_of (e :: l')).
Proof.
  cbn [kind_of]. unfold locate, locate_kind. cbn [snd fst].
  destruct (pe_pos e) as [sp|] eqn:Ep.
  - rewrite Ep. reflexivity.
  - destruct src as [[fid sp]|]; cbn [pe_stage pe_pos pe_file]; [reflexivity|rewrite Ep; reflexivity].
Qed.

Lemma load_kinds_shape : forall fuel b chain name,
  load_kinds fuel b chain name = [(0%N, None)] \/ Forall (fun k => N.eqb (fst k) 0 = false) (load_kinds fuel b chain name).
Proof.
  induction fuel as [|f IH]; intros b chain name; cbn [load_kinds]; [right; constructor|].
  destruct (mem_pkg name chain); [right; repeat constructor|].
  destruct (find_pkg name b) as [files|]; [|right; repeat constructor].
  set (ks := flat_map _ _).
  assert (Hks : Forall (fun k => N.eqb (fst k) 0 = false) ks).
  { apply Forall_forall. intros k Hk. unfold ks in Hk. apply in_flat_map in Hk. destruct Hk as [d [_ Hk]].
    apply in_map_iff in Hk. destruct Hk as [k0 [<- Hk]]. rewrite locate_kind_fst.
    apply filter_In in Hk. destruct Hk as [_ Hk]. apply negb_true_iff in Hk. exact Hk. }
  destruct ks; [left; reflexivity|right; exact Hks].
Qed.

Lemma first_early_fine files : first_early (fun _ => FRFine) files = None.
Proof. induction files; cbn; auto. Qed.
Lemma first_late_fine files : first_late (fun _ => FRFine) files = Ok [].
Proof. induction files; cbn; auto. Qed.

Theorem load_in_load_kinds : forall fuel b chain name es,
  load (fun _ => FRFine) fuel b chain name = Ok es -> In (kind_of es) (load_kinds fuel b chain name).
Proof.
  induction fuel as [|f IH]; intros b chain name es; cbn [load load_kinds]; [discriminate|].
  destruct (mem_pkg name chain); [intro H; injection H as <-; left; reflexivity|].
  destruct (find_pkg name b) as [files|]; [|intro H; injection H as <-; left; reflexivity].
  rewrite first_early_fine, first_late_fine.
  set (deps := filter _ _). clearbody deps.
  induction deps as [|d r IHd]; cbn [flat_map].
  - intro H. injection H as <-. left. reflexivity.
  - pose proof (IH b (name :: chain) d) as Hd. pose proof (load_kinds_shape f b (name :: chain) d) as Hsh.
    destruct (load (fun _ => FRFine) f b (name :: chain) d) as [[|e es']|c|s|] eqn:El; try discriminate.
    + (* this import loads: its outcome set is {0}, it contributes nothing *)
      specialize (Hd [] eq_refl). cbn [kind_of] in Hd.
      destruct Hsh as [Hsh|Hsh]; [|rewrite Forall_forall in Hsh; specialize (Hsh _ Hd); discriminate].
      rewrite Hsh. cbn [filter fst N.eqb negb map app]. exact IHd.
    + intro H. injection H as <-. specialize (Hd (e :: es') eq_refl).
      cbn [map]. rewrite (kind_of_locate _ e _ es').
      assert (Hnz : N.eqb (fst (kind_of (e :: es'))) 0 = false) by (cbn; destruct (pe_stage e); reflexivity).
      set (src := dep_source d files).
      assert (Hin : In (locate_kind src (kind_of (e :: es')))
                (map (locate_kind src) (filter (fun k => negb (N.eqb (fst k) 0)) (load_kinds f b (name :: chain) d)))).
      { apply in_map. apply filter_In. split; [exact Hd|]. rewrite Hnz. reflexivity. }
      destruct (map (locate_kind src) (filter (fun k => negb (N.eqb (fst k) 0)) (load_kinds f b (name :: chain) d)) ++ _) eqn:Ea.
      * apply app_eq_nil in Ea. destruct Ea as [Ea _]. rewrite Ea in Hin. contradiction.
      * rewrite <- Ea. apply in_or_app. left. exact Hin.
Qed.

(* ---- the positive side: the loader adds no error of its own.  When every import names a local package of the
   bundle, the import relation is acyclic (a rank that decreases along imports) and every file passes its front
   end, loading returns the empty error list.  Together with the two refutation witnesses above: the loader's own
   errors are exactly "an import names no package" and "the imports form a cycle". *)
Definition acyclic_closed (b : bundle) (rank : pkgid -> nat) : Prop :=
  forall n files, find_pkg n b = Some files ->
    forall d, In d (flat_map sf_deps files) -> d <> n -> find_pkg d b <> None /\ (rank d < rank n)%nat.

Lemma dedupe_pkgs_In x l : In x (dedupe_pkgs l) -> In x l.
Proof.
  induction l as [|y r IH]; cbn [dedupe_pkgs]; [auto|].
  destruct (mem_pkg y r); [intro H; right; apply IH, H|intros [->|H]; [left; reflexivity|right; apply IH, H]].
Qed.

Section LoadSucceeds.
  Variable fres : sfile -> fileres.
  Variable b : bundle.
  Variable rank : pkgid -> nat.
  Hypothesis Hac : acyclic_closed b rank.
  Hypothesis Hfine : forall f, In f (all_files b) -> fres f = FRFine.

  Lemma first_early_all_fine files : incl files (all_files b) -> first_early fres files = None.
  Proof.
    induction files as [|f r IH]; intro Hi; cbn [first_early]; [reflexivity|].
    rewrite (Hfine f (Hi f (or_introl eq_refl))). apply IH. intros x Hx. apply Hi. right. exact Hx.
  Qed.
  Lemma first_late_all_fine files : incl files (all_files b) -> first_late fres files = Ok [].
  Proof.
    induction files as [|f r IH]; intro Hi; cbn [first_late]; [reflexivity|].
    rewrite (Hfine f (Hi f (or_introl eq_refl))). apply IH. intros x Hx. apply Hi. right. exact Hx.
  Qed.

  Theorem load_succeeds : forall fuel chain name,
    NoDup chain -> incl chain (map fst b) -> (length b < fuel + length chain)%nat ->
    find_pkg name b <> None -> (forall c, In c chain -> (rank name < rank c)%nat) ->
    load fres fuel b chain name = Ok [].
  Proof.
    induction fuel as [|f IH]; intros chain name Hnd Hinc Hlen Hf Hr.
    - exfalso. pose proof (NoDup_incl_length Hnd Hinc) as H. rewrite map_length in H. cbn in Hlen. lia.
    - cbn [load]. destruct (mem_pkg name chain) eqn:Em.
      { apply mem_pkg_In in Em. specialize (Hr name Em). lia. }
      destruct (find_pkg name b) as [files|] eqn:Ef; [|contradiction].
      destruct (find_pkg_In _ _ _ Ef) as [Hin Hfiles].
      rewrite (first_early_all_fine files Hfiles).
      assert (Hnd' : NoDup (name :: chain)).
      { constructor; [|exact Hnd]. intro H. apply mem_pkg_In in H. congruence. }
      assert (Hinc' : incl (name :: chain) (map fst b)).
      { intros x [<-|Hx]; [exact Hin|apply Hinc; exact Hx]. }
      assert (Hlen' : (length b < f + length (name :: chain))%nat) by (cbn; lia).
      assert (Hdeps : forall d, In d (filter (fun d => negb (N.eqb d name)) (dedupe_pkgs (flat_map sf_deps files))) ->
                find_pkg d b <> None /\ (rank d < rank name)%nat).
      { intros d Hd. apply filter_In in Hd. destruct Hd as [Hd Hne]. apply dedupe_pkgs_In in Hd.
        apply negb_true_iff, N.eqb_neq in Hne. exact (Hac name files Ef d Hd Hne). }
      set (deps := filter _ _) in *. clearbody deps.
      induction deps as [|d r IHd].
      + apply first_late_all_fine. exact Hfiles.
      + destruct (Hdeps d (or_introl eq_refl)) as [Hfd Hrd].
        rewrite (IH (name :: chain) d Hnd' Hinc' Hlen' Hfd).
        * apply IHd. intros x Hx. apply Hdeps. right. exact Hx.
        * intros c [<-|Hc]; [exact Hrd|specialize (Hr c Hc); lia].
  Qed.

  Corollary load_package_succeeds name : find_pkg name b <> None -> load_package fres b name = Ok [].
  Proof.
    intro Hf. unfold load_package. apply load_succeeds; [constructor|intros x []|cbn; lia|exact Hf|intros c []].
  Qed.
End LoadSucceeds.

(* with the front end of CmpbFront.v: a package of files the front end converts, with local acyclic imports, loads *)
Theorem package_of_accepted_files_loads : forall walk b rank name,
  acyclic_closed b rank ->
  (forall f, In f (all_files b) -> exists v lf, front_end walk true (sf_input f) = Ok (FEConverted v lf)) ->
  find_pkg name b <> None ->
  load_package (front_fres walk) b name = Ok [].
Proof.
  intros walk b rank name Hac Hfe Hf. apply (load_package_succeeds (front_fres walk) b rank Hac); [|exact Hf].
  intros f Hin. destruct (Hfe f Hin) as [v [lf E]]. unfold front_fres. rewrite E. reflexivity.
Qed.

(* non-vacuity: package 1 imports package 2 (and names itself, which resolveDependencies deletes); every file converts
   under the demo walker; the hypotheses hold and the package loads *)
Definition ok_bundle : bundle :=
  [(1%N, [mkSF 10%N fine_text [(2%N, fine_span); (1%N, fine_span)]; mkSF 11%N fine_text []]); (2%N, [mkSF 20%N fine_text []])].
Lemma ok_bundle_acyclic : acyclic_closed ok_bundle (fun n => if N.eqb n 1 then 1%nat else 0%nat).
Proof.
  intros n files Hf d Hd Hne. cbn [ok_bundle find_pkg] in Hf.
  destruct (N.eqb n 1) eqn:E1.
  - apply N.eqb_eq in E1. subst n. inversion Hf; subst files. cbn in Hd.
    destruct Hd as [<-|[<-|[]]]; [|congruence]. split; [cbn; discriminate|cbn; auto].
  - destruct (N.eqb n 2) eqn:E2; [|discriminate]. inversion Hf; subst files. destruct Hd.
Qed.
Lemma ok_bundle_loads : load_package (front_fres demo_walk) ok_bundle 1%N = Ok [].
Proof.
  apply (package_of_accepted_files_loads demo_walk ok_bundle _ 1%N ok_bundle_acyclic); [|cbn; discriminate].
  intros f Hin. cbn in Hin. destruct Hin as [<-|[<-|[<-|[]]]]; eexists; eexists; vm_compute; reflexivity.
Qed.

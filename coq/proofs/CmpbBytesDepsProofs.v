(* CmpbBytesDepsProofs.v — the Dependency list inside the descriptors of the concrete-output theorems.
   cmpa's converter model builds fl_deps with its own ensureImport model (J5sConvert.deps_of: insert_dep into a sorted
   duplicate-free list, skipping the file itself); C14's order model has ensure_all (dedupe, append, sort.Strings), which
   C14's correspondence (CImportsIso) compares with the real Dependency lists.  They are the same function, so the
   Dependency list of every descriptor cv_file returns depends only on the SET of files ensureImport was called with. *)
From Coq Require Import List NArith Bool Lia ZifyN ZifyBool Permutation Sorted.
From J5V.model Require Import J5sAst J5sConvert CmpbOrder.
From J5V.proofs Require Import CmpbOrderProofs.
Import ListNotations.
Local Open Scope N_scope.

Lemma str_eqb_beqb a : forall c, str_eqb a c = beqb a c.
Proof. induction a as [|x r IH]; intros [|y s]; cbn [str_eqb beqb]; try reflexivity. all: rewrite IH; reflexivity. Qed.
Lemma str_ltb_bleb a : forall c, str_ltb a c = negb (bleb c a).
Proof.
  induction a as [|x r IH]; intros [|y s]; cbn [str_ltb bleb negb]; try reflexivity.
  destruct (x <? y) eqn:E1; destruct (y <? x) eqn:E2; try reflexivity; try lia. all: apply IH.
Qed.

Lemma insert_dep_spec x : forall l, strict_sorted l ->
  strict_sorted (insert_dep x l) /\ (forall z, In z (insert_dep x l) <-> In z l \/ z = x).
Proof.
  induction l as [|y r IH]; intros [S N].
  - cbn [insert_dep]. split; [split; [constructor; constructor|constructor; [intros []|constructor]]|].
    intro z. cbn [In]. split; [intros [<-|[]]; right; reflexivity|intros [[]| ->]; left; reflexivity].
  - inversion S as [|? ? Sr Hall]; inversion N as [|? ? Hny Nr]; subst. cbn [insert_dep].
    rewrite str_eqb_beqb. destruct (beqb x y) eqn:E.
    + apply beqb_eq in E. subst y. split; [split; assumption|]. intro z. split; [auto|intros [H| ->]; [exact H|left; reflexivity]].
    + rewrite str_ltb_bleb. rewrite Forall_forall in Hall. destruct (bleb y x) eqn:B; cbn [negb].
      * destruct (IH (conj Sr Nr)) as [[S' N'] I']. split; [split|].
        -- constructor; [exact S'|]. rewrite Forall_forall. intros z Hz. apply I' in Hz.
           destruct Hz as [Hz| ->]; [apply Hall, Hz|exact B].
        -- constructor; [|exact N']. intro Hy. apply I' in Hy.
           destruct Hy as [Hy| ->]; [apply Hny, Hy|rewrite beqb_refl in E; discriminate].
        -- intro z. cbn [In]. rewrite I'. tauto.
      * assert (Hxy : bleb x y = true) by (destruct (bleb_total x y) as [H|H]; [exact H|congruence]).
        split; [split|].
        -- constructor; [constructor; [exact Sr|rewrite Forall_forall; exact Hall]|]. constructor; [exact Hxy|].
           rewrite Forall_forall. intros z Hz. exact (bleb_trans x y z Hxy (Hall z Hz)).
        -- constructor; [|constructor; assumption]. intros [->|Hx]; [rewrite beqb_refl in E; discriminate|].
           pose proof (Hall x Hx) as Hyx. unfold le in Hyx. congruence.
        -- intro z. cbn [In]. split; [intros [<-|[<-|H]]; auto|intros [[<-|H]| ->]; auto].
Qed.

Lemma deps_of_fold self imps : forall acc, strict_sorted acc ->
  strict_sorted (fold_left (fun acc i => if str_eqb i self then acc else insert_dep i acc) imps acc)
  /\ (forall z, In z (fold_left (fun acc i => if str_eqb i self then acc else insert_dep i acc) imps acc)
                <-> In z acc \/ (In z imps /\ z <> self)).
Proof.
  induction imps as [|i r IH]; intros acc Hs; cbn [fold_left].
  - split; [exact Hs|]. intro z. cbn [In]. tauto.
  - rewrite str_eqb_beqb. destruct (beqb i self) eqn:E.
    + apply beqb_eq in E. subst i. destruct (IH acc Hs) as [A B]. split; [exact A|]. intro z. rewrite B. cbn [In].
      split; [intros [H|[H1 H2]]; auto|intros [H|[[<-|H1] H2]]; auto; contradiction].
    + apply beqb_neq in E. destruct (insert_dep_spec i acc Hs) as [A B]. destruct (IH _ A) as [A' B'].
      split; [exact A'|]. intro z. rewrite B', B. cbn [In].
      split; [intros [[H| ->]|[H1 H2]]; auto|intros [H|[[<-|H1] H2]]; auto].
Qed.

(* cmpa's Dependency list IS C14's ensure_all of the calls other than the file itself *)
Theorem deps_of_is_ensure_all self imps :
  deps_of self imps = ensure_all (filter (fun i => negb (beqb i self)) imps).
Proof.
  unfold deps_of. destruct (deps_of_fold self imps [] strict_sorted_nil) as [S I].
  destruct (ensure_fold_spec (filter (fun i => negb (beqb i self)) imps) [] strict_sorted_nil) as [S' I'].
  apply strict_sorted_ext; [exact S|exact S'|]. intro z. unfold ensure_all. rewrite I, I', filter_In. cbn [In].
  split; [intros [[]|[H1 H2]]; right; split; [exact H1|apply negb_true_iff, beqb_neq; exact H2]
         |intros [[]|[H1 H2]]; right; split; [exact H1|apply beqb_neq, negb_true_iff; exact H2]].
Qed.

(* ... hence a function of the SET of imports: any order of the ensureImport calls, any repetitions *)
Corollary deps_of_set_invariant self i1 i2 : (forall x, In x i1 <-> In x i2) -> deps_of self i1 = deps_of self i2.
Proof.
  intro H. rewrite !deps_of_is_ensure_all. apply ensure_all_set_invariant. intro x. rewrite !filter_In, H. tauto.
Qed.

(* CodecEncInner.v — the premise "the inner encoding of an Any payload is compact JSON" (inner_ok) is an
   instance of the theorem it is a premise of: when the inner encoding is the encoder itself, run on
   the payload message of a registered type (resolver + proto.Unmarshal abstract), nested to any
   depth, its successful outputs are compact prints. *)
From Coq Require Import String List NArith ZArith Bool Lia.
From J5V.lib Require Import Outcome Json JsonPrint.
From J5V.model Require Import CodecTypes CodecEnc CodecEncSpec.
From J5V.proofs Require Import CodecEncProofs CodecEncEmbed.
Import ListNotations.
Local Open Scope N_scope.

Section Inner.
  Variable fmt_float : bool -> N -> bytes.
  Hypothesis Hfloat : float_text_ok fmt_float.
  (* the type resolver: a type name gives the environment and root schema of the payload type *)
  Variable reg : bytes -> option (env * bytes).
  (* proto.Unmarshal of the payload bytes into that type *)
  Variable unmarshal : bytes -> bytes -> option msg.

  (* Codec.encode of the payload, Any values inside it encoded the same way, at most n levels *)
  Fixpoint inner_n (n : nat) (tn pb : bytes) : outcome bytes :=
    match n with
    | O => Err "any nesting"
    | S k =>
      match reg tn, unmarshal tn pb with
      | Some (e, root), Some m => encode fmt_float (inner_n k) e root m
      | _, _ => Err "unknown type or unreadable payload"
      end
    end.

  Hypothesis Hreg_flat : forall tn e root, reg tn = Some (e, root) -> oneofs_flat e.
  (* the stored j5_json texts inside payload messages are compact JSON *)
  Hypothesis Hpayload_raw : forall tn pb e root m, reg tn = Some (e, root) -> unmarshal tn pb = Some m ->
    raw_root_gen e compact_json root m.

  Theorem inner_n_ok : forall n, inner_ok (inner_n n).
  Proof.
    induction n as [|k IH]; intros tn pb t H; cbn [inner_n] in H; [discriminate|].
    destruct (reg tn) as [[e root]|] eqn:Er; [|discriminate].
    destruct (unmarshal tn pb) as [m|] eqn:Eu; [|discriminate].
    destruct (encode_tree fmt_float (inner_n k) e Hfloat IH (Hreg_flat _ _ _ Er) root m t H
                (Hpayload_raw _ _ _ _ _ Er Eu)) as (J & Hw & -> & _).
    exists J. split; [exact Hw|reflexivity].
  Qed.

  (* Without any premise on the payload messages: the inner encoding is a JSON text, and its tree
     satisfies the wire format of the payload type for the payload message (so the "value" member of
     an Any whose payload is stored as proto bytes is the J5 JSON of that message, to any depth) *)
  Theorem inner_n_wire : forall n tn pb t, inner_n n tn pb = Ok t ->
    exists e root pm J, reg tn = Some (e, root) /\ unmarshal tn pb = Some pm /\
      strict_parse t = Some J /\ wire_format fmt_float e root pm J.
  Proof.
    induction n as [|k IH]; intros tn pb t H; cbn [inner_n] in H; [discriminate|].
    destruct (reg tn) as [[e root]|] eqn:Er; [|discriminate].
    destruct (unmarshal tn pb) as [pm|] eqn:Eu; [|discriminate].
    assert (Hk : forall tn' pb' t', inner_n k tn' pb' = Ok t' -> json_text t').
    { intros tn' pb' t' H'. destruct (IH _ _ _ H') as (_ & _ & _ & J' & _ & _ & HJ' & _). exists J'. exact HJ'. }
    destruct (encode_wellformed_full fmt_float (inner_n k) e Hfloat Hk (Hreg_flat _ _ _ Er) root pm t H) as (J & HJ & Hw).
    exists e, root, pm, J. repeat split; assumption.
  Qed.

  Corollary inner_n_json : forall n tn pb t, inner_n n tn pb = Ok t -> json_text t.
  Proof. intros n tn pb t H. destruct (inner_n_wire n tn pb t H) as (_ & _ & _ & J & _ & _ & HJ & _). exists J. exact HJ. Qed.

  (* C08 with the inner encoding being the encoder itself: no premise about any_inner is left *)
  Theorem encode_wellformed_inner n env root m txt : oneofs_flat env ->
    encode fmt_float (inner_n n) env root m = Ok txt ->
    exists J, strict_parse txt = Some J /\ wire_format fmt_float env root m J.
  Proof.
    intros Hflat H. exact (encode_wellformed_full fmt_float (inner_n n) env Hfloat (inner_n_json n) Hflat root m txt H).
  Qed.
End Inner.

(* J5sStrcaseProofs.v — the C02 contract instantiated with the byte-exact strcase functions
   (lib/Strcase.v) and the facts proved about them in proofs/StrcaseProofs.v (builder ent):
   what the general theorems (for every snake / camel / screaming) say once the real
   conversions are put in, for names of the documented shape (lowerCamel with digits:
   StrcaseProofs.lower_camel_d; UpperCamel with digits: upper_word_d). *)
From Coq Require Import String List NArith Bool Lia.
From J5V.lib Require Import Outcome Corr Strcase.
From J5V.model Require Import J5sAst Desc J5sWalk J5sLink J5sConvert J5sContract J5sValid J5sCorr.
From J5V.proofs Require Import StrcaseProofs J5sProofs J5sContractProofs.
Import ListNotations.
Local Open Scope N_scope.

(* every property name is lowerCamel (digits allowed: address2Line, fooB2) *)
Definition names_lcd (ps : list property) : bool := forallb (fun p => lower_camel_d (prop_name p)) ps.

(* ------------------------------------------------------------------ JSON name = protoc's default *)
(* protoc derives the JSON name of a field from its proto name by lowerCamel; the compiler
   writes the declared name.  For lowerCamel names the two agree: to_lower_camel (to_snake n) = n *)
Theorem fields_json_default io first ps fs :
  fields_ok to_snake io first ps fs -> names_lcd ps = true ->
  forall i df, nth_error fs i = Some df ->
    exists p, nth_error ps i = Some p /\ f_name df = to_snake (prop_name p) /\
              f_json df = prop_name p /\ to_lower_camel (f_name df) = f_json df.
Proof.
  intros [Hl Hn] Hc i df Hi.
  destruct (nth_error ps i) as [p|] eqn:Ep.
  - destruct (Hn i p Ep) as (df' & Hf & Hd). rewrite Hi in Hf. inversion Hf. subst df'.
    destruct Hd as (H1 & H2 & _). exists p. repeat split; try assumption.
    rewrite H1, H2. apply to_lower_camel_to_snake_d.
    unfold names_lcd in Hc. rewrite forallb_forall in Hc. apply Hc. eapply nth_error_In. exact Ep.
  - exfalso. apply nth_error_None in Ep. assert (i < length fs)%nat by (apply nth_error_Some; congruence). lia.
Qed.

(* ------------------------------------------------------------------ distinct declared names suffice *)
Lemma in_map_snake_inv l x :
  forallb lower_camel_d l = true -> lower_camel_d x = true -> In (to_snake x) (map to_snake l) -> In x l.
Proof.
  intros Hl Hx Hin. apply in_map_iff in Hin. destruct Hin as (y & Hy & Hiny).
  rewrite forallb_forall in Hl.
  rewrite (to_snake_injective_lower_camel_d x y Hx (Hl y Hiny) (eq_sym Hy)). exact Hiny.
Qed.

Lemma existsb_str_in x l : existsb (str_eqb x) l = true <-> In x l.
Proof.
  rewrite existsb_exists. split.
  - intros (y & Hy & He). apply str_eqb_eq in He. subst. exact Hy.
  - intros H. exists x. split; [exact H|apply str_eqb_refl].
Qed.

(* ToSnake is injective on lowerCamel names: sibling properties with distinct declared (JSON)
   names get distinct proto field names - the first clause of J5sValid.sibling_ok follows from
   the second for names of the documented shape *)
Theorem distinct_snake_of_distinct l :
  forallb lower_camel_d l = true -> distinct l = true -> distinct (map to_snake l) = true.
Proof.
  induction l as [|x r IH]; intros Hc Hd; [reflexivity|].
  cbn [forallb] in Hc. apply andb_true_iff in Hc. destruct Hc as [Hx Hr].
  cbn [distinct map] in *. apply andb_true_iff in Hd. destruct Hd as [Hn Hd].
  apply andb_true_iff. split; [|apply IH; assumption].
  apply negb_true_iff. apply negb_true_iff in Hn.
  destruct (existsb (str_eqb (to_snake x)) (map to_snake r)) eqn:E; [|reflexivity].
  apply existsb_str_in in E. apply (in_map_snake_inv r x Hr Hx) in E.
  apply existsb_str_in in E. congruence.
Qed.

Corollary sibling_proto_names_distinct ps :
  names_lcd (props_list ps) = true ->
  distinct (map prop_name (props_list ps)) = true ->
  distinct (map (fun p => to_snake (prop_name p)) (props_list ps)) = true.
Proof.
  intros Hc Hd. rewrite <- (map_map prop_name to_snake).
  apply distinct_snake_of_distinct; [|exact Hd].
  unfold names_lcd in Hc. rewrite forallb_forall in *. intros x Hx.
  apply in_map_iff in Hx. destruct Hx as (p & <- & Hp). apply Hc. exact Hp.
Qed.

(* ------------------------------------------------------------------ enum prefix *)
(* the default prefix of an enum: SCREAMING_SNAKE of its name = the upper-cased snake name, "_" *)
Theorem enum_default_prefix name e :
  e_prefix e = [] -> enum_pfx to_screaming_snake name e = map to_upper (to_snake name) ++ b "_".
Proof. intros H. unfold enum_pfx. rewrite H. rewrite to_screaming_snake_upper. reflexivity. Qed.

(* ------------------------------------------------------------------ type names survive the round trip *)
(* a declared type name of the documented shape (UpperCamel, digits allowed) is a fixed point of
   ToCamel and is recovered from its snake form: the default name of an inline type for a
   property named like the snake form of T is T *)
Theorem inline_default_name_roundtrip t given :
  upper_word_d t = true -> given = [] ->
  inline_type_name to_camel (to_snake t) given = t.
Proof. intros Ht ->. cbn [inline_type_name]. apply to_camel_to_snake_d. exact Ht. Qed.

(* ToSnake is idempotent on every byte string: the proto field name of a property that is
   already written in snake_case form of some name is stable *)
Theorem proto_name_stable n : to_snake (to_snake n) = to_snake n.
Proof. apply to_snake_idem_all. Qed.

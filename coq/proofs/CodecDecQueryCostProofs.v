(* CodecDecQueryCostProofs.v — the instrumented URL-query decoder (model/CodecDecQueryCost.v):
   (1) its first component is the model of QueryToProto (the counter changes nothing);
   (2) its step count is at most query_size kvs = sum over the keys of (length key + 3 + sum over the
       values of (length value + 1)), for every query, environment, oracle and outcome. *)
From Coq Require Import String List NArith ZArith Bool Lia.
From J5V.lib Require Import Outcome Json Strcase.
From J5V.model Require Import CodecTypes CodecDecScalar CodecDec CodecDecQuery.
From J5V.model Require Import CodecDecCost CodecDecQueryCost.
From J5V.proofs Require Import JsonLexProofs CodecDecProofs CodecDecCostProofs CodecDecCostBound.
Import ListNotations.
Local Open Scope nat_scope.

(* ---------- (1) projection ---------- *)
Section Proj.
  Variable orc : oracles.
  Variable e : env.

  Lemma scalar_values_c_fst k vals : forall acc,
    fst (scalar_values_c orc k vals acc) =
    (fix go (vs : list bytes) (acc : list pval) : outcome (list pval) :=
       match vs with
       | [] => Ok acc
       | v :: r =>
         obind (scalar_from_go orc k (query_go_value (scalar_kind_eqb k KBool) v)) (fun x =>
           match x with
           | None => Err "cannot append nil value"%string
           | Some _ => obind (list_append x acc) (go r)
           end)
       end) vals acc.
  Proof.
    induction vals as [|v r IH]; intros acc; [reflexivity|].
    cbn [scalar_values_c]. fs. apply obind_ext. intros [x|]; [|reflexivity]. fs.
    apply obind_ext. intros l. apply IH.
  Qed.

  Lemma enum_values_c_fst prefix opts vals : forall acc,
    fst (enum_values_c prefix opts vals acc) =
    (fix go (vs : list bytes) (acc : list pval) : outcome (list pval) :=
       match vs with
       | [] => Ok acc
       | v :: r =>
         match option_by_name prefix opts v with
         | Some z => go r (acc ++ [VEnum z])
         | None => Err "enum value not found"%string
         end
       end) vals acc.
  Proof.
    induction vals as [|v r IH]; intros acc; [reflexivity|].
    cbn [enum_values_c]. fs. destruct (option_by_name prefix opts v); [apply IH | reflexivity].
  Qed.

  Lemma param_body_c_fst is_oneof ps v' sub :
    fst (param_body_c orc e is_oneof ps v' sub) =
    (let '(ts, more_at_end) := lex v' in
     obind (expect TOpenObj ts) (fun r =>
       obind (if is_oneof then oneof_body orc e more_at_end (S (length ts)) 0%N ps r sub [] [] None
              else object_body orc e more_at_end (S (length ts)) 0%N ps r sub [])
             (fun sr => obind (expect TCloseObj (snd sr)) (fun r2 =>
                obind (end_of_input r2 (lex_at_eof v')) (fun _ => Ok (fst sr, r2)))))).
  Proof.
    unfold param_body_c. destruct (lex v') as [ts me].
    destruct (proj_all orc e me (S (length ts))) as (_ & Po & Pn & _).
    fs. apply obind_ext; intros r. fs.
    destruct is_oneof; [rewrite Pn | rewrite Po]; apply obind_ext; intros sr; fs;
      apply obind_ext; intros r2; fs; apply obind_ext; intros; reflexivity.
  Qed.

  Lemma wh_bind_fst {A B} path m (kc : N -> msg -> cout (msg * A)) k (f1 f2 : msg * A -> outcome B) :
    (forall n h, fst (kc n h) = k n h) -> (forall a, f1 a = f2 a) ->
    obind (fst (with_holder_c path m kc)) f1 = obind (with_holder path m k) f2.
  Proof. intros H1 H2. rewrite (with_holder_c_fst path m kc k H1). apply obind_ext, H2. Qed.

  Ltac container_arm p v :=
    destruct (match trim_space v with c :: _ => (c =? 123)%N | [] => false end); [|reflexivity];
    destruct (p_path p) as [|y path];
    [ fs; rewrite param_body_c_fst; destruct (lex (trim_space v)) as [ts me]; cbn [fst];
      apply obind_ext; intros sr; reflexivity
    | fs; pose proof (param_body_c_fst) as PB; destruct (lex (trim_space v)) as [ts me] eqn:El; cbn [fst];
      apply wh_bind_fst; [|intros mr; reflexivity];
      intros n h; destruct (msg_mutable (p_siblings p) n h) as [sub h1]; fs;
      rewrite PB, El; apply obind_ext; intros sr; reflexivity ].

  Lemma query_final_c_fst props name vals m st :
    fst (query_final_c orc e props name vals m st) = query_final orc e props name vals m st.
  Proof.
    unfold query_final_c, query_final.
    destruct (find_prop props name) as [p|]; [|reflexivity]. fs. apply obind_ext; intros _.
    destruct (p_ty p) as [k|ref|ref|ref|item|item|pb] eqn:Ety.
    - destruct vals as [|v [|v2 r]]; try reflexivity. fs. apply obind_ext; intros r. fs.
      apply obind_ext; intros mr. reflexivity.
    - destruct vals as [|v [|v2 r]]; try reflexivity.
      destruct (lookup e ref) as [[| |prefix opts]|]; try reflexivity.
      destruct (option_by_name prefix opts v); [|reflexivity]. fs. apply obind_ext; intros mr. reflexivity.
    - destruct (props_of e (FObject ref)) as [[ps is_oneof]|]; [|destruct vals; reflexivity].
      destruct vals as [|v [|v2 r]]; try reflexivity. container_arm p v.
    - destruct (props_of e (FOneof ref)) as [[ps is_oneof]|]; [|destruct vals; reflexivity].
      destruct vals as [|v [|v2 r]]; try reflexivity. container_arm p v.
    - destruct item as [k|ref| | | | |]; try reflexivity.
      + fs. apply wh_bind_fst; [|intros mr; reflexivity]. intros n h. fs.
        rewrite scalar_values_c_fst. apply obind_ext; intros l. reflexivity.
      + destruct (lookup e ref) as [[| |prefix opts]|]; try reflexivity.
        fs. apply wh_bind_fst; [|intros mr; reflexivity]. intros n h. fs.
        rewrite enum_values_c_fst. apply obind_ext; intros l. reflexivity.
    - reflexivity.
    - reflexivity.
  Qed.

  Lemma query_at_c_fst parts : forall props vals m st,
    fst (query_at_c orc e props parts vals m st) = query_at orc e props parts vals m st.
  Proof.
    induction parts as [|part rest IH]; intros props vals m st; [reflexivity|].
    cbn [query_at_c query_at]. fs.
    destruct rest as [|p2 rest]; [apply query_final_c_fst|].
    destruct (find_prop props (to_lower_camel part)) as [p|]; [|reflexivity].
    destruct (props_of e (p_ty p)) as [[ps io]|]; [|reflexivity].
    destruct (mem_bytes (p_json p) (qt_seen st)).
    - destruct (p_path p) as [|y path].
      + fs. rewrite IH. apply obind_ext; intros r. reflexivity.
      + fs. apply wh_bind_fst; [|intros mr; reflexivity]. intros n h.
        destruct (msg_mutable (p_siblings p) n h) as [sub h1]. fs. rewrite IH. apply obind_ext; intros r. reflexivity.
    - fs. apply obind_ext; intros _. destruct (p_path p) as [|y path].
      + fs. rewrite IH. apply obind_ext; intros r. reflexivity.
      + fs. apply wh_bind_fst; [|intros mr; reflexivity]. intros n h.
        destruct (msg_mutable (p_siblings p) n h) as [sub h1]. fs. rewrite IH. apply obind_ext; intros r. reflexivity.
  Qed.

  Lemma query_loop_c_fst kvs : forall props m st,
    fst (query_loop_c orc e props kvs m st) = query_loop orc e props kvs m st.
  Proof.
    induction kvs as [|[key vals] r IH]; intros props m st; [reflexivity|].
    cbn [query_loop_c query_loop]. fs. destruct vals as [|v vs]; [apply IH|].
    fs. rewrite query_at_c_fst. apply obind_ext; intros ms. apply IH.
  Qed.

  Theorem decode_query_c_fst root kvs :
    fst (decode_query_c orc e root kvs) = decode_query orc e root kvs.
  Proof.
    unfold decode_query_c, decode_query.
    destruct (lookup e root) as [[props|props|]|]; try reflexivity; apply query_loop_c_fst.
  Qed.
End Proj.

(* ---------- (2) the bound ---------- *)
Lemma snd_pbind_le {A B} (o : outcome A) (k : A -> cout B) n :
  (forall a, snd (k a) <= n) -> snd (pbind o k) <= n.
Proof. intros H. destruct o; cbn [pbind snd]; [apply H | lia | lia | lia]. Qed.

Lemma snd_cbind_le {A B} (o : cout A) (k : A -> cout B) n1 n2 :
  snd o <= n1 -> (forall a, snd (k a) <= n2) -> snd (cbind o k) <= n1 + n2.
Proof. intros H1 H2. unfold cbind. destruct (fst o) as [a| | |]; cbn [snd]; try lia. specialize (H2 a). lia. Qed.

Lemma snd_cbind_ok_le {A B} (o : cout A) (f : A -> B) n :
  snd o <= n -> snd (cbind o (fun a => Ok' (f a))) <= n.
Proof. intros H. unfold cbind. destruct (fst o); cbn [snd Ok']; lia. Qed.

Lemma wh_snd_le {A} n (path : list N) : forall m (kc : N -> msg -> cout (msg * A)),
  (forall nn h, snd (kc nn h) <= n) -> snd (with_holder_c path m kc) <= n.
Proof.
  induction path as [|y rest IH]; intros m kc H; [cbn [with_holder_c snd Err']; lia|].
  destruct rest as [|y2 r]; [apply H|].
  change (with_holder_c (y :: y2 :: r) m kc) with
    (let '(sub, m1) := msg_mutable [] y m in
     cbind (with_holder_c (y2 :: r) sub kc) (fun r0 => Ok' (msg_put y (VMsg (fst r0)) m1, snd r0))).
  destruct (msg_mutable [] y m) as [sub m1]. apply snd_cbind_ok_le. apply IH, H.
Qed.

Lemma trim_left_len_aux : forall n s, length s <= n -> length (trim_left s) <= length s.
Proof.
  induction n as [|n IH]; intros s Hs.
  - destruct s; [cbn; lia | cbn in Hs; lia].
  - destruct s as [|c r]; [cbn; lia|]. cbn [trim_left]. cbn [length] in Hs.
    destruct (ascii_space c); [assert (length (trim_left r) <= length r) by (apply IH; lia); cbn [length]; lia|].
    destruct r as [|d r1]; [lia|]. cbn [length] in Hs.
    destruct (space2 c d); [assert (length (trim_left r1) <= length r1) by (apply IH; lia); cbn [length]; lia|].
    destruct r1 as [|e2 r2]; [lia|]. cbn [length] in Hs.
    destruct (space3 c d e2); [assert (length (trim_left r2) <= length r2) by (apply IH; lia); cbn [length]; lia|]. lia.
Qed.

Lemma trim_left_rev_len_aux : forall n s, length s <= n -> length (trim_left_rev s) <= length s.
Proof.
  induction n as [|n IH]; intros s Hs.
  - destruct s; [cbn; lia | cbn in Hs; lia].
  - destruct s as [|c r]; [cbn; lia|]. cbn [trim_left_rev]. cbn [length] in Hs.
    destruct (ascii_space c); [assert (length (trim_left_rev r) <= length r) by (apply IH; lia); cbn [length]; lia|].
    destruct r as [|d r1]; [lia|]. cbn [length] in Hs.
    destruct (space2 d c); [assert (length (trim_left_rev r1) <= length r1) by (apply IH; lia); cbn [length]; lia|].
    destruct r1 as [|e2 r2]; [lia|]. cbn [length] in Hs.
    destruct (space3 e2 d c); [assert (length (trim_left_rev r2) <= length r2) by (apply IH; lia); cbn [length]; lia|]. lia.
Qed.

(* strings.TrimSpace does not lengthen its argument *)
Lemma trim_space_len s : length (trim_space s) <= length s.
Proof.
  unfold trim_space, trim_right. rewrite rev_length.
  pose proof (trim_left_rev_len_aux _ (rev (trim_left s)) (le_n _)) as H1. rewrite rev_length in H1.
  pose proof (trim_left_len_aux _ s (le_n _)). lia.
Qed.

(* strings.Split(key, "."): at most (length key + 1) components *)
Lemma split_on_len sep s : forall cur, length (split_on sep s cur) <= S (length s).
Proof.
  induction s as [|c r IH]; intros cur; [cbn; lia|]. cbn [split_on length].
  destruct (c =? sep)%N; [cbn [length]; specialize (IH []); lia | specialize (IH (c :: cur)); lia].
Qed.

Lemma values_size_len vals : length vals <= values_size vals.
Proof. induction vals as [|v r IH]; cbn [values_size fold_right length]; [lia|]. fold (values_size r). lia. Qed.

Section QBound.
  Variable orc : oracles.
  Variable e : env.

  Lemma scalar_values_c_le k vals : forall acc, snd (scalar_values_c orc k vals acc) <= length vals.
  Proof.
    induction vals as [|v r IH]; intros acc; [cbn; lia|].
    cbn [scalar_values_c tick snd length]. apply le_n_S. apply snd_pbind_le. intros [x|]; [|cbn; lia].
    apply snd_pbind_le. intros l. apply IH.
  Qed.

  Lemma enum_values_c_le prefix opts vals : forall acc, snd (enum_values_c prefix opts vals acc) <= length vals.
  Proof.
    induction vals as [|v r IH]; intros acc; [cbn; lia|].
    cbn [enum_values_c tick snd length]. apply le_n_S.
    destruct (option_by_name prefix opts v); [apply IH | cbn; lia].
  Qed.

  (* the descent on a parameter's text: at most one step per token, hence per byte *)
  Lemma param_body_c_le is_oneof ps v' sub : snd (param_body_c orc e is_oneof ps v' sub) <= length v'.
  Proof.
    unfold param_body_c. pose proof (lex_length v') as Hl. destruct (lex v') as [ts me]. cbn [fst] in Hl.
    destruct (bound_all orc e me (S (length ts))) as (_ & Bo & Bn & _).
    destruct (expect TOpenObj ts) as [r| | |] eqn:Ex; cbn [pbind snd]; try lia.
    apply expect_len in Ex.
    assert (Hb : snd (if is_oneof then oneof_body_c orc e me (S (length ts)) 0%N ps r sub [] [] None
                      else object_body_c orc e me (S (length ts)) 0%N ps r sub []) <= length r + 1).
    { destruct is_oneof; [apply (Bn 0%N ps r sub [] [] None) | apply (Bo 0%N ps r sub [])]. }
    replace (length v') with (length v' + 0) by lia.
    etransitivity; [apply (snd_cbind_le _ _ (length r + 1) 0 Hb)|lia].
    intros sr. apply snd_pbind_le. intros r2. apply snd_pbind_le. intros _. cbn; lia.
  Qed.

  Lemma query_final_c_le props name vals m st :
    snd (query_final_c orc e props name vals m st) <= values_size vals.
  Proof.
    unfold query_final_c. pose proof (values_size_len vals) as Hv.
    destruct (find_prop props name) as [p|]; [|cbn; lia]. apply snd_pbind_le; intros _.
    assert (Hcont : forall t,
      snd (match props_of e t, vals with
           | Some (ps, is_oneof), [v] =>
             let v' := trim_space v in
             if match v' with c :: _ => (c =? 123)%N | [] => false end then
               let ts := fst (lex v') in
               let kid := match parse_value (S (length ts)) ts with
                          | Some (j, _) => qtree_of_json (S (length ts)) e ps j
                          | None => QT [] []
                          end in
               let st2 := QT (qt_seen (QT (p_json p :: qt_seen st) (qt_kids st)))
                             (kid_set (p_json p) kid (qt_kids (QT (p_json p :: qt_seen st) (qt_kids st)))) in
               match p_path p with
               | [] => cbind (param_body_c orc e is_oneof ps v' m) (fun sr => Ok' (fst sr, st2))
               | path =>
                 cbind (with_holder_c path m (fun n h =>
                          let '(sub, h1) := msg_mutable (p_siblings p) n h in
                          cbind (param_body_c orc e is_oneof ps v' sub) (fun sr => Ok' (msg_put n (VMsg (fst sr)) h1, tt))))
                       (fun mr => Ok' (fst mr, st2))
               end
             else Err' "invalid value for container"
           | Some _, [] => Err' "no value"
           | Some _, _ => Err' "multiple values provided for non-repeated field"
           | None, _ => Err' "schema"
           end : cout (msg * qtree)) <= values_size vals).
    { intros t. destruct (props_of e t) as [[ps is_oneof]|]; [|destruct vals; cbn; lia].
      destruct vals as [|v [|v2 r]]; try (cbn [snd Err']; lia).
      cbn zeta. destruct (match trim_space v with c :: _ => (c =? 123)%N | [] => false end); [|cbn [snd Err']; lia].
      assert (Hp : forall sub, snd (param_body_c orc e is_oneof ps (trim_space v) sub) <= values_size [v]).
      { intros sub. pose proof (param_body_c_le is_oneof ps (trim_space v) sub). pose proof (trim_space_len v).
        cbn [values_size fold_right]. lia. }
      destruct (p_path p) as [|y path].
      - apply snd_cbind_ok_le, Hp.
      - apply snd_cbind_ok_le. apply wh_snd_le. intros n h. destruct (msg_mutable (p_siblings p) n h) as [sub h1].
        apply snd_cbind_ok_le, Hp. }
    destruct (p_ty p) as [k|ref|ref|ref|item|item|pb] eqn:Ety.
    - destruct vals as [|v [|v2 r]]; try (cbn [snd Err']; lia).
      apply snd_pbind_le; intros r. apply snd_pbind_le; intros mr. cbn; lia.
    - destruct vals as [|v [|v2 r]]; try (cbn [snd Err']; lia).
      destruct (lookup e ref) as [[| |prefix opts]|]; try (cbn [snd Err']; lia).
      destruct (option_by_name prefix opts v); [|cbn [snd Err']; lia]. apply snd_pbind_le; intros mr. cbn; lia.
    - apply (Hcont (FObject ref)).
    - apply (Hcont (FOneof ref)).
    - destruct item as [k|ref| | | | |]; try (cbn [snd Err']; lia).
      + apply snd_cbind_ok_le. apply wh_snd_le. intros n h. apply snd_cbind_ok_le.
        etransitivity; [apply scalar_values_c_le | exact Hv].
      + destruct (lookup e ref) as [[| |prefix opts]|]; try (cbn [snd Err']; lia).
        apply snd_cbind_ok_le. apply wh_snd_le. intros n h. apply snd_cbind_ok_le.
        etransitivity; [apply enum_values_c_le | exact Hv].
    - cbn [snd Err']; lia.
    - cbn [snd Err']; lia.
  Qed.

  (* propertyAtPath + the final component: one step per component, plus the value work *)
  Lemma query_at_c_le parts : forall props vals m st,
    snd (query_at_c orc e props parts vals m st) <= S (length parts) + values_size vals.
  Proof.
    induction parts as [|part rest IH]; intros props vals m st; [cbn; lia|].
    cbn [query_at_c tick snd]. 
    destruct rest as [|p2 rest].
    { pose proof (query_final_c_le props (to_lower_camel part) vals m st). cbn [length]. lia. }
    set (rr := p2 :: rest) in *.
    assert (Hrec : forall ps m0 st0 (f : msg * qtree -> msg * qtree),
              snd (cbind (query_at_c orc e ps rr vals m0 st0) (fun r => Ok' (f r))) <= S (length rr) + values_size vals).
    { intros. apply snd_cbind_ok_le, IH. }
    cbn [length]. apply le_n_S.
    destruct (find_prop props (to_lower_camel part)) as [p|]; [|cbn [snd Err']; lia].
    destruct (props_of e (p_ty p)) as [[ps io]|]; [|cbn [snd Err']; lia].
    destruct (mem_bytes (p_json p) (qt_seen st)).
    - destruct (p_path p) as [|y path].
      + apply snd_cbind_ok_le, IH.
      + apply snd_cbind_ok_le. apply wh_snd_le. intros n h. destruct (msg_mutable (p_siblings p) n h) as [sub h1].
        apply snd_cbind_ok_le, IH.
    - apply snd_pbind_le; intros _. destruct (p_path p) as [|y path].
      + apply snd_cbind_ok_le, IH.
      + apply snd_cbind_ok_le. apply wh_snd_le. intros n h. destruct (msg_mutable (p_siblings p) n h) as [sub h1].
        apply snd_cbind_ok_le, IH.
  Qed.

  Lemma query_loop_c_le kvs : forall props m st, snd (query_loop_c orc e props kvs m st) <= query_size kvs.
  Proof.
    induction kvs as [|[key vals] r IH]; intros props m st; [cbn; lia|].
    cbn [query_loop_c tick snd query_size fold_right fst]. fold (query_size r).
    destruct vals as [|v vs]; [specialize (IH props m st); lia|].
    pose proof (query_at_c_le (split_on 46 key []) props (v :: vs) m st) as Ha.
    pose proof (split_on_len 46%N key []) as Hs.
    assert (Hc : snd (cbind (query_at_c orc e props (split_on 46 key []) (v :: vs) m st)
                            (fun ms => query_loop_c orc e props r (fst ms) (snd ms)))
                 <= (S (length (split_on 46 key [])) + values_size (v :: vs)) + query_size r).
    { apply snd_cbind_le; [exact Ha | intros ms; apply IH]. }
    lia.
  Qed.

  (* QueryToProto: the step count is at most the size of the query, whatever the outcome *)
  Theorem decode_query_steps root kvs : snd (decode_query_c orc e root kvs) <= query_size kvs.
  Proof.
    unfold decode_query_c.
    destruct (lookup e root) as [[props|props|]|]; try (cbn [snd Err']; lia); apply query_loop_c_le.
  Qed.
End QBound.

(* the size of a query in plain terms: 3 per key + key bytes + 1 per value + value bytes *)
Lemma query_size_plain kvs :
  query_size kvs =
  3 * length kvs + fold_right (fun kv n => length (fst kv) + n) 0 kvs
  + fold_right (fun kv n => length (snd kv) + n) 0 kvs
  + fold_right (fun kv n => fold_right (fun v k => length v + k) 0 (snd kv) + n) 0 kvs.
Proof.
  assert (Hv : forall vals, values_size vals = length vals + fold_right (fun v k => length v + k) 0 vals).
  { induction vals as [|v r IH]; [reflexivity|]. cbn [values_size fold_right length]. fold (values_size r). lia. }
  induction kvs as [|[key vals] r IH]; [reflexivity|].
  cbn [query_size fold_right length fst snd]. fold (query_size r). rewrite IH, Hv. lia.
Qed.

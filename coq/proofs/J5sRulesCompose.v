(* J5sRulesCompose.v — C02 (structure) x C12 / C04 (validation rules, list rules, annotations):
   the two compiler models composed on a property.  Family scha models a property WITH its
   rules and annotations (model/RulesDecl.v: prop; model/RulesWrite.v: write_prop, the
   buildField / buildProperty of fields.go with every rule arm); the C02 model has the same
   property WITHOUT them (J5sAst.property).  [erase] forgets the rules.
     1. whatever write_prop emits for a property satisfies the C02 structural contract
        (J5sContract.field_decl_ok: proto name, JSON name, number, proto type, cardinality,
        optionality) of the erased property;
     2. hence the structural part of the output does not depend on rule values: two
        properties with the same erasure compile to the same structure, whatever their rules,
        list rules, key annotations, descriptions, enum environments;
     3. and it is the structure the C02 converter (cv_property) produces for the erased
        property: the two models agree where they overlap. *)
From Coq Require Import String List NArith ZArith Bool.
From J5V.lib Require Import Outcome Strcase.
From J5V.model Require RulesDecl RulesWrite.
From J5V.model Require Import J5sAst Desc J5sWalk J5sLink J5sConvert J5sContract.
From J5V.proofs Require Import J5sProofs J5sContractProofs.
Import ListNotations.
Local Open Scope N_scope.

Module R := RulesDecl.
Module W := RulesWrite.

(* ------------------------------------------------------------------ erasing the rules *)
(* references (enum / object / oneof fields) keep their kind only: field_decl_ok looks at the
   kind of the target, not at the target *)
Definition any_ref : ref := mkRef [] [].

Definition erase_ikind (k : R.ikind) : ifmt :=
  match k with R.I32 => I32 | R.I64 => I64 | R.U32 => U32 | R.U64 => U64 end.
Definition erase_kfmt (f : option R.kfmt) : kfmt :=
  match f with
  | None => KNone | Some R.KInformal => KInformal | Some (R.KCustom _) => KCustom
  | Some R.KUuid => KUuid | Some R.KId62 => KId62
  end.

(* ONLY this definition and [ptype_of] name scha's constructors: when their shapes change,
   these two matches are what has to follow; the proofs below do not name constructors *)
Definition erase_fty (t : R.fty) : field :=
  match t with
  | R.TInt k _ _ => FScalar (SInt (erase_ikind k))
  | R.TStr _ _ _ => FScalar SString
  | R.TBytes _ => FScalar SBytes
  | R.TBool _ _ => FScalar SBool
  | R.TEnum _ _ => FEnumRef any_ref
  | R.TKey f _ _ => FScalar (SKey (erase_kfmt f))
  | R.TFloat f64 _ _ => FScalar (SFloat (if f64 then F64 else F32))
  | R.TDate _ _ => FScalar SDate
  | R.TDecimal _ _ => FScalar SDecimal
  | R.TTimestamp _ _ => FScalar STimestamp
  | R.TAny _ _ _ => FScalar SAny
  | R.TObject ref _ _ => FObjRef (mkRef [] ref)        (* a schema of the same package, by name *)
  | R.TOneof ref _ _ => FOneofRef (mkRef [] ref)
  end.

Definition erase_pty (t : R.pty) : field :=
  match t with
  | R.PSingle t => erase_fty t
  | R.PArray _ _ t => FArray (erase_fty t)
  | R.PMap _ t => FMap (erase_fty t)
  end.

Definition erase (d : R.prop) : property :=
  Property (R.p_name d) (R.p_req d) (R.p_opt d) (erase_pty (R.p_ty d)).

(* ------------------------------------------------------------------ the structural view of an emitted field *)
Definition ptype_of (k : R.pkind) : ptype :=
  match k with
  | R.KdInt32 => TInt32 | R.KdInt64 => TInt64 | R.KdUint32 => TUint32 | R.KdUint64 => TUint64
  | R.KdString => TString | R.KdBytes => TBytes | R.KdBool => TBool
  | R.KdFloat => TFloat | R.KdDouble => TDouble | R.KdEnum => TEnum
  | _ => TMessage        (* objects, oneofs, well-known message types, map entries *)
  end.

(* type name and oneof membership are not part of the C12 / C04 view *)
Definition structure_of (o : R.fout) : dfield :=
  mkField (R.fo_name o) (R.fo_json o) (R.fo_number o) (ptype_of (R.fo_kind o))
          (if R.fo_rep o then LRepeated else LOptional) (R.fo_opt o) [] false.

(* ------------------------------------------------------------------ 1. the contract *)
Ltac unbind H :=
  repeat match type of H with
         | obind _ _ = Ok _ => let x := fresh in let E := fresh in apply obind_ok in H; destruct H as (x & E & H); clear E
         | (if ?c then _ else _) = Ok _ => destruct c; [try discriminate H|try discriminate H]
         end.

Lemma write_field_kind env t w :
  W.write_field env t = Ok w -> ptype_of (W.fw_kind w) = item_ptype (erase_fty t).
Proof.
  destruct t; cbn [W.write_field]; intros H; unbind H; inversion H; subst; cbv;
    repeat match goal with |- context [match ?x with _ => _ end] => is_var x; destruct x end; reflexivity.
Qed.

Theorem rules_output_satisfies_structure env idx d o :
  W.write_prop env idx d = Ok o ->
  field_decl_ok to_snake false (idx + 1) (erase d) (structure_of o).
Proof.
  unfold W.write_prop. intros H. apply obind_ok in H. destruct H as (w & Hw & H).
  destruct (R.p_opt d && _); [discriminate|]. inversion H. subst o. clear H.
  unfold field_decl_ok, structure_of, erase.
  cbn [R.fo_name R.fo_json R.fo_number R.fo_kind R.fo_rep R.fo_opt prop_name prop_field prop_optional
       f_name f_json f_num f_type f_label f_opt3 f_oneof].
  destruct (R.p_ty d) as [t|r sf t|r t]; cbn [erase_pty] in *.
  - assert (Hplain : is_repeated (erase_fty t) = false /\ is_map (erase_fty t) = false /\ elem (erase_fty t) = erase_fty t)
      by (destruct t; repeat split; reflexivity).
    destruct Hplain as (Hr & Hm & He).
    repeat split; try reflexivity.
    + rewrite (write_field_kind env t w Hw). unfold decl_ptype. rewrite Hm, He. reflexivity.
    + rewrite Hr. reflexivity.
    + rewrite Hr. cbn [negb]. rewrite !andb_true_r. reflexivity.
  - apply obind_ok in Hw. destruct Hw as (w0 & Hw0 & Hw). inversion Hw. subst w. cbn [W.wrap_array W.fw_kind].
    repeat split; try reflexivity.
    + rewrite (write_field_kind env t w0 Hw0). reflexivity.
    + cbn [is_repeated negb]. rewrite andb_false_r. reflexivity.
  - apply obind_ok in Hw. destruct Hw as (w0 & Hw0 & Hw). inversion Hw. subst w. cbn [W.wrap_map W.fw_kind].
    repeat split; try reflexivity.
    cbn [is_repeated negb]. rewrite andb_false_r. reflexivity.
Qed.

(* ------------------------------------------------------------------ 2. independence of the rule values *)
(* the contract determines the structural view *)
Lemma structure_determined io num p a c :
  field_decl_ok to_snake io num p a -> field_decl_ok to_snake io num p c ->
  f_tname a = f_tname c -> a = c.
Proof.
  intros (A1 & A2 & A3 & A4 & A5 & A6 & A7) (C1 & C2 & C3 & C4 & C5 & C6 & C7) Ht.
  destruct a, c. cbn in *. congruence.
Qed.

Theorem structure_independent_of_rules env env' idx d d' o o' :
  erase d = erase d' ->
  W.write_prop env idx d = Ok o -> W.write_prop env' idx d' = Ok o' ->
  structure_of o = structure_of o'.
Proof.
  intros He H H'.
  pose proof (rules_output_satisfies_structure env idx d o H) as A.
  pose proof (rules_output_satisfies_structure env' idx d' o' H') as C.
  rewrite He in A. eapply structure_determined; [exact A|exact C|reflexivity].
Qed.

(* ------------------------------------------------------------------ 3. agreement with the C02 converter *)
Definition same_structure (a c : dfield) : Prop :=
  f_name a = f_name c /\ f_json a = f_json c /\ f_num a = f_num c /\ f_type a = f_type c /\
  f_label a = f_label c /\ f_opt3 a = f_opt3 c.

Theorem rules_model_agrees_with_c02 camel screaming ev path env idx d o r :
  W.write_prop env idx d = Ok o ->
  cv_property to_snake camel screaming ev path false (idx + 1) (erase d) = Ok r ->
  exists df, pr_fields r = [df] /\ same_structure df (structure_of o).
Proof.
  intros Hw Hc.
  destruct (proj2 (proj2 (convert_refines to_snake camel screaming)) (erase d) ev path false (idx + 1) r Hc)
    as ((df & Hdf & (A1 & A2 & A3 & A4 & A5 & A6 & A7)) & _).
  destruct (rules_output_satisfies_structure env idx d o Hw) as (C1 & C2 & C3 & C4 & C5 & C6 & C7).
  exists df. split; [exact Hdf|]. unfold same_structure. repeat split; congruence.
Qed.

(* non-vacuity: an integer with bounds and list rules, and the same integer without anything *)
Example rules_compose_example :
  let env := R.EE [] None [] in
  let with_rules := R.P (b "age") true false
        (R.PSingle (R.TInt R.I32 (Some (R.IR (Some 0%Z) (Some 150%Z) None (Some true)))
                                  (Some (R.LP true true false false [])))) [] in
  let plain := R.P (b "age") true false (R.PSingle (R.TInt R.I32 None None)) [] in
  erase with_rules = erase plain /\
  exists o o', W.write_prop env 2 with_rules = Ok o /\ W.write_prop env 2 plain = Ok o' /\
               R.fo_val o <> R.fo_val o' /\ structure_of o = structure_of o' /\
               f_num (structure_of o) = 3 /\ f_type (structure_of o) = TInt32.
Proof.
  cbv zeta. split; [reflexivity|]. eexists. eexists.
  split; [vm_compute; reflexivity|]. split; [vm_compute; reflexivity|].
  split; [discriminate|]. repeat split; vm_compute; reflexivity.
Qed.

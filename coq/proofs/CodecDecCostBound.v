(* CodecDecCostBound.v — the step count of the instrumented token decoder is linear in the number of
   tokens: a call of decode_present makes at most (tokens it consumes) steps when it succeeds, a body
   loop at most (tokens consumed + 1), and on every path, errors included, at most (tokens given + 1). *)
From Coq Require Import String List NArith ZArith Bool Lia.
From J5V.lib Require Import Outcome Json.
From J5V.model Require Import CodecTypes CodecDecScalar CodecDec.
From J5V.model Require Import CodecDecCost.
From J5V.proofs Require Import CodecDecCostUnfold.
From J5V.proofs Require Import JsonLexProofs CodecDecProofs.
Import ListNotations.
Local Open Scope nat_scope.

(* at most n + 1 steps; on success steps + tokens left <= n + slack *)
Definition within {A} (slack n : nat) (o : cout (A * list token)) : Prop :=
  snd o <= n + 1 /\ forall x ts', fst o = Ok (x, ts') -> snd o + length ts' <= n + slack.

Lemma within_tick {A} slack n (o : cout (A * list token)) :
  (snd o <= n /\ forall x ts', fst o = Ok (x, ts') -> S (snd o) + length ts' <= n + slack) -> within slack n (tick o).
Proof. intros [H1 H2]. split; cbn [tick fst snd]; [lia|]. intros x ts' E. specialize (H2 x ts' E). lia. Qed.

Lemma split_value_len ts v rest d : split_value ts = Some (v, rest, d) -> length rest <= length ts.
Proof.
  unfold split_value.
  assert (G : forall ts d mx acc v1 r1 d1,
             split_go ts d mx acc = Some (v1, r1, d1) -> (length r1 <= length ts)%nat).
  { induction ts0 as [|t ts0 IHts]; intros d0 mx acc v1 r1 d1 H; cbn in H; [discriminate|].
    destruct t;
      try (destruct (d0 =? 0)%N; [inversion H; subst; cbn; lia | apply IHts in H; cbn; lia]);
      try (apply IHts in H; cbn; lia);
      try (destruct (d0 =? 0)%N; [discriminate|];
           destruct (d0 =? 1)%N; [inversion H; subst; cbn; lia | apply IHts in H; cbn; lia]). }
  apply G.
Qed.

(* with_holder_c: the walk itself is not counted; cost and tokens left are those of the continuation *)
Lemma wh_within slack n (path : list N) : forall m (kc : N -> msg -> cout (msg * list token)),
  (forall nn h, within slack n (kc nn h)) -> within slack n (with_holder_c path m kc).
Proof.
  induction path as [|y rest IH]; intros m kc H; [unfold within; cbn [with_holder_c fst snd Err']; split; [lia|discriminate]|].
  destruct rest as [|y2 r]; [apply H|].
  change (with_holder_c (y :: y2 :: r) m kc) with
    (let '(sub, m1) := msg_mutable [] y m in
     cbind (with_holder_c (y2 :: r) sub kc) (fun r0 => Ok' (msg_put y (VMsg (fst r0)) m1, snd r0))).
  destruct (msg_mutable [] y m) as [sub m1]. destruct (IH sub kc H) as [H1 H2]. unfold within, cbind.
  destruct (fst (with_holder_c (y2 :: r) sub kc)) as [[m' a]| | |] eqn:E; cbn [fst snd Ok']; try (split; [lia|discriminate]).
  split; [lia|]. intros x ts' Eq. inversion Eq; subst. specialize (H2 _ _ eq_refl). lia.
Qed.

(* the same for any bound on the count and any relation between count and tokens left *)
Lemma wh_pred (Q : nat -> Prop) (R : nat -> list token -> Prop) (path : list N) :
  Q 0 -> forall m (kc : N -> msg -> cout (msg * list token)),
  (forall nn h, Q (snd (kc nn h)) /\ forall x ts', fst (kc nn h) = Ok (x, ts') -> R (snd (kc nn h)) ts') ->
  Q (snd (with_holder_c path m kc)) /\
  forall x ts', fst (with_holder_c path m kc) = Ok (x, ts') -> R (snd (with_holder_c path m kc)) ts'.
Proof.
  intros Q0. induction path as [|y rest IH]; intros m kc H; [cbn [with_holder_c fst snd Err']; split; [exact Q0|discriminate]|].
  destruct rest as [|y2 r]; [apply H|].
  change (with_holder_c (y :: y2 :: r) m kc) with
    (let '(sub, m1) := msg_mutable [] y m in
     cbind (with_holder_c (y2 :: r) sub kc) (fun r0 => Ok' (msg_put y (VMsg (fst r0)) m1, snd r0))).
  destruct (msg_mutable [] y m) as [sub m1]. destruct (IH sub kc H) as [H1 H2]. unfold cbind.
  destruct (fst (with_holder_c (y2 :: r) sub kc)) as [[m' a]| | |] eqn:E; cbn [fst snd Ok']; try (split; [exact H1|discriminate]).
  rewrite Nat.add_0_r. split; [exact H1|]. intros x ts' Eq. inversion Eq; subst. apply (H2 _ _ eq_refl).
Qed.

Section Bound.
  Variable orc : oracles.
  Variable e : env.
  Variable me : bool.

  Definition bound_level (f : nat) : Prop :=
    (forall d p ts m, within 0 (length ts) (decode_present_c orc e me f d p ts m)) /\
    (forall d props ts m seen, within 1 (length ts) (object_body_c orc e me f d props ts m seen)) /\
    (forall d props ts m seen found c, within 1 (length ts) (oneof_body_c orc e me f d props ts m seen found c)) /\
    (forall d item ts acc, within 1 (length ts) (array_items_c orc e me f d item ts acc)) /\
    (forall d item ts acc, within 1 (length ts) (map_items_c orc e me f d item ts acc)).

  (* member_with_c: as decode_present, the result regrouped *)
  Lemma member_bound d dpc p ts m seen :
    (forall ts0 m0, within 0 (length ts0) (dpc ts0 m0)) ->
    snd (member_with_c d dpc p ts m seen) <= length ts + 1 /\
    forall m' rest seen', fst (member_with_c d dpc p ts m seen) = Ok (m', rest, seen') ->
      snd (member_with_c d dpc p ts m seen) + length rest <= length ts.
  Proof.
    intros H. unfold member_with_c. destruct (max_nesting_depth <? d + 1)%N; [cbn; split; [lia|discriminate]|].
    destruct ts as [|t r]; [cbn; split; [lia|discriminate]|].
    assert (G : snd (if mem_bytes (p_json p) seen then Err' "field is already set"
                     else if oneof_conflict p m then Err' "conflicts with another member of the same proto oneof"
                     else cbind (dpc (t :: r) m) (fun r0 => Ok' (fst r0, snd r0, p_json p :: seen))) <= length (t :: r) + 1 /\
                forall m' rest seen',
                  fst (if mem_bytes (p_json p) seen then Err' "field is already set"
                       else if oneof_conflict p m then Err' "conflicts with another member of the same proto oneof"
                       else cbind (dpc (t :: r) m) (fun r0 => Ok' (fst r0, snd r0, p_json p :: seen))) = Ok (m', rest, seen') ->
                  snd (if mem_bytes (p_json p) seen then Err' "field is already set"
                       else if oneof_conflict p m then Err' "conflicts with another member of the same proto oneof"
                       else cbind (dpc (t :: r) m) (fun r0 => Ok' (fst r0, snd r0, p_json p :: seen))) + length rest <= length (t :: r)).
    { destruct (mem_bytes (p_json p) seen); [cbn; split; [lia|discriminate]|].
      destruct (oneof_conflict p m); [cbn; split; [lia|discriminate]|].
      destruct (H (t :: r) m) as [H1 H2]. unfold cbind.
      destruct (fst (dpc (t :: r) m)) as [[m1 r1]| | |] eqn:E; cbn [fst snd Ok']; try (split; [lia|discriminate]).
      split; [lia|]. intros m' rest seen' Eq. inversion Eq; subst. specialize (H2 _ _ eq_refl). lia. }
    destruct t; try exact G.
    cbn [fst snd Ok']. split; [lia|]. intros m' rest seen' Eq. inversion Eq; subst. cbn [length]. lia.
  Qed.

  Lemma any_body_bound : forall f ts value ty, within 1 (length ts) (any_body_c me f ts value ty).
  Proof.
    induction f as [|f IHf]; intros ts value ty; [unfold within; cbn [any_body_c fst snd]; split; [lia|discriminate]|].
    cbn [any_body_c]. apply within_tick.
    destruct (has_more me ts); [|cbn [fst snd Ok']; split; [lia|intros x ts' E; inversion E; subst; lia]].
    destruct (next_token ts) as [[t0 r0]| | |] eqn:En0; cbn [pbind fst snd]; try (split; [lia|discriminate]).
    apply next_token_len in En0. destruct t0 as [| | |key| | | |]; cbn [fst snd Ok' Err']; try (split; [lia|discriminate]).
    destruct (bytes_eqb key type_key).
    - destruct (next_token r0) as [[t r]| | |] eqn:En; cbn [pbind fst snd]; try (split; [lia|discriminate]).
      apply next_token_len in En. destruct t; cbn [fst snd Ok' Err']; try (split; [lia|discriminate]).
      destruct (IHf r value (Some s)) as [O1 O2]. split; [lia|]. intros x ts' E. specialize (O2 x ts' E). lia.
    - destruct value; cbn [fst snd Ok' Err']; try (split; [lia|discriminate]).
      destruct (split_value r0) as [[[v rest] depth]|] eqn:Es; cbn [fst snd Ok' Err']; try (split; [lia|discriminate]).
      apply split_value_len in Es.
      destruct (max_scan_depth <? depth)%N; cbn [fst snd Ok' Err']; try (split; [lia|discriminate]).
      destruct (IHf rest (Some v) ty) as [O1 O2]. split; [lia|]. intros x ts' E. specialize (O2 x ts' E). lia.
  Qed.

  Section Step.
    Variable f : nat.
    Hypothesis IH : bound_level f.

    Lemma bstep_object d props ts m seen : within 1 (length ts) (object_body_c orc e me (S f) d props ts m seen).
    Proof.
      destruct IH as (IHp & IHo & _).
      rewrite object_body_c_S. apply within_tick.
      destruct (has_more me ts); [|cbn [fst snd Ok']; split; [lia|intros x ts' E; inversion E; subst; lia]].
      destruct (next_token ts) as [[t r]| | |] eqn:En; cbn [pbind fst snd]; try (split; [lia|discriminate]).
      apply next_token_len in En.
      destruct t; try (cbn; split; [lia|discriminate]).
      destruct (find_prop props s) as [p|]; [|cbn; split; [lia|discriminate]].
      destruct (member_bound d (decode_present_c orc e me f (d + 1) p) p r m seen (IHp (d + 1)%N p)) as [M1 M2].
      unfold cbind.
      destruct (fst (member_with_c d (decode_present_c orc e me f (d + 1) p) p r m seen)) as [[[m' rest] seen']| | |] eqn:Em;
        cbn [fst snd]; try (split; [lia|discriminate]).
      specialize (M2 _ _ _ eq_refl). destruct (IHo d props rest m' seen') as [O1 O2].
      split; [lia|]. intros x ts' E. specialize (O2 x ts' E). lia.
    Qed.

    Ltac pure_step X :=
      destruct X eqn:?; cbn [pbind fst snd Ok' Err']; try (split; [lia|discriminate]).
    Ltac fin := cbn [fst snd Ok' Err']; try (split; [lia|discriminate]).

    Lemma bstep_oneof d props ts m seen found c :
      within 1 (length ts) (oneof_body_c orc e me (S f) d props ts m seen found c).
    Proof.
      destruct IH as (IHp & _ & IHn & _).
      rewrite oneof_body_c_S. apply within_tick.
      destruct (has_more me ts).
      2:{ destruct (oneof_post props m found c); cbn [pbind fst snd Ok']; try (split; [lia|discriminate]).
          split; [lia|]. intros x ts' E. inversion E; subst. lia. }
      destruct (next_token ts) as [[t r]| | |] eqn:En; cbn [pbind fst snd]; try (split; [lia|discriminate]).
      apply next_token_len in En.
      destruct t; fin.
      destruct (bytes_eqb s type_key).
      - destruct (next_token r) as [[t2 r2]| | |] eqn:En2; cbn [pbind fst snd]; try (split; [lia|discriminate]).
        apply next_token_len in En2. destruct t2; fin.
        destruct (IHn d props r2 m seen found (Some s0)) as [O1 O2].
        split; [lia|]. intros x ts' E. specialize (O2 x ts' E). lia.
      - destruct (find_prop props s) as [p|]; fin.
        destruct (member_bound d (decode_present_c orc e me f (d + 1) p) p r m seen (IHp (d + 1)%N p)) as [M1 M2].
        unfold cbind.
        destruct (fst (member_with_c d (decode_present_c orc e me f (d + 1) p) p r m seen)) as [[[m' rest] seen']| | |] eqn:Em;
          cbn [fst snd]; try (split; [lia|discriminate]).
        specialize (M2 _ _ _ eq_refl). destruct (IHn d props rest m' seen' (found ++ [s]) c) as [O1 O2].
        split; [lia|]. intros x ts' E. specialize (O2 x ts' E). lia.
    Qed.

    Lemma bstep_array d item ts acc : within 1 (length ts) (array_items_c orc e me (S f) d item ts acc).
    Proof.
      destruct IH as (_ & IHo & IHn & IHa & _).
      rewrite array_items_c_S. apply within_tick.
      destruct (has_more me ts); [|cbn [fst snd Ok']; split; [lia|intros x ts' E; inversion E; subst; lia]].
      destruct item as [k|ref|ref|ref|it|it|pb]; fin.
      - destruct (next_token ts) as [[t r]| | |] eqn:En; cbn [pbind fst snd]; try (split; [lia|discriminate]).
        apply next_token_len in En. destruct (is_delim t); fin.
        destruct (append_go_value orc k t acc) as [acc'| | |]; cbn [pbind fst snd]; try (split; [lia|discriminate]).
        destruct (IHa d (FScalar k) r acc') as [O1 O2]. split; [lia|]. intros x ts' E. specialize (O2 x ts' E). lia.
      - destruct (next_token ts) as [[t r]| | |] eqn:En; cbn [pbind fst snd]; try (split; [lia|discriminate]).
        apply next_token_len in En. destruct (is_delim t); fin. destruct t; fin.
        destruct (lookup e ref) as [[| |prefix opts]|]; fin.
        destruct (option_by_name prefix opts s); fin.
        destruct (list_append (Some (VEnum z)) acc) as [acc'| | |]; cbn [pbind fst snd]; try (split; [lia|discriminate]).
        destruct (IHa d (FEnum ref) r acc') as [O1 O2]. split; [lia|]. intros x ts' E. specialize (O2 x ts' E). lia.
      - destruct (lookup e ref) as [[props| |]|]; fin.
        destruct (expect TOpenObj ts) as [r| | |] eqn:Ex; cbn [pbind fst snd]; try (split; [lia|discriminate]).
        apply expect_len in Ex. destruct (IHo d props r [] []) as [B1 B2]. unfold cbind.
        destruct (fst (object_body_c orc e me f d props r [] [])) as [[sub sr]| | |] eqn:Eb; cbn [fst snd]; try (split; [lia|discriminate]).
        specialize (B2 _ _ eq_refl).
        destruct (expect TCloseObj sr) as [r2| | |] eqn:Ex2; cbn [pbind fst snd]; try (split; [lia|discriminate]).
        apply expect_len in Ex2. destruct (IHa d (FObject ref) r2 (acc ++ [VMsg sub])) as [O1 O2].
        split; [lia|]. intros x ts' E. specialize (O2 x ts' E). lia.
      - destruct (lookup e ref) as [[|props|]|]; fin.
        destruct (expect TOpenObj ts) as [r| | |] eqn:Ex; cbn [pbind fst snd]; try (split; [lia|discriminate]).
        apply expect_len in Ex. destruct (IHn d props r [] [] [] None) as [B1 B2]. unfold cbind.
        destruct (fst (oneof_body_c orc e me f d props r [] [] [] None)) as [[sub sr]| | |] eqn:Eb; cbn [fst snd]; try (split; [lia|discriminate]).
        specialize (B2 _ _ eq_refl).
        destruct (expect TCloseObj sr) as [r2| | |] eqn:Ex2; cbn [pbind fst snd]; try (split; [lia|discriminate]).
        apply expect_len in Ex2. destruct (IHa d (FOneof ref) r2 (acc ++ [VMsg sub])) as [O1 O2].
        split; [lia|]. intros x ts' E. specialize (O2 x ts' E). lia.
    Qed.

    Lemma bstep_map d item ts acc : within 1 (length ts) (map_items_c orc e me (S f) d item ts acc).
    Proof.
      destruct IH as (_ & IHo & IHn & _ & IHm).
      rewrite map_items_c_S. apply within_tick.
      destruct (has_more me ts); [|cbn [fst snd Ok']; split; [lia|intros x ts' E; inversion E; subst; lia]].
      destruct (next_token ts) as [[t0 r0]| | |] eqn:En0; cbn [pbind fst snd]; try (split; [lia|discriminate]).
      apply next_token_len in En0. destruct t0 as [| | |key| | | |]; fin.
      destruct item as [k|ref|ref|ref|it|it|pb]; fin; (destruct (map_get key acc); fin).
      - destruct (next_token r0) as [[t r]| | |] eqn:En; cbn [pbind fst snd]; try (split; [lia|discriminate]).
        apply next_token_len in En. destruct (is_delim t); fin.
        destruct (map_set_go_value orc k key t acc) as [acc'| | |]; cbn [pbind fst snd]; try (split; [lia|discriminate]).
        destruct (IHm d (FScalar k) r acc') as [O1 O2]. split; [lia|]. intros x ts' E. specialize (O2 x ts' E). lia.
      - destruct (next_token r0) as [[t r]| | |] eqn:En; cbn [pbind fst snd]; try (split; [lia|discriminate]).
        apply next_token_len in En. destruct t; fin.
        destruct (lookup e ref) as [[| |prefix opts]|]; fin.
        destruct (option_by_name prefix opts s); fin.
        destruct (map_set_value key (Some (VEnum z)) acc) as [acc'| | |]; cbn [pbind fst snd]; try (split; [lia|discriminate]).
        destruct (IHm d (FEnum ref) r acc') as [O1 O2]. split; [lia|]. intros x ts' E. specialize (O2 x ts' E). lia.
      - destruct (lookup e ref) as [[props| |]|]; fin.
        destruct (expect TOpenObj r0) as [r| | |] eqn:Ex; cbn [pbind fst snd]; try (split; [lia|discriminate]).
        apply expect_len in Ex. destruct (IHo d props r [] []) as [B1 B2]. unfold cbind.
        destruct (fst (object_body_c orc e me f d props r [] [])) as [[sub sr]| | |] eqn:Eb; cbn [fst snd]; try (split; [lia|discriminate]).
        specialize (B2 _ _ eq_refl).
        destruct (expect TCloseObj sr) as [r2| | |] eqn:Ex2; cbn [pbind fst snd]; try (split; [lia|discriminate]).
        apply expect_len in Ex2. destruct (IHm d (FObject ref) r2 (map_set key (VMsg sub) acc)) as [O1 O2].
        split; [lia|]. intros x ts' E. specialize (O2 x ts' E). lia.
      - destruct (lookup e ref) as [[|props|]|]; fin.
        destruct (expect TOpenObj r0) as [r| | |] eqn:Ex; cbn [pbind fst snd]; try (split; [lia|discriminate]).
        apply expect_len in Ex. destruct (IHn d props r [] [] [] None) as [B1 B2]. unfold cbind.
        destruct (fst (oneof_body_c orc e me f d props r [] [] [] None)) as [[sub sr]| | |] eqn:Eb; cbn [fst snd]; try (split; [lia|discriminate]).
        specialize (B2 _ _ eq_refl).
        destruct (expect TCloseObj sr) as [r2| | |] eqn:Ex2; cbn [pbind fst snd]; try (split; [lia|discriminate]).
        apply expect_len in Ex2. destruct (IHm d (FOneof ref) r2 (map_set key (VMsg sub) acc)) as [O1 O2].
        split; [lia|]. intros x ts' E. specialize (O2 x ts' E). lia.
    Qed.

    Lemma bstep_present d p ts m : within 0 (length ts) (decode_present_c orc e me (S f) d p ts m).
    Proof.
      destruct IH as (_ & IHo & IHn & IHa & IHm).
      rewrite decode_present_c_S. apply within_tick.
      destruct (p_ty p) as [k|ref|ref|ref|item|item|pb].
      - destruct (next_token ts) as [[t r]| | |] eqn:En; cbn [pbind fst snd]; try (split; [lia|discriminate]).
        apply next_token_len in En. destruct (is_delim t); fin.
        destruct (scalar_from_go orc k (goval_of_token t)) as [v| | |]; cbn [pbind fst snd]; try (split; [lia|discriminate]).
        match goal with |- context[pbind ?X _] => destruct X as [r0| | |] end; cbn [pbind fst snd Ok']; try (split; [lia|discriminate]).
        split; [lia|]. intros x ts' E. inversion E; subst. lia.
      - destruct (next_token ts) as [[t r]| | |] eqn:En; cbn [pbind fst snd]; try (split; [lia|discriminate]).
        apply next_token_len in En. destruct t; fin.
        destruct (lookup e ref) as [[| |prefix opts]|]; fin.
        destruct (option_by_name prefix opts s); fin.
        match goal with |- context[pbind ?X _] => destruct X as [r0| | |] end; cbn [pbind fst snd Ok']; try (split; [lia|discriminate]).
        split; [lia|]. intros x ts' E. inversion E; subst. lia.
      - destruct (expect TOpenObj ts) as [r| | |] eqn:Ex; cbn [pbind fst snd]; try (split; [lia|discriminate]).
        apply expect_len in Ex. destruct (lookup e ref) as [[props| |]|]; fin.
        apply (wh_pred (fun c => c <= length ts) (fun c ts' => S c + length ts' <= length ts + 0)); [lia|].
        intros nn h. destruct (msg_mutable (p_siblings p) nn h) as [sub h1].
        destruct (IHo d props r sub []) as [B1 B2]. unfold cbind.
        destruct (fst (object_body_c orc e me f d props r sub [])) as [[sub' sr]| | |] eqn:Eb; cbn [fst snd]; try (split; [lia|discriminate]).
        specialize (B2 _ _ eq_refl).
        destruct (expect TCloseObj sr) as [r2| | |] eqn:Ex2; cbn [pbind fst snd Ok']; try (split; [lia|discriminate]).
        apply expect_len in Ex2. split; [lia|]. intros x ts' E. inversion E; subst. lia.
      - destruct (expect TOpenObj ts) as [r| | |] eqn:Ex; cbn [pbind fst snd]; try (split; [lia|discriminate]).
        apply expect_len in Ex. destruct (lookup e ref) as [[|props|]|]; fin.
        destruct (p_path p) as [|n0 path0].
        + destruct (IHn d props r m [] [] None) as [B1 B2]. unfold cbind.
          destruct (fst (oneof_body_c orc e me f d props r m [] [] None)) as [[sub' sr]| | |] eqn:Eb; cbn [fst snd]; try (split; [lia|discriminate]).
          specialize (B2 _ _ eq_refl).
          destruct (expect TCloseObj sr) as [r2| | |] eqn:Ex2; cbn [pbind fst snd Ok']; try (split; [lia|discriminate]).
          apply expect_len in Ex2. split; [lia|]. intros x ts' E. inversion E; subst. lia.
        + apply (wh_pred (fun c => c <= length ts) (fun c ts' => S c + length ts' <= length ts + 0)); [lia|].
          intros nn h. destruct (msg_mutable (p_siblings p) nn h) as [sub h1].
          destruct (IHn d props r sub [] [] None) as [B1 B2]. unfold cbind.
          destruct (fst (oneof_body_c orc e me f d props r sub [] [] None)) as [[sub' sr]| | |] eqn:Eb; cbn [fst snd]; try (split; [lia|discriminate]).
          specialize (B2 _ _ eq_refl).
          destruct (expect TCloseObj sr) as [r2| | |] eqn:Ex2; cbn [pbind fst snd Ok']; try (split; [lia|discriminate]).
          apply expect_len in Ex2. split; [lia|]. intros x ts' E. inversion E; subst. lia.
      - destruct (expect TOpenArr ts) as [r| | |] eqn:Ex; cbn [pbind fst snd]; try (split; [lia|discriminate]).
        apply expect_len in Ex.
        destruct item; fin;
          (apply (wh_pred (fun c => c <= length ts) (fun c ts' => S c + length ts' <= length ts + 0)); [lia|];
           intros nn h; cbv zeta;
           match goal with |- context[array_items_c orc e me f d ?it r ?ex] =>
             destruct (IHa d it r ex) as [B1 B2]; unfold cbind;
             destruct (fst (array_items_c orc e me f d it r ex)) as [[l sr]| | |] eqn:Eb end;
           cbn [fst snd]; try (split; [lia|discriminate]);
           specialize (B2 _ _ eq_refl);
           destruct (expect TCloseArr sr) as [r2| | |] eqn:Ex2; cbn [pbind fst snd Ok']; try (split; [lia|discriminate]);
           apply expect_len in Ex2; split; [lia|]; intros x ts' E; inversion E; subst; lia).
      - destruct (expect TOpenObj ts) as [r| | |] eqn:Ex; cbn [pbind fst snd]; try (split; [lia|discriminate]).
        apply expect_len in Ex.
        destruct item; fin;
          (apply (wh_pred (fun c => c <= length ts) (fun c ts' => S c + length ts' <= length ts + 0)); [lia|];
           intros nn h; cbv zeta;
           match goal with |- context[map_items_c orc e me f d ?it r ?ex] =>
             destruct (IHm d it r ex) as [B1 B2]; unfold cbind;
             destruct (fst (map_items_c orc e me f d it r ex)) as [[l sr]| | |] eqn:Eb end;
           cbn [fst snd]; try (split; [lia|discriminate]);
           specialize (B2 _ _ eq_refl);
           destruct (expect TCloseObj sr) as [r2| | |] eqn:Ex2; cbn [pbind fst snd Ok']; try (split; [lia|discriminate]);
           apply expect_len in Ex2; split; [lia|]; intros x ts' E; inversion E; subst; lia).
      - destruct (expect TOpenObj ts) as [r| | |] eqn:Ex; cbn [pbind fst snd]; try (split; [lia|discriminate]).
        apply expect_len in Ex.
        apply (wh_pred (fun c => c <= length ts) (fun c ts' => S c + length ts' <= length ts + 0)); [lia|].
        intros nn h. destruct (msg_mutable (p_siblings p) nn h) as [sub h1].
        destruct (any_body_bound f r None None) as [B1 B2]. unfold cbind.
        destruct (fst (any_body_c me f r None None)) as [[[value ty] rest]| | |] eqn:Eb; cbn [fst snd]; try (split; [lia|discriminate]).
        specialize (B2 _ _ eq_refl).
        destruct ty; destruct value; cbn [fst snd Ok' Err']; try (split; [lia|discriminate]).
        destruct pb; cbn [fst snd Ok' Err']; try (split; [lia|discriminate]).
        destruct (expect TCloseObj rest) as [r2| | |] eqn:Ex2; cbn [pbind fst snd Ok']; try (split; [lia|discriminate]).
        apply expect_len in Ex2. split; [lia|]. intros x ts' E. inversion E; subst. lia.
    Qed.
  End Step.
End Bound.

Theorem bound_all orc e me : forall f, bound_level orc e me f.
Proof.
  induction f as [|f IH].
  - unfold bound_level, within. repeat split; intros; cbn in *; try lia; try discriminate.
  - split; [|split; [|split; [|split]]]; intros.
    + apply bstep_present; assumption.
    + apply bstep_object; assumption.
    + apply bstep_oneof; assumption.
    + apply bstep_array; assumption.
    + apply bstep_map; assumption.
Qed.

(* decodeRoot's descent: at most tokens + 1 steps *)
Theorem decode_tokens_steps orc e me fuel root ts :
  snd (decode_tokens_rest_c orc e me fuel root ts) <= length ts + 1.
Proof.
  destruct (bound_all orc e me fuel) as (_ & Bo & Bn & _).
  unfold decode_tokens_rest_c. destruct (lookup e root) as [[props|props|]|]; cbn [fst snd Err']; try lia.
  - destruct (expect TOpenObj ts) as [r| | |] eqn:Ex; cbn [pbind fst snd]; try lia.
    apply expect_len in Ex. destruct (Bo 0%N props r [] []) as [B1 B2]. unfold cbind.
    destruct (fst (object_body_c orc e me fuel 0%N props r [] [])) as [[m' sr]| | |]; cbn [fst snd]; try lia.
    destruct (expect TCloseObj sr); cbn [pbind fst snd Ok']; lia.
  - destruct (expect TOpenObj ts) as [r| | |] eqn:Ex; cbn [pbind fst snd]; try lia.
    apply expect_len in Ex. destruct (Bn 0%N props r [] [] [] None) as [B1 B2]. unfold cbind.
    destruct (fst (oneof_body_c orc e me fuel 0%N props r [] [] [] None)) as [[m' sr]| | |]; cbn [fst snd]; try lia.
    destruct (expect TCloseObj sr); cbn [pbind fst snd Ok']; lia.
Qed.

(* JSONToProto: at most (number of bytes + 1) steps, whatever the input and the outcome *)
Theorem decode_document_steps orc e root bs :
  snd (decode_document_c orc e root bs) <= length bs + 1.
Proof.
  unfold decode_document_c. pose proof (lex_length bs) as Hl. destruct (lex bs) as [ts me]. cbn [fst] in Hl.
  pose proof (decode_tokens_steps orc e me (S (length ts)) root ts) as Hs. unfold cbind.
  destruct (fst (decode_tokens_rest_c orc e me (S (length ts)) root ts)) as [mr| | |]; cbn [fst snd]; try lia.
  destruct (end_of_input (snd mr) (lex_at_eof bs)); cbn [pbind fst snd Ok']; lia.
Qed.

(* J5sLinkExtProofs.v — C13 through the link step: qualifying type names commutes with the
   embedding of descriptors, for messages whose names have the form the converter writes
   (nested names dot-free; a relative field type name is a nested name - a map entry - or a
   dotted path). *)
From Coq Require Import String List NArith Bool Lia.
From J5V.lib Require Import Outcome Corr.
From J5V.model Require Import J5sAst Desc J5sWalk J5sLink J5sConvert J5sContract J5sValid J5sEdit.
From J5V.proofs Require Import J5sProofs J5sContractProofs J5sLinkProofs J5sExtProofs J5sCompileProofs.
Import ListNotations.
Local Open Scope N_scope.

Definition has_dot (s : str) : bool := existsb (fun c => c =? 46) s.

Definition rel_tn_ok (nested : list str) (tn : str) : Prop :=
  tn = [] \/ hd 0 tn = 46 \/ In tn nested \/ has_dot tn = true.

Inductive named_ok : dmsg -> Prop :=
| named_intro : forall n k fs ms es,
    (forall m1, In m1 ms -> nodot_b (dm_name m1) = true) ->
    (forall f, In f fs -> rel_tn_ok (map dm_name ms) (f_tname f)) ->
    Forall named_ok ms ->
    named_ok (DMsg n k fs ms es).

Lemma nodot_no_dot s : nodot_b s = true -> has_dot s = false.
Proof.
  unfold nodot_b, has_dot. induction s as [|c r IH]; cbn; [reflexivity|]. intros H.
  apply andb_true_iff in H. destruct H as [Hc Hr]. apply negb_true_iff in Hc. rewrite Hc, (IH Hr). reflexivity.
Qed.

Lemma existsb_str_in tn l : existsb (str_eqb tn) l = true <-> In tn l.
Proof.
  rewrite existsb_exists. split.
  - intros (x & Hx & He). apply str_eqb_eq in He. subst. exact Hx.
  - intros H. exists tn. split; [exact H|apply str_eqb_refl].
Qed.

(* the qualified name of an old field does not change when more messages are nested *)
Lemma link_name_stable nested nested' fpkg scope tn :
  rel_tn_ok nested tn -> incl nested nested' -> (forall x, In x nested' -> nodot_b x = true) ->
  link_name nested fpkg scope tn = link_name nested' fpkg scope tn.
Proof.
  intros Hok Hinc Hnd. unfold link_name. destruct tn as [|c r]; [reflexivity|].
  destruct (c =? 46) eqn:Ec; [reflexivity|].
  destruct Hok as [H|[H|[H|H]]]; try discriminate.
  - cbn in H. apply N.eqb_neq in Ec. contradiction.
  - rewrite (proj2 (existsb_str_in _ _) H), (proj2 (existsb_str_in _ _) (Hinc _ H)). reflexivity.
  - assert (E1 : existsb (str_eqb (c :: r)) nested = false).
    { destruct (existsb (str_eqb (c :: r)) nested) eqn:E; [|reflexivity].
      apply existsb_str_in in E. apply Hinc, Hnd, nodot_no_dot in E. congruence. }
    assert (E2 : existsb (str_eqb (c :: r)) nested' = false).
    { destruct (existsb (str_eqb (c :: r)) nested') eqn:E; [|reflexivity].
      apply existsb_str_in in E. apply Hnd, nodot_no_dot in E. congruence. }
    rewrite E1, E2. reflexivity.
Qed.

Lemma msg_ext_name a c : msg_ext a c -> dm_name a = dm_name c.
Proof. intros H. inversion H. reflexivity. Qed.

Lemma sub_list_names ms ms' : sub_list msg_ext ms ms' -> incl (map dm_name ms) (map dm_name ms').
Proof.
  intros H. induction H as [l|a c l l' Hac Hl IH|c l l' Hl IH]; cbn [map].
  - intros x [].
  - rewrite (msg_ext_name _ _ Hac). intros x [<-|Hx]; [left; reflexivity|right; apply IH; exact Hx].
  - intros x Hx. right. apply IH. exact Hx.
Qed.

Theorem link_msg_ext fpkg : forall m m' pre,
  named_ok m -> named_ok m' -> msg_ext m m' ->
  msg_ext (link_msg fpkg pre m) (link_msg fpkg pre m').
Proof.
  induction m as [n k fs ms es IH] using dmsg_ind2. intros m' pre Hj Hj' Hext.
  inversion Hext as [n0 k0 fs0 fs' ms0 ms' es0 es' Hpre Hsub Hen]. subst.
  inversion Hj as [? ? ? ? ? Hnd Htn Hjs]. subst. inversion Hj' as [? ? ? ? ? Hnd' Htn' Hjs']. subst.
  rewrite !link_msg_eq. constructor.
  - destruct Hpre as [t ->]. rewrite map_app. exists (map (link_field (map dm_name ms') fpkg (pre ++ [n])) t). f_equal.
    apply map_ext_in. intros f Hf. unfold link_field. f_equal.
    symmetry. apply (link_name_stable (map dm_name ms) (map dm_name ms')); [apply Htn; exact Hf|apply sub_list_names; exact Hsub|].
    intros x Hx. apply in_map_iff in Hx. destruct Hx as (m1 & <- & Hm1). apply Hnd'. exact Hm1.
  - clear Hnd Htn Hnd' Htn' Hpre Hext Hj Hj'. revert IH Hjs Hjs'.
    induction Hsub as [l|a c l l' Hac Hl IHs|c l l' Hl IHs]; intros IH Hjs Hjs'; cbn [map].
    + constructor.
    + inversion IH as [|? ? Pa Pl]. inversion Hjs as [|? ? Ja Jl]. inversion Hjs' as [|? ? Jc Jl']. subst.
      apply sl_keep; [apply Pa; assumption|apply IHs; assumption].
    + inversion Hjs' as [|? ? Jc Jl']. subst. apply sl_skip. apply IHs; assumption.
  - exact Hen.
Qed.

Corollary link_msgs_ext fpkg ms ms' :
  Forall named_ok ms -> Forall named_ok ms' -> sub_list msg_ext ms ms' ->
  sub_list msg_ext (link_msgs fpkg ms) (link_msgs fpkg ms').
Proof.
  unfold link_msgs. intros Hj Hj' Hsub. revert Hj Hj'.
  induction Hsub as [l|a c l l' Hac Hl IH|c l l' Hl IH]; intros Hj Hj'; cbn [map].
  - constructor.
  - inversion Hj. inversion Hj'. subst. apply sl_keep; [apply link_msg_ext; assumption|apply IH; assumption].
  - inversion Hj'. subst. apply sl_skip. apply IH; assumption.
Qed.

(* ExportApiProofs.v — lemmas behind props/C15.v (package bookkeeping of APIFromImage).
   splitPackageParts followed by the name PackageSetFromSourceAPI rebuilds ("%s.%s") is the
   identity on package names; filing the exported schemas into packages / sub-packages and
   reading them back under those names yields exactly the exported (name, schema) pairs. *)
From Coq Require Import String List Arith NArith ZArith Bool Lia Permutation.
From J5V.lib Require Import Outcome.
From J5V.model Require Import ReflectDesc ReflectSchema Reflect ExportForm Export ExportApi.
From J5V.proofs Require Import ReflectProofs ExportProofs ReflectInvProofs ReflectOwnProofs ReflectWeakProofs.
From J5V.model Require Import ReflectOwn ReflectNames.
From J5V.proofs Require ReflectNamesProofs.
Import ListNotations.
Local Open Scope bool_scope.

(* ---------------------------------------------------------------- Split / Join *)
Lemma split_dots_nonempty s : split_dots s <> [].
Proof.
  induction s as [|c r IH]; cbn [split_dots]; [discriminate|].
  destruct (N.eqb c dot); [discriminate|]. destruct (split_dots r); discriminate.
Qed.

Lemma join_cons_nonempty x h t : join_dots (x :: h :: t) = x ++ dot :: join_dots (h :: t).
Proof. reflexivity. Qed.

Lemma join_split s : join_dots (split_dots s) = s.
Proof.
  induction s as [|c r IH]; cbn [split_dots]; [reflexivity|].
  destruct (N.eqb c dot) eqn:E.
  - apply N.eqb_eq in E. subst c. pose proof (split_dots_nonempty r) as Hn.
    destruct (split_dots r) as [|h t] eqn:Es; [contradiction|].
    rewrite join_cons_nonempty, IH. reflexivity.
  - pose proof (split_dots_nonempty r) as Hn. destruct (split_dots r) as [|h t] eqn:Es; [contradiction|].
    destruct t as [|h2 t2].
    + cbn [join_dots] in *. rewrite IH. reflexivity.
    + rewrite join_cons_nonempty in *. cbn [app]. rewrite IH. reflexivity.
Qed.

Lemma find_version_app parts pre suf :
  find_version parts = Some (pre, suf) -> parts = pre ++ suf /\ pre <> [].
Proof.
  revert pre suf. induction parts as [|p r IH]; intros pre suf H; cbn [find_version] in H; [discriminate|].
  destruct (is_version p).
  - inversion H; subst. split; [reflexivity|discriminate].
  - destruct (find_version r) as [[a b]|]; [|discriminate]. inversion H; subst.
    destruct (IH a suf eq_refl) as [E _]. split; [cbn [app]; rewrite E; reflexivity|discriminate].
Qed.

Lemma join_dots_snoc pre s : pre <> [] -> join_dots (pre ++ [s]) = join_dots pre ++ dot :: s.
Proof.
  induction pre as [|x r IH]; intros Hn; [contradiction|].
  destruct r as [|y r'].
  - reflexivity.
  - cbn [app]. rewrite join_cons_nonempty. change (y :: r' ++ [s]) with ((y :: r') ++ [s]).
    rewrite IH by discriminate. rewrite join_cons_nonempty, <- app_assoc. reflexivity.
Qed.

(* the name of the bucket a schema of proto package [pkg] is filed under *)
Definition bucket_name (id : str * option str) : str :=
  match snd id with None => fst id | Some s => sub_full_name (fst id) s end.

(* splitPackageParts then "%s.%s" gives the package name back *)
Theorem split_package_join pkg id : split_package pkg = ROk id -> bucket_name id = pkg.
Proof.
  unfold split_package. destruct (find_version (split_dots pkg)) as [[pre suf]|] eqn:Ef; [|discriminate].
  destruct (existsb is_version suf); [discriminate|].
  destruct (find_version_app _ _ _ Ef) as [Hp Hn].
  destruct suf as [|s [|s2 r]]; intros H; inversion H; subst id; unfold bucket_name; cbn [fst snd]; [reflexivity|].
  unfold sub_full_name. rewrite <- join_dots_snoc by exact Hn. rewrite <- Hp. apply join_split.
Qed.

Corollary split_package_inj a b id : split_package a = ROk id -> split_package b = ROk id -> a = b.
Proof. intros Ha Hb. rewrite <- (split_package_join a id Ha). apply split_package_join. exact Hb. Qed.

(* ---------------------------------------------------------------- filing schemas into packages *)
Definition bucket := (str * option str)%type.
Definition sb (pn : str) (sp : xsub) : list (bucket * str * xroot) :=
  match sp with XSub sn sl => map (fun nx => ((pn, Some sn), fst nx, snd nx)) sl end.
Definition pb (pk : xpackage) : list (bucket * str * xroot) :=
  match pk with XPackage pn _ l subs => map (fun nx => ((pn, None), fst nx, snd nx)) l ++ flat_map (sb pn) subs end.
Definition api_buckets (api : xapi) : list (bucket * str * xroot) := flat_map pb api.

Definition entry_of (t : bucket * str * xroot) : ref * xroot :=
  ((bucket_name (fst (fst t)), snd (fst t)), snd t).

Lemma api_entries_buckets api : api_entries api = map entry_of (api_buckets api).
Proof.
  unfold api_entries, api_buckets. induction api as [|[pn ind l subs] r IH]; cbn [flat_map]; [reflexivity|].
  rewrite map_app, IH. f_equal. unfold pb. rewrite map_app, map_map. f_equal.
  induction subs as [|[sn sl] rs IHs]; cbn [flat_map]; [reflexivity|].
  rewrite map_app, IHs. f_equal. unfold sb. rewrite map_map. reflexivity.
Qed.

(* the update of [route] *)
Definition put (api : xapi) (id : bucket) (n : str) (x : xroot) : xapi :=
  put_pkg api (fst id) (fun pk =>
    match pk with XPackage pn ind l subs =>
      match snd id with
      | None => XPackage pn ind (put_schema l n x) subs
      | Some s => XPackage pn ind l (put_sub subs s n x)
      end
    end).

Lemma route_put api k x api' :
  route api k x = ROk api' -> exists id, split_package (fst k) = ROk id /\ api' = put api id (snd k) x.
Proof.
  unfold route. destruct (split_package (fst k)) as [id|c]; cbn [rbind]; intros H; [|discriminate].
  inversion H; subst. exists id. split; reflexivity.
Qed.

Lemma put_schema_fresh l n x : ~ In n (map fst l) -> put_schema l n x = l ++ [(n, x)].
Proof.
  induction l as [|[n' x'] r IH]; intros H; cbn [put_schema]; [reflexivity|].
  cbn [map fst In] in H. destruct (str_eqb n' n) eqn:E.
  - apply str_eqb_eq in E. subst. exfalso. apply H. left. reflexivity.
  - cbn [app]. rewrite IH; [reflexivity|]. intros Hin. apply H. right. exact Hin.
Qed.

Lemma in_map_fst {A B} (l : list (A * B)) a : In a (map fst l) -> exists b, In (a, b) l.
Proof. intros H. apply in_map_iff in H as ([a' b] & E & Hin). cbn [fst] in E. subst. eauto. Qed.

Lemma put_sub_perm pn subs s n x :
  (forall x', ~ In ((pn, Some s), n, x') (flat_map (sb pn) subs)) ->
  Permutation (flat_map (sb pn) (put_sub subs s n x)) (((pn, Some s), n, x) :: flat_map (sb pn) subs).
Proof.
  induction subs as [|[s' l] r IH]; intros Hf; cbn [put_sub flat_map].
  - cbn. apply Permutation_refl.
  - destruct (str_eqb s' s) eqn:E.
    + apply str_eqb_eq in E. subst s'. cbn [flat_map sb].
      assert (Hn : ~ In n (map fst l)).
      { intros Hin. apply in_map_fst in Hin as (x' & Hx). apply (Hf x'). cbn [flat_map sb]. apply in_or_app. left.
        apply in_map_iff. exists (n, x'). split; [reflexivity|exact Hx]. }
      rewrite (put_schema_fresh l n x Hn), map_app. cbn [map fst snd]. rewrite <- app_assoc. cbn [app].
      apply Permutation_sym, Permutation_middle.
    + cbn [flat_map]. eapply Permutation_trans; [apply Permutation_app_head, IH|apply Permutation_sym, Permutation_middle].
      intros x' Hin. apply (Hf x'). cbn [flat_map]. apply in_or_app. right. exact Hin.
Qed.

Lemma put_perm api id n x :
  (forall x', ~ In (id, n, x') (api_buckets api)) ->
  Permutation (api_buckets (put api id n x)) ((id, n, x) :: api_buckets api).
Proof.
  destruct id as [p os]. unfold put. cbn [fst snd].
  induction api as [|[pn ind l subs] r IH]; intros Hf; cbn [put_pkg].
  - unfold api_buckets. cbn [flat_map pb]. destruct os as [s|]; cbn; apply Permutation_refl.
  - cbn [pk_name]. destruct (str_eqb pn p) eqn:E.
    + apply str_eqb_eq in E. subst pn. unfold api_buckets. cbn [flat_map].
      destruct os as [s|]; cbn [pb].
      * (* a sub-package *)
        assert (Hs : forall x', ~ In ((p, Some s), n, x') (flat_map (sb p) subs)).
        { intros x' Hin. apply (Hf x'). unfold api_buckets. cbn [flat_map pb]. apply in_or_app. left. apply in_or_app. right. exact Hin. }
        pose proof (put_sub_perm p subs s n x Hs) as Hp.
        rewrite <- !app_assoc.
        eapply Permutation_trans; [apply Permutation_app_head, Permutation_app_tail, Hp|].
        cbn [app]. apply Permutation_sym, Permutation_middle.
      * assert (Hn : ~ In n (map fst l)).
        { intros Hin. apply in_map_fst in Hin as (x' & Hx). apply (Hf x'). unfold api_buckets. cbn [flat_map pb].
          apply in_or_app. left. apply in_or_app. left. apply in_map_iff. exists (n, x'). split; [reflexivity|exact Hx]. }
        rewrite (put_schema_fresh l n x Hn), map_app. cbn [map fst snd]. rewrite <- !app_assoc. cbn [app].
        apply Permutation_sym, Permutation_middle.
    + unfold api_buckets in *. cbn [flat_map].
      eapply Permutation_trans; [apply Permutation_app_head, IH|apply Permutation_sym, Permutation_middle].
      intros x' Hin. apply (Hf x'). cbn [flat_map]. apply in_or_app. right. exact Hin.
Qed.

Lemma api_init_buckets W : api_buckets (api_init W) = [].
Proof. unfold api_buckets, api_init. induction W as [|w r IH]; cbn [map flat_map pb app]; [reflexivity|exact IH]. Qed.

(* filing the entries one after the other: every entry is read back under its own key, once *)
Lemma route_all_perm : forall X api api',
  route_all api X = ROk api' ->
  NoDup (map fst X) ->
  (forall k x id x', In (k, x) X -> split_package (fst k) = ROk id -> ~ In (id, snd k, x') (api_buckets api)) ->
  Permutation (api_entries api') (api_entries api ++ X).
Proof.
  induction X as [|[k x] rest IH]; intros api api' H Hnd Hf; cbn [route_all] in H.
  - inversion H; subst. rewrite app_nil_r. apply Permutation_refl.
  - destruct (route api k x) as [api1|c] eqn:Er; cbn [rbind] in H; [|discriminate].
    destruct (route_put _ _ _ _ Er) as (id & Hs & ->).
    cbn [map fst] in Hnd. inversion Hnd as [|? ? Hnot Hnd']; subst.
    assert (Hp : Permutation (api_buckets (put api id (snd k) x)) ((id, snd k, x) :: api_buckets api)).
    { apply put_perm. intros x'. apply (Hf k x id x'); [left; reflexivity|exact Hs]. }
    assert (Hk : entry_of (id, snd k, x) = (k, x)).
    { unfold entry_of. cbn [fst snd]. rewrite (split_package_join _ _ Hs). destruct k; reflexivity. }
    eapply Permutation_trans; [apply (IH _ api' H Hnd')|].
    + intros k2 x2 id2 x2' Hin2 Hs2 Hb. eapply Permutation_in in Hb; [|exact Hp]. destruct Hb as [Hb|Hb].
      * inversion Hb; subst id2. apply Hnot. apply (in_map fst) in Hin2. cbn [fst] in Hin2.
        assert (k2 = k) as <-; [|exact Hin2].
        destruct k2 as [a b], k as [c d]. cbn [fst snd] in *. rewrite (split_package_inj a c id Hs2 Hs). congruence.
      * apply (Hf k2 x2 id2 x2'); [right; exact Hin2|exact Hs2|exact Hb].
    + rewrite !api_entries_buckets. eapply Permutation_trans; [apply Permutation_app_tail, Permutation_map, Hp|].
      cbn [map]. rewrite Hk. cbn [app]. apply Permutation_middle.
Qed.

(* getSchemaSet + PackageSetFromSourceAPI's naming: the API holds exactly the exported pairs *)
(* from any API without schemas (the listed packages; after addStructure also empty sub-packages) *)
Theorem route_all_entries_from api0 X api :
  api_buckets api0 = [] ->
  route_all api0 X = ROk api -> NoDup (map fst X) -> Permutation (api_entries api) X.
Proof.
  intros Hb H Hnd.
  assert (He : api_entries api0 = []) by (rewrite api_entries_buckets, Hb; reflexivity).
  pose proof (route_all_perm X api0 api H Hnd) as Hp. rewrite He in Hp. cbn [app] in Hp. apply Hp.
  intros k x id x' _ _ Hin. rewrite Hb in Hin. destruct Hin.
Qed.

Theorem route_all_entries W X api :
  route_all (api_init W) X = ROk api -> NoDup (map fst X) -> Permutation (api_entries api) X.
Proof. apply route_all_entries_from. apply api_init_buckets. Qed.

(* addStructure files no schema: it only creates (empty) sub-packages of listed packages *)
Lemma touch_sub_buckets pn subs s : flat_map (sb pn) (touch_sub subs s) = flat_map (sb pn) subs.
Proof.
  induction subs as [|[s' l] r IH]; cbn [touch_sub flat_map sb map app]; [reflexivity|].
  destruct (str_eqb s' s); cbn [flat_map]; [reflexivity|]. rewrite IH. reflexivity.
Qed.

Lemma put_pkg_touch_buckets api p s :
  api_buckets api = [] ->
  api_buckets (put_pkg api p (fun pk => match pk with XPackage pn ind l subs => XPackage pn ind l (touch_sub subs s) end)) = [].
Proof.
  unfold api_buckets. induction api as [|[pn ind l subs] r IH]; intros H; cbn [put_pkg flat_map].
  - cbn [pb map flat_map touch_sub sb app]. reflexivity.
  - cbn [flat_map] in H. apply app_eq_nil in H as [H1 H2]. cbn [pk_name]. destruct (str_eqb pn p).
    + cbn [flat_map]. rewrite H2, app_nil_r. unfold pb in *. rewrite touch_sub_buckets. exact H1.
    + cbn [flat_map]. rewrite H1, IH by exact H2. reflexivity.
Qed.

Lemma add_service_buckets W api sv api1 :
  api_buckets api = [] -> add_service W api sv = ROk api1 -> api_buckets api1 = [].
Proof.
  intros Hb H. destruct sv as [pkg name kind methods]. cbn [add_service] in H.
  destruct (split_package pkg) as [[pn [sub|]]|c]; cbn [rbind fst snd] in H; try discriminate.
  - destruct (negb (existsb (str_eqb pn) W)); [inversion H; subst; exact Hb|].
    assert (Ht := put_pkg_touch_buckets api pn sub Hb).
    destruct (has_suffix s_Service name || has_suffix s_Sandbox name).
    { destruct (all_ok (build_method pkg kind) methods); cbn [rbind] in H; [|discriminate]. inversion H; subst. exact Ht. }
    destruct (has_suffix s_Events name); [inversion H; subst; exact Ht|].
    destruct (has_suffix s_Topic name); [|discriminate].
    destruct (all_ok (build_topic_method pkg) methods); cbn [rbind] in H; [|discriminate]. inversion H; subst. exact Ht.
  - destruct (negb (existsb (str_eqb pn) W)); [inversion H; subst; exact Hb|discriminate].
Qed.

Lemma add_structure_buckets W : forall svcs api api1,
  api_buckets api = [] -> add_structure W api svcs = ROk api1 -> api_buckets api1 = [].
Proof.
  induction svcs as [|sv r IH]; intros api api1 Hb H; cbn [add_structure] in H; [inversion H; subst; exact Hb|].
  destruct (add_service W api sv) as [api2|c] eqn:E; cbn [rbind] in H; [|discriminate].
  eapply IH; [|exact H]. eapply add_service_buckets; eauto.
Qed.

(* routing fails exactly when some package name does not split *)
Lemma route_all_ok : forall X api,
  (forall k x, In (k, x) X -> exists id, split_package (fst k) = ROk id) -> exists api', route_all api X = ROk api'.
Proof.
  induction X as [|[k x] rest IH]; intros api H; cbn [route_all]; [eauto|].
  destruct (H k x (or_introl eq_refl)) as (id & Hs). unfold route. rewrite Hs. cbn [rbind].
  apply IH. intros k2 x2 H2. apply (H k2 x2). right. exact H2.
Qed.

(* ---------------------------------------------------------------- C15 through the API *)
(* APIFromImage on a reflected set succeeds exactly when every package name splits *)
Definition packages_split (S : sset) : Prop :=
  forall k e, In (k, e) S -> exists id, split_package (fst k) = ROk id.

Theorem structure_files_no_schema W svcs apiS :
  add_structure W (api_init W) svcs = ROk apiS -> api_entries apiS = [].
Proof.
  intros H. rewrite api_entries_buckets, (add_structure_buckets W svcs _ _ (api_init_buckets W) H). reflexivity.
Qed.

(* the whole of C15 at the level of the API structure: for EVERY descriptor set (no hypothesis: what
   the round trip needs of a reflected set holds of every successful reflection, ReflectWeakProofs),
   if APIFromImage succeeds then PackageSetFromSourceAPI on its result succeeds, every schema
   of every package and sub-package is found again under the name it is filed under and exports to
   exactly the same form, nothing else is in the rebuilt set, every reference is resolved *)
Theorem api_roundtrip D svcs W fs api :
  api_from_image D svcs W fs = Ok api ->
  exists S', import_packages api = ROk S' /\
    (forall k x, In (k, x) (api_entries api) -> exists r', lookup S' k = Some (Linked r') /\ export_root r' = x) /\
    (forall k, ~ In k (map fst (api_entries api)) -> lookup S' k = None) /\
    refs_resolved S' = true.
Proof.
  intros H. unfold api_from_image, api_of_set_from in H.
  destruct (add_structure W (api_init W) svcs) as [apiS|c] eqn:Es; cbn [lift obind] in H; [|discriminate].
  pose proof (add_structure_buckets W svcs _ _ (api_init_buckets W) Es) as HbS.
  destruct (ReflectNames.o_reflect_checked D fs) as [[S ow]| | |] eqn:HC; cbn [omap obind fst] in H; try discriminate.
  pose proof (ReflectNamesProofs.o_reflect_checked_ok D fs (S, ow) HC) as HO.
  pose proof (o_reflect_ok D fs S ow HO) as HS.
  destruct (reflect_entries_ok_any D fs S HS) as (E2 & HndL & HimpL & HclL).
  rewrite E2 in H. cbn [obind] in H.
  destruct (route_all apiS (export_entries (linked_entries S))) as [api0|c] eqn:Er; cbn [lift] in H; [|discriminate].
  inversion H; subst api0.
  assert (Hk : NoDup (map fst (export_entries (linked_entries S)))) by (apply export_entries_hyps; assumption).
  pose proof (route_all_entries_from apiS _ api HbS Er Hk) as Hp.
  unfold import_packages. apply (export_import_roundtrip_perm (linked_entries S) _ Hp HndL HimpL HclL).
Qed.

(* and it does succeed when reflection succeeds and every package name has exactly one version part
   followed by at most one more part *)
Theorem api_from_image_ok D svcs W fs S ow apiS :
  add_structure W (api_init W) svcs = ROk apiS ->
  ReflectNames.o_reflect_checked D fs = Ok (S, ow) -> packages_split S -> exists api, api_from_image D svcs W fs = Ok api.
Proof.
  intros Hst HC Hsp. pose proof (ReflectNamesProofs.o_reflect_checked_ok D fs (S, ow) HC) as HO.
  pose proof (o_reflect_ok D fs S ow HO) as HS.
  unfold api_from_image, api_of_set_from. rewrite Hst. cbn [lift obind]. rewrite HC. cbn [omap obind fst].
  destruct (reflect_entries_ok_any D fs S HS) as (E2 & _). rewrite E2. cbn [obind].
  destruct (route_all_ok (export_entries (linked_entries S)) apiS) as (api & Ha).
  - intros k x Hin. unfold export_entries in Hin. apply in_map_iff in Hin as ([k0 r0] & Hf & H0). cbn [fst snd] in Hf.
    inversion Hf; subst k x. unfold linked_entries in H0. apply in_flat_map in H0 as ([k1 e1] & Hin1 & Hx).
    cbn [fst snd] in Hx. destruct e1 as [|r1]; [destruct Hx|]. destruct Hx as [Hx|[]]. inversion Hx; subst k1 r1.
    apply (Hsp k0 (Linked r0) Hin1).
  - exists api. rewrite Ha. reflexivity.
Qed.

(* J5sResolveProofs.v — references: whatever [resolve] (importMap.expand + implicitImports +
   Package.ResolveType) returns is justified by the documented import rule, and the file that
   defines the type ends up among the imports of the generated file. *)
From Coq Require Import String List NArith Bool Lia.
From J5V.lib Require Import Outcome Corr.
From J5V.model Require Import J5sAst Desc J5sWalk J5sLink J5sConvert J5sContract.
From J5V.proofs Require Import J5sProofs J5sContractProofs.
Import ListNotations.
Local Open Scope N_scope.

Lemma contains_slash_eq p : contains_slash p = existsb (fun c => c =? 47) p.
Proof. reflexivity. Qed.

Lemma import_map_sound l : forall acc im, import_map l acc = Ok im ->
  forall k v, assoc k im = Some v ->
    assoc k acc = Some v \/ exists i, In i l /\ import_key i k /\ v = import_pkg i.
Proof.
  induction l as [|i r IH]; intros acc im H k v Hk.
  - cbn in H. inversion H. subst. left. exact Hk.
  - cbn [import_map] in H. destruct (i_path i) as [|c0 p0] eqn:Ep; [discriminate|].
    rewrite <- Ep in H.
    assert (Hwit : forall (Q : Prop), (exists j, In j r /\ import_key j k /\ v = import_pkg j) ->
                   exists j, In j (i :: r) /\ import_key j k /\ v = import_pkg j).
    { intros _ (j & Hj & Hkj & Hv). exists j. split; [right; exact Hj|auto]. }
    destruct (contains_slash (i_path i)) eqn:Es.
    + destruct (IH _ _ H k v Hk) as [Ha|Hx]; [|right; apply (Hwit True Hx)].
      cbn [assoc] in Ha. destruct (str_eqb (package_from_filename (i_path i)) k) eqn:Ek; [|left; exact Ha].
      apply str_eqb_eq in Ek. inversion Ha. subst. right. exists i. split; [left; reflexivity|].
      unfold import_key, import_pkg. rewrite <- contains_slash_eq, Es. split; reflexivity.
    + destruct (i_alias i) as [|a0 al] eqn:Ea.
      * destruct (rev (split 46 (i_path i))) as [|s1 [|wv s2]] eqn:Er; try discriminate.
        destruct (IH _ _ H k v Hk) as [Ha|Hx]; [|right; apply (Hwit True Hx)].
        cbn [assoc] in Ha. destruct (str_eqb (i_path i) k) eqn:Ek1.
        { apply str_eqb_eq in Ek1. inversion Ha. subst. right. exists i. split; [left; reflexivity|].
          unfold import_key, import_pkg. rewrite <- contains_slash_eq, Es, Ea. split; [left; reflexivity|reflexivity]. }
        destruct (str_eqb wv k) eqn:Ek2; [|left; exact Ha].
        apply str_eqb_eq in Ek2. inversion Ha. subst. right. exists i. split; [left; reflexivity|].
        unfold import_key, import_pkg, last_but_one. rewrite <- contains_slash_eq, Es, Ea, Er.
        split; [right; reflexivity|reflexivity].
      * rewrite <- Ea in H.
        destruct (IH _ _ H k v Hk) as [Ha|Hx]; [|right; apply (Hwit True Hx)].
        cbn [assoc] in Ha. destruct (str_eqb (i_alias i) k) eqn:Ek; [|left; exact Ha].
        apply str_eqb_eq in Ek. inversion Ha. subst. right. exists i. split; [left; reflexivity|].
        unfold import_key, import_pkg. rewrite <- contains_slash_eq, Es, Ea. split; reflexivity.
Qed.

Lemma implicit_ref_sound tbl pkg name t :
  implicit_ref tbl pkg name = Some t ->
  In (pkg, name, tr_file t) tbl /\ tr_pkg t = pkg /\ tr_name t = name /\ tr_enum t = false.
Proof.
  induction tbl as [|[[p n] f] r IH]; cbn; [discriminate|].
  destruct (str_eqb p pkg && str_eqb n name) eqn:E.
  - apply andb_true_iff in E. destruct E as [E1 E2]. apply str_eqb_eq in E1, E2. subst.
    intros H. inversion H. subst. cbn. auto.
  - intros H. destruct (IH H) as (A & B). split; [right; exact A|exact B].
Qed.

Lemma lookup_last_sound name l : forall acc t,
  lookup_last name l acc = Some t -> acc = Some t \/ (In t l /\ tr_name t = name).
Proof.
  induction l as [|x r IH]; intros acc t H; cbn in H; [left; exact H|].
  destruct (IH _ _ H) as [Ha|[Hi Hn]].
  - destruct (str_eqb (tr_name x) name) eqn:E.
    + inversion Ha. subst. apply str_eqb_eq in E. right. split; [left; reflexivity|exact E].
    + left. exact Ha.
  - right. split; [right; exact Hi|exact Hn].
Qed.

(* soundness of reference resolution: the resolved type is a well-known implicitly importable
   type, or a declaration called r_name of the package that the written prefix denotes by the
   documented import rule *)
Theorem resolve_sound this imports im exports r t :
  import_map imports [] = Ok im ->
  resolve (mkEnv this im exports) r = Ok t ->
  (exists pkg, In (pkg, r_name r, tr_file t) implicit_table /\ tr_pkg t = pkg /\ tr_name t = r_name r /\ tr_enum t = false) \/
  (exists full ex, denotes this imports (r_pkg r) full /\ exports full = Some ex /\ In t ex /\ tr_name t = r_name r).
Proof.
  intros Him H. unfold resolve in H. cbn [ev_this ev_imports ev_exports] in H.
  assert (Hlk : forall pkg, (match exports pkg with
                             | Some ex => match lookup_last (r_name r) ex None with Some t0 => Ok t0 | None => Err "type not found" end
                             | None => Err "package not loaded"
                             end = Ok t) -> exists ex, exports pkg = Some ex /\ In t ex /\ tr_name t = r_name r).
  { intros pkg Hp. destruct (exports pkg) as [ex|]; [|discriminate].
    destruct (lookup_last (r_name r) ex None) as [t0|] eqn:El; [|discriminate]. inversion Hp. subst t0.
    destruct (lookup_last_sound _ _ _ _ El) as [Hn|[Hi Hn]]; [discriminate|]. exists ex. auto. }
  destruct ((match r_pkg r with [] => true | _ => false end) || str_eqb (r_pkg r) this) eqn:Eown.
  - right. destruct (Hlk _ H) as (ex & He & Hi & Hn). exists this, ex.
    split; [|auto]. apply den_own; [|reflexivity].
    apply orb_true_iff in Eown. destruct Eown as [E|E]; [left; destruct (r_pkg r); [reflexivity|discriminate]|right; apply str_eqb_eq; exact E].
  - destruct (implicit_ref implicit_table (r_pkg r) (r_name r)) as [ti|] eqn:Ei.
    + inversion H. subst ti. left. exists (r_pkg r). apply implicit_ref_sound. exact Ei.
    + destruct (assoc (r_pkg r) im) as [full|] eqn:Ea; [|discriminate].
      destruct (import_map_sound _ _ _ Him _ _ Ea) as [Hn|(i & Hin & Hk & Hv)]; [discriminate|].
      destruct (implicit_ref implicit_table full (r_name r)) as [ti|] eqn:Ei2.
      * inversion H. subst ti. left. exists full. apply implicit_ref_sound. exact Ei2.
      * right. destruct (Hlk _ H) as (ex & He & Hi & Hn). exists full, ex. split; [|auto].
        eapply den_import; eassumption.
Qed.

(* ------------------------------------------------------------------ the right import *)
Lemma in_insert_dep x y l : In x (insert_dep y l) <-> x = y \/ In x l.
Proof.
  induction l as [|z r IH]; cbn [insert_dep].
  - cbn. split; intros [H|H]; auto.
  - destruct (str_eqb y z) eqn:E.
    + apply str_eqb_eq in E. subst. cbn. split; [auto|]. intros [H|H]; [left; auto|exact H].
    + destruct (str_ltb y z); cbn [In].
      * split; intros [H|H]; auto.
      * rewrite IH. split; [intros [H|[H|H]]; auto|intros [H|[H|H]]; auto].
Qed.

Lemma in_deps_of self imps x : In x imps -> x <> self -> In x (deps_of self imps).
Proof.
  unfold deps_of. intros Hin Hne.
  assert (G : forall l acc, (In x acc \/ In x l) ->
              In x (fold_left (fun acc i => if str_eqb i self then acc else insert_dep i acc) l acc)).
  { induction l as [|y r IH]; intros acc Hor; cbn [fold_left].
    - destruct Hor as [H|H]; [exact H|destruct H].
    - apply IH. destruct Hor as [H|[Hy|H]].
      + left. destruct (str_eqb y self); [exact H|]. apply in_insert_dep. right. exact H.
      + subst y. left. destruct (str_eqb x self) eqn:E; [apply str_eqb_eq in E; contradiction|].
        apply in_insert_dep. left. reflexivity.
      + right. exact H. }
  apply G. right. exact Hin.
Qed.

Section Imports.
Variables snake camel screaming : str -> str.
Notation cv_item := (cv_item snake camel screaming).
Notation cv_props := (cv_props snake camel screaming).
Notation cv_property := (cv_property snake camel screaming).

Definition refs_imported (ev : env) (refs : list ref) (imps : list str) : Prop :=
  forall rf, In rf refs -> exists t, resolve ev rf = Ok t /\ In (tr_file t) imps.

Lemma ref_core_imports ev r we c :
  ref_core ev r we = Ok c -> exists t, resolve ev r = Ok t /\ In (tr_file t) (fc_imports c) /\ fc_tname c = tr_tname t.
Proof.
  unfold ref_core. intros H. inv_ok H. exists a. split; [exact E|].
  destruct we; destruct (tr_enum a); try discriminate; inversion H; subst; cbn; auto.
Qed.

Lemma finish_imports io rq op sn n num c lbl ty tn msgs imps r :
  finish io rq op sn n num c lbl ty tn msgs imps = Ok r -> incl imps (pr_imports r).
Proof.
  unfold finish. destruct (rq && op); [discriminate|]. destruct (io && _); [discriminate|].
  intros H. inversion H. subst. cbn. apply incl_appl. apply incl_refl.
Qed.

(* every reference of a run of properties, at any depth, resolved, and the file defining its
   target is among the imports collected for the generated file *)
Theorem convert_imports ev :
  (forall f, (forall path dflt c, cv_item ev path dflt f = Ok c -> refs_imported ev (refs_of_field f) (fc_imports c)) /\
             match f with
             | FArray it | FMap it => forall path dflt c, cv_item ev path dflt it = Ok c -> refs_imported ev (refs_of_field it) (fc_imports c)
             | _ => True
             end) /\
  (forall ps path io n r, cv_props ev path io n ps = Ok r -> refs_imported ev (refs_of_props ps) (pr_imports r)) /\
  (forall p path io n r, cv_property ev path io n p = Ok r -> refs_imported ev (refs_of_property p) (pr_imports r)).
Proof.
  apply ast_mutind.
  - intros s. split; [|exact I]. intros path dflt c _ rf [].
  - intros r. split; [|exact I]. intros path dflt c H rf [<-|[]]. cbn in H.
    destruct (ref_core_imports _ _ _ _ H) as (t & Ht & Hi & _). exists t. auto.
  - intros nm ps IH. split; [|exact I]. intros path dflt c H. rewrite (cv_item_obj snake camel screaming) in H.
    inv_ok H. inversion H. subst c. cbn [fc_imports refs_of_field]. intros rf Hrf.
    destruct (IH _ _ _ _ E rf Hrf) as (t & Ht & Hi). exists t. split; [exact Ht|right; exact Hi].
  - intros r. split; [|exact I]. intros path dflt c H rf [<-|[]]. cbn in H.
    destruct (ref_core_imports _ _ _ _ H) as (t & Ht & Hi & _). exists t. auto.
  - intros nm ps IH. split; [|exact I]. intros path dflt c H. rewrite (cv_item_oneof snake camel screaming) in H.
    inv_ok H. inversion H. subst c. cbn [fc_imports refs_of_field]. intros rf Hrf.
    destruct (IH _ _ _ _ E rf Hrf) as (t & Ht & Hi). exists t. split; [exact Ht|right; exact Hi].
  - intros r. split; [|exact I]. intros path dflt c H rf [<-|[]]. cbn in H.
    destruct (ref_core_imports _ _ _ _ H) as (t & Ht & Hi & _). exists t. auto.
  - intros e. split; [|exact I]. intros path dflt c _ rf [].
  - intros it [IH _]. split; [|exact IH]. intros path dflt c H. cbn in H. discriminate.
  - intros it [IH _]. split; [|exact IH]. intros path dflt c H. cbn in H. discriminate.
  - intros path io n r _ rf [].
  - intros p IHp ps IHps path io n r H. rewrite (cv_props_cons snake camel screaming) in H. inv_ok H.
    inversion H. subst r. cbn [refs_of_props pres_app pr_imports]. intros rf Hrf. apply in_app_or in Hrf.
    destruct Hrf as [Hrf|Hrf].
    + destruct (IHp _ _ _ _ E rf Hrf) as (t & Ht & Hi). exists t. split; [exact Ht|apply in_or_app; left; exact Hi].
    + destruct (IHps _ _ _ _ E0 rf Hrf) as (t & Ht & Hi). exists t. split; [exact Ht|apply in_or_app; right; exact Hi].
  - intros n rq op f [IH IHit] path io num r H. rewrite (cv_property_eq snake camel screaming) in H.
    cbn [refs_of_property]. destruct f as [s|rf0|nm ps|rf0|nm ps|rf0|e|it|it]; inv_ok H;
      try (destruct io; [discriminate|]); pose proof (finish_imports _ _ _ _ _ _ _ _ _ _ _ _ _ H) as Hinc.
    1-7: intros rf Hrf; destruct (IH _ _ _ E rf Hrf) as (t & Ht & Hi); exists t; split; [exact Ht|apply Hinc; exact Hi].
    + intros rf Hrf. destruct (IHit _ _ _ E rf Hrf) as (t & Ht & Hi). exists t. split; [exact Ht|].
      apply Hinc. right. apply in_or_app. left. exact Hi.
    + intros rf Hrf. destruct (IHit _ _ _ E rf Hrf) as (t & Ht & Hi). exists t. split; [exact Ht|apply Hinc; exact Hi].
Qed.

End Imports.

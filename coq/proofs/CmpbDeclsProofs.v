(* CmpbDeclsProofs.v — enums with any number of options and services with any number of methods:
   no panic (but for list_request), links in isolation, accepted when in the language. By induction
   over the option / method lists. *)
From Coq Require Import String List Bool Arith Lia.
From J5V.lib Require Import Outcome.
From J5V.model Require Import CmpbFields CmpbDecls.
Import ListNotations.
Local Open Scope bool_scope.

(* ---- computed facts about the sites (from the regenerated extension table) *)
Lemma typed_enum_info : site_typed st_enum_info = true. Proof. vm_compute. reflexivity. Qed.
Lemma typed_enum_value : site_typed st_enum_value = true. Proof. vm_compute. reflexivity. Qed.
Lemma typed_method_http : site_typed st_method_http = true. Proof. vm_compute. reflexivity. Qed.
Lemma typed_method_opts : site_typed st_method_opts = true. Proof. vm_compute. reflexivity. Qed.
Lemma typed_service_opts : site_typed st_service_opts = true. Proof. vm_compute. reflexivity. Qed.
Lemma typed_object_msg : site_typed st_object_msg = true. Proof. vm_compute. reflexivity. Qed.
Lemma imp_of_XEnum : ext_imp XEnum = Some IJ5Ext. Proof. vm_compute. reflexivity. Qed.
Lemma imp_of_XEnumValue : ext_imp XEnumValue = Some IJ5Ext. Proof. vm_compute. reflexivity. Qed.
Lemma imp_of_XHttp : ext_imp XHttp = Some IGApiAnnotations. Proof. vm_compute. reflexivity. Qed.
Lemma imp_of_XMethod : ext_imp XMethod = Some IJ5Ext. Proof. vm_compute. reflexivity. Qed.
Lemma imp_of_XService : ext_imp XService = Some IJ5Ext. Proof. vm_compute. reflexivity. Qed.
Lemma imp_of_XMessage : ext_imp XMessage = Some IJ5Ext. Proof. vm_compute. reflexivity. Qed.

(* ---- sets as lists *)
Lemma imp_eqb_refl i : imp_eqb i i = true.
Proof. destruct i; reflexivity. Qed.
Lemma mem_imp_app i l1 l2 : mem_imp i (l1 ++ l2) = mem_imp i l1 || mem_imp i l2.
Proof. unfold mem_imp. apply existsb_app. Qed.
Lemma mem_imp_add_same i l : mem_imp i (add_imp i l) = true.
Proof.
  unfold add_imp. destruct (mem_imp i l) eqn:E; [exact E|].
  rewrite mem_imp_app. cbn. rewrite imp_eqb_refl. rewrite orb_true_r. reflexivity.
Qed.
Lemma mem_imp_add_mono i j l : mem_imp i l = true -> mem_imp i (add_imp j l) = true.
Proof.
  intro H. unfold add_imp. destruct (mem_imp j l); [exact H|]. rewrite mem_imp_app, H. reflexivity.
Qed.
Lemma ext_imported_mono e j l : ext_imported l e = true -> ext_imported (add_imp j l) e = true.
Proof. unfold ext_imported. destruct (ext_imp e); [apply mem_imp_add_mono|auto]. Qed.
Lemma forallb_imported_mono j l es : forallb (ext_imported l) es = true -> forallb (ext_imported (add_imp j l)) es = true.
Proof.
  rewrite !forallb_forall. intros H x Hx. apply ext_imported_mono. apply H. exact Hx.
Qed.
Lemma forallb_add_ext (P : ext -> bool) e l : P e = true -> forallb P l = true -> forallb P (add_ext e l) = true.
Proof.
  intros He Hl. unfold add_ext. destruct (mem_ext e l); [exact Hl|].
  rewrite forallb_app, Hl. cbn. rewrite He. reflexivity.
Qed.

(* a state in which nothing went wrong so far: no panic, every extension used is imported *)
Definition sound (s : dstate) : Prop := d_panic s = false /\ links_d s = true.

Lemma sound_d0 : sound d0.
Proof. split; reflexivity. Qed.
Lemma sound_ens i s : sound s -> sound (ens i s).
Proof. intros [P L]. split; [exact P|]. unfold links_d, ens; cbn. apply forallb_imported_mono. exact L. Qed.
Lemma sound_err s : sound s -> sound (err_d s).
Proof. intros [P L]. split; assumption. Qed.
Lemma sound_set x i s : site_typed x = true -> ext_imp (s_ext x) = Some i -> mem_imp i (d_imps s) = true -> sound s -> sound (set_d x s).
Proof.
  intros Ht Hi Hm [P L]. unfold set_d. rewrite Ht. split; [exact P|].
  unfold links_d; cbn. apply forallb_add_ext; [|exact L]. unfold ext_imported. rewrite Hi. exact Hm.
Qed.
Lemma nerr_ens i s : d_nerr (ens i s) = d_nerr s. Proof. reflexivity. Qed.
Lemma nerr_set x s : d_nerr (set_d x s) = d_nerr s.
Proof. unfold set_d. destruct (site_typed x); reflexivity. Qed.
Lemma imps_set x s : d_imps (set_d x s) = d_imps s.
Proof. unfold set_d. destruct (site_typed x); reflexivity. Qed.
Lemma mem_ens_same i s : mem_imp i (d_imps (ens i s)) = true.
Proof. apply mem_imp_add_same. Qed.
Lemma mem_ens_mono i j s : mem_imp i (d_imps s) = true -> mem_imp i (d_imps (ens j s)) = true.
Proof. apply mem_imp_add_mono. Qed.

Lemma verdict_ok s : sound s -> d_nerr s = 0 -> verdict_d s = VOk.
Proof. intros [P L] N. unfold verdict_d. rewrite P, N, L. reflexivity. Qed.

(* ---- enums: any number of options, with or without info *)
Lemma enum_fold l : forall s,
  sound s -> d_nerr s = 0 -> (existsb (fun b : bool => b) l = true -> mem_imp IJ5Ext (d_imps s) = true) ->
  let s' := fold_left (fun s (b : bool) => if b then set_d st_enum_value s else s) l s in
  sound s' /\ d_nerr s' = 0.
Proof.
  induction l as [|b r IH]; intros s Hs Hn Hm; cbn [fold_left]; [split; assumption|].
  destruct b.
  - apply IH.
    + apply (sound_set _ IJ5Ext); [exact typed_enum_value|exact imp_of_XEnumValue|apply Hm; reflexivity|exact Hs].
    + rewrite nerr_set. exact Hn.
    + intros _. rewrite imps_set. apply Hm. reflexivity.
  - apply IH; [exact Hs|exact Hn|]. intro H. apply Hm. cbn. exact H.
Qed.

Theorem enum_accepted : forall e, verdict_d (compile_enum e) = VOk.
Proof.
  intros [info opts]. unfold compile_enum; cbn [en_info en_option_infos].
  set (s1 := if info then set_d st_enum_info (ens IJ5Ext d0) else d0).
  assert (H1 : sound s1 /\ d_nerr s1 = 0).
  { unfold s1. destruct info; [|split; [apply sound_d0|reflexivity]]. split.
    - apply (sound_set _ IJ5Ext); [exact typed_enum_info|exact imp_of_XEnum|apply mem_ens_same|apply sound_ens; apply sound_d0].
    - rewrite nerr_set. reflexivity. }
  destruct H1 as [S1 N1].
  destruct (existsb (fun b : bool => b) opts) eqn:E.
  - destruct (enum_fold opts (ens IJ5Ext s1)) as [S N]; [apply sound_ens; exact S1|exact N1|intros _; apply mem_ens_same|].
    apply verdict_ok; assumption.
  - destruct (enum_fold opts s1) as [S N]; [exact S1|exact N1|rewrite E; discriminate|].
    apply verdict_ok; assumption.
Qed.

(* ---- services: any number of methods *)
Definition no_list_request (ms : list method) : Prop := forall m, In m ms -> m_list_request m = false.

Lemma method_sound s m : sound s -> sound (visit_method s m).
Proof.
  intros Hs. unfold visit_method.
  assert (S0 : sound (ens IGApiAnnotations s)) by (apply sound_ens; exact Hs).
  destruct (m_request m); cbn [negb]; [|apply sound_err; exact S0].
  set (s1 := if m_raw_response m then ens IGApiHttpBody (ens IGApiAnnotations s) else ens IGApiAnnotations s).
  assert (S1 : sound s1 /\ mem_imp IGApiAnnotations (d_imps s1) = true).
  { unfold s1. destruct (m_raw_response m).
    - split; [apply sound_ens; exact S0|apply mem_ens_mono; apply mem_ens_same].
    - split; [exact S0|apply mem_ens_same]. }
  destruct S1 as [S1 M1].
  set (s2 := if m_path_params_ok m then s1 else err_d s1).
  assert (S2 : sound s2 /\ mem_imp IGApiAnnotations (d_imps s2) = true).
  { unfold s2. destruct (m_path_params_ok m); split; auto; try (apply sound_err; exact S1). }
  destruct S2 as [S2 M2].
  assert (Hh : sound (set_d st_method_http s2)).
  { apply (sound_set _ IGApiAnnotations); [exact typed_method_http|exact imp_of_XHttp|exact M2|exact S2]. }
  assert (Ho : sound (if m_options m then set_d st_method_opts (ens IJ5Ext (set_d st_method_http s2)) else set_d st_method_http s2)).
  { destruct (m_options m); [|exact Hh].
    apply (sound_set _ IJ5Ext); [exact typed_method_opts|exact imp_of_XMethod|apply mem_ens_same|apply sound_ens; exact Hh]. }
  destruct (m_http m); try (destruct (m_list_request m); [apply sound_err|]; exact Ho). apply sound_err. exact S2.
Qed.

Lemma methods_sound ms : forall s, sound s -> sound (fold_left visit_method ms s).
Proof.
  induction ms as [|m r IH]; intros s Hs; cbn [fold_left]; [exact Hs|].
  apply IH. apply method_sound. exact Hs.
Qed.

Lemma service_sound sv : sound (compile_service sv).
Proof.
  unfold compile_service.
  set (s := fold_left visit_method (sv_methods sv) d0).
  assert (S : sound s) by (apply methods_sound; apply sound_d0).
  set (s1 := if sv_options sv then set_d st_service_opts (ens IJ5Ext s) else s).
  assert (S1 : sound s1).
  { unfold s1. destruct (sv_options sv); [|exact S].
    apply (sound_set _ IJ5Ext); [exact typed_service_opts|exact imp_of_XService|apply mem_ens_same|apply sound_ens; exact S]. }
  unfold visit_io_objects. destruct (existsb m_request (sv_methods sv)); [|exact S1].
  apply (sound_set _ IJ5Ext); [exact typed_object_msg|exact imp_of_XMessage|apply mem_ens_same|apply sound_ens; exact S1].
Qed.

(* no panic and no link error for ANY service (since fix 985f10a a list request is an error, not a panic) *)
Theorem service_total_links : forall sv,
  verdict_d (compile_service sv) <> VPanic /\ verdict_d (compile_service sv) <> VLinkErr.
Proof.
  intros sv. destruct (service_sound sv) as [P L]. unfold verdict_d. rewrite P.
  destruct (Nat.ltb 0 (d_nerr (compile_service sv))); [split; discriminate|]. rewrite L. split; discriminate.
Qed.

(* errors are only recorded for methods outside the language *)
Lemma method_nerr s m : method_in_language m = true -> m_list_request m = false -> d_nerr (visit_method s m) = d_nerr s.
Proof.
  unfold method_in_language, visit_method. intros H Hlr.
  apply andb_prop in H. destruct H as [H Hh]. apply andb_prop in H. destruct H as [Hr Hp].
  rewrite Hr, Hp, Hlr. cbn [negb].
  assert (E : forall t : dstate, d_nerr t = d_nerr t) by reflexivity.
  assert (E2 : forall t, d_nerr (if m_options m then set_d st_method_opts (ens IJ5Ext t) else t) = d_nerr t)
    by (intro t; destruct (m_options m); [rewrite nerr_set; reflexivity|reflexivity]).
  destruct (m_http m); try discriminate; rewrite E2, nerr_set; destruct (m_raw_response m); reflexivity.
Qed.
Lemma methods_nerr ms : forall s, forallb method_in_language ms = true -> no_list_request ms ->
  d_nerr (fold_left visit_method ms s) = d_nerr s.
Proof.
  induction ms as [|m r IH]; intros s H Hn; cbn [fold_left]; [reflexivity|].
  cbn [forallb] in H. apply andb_prop in H. destruct H as [Hm Hr].
  rewrite IH; [|exact Hr|intros x Hx; apply Hn; right; exact Hx]. apply method_nerr; [exact Hm|apply Hn; left; reflexivity].
Qed.

Theorem service_accepted : forall sv,
  service_in_language sv = true -> no_list_request (sv_methods sv) -> verdict_d (compile_service sv) = VOk.
Proof.
  intros sv Hl Hn. apply verdict_ok; [apply service_sound|].
  unfold service_in_language in Hl. apply andb_prop in Hl. destruct Hl as [_ Hf].
  unfold compile_service, visit_io_objects.
  assert (N0 : d_nerr (fold_left visit_method (sv_methods sv) d0) = 0) by (rewrite methods_nerr; [reflexivity|exact Hf|exact Hn]).
  destruct (sv_options sv), (existsb m_request (sv_methods sv)); repeat (rewrite ?nerr_set, ?nerr_ens); exact N0.
Qed.

(* the full statement for services fails: a list request is rejected (recorded finding; it panicked before fix 985f10a) *)
Definition listreq_service := mkService [mkMethod true HGet false true false true] false.
Lemma service_listrequest_rejected :
  service_in_language listreq_service = true /\ verdict_d (compile_service listreq_service) = VConvErr.
Proof. vm_compute. split; reflexivity. Qed.

(* ---- topics, object and oneof shells *)
Lemma typed_topic_service : site_typed st_topic_service = true. Proof. vm_compute. reflexivity. Qed.
Lemma typed_object_psm : site_typed st_object_psm = true. Proof. vm_compute. reflexivity. Qed.
Lemma typed_oneof_msg : site_typed st_oneof_msg = true. Proof. vm_compute. reflexivity. Qed.

Theorem topic_accepted : forall t, verdict_d (compile_topic t) = VOk.
Proof.
  intro t. unfold compile_topic.
  destruct (Nat.ltb 0 (topic_messages t)); destruct (topic_has_metadata t); vm_compute; reflexivity.
Qed.
Theorem object_shell_accepted : forall entity, verdict_d (compile_object_shell entity) = VOk.
Proof. intros [|]; vm_compute; reflexivity. Qed.
Theorem oneof_shell_accepted : verdict_d compile_oneof_shell = VOk.
Proof. vm_compute. reflexivity. Qed.

(* every site of the model's call-site table is exercised by one of the model functions: the field
   sites by build_property / set_j5ext (CmpbFields.v), the declaration sites by the functions above *)
Definition decl_sites_used : list site :=
  [st_topic_service; st_object_psm; st_object_msg; st_oneof_msg; st_enum_info; st_enum_value;
   st_service_opts; st_method_http; st_method_opts].
Lemma decl_sites_are_model_sites :
  forallb (fun x => existsb (fun y => String.eqb (s_func x) (s_func y) && ext_eqb (s_ext x) (s_ext y)) model_sites) decl_sites_used = true.
Proof. vm_compute. reflexivity. Qed.

Definition service_full_statement : Prop :=
  forall sv, service_in_language sv = true -> verdict_d (compile_service sv) = VOk.
Lemma service_full_refuted : ~ service_full_statement.
Proof.
  intro H. destruct service_listrequest_rejected as [Hl Hp]. rewrite (H _ Hl) in Hp. discriminate.
Qed.

(* ------------------------------------------------------------ whole files, by induction over the declarations *)
From J5V.proofs Require Import CmpbFieldsProofs.

Lemma fold_add_imp_mem l : forall acc i, mem_imp i acc = true -> mem_imp i (fold_left (fun l i => add_imp i l) l acc) = true.
Proof. induction l as [|x r IH]; intros acc i H; cbn [fold_left]; [exact H|]. apply IH. apply mem_imp_add_mono. exact H. Qed.
Lemma fold_add_imp_in l : forall acc i, mem_imp i l = true -> mem_imp i (fold_left (fun l i => add_imp i l) l acc) = true.
Proof.
  induction l as [|x r IH]; intros acc i H; [discriminate|]. cbn [fold_left]. unfold mem_imp in H. cbn [existsb] in H.
  apply orb_prop in H. destruct H as [H|H].
  - apply fold_add_imp_mem. assert (i = x) by (destruct i, x; try discriminate; reflexivity). subst. apply mem_imp_add_same.
  - apply IH. exact H.
Qed.
Lemma ext_imported_weaken l1 l2 e : (forall i, mem_imp i l1 = true -> mem_imp i l2 = true) -> ext_imported l1 e = true -> ext_imported l2 e = true.
Proof. intros H. unfold ext_imported. destruct (ext_imp e); auto. Qed.
Lemma forallb_fold_add_ext (P : ext -> bool) l : forall acc, forallb P acc = true -> forallb P l = true ->
  forallb P (fold_left (fun l e => add_ext e l) l acc) = true.
Proof.
  induction l as [|x r IH]; intros acc Ha Hl; cbn [fold_left]; [exact Ha|]. cbn [forallb] in Hl.
  apply andb_prop in Hl. destruct Hl as [Hx Hr]. apply IH; [apply forallb_add_ext; assumption|exact Hr].
Qed.

Lemma sound_merge a b : sound a -> sound b -> sound (merge a b).
Proof.
  intros [Pa La] [Pb Lb]. split; [cbn; rewrite Pa, Pb; reflexivity|].
  unfold links_d in La, Lb. unfold links_d, merge; cbn [d_imps d_exts]. apply forallb_fold_add_ext.
  - rewrite forallb_forall in *. intros e He. apply (ext_imported_weaken (d_imps a)); [apply fold_add_imp_mem|apply La; exact He].
  - rewrite forallb_forall in *. intros e He. apply (ext_imported_weaken (d_imps b)); [intros i Hi; apply fold_add_imp_in; exact Hi|apply Lb; exact He].
Qed.
Lemma nerr_merge a b : d_nerr (merge a b) = d_nerr a + d_nerr b.
Proof. reflexivity. Qed.

(* one property: never a panic, and when it converts everything it sets is imported (iso theorems) *)
Lemma sound_prop_state p : sound (prop_state p).
Proof.
  unfold prop_state. pose proof (iso_no_panic p) as Hn. destruct (o_verdict (compile_iso p)) eqn:E; try contradiction.
  - split; [reflexivity|]. unfold links_d; cbn [d_imps d_exts]. rewrite forallb_forall. intros e He.
    apply (iso_imports_cover p E). right. exact He.
  - split; reflexivity.
  - exfalso. exact (iso_no_link_error p E).
Qed.
Lemma nerr_prop_state p : prop_accepted p = true -> d_nerr (prop_state p) = 0.
Proof.
  intro H. unfold prop_state. rewrite (iso_language_accepted p H). reflexivity.
Qed.

Lemma sound_props props : forall s, sound s -> sound (fold_left (fun s p => merge s (prop_state p)) props s).
Proof. induction props as [|p r IH]; intros s Hs; cbn [fold_left]; [exact Hs|]. apply IH. apply sound_merge; [exact Hs|apply sound_prop_state]. Qed.
Lemma nerr_props props : forall s, forallb prop_accepted props = true ->
  d_nerr (fold_left (fun s p => merge s (prop_state p)) props s) = d_nerr s.
Proof.
  induction props as [|p r IH]; intros s H; cbn [fold_left]; [reflexivity|]. cbn [forallb] in H. apply andb_prop in H.
  destruct H as [Hp Hr]. rewrite IH by exact Hr. rewrite nerr_merge, (nerr_prop_state p Hp). lia.
Qed.

Lemma sound_of_ok s : verdict_d s = VOk -> sound s /\ d_nerr s = 0.
Proof.
  unfold verdict_d. destruct (d_panic s) eqn:P; [discriminate|]. destruct (Nat.ltb 0 (d_nerr s)) eqn:N; [discriminate|].
  destruct (links_d s) eqn:L; [|discriminate]. intros _. split; [split; assumption|]. apply Nat.ltb_ge in N. lia.
Qed.

Lemma sound_decl_all d : sound (decl_state d).
Proof.
  destruct d as [entity props|props|e|sv|t]; cbn [decl_state].
  - apply sound_props. apply (sound_of_ok _ (object_shell_accepted entity)).
  - apply sound_props. apply (sound_of_ok _ oneof_shell_accepted).
  - apply (sound_of_ok _ (enum_accepted e)).
  - apply service_sound.
  - apply (sound_of_ok _ (topic_accepted t)).
Qed.
Lemma sound_decl d : decl_has_list_request d = false -> sound (decl_state d).
Proof. intros _. apply sound_decl_all. Qed.
Lemma nerr_decl d : decl_in_language d = true -> decl_has_list_request d = false -> d_nerr (decl_state d) = 0.
Proof.
  destruct d as [entity props|props|e|sv|t]; cbn [decl_state decl_in_language decl_has_list_request]; intros Hl Hr.
  - rewrite nerr_props by exact Hl. apply (sound_of_ok _ (object_shell_accepted entity)).
  - rewrite nerr_props by exact Hl. apply (sound_of_ok _ oneof_shell_accepted).
  - apply (sound_of_ok _ (enum_accepted e)).
  - apply (sound_of_ok (compile_service sv)). apply service_accepted; [exact Hl|].
    intros m Hm. destruct (m_list_request m) eqn:E; [|reflexivity].
    assert (existsb m_list_request (sv_methods sv) = true) by (apply existsb_exists; eauto). congruence.
  - apply (sound_of_ok _ (topic_accepted t)).
Qed.

Definition no_list_requests (ds : list decl) : Prop := forall d, In d ds -> decl_has_list_request d = false.

Lemma sound_file_all t ds : forall s, sound s ->
  sound (fold_left (fun s d => if target_eqb (decl_target d) t then merge s (decl_state d) else s) ds s).
Proof.
  induction ds as [|d r IH]; intros s Hs; cbn [fold_left]; [exact Hs|].
  apply IH. destruct (target_eqb (decl_target d) t); [|exact Hs]. apply sound_merge; [exact Hs|apply sound_decl_all].
Qed.
Lemma sound_file t ds : no_list_requests ds -> forall s, sound s ->
  sound (fold_left (fun s d => if target_eqb (decl_target d) t then merge s (decl_state d) else s) ds s).
Proof. intros _. apply sound_file_all. Qed.
Lemma nerr_file t ds : no_list_requests ds -> forallb decl_in_language ds = true -> forall s,
  d_nerr (fold_left (fun s d => if target_eqb (decl_target d) t then merge s (decl_state d) else s) ds s) = d_nerr s.
Proof.
  induction ds as [|d r IH]; intros Hn Hl s; cbn [fold_left]; [reflexivity|]. cbn [forallb] in Hl. apply andb_prop in Hl.
  destruct Hl as [Hd Hr]. rewrite IH; [|intros x Hx; apply Hn; right; exact Hx|exact Hr].
  destruct (target_eqb (decl_target d) t); [|reflexivity]. rewrite nerr_merge, (nerr_decl d Hd); [lia|]. apply Hn. left. reflexivity.
Qed.

(* a file of ANY declarations: the converter does not panic and, when no error is recorded, all three output
   files link (since fix 985f10a a list request is an error like any other) *)
Theorem file_total_links_all : forall ds, file_verdict ds <> VPanic /\ file_verdict ds <> VLinkErr.
Proof.
  intros ds.
  destruct (sound_file_all FMain ds d0 sound_d0) as [P1 L1].
  destruct (sound_file_all FService ds d0 sound_d0) as [P2 L2].
  destruct (sound_file_all FTopic ds d0 sound_d0) as [P3 L3].
  unfold file_verdict, file_panics, file_state. rewrite P1, P2, P3. cbn [orb].
  destruct (Nat.ltb 0 (file_nerr ds)); [split; discriminate|].
  unfold file_state in L1, L2, L3 |- *. rewrite L1, L2, L3. split; discriminate.
Qed.

Theorem file_total_links : forall ds, no_list_requests ds ->
  file_verdict ds <> VPanic /\ file_verdict ds <> VLinkErr.
Proof. intros ds _. apply file_total_links_all. Qed.
Lemma file_never_panics ds : file_panics ds = false.
Proof.
  destruct (sound_file_all FMain ds d0 sound_d0) as [P1 _].
  destruct (sound_file_all FService ds d0 sound_d0) as [P2 _].
  destruct (sound_file_all FTopic ds d0 sound_d0) as [P3 _].
  unfold file_panics, file_state. rewrite P1, P2, P3. reflexivity.
Qed.

(* every file whose declarations are in the documented language (minus the recorded gaps) is accepted *)
Theorem file_accepted : forall ds, no_list_requests ds -> forallb decl_in_language ds = true -> file_verdict ds = VOk.
Proof.
  intros ds Hn Hl.
  destruct (sound_file FMain ds Hn d0 sound_d0) as [P1 L1].
  destruct (sound_file FService ds Hn d0 sound_d0) as [P2 L2].
  destruct (sound_file FTopic ds Hn d0 sound_d0) as [P3 L3].
  unfold file_verdict, file_panics, file_nerr, file_state in *. rewrite P1, P2, P3. cbn [orb].
  rewrite !(nerr_file _ ds Hn Hl d0). cbn. rewrite L1, L2, L3. reflexivity.
Qed.

(* "without depending on unrelated declarations": removing any declarations from an accepted file of
   in-language declarations leaves an accepted file *)
Theorem file_isolation : forall ds ds', no_list_requests ds -> forallb decl_in_language ds = true ->
  (forall d, In d ds' -> In d ds) -> file_verdict ds' = VOk.
Proof.
  intros ds ds' Hn Hl Hsub. apply file_accepted.
  - intros d Hd. apply Hn. apply Hsub. exact Hd.
  - rewrite forallb_forall in *. intros d Hd. apply Hl. apply Hsub. exact Hd.
Qed.

(* BclParseBytesProofs.v — C11 for ParseFile on the Go string (bytes, any byte sequence incl. invalid
   UTF-8): the statement of C11 with every position read against strings.Split(input, "\n") on bytes
   (what the diagnostic printer and editors index), columns in runes of that byte line. *)
From Coq Require Import String List NArith ZArith Bool Lia.
From J5V.lib Require Import Text Outcome.
From J5V.model Require Import BclLexer BclParser BclErrpos.
From J5V.proofs Require Import BclPosProofs BclLexerProofs BclParserProofs BclErrposProofs BclTextProofs BclBytesProofs BclUtf8Proofs.
Import ListNotations.
Local Open Scope Z_scope.

Definition diag_inside_bytes (input : list N) (d : diag) : Prop :=
  inside_bytes input (dstart d) /\ inside_bytes input (dend d) /\ pos_le (dstart d) (dend d).
Definition node_inside_bytes (input : list N) (n : pnode) : Prop :=
  let '(_, st, en) := n in inside_bytes input st /\ inside_bytes input en /\ pos_le st en.

Lemma diag_wf_bytes input d : diag_wf (utf8_decode input) d -> diag_inside_bytes input d.
Proof.
  intros (A & B & C). split; [|split]; [apply valid_inside_bytes; exact A|apply valid_inside_bytes; exact B|exact C].
Qed.
Lemma node_wf_bytes input n : node_wf (utf8_decode input) n -> node_inside_bytes input n.
Proof.
  destruct n as [[k st] en]. intros (A & B & C).
  split; [|split]; [apply valid_inside_bytes; exact A|apply valid_inside_bytes; exact B|exact C].
Qed.

(* a column counted in runes never exceeds the byte length of the line: the byte slice
   errLine[:column] humanString takes is in bounds for every position inside the input *)
Lemma decode_length_le : forall fuel bs, (length (utf8_decode_fuel fuel bs) <= length bs)%nat.
Proof.
  induction fuel as [|f IH]; intros bs; cbn [utf8_decode_fuel]; [cbn; lia|].
  destruct (decode_rune bs) as [[r n]|] eqn:E; [|cbn; lia]. cbn [length].
  assert (Hn : (1 <= N.to_nat n)%nat /\ bs <> []).
  { unfold decode_rune in E. destruct bs as [|b0 r0]; [discriminate|]. split; [|discriminate].
    destruct (b0 <? 128)%N; [injection E as _ <-; cbn; lia|].
    destruct (lead_class b0) as [[[k lo] hi]|]; [|injection E as _ <-; cbn; lia].
    repeat match type of E with
           | (match ?l with [] => _ | _ :: _ => _ end) = _ => destruct l
           | (if ?c then _ else _) = _ => destruct c
           end; injection E as _ <-; cbn; lia. }
  destruct Hn as [Hn Hne]. specialize (IH (skipn (N.to_nat n) bs)).
  pose proof (skipn_length (N.to_nat n) bs) as Hs.
  destruct bs as [|b0 r0]; [contradiction|]. cbn [length] in *. lia.
Qed.

Lemma inside_bytes_col_le_bytes input p : inside_bytes input p ->
  exists l, nth_error (split_on 10 input) (Z.to_nat (fst p)) = Some l /\ snd p <= Z.of_nat (length l).
Proof.
  intros (A & B & l & Hn & Hl). exists l. split; [exact Hn|].
  pose proof (decode_length_le (length l) l) as H. unfold utf8_decode in Hl. lia.
Qed.

Theorem parse_file_full_bytes : forall (input : list N) (ff : bool),
    (exists p, parse_file input ff = Ok p /\
       ((exists body, ptree p = Some body) /\ pdiags p = [] \/ pdiags p <> []) /\
       Forall (diag_inside_bytes input) (pdiags p) /\
       (forall body, ptree p = Some body -> Forall (node_inside_bytes input) (flat_map stmt_nodes body))) /\
    (match parse_file input true, parse_file input false with
     | Ok p1, Ok p2 => hd_error (pdiags p1) = hd_error (pdiags p2)
     | _, _ => False
     end) /\
    (forall context ds, is_panic (human_bytes input context ds) = false).
Proof.
  intros input ff. unfold parse_file. split; [|split].
  - destruct (parse_runes_total ff (utf8_decode input)) as [p Hp]. exists p. split; [exact Hp|]. split.
    + exact (parse_runes_tree_or_diags ff _ p Hp).
    + destruct (parse_runes_positions ff _ p Hp) as [Hd Hn]. split.
      * eapply Forall_impl; [|exact Hd]. intros d. apply diag_wf_bytes.
      * intros body Hb. eapply Forall_impl; [|exact (Hn body Hb)]. intros n. apply node_wf_bytes.
  - exact (parse_runes_modes (utf8_decode input)).
  - intros context ds. unfold human_bytes. apply human_all_no_panic.
Qed.

(* a (line, column-in-runes) position of the input is the position of a BYTE offset of the Go string:
   the offset len(bpre) of a byte prefix that ends at a rune boundary of []rune(input) *)
Theorem valid_pos_byte_offset : forall input p, valid_pos (utf8_decode input) p ->
  exists bpre bx, input = bpre ++ bx /\ p = P (utf8_decode bpre).
Proof.
  intros input p (pre & (x & Hx) & Hp).
  destruct (decode_prefix_bytes input pre x Hx) as (bpre & bx & Hb & Hd & _).
  exists bpre, bx. split; [exact Hb|]. rewrite Hd. exact Hp.
Qed.

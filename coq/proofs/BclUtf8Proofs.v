(* BclUtf8Proofs.v — UTF-8 round trip facts about lib/Text.v:
   [utf8_decode] only yields valid runes (never a surrogate, never > U+10FFFF),
   and decoding the encoding of a list of valid runes gives the list back. *)
From Coq Require Import String List NArith ZArith Bool Lia ZifyN ZifyNat ZifyBool.
From J5V.lib Require Import Text.
From J5V.proofs Require Import BclTextProofs.
Import ListNotations.
Local Open Scope N_scope.
Arguments Nat.sub : simpl never.

Definition valid_runes (rs : list N) : Prop := Forall (fun c => valid_rune c = true) rs.

Lemma valid_rune_spec c : valid_rune c = true <-> c <= 1114111 /\ (c < 55296 \/ 57343 < c).
Proof. unfold valid_rune, is_surrogate, in_byte_range. lia. Qed.

Lemma valid_rune_error : valid_rune rune_error = true.
Proof. reflexivity. Qed.

Lemma valid_rune_ascii c : c < 128 -> valid_rune c = true.
Proof. intros H. apply valid_rune_spec. lia. Qed.

(* the exact table of utf8.first[] *)
Lemma lead_class_cases b0 n lo hi : lead_class b0 = Some (n, lo, hi) ->
  (n = 2 /\ 194 <= b0 <= 223 /\ lo = 128 /\ hi = 191) \/
  (n = 3 /\ 224 <= b0 <= 239 /\ 128 <= lo /\ hi <= 191 /\ (b0 = 224 -> lo = 160) /\ (b0 = 237 -> hi = 159)) \/
  (n = 4 /\ 240 <= b0 <= 244 /\ 128 <= lo /\ hi <= 191 /\ (b0 = 240 -> lo = 144) /\ (b0 = 244 -> hi = 143)).
Proof.
  unfold lead_class, in_byte_range.
  repeat match goal with |- context [if ?c then _ else _] => destruct c eqn:? end;
    intros [= <- <- <-]; lia.
Qed.

Lemma decode_rune_valid bs r n : decode_rune bs = Some (r, n) -> valid_rune r = true.
Proof.
  destruct bs as [|b0 r0]; [discriminate|]. cbn [decode_rune].
  destruct (b0 <? 128) eqn:E0.
  { intros [= <- <-]. apply valid_rune_ascii. lia. }
  destruct (lead_class b0) as [[[k lo] hi]|] eqn:El; [|intros [= <- <-]; exact valid_rune_error].
  pose proof (lead_class_cases _ _ _ _ El) as Hc.
  destruct r0 as [|b1 r1]; [intros [= <- <-]; exact valid_rune_error|].
  destruct (in_byte_range lo hi b1) eqn:E1; [|intros [= <- <-]; exact valid_rune_error].
  apply in_byte_range_spec in E1.
  destruct (k =? 2) eqn:Ek2.
  { intros [= <- <-]. apply valid_rune_spec. lia. }
  destruct r1 as [|b2 r2]; [intros [= <- <-]; exact valid_rune_error|].
  destruct (is_cont b2) eqn:E2; [|intros [= <- <-]; exact valid_rune_error].
  unfold is_cont in E2. apply in_byte_range_spec in E2.
  destruct (k =? 3) eqn:Ek3.
  { intros [= <- <-]. apply valid_rune_spec. lia. }
  destruct r2 as [|b3 r3]; [intros [= <- <-]; exact valid_rune_error|].
  destruct (is_cont b3) eqn:E3; [|intros [= <- <-]; exact valid_rune_error].
  unfold is_cont in E3. apply in_byte_range_spec in E3.
  intros [= <- <-]. apply valid_rune_spec. lia.
Qed.

Lemma decode_fuel_valid : forall fuel bs, valid_runes (utf8_decode_fuel fuel bs).
Proof.
  induction fuel as [|f IH]; intros bs; [constructor|].
  cbn [utf8_decode_fuel]. destruct (decode_rune bs) as [[r n]|] eqn:E; [|constructor].
  constructor; [exact (decode_rune_valid _ _ _ E)|apply IH].
Qed.

(* []rune(s) never contains a surrogate or a value above U+10FFFF *)
Theorem decode_valid : forall bs, Forall (fun c => valid_rune c = true) (utf8_decode bs).
Proof. intros bs. apply decode_fuel_valid. Qed.

(* ---- decode after encode ---------------------------------------------------------- *)
Lemma encode_rune_length c : length (encode_rune c) = N.to_nat (rune_len c).
Proof.
  unfold encode_rune, rune_len.
  destruct (c <? 128); [reflexivity|]. destruct (c <? 2048); [reflexivity|].
  destruct (negb (valid_rune c)); [reflexivity|]. destruct (c <? 65536); reflexivity.
Qed.

Lemma lead_class_2 b0 : 194 <= b0 <= 223 -> lead_class b0 = Some (2, 128, 191).
Proof. intros H. unfold lead_class, in_byte_range. replace ((194 <=? b0) && (b0 <=? 223)) with true by lia. reflexivity. Qed.

Lemma lead_class_3 b0 : 224 <= b0 <= 239 -> exists lo hi, lead_class b0 = Some (3, lo, hi) /\
  lo = (if b0 =? 224 then 160 else 128) /\ hi = (if b0 =? 237 then 159 else 191).
Proof.
  intros H. unfold lead_class, in_byte_range.
  replace ((194 <=? b0) && (b0 <=? 223)) with false by lia.
  destruct (b0 =? 224) eqn:E224; [eexists _, _; split; [reflexivity|]; replace (b0 =? 237) with false by lia; split; reflexivity|].
  destruct ((225 <=? b0) && (b0 <=? 236)) eqn:Ea; [eexists _, _; split; [reflexivity|]; replace (b0 =? 237) with false by lia; split; reflexivity|].
  destruct (b0 =? 237) eqn:E237; [eexists _, _; split; [reflexivity|]; split; reflexivity|].
  replace ((238 <=? b0) && (b0 <=? 239)) with true by lia.
  eexists _, _; split; [reflexivity|]; split; reflexivity.
Qed.

Lemma lead_class_4 b0 : 240 <= b0 <= 244 -> exists lo hi, lead_class b0 = Some (4, lo, hi) /\
  lo = (if b0 =? 240 then 144 else 128) /\ hi = (if b0 =? 244 then 143 else 191).
Proof.
  intros H. unfold lead_class, in_byte_range.
  replace ((194 <=? b0) && (b0 <=? 223)) with false by lia.
  replace (b0 =? 224) with false by lia.
  replace ((225 <=? b0) && (b0 <=? 236)) with false by lia.
  replace (b0 =? 237) with false by lia.
  replace ((238 <=? b0) && (b0 <=? 239)) with false by lia.
  destruct (b0 =? 240) eqn:E240; [eexists _, _; split; [reflexivity|]; replace (b0 =? 244) with false by lia; split; reflexivity|].
  destruct ((241 <=? b0) && (b0 <=? 243)) eqn:Ea; [eexists _, _; split; [reflexivity|]; replace (b0 =? 244) with false by lia; split; reflexivity|].
  replace (b0 =? 244) with true by lia.
  eexists _, _; split; [reflexivity|]; split; reflexivity.
Qed.

Lemma decode_encode_rune c tl : valid_rune c = true ->
  decode_rune (encode_rune c ++ tl) = Some (c, rune_len c).
Proof.
  intros Hv. pose proof (proj1 (valid_rune_spec c) Hv) as [Hmax Hsur].
  unfold encode_rune, rune_len. rewrite Hv. cbn [negb].
  destruct (c <? 128) eqn:E1.
  { cbn [app decode_rune]. rewrite E1. reflexivity. }
  pose proof (N.div_mod c 64 ltac:(lia)) as Hdm0.
  pose proof (N.mod_lt c 64 ltac:(lia)) as Hr0.
  destruct (c <? 2048) eqn:E2.
  { cbn [app decode_rune].
    set (q := c / 64) in *. set (r := c mod 64) in *.
    replace (192 + q <? 128) with false by lia.
    rewrite lead_class_2 by lia.
    unfold in_byte_range. replace ((128 <=? 128 + r) && (128 + r <=? 191)) with true by lia.
    cbn [N.eqb Pos.eqb]. f_equal. f_equal. lia. }
  pose proof (N.div_mod (c / 64) 64 ltac:(lia)) as Hdm1.
  pose proof (N.mod_lt (c / 64) 64 ltac:(lia)) as Hr1.
  destruct (c <? 65536) eqn:E3.
  { replace (c / 4096) with (c / 64 / 64) by (rewrite N.div_div by lia; reflexivity).
    cbn [app decode_rune].
    set (q := c / 64) in *. set (r := c mod 64) in *.
    set (q1 := q / 64) in *. set (r1 := q mod 64) in *.
    replace (224 + q1 <? 128) with false by lia.
    destruct (lead_class_3 (224 + q1) ltac:(lia)) as (lo & hi & El & Hlo & Hhi).
    rewrite El.
    replace (in_byte_range lo hi (128 + r1)) with true
      by (symmetry; apply in_byte_range_spec; subst lo hi;
          destruct (224 + q1 =? 224) eqn:Ea; destruct (224 + q1 =? 237) eqn:Eb; lia).
    unfold is_cont, in_byte_range. replace ((128 <=? 128 + r) && (128 + r <=? 191)) with true by lia.
    cbn [N.eqb Pos.eqb]. f_equal. f_equal. lia. }
  pose proof (N.div_mod (c / 64 / 64) 64 ltac:(lia)) as Hdm2.
  pose proof (N.mod_lt (c / 64 / 64) 64 ltac:(lia)) as Hr2.
  replace (c / 262144) with (c / 64 / 64 / 64) by (rewrite !N.div_div by lia; reflexivity).
  replace (c / 4096) with (c / 64 / 64) by (rewrite N.div_div by lia; reflexivity).
  cbn [app decode_rune].
  set (q := c / 64) in *. set (r := c mod 64) in *.
  set (q1 := q / 64) in *. set (r1 := q mod 64) in *.
  set (q2 := q1 / 64) in *. set (r2 := q1 mod 64) in *.
  replace (240 + q2 <? 128) with false by lia.
  destruct (lead_class_4 (240 + q2) ltac:(lia)) as (lo & hi & El & Hlo & Hhi).
  rewrite El.
  replace (in_byte_range lo hi (128 + r2)) with true
    by (symmetry; apply in_byte_range_spec; subst lo hi;
        destruct (240 + q2 =? 240) eqn:Ea; destruct (240 + q2 =? 244) eqn:Eb; lia).
  unfold is_cont, in_byte_range.
  replace ((128 <=? 128 + r1) && (128 + r1 <=? 191)) with true by lia.
  replace ((128 <=? 128 + r) && (128 + r <=? 191)) with true by lia.
  cbn [N.eqb Pos.eqb]. f_equal. f_equal. lia.
Qed.

(* []rune(string(rs)) = rs when rs has no invalid rune *)
Theorem decode_encode : forall rs, Forall (fun c => valid_rune c = true) rs ->
  utf8_decode (utf8_encode rs) = rs.
Proof.
  induction rs as [|c rs IH]; intros Hv; [reflexivity|].
  inversion Hv as [|c' rs' Hc Hrs]; subst c' rs'.
  unfold utf8_encode. cbn [flat_map]. fold (utf8_encode rs).
  rewrite (decode_cons_step _ c (rune_len c) (decode_encode_rune c (utf8_encode rs) Hc)).
  rewrite <- encode_rune_length.
  rewrite skipn_app, skipn_all, Nat.sub_diag. cbn [app skipn].
  rewrite (IH Hrs). reflexivity.
Qed.

Corollary decode_encode_decode : forall bs,
  utf8_decode (utf8_encode (utf8_decode bs)) = utf8_decode bs.
Proof. intros bs. apply decode_encode, decode_valid. Qed.

Lemma valid_runes_app a b : valid_runes a -> valid_runes b -> valid_runes (a ++ b).
Proof. intros Ha Hb. apply Forall_app. split; assumption. Qed.

(* ---- rune prefixes are decodings of byte prefixes ------------------------------------------------ *)
Lemma decode_rune_cons_some b0 r0 : decode_rune (b0 :: r0) <> None.
Proof.
  cbn [decode_rune]. destruct (b0 <? 128); [discriminate|].
  destruct (lead_class b0) as [[[k lo] hi]|]; [|discriminate].
  destruct r0 as [|b1 r1]; [discriminate|]. destruct (in_byte_range lo hi b1); [|discriminate].
  destruct (k =? 2); [discriminate|]. destruct r1 as [|b2 r2]; [discriminate|].
  destruct (is_cont b2); [|discriminate]. destruct (k =? 3); [discriminate|].
  destruct r2 as [|b3 r3]; [discriminate|]. destruct (is_cont b3); discriminate.
Qed.

(* a decoding step only depends on the bytes it consumes; a failing step fails on every prefix *)
Lemma decode_rune_prefix p q r n : decode_rune (p ++ q) = Some (r, n) ->
  (N.to_nat n <= length p)%nat -> decode_rune p = Some (r, n).
Proof.
  destruct p as [|b0 p].
  { cbn [app]. intros H Hn. destruct (decode_rune_nl _ _ _ H). cbn [length] in Hn. lia. }
  cbn [app decode_rune].
  destruct (b0 <? 128); [auto|].
  destruct (lead_class b0) as [[[k lo] hi]|]; [|auto].
  destruct p as [|b1 p]; cbn [app].
  { destruct q as [|b1 q]; [auto|]. destruct (in_byte_range lo hi b1); [|auto].
    destruct (k =? 2); [intros [= <- <-] Hn; cbn [length] in Hn; lia|].
    destruct q as [|b2 q]; [auto|]. destruct (is_cont b2); [|auto].
    destruct (k =? 3); [intros [= <- <-] Hn; cbn [length] in Hn; lia|].
    destruct q as [|b3 q]; [auto|]. destruct (is_cont b3); [|auto].
    intros [= <- <-] Hn; cbn [length] in Hn; lia. }
  destruct (in_byte_range lo hi b1); [|auto].
  destruct (k =? 2); [auto|].
  destruct p as [|b2 p]; cbn [app].
  { destruct q as [|b2 q]; [auto|]. destruct (is_cont b2); [|auto].
    destruct (k =? 3); [intros [= <- <-] Hn; cbn [length] in Hn; lia|].
    destruct q as [|b3 q]; [auto|]. destruct (is_cont b3); [|auto].
    intros [= <- <-] Hn; cbn [length] in Hn; lia. }
  destruct (is_cont b2); [|auto].
  destruct (k =? 3); [auto|].
  destruct p as [|b3 p]; cbn [app]; [|auto].
  destruct q as [|b3 q]; [auto|]. destruct (is_cont b3); [|auto].
  intros [= <- <-] Hn; cbn [length] in Hn; lia.
Qed.

(* every prefix of []rune(s) is []rune of a prefix of s that ends at a rune boundary *)
Theorem decode_prefix_bytes : forall bs pre x, utf8_decode bs = pre ++ x ->
  exists bpre bx, bs = bpre ++ bx /\ utf8_decode bpre = pre /\ utf8_decode bx = x.
Proof.
  intros bs pre. revert bs. induction pre as [|r pre IH]; intros bs x H.
  - exists [], bs. split; [reflexivity|]. split; [reflexivity|exact H].
  - destruct bs as [|b0 bs0]; [rewrite decode_nil in H; discriminate|].
    destruct (decode_rune (b0 :: bs0)) as [[r0 n]|] eqn:E; [|exfalso; exact (decode_rune_cons_some _ _ E)].
    rewrite (decode_cons_step _ _ _ E) in H. cbn [app] in H. injection H as <- H.
    destruct (IH _ _ H) as (bp & bx & Hs & Hp & Hx).
    destruct (decode_rune_nl _ _ _ E) as [Hn _].
    assert (Hl : length (firstn (N.to_nat n) (b0 :: bs0)) = N.to_nat n) by (rewrite firstn_length; lia).
    exists (firstn (N.to_nat n) (b0 :: bs0) ++ bp), bx. split; [|split; [|exact Hx]].
    + rewrite <- app_assoc, <- Hs. symmetry. apply firstn_skipn.
    + assert (E' : decode_rune (firstn (N.to_nat n) (b0 :: bs0) ++ bp) = Some (r0, n)).
      { apply (decode_rune_prefix _ bx).
        - rewrite <- app_assoc, <- Hs, firstn_skipn. exact E.
        - rewrite app_length, Hl. lia. }
      rewrite (decode_cons_step _ _ _ E'). f_equal.
      rewrite skipn_app, Hl, Nat.sub_diag, skipn_all2 by lia. cbn [app skipn]. exact Hp.
Qed.

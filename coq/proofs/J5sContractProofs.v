(* J5sContractProofs.v — the converter model (J5sConvert.v) refines the declarative contract
   (J5sContract.v): by mutual induction on the syntax, for every nesting depth. *)
From Coq Require Import String List NArith Bool Lia ZifyN ZifyNat ZifyBool.
From J5V.lib Require Import Outcome Corr.
From J5V.model Require Import J5sAst Desc J5sWalk J5sLink J5sConvert J5sContract J5sValid.
From J5V.proofs Require Import J5sProofs.
Import ListNotations.
Local Open Scope N_scope.

Ltac inv_ok H :=
  repeat match type of H with
         | obind _ _ = Ok _ => apply obind_ok in H; let a := fresh "a" in let E := fresh "E" in
                               destruct H as (a & E & H)
         end.

Section Refine.
Variables snake camel screaming : str -> str.

Notation cv_item := (cv_item snake camel screaming).
Notation cv_props := (cv_props snake camel screaming).
Notation cv_property := (cv_property snake camel screaming).
Notation cv_enum := (cv_enum screaming).
Notation field_decl_ok := (field_decl_ok snake).
Notation fields_ok := (fields_ok snake).
Notation inline_ok := (inline_ok snake camel screaming).
Notation props_inline_ok := (props_inline_ok snake camel screaming).
Notation property_inline_ok := (property_inline_ok snake camel screaming).
Notation enum_ok := (enum_ok screaming).
Notation prop_msg_names := (prop_msg_names snake camel).
Notation prop_enum_names := (prop_enum_names camel).

(* ------------------------------------------------------------------ unfolding equations *)
Lemma cv_item_obj ev path dflt nm ps :
  cv_item ev path dflt (FObjInline nm ps) =
  obind (cv_props ev (path ++ [inline_name dflt nm]) false 1 ps) (fun r =>
    Ok (mkCore TMessage (rel_name (path ++ [inline_name dflt nm]))
               [DMsg (inline_name dflt nm) MObject (pr_fields r) (pr_msgs r) (pr_enums r)] []
               (imp_ext :: pr_imports r) false)).
Proof. reflexivity. Qed.

Lemma cv_item_oneof ev path dflt nm ps :
  cv_item ev path dflt (FOneofInline nm ps) =
  obind (cv_props ev (path ++ [inline_name dflt nm]) true 1 ps) (fun r =>
    Ok (mkCore TMessage (rel_name (path ++ [inline_name dflt nm]))
               [DMsg (inline_name dflt nm) MOneof (pr_fields r) (pr_msgs r) (pr_enums r)] []
               (imp_ext :: pr_imports r) false)).
Proof. reflexivity. Qed.

Lemma cv_props_cons ev path io num p r :
  cv_props ev path io num (PCons p r) =
  obind (cv_property ev path io num p) (fun a =>
  obind (cv_props ev path io (N.succ num) r) (fun c => Ok (pres_app a c))).
Proof. reflexivity. Qed.

Definition finish (io rq op : bool) (sn n : str) (num : N) (c : fcore) (lbl : plabel) (ty : ptype) (tn : str)
           (msgs : list dmsg) (imps : list str) : outcome pres :=
  if rq && op then Err "cannot be both required and optional"
  else if io && plabel_eqb lbl LRepeated
       then Err "an array cannot be an option of a oneof"
       else Ok (mkPres [mkField sn n num ty lbl (op && negb (plabel_eqb lbl LRepeated) && negb io) tn io] msgs (fc_enums c)
                       (imps ++ if rq then [imp_validate; imp_ext] else [])).

Lemma cv_property_eq ev path io num n rq op f :
  cv_property ev path io num (Property n rq op f) =
  match f with
  | FArray it =>
      obind (cv_item ev path (camel n) it) (fun c =>
        finish io rq op (snake n) n num c LRepeated (fc_type c) (fc_tname c) (fc_msgs c)
               (imp_ext :: fc_imports c ++ if fc_validate c then [imp_validate] else []))
  | FMap it =>
      obind (cv_item ev path (camel n) it) (fun c =>
        if io then Err "a map cannot be an option of a oneof" else
        finish io rq op (snake n) n num c LRepeated TMessage (map_name (snake n))
               (fc_msgs c ++ [DMsg (map_name (snake n)) MMapEntry [key_field; value_field c] [] []])
               (fc_imports c))
  | _ =>
      obind (cv_item ev path (camel n) f) (fun c =>
        finish io rq op (snake n) n num c LOptional (fc_type c) (fc_tname c) (fc_msgs c) (fc_imports c))
  end.
Proof. destruct f; reflexivity. Qed.

Lemma inline_ok_obj pn nm ps msgs enums :
  inline_ok pn (FObjInline nm ps) msgs enums =
  exists m, In m msgs /\ dm_name m = inline_type_name camel pn nm /\ dm_kind m = MObject /\
            fields_ok false 1 (props_list ps) (dm_fields m) /\
            props_inline_ok ps (dm_msgs m) (dm_enums m) /\
            map dm_name (dm_msgs m) = flat_map prop_msg_names (props_list ps) /\
            map en_name (dm_enums m) = flat_map prop_enum_names (props_list ps).
Proof. reflexivity. Qed.

Lemma inline_ok_oneof pn nm ps msgs enums :
  inline_ok pn (FOneofInline nm ps) msgs enums =
  exists m, In m msgs /\ dm_name m = inline_type_name camel pn nm /\ dm_kind m = MOneof /\
            fields_ok true 1 (props_list ps) (dm_fields m) /\
            props_inline_ok ps (dm_msgs m) (dm_enums m) /\
            map dm_name (dm_msgs m) = flat_map prop_msg_names (props_list ps) /\
            map en_name (dm_enums m) = flat_map prop_enum_names (props_list ps).
Proof. reflexivity. Qed.

Lemma inline_ok_enum pn e msgs enums :
  inline_ok pn (FEnumInline e) msgs enums =
  exists de, In de enums /\ enum_ok (inline_type_name camel pn (e_name e)) e de.
Proof. reflexivity. Qed.

Lemma props_inline_ok_cons p r msgs enums :
  props_inline_ok (PCons p r) msgs enums = (property_inline_ok p msgs enums /\ props_inline_ok r msgs enums).
Proof. reflexivity. Qed.

Lemma property_inline_ok_eq n rq op f msgs enums :
  property_inline_ok (Property n rq op f) msgs enums =
  (inline_ok n f msgs enums /\
   match f with
   | FMap it =>
       exists m, In m msgs /\ dm_name m = entry_name snake n /\ dm_kind m = MMapEntry /\
                 exists k v, dm_fields m = [k; v] /\
                   f_name k = b "key" /\ f_num k = 1 /\ f_type k = TString /\
                   f_name v = b "value" /\ f_num v = 2 /\ f_type v = item_ptype it
   | _ => True
   end).
Proof. reflexivity. Qed.

Lemma inline_ok_container pn it msgs enums :
  inline_ok pn (FArray it) msgs enums = inline_ok pn it msgs enums /\
  inline_ok pn (FMap it) msgs enums = inline_ok pn it msgs enums.
Proof. split; reflexivity. Qed.

(* ------------------------------------------------------------------ small facts *)
Lemma inline_name_spec pn nm : inline_name (camel pn) nm = inline_type_name camel pn nm.
Proof. destruct nm; reflexivity. Qed.

Lemma map_name_go_spec s up :
  map_name_go s up =
  (fix go (s : str) (up : bool) : str :=
     match s with
     | [] => []
     | c :: r => if c =? 95 then go r true
                 else (if up && (97 <=? c) && (c <=? 122) then c - 32 else c) :: go r false
     end) s up.
Proof.
  revert up. induction s as [|c r IH]; intros up; cbn [map_name_go]; [reflexivity|].
  destruct (c =? 95); [apply IH|]. rewrite IH. f_equal. unfold upper.
  destruct up; cbn [andb]; reflexivity.
Qed.

Lemma map_name_spec pn : map_name (snake pn) = entry_name snake pn.
Proof. unfold map_name, entry_name. rewrite map_name_go_spec. reflexivity. Qed.

Lemma fields_ok_nil io n : fields_ok io n [] [].
Proof. split; [reflexivity|]. intros i p H. destruct i; discriminate. Qed.

Lemma fields_ok_cons io n p df ps fs :
  field_decl_ok io n p df -> fields_ok io (N.succ n) ps fs -> fields_ok io n (p :: ps) (df :: fs).
Proof.
  intros Hd [Hl Hn]. split; [cbn; f_equal; exact Hl|].
  intros i q Hi. destruct i as [|i]; cbn [nth_error] in Hi |- *.
  - inversion Hi. subst q. exists df. split; [reflexivity|]. rewrite N.add_0_r. exact Hd.
  - destruct (Hn i q Hi) as (df' & Hf & Hd'). exists df'. split; [exact Hf|].
    replace (n + N.of_nat (S i)) with (N.succ n + N.of_nat i) by lia. exact Hd'.
Qed.

(* ------------------------------------------------------------------ enums *)
Lemma number_opts_length pfx n l : length (number_opts pfx n l) = length l.
Proof. revert n. induction l as [|o r IH]; intros n; cbn; [reflexivity|]. rewrite IH. reflexivity. Qed.

Lemma number_opts_nth pfx n l i o :
  nth_error l i = Some o ->
  nth_error (number_opts pfx n l) i = Some (value_name pfx o, n + N.of_nat i).
Proof.
  revert n i. induction l as [|q r IH]; intros n i H; destruct i; cbn in *; try discriminate.
  - inversion H. subst. rewrite N.add_0_r. reflexivity.
  - rewrite (IH (N.succ n) i H). do 2 f_equal. lia.
Qed.

Lemma enum_prefix_spec name e : enum_prefix screaming name (e_prefix e) = enum_pfx screaming name e.
Proof. unfold enum_prefix, enum_pfx. destruct (e_prefix e); reflexivity. Qed.

Lemma has_prefix_app x y : has_prefix x (x ++ y) = true.
Proof. induction x as [|c r IH]; cbn; [reflexivity|]. rewrite N.eqb_refl, IH. reflexivity. Qed.
Lemma has_suffix_app x y : has_suffix y (x ++ y) = true.
Proof. unfold has_suffix. rewrite rev_app_distr. apply has_prefix_app. Qed.

(* enum.go isExplicitZero is the contract's "the option spells the zero value" *)
Lemma explicit_zero_spec pfx o : explicit_zero pfx o = zero_spelled pfx o.
Proof. reflexivity. Qed.

(* the compiler's enum against the contract: the declared options numbered in order after
   <PREFIX>UNSPECIFIED = 0, for every enum (after fix a65e1f2) *)
Lemma cv_enum_ok name e : enum_ok name e (cv_enum name e).
Proof.
  unfold enum_ok, cv_enum, unspecified.
  rewrite enum_prefix_spec. set (pfx := enum_pfx screaming name e).
  unfold strict_opts. fold pfx.
  destruct (e_opts e) as [|o r].
  - cbn [en_name en_vals nth_error length]. repeat split.
    intros i q H. destruct i; discriminate.
  - rewrite explicit_zero_spec. destruct (zero_spelled pfx o) eqn:Hz; cbn [en_name en_vals nth_error length].
    + rewrite number_opts_length. split; [reflexivity|split; [|split; [reflexivity|]]].
      * unfold zero_spelled in Hz. apply str_eqb_eq in Hz. unfold value_name.
        unfold opt_value_name in Hz. rewrite Hz. reflexivity.
      * intros i q Hq. rewrite (number_opts_nth _ 1 r i q Hq).
        unfold opt_value_name, value_name. do 2 f_equal. lia.
    + rewrite number_opts_length. repeat split.
      intros i q Hq. rewrite (number_opts_nth _ 1 (o :: r) i q Hq).
      unfold opt_value_name, value_name. do 2 f_equal. lia.
Qed.


(* ------------------------------------------------------------------ monotonicity *)
Lemma inline_mono :
  (forall f pn msgs enums msgs' enums',
      incl msgs msgs' -> incl enums enums' -> inline_ok pn f msgs enums -> inline_ok pn f msgs' enums') /\
  (forall ps msgs enums msgs' enums',
      incl msgs msgs' -> incl enums enums' -> props_inline_ok ps msgs enums -> props_inline_ok ps msgs' enums') /\
  (forall p msgs enums msgs' enums',
      incl msgs msgs' -> incl enums enums' -> property_inline_ok p msgs enums -> property_inline_ok p msgs' enums').
Proof.
  apply ast_mutind.
  - intros s pn msgs enums msgs' enums' _ _ _. exact I.
  - intros r pn msgs enums msgs' enums' _ _ _. exact I.
  - intros nm ps IH pn msgs enums msgs' enums' Hm He H. cbn in H |- *.
    destruct H as (m & Hin & Hrest). exists m. split; [apply Hm; exact Hin|exact Hrest].
  - intros r pn msgs enums msgs' enums' _ _ _. exact I.
  - intros nm ps IH pn msgs enums msgs' enums' Hm He H. cbn in H |- *.
    destruct H as (m & Hin & Hrest). exists m. split; [apply Hm; exact Hin|exact Hrest].
  - intros r pn msgs enums msgs' enums' _ _ _. exact I.
  - intros e pn msgs enums msgs' enums' Hm He H. cbn in H |- *.
    destruct H as (de & Hin & Hrest). exists de. split; [apply He; exact Hin|exact Hrest].
  - intros it IH pn msgs enums msgs' enums' Hm He H. cbn in H |- *. eapply IH; eassumption.
  - intros it IH pn msgs enums msgs' enums' Hm He H. cbn in H |- *. eapply IH; eassumption.
  - intros msgs enums msgs' enums' _ _ _. exact I.
  - intros p IHp r IHr msgs enums msgs' enums' Hm He [H1 H2]. split.
    + eapply IHp; eassumption.
    + eapply IHr; eassumption.
  - intros n rq op f IH msgs enums msgs' enums' Hm He [H1 H2]. split.
    + eapply IH; eassumption.
    + destruct f; try exact I. destruct H2 as (m & Hin & Hrest). exists m. split; [apply Hm; exact Hin|exact Hrest].
Qed.

(* ------------------------------------------------------------------ the converter refines the contract *)
Definition item_spec0 (f : field) : Prop :=
  forall ev path pn c, cv_item ev path (camel pn) f = Ok c ->
    fc_type c = item_ptype f /\
    map dm_name (fc_msgs c) = item_msg_names camel pn f /\
    map en_name (fc_enums c) = item_enum_names camel pn f /\
    (forall msgs enums, incl (fc_msgs c) msgs -> incl (fc_enums c) enums -> inline_ok pn f msgs enums).

(* for an array / map also the statement about its item (what the property level needs) *)
Definition item_spec (f : field) : Prop :=
  item_spec0 f /\ match f with FArray it | FMap it => item_spec0 it | _ => True end.

Definition props_spec (ps : props) : Prop :=
  forall ev path io num r, cv_props ev path io num ps = Ok r ->
    fields_ok io num (props_list ps) (pr_fields r) /\
    map dm_name (pr_msgs r) = flat_map prop_msg_names (props_list ps) /\
    map en_name (pr_enums r) = flat_map prop_enum_names (props_list ps) /\
    (forall msgs enums, incl (pr_msgs r) msgs -> incl (pr_enums r) enums -> props_inline_ok ps msgs enums).

Definition property_spec (p : property) : Prop :=
  forall ev path io num r, cv_property ev path io num p = Ok r ->
    (exists df, pr_fields r = [df] /\ field_decl_ok io num p df) /\
    map dm_name (pr_msgs r) = prop_msg_names p /\
    map en_name (pr_enums r) = prop_enum_names p /\
    (forall msgs enums, incl (pr_msgs r) msgs -> incl (pr_enums r) enums -> property_inline_ok p msgs enums).

Lemma scalar_core_type s : fc_type (scalar_core s) = scalar_ptype s.
Proof. destruct s as [| | |[]|[]| | | |[]|]; reflexivity. Qed.
Lemma scalar_core_msgs s : fc_msgs (scalar_core s) = [] /\ fc_enums (scalar_core s) = [].
Proof. destruct s as [| | |[]|[]| | | |[]|]; split; reflexivity. Qed.

Lemma ref_core_shape ev r we c : ref_core ev r we = Ok c ->
  fc_type c = (if we then TEnum else TMessage) /\ fc_msgs c = [] /\ fc_enums c = [].
Proof.
  unfold ref_core. intros H. inv_ok H. destruct we; destruct (tr_enum a); try discriminate;
    inversion H; subst; cbn; auto.
Qed.

Lemma incl_app_l {A} (x y z : list A) : incl (x ++ y) z -> incl x z.
Proof. intros H a Ha. apply H. apply in_or_app. left. exact Ha. Qed.
Lemma incl_app_r {A} (x y z : list A) : incl (x ++ y) z -> incl y z.
Proof. intros H a Ha. apply H. apply in_or_app. right. exact Ha. Qed.

(* the property-level wrapper: what [finish] yields *)
Lemma finish_inv io rq op sn n num c lbl ty tn msgs imps r :
  finish io rq op sn n num c lbl ty tn msgs imps = Ok r ->
  pr_fields r = [mkField sn n num ty lbl (op && negb (plabel_eqb lbl LRepeated) && negb io) tn io] /\ pr_msgs r = msgs /\ pr_enums r = fc_enums c.
Proof.
  unfold finish. destruct (rq && op); [discriminate|].
  destruct (io && plabel_eqb lbl LRepeated); [discriminate|]. intros H. inversion H. subst. cbn. auto.
Qed.

Theorem convert_refines :
  (forall f, item_spec f) /\ (forall ps, props_spec ps) /\ (forall p, property_spec p).
Proof.
  apply ast_mutind.
  - (* scalar *)
    intros s. split; [|exact I]. intros ev path pn c H. cbn in H. inversion H. subst c.
    destruct (scalar_core_msgs s) as [Hm He]. rewrite Hm, He.
    repeat split; try reflexivity. apply scalar_core_type.
  - (* object ref *)
    intros r. split; [|exact I]. intros ev path pn c H. cbn in H. apply ref_core_shape in H.
    destruct H as (Ht & Hm & He). rewrite Ht, Hm, He. repeat split; reflexivity.
  - (* inline object *)
    intros nm ps IH. split; [|exact I]. intros ev path pn c H.
    rewrite cv_item_obj in H. inv_ok H. inversion H. subst c. clear H.
    cbn [fc_type fc_msgs fc_enums]. rewrite inline_name_spec in *.
    destruct (IH _ _ _ _ _ E) as (Hf & Hmn & Hen & Hin).
    repeat split; try reflexivity.
    intros msgs enums Hm _. rewrite inline_ok_obj.
    eexists. split; [apply Hm; left; reflexivity|]. cbn [dm_name dm_kind dm_fields dm_msgs dm_enums].
    split; [reflexivity|]. split; [reflexivity|]. split; [exact Hf|].
    split; [apply Hin; apply incl_refl|]. split; assumption.
  - (* oneof ref *)
    intros r. split; [|exact I]. intros ev path pn c H. cbn in H. apply ref_core_shape in H.
    destruct H as (Ht & Hm & He). rewrite Ht, Hm, He. repeat split; reflexivity.
  - (* inline oneof *)
    intros nm ps IH. split; [|exact I]. intros ev path pn c H.
    rewrite cv_item_oneof in H. inv_ok H. inversion H. subst c. clear H.
    cbn [fc_type fc_msgs fc_enums]. rewrite inline_name_spec in *.
    destruct (IH _ _ _ _ _ E) as (Hf & Hmn & Hen & Hin).
    repeat split; try reflexivity.
    intros msgs enums Hm _. rewrite inline_ok_oneof.
    eexists. split; [apply Hm; left; reflexivity|]. cbn [dm_name dm_kind dm_fields dm_msgs dm_enums].
    split; [reflexivity|]. split; [reflexivity|]. split; [exact Hf|].
    split; [apply Hin; apply incl_refl|]. split; assumption.
  - (* enum ref *)
    intros r. split; [|exact I]. intros ev path pn c H. cbn in H. apply ref_core_shape in H.
    destruct H as (Ht & Hm & He). rewrite Ht, Hm, He. repeat split; reflexivity.
  - (* inline enum *)
    intros e. split; [|exact I]. intros ev path pn c H.
    cbn [J5sConvert.cv_item] in H. inversion H. subst c. clear H.
    cbn [fc_type fc_msgs fc_enums]. rewrite inline_name_spec.
    split; [reflexivity|]. split; [reflexivity|].
    split; [cbn [map]; rewrite (proj1 (cv_enum_ok _ e)); reflexivity|].
    intros msgs enums _ He. rewrite inline_ok_enum.
    eexists. split; [apply He; left; reflexivity|]. apply cv_enum_ok.
  - (* array as an item: rejected; keep the item's statement *)
    intros it [IH _]. split; [|exact IH]. intros ev path pn c H. cbn in H. discriminate.
  - (* map as an item: rejected *)
    intros it [IH _]. split; [|exact IH]. intros ev path pn c H. cbn in H. discriminate.
  - (* no properties *)
    intros ev path io num r H. cbn in H. inversion H. subst r. cbn.
    repeat split; try reflexivity. apply fields_ok_nil.
  - (* a property, then the rest *)
    intros p IHp ps IHps ev path io num r H. rewrite cv_props_cons in H. inv_ok H. inversion H. subst r. clear H.
    destruct (IHp _ _ _ _ _ E) as ((df & Hdf & Hd) & Hmn & Hen & Hin).
    destruct (IHps _ _ _ _ _ E0) as (Hfs & Hmn' & Hen' & Hin').
    cbn [pres_app pr_fields pr_msgs pr_enums props_list flat_map].
    rewrite !map_app, Hmn, Hen, Hmn', Hen', Hdf.
    split; [cbn [app]; apply fields_ok_cons; assumption|].
    split; [reflexivity|]. split; [reflexivity|].
    intros msgs enums Hm He. rewrite props_inline_ok_cons. split.
    + apply Hin; [eapply incl_app_l; exact Hm|eapply incl_app_l; exact He].
    + apply Hin'; [eapply incl_app_r; exact Hm|eapply incl_app_r; exact He].
  - (* one property *)
    intros n rq op f [IH IHit] ev path io num r H. rewrite cv_property_eq in H.
    destruct f as [s|rf|nm ps|rf|nm ps|rf|e|it|it].
    1-7: inv_ok H; apply finish_inv in H; destruct H as (Hf & Hm & He);
         destruct (IH _ _ _ _ E) as (Ht & Hmn & Hen & Hin); rewrite Hf, Hm, He;
         (split; [eexists; split; [reflexivity|]; unfold J5sContract.field_decl_ok; cbn; rewrite Ht; repeat split; reflexivity|]);
         cbn [J5sContract.prop_msg_names J5sContract.prop_enum_names elem is_map]; rewrite app_nil_r;
         (split; [exact Hmn|]); (split; [exact Hen|]);
         intros ms0 es0 Hm' He'; rewrite property_inline_ok_eq; (split; [apply Hin; assumption|exact I]).
    + (* array *)
      inv_ok H. apply finish_inv in H. destruct H as (Hf & Hm & He).
      destruct (IHit _ _ _ _ E) as (Ht & Hmn & Hen & Hin). rewrite Hf, Hm, He.
      split; [eexists; split; [reflexivity|]; unfold J5sContract.field_decl_ok, decl_ptype; cbn; rewrite Ht; repeat split; reflexivity|].
      cbn [J5sContract.prop_msg_names J5sContract.prop_enum_names elem is_map]. rewrite app_nil_r.
      split; [exact Hmn|]. split; [exact Hen|].
      intros ms0 es0 Hm' He'. rewrite property_inline_ok_eq.
      destruct (inline_ok_container n it ms0 es0) as [Ea _]. rewrite Ea. split; [apply Hin; assumption|exact I].
    + (* map *)
      inv_ok H. destruct io; [discriminate|]. apply finish_inv in H. destruct H as (Hf & Hm & He).
      destruct (IHit _ _ _ _ E) as (Ht & Hmn & Hen & Hin). rewrite Hf, Hm, He.
      split; [eexists; split; [reflexivity|]; unfold J5sContract.field_decl_ok, decl_ptype; cbn; repeat split; reflexivity|].
      cbn [J5sContract.prop_msg_names J5sContract.prop_enum_names elem is_map].
      rewrite map_app, Hmn. cbn [map dm_name]. rewrite map_name_spec.
      split; [reflexivity|]. split; [exact Hen|].
      intros ms0 es0 Hm' He'. rewrite property_inline_ok_eq.
      destruct (inline_ok_container n it ms0 es0) as [_ Em]. rewrite Em. split.
      * apply Hin; [eapply incl_app_l; exact Hm'|exact He'].
      * eexists. split; [apply Hm'; apply in_or_app; right; left; reflexivity|].
        cbn [dm_name dm_kind dm_fields].
        split; [reflexivity|]. split; [reflexivity|].
        exists key_field, (value_field a). cbn. repeat split; try reflexivity. exact Ht.
Qed.

(* ------------------------------------------------------------------ totality on well-formed input *)
Notation wf_item := (wf_item snake camel).
Notation wf_props := (wf_props snake camel).
Notation wf_property := (wf_property snake camel).

Lemma ref_is_core ev r we : ref_is ev r we = true -> exists c, ref_core ev r we = Ok c.
Proof.
  unfold ref_is, ref_core. destruct (resolve ev r) as [t| | |]; try discriminate. cbn [obind].
  intros H. apply Bool.eqb_prop in H. rewrite H. destruct we; eexists; reflexivity.
Qed.

Definition item_total0 (ev : env) (f : field) : Prop :=
  wf_item ev f = true -> forall path dflt, exists c, cv_item ev path dflt f = Ok c.
Definition item_total (ev : env) (f : field) : Prop :=
  item_total0 ev f /\ match f with FArray it | FMap it => item_total0 ev it | _ => True end.

Lemma finish_total io rq op sn n num c lbl ty tn msgs imps :
  rq && op = false ->
  (io = true -> plabel_eqb lbl LRepeated = false) ->
  exists r, finish io rq op sn n num c lbl ty tn msgs imps = Ok r.
Proof.
  intros H1 H2. unfold finish. rewrite H1. destruct io.
  - rewrite (H2 eq_refl). cbn. eexists; reflexivity.
  - cbn. eexists; reflexivity.
Qed.

Theorem convert_total ev :
  (forall f, item_total ev f) /\
  (forall ps, forall io, wf_props ev io ps = true -> forall path num, exists r, cv_props ev path io num ps = Ok r) /\
  (forall p, forall io, wf_property ev io p = true -> forall path num, exists r, cv_property ev path io num p = Ok r).
Proof.
  apply ast_mutind.
  - intros s. split; [|exact I]. intros _ path dflt. eexists; reflexivity.
  - intros r. split; [|exact I]. intros H path dflt. cbn in H. apply ref_is_core in H. exact H.
  - intros nm ps IH. split; [|exact I]. intros H path dflt. cbn in H.
    apply andb_true_iff in H. destruct H as [H _]. apply andb_true_iff in H. destruct H as [_ H].
    rewrite cv_item_obj. destruct (IH false H (path ++ [inline_name dflt nm]) 1) as [r Hr]. rewrite Hr. eexists; reflexivity.
  - intros r. split; [|exact I]. intros H path dflt. cbn in H. apply ref_is_core in H. exact H.
  - intros nm ps IH. split; [|exact I]. intros H path dflt. cbn in H.
    apply andb_true_iff in H. destruct H as [H _]. apply andb_true_iff in H. destruct H as [H _].
    apply andb_true_iff in H. destruct H as [_ H].
    rewrite cv_item_oneof. destruct (IH true H (path ++ [inline_name dflt nm]) 1) as [r Hr]. rewrite Hr. eexists; reflexivity.
  - intros r. split; [|exact I]. intros H path dflt. cbn in H. apply ref_is_core in H. exact H.
  - intros e. split; [|exact I]. intros _ path dflt. eexists; reflexivity.
  - intros it [IH _]. split; [|exact IH]. intros H. cbn in H. discriminate.
  - intros it [IH _]. split; [|exact IH]. intros H. cbn in H. discriminate.
  - intros io _ path num. eexists; reflexivity.
  - intros p IHp ps IHps io H path num. cbn in H. apply andb_true_iff in H. destruct H as [H1 H2].
    rewrite cv_props_cons. destruct (IHp io H1 path num) as [a Ha]. rewrite Ha. cbn [obind].
    destruct (IHps io H2 path (N.succ num)) as [c Hc]. rewrite Hc. eexists; reflexivity.
  - intros n rq op f [IH IHit] io H path num. cbn in H.
    apply andb_true_iff in H. destruct H as [H Hw]. apply andb_true_iff in H. destruct H as [H Hio].
    apply andb_true_iff in H. destruct H as [_ Hro]. apply negb_true_iff in Hro.
    rewrite cv_property_eq.
    assert (Hio' : io = true -> is_repeated f = false).
    { intros ->. apply andb_true_iff in Hio. destruct Hio as [Ha _]. apply negb_true_iff in Ha. exact Ha. }
    destruct f as [s|rf|nm ps|rf|nm ps|rf|e|it|it].
    1-7: destruct (IH Hw path (camel n)) as [c Hc]; rewrite Hc; cbn [obind];
         apply finish_total; [exact Hro|intros Hi; reflexivity].
    + destruct (IHit Hw path (camel n)) as [c Hc]. rewrite Hc. cbn [obind].
      apply finish_total; [exact Hro|]. intros Hi. pose proof (Hio' Hi) as Hr. cbn in Hr. discriminate.
    + destruct (IHit Hw path (camel n)) as [c Hc]. rewrite Hc. cbn [obind].
      destruct io; [pose proof (Hio' eq_refl) as Hr; cbn in Hr; discriminate|].
      apply finish_total; [exact Hro|]. intros Hi. discriminate.
Qed.

End Refine.

(* ================================================================== declarations and files *)
Section RefineFiles.
Variables snake camel screaming : str -> str.

Notation cv_props := (cv_props snake camel screaming).
Notation cv_nested := (cv_nested snake camel screaming).
Notation cv_nesteds := (cv_nesteds snake camel screaming).
Notation cv_enum := (cv_enum screaming).
Notation fields_ok := (fields_ok snake).
Notation props_inline_ok := (props_inline_ok snake camel screaming).
Notation nested_ok := (nested_ok snake camel screaming).
Notation nesteds_ok := (nesteds_ok snake camel screaming).
Notation prop_msg_names := (prop_msg_names snake camel).
Notation prop_enum_names := (prop_enum_names camel).

Lemma cv_nested_obj ev path nm ps subs :
  cv_nested ev path (NObject nm ps subs) =
  obind (cv_props ev (path ++ [nm]) false 1 ps) (fun r =>
  obind (cv_nesteds ev (path ++ [nm]) subs) (fun s =>
    let '(sm, se, si) := s in
    Ok ([DMsg nm MObject (pr_fields r) (pr_msgs r ++ sm) (pr_enums r ++ se)], [],
        imp_ext :: pr_imports r ++ si))).
Proof. reflexivity. Qed.

Lemma cv_nested_oneof ev path nm ps subs :
  cv_nested ev path (NOneof nm ps subs) =
  obind (cv_props ev (path ++ [nm]) true 1 ps) (fun r =>
  obind (cv_nesteds ev (path ++ [nm]) subs) (fun s =>
    let '(sm, se, si) := s in
    Ok ([DMsg nm MOneof (pr_fields r) (pr_msgs r ++ sm) (pr_enums r ++ se)], [],
        imp_ext :: pr_imports r ++ si))).
Proof. reflexivity. Qed.

Lemma cv_nesteds_cons ev path n r :
  cv_nesteds ev path (NCons n r) =
  obind (cv_nested ev path n) (fun a =>
  obind (cv_nesteds ev path r) (fun c =>
    let '(am, ae, ai) := a in
    let '(cm, ce, ci) := c in
    Ok (am ++ cm, ae ++ ce, ai ++ ci))).
Proof. reflexivity. Qed.

Lemma nested_ok_obj nm ps subs msgs enums :
  nested_ok (NObject nm ps subs) msgs enums =
  exists m, In m msgs /\ dm_name m = nm /\ dm_kind m = MObject /\
            fields_ok false 1 (props_list ps) (dm_fields m) /\
            props_inline_ok ps (dm_msgs m) (dm_enums m) /\
            nesteds_ok subs (dm_msgs m) (dm_enums m) /\
            map dm_name (dm_msgs m) =
              flat_map prop_msg_names (props_list ps) ++ flat_map nested_msg_name (nesteds_list subs) /\
            map en_name (dm_enums m) =
              flat_map prop_enum_names (props_list ps) ++ flat_map nested_enum_name (nesteds_list subs).
Proof. reflexivity. Qed.

Lemma nested_ok_oneof nm ps subs msgs enums :
  nested_ok (NOneof nm ps subs) msgs enums =
  exists m, In m msgs /\ dm_name m = nm /\ dm_kind m = MOneof /\
            fields_ok true 1 (props_list ps) (dm_fields m) /\
            props_inline_ok ps (dm_msgs m) (dm_enums m) /\
            nesteds_ok subs (dm_msgs m) (dm_enums m) /\
            map dm_name (dm_msgs m) =
              flat_map prop_msg_names (props_list ps) ++ flat_map nested_msg_name (nesteds_list subs) /\
            map en_name (dm_enums m) =
              flat_map prop_enum_names (props_list ps) ++ flat_map nested_enum_name (nesteds_list subs).
Proof. reflexivity. Qed.

Lemma nested_ok_enum e msgs enums :
  nested_ok (NEnum e) msgs enums = exists de, In de enums /\ enum_ok screaming (e_name e) e de.
Proof. reflexivity. Qed.

Lemma nesteds_ok_cons n r msgs enums :
  nesteds_ok (NCons n r) msgs enums = (nested_ok n msgs enums /\ nesteds_ok r msgs enums).
Proof. reflexivity. Qed.

Lemma nested_mono :
  (forall n msgs enums msgs' enums', incl msgs msgs' -> incl enums enums' ->
      nested_ok n msgs enums -> nested_ok n msgs' enums') /\
  (forall ns msgs enums msgs' enums', incl msgs msgs' -> incl enums enums' ->
      nesteds_ok ns msgs enums -> nesteds_ok ns msgs' enums').
Proof.
  apply nested_mutind.
  - intros nm ps subs IH msgs enums msgs' enums' Hm He H. rewrite nested_ok_obj in *.
    destruct H as (m & Hin & Hrest). exists m. split; [apply Hm; exact Hin|exact Hrest].
  - intros nm ps subs IH msgs enums msgs' enums' Hm He H. rewrite nested_ok_oneof in *.
    destruct H as (m & Hin & Hrest). exists m. split; [apply Hm; exact Hin|exact Hrest].
  - intros e msgs enums msgs' enums' Hm He H. rewrite nested_ok_enum in *.
    destruct H as (de & Hin & Hrest). exists de. split; [apply He; exact Hin|exact Hrest].
  - intros msgs enums msgs' enums' _ _ _. exact I.
  - intros n IHn r IHr msgs enums msgs' enums' Hm He H. rewrite nesteds_ok_cons in *.
    destruct H as [H1 H2]. split; [eapply IHn; eassumption|eapply IHr; eassumption].
Qed.

Definition nested_spec (n : nested) : Prop :=
  forall ev path ms es is, cv_nested ev path n = Ok (ms, es, is) ->
    map dm_name ms = nested_msg_name n /\ map en_name es = nested_enum_name n /\
    (forall msgs enums, incl ms msgs -> incl es enums -> nested_ok n msgs enums).

Definition nesteds_spec (ns : nesteds) : Prop :=
  forall ev path ms es is, cv_nesteds ev path ns = Ok (ms, es, is) ->
    map dm_name ms = flat_map nested_msg_name (nesteds_list ns) /\
    map en_name es = flat_map nested_enum_name (nesteds_list ns) /\
    (forall msgs enums, incl ms msgs -> incl es enums -> nesteds_ok ns msgs enums).

Theorem nested_refines : (forall n, nested_spec n) /\ (forall ns, nesteds_spec ns).
Proof.
  pose proof (proj1 (proj2 (convert_refines snake camel screaming))) as Hprops.
  apply nested_mutind.
  - intros nm ps subs IH ev path ms es is H. rewrite cv_nested_obj in H. inv_ok H.
    destruct a0 as [[sm se] si]. inversion H. subst ms es is. clear H.
    destruct (Hprops _ _ _ _ _ _ E) as (Hf & Hmn & Hen & Hin).
    destruct (IH _ _ _ _ _ E0) as (Hsm & Hse & Hsub).
    split; [reflexivity|]. split; [reflexivity|].
    intros msgs enums Hm _. rewrite nested_ok_obj.
    eexists. split; [apply Hm; left; reflexivity|]. cbn [dm_name dm_kind dm_fields dm_msgs dm_enums].
    split; [reflexivity|]. split; [reflexivity|]. split; [exact Hf|].
    split; [apply Hin; [apply incl_appl|apply incl_appl]; apply incl_refl|].
    split; [apply Hsub; [apply incl_appr|apply incl_appr]; apply incl_refl|].
    rewrite !map_app, Hmn, Hen, Hsm, Hse. split; reflexivity.
  - intros nm ps subs IH ev path ms es is H. rewrite cv_nested_oneof in H. inv_ok H.
    destruct a0 as [[sm se] si]. inversion H. subst ms es is. clear H.
    destruct (Hprops _ _ _ _ _ _ E) as (Hf & Hmn & Hen & Hin).
    destruct (IH _ _ _ _ _ E0) as (Hsm & Hse & Hsub).
    split; [reflexivity|]. split; [reflexivity|].
    intros msgs enums Hm _. rewrite nested_ok_oneof.
    eexists. split; [apply Hm; left; reflexivity|]. cbn [dm_name dm_kind dm_fields dm_msgs dm_enums].
    split; [reflexivity|]. split; [reflexivity|]. split; [exact Hf|].
    split; [apply Hin; [apply incl_appl|apply incl_appl]; apply incl_refl|].
    split; [apply Hsub; [apply incl_appr|apply incl_appr]; apply incl_refl|].
    rewrite !map_app, Hmn, Hen, Hsm, Hse. split; reflexivity.
  - intros e ev path ms es is H. cbn in H. inversion H. subst ms es is. clear H.
    split; [reflexivity|]. split; [cbn [map nested_enum_name]; rewrite (proj1 (cv_enum_ok snake camel screaming _ e)); reflexivity|].
    intros msgs enums _ He. rewrite nested_ok_enum. eexists. split; [apply He; left; reflexivity|].
    apply (cv_enum_ok snake camel screaming).
  - intros ev path ms es is H. cbn in H. inversion H. subst. repeat split; reflexivity.
  - intros n IHn r IHr ev path ms es is H. rewrite cv_nesteds_cons in H. inv_ok H.
    destruct a as [[am ae] ai]. destruct a0 as [[cm ce] ci]. inversion H. subst ms es is. clear H.
    destruct (IHn _ _ _ _ _ E) as (Ham & Hae & Hn).
    destruct (IHr _ _ _ _ _ E0) as (Hcm & Hce & Hr).
    cbn [nesteds_list flat_map]. rewrite !map_app, Ham, Hae, Hcm, Hce.
    split; [reflexivity|]. split; [reflexivity|].
    intros msgs enums Hm He. rewrite nesteds_ok_cons. split.
    + apply Hn; [eapply incl_app_l; exact Hm|eapply incl_app_l; exact He].
    + apply Hr; [eapply incl_app_r; exact Hm|eapply incl_app_r; exact He].
Qed.

(* ------------------------------------------------------------------ elements of a file *)
Notation cv_elements := (cv_elements snake camel screaming).
Notation element_ok := (element_ok snake camel screaming).

Lemma cv_elements_main ev pkg els : forall main svc top main' svc' top',
  cv_elements ev pkg els main svc top = Ok (main', svc', top') ->
  exists ms es,
    fa_msgs main' = fa_msgs main ++ ms /\ fa_enums main' = fa_enums main ++ es /\
    fa_svcs main' = fa_svcs main /\
    map dm_name ms = flat_map element_msg_name els /\
    map en_name es = flat_map element_enum_name els /\
    forall e, In e els -> forall msgs enums, incl ms msgs -> incl es enums -> element_ok e msgs enums.
Proof.
  destruct nested_refines as [Hn _].
  induction els as [|e r IH]; intros main svc top main' svc' top' H.
  - cbn in H. inversion H. subst. exists [], []. rewrite !app_nil_r.
    repeat split; try reflexivity. intros e [].
  - cbn [J5sConvert.cv_elements] in H. destruct e as [nm ps subs|nm ps subs|en|s|t].
    + inv_ok H. destruct a as [[ms0 es0] is0].
      destruct (IH _ _ _ _ _ _ H) as (ms & es & Hm & He & Hs & Hmn & Hen & Hel).
      destruct (Hn _ _ _ _ _ _ E) as (Hn1 & Hn2 & Hn3).
      exists (ms0 ++ ms), (es0 ++ es). cbn [facc_add fa_msgs fa_enums fa_svcs] in Hm, He, Hs.
      rewrite Hm, He, Hs, !app_assoc, app_nil_r, !map_app, Hn1, Hn2, Hmn, Hen.
      split; [reflexivity|]. split; [reflexivity|]. split; [reflexivity|].
      split; [reflexivity|]. split; [reflexivity|].
      intros e [<-|Hin] msgs enums Hi1 Hi2.
      * apply Hn3; [eapply incl_app_l; exact Hi1|eapply incl_app_l; exact Hi2].
      * apply (Hel e Hin); [eapply incl_app_r; exact Hi1|eapply incl_app_r; exact Hi2].
    + inv_ok H. destruct a as [[ms0 es0] is0].
      destruct (IH _ _ _ _ _ _ H) as (ms & es & Hm & He & Hs & Hmn & Hen & Hel).
      destruct (Hn _ _ _ _ _ _ E) as (Hn1 & Hn2 & Hn3).
      exists (ms0 ++ ms), (es0 ++ es). cbn [facc_add fa_msgs fa_enums fa_svcs] in Hm, He, Hs.
      rewrite Hm, He, Hs, !app_assoc, app_nil_r, !map_app, Hn1, Hn2, Hmn, Hen.
      split; [reflexivity|]. split; [reflexivity|]. split; [reflexivity|].
      split; [reflexivity|]. split; [reflexivity|].
      intros e [<-|Hin] msgs enums Hi1 Hi2.
      * apply Hn3; [eapply incl_app_l; exact Hi1|eapply incl_app_l; exact Hi2].
      * apply (Hel e Hin); [eapply incl_app_r; exact Hi1|eapply incl_app_r; exact Hi2].
    + destruct (IH _ _ _ _ _ _ H) as (ms & es & Hm & He & Hs & Hmn & Hen & Hel).
      exists ms, (cv_enum (e_name en) en :: es). cbn [facc_add fa_msgs fa_enums fa_svcs] in Hm, He, Hs.
      rewrite Hm, He, Hs, !app_nil_r, <- app_assoc.
      split; [reflexivity|]. split; [reflexivity|]. split; [reflexivity|].
      split; [exact Hmn|].
      split; [cbn [map flat_map element_enum_name app]; rewrite Hen, (proj1 (cv_enum_ok snake camel screaming _ en)); reflexivity|].
      intros e [<-|Hin] msgs enums Hi1 Hi2.
      * cbn [J5sContract.element_ok]. rewrite nested_ok_enum. eexists. split; [apply Hi2; left; reflexivity|].
        apply (cv_enum_ok snake camel screaming).
      * apply (Hel e Hin); [exact Hi1|]. intros x Hx. apply Hi2. right. exact Hx.
    + inv_ok H. destruct a as [[ms0 ss0] is0].
      destruct (IH _ _ _ _ _ _ H) as (ms & es & Hm & He & Hs & Hmn & Hen & Hel).
      exists ms, es. repeat split; try assumption.
      intros e [<-|Hin] msgs enums Hi1 Hi2; [exact I|apply (Hel e Hin); assumption].
    + inv_ok H. destruct a as [[ms0 ss0] is0].
      destruct (IH _ _ _ _ _ _ H) as (ms & es & Hm & He & Hs & Hmn & Hen & Hel).
      exists ms, es. repeat split; try assumption.
      intros e [<-|Hin] msgs enums Hi1 Hi2; [exact I|apply (Hel e Hin); assumption].
Qed.

(* ConvertJ5File: the first descriptor is the file of the source's own package and holds
   exactly the declared objects, oneofs and enums *)
Theorem cv_file_main exports f D :
  cv_file snake camel screaming exports f = Ok D ->
  exists df rest, D = df :: rest /\ main_file_ok snake camel screaming f df.
Proof.
  unfold cv_file. intros H. inv_ok H. destruct a0 as [[main svc] top]. inversion H. subst D. clear H.
  eexists. eexists. split; [reflexivity|].
  destruct (cv_elements_main _ _ _ _ _ _ _ _ _ E0) as (ms & es & Hm & He & Hs & Hmn & Hen & Hel).
  cbn [facc_nil fa_msgs fa_enums fa_svcs app] in Hm, He, Hs.
  unfold main_file_ok, mk_file. cbn [fl_path fl_pkg fl_svcs fl_msgs fl_enums].
  rewrite Hm, He, Hs. repeat split; try assumption.
  intros e Hin. apply (Hel e Hin); apply incl_refl.
Qed.

End RefineFiles.

(* PipelineProbeProofs.v — the generated tables of gen/SwaggerGen.v as PROBES of the model functions of C16
   (not constant = constant comparisons): the model function is evaluated at the points the table taken from the
   Go source names, and must answer what the Go code does there. A change of the Go table (a new suffix, a
   renamed one, another http arm, another HasBody expression, another invalid character) makes the model
   function answer differently at a generated point, or changes the number of points: the lemma breaks. *)
From Coq Require Import String Ascii List Arith NArith Bool.
From J5V.lib Require Import Outcome Corr.
From J5V.model Require Import Pipeline.
From J5V.gen Require SwaggerGen.
Import ListNotations.
Local Open Scope N_scope.
Local Open Scope bool_scope.

(* ---- addStructure: strings.HasSuffix literals, in source order ---------------------------------------------
   classify_service on "Foo" ++ suffix for every suffix literal of the Go function, in the order of the source:
   Service and Sandbox -> service (0), Events -> ignored (1), Topic -> topic (2); a name with none of them is
   unsupported (3), and so is every literal with its last letter dropped *)
Definition probe_name (s : string) : str := bytes_of ("Foo" ++ s)%string.

Lemma suffix_probe :
  map (fun s => svc_kind_code (classify_service (probe_name s))) SwaggerGen.add_structure_suffixes = [0; 0; 1; 2]
  /\ svc_kind_code (classify_service (probe_name "")) = 3
  /\ forallb (fun s => svc_kind_code (classify_service (removelast (probe_name s))) =? 3) SwaggerGen.add_structure_suffixes = true.
Proof. vm_compute. repeat split; reflexivity. Qed.

(* ---- buildMethod: the switch on httpOpt.Pattern --------------------------------------------------------------
   the model numbers the arms 1 .. n in source order; build_method accepts a verb exactly when it is one of the
   n arms of the Go switch *)
Definition probe_meth (v : N) : meth_desc :=
  {| md_name := bytes_of "Get"; md_in_same_pkg := true; md_in_name := bytes_of "GetRequest";
     md_out_name := bytes_of "GetResponse"; md_out_full := bytes_of "t.v1.GetResponse";
     md_http := Some (v, bytes_of "/a"); md_in_fields := [] |}.

Lemma http_arm_probe :
  forallb (fun v => Bool.eqb (is_ok (build_method (probe_meth v)))
                             ((1 <=? v) && (v <=? N.of_nat (length SwaggerGen.http_rule_arms))))
          [0; 1; 2; 3; 4; 5; 6; 7; 8] = true.
Proof. vm_compute. reflexivity. Qed.

(* the number of an arm: its position in the Go switch *)
Fixpoint arm_index (name : string) (arms : list string) (i : N) : option N :=
  match arms with
  | [] => None
  | a :: r => if String.eqb a name then Some i else arm_index name r (i + 1)
  end.

(* ---- methodFromSource: HasBody ------------------------------------------------------------------------------
   the Go expression is `HttpMethod != HTTPMethod_<V>`; <V> is the verb of the arm HttpRule_<V> (first letter
   upper case, the rest lower case); has_body answers false exactly at that arm's number *)
Definition capitalised (s : string) : string :=
  match s with
  | EmptyString => EmptyString
  | String c r => String c (string_of_list_ascii
                    (map (fun a => let n := N_of_ascii a in if (65 <=? n) && (n <=? 90) then ascii_of_N (n + 32) else a)
                         (list_ascii_of_string r)))
  end.

Definition has_body_prefix : string := "HttpMethod != HTTPMethod_".

Definition no_body_verb : option N :=
  if String.prefix has_body_prefix SwaggerGen.has_body_expr then
    let v := substring (String.length has_body_prefix) (String.length SwaggerGen.has_body_expr) SwaggerGen.has_body_expr in
    arm_index ("HttpRule_" ++ capitalised v)%string SwaggerGen.http_rule_arms 1
  else None.

Lemma has_body_probe :
  exists v, no_body_verb = Some v
            /\ forallb (fun w => Bool.eqb (has_body w) (negb (w =? v))) [1; 2; 3; 4; 5] = true.
Proof. exists 1. vm_compute. split; reflexivity. Qed.

(* ---- buildMethod: strings.ContainsAny(part, "{}*:") ------------------------------------------------------------
   a literal path part containing any character of the Go literal is rejected by map_part, a part made of other
   characters is kept *)
Definition gen_invalid : str := flat_map bytes_of SwaggerGen.invalid_path_chars.

Lemma invalid_chars_probe :
  forallb (fun c => is_err (map_part [] [97; c; 98])) gen_invalid = true
  /\ forallb (fun c => existsb (N.eqb c) gen_invalid || is_ok (map_part [] [97; c; 98]))
             [33; 36; 42; 45; 46; 47; 58; 61; 95; 97; 123; 124; 125; 126] = true
  /\ length gen_invalid = 4%nat.
Proof. vm_compute. repeat split; reflexivity. Qed.

(* ExportKindProofs.v — "every reference resolved", with kinds.  [refs_resolved] only asks that every
   reference of the rebuilt set names a linked entry.  Here: the round trip cannot change what KIND of schema
   a reference leads to.  The kind of a root and the (reference, expected kind) pairs of a root are read off
   the EXPORTED form (an object field refers to an object, a oneof field to a oneof, an enum field to an
   enum), so that two roots with the same export have the same ones by definition.  If in the set that is
   exported every reference leads to a root of the expected kind, then so it does in the rebuilt set. *)
From Coq Require Import String List NArith ZArith Bool.
From J5V.lib Require Import Outcome.
From J5V.model Require Import ReflectDesc ReflectSchema Reflect ExportForm Export.
From J5V.model Require ReflectCorr.
From J5V.proofs Require Import ReflectProofs ExportProofs.
Import ListNotations.

Definition xkind (x : xroot) : N :=
  match x with XObjectR _ _ _ _ _ => 0%N | XOneofR _ _ _ => 1%N | XEnumR _ _ _ _ _ => 2%N end.
Fixpoint xfield_krefs (f : xfield) : list (ref * N) :=
  match f with
  | XObject (XRef r) _ _ _ => [(r, 0%N)]
  | XOneof (XRef r) _ _ _ => [(r, 1%N)]
  | XEnum (XRef r) _ _ _ => [(r, 2%N)]
  | XMap it _ _ | XArray it _ _ => xfield_krefs it
  | _ => []
  end.
Definition xroot_krefs (x : xroot) : list (ref * N) := flat_map (fun p => xfield_krefs (xp_schema p)) (xroot_props x).

(* every reference of r leads, in the set [S], to a root of the kind the referring field expects *)
Definition kinded_in (S : list (ref * root)) (r : root) : Prop :=
  forall k kd, In (k, kd) (xroot_krefs (export_root r)) -> exists r2, In (k, r2) S /\ xkind (export_root r2) = kd.
Definition kinded_st (st : sset) (r : root) : Prop :=
  forall k kd, In (k, kd) (xroot_krefs (export_root r)) -> exists r2, lookup st k = Some (Linked r2) /\ xkind (export_root r2) = kd.

Theorem roundtrip_keeps_kinds (S : list (ref * root)) (S' : sset) :
  (forall k r, In (k, r) S -> exists r', lookup S' k = Some (Linked r') /\ export_root r' = export_root r) ->
  (forall k, ~ In k (map fst S) -> lookup S' k = None) ->
  (forall k r, In (k, r) S -> kinded_in S r) ->
  forall k r', lookup S' k = Some (Linked r') -> kinded_st S' r'.
Proof.
  intros Hin Hout Hk k r' Hl k2 kd Hkr.
  assert (Hkin : In k (map fst S)).
  { destruct (in_dec ReflectCorr.ref_dec k (map fst S)) as [Hi|Hni]; [exact Hi|].
    rewrite (Hout k Hni) in Hl. discriminate. }
  apply in_map_iff in Hkin as ([k0 r] & Hk0 & HinS). cbn [fst] in Hk0. subst k0.
  destruct (Hin k r HinS) as (r'' & Hl'' & He). rewrite Hl in Hl''. inversion Hl''; subst r''.
  rewrite He in Hkr. destruct (Hk k r HinS k2 kd Hkr) as (r2 & Hin2 & Hkd).
  destruct (Hin k2 r2 Hin2) as (r2' & Hl2 & He2). exists r2'. split; [exact Hl2|]. rewrite He2. exact Hkd.
Qed.

(* with the round-trip theorem: exporting and re-importing a set with distinct keys, importable formats and
   closed, kind-correct references gives a set with kind-correct references *)
Corollary export_import_keeps_kinds (S : list (ref * root)) :
  NoDup (map fst S) -> all_importable S -> closed S -> (forall k r, In (k, r) S -> kinded_in S r) ->
  exists S', import_api (export_entries S) = ROk S' /\ refs_resolved S' = true /\
    forall k r', lookup S' k = Some (Linked r') -> kinded_st S' r'.
Proof.
  intros Hnd Hi Hc Hk. destruct (export_import_roundtrip S Hnd Hi Hc) as (S' & H1 & H2 & H3 & H4).
  exists S'. split; [exact H1|]. split; [exact H4|]. exact (roundtrip_keeps_kinds S S' H2 H3 Hk).
Qed.

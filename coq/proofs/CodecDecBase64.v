(* CodecDecBase64.v — C03 leniency for bytes: the four documented spellings (standard or URL-safe
   alphabet, with or without padding) of base64(bs) all decode to bs.
   The encoder is lib/Base64.b64_encode (enc's model of StdEncoding.EncodeToString), independent of
   the decoder model [bytes_from_string] of model/CodecDecScalar.v that the theorem is about. *)
From Coq Require Import List NArith Arith Bool Lia ZifyN ZifyNat ZifyBool.
From J5V.lib Require Import Json Base64.
From J5V.model Require Import CodecTypes CodecDecScalar.
Import ListNotations.
Local Open Scope N_scope.

Definition is_byte (b : N) : Prop := b < 256.

(* ---------------------------------------------------------------- finite facts, by computation *)
Fixpoint range (n : nat) : list N := match n with O => [] | S k => range k ++ [N.of_nat k] end.

Lemma range_complete n x : x < N.of_nat n -> In x (range n).
Proof.
  induction n as [|k IH]; intros H; [lia|]. cbn. apply in_or_app.
  destruct (N.eq_dec x (N.of_nat k)) as [-> | Hne]; [right; left; reflexivity|]. left. apply IH. lia.
Qed.

Lemma forall_lt64 (P : N -> bool) : forallb P (range 64) = true -> forall d, d < 64 -> P d = true.
Proof. intros H d Hd. rewrite forallb_forall in H. apply H. apply range_complete. exact Hd. Qed.
Lemma forall_lt256 (P : N -> bool) : forallb P (range 256) = true -> forall d, d < 256 -> P d = true.
Proof. intros H d Hd. rewrite forallb_forall in H. apply H. apply range_complete. exact Hd. Qed.

Lemma val_char d : d < 64 -> CodecDecScalar.b64_val (b64_char d) = Some d.
Proof.
  intros H.
  apply (forall_lt64 (fun d => match CodecDecScalar.b64_val (b64_char d) with Some x => x =? d | None => false end)) in H;
    [|vm_compute; reflexivity].
  destruct (CodecDecScalar.b64_val (b64_char d)); [|discriminate]. apply N.eqb_eq in H. subst. reflexivity.
Qed.

Lemma char_not_special d : d < 64 ->
  is_crlf (b64_char d) = false /\ (b64_char d =? 61) = false /\ url_to_std (b64_char d) = b64_char d.
Proof.
  intros H.
  apply (forall_lt64 (fun d => negb (is_crlf (b64_char d)) && negb (b64_char d =? 61) && (CodecDecScalar.url_to_std (b64_char d) =? b64_char d))) in H;
    [|vm_compute; reflexivity].
  apply andb_prop in H. destruct H as [H H3]. apply andb_prop in H. destruct H as [H1 H2].
  repeat split.
  - destruct (is_crlf (b64_char d)); [discriminate|reflexivity].
  - destruct (b64_char d =? 61); [discriminate|reflexivity].
  - apply N.eqb_eq in H3. exact H3.
Qed.

(* the sextets of one, two and three bytes recombine *)
Lemma recombine1 a : a < 256 -> a / 4 * 4 + (a mod 4 * 16) / 16 = a.
Proof.
  intros H. apply (forall_lt256 (fun a => a / 4 * 4 + (a mod 4 * 16) / 16 =? a)) in H; [|vm_compute; reflexivity].
  apply N.eqb_eq. exact H.
Qed.

Lemma sextet_bounds a b c : a < 256 -> b < 256 -> c < 256 ->
  a / 4 < 64 /\ a mod 4 * 16 + b / 16 < 64 /\ b mod 16 * 4 + c / 64 < 64 /\ c mod 64 < 64 /\
  a mod 4 * 16 < 64 /\ b mod 16 * 4 < 64.
Proof.
  intros Ha Hb Hc.
  pose proof (N.mod_lt a 4 ltac:(lia)). pose proof (N.mod_lt b 16 ltac:(lia)). pose proof (N.mod_lt c 64 ltac:(lia)).
  assert (a / 4 < 64) by (apply N.div_lt_upper_bound; lia).
  assert (b / 16 < 16) by (apply N.div_lt_upper_bound; lia).
  assert (c / 64 < 4) by (apply N.div_lt_upper_bound; lia).
  repeat split; lia.
Qed.

Lemma recombine_ab a b : a < 256 -> b < 256 ->
  a / 4 * 4 + (a mod 4 * 16 + b / 16) / 16 = a /\
  (a mod 4 * 16 + b / 16) mod 16 * 16 + (b mod 16 * 4) / 4 = b.
Proof.
  intros Ha Hb.
  pose proof (N.div_mod a 4 ltac:(lia)). pose proof (N.mod_lt a 4 ltac:(lia)).
  pose proof (N.div_mod b 16 ltac:(lia)). pose proof (N.mod_lt b 16 ltac:(lia)).
  assert (Hb16 : b / 16 < 16) by (apply N.div_lt_upper_bound; lia).
  assert (E1 : (a mod 4 * 16 + b / 16) / 16 = a mod 4).
  { symmetry. apply (N.div_unique _ 16 _ (b / 16)); lia. }
  assert (E2 : (a mod 4 * 16 + b / 16) mod 16 = b / 16).
  { symmetry. apply (N.mod_unique _ 16 (a mod 4)); lia. }
  assert (E3 : (b mod 16 * 4) / 4 = b mod 16) by (apply N.div_mul; lia).
  rewrite E1, E2, E3. split; lia.
Qed.

Lemma recombine_bc b c : b < 256 -> c < 256 ->
  (b mod 16 * 4 + c / 64) / 4 = b mod 16 /\ (b mod 16 * 4 + c / 64) mod 4 * 64 + c mod 64 = c.
Proof.
  intros Hb Hc.
  pose proof (N.mod_lt b 16 ltac:(lia)).
  pose proof (N.div_mod c 64 ltac:(lia)). pose proof (N.mod_lt c 64 ltac:(lia)).
  assert (Hc64 : c / 64 < 4) by (apply N.div_lt_upper_bound; lia).
  assert (E1 : (b mod 16 * 4 + c / 64) / 4 = b mod 16).
  { symmetry. apply (N.div_unique _ 4 _ (c / 64)); lia. }
  assert (E2 : (b mod 16 * 4 + c / 64) mod 4 = c / 64).
  { symmetry. apply (N.mod_unique _ 4 (b mod 16)); lia. }
  rewrite E1, E2. split; lia.
Qed.

(* ---------------------------------------------------------------- the decoder on alphabet characters *)
Lemma b64_go_char d r ds : d < 64 ->
  b64_go (b64_char d :: r) ds =
  (let ds' := ds ++ [d] in
   if N.of_nat (length ds') =? 4 then
     match b64_go r [] with Some o => Some (quantum_bytes ds' ++ o) | None => None end
   else b64_go r ds').
Proof. intros H. cbn [b64_go]. rewrite (val_char d H). reflexivity. Qed.

Lemma b64_go_char1 d r : d < 64 -> b64_go (b64_char d :: r) [] = b64_go r [d].
Proof. intros H. rewrite b64_go_char by exact H. reflexivity. Qed.
Lemma b64_go_char2 d0 d r : d < 64 -> b64_go (b64_char d :: r) [d0] = b64_go r [d0; d].
Proof. intros H. rewrite b64_go_char by exact H. reflexivity. Qed.
Lemma b64_go_char3 d0 d1 d r : d < 64 -> b64_go (b64_char d :: r) [d0; d1] = b64_go r [d0; d1; d].
Proof. intros H. rewrite b64_go_char by exact H. reflexivity. Qed.
Lemma b64_go_char4 d0 d1 d2 d r : d < 64 ->
  b64_go (b64_char d :: r) [d0; d1; d2] =
  match b64_go r [] with Some o => Some (quantum_bytes [d0; d1; d2; d] ++ o) | None => None end.
Proof. intros H. rewrite b64_go_char by exact H. reflexivity. Qed.

Lemma b64_go_quad d0 d1 d2 d3 r : d0 < 64 -> d1 < 64 -> d2 < 64 -> d3 < 64 ->
  b64_go (b64_char d0 :: b64_char d1 :: b64_char d2 :: b64_char d3 :: r) [] =
  match b64_go r [] with Some o => Some (quantum_bytes [d0; d1; d2; d3] ++ o) | None => None end.
Proof.
  intros H0 H1 H2 H3.
  rewrite b64_go_char1, b64_go_char2, b64_go_char3, b64_go_char4 by assumption. reflexivity.
Qed.

(* ---------------------------------------------------------------- standard alphabet, padded *)
Theorem std_padded bs : Forall is_byte bs -> CodecDecScalar.b64_std_decode (b64_encode bs) = Some bs.
Proof.
  unfold CodecDecScalar.b64_std_decode.
  induction bs as [| a | a b | a b c r IH] using list_ind3; intros Hb.
  - reflexivity.
  - inversion Hb as [|? ? Ha _]; subst. unfold is_byte in Ha.
    destruct (sextet_bounds a 0 0 Ha ltac:(lia) ltac:(lia)) as (H0 & _ & _ & _ & H1 & _).
    cbn [b64_encode].
    rewrite b64_go_char1, b64_go_char2 by assumption.
    cbn. rewrite recombine1 by exact Ha. reflexivity.
  - inversion Hb as [|? ? Ha Hb']; subst. inversion Hb' as [|? ? Hb2 _]; subst. unfold is_byte in *.
    destruct (sextet_bounds a b 0 Ha Hb2 ltac:(lia)) as (H0 & H1 & _ & _ & _ & H2).
    cbn [b64_encode].
    rewrite b64_go_char1, b64_go_char2, b64_go_char3 by assumption.
    cbn. destruct (recombine_ab a b Ha Hb2) as [E1 E2]. rewrite E1, E2. reflexivity.
  - inversion Hb as [|? ? Ha Hb']; subst. inversion Hb' as [|? ? Hb2 Hb'']; subst.
    inversion Hb'' as [|? ? Hc Hr]; subst. unfold is_byte in Ha, Hb2, Hc.
    destruct (sextet_bounds a b c Ha Hb2 Hc) as (H0 & H1 & H2 & H3 & _ & _).
    cbn [b64_encode]. rewrite b64_go_quad by assumption. rewrite (IH Hr).
    cbn [quantum_bytes app]. destruct (recombine_ab a b Ha Hb2) as [E1 E2].
    destruct (recombine_bc b c Hb2 Hc) as [E3 E4].
    rewrite E1. f_equal. f_equal. f_equal; [|f_equal; exact E4].
    replace ((a mod 4 * 16 + b / 16) mod 16 * 16 + (b mod 16 * 4 + c / 64) / 4) with b; [reflexivity|].
    rewrite E3. pose proof (N.div_mod b 16 ltac:(lia)).
    assert (E5 : (a mod 4 * 16 + b / 16) mod 16 = b / 16).
    { pose proof (N.mod_lt a 4 ltac:(lia)). assert (b / 16 < 16) by (apply N.div_lt_upper_bound; lia).
      symmetry. apply (N.mod_unique _ 16 (a mod 4)); lia. }
    rewrite E5. lia.
Qed.

(* ---------------------------------------------------------------- the other three spellings *)
Definition std_to_url (c : N) : N := if c =? 43 then 45 else if c =? 47 then 95 else c.
Definition strip_pad (s : bytes) : bytes := filter (fun c => negb (c =? 61)) s.

(* every character of an encoding is an alphabet character or '=' *)
Definition enc_char (c : N) : Prop := (exists d, d < 64 /\ c = b64_char d) \/ c = 61.

Lemma encode_chars bs : Forall is_byte bs -> Forall enc_char (b64_encode bs).
Proof.
  induction bs as [| a | a b | a b c r IH] using list_ind3; intros Hb.
  - constructor.
  - inversion Hb as [|? ? Ha _]; subst. unfold is_byte in Ha.
    destruct (sextet_bounds a 0 0 Ha ltac:(lia) ltac:(lia)) as (H0 & _ & _ & _ & H1 & _).
    cbn [b64_encode]. constructor; [left; eauto|]. constructor; [left; eauto|].
    constructor; [right; reflexivity|]. constructor; [right; reflexivity|]. constructor.
  - inversion Hb as [|? ? Ha Hb']; subst. inversion Hb' as [|? ? Hb2 _]; subst. unfold is_byte in *.
    destruct (sextet_bounds a b 0 Ha Hb2 ltac:(lia)) as (H0 & H1 & _ & _ & _ & H2).
    cbn [b64_encode]. constructor; [left; eauto|]. constructor; [left; eauto|]. constructor; [left; eauto|].
    constructor; [right; reflexivity|]. constructor.
  - inversion Hb as [|? ? Ha Hb']; subst. inversion Hb' as [|? ? Hb2 Hb'']; subst.
    inversion Hb'' as [|? ? Hc Hr]; subst. unfold is_byte in Ha, Hb2, Hc.
    destruct (sextet_bounds a b c Ha Hb2 Hc) as (H0 & H1 & H2 & H3 & _ & _).
    cbn [b64_encode]. repeat (constructor; [left; eauto|]). apply IH. exact Hr.
Qed.

Lemma url_round c : enc_char c ->
  CodecDecScalar.url_to_std c = c /\ CodecDecScalar.url_to_std (std_to_url c) = c.
Proof.
  intros [(d & Hd & ->) | ->]; [|split; reflexivity].
  apply (forall_lt64 (fun d => (CodecDecScalar.url_to_std (b64_char d) =? b64_char d) &&
                               (CodecDecScalar.url_to_std (std_to_url (b64_char d)) =? b64_char d))) in Hd;
    [|vm_compute; reflexivity].
  apply andb_prop in Hd. destruct Hd as [H1 H2]. apply N.eqb_eq in H1. apply N.eqb_eq in H2. split; assumption.
Qed.

Lemma map_url_id s : Forall enc_char s ->
  map CodecDecScalar.url_to_std s = s /\ map CodecDecScalar.url_to_std (map std_to_url s) = s.
Proof.
  induction 1 as [|c r Hc _ [IH1 IH2]]; [split; reflexivity|].
  destruct (url_round c Hc) as [E1 E2]. cbn [map]. rewrite E1, E2, IH1, IH2. split; reflexivity.
Qed.

(* re-padding, as byteValueFromString does it *)
Definition repad (s : bytes) : bytes :=
  let rem := N.of_nat (length s) mod 4 in
  if rem =? 0 then s else s ++ repeat 61 (N.to_nat (4 - rem)).

Lemma bytes_from_string_repad s :
  bytes_from_string s = CodecDecScalar.b64_std_decode (repad (map CodecDecScalar.url_to_std s)).
Proof. reflexivity. Qed.

Lemma repad_cons4 c0 c1 c2 c3 s : repad (c0 :: c1 :: c2 :: c3 :: s) = c0 :: c1 :: c2 :: c3 :: repad s.
Proof.
  unfold repad. cbn [length].
  replace (N.of_nat (S (S (S (S (length s))))) mod 4) with (N.of_nat (length s) mod 4).
  - destruct (N.of_nat (length s) mod 4 =? 0); reflexivity.
  - replace (N.of_nat (S (S (S (S (length s)))))) with (N.of_nat (length s) + 1 * 4) by lia.
    rewrite N.mod_add by lia. reflexivity.
Qed.

Lemma char_not_pad d : d < 64 -> (b64_char d =? 61) = false.
Proof. intros H. apply char_not_special. exact H. Qed.

Lemma repad_strip_encode bs : Forall is_byte bs -> repad (strip_pad (b64_encode bs)) = b64_encode bs.
Proof.
  induction bs as [| a | a b | a b c r IH] using list_ind3; intros Hb.
  - reflexivity.
  - inversion Hb as [|? ? Ha _]; subst. unfold is_byte in Ha.
    destruct (sextet_bounds a 0 0 Ha ltac:(lia) ltac:(lia)) as (H0 & _ & _ & _ & H1 & _).
    cbn [b64_encode strip_pad filter]. rewrite !char_not_pad by assumption. cbn [negb N.eqb Pos.eqb]. reflexivity.
  - inversion Hb as [|? ? Ha Hb']; subst. inversion Hb' as [|? ? Hb2 _]; subst. unfold is_byte in *.
    destruct (sextet_bounds a b 0 Ha Hb2 ltac:(lia)) as (H0 & H1 & _ & _ & _ & H2).
    cbn [b64_encode strip_pad filter]. rewrite !char_not_pad by assumption. cbn [negb N.eqb Pos.eqb]. reflexivity.
  - inversion Hb as [|? ? Ha Hb']; subst. inversion Hb' as [|? ? Hb2 Hb'']; subst.
    inversion Hb'' as [|? ? Hc Hr]; subst. unfold is_byte in Ha, Hb2, Hc.
    destruct (sextet_bounds a b c Ha Hb2 Hc) as (H0 & H1 & H2 & H3 & _ & _).
    cbn [b64_encode strip_pad filter]. rewrite !char_not_pad by assumption. cbn [negb].
    fold (strip_pad (b64_encode r)). rewrite repad_cons4. rewrite (IH Hr). reflexivity.
Qed.

Lemma repad_encode bs : repad (b64_encode bs) = b64_encode bs.
Proof.
  unfold repad. pose proof (b64_encode_padded bs) as H.
  replace (N.of_nat (length (b64_encode bs)) mod 4) with 0; [reflexivity|].
  symmetry. replace 4 with (N.of_nat 4) by reflexivity. rewrite <- Nnat.Nat2N.inj_mod. rewrite H. reflexivity.
Qed.

Lemma strip_pad_map_url s : strip_pad (map std_to_url s) = map std_to_url (strip_pad s).
Proof.
  induction s as [|c r IH]; [reflexivity|]. cbn [map strip_pad filter].
  assert (E : (std_to_url c =? 61) = (c =? 61)).
  { unfold std_to_url. destruct (c =? 43) eqn:E1; [apply N.eqb_eq in E1; subst; reflexivity|].
    destruct (c =? 47) eqn:E2; [apply N.eqb_eq in E2; subst; reflexivity|]. reflexivity. }
  rewrite E. destruct (c =? 61); cbn [negb]; fold (strip_pad (map std_to_url r)); fold (strip_pad r); rewrite IH; reflexivity.
Qed.

Lemma strip_pad_chars s : Forall enc_char s -> Forall enc_char (strip_pad s).
Proof.
  induction 1 as [|c r Hc _ IH]; [constructor|]. cbn [strip_pad filter].
  destruct (c =? 61); cbn [negb]; [exact IH|constructor; assumption].
Qed.

(* standard or URL-safe alphabet, with or without padding: the same bytes *)
Theorem base64_four_spellings bs : Forall is_byte bs ->
  let e := b64_encode bs in
  bytes_from_string e = Some bs /\
  bytes_from_string (strip_pad e) = Some bs /\
  bytes_from_string (map std_to_url e) = Some bs /\
  bytes_from_string (map std_to_url (strip_pad e)) = Some bs.
Proof.
  intros Hb e. pose proof (encode_chars bs Hb) as Hc. fold e in Hc.
  pose proof (strip_pad_chars e Hc) as Hcs.
  destruct (map_url_id e Hc) as [M1 M2]. destruct (map_url_id (strip_pad e) Hcs) as [M3 M4].
  rewrite !bytes_from_string_repad. rewrite M1, M2, M3, M4.
  unfold e. rewrite repad_encode, repad_strip_encode by exact Hb.
  rewrite std_padded by exact Hb. repeat split; reflexivity.
Qed.

(* a character outside both alphabets (and not '=', CR, LF) makes the text invalid base64 *)
Theorem base64_foreign_char_rejected s1 c s2 :
  CodecDecScalar.b64_val (CodecDecScalar.url_to_std c) = None -> is_crlf (CodecDecScalar.url_to_std c) = false ->
  (CodecDecScalar.url_to_std c =? 61) = false ->
  Forall (fun x => CodecDecScalar.b64_val (CodecDecScalar.url_to_std x) <> None) s1 ->
  bytes_from_string (s1 ++ c :: s2) = None.
Proof.
  intros Hv Hn Hp Hs1. rewrite bytes_from_string_repad. unfold CodecDecScalar.b64_std_decode.
  assert (G : forall t ds, CodecDecScalar.b64_val (CodecDecScalar.url_to_std c) = None ->
            forall pre, Forall (fun x => CodecDecScalar.b64_val x <> None) pre ->
            b64_go (pre ++ CodecDecScalar.url_to_std c :: t) ds = None).
  { intros t ds _ pre. revert ds. induction pre as [|x r IH]; intros ds Hpre.
    - cbn [app b64_go]. rewrite Hv, Hn, Hp. reflexivity.
    - inversion Hpre as [|? ? Hx Hr]; subst. cbn [app b64_go].
      destruct (CodecDecScalar.b64_val x) as [d|]; [|congruence].
      destruct (N.of_nat (length (ds ++ [d])) =? 4); [rewrite (IH [] Hr); reflexivity | apply IH; exact Hr]. }
  unfold repad. rewrite map_app. cbn [map].
  assert (Hpre : Forall (fun x => CodecDecScalar.b64_val x <> None) (map CodecDecScalar.url_to_std s1)).
  { apply Forall_map. exact Hs1. }
  destruct (N.of_nat (length (map CodecDecScalar.url_to_std s1 ++ CodecDecScalar.url_to_std c :: map CodecDecScalar.url_to_std s2)) mod 4 =? 0).
  - apply G; assumption.
  - rewrite <- app_assoc. cbn [app]. apply G; assumption.
Qed.

(* the same at the level of the decoder's scalar conversion *)
Corollary bytes_field_four_spellings orc bs : Forall is_byte bs ->
  let e := b64_encode bs in
  Forall (fun s => scalar_from_go orc KBytes (GStr s) = Outcome.Ok (Some (VBytes bs)))
         [e; strip_pad e; map std_to_url e; map std_to_url (strip_pad e)].
Proof.
  intros Hb e. destruct (base64_four_spellings bs Hb) as (H1 & H2 & H3 & H4). fold e in H1, H2, H3, H4.
  repeat constructor; cbn [scalar_from_go]; rewrite ?H1, ?H2, ?H3, ?H4; reflexivity.
Qed.

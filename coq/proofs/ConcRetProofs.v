(* ConcRetProofs.v — which schema OBJECT a call hands to its caller (C10): under the guarded
   discipline every call on a type, by whatever thread and whenever, is handed the same
   RefSchema cell (pointer identity: one canonical object per type), and the object handed
   out is completely linked and stays so at every later point of the run, also while
   another thread is in the middle of a build (immutable after publication). *)
From Coq Require Import List NArith Bool Arith Lia.
From J5V.model Require Import Conc.
From J5V.proofs Require Import ConcInvProofs ConcTermProofs ConcMainProofs.
Import ListNotations.

Definition ret := (tid * name * cellid)%type.

(* base = the cache as it was when the lock was last free: what has been handed out is bound
   in it, and the thread inside Schema has only added to it *)
Definition rinv (g : graph) (rs : list ret) (st : state) : Prop :=
  exists base, wf g base [] /\
    (forall t n c, In (t, n, c) rs -> bound base n c) /\
    (s_lock st = None -> heap (s_sh st) = heap base /\ cmap (s_sh st) = cmap base) /\
    (forall h th, s_lock st = Some h -> nth_error (s_thr st) h = Some th ->
       snap base (s_sh st) (pc_stack (t_pc th))).

Lemma rinv_init g calls : rinv g [] (init calls).
Proof.
  exists empty_shared. split; [apply wf_empty|]. split; [intros t n c []|]. split.
  - intros _. split; reflexivity.
  - intros h th H. discriminate H.
Qed.

Lemma lookup_app_keep nb m n c :
  NoDup (map fst (nb ++ m)) -> lookup m n = Some c -> lookup (nb ++ m) n = Some c.
Proof.
  induction nb as [|[k' c'] nb IH]; intros ND H; [exact H|].
  cbn in ND. inversion ND as [|? ? Hnin ND']; subst. cbn [app lookup].
  destruct (N.eqb_spec k' n) as [->|Hne]; [|apply IH; assumption].
  exfalso. apply Hnin. rewrite map_app. apply in_or_app. right. eapply lookup_In; eauto.
Qed.

Lemma snap_acquire base sh :
  heap sh = heap base -> cmap sh = cmap base -> snap base (reset_reg sh) [].
Proof.
  intros Eh Ec. split; cbn [reset_reg heap cmap reg].
  - exists []. split; [exact Ec | reflexivity].
  - rewrite Eh. lia.
  - intros c _. rewrite Eh. reflexivity.
  - intros c [].
Qed.

Lemma gstep_ret_inside k g t st th n rest :
  nth_error (s_thr st) t = Some th -> t_calls th = n :: rest -> ~ outside (t_pc th) ->
  gstep_ret k g t st =
    match snd (lstep k g n (s_sh st) (t_pc th)) with
    | inr (ROk _) =>
        match result_cell n (s_sh st) (t_pc th) with
        | Some c => Some (t, n, c)
        | None => None
        end
    | _ => None
    end.
Proof.
  intros Ht Hc _. unfold gstep_ret. rewrite Ht, Hc.
  destruct (t_pc th); reflexivity.
Qed.

Lemma gstep_ret_outside k g t st th :
  nth_error (s_thr st) t = Some th -> outside (t_pc th) -> gstep_ret k g t st = None.
Proof.
  intros Ht [E|E]; unfold gstep_ret; rewrite Ht, E; destruct (t_calls th); reflexivity.
Qed.

Section Step.
Variables (k : nat) (g : graph) (calls : list (list name)).

(* the holder is not a thread at the entry or blocked *)
Lemma holder_inside st h th :
  ginv k g calls st -> s_lock st = Some h -> nth_error (s_thr st) h = Some th -> ~ outside (t_pc th).
Proof.
  intros I El Hh. destruct (gi_held _ _ _ _ I h El) as (thh & n & rest & Hh' & _ & Ti & _).
  rewrite Hh in Hh'. inversion Hh'; subst thh. eapply tinv_inside; eauto.
Qed.

Lemma rinv_acquire rs st t th q' :
  rinv g rs st -> nth_error (s_thr st) t = Some th -> s_lock st = None ->
  rinv g rs (mkState (reset_reg (s_sh st)) (Some t) q' (set_nth (s_thr st) t (with_pc th PLookup))).
Proof.
  intros (base & Wb & Hb & Hfree & _) Ht El. destruct (Hfree El) as [Eh Ec].
  exists base. split; [exact Wb|]. split; [exact Hb|]. split; [discriminate|].
  cbn [s_sh s_lock s_thr]. intros h th' Eh' Hth. inversion Eh'; subst h.
  rewrite (nth_set_eq _ _ _ _ Ht) in Hth. inversion Hth; subst th'. cbn [with_pc t_pc pc_stack].
  apply snap_acquire; assumption.
Qed.

Lemma rinv_inside rs st t th n rest :
  ginv k g calls st -> rinv g rs st ->
  nth_error (s_thr st) t = Some th -> t_calls th = n :: rest -> ~ outside (t_pc th) ->
  rinv g (rs ++ match gstep_ret k g t st with Some x => [x] | None => [] end) (gstep Guarded k g t st).
Proof.
  intros I (base & Wb & Hb & Hfree & Hheld) Ht Hc Hin.
  pose proof (inside_is_holder _ _ _ _ _ _ I Ht Hin) as El.
  destruct (gi_held _ _ _ _ I t El) as (thh & nh & resth & Hh & Hch & Ti & _).
  rewrite Ht in Hh. inversion Hh; subst thh. clear Hh.
  rewrite Hc in Hch. inversion Hch; subst nh resth. clear Hch.
  assert (Hnm : n <> unsupported).
  { eapply (gi_calls_ok _ _ _ _ I); eauto. rewrite Hc. left. reflexivity. }
  pose proof (Hheld t th El Ht) as S0.
  pose proof (ginv_step k g calls st t I) as I'.
  rewrite (gstep_inside k g t st th n rest Ht Hc Hin) in *.
  rewrite (gstep_ret_inside k g t st th n rest Ht Hc Hin).
  pose proof (lstep_ok k g n (s_sh st) (t_pc th) Ti Hnm) as LO.
  pose proof (lstep_snap k g n base (s_sh st) (t_pc th) S0) as LS.
  (* the cell of a returning call is bound, in the cache it leaves, to the type asked for *)
  assert (Hrc : forall sh' tr c, lstep k g n (s_sh st) (t_pc th) = (sh', inr (ROk tr)) ->
            result_cell n (s_sh st) (t_pc th) = Some c -> bound sh' n c).
  { intros sh' tr c E Erc. destruct (t_pc th) eqn:Ep; cbn [result_cell] in Erc; try discriminate Erc; cbn [tinv] in Ti.
    - cbn [lstep] in E. rewrite Erc in E. destruct (cell_to (s_sh st) c).
      + inversion E; subst. exact Erc.
      + exfalso. destruct (existsb (Nat.eqb c) (failed (s_sh st))); inversion E.
    - inversion Erc; subst. cbn [lstep] in E. inversion E; subst. apply Ti. }
  destruct (lstep k g n (s_sh st) (t_pc th)) as [sh' [p'|res]] eqn:EL; cbn [snd].
  - (* the call goes on *)
    rewrite app_nil_r. exists base. split; [exact Wb|]. split; [exact Hb|].
    cbn [s_sh s_lock s_thr]. split; [rewrite El; discriminate|].
    intros h th' Eh Hth. rewrite El in Eh. inversion Eh; subst h.
    rewrite (nth_set_eq _ _ _ _ Ht) in Hth. inversion Hth; subst th'. exact LS.
  - (* the call returns: the cache it leaves is the new base *)
    unfold release in *. cbn [s_sh s_lock s_waitq s_thr] in *.
    destruct (gi_free _ _ _ _ I' eq_refl) as (W' & _). cbn [s_sh] in W'.
    assert (Hkeep : forall m c, bound base m c -> bound (finish_shared res sh') m c).
    { intros m c B. destruct LO as [(-> & Wsh & _) | (-> & Ep & -> & _)].
      - cbn [finish_shared]. unfold bound. cbn [reset_reg cmap].
        destruct (sn_cmap _ _ _ LS) as (nb & E1 & _). rewrite E1.
        apply lookup_app_keep; [rewrite <- E1; exact (wf_nodup _ _ _ Wsh) | exact B].
      - cbn [finish_shared]. rewrite Ep in Ti. destruct Ti as [_ ND].
        unfold bound. rewrite (rollback_cmap base (s_sh st) [] LS ND). exact B. }
    exists (finish_shared res sh'). split; [exact W'|]. split.
    + intros t0 n0 c0 Hin0. apply in_app_or in Hin0. destruct Hin0 as [Hin0|Hin0].
      * apply Hkeep. eapply Hb; eauto.
      * destruct res as [| | |tr]; try (destruct Hin0).
        destruct (result_cell n (s_sh st) (t_pc th)) as [c|] eqn:Erc; [|destruct Hin0].
        destruct Hin0 as [E|[]]. inversion E; subst t0 n0 c0.
        unfold bound. cbn [finish_shared reset_reg cmap]. exact (Hrc sh' tr c eq_refl eq_refl).
    + split; [intros _; split; reflexivity | intros h th' Eh; discriminate Eh].
Qed.

Theorem rinv_step rs st t :
  ginv k g calls st -> rinv g rs st ->
  rinv g (rs ++ match gstep_ret k g t st with Some x => [x] | None => [] end) (gstep Guarded k g t st).
Proof.
  intros I R.
  destruct (nth_error (s_thr st) t) as [th|] eqn:Ht.
  2: { unfold gstep_ret, gstep. rewrite Ht, app_nil_r. exact R. }
  destruct (t_calls th) as [|n rest] eqn:Hc.
  { unfold gstep_ret, gstep. rewrite Ht, Hc, app_nil_r. exact R. }
  destruct (t_pc th) eqn:Hp.
  - (* PEnter *)
    rewrite (gstep_ret_outside k g t st th Ht) by (left; exact Hp). rewrite app_nil_r.
    unfold gstep. rewrite Ht, Hc, Hp. destruct (s_lock st) as [h|] eqn:El.
    + destruct R as (base & Wb & Hb & Hfree & Hheld). exists base. split; [exact Wb|]. split; [exact Hb|].
      cbn [s_sh s_lock s_thr]. split; [discriminate|].
      intros h' th' Eh Hth. inversion Eh; subst h'.
      assert (t <> h).
      { intros E. subst. eapply holder_inside; [exact I | exact El | exact Ht | left; exact Hp]. }
      rewrite nth_error_set_nth_neq in Hth by congruence. exact (Hheld h th' El Hth).
    + eapply rinv_acquire; eauto.
  - (* PWait *)
    rewrite (gstep_ret_outside k g t st th Ht) by (right; exact Hp). rewrite app_nil_r.
    unfold gstep. rewrite Ht, Hc, Hp. destruct (s_lock st) as [h|] eqn:El; [exact R|].
    eapply rinv_acquire; eauto.
  - eapply rinv_inside; eauto. rewrite Hp. intros [E|E]; discriminate E.
  - eapply rinv_inside; eauto. rewrite Hp. intros [E|E]; discriminate E.
  - eapply rinv_inside; eauto. rewrite Hp. intros [E|E]; discriminate E.
  - eapply rinv_inside; eauto. rewrite Hp. intros [E|E]; discriminate E.
  - eapply rinv_inside; eauto. rewrite Hp. intros [E|E]; discriminate E.
  - eapply rinv_inside; eauto. rewrite Hp. intros [E|E]; discriminate E.
  - eapply rinv_inside; eauto. rewrite Hp. intros [E|E]; discriminate E.
  - eapply rinv_inside; eauto. rewrite Hp. intros [E|E]; discriminate E.
Qed.

Theorem rinv_run sched : forall rs st,
  ginv k g calls st -> rinv g rs st ->
  rinv g (rs ++ rets_from Guarded k g sched st) (run_from Guarded k g sched st).
Proof.
  induction sched as [|t r IH]; intros rs st I R; [cbn; rewrite app_nil_r; exact R|].
  cbn [rets_from]. rewrite run_from_cons, app_assoc.
  apply IH; [apply ginv_step; exact I | apply rinv_step; assumption].
Qed.

(* what is bound in the base unfolds, in the current heap, to its type at every depth — also
   in the middle of another thread's build *)
Lemma unfold_over_base base sh stk :
  wf g base [] -> snap base sh stk ->
  forall d n c, bound base n c -> unfold d (heap sh) c = gunfold d g n.
Proof.
  intros W S. induction d as [|d IH]; intros n c B;
    destruct (wf_cells _ _ _ W _ _ B) as (cl & Hc & Hn & [[[] _] | [_ (fs & Hto & F)]]);
    assert (Hc' : nth_error (heap sh) c = Some cl)
      by (rewrite (sn_heap _ _ _ S) by (apply nth_error_Some; congruence); exact Hc).
  - cbn. rewrite Hc', Hto. congruence.
  - cbn [unfold gunfold]. rewrite Hc', Hto, Hn. f_equal.
    clear Hto. induction F as [|a b la lb Hab F IHF]; cbn; [reflexivity|].
    f_equal; [apply IH; exact Hab | exact IHF].
Qed.

End Step.

Lemma rets_from_app d k g s1 s2 st :
  rets_from d k g (s1 ++ s2) st = rets_from d k g s1 st ++ rets_from d k g s2 (run_from d k g s1 st).
Proof.
  revert st; induction s1 as [|t r IH]; intros st; [reflexivity|].
  cbn [app rets_from]. rewrite IH, run_from_cons, app_assoc. reflexivity.
Qed.

Lemma rinv_reach k g calls sched : calls_ok calls ->
  rinv g (rets Guarded k g calls sched) (run Guarded k g calls sched).
Proof.
  intros Hok. unfold rets, run.
  apply (rinv_run k g calls sched [] (init calls)); [apply ginv_init; exact Hok | apply rinv_init].
Qed.

(* one canonical object per type: whatever two calls on the same type were handed, by
   whatever threads and however far apart, is the same cell *)
Theorem guarded_ret_canonical k g calls sched t1 t2 n c1 c2 : calls_ok calls ->
  In (t1, n, c1) (rets Guarded k g calls sched) -> In (t2, n, c2) (rets Guarded k g calls sched) -> c1 = c2.
Proof.
  intros Hok H1 H2. destruct (rinv_reach k g calls sched Hok) as (base & _ & Hb & _).
  pose proof (Hb _ _ _ H1) as B1. pose proof (Hb _ _ _ H2) as B2. unfold bound in *. congruence.
Qed.

(* the object handed out is completely linked — it unfolds to its type at EVERY depth, and
   the type reflects — at the moment it is handed out and at every later point of the run,
   whatever the other threads are in the middle of *)
Theorem guarded_ret_linked k g calls sched t n c : calls_ok calls ->
  In (t, n, c) (rets Guarded k g calls sched) ->
  forall later d, unfold d (heap (s_sh (run Guarded k g calls (sched ++ later)))) c = gunfold d g n.
Proof.
  intros Hok Hin later d.
  assert (Hin' : In (t, n, c) (rets Guarded k g calls (sched ++ later))).
  { unfold rets. rewrite rets_from_app. apply in_or_app. left. exact Hin. }
  pose proof (ginv_reach k g calls (sched ++ later) Hok) as I.
  destruct (rinv_reach k g calls (sched ++ later) Hok) as (base & Wb & Hb & Hfree & Hheld).
  pose proof (Hb _ _ _ Hin') as B.
  destruct (s_lock (run Guarded k g calls (sched ++ later))) as [h|] eqn:El.
  - destruct (gi_held _ _ _ _ I h El) as (thh & nh & resth & Hh & _).
    eapply unfold_over_base; [exact Wb | exact (Hheld h thh eq_refl Hh) | exact B].
  - destruct (Hfree eq_refl) as [Eh _]. rewrite Eh. eapply unfold_wf; eauto.
Qed.

Theorem guarded_ret_good k g calls sched t n c : calls_ok calls ->
  In (t, n, c) (rets Guarded k g calls sched) -> good g n.
Proof.
  intros Hok Hin. destruct (rinv_reach k g calls sched Hok) as (base & Wb & Hb & _).
  eapply wf_good; [exact Wb | exact (Hb _ _ _ Hin)].
Qed.


(* the list is about the results: a step that hands out cell c to thread t records, as the
   result of t's current call, the unfolding of c *)
Lemma ret_is_result k g t st t' n c :
  gstep_ret k g t st = Some (t', n, c) ->
  exists th rest, nth_error (s_thr st) t = Some th /\ t_calls th = n :: rest /\ t' = t /\
    snd (lstep k g n (s_sh st) (t_pc th)) = inr (ROk (unfold k (heap (s_sh st)) c)).
Proof.
  unfold gstep_ret. destruct (nth_error (s_thr st) t) as [th|] eqn:Ht; [|discriminate].
  destruct (t_calls th) as [|m rest] eqn:Hc; [discriminate|].
  intros H. exists th, rest.
  destruct (t_pc th) eqn:Hp; cbn [lstep snd result_cell] in H; try discriminate H.
  1: { (* PLookup *)
    destruct (lookup (cmap (s_sh st)) m) as [c0|] eqn:El; cbn [snd] in H; [|discriminate H].
    destruct (cell_to (s_sh st) c0) eqn:Eto; cbn [snd] in H.
    + inversion H; subst. cbn [lstep]. rewrite El, Eto. split; [reflexivity|]. split; [exact Hc|]. split; reflexivity.
    + destruct (existsb (Nat.eqb c0) (failed (s_sh st))); discriminate H. }
  all: try solve [unfold alloc in H;
                  repeat (match type of H with context [match ?x with _ => _ end] => destruct x end; cbn [snd] in H);
                  discriminate H].
  (* PReturn *)
  inversion H; subst. cbn [lstep snd]. split; [reflexivity|]. split; [exact Hc|]. split; reflexivity.
Qed.

(* hand-off mutexes: the objects handed out along a run under any grant policy *)
Definition hrets (gr : grant_policy) d k g calls sched := rets d k g calls (expand gr d k g sched (init calls)).

Theorem handoff_ret_canonical gr k g calls sched t1 t2 n c1 c2 : calls_ok calls ->
  In (t1, n, c1) (hrets gr Guarded k g calls sched) -> In (t2, n, c2) (hrets gr Guarded k g calls sched) -> c1 = c2.
Proof. intros Hok. apply guarded_ret_canonical. exact Hok. Qed.

(* ReflectDeclProofs.v — the reader links, under every name, the schema the declarative description
   (model/ReflectDecl.v) gives for the descriptor of that name: whatever the state of the schema set
   it starts from and whatever the order of the calls (hypothesis wf_keys: split names distinct).
   Corollary: cache transparency of VALUES — two cache states reached by any two call histories agree
   on every message, enum and exposed-oneof schema they both hold, so a SchemaCache answer is the
   answer of a fresh cache whenever both answer (and a failed call leaves the cache as it was). *)
From Coq Require Import String List Arith NArith ZArith Bool Lia.
From J5V.lib Require Import Outcome.
From J5V.model Require Import ReflectDesc ReflectSchema Reflect ReflectSpec Export.
From J5V.proofs Require Import ReflectProofs ExportProofs ReflectInvProofs ReflectPathProofs.
From J5V.model Require Import ReflectDecl.
Import ListNotations.
Local Open Scope bool_scope.

(* ---------------------------------------------------------------- entries present before a build never change *)
Definition keeps (st st1 : sset) : Prop := forall k en, lookup st k = Some en -> lookup st1 k = Some en.
Lemma keeps_refl st : keeps st st.
Proof. intros k en H. exact H. Qed.
Lemma keeps_trans a b c : keeps a b -> keeps b c -> keeps a c.
Proof. intros H1 H2 k en H. apply H2, H1, H. Qed.
Lemma keeps_cons st k e : lookup st k = None -> keeps st ((k, e) :: st).
Proof.
  intros Hn k' en H. rewrite lookup_cons. destruct (ref_eqb k k') eqn:E; [|exact H].
  apply ref_eqb_eq in E. subst k'. congruence.
Qed.
Lemma keeps_update_other st st0 k e : lookup st0 k = None -> keeps st0 st -> keeps st0 (update st k e).
Proof.
  intros Hn Hk k' en H. rewrite lookup_update. destruct (ref_eqb k k') eqn:E; [|apply Hk; exact H].
  apply ref_eqb_eq in E. subst k'. congruence.
Qed.

Section Keeps.
Variable D : desc.

Definition Pk {X} (pr : X -> sset) (st : sset) (o : outcome X) : Prop :=
  match o with Ok x => keeps st (pr x) | _ => True end.

Lemma Pk_bind {X Y} (prx : X -> sset) (pry : Y -> sset) st (o : outcome X) (g : X -> outcome Y) :
  Pk prx st o -> (forall x, Pk pry (prx x) (g x)) -> Pk pry st (obind o g).
Proof.
  intros Ho Hg. destruct o as [x| | |]; cbn in *; auto.
  specialize (Hg x). destruct (g x) as [y| | |]; cbn in *; auto. eapply keeps_trans; eauto.
Qed.

Lemma build_enum_field_k st f x : Pk fst st (build_enum_field D st f x).
Proof.
  unfold build_enum_field.
  destruct (f_ty f) as [|full|full]; try exact I.
  destruct (find_enum D full) as [e|] eqn:Ef; [|exact I].
  destruct (enum_ref st e) as [st1| | |] eqn:Er; cbn [obind]; try exact I.
  assert (Hk : keeps st st1).
  { destruct (enum_ref_inv st e st1 Er) as [[-> _]|(Hn & r & _ & ->)]; [apply keeps_refl|apply keeps_cons; exact Hn]. }
  match goal with |- Pk fst st (obind ?o _) => destruct o as [rules| | |]; cbn [obind Pk fst]; try exact I end.
  exact Hk.
Qed.

Section LevelK.
Variable rec : sset -> msgd -> outcome (sset * root).
Hypothesis Hrec : forall st m, Pk fst st (rec st m).

Lemma build_message_field_k st f x : Pk fst st (build_message_field D rec st f x).
Proof.
  unfold build_message_field.
  destruct (f_ty f) as [|full|full]; try exact I.
  destruct (wkt_schema full x) as [[s|]|cls]; cbn [lift obind]; try exact I; [apply keeps_refl|].
  destruct (has_prefix s_google_protobuf full); [exact I|].
  destruct (find_msg D full) as [m|] eqn:Ef; [|exact I].
  destruct (lookup st (msg_key m)) as [en|] eqn:El; [destruct (is_enum_entry en); cbn [obind]; [exact I|apply keeps_refl]|cbn [obind]].
  pose proof (Hrec ((msg_key m, Placeholder) :: st) m) as Hr.
  destruct (rec ((msg_key m, Placeholder) :: st) m) as [[st1 r]| | |]; cbn [obind Pk fst] in *; try exact I.
  apply keeps_update_other; [exact El|]. eapply keeps_trans; [apply keeps_cons; exact El|exact Hr].
Qed.

Lemma build_schema_k st f x : Pk fst st (build_schema D rec st f x).
Proof.
  unfold build_schema.
  destruct (f_kind f);
    try (destruct (build_scalar _ x) as [p|cls]; cbn [lift obind Pk fst]; [apply keeps_refl|exact I]).
  - apply build_enum_field_k.
  - apply build_message_field_k.
Qed.

Lemma build_field_prop_k st f : Pk fst st (build_field_prop D rec st f).
Proof.
  unfold build_field_prop.
  assert (Hk : forall x (mk : fschema -> prop),
             Pk fst st (obind (build_schema D rec st f x) (fun '(st1, s) => Ok (st1, mk s)))).
  { intros x mk. eapply (Pk_bind fst fst); [apply build_schema_k|]. intros [st1 s]. cbn. apply keeps_refl. }
  destruct (f_card f) as [| | |kk]; try apply Hk.
  - destruct (x_vty (field_exts f)); cbn; apply Hk.
  - destruct (negb (kind_eqb kk KString)); [exact I|]. destruct (x_vty (field_exts f)); cbn; apply Hk.
Qed.

Lemma fields_loop_k m fs : forall st exs, Pk pr3 st (fields_loop D rec m st exs fs).
Proof.
  induction fs as [|f r IH]; intros st exs; cbn [fields_loop]; [apply keeps_refl|].
  eapply (Pk_bind fst pr3); [apply build_field_prop_k|].
  intros [st1 p].
  assert (Hd : forall exs' (q : list prop -> list prop),
             Pk (@pr3 (list exposed) (list prop)) st1 (obind (fields_loop D rec m st1 exs' r)
                                (fun '(st2, exs2, ps) => Ok (st2, exs2, q ps)))).
  { intros exs' q. pose proof (IH st1 exs') as H.
    destruct (fields_loop D rec m st1 exs' r) as [[[st2 exs2] ps]| | |]; cbn in *; exact H. }
  cbn [fst].
  destruct (f_card f); try apply (Hd exs (cons p));
    (destruct (f_oneof f) as [idx|]; [|apply (Hd exs (cons p))];
     destruct (oneof_is_synthetic m idx); [apply (Hd exs (cons p))|];
     destruct (add_to_exposed exs idx p) as [[exs1 pending]|]; [|apply (Hd exs (cons p))];
     apply (Hd exs1 (fun ps => match pending with Some pp => pp :: ps | None => ps end))).
Qed.

(* registration adds keys that were absent; the records are the declarative ones *)
Lemma register_oneofs_k m : forall os idx st st1 exs,
  register_oneofs m st idx os = ROk (st1, exs) ->
  keeps st st1 /\ exs = decl_exposed m idx os /\
  (forall e, In e exs -> lookup st (ex_key e) = None) /\
  NoDup (map ex_key exs) /\
  (forall e, In e exs -> exists d, lookup st1 (ex_key e) = Some (Linked (ROneof (snd (ex_key e)) d [])) /\
                                   exists name j x, In (Oneof name j false x d) os /\ ex_key e = oneof_key m name).
Proof.
  induction os as [|[name jname syn ext0 d] r IH]; intros idx st st1 exs H; cbn [register_oneofs decl_exposed] in *.
  - inversion H; subst. split; [apply keeps_refl|]. split; [reflexivity|]. split; [intros e []|]. split; [constructor|intros e []].
  - assert (Hskip : register_oneofs m st (N.succ idx) r = ROk (st1, exs) ->
              keeps st st1 /\ exs = decl_exposed m (N.succ idx) r /\
              (forall e, In e exs -> lookup st (ex_key e) = None) /\ NoDup (map ex_key exs) /\
              (forall e, In e exs -> exists d0, lookup st1 (ex_key e) = Some (Linked (ROneof (snd (ex_key e)) d0 [])) /\
                 exists name0 j x, In (Oneof name0 j false x d0) (Oneof name jname syn ext0 d :: r) /\ ex_key e = oneof_key m name0)).
    { intros H'. destruct (IH _ _ _ _ H') as (I1 & I2 & I3 & I4 & I5). repeat split; try assumption.
      intros e He. destruct (I5 e He) as (d0 & Hl & n0 & j & x & Hin & Hk). exists d0. split; [exact Hl|].
      exists n0, j, x. split; [right; exact Hin|exact Hk]. }
    destruct syn; [apply Hskip; exact H|].
    destruct ext0 as [[|]|]; try (apply Hskip; exact H).
    destruct (lookup st (oneof_key m name)) eqn:El; [discriminate|].
    destruct (register_oneofs m _ (N.succ idx) r) as [[st2 exs2]|] eqn:E; cbn [rbind] in H; [|discriminate].
    inversion H; subst st1 exs. clear H.
    destruct (IH _ _ _ _ E) as (I1 & I2 & I3 & I4 & I5).
    assert (Hk0 : keeps st ((oneof_key m name, Linked (ROneof (snd (oneof_key m name)) d [])) :: st)) by (apply keeps_cons; exact El).
    split; [eapply keeps_trans; eauto|]. split; [rewrite I2; reflexivity|].
    split.
    { intros e [<-|He]; [exact El|]. specialize (I3 e He). rewrite lookup_cons in I3.
      destruct (ref_eqb (oneof_key m name) (ex_key e)); [discriminate|exact I3]. }
    split.
    { cbn [map ex_key]. constructor; [|exact I4]. intros Hin. apply in_map_iff in Hin as (e & Hke & He).
      specialize (I3 e He). rewrite lookup_cons, <- Hke, ref_eqb_refl in I3. discriminate. }
    intros e [<-|He].
    + cbn [ex_key]. exists d. split.
      * apply I1. rewrite lookup_cons, ref_eqb_refl. reflexivity.
      * exists name, jname, (Some true). split; [left; reflexivity|reflexivity].
    + destruct (I5 e He) as (d0 & Hl & n0 & j & x & Hin & Hk). exists d0. split; [exact Hl|].
      exists n0, j, x. split; [right; exact Hin|exact Hk].
Qed.

(* finish_oneofs touches only the keys of its records *)
Lemma finish_oneofs_other : forall exs st k,
  ~ In k (map ex_key exs) -> lookup (finish_oneofs st exs) k = lookup st k.
Proof.
  unfold finish_oneofs. induction exs as [|e r IH]; intros st k Hn; cbn [fold_left]; [reflexivity|].
  cbn [map] in Hn.
  assert (Hr : ~ In k (map ex_key r)) by (intros H; apply Hn; right; exact H).
  assert (Hne : ref_eqb (ex_key e) k = false) by (apply ref_eqb_neq; intros Heq; apply Hn; left; exact Heq).
  destruct (lookup st (ex_key e)) as [[|[| nm dd ps|]]|]; try (apply IH; exact Hr).
  rewrite IH by exact Hr. rewrite lookup_update, Hne. reflexivity.
Qed.

(* ... and gives each record's key its members *)
Lemma finish_oneofs_at : forall exs st e n d,
  NoDup (map ex_key exs) -> In e exs ->
  (forall e', In e' exs -> exists d' ps', lookup st (ex_key e') = Some (Linked (ROneof (snd (ex_key e')) d' ps'))) ->
  (exists ps0, lookup st (ex_key e) = Some (Linked (ROneof n d ps0))) ->
  lookup (finish_oneofs st exs) (ex_key e) = Some (Linked (ROneof n d (ex_props e))).
Proof.
  unfold finish_oneofs. induction exs as [|e0 r IH]; intros st e n d Hnd Hin Hall Hl; [destruct Hin|].
  cbn [fold_left]. cbn [map] in Hnd. inversion Hnd as [|? ? Hn0 Hnd']; subst.
  destruct Hin as [->|Hin].
  - destruct Hl as (ps0 & Hl). rewrite Hl.
    change (lookup (finish_oneofs (update st (ex_key e) (Linked (ROneof n d (ex_props e)))) r) (ex_key e) = Some (Linked (ROneof n d (ex_props e)))).
    rewrite finish_oneofs_other by exact Hn0. rewrite lookup_update, ref_eqb_refl, Hl. reflexivity.
  - assert (Hne : ref_eqb (ex_key e0) (ex_key e) = false).
    { apply ref_eqb_neq. intros Heq. apply Hn0. rewrite Heq. apply in_map. exact Hin. }
    destruct (Hall e0 (or_introl eq_refl)) as (d0 & ps0 & Hl0). rewrite Hl0.
    apply IH; [exact Hnd'|exact Hin| |].
    + intros e' He'. destruct (Hall e' (or_intror He')) as (d' & ps' & Hl').
      rewrite lookup_update. destruct (ref_eqb (ex_key e0) (ex_key e')) eqn:E.
      * apply ref_eqb_eq in E. rewrite <- E, Hl0. rewrite <- E in Hl'. rewrite Hl0 in Hl'. inversion Hl'; subst. eauto.
      * eauto.
    + destruct Hl as (ps1 & Hl). rewrite lookup_update, Hne. eauto.
Qed.

(* members are added to the records in place: keys and order stay *)
Lemma add_to_exposed_keys exs idx p exs1 pending :
  add_to_exposed exs idx p = Some (exs1, pending) -> map ex_key exs1 = map ex_key exs.
Proof.
  revert exs1 pending. induction exs as [|e r IH]; intros exs1 pending H; cbn [add_to_exposed] in H; [discriminate|].
  destruct (N.eqb (ex_idx e) idx).
  - inversion H; subst. reflexivity.
  - destruct (add_to_exposed r idx p) as [[r' o]|] eqn:E; [|discriminate]. inversion H; subst.
    cbn [map]. rewrite (IH _ _ eq_refl). reflexivity.
Qed.

Lemma fields_loop_keys m fs : forall st exs st2 exs2 ps,
  fields_loop D rec m st exs fs = Ok (st2, exs2, ps) -> map ex_key exs2 = map ex_key exs.
Proof.
  induction fs as [|f r IH]; intros st exs st2 exs2 ps H; cbn [fields_loop] in H.
  - inversion H; subst. reflexivity.
  - destruct (build_field_prop D rec st f) as [[st1 p]| | |]; cbn [obind] in H; try discriminate.
    assert (Hdirect : forall exs', obind (fields_loop D rec m st1 exs' r) (fun '(st2, exs2, ps) => Ok (st2, exs2, p :: ps)) = Ok (st2, exs2, ps) ->
              map ex_key exs2 = map ex_key exs').
    { intros exs' H'. destruct (fields_loop D rec m st1 exs' r) as [[[a b] c]| | |] eqn:E; cbn [obind] in H'; try discriminate.
      inversion H'; subst. eapply IH; eauto. }
    destruct (f_card f); try (apply Hdirect; exact H);
      (destruct (f_oneof f) as [idx|]; [|apply Hdirect; exact H];
       destruct (oneof_is_synthetic m idx); [apply Hdirect; exact H|];
       destruct (add_to_exposed exs idx p) as [[exs1 pending]|] eqn:Ea; [|apply Hdirect; exact H];
       destruct (fields_loop D rec m st1 exs1 r) as [[[a b] c]| | |] eqn:E; cbn [obind] in H; try discriminate;
       inversion H; subst; rewrite (IH _ _ _ _ _ E); eapply add_to_exposed_keys; eauto).
Qed.

Lemma message_properties_k st m : Pk fst st (message_properties D rec st m).
Proof.
  unfold message_properties.
  destruct (register_oneofs m st 0 (m_oneofs m)) as [[sta exs]|cls] eqn:Ereg; cbn [lift obind]; [|exact I].
  destruct (register_oneofs_k m _ _ _ _ _ Ereg) as (Hka & _ & Habs & _ & _).
  pose proof (fields_loop_k m (m_fields m) sta exs) as Hf.
  destruct (fields_loop D rec m sta exs (m_fields m)) as [[[stb exs2] ps]| | |] eqn:Ef; cbn [obind Pk pr3 fst] in *; try exact I.
  destruct (existsb ex_pending exs2); [exact I|]. destruct (negb (exs_names_ok exs2)); [exact I|]. cbn [Pk fst].
  intros k en Hl. rewrite finish_oneofs_other.
  - apply Hf, Hka, Hl.
  - rewrite (fields_loop_keys m _ _ _ _ _ _ Ef). intros Hin. apply in_map_iff in Hin as (e & Hke & He).
    specialize (Habs e He). rewrite Hke in Habs. congruence.
Qed.

Lemma build_root_k st m : Pk fst st (build_root D rec st m).
Proof.
  unfold build_root. eapply (Pk_bind fst fst); [apply message_properties_k|].
  intros [st1 ps]. cbn [fst].
  destruct (negb (props_valid ps)); [exact I|].
  destruct (is_oneof_wrapper m); [apply keeps_refl|].
  destruct (flatten_cycle st1 (msg_key m) ps) as [[|]|]; try exact I.
  destruct (find_psm D m); cbn [lift obind Pk fst]; [apply keeps_refl|exact I].
Qed.
End LevelK.

Lemma build_msg_k : forall fuel st m, Pk fst st (build_msg D fuel st m).
Proof.
  induction fuel as [|fuel IH]; intros st m; [exact I|]. cbn [build_msg]. apply build_root_k. exact IH.
Qed.
End Keeps.

(* ---------------------------------------------------------------- every linked entry is the declared schema *)
Section Canon.
Variable D : desc.
Hypothesis Hwf : wf_keys D.

Lemma enum_key_inj e1 e2 : In e1 (d_enums D) -> In e2 (d_enums D) -> enum_key e1 = enum_key e2 -> e1 = e2.
Proof.
  intros H1 H2 He. pose proof (proj2 Hwf) as Hnd. unfold all_keys in Hnd.
  apply NoDup_app_r in Hnd. apply NoDup_app_l in Hnd. eapply NoDup_map_inj; eauto.
Qed.

(* the exposed oneofs of a linked message are in the set, with their members *)
Definition oneofs_final (st : sset) (m : msgd) : Prop :=
  forall exs ps e, decl_props D m = ROk (exs, ps) -> In e exs ->
    lookup st (ex_key e) = Some (Linked (decl_oneof_of m e)).

Definition Canon (st : sset) : Prop :=
  (forall e r, In e (d_enums D) -> lookup st (enum_key e) = Some (Linked r) -> build_enum e = Ok r) /\
  (forall m r, In m (d_msgs D) -> lookup st (msg_key m) = Some (Linked r) -> decl_root D m = ROk r /\ oneofs_final st m).

Lemma Canon_nil : Canon [].
Proof. split; intros ? ? ? H; discriminate. Qed.

(* the keys of the declared records are split names of real oneofs of the message *)
Lemma decl_exposed_keys m : forall os idx e,
  (forall o, In o os -> In o (m_oneofs m)) -> In e (decl_exposed m idx os) -> exposed_key_b m (ex_key e) = true.
Proof.
  induction os as [|[name jname syn ext0 d] r IH]; intros idx e Hsub He; cbn [decl_exposed] in He; [destruct He|].
  assert (Hr : forall o, In o r -> In o (m_oneofs m)) by (intros o Ho; apply Hsub; right; exact Ho).
  destruct syn; [eapply IH; eauto|].
  destruct ext0 as [[|]|]; try (eapply IH; eauto; fail).
  destruct He as [<-|He]; [|eapply IH; eauto].
  cbn [ex_key]. eapply exposed_key_intro. apply Hsub. left. reflexivity.
Qed.

Lemma decl_fields_keys m fs : forall exs exs2 ps,
  decl_fields D m exs fs = ROk (exs2, ps) -> map ex_key exs2 = map ex_key exs.
Proof.
  induction fs as [|f r IH]; intros exs exs2 ps H; cbn [decl_fields] in H.
  - inversion H; subst. reflexivity.
  - destruct (decl_field_prop D f) as [p|cls]; cbn [rbind] in H; [|discriminate].
    assert (Hdirect : forall exs', rbind (decl_fields D m exs' r) (fun '(exs2, ps) => ROk (exs2, p :: ps)) = ROk (exs2, ps) ->
              map ex_key exs2 = map ex_key exs').
    { intros exs' H'. destruct (decl_fields D m exs' r) as [[b c]|] eqn:E; cbn [rbind] in H'; [|discriminate].
      inversion H'; subst. eapply IH; eauto. }
    destruct (f_card f); try (apply Hdirect; exact H);
      (destruct (f_oneof f) as [idx|]; [|apply Hdirect; exact H];
       destruct (oneof_is_synthetic m idx); [apply Hdirect; exact H|];
       destruct (add_to_exposed exs idx p) as [[exs1 pending]|] eqn:Ea; [|apply Hdirect; exact H];
       destruct (decl_fields D m exs1 r) as [[b c]|] eqn:E; cbn [rbind] in H; [|discriminate];
       inversion H; subst; rewrite (IH _ _ _ E); eapply add_to_exposed_keys; eauto).
Qed.

Lemma decl_props_keys m exs ps e :
  decl_props D m = ROk (exs, ps) -> In e exs -> exposed_key_b m (ex_key e) = true.
Proof.
  unfold decl_props. intros H He.
  destruct (decl_fields D m (decl_exposed m 0 (m_oneofs m)) (m_fields m)) as [[exs0 ps0]|] eqn:Ef; cbn [rbind] in H; [|discriminate].
  destruct (existsb ex_pending exs0); [discriminate|]. destruct (negb (exs_names_ok exs0)); [discriminate|]. destruct (negb (props_valid ps0)); [discriminate|].
  inversion H; subst exs0 ps0.
  pose proof (decl_fields_keys m _ _ _ _ Ef) as Hk.
  assert (Hin : In (ex_key e) (map ex_key exs)) by (apply in_map; exact He).
  rewrite Hk in Hin. apply in_map_iff in Hin as (e0 & Hke & He0). rewrite <- Hke.
  eapply decl_exposed_keys; [|exact He0]. auto.
Qed.

Lemma oneofs_final_keeps st st1 m : keeps st st1 -> oneofs_final st m -> oneofs_final st1 m.
Proof. intros Hk H exs ps e Hd He. apply Hk. eapply H; eauto. Qed.

(* --- the primitive steps *)
Lemma Canon_cons_placeholder st k : Canon st -> lookup st k = None -> Canon ((k, Placeholder) :: st).
Proof.
  intros [C1 C2] Hn. pose proof (keeps_cons st k Placeholder Hn) as Hk. split.
  - intros e r He Hl. rewrite lookup_cons in Hl. destruct (ref_eqb k (enum_key e)); [discriminate|]. eapply C1; eauto.
  - intros m r Hm Hl. rewrite lookup_cons in Hl. destruct (ref_eqb k (msg_key m)); [discriminate|].
    destruct (C2 m r Hm Hl) as [H1 H2]. split; [exact H1|eapply oneofs_final_keeps; eauto].
Qed.

Lemma Canon_cons_enum st e r :
  Canon st -> In e (d_enums D) -> lookup st (enum_key e) = None -> build_enum e = Ok r -> Canon ((enum_key e, Linked r) :: st).
Proof.
  intros [C1 C2] He Hn Hb. pose proof (keeps_cons st (enum_key e) (Linked r) Hn) as Hk. split.
  - intros e' r' He' Hl. rewrite lookup_cons in Hl. destruct (ref_eqb (enum_key e) (enum_key e')) eqn:E.
    + apply ref_eqb_eq in E. apply enum_key_inj in E; [|assumption|assumption]. subst e'. inversion Hl; subst r'. exact Hb.
    + eapply C1; eauto.
  - intros m r' Hm Hl. rewrite lookup_cons in Hl. destruct (ref_eqb (enum_key e) (msg_key m)) eqn:E.
    + apply ref_eqb_eq in E. exfalso. eapply (K3 D Hwf m e); eauto.
    + destruct (C2 m r' Hm Hl) as [H1 H2]. split; [exact H1|eapply oneofs_final_keeps; eauto].
Qed.

(* an entry under the split name of a real oneof: no message or enum has that name *)
Lemma Canon_cons_oneof st m0 k ro :
  Canon st -> In m0 (d_msgs D) -> exposed_key_b m0 k = true -> lookup st k = None -> Canon ((k, Linked ro) :: st).
Proof.
  intros [C1 C2] Hm0 Hk0 Hn. pose proof (keeps_cons st k (Linked ro) Hn) as Hk. split.
  - intros e r He Hl. rewrite lookup_cons in Hl. destruct (ref_eqb k (enum_key e)) eqn:E.
    + apply ref_eqb_eq in E. subst k. exfalso. eapply (K5 D Hwf e m0); eauto.
    + eapply C1; eauto.
  - intros m r Hm Hl. rewrite lookup_cons in Hl. destruct (ref_eqb k (msg_key m)) eqn:E.
    + apply ref_eqb_eq in E. subst k. exfalso. eapply (K2 D Hwf m m0); eauto.
    + destruct (C2 m r Hm Hl) as [H1 H2]. split; [exact H1|eapply oneofs_final_keeps; eauto].
Qed.

(* finishing a oneof of a message that is still a placeholder *)
Lemma Canon_update_oneof st m0 k ro :
  Canon st -> In m0 (d_msgs D) -> exposed_key_b m0 k = true -> lookup st (msg_key m0) = Some Placeholder ->
  Canon (update st k (Linked ro)).
Proof.
  intros [C1 C2] Hm0 Hk0 Hp. split.
  - intros e r He Hl. rewrite lookup_update in Hl. destruct (ref_eqb k (enum_key e)) eqn:E.
    + apply ref_eqb_eq in E. subst k. exfalso. eapply (K5 D Hwf e m0); eauto.
    + eapply C1; eauto.
  - intros m r Hm Hl. rewrite lookup_update in Hl. destruct (ref_eqb k (msg_key m)) eqn:E.
    + apply ref_eqb_eq in E. subst k. exfalso. eapply (K2 D Hwf m m0); eauto.
    + destruct (C2 m r Hm Hl) as [H1 H2]. split; [exact H1|].
      intros exs ps e Hd He. rewrite lookup_update. destruct (ref_eqb k (ex_key e)) eqn:E2.
      * apply ref_eqb_eq in E2. subst k. exfalso.
        pose proof (decl_props_keys m exs ps e Hd He) as Hke.
        assert (m = m0) by (eapply (K4 D Hwf); eauto). subst m0. congruence.
      * eapply H2; eauto.
Qed.

(* linking a message whose declared root and finished oneofs are at hand *)
Lemma Canon_update_msg st m r :
  Canon st -> In m (d_msgs D) -> decl_root D m = ROk r -> oneofs_final st m -> Canon (update st (msg_key m) (Linked r)).
Proof.
  intros [C1 C2] Hm Hr Hf.
  assert (Hfin : forall m', In m' (d_msgs D) -> oneofs_final st m' -> oneofs_final (update st (msg_key m) (Linked r)) m').
  { intros m' Hm' H exs ps e Hd He. rewrite lookup_update. destruct (ref_eqb (msg_key m) (ex_key e)) eqn:E.
    - apply ref_eqb_eq in E. exfalso. pose proof (decl_props_keys m' exs ps e Hd He) as Hke. rewrite <- E in Hke.
      eapply (K2 D Hwf m m'); eauto.
    - eapply H; eauto. }
  split.
  - intros e r' He Hl. rewrite lookup_update in Hl. destruct (ref_eqb (msg_key m) (enum_key e)) eqn:E.
    + apply ref_eqb_eq in E. exfalso. eapply (K3 D Hwf m e); eauto.
    + eapply C1; eauto.
  - intros m' r' Hm' Hl. rewrite lookup_update in Hl. destruct (ref_eqb (msg_key m) (msg_key m')) eqn:E.
    + apply ref_eqb_eq in E. apply (K1 D Hwf) in E; [|assumption|assumption]. subst m'.
      destruct (lookup st (msg_key m)); [|discriminate]. inversion Hl; subst r'. split; [exact Hr|apply Hfin; assumption].
    + destruct (C2 m' r' Hm' Hl) as [H1 H2]. split; [exact H1|apply Hfin; assumption].
Qed.
End Canon.

Section CanonBuild.
Variable D : desc.
Hypothesis Hwf : wf_keys D.

Lemma NoDup_flat_map_elem {A B} (g : A -> list B) l a : NoDup (flat_map g l) -> In a l -> NoDup (g a).
Proof.
  induction l as [|y r IH]; intros Hnd Ha; [destruct Ha|]. cbn [flat_map] in Hnd.
  destruct Ha as [->|Ha]; [eapply NoDup_app_l; eauto|]. apply IH; [eapply NoDup_app_r; eauto|exact Ha].
Qed.

Lemma oneof_descr_in m name j x d :
  In m (d_msgs D) -> In (Oneof name j false x d) (m_oneofs m) -> oneof_descr m (oneof_key m name) = d.
Proof.
  intros Hm Ho. unfold oneof_descr.
  assert (Hnd : NoDup (real_oneof_keys m)).
  { pose proof (proj2 Hwf) as H. unfold all_keys in H. apply NoDup_app_r in H. apply NoDup_app_r in H.
    eapply NoDup_flat_map_elem; eauto. }
  destruct (find (fun o => match o with Oneof name0 _ syn _ _ => negb syn && ref_eqb (oneof_key m name0) (oneof_key m name) end) (m_oneofs m))
    as [[n2 j2 s2 x2 d2]|] eqn:Ef.
  - apply find_some in Ef as [Hin Hp]. apply andb_prop in Hp as [Hs Hk]. apply negb_true_iff in Hs. subst s2.
    apply ref_eqb_eq in Hk.
    assert (Heq : Oneof n2 j2 false x2 d2 = Oneof name j false x d).
    { unfold real_oneof_keys in Hnd.
      eapply (NoDup_flat_map_inj _ _ _ _ (oneof_key m name) Hnd); [exact Hin|exact Ho| |]; cbn; [left; exact Hk|left; reflexivity]. }
    inversion Heq. reflexivity.
  - exfalso. eapply find_none in Ef; [|exact Ho]. cbn in Ef. rewrite ref_eqb_refl in Ef. discriminate.
Qed.

Lemma build_enum_is_REnum e r : build_enum e = Ok r -> exists a b c d g, r = REnum a b c d g.
Proof.
  destruct e as [full pkg path values eo d]. cbn [build_enum]. destruct values as [|[first num info dv] rest]; [discriminate|].
  destruct (negb (has_suffix s_UNSPECIFIED first)); [discriminate|]. intros H. inversion H. eauto 10.
Qed.

Lemma build_enum_field_decl st f x st1 s :
  Canon D st -> build_enum_field D st f x = Ok (st1, s) -> decl_enum_field D f x = ROk s /\ Canon D st1.
Proof.
  intros HC H. unfold build_enum_field in H. unfold decl_enum_field.
  destruct (f_ty f) as [|full|full]; try discriminate.
  destruct (find_enum D full) as [e|] eqn:Ef; [|discriminate].
  assert (He : In e (d_enums D)) by (eapply find_enum_In; eauto).
  destruct (enum_ref st e) as [st0| | |] eqn:Er; cbn [obind] in H; try discriminate.
  assert (Hst0 : Canon D st0 /\ exists a b c d g, build_enum e = Ok (REnum a b c d g) /\ lookup st0 (enum_key e) = Some (Linked (REnum a b c d g))).
  { destruct (enum_ref_inv st e st0 Er) as [[-> (a & b & c & d & g & Hl)]|(Hn & r & Hb & ->)].
    - split; [exact HC|]. exists a, b, c, d, g. split; [eapply (proj1 HC); eauto|exact Hl].
    - split; [apply Canon_cons_enum; assumption|]. destruct (build_enum_is_REnum e r Hb) as (a & b & c & d & g & ->).
      exists a, b, c, d, g. split; [exact Hb|]. rewrite lookup_cons, ref_eqb_refl. reflexivity. }
  destruct Hst0 as (HC0 & a & b & c & d & g & Hb & Hl). rewrite Hb. rewrite Hl in H.
  destruct (x_vty x); cbn [obind rbind] in *;
    try (inversion H; subst st1 s; split; [reflexivity|exact HC0]).
  match type of H with context [lift ?rr] => destruct rr as [rules|cls] end;
    cbn [lift obind rbind] in *; [|discriminate].
  inversion H; subst st1 s. split; [reflexivity|exact HC0].
Qed.

Section LevelC.
Variable rec : sset -> msgd -> outcome (sset * root).
Hypothesis HrecK : forall st m, Pk fst st (rec st m).
Hypothesis HrecC : forall st m st1 r, In m (d_msgs D) -> Canon D st -> lookup st (msg_key m) = Some Placeholder ->
  rec st m = Ok (st1, r) -> Canon D st1 /\ decl_root D m = ROk r /\ oneofs_final D st1 m.

Lemma build_message_field_decl st f x st1 s :
  Canon D st -> build_message_field D rec st f x = Ok (st1, s) -> decl_message_field D f x = ROk s /\ Canon D st1.
Proof.
  intros HC H. unfold build_message_field in H. unfold decl_message_field.
  destruct (f_ty f) as [|full|full]; try discriminate.
  destruct (wkt_schema full x) as [[w|]|cls]; cbn [lift obind rbind] in *; try discriminate.
  - inversion H; subst st1 s. split; [reflexivity|exact HC].
  - destruct (has_prefix s_google_protobuf full); [discriminate|].
    destruct (find_msg D full) as [m|] eqn:Ef; [|discriminate].
    assert (Hm : In m (d_msgs D)) by (eapply find_msg_In; eauto).
    destruct (lookup st (msg_key m)) as [en|] eqn:El; [destruct (is_enum_entry en); cbn [obind] in H; [discriminate|]|cbn [obind] in H].
    + inversion H; subst st1 s. split; [reflexivity|exact HC].
    + destruct (rec ((msg_key m, Placeholder) :: st) m) as [[st2 r]| | |] eqn:Er; cbn [obind] in H; try discriminate.
      inversion H; subst st1 s. split; [reflexivity|].
      destruct (HrecC _ m st2 r Hm (Canon_cons_placeholder D st (msg_key m) HC El)
                  ltac:(rewrite lookup_cons, ref_eqb_refl; reflexivity) Er) as (HC2 & Hr & Hf).
      apply Canon_update_msg; assumption.
Qed.

Lemma build_schema_decl st f x st1 s :
  Canon D st -> build_schema D rec st f x = Ok (st1, s) -> decl_schema D f x = ROk s /\ Canon D st1.
Proof.
  intros HC H. unfold build_schema in H. unfold decl_schema.
  destruct (f_kind f);
    try (destruct (build_scalar _ x) as [p|cls]; cbn [lift obind rbind] in *; [|discriminate];
         inversion H; subst st1 s; split; [reflexivity|exact HC]).
  - eapply build_enum_field_decl; eauto.
  - eapply build_message_field_decl; eauto.
Qed.

Lemma build_field_prop_decl st f st1 p :
  Canon D st -> build_field_prop D rec st f = Ok (st1, p) -> decl_field_prop D f = ROk p /\ Canon D st1.
Proof.
  intros HC H. unfold build_field_prop in H. unfold decl_field_prop.
  assert (Hk : forall x (mk : fschema -> prop),
             obind (build_schema D rec st f x) (fun '(st1, s) => Ok (st1, mk s)) = Ok (st1, p) ->
             rbind (decl_schema D f x) (fun s => ROk (mk s)) = ROk p /\ Canon D st1).
  { intros x mk H'. destruct (build_schema D rec st f x) as [[a b]| | |] eqn:Eb; cbn [obind] in H'; try discriminate.
    inversion H'; subst st1 p. destruct (build_schema_decl _ _ _ _ _ HC Eb) as [Hd HC1]. rewrite Hd. split; [reflexivity|exact HC1]. }
  destruct (f_card f) as [| | |kk]; try (apply Hk; exact H).
  - destruct (x_vty (field_exts f)); cbn in *; apply Hk; exact H.
  - destruct (negb (kind_eqb kk KString)); [discriminate|]. destruct (x_vty (field_exts f)); cbn in *; apply Hk; exact H.
Qed.

Lemma fields_loop_decl m fs : forall st exs st2 exs2 ps,
  Canon D st -> fields_loop D rec m st exs fs = Ok (st2, exs2, ps) ->
  decl_fields D m exs fs = ROk (exs2, ps) /\ Canon D st2.
Proof.
  induction fs as [|f r IH]; intros st exs st2 exs2 ps HC H; cbn [fields_loop] in H; cbn [decl_fields].
  - inversion H; subst. split; [reflexivity|exact HC].
  - destruct (build_field_prop D rec st f) as [[st1 p]| | |] eqn:Eb; cbn [obind] in H; try discriminate.
    destruct (build_field_prop_decl _ _ _ _ HC Eb) as [Hd HC1]. rewrite Hd. cbn [rbind].
    assert (Hdirect : forall exs' (q : list prop -> list prop),
              obind (fields_loop D rec m st1 exs' r) (fun '(st2, exs2, ps) => Ok (st2, exs2, q ps)) = Ok (st2, exs2, ps) ->
              rbind (decl_fields D m exs' r) (fun '(exs2, ps) => ROk (exs2, q ps)) = ROk (exs2, ps) /\ Canon D st2).
    { intros exs' q H'. destruct (fields_loop D rec m st1 exs' r) as [[[a b] c]| | |] eqn:E; cbn [obind] in H'; try discriminate.
      inversion H'; subst. destruct (IH _ _ _ _ _ HC1 E) as [I1 I2]. rewrite I1. split; [reflexivity|exact I2]. }
    destruct (f_card f); try (apply (Hdirect exs (cons p)); exact H);
      (destruct (f_oneof f) as [idx|]; [|apply (Hdirect exs (cons p)); exact H];
       destruct (oneof_is_synthetic m idx); [apply (Hdirect exs (cons p)); exact H|];
       destruct (add_to_exposed exs idx p) as [[exs1 pending]|]; [|apply (Hdirect exs (cons p)); exact H];
       apply (Hdirect exs1 (fun ps => match pending with Some pp => pp :: ps | None => ps end)); exact H).
Qed.

Lemma register_oneofs_canon m : In m (d_msgs D) -> forall os idx st st1 exs,
  (forall o, In o os -> In o (m_oneofs m)) -> Canon D st ->
  register_oneofs m st idx os = ROk (st1, exs) -> Canon D st1.
Proof.
  intros Hm. induction os as [|[name jname syn ext0 d] r IH]; intros idx st st1 exs Hsub HC H; cbn [register_oneofs] in H.
  - inversion H; subst. exact HC.
  - assert (Hr : forall o, In o r -> In o (m_oneofs m)) by (intros o Ho; apply Hsub; right; exact Ho).
    destruct syn; [eapply IH; eauto|].
    destruct ext0 as [[|]|]; try (eapply IH; eauto; fail).
    destruct (lookup st (oneof_key m name)) eqn:El; [discriminate|].
    destruct (register_oneofs m _ (N.succ idx) r) as [[st2 exs2]|] eqn:E; cbn [rbind] in H; [|discriminate].
    inversion H; subst st1 exs. eapply IH; [exact Hr| |exact E].
    eapply Canon_cons_oneof; [exact Hwf|exact HC|exact Hm| |exact El].
    eapply exposed_key_intro. apply Hsub. left. reflexivity.
Qed.

Lemma finish_oneofs_canon m : In m (d_msgs D) -> forall exs st,
  (forall e, In e exs -> exposed_key_b m (ex_key e) = true) -> lookup st (msg_key m) = Some Placeholder ->
  Canon D st -> Canon D (finish_oneofs st exs).
Proof.
  intros Hm. unfold finish_oneofs. induction exs as [|e r IH]; intros st Hk Hp HC; cbn [fold_left]; [exact HC|].
  assert (Hr : forall e', In e' r -> exposed_key_b m (ex_key e') = true) by (intros e' He'; apply Hk; right; exact He').
  destruct (lookup st (ex_key e)) as [[|[| nm dd ps|]]|] eqn:El; try (apply IH; assumption).
  apply IH; [exact Hr| |].
  - rewrite lookup_update. destruct (ref_eqb (ex_key e) (msg_key m)) eqn:E; [|exact Hp].
    apply ref_eqb_eq in E. exfalso. eapply (K2 D Hwf m m); eauto. rewrite <- E. apply Hk. left. reflexivity.
  - eapply Canon_update_oneof; [exact Hwf|exact HC|exact Hm| |exact Hp]. apply Hk. left. reflexivity.
Qed.

Lemma message_properties_decl st m st1 ps :
  In m (d_msgs D) -> Canon D st -> lookup st (msg_key m) = Some Placeholder ->
  message_properties D rec st m = Ok (st1, ps) ->
  exists exs2, decl_fields D m (decl_exposed m 0 (m_oneofs m)) (m_fields m) = ROk (exs2, ps) /\
               existsb ex_pending exs2 = false /\ exs_names_ok exs2 = true /\ Canon D st1 /\
               forall e, In e exs2 -> lookup st1 (ex_key e) = Some (Linked (decl_oneof_of m e)).
Proof.
  intros Hm HC Hp H. unfold message_properties in H.
  destruct (register_oneofs m st 0 (m_oneofs m)) as [[sta exs]|cls] eqn:Ereg; cbn [lift obind] in H; [|discriminate].
  destruct (register_oneofs_k m _ _ _ _ _ Ereg) as (Hka & Hexs & Habs & Hnd & Hent).
  pose proof (register_oneofs_canon m Hm _ _ _ _ _ (fun o Ho => Ho) HC Ereg) as HCa.
  destruct (fields_loop D rec m sta exs (m_fields m)) as [[[stb exs2] ps2]| | |] eqn:Ef; cbn [obind] in H; try discriminate.
  pose proof (fields_loop_k D rec HrecK m (m_fields m) sta exs) as Hkb. rewrite Ef in Hkb. cbn [Pk pr3 fst] in Hkb.
  destruct (fields_loop_decl m _ _ _ _ _ _ HCa Ef) as [Hd HCb].
  pose proof (fields_loop_keys D rec m _ _ _ _ _ _ Ef) as Hkeys.
  destruct (existsb ex_pending exs2) eqn:Epend; [discriminate|]. destruct (exs_names_ok exs2) eqn:Enames; cbn [negb] in H; [|discriminate]. inversion H; subst st1 ps2. clear H.
  exists exs2. rewrite <- Hexs. split; [exact Hd|]. split; [exact Epend|]. split; [exact Enames|].
  (* every record of exs2 has the key of a registered record, whose entry is still the registered one *)
  assert (Hreg : forall e', In e' exs2 -> exists d', lookup stb (ex_key e') = Some (Linked (ROneof (snd (ex_key e')) d' [])) /\
                                            oneof_descr m (ex_key e') = d' /\ exposed_key_b m (ex_key e') = true).
  { intros e' He'. assert (Hin : In (ex_key e') (map ex_key exs)) by (rewrite <- Hkeys; apply in_map; exact He').
    apply in_map_iff in Hin as (e0 & Hke & He0). destruct (Hent e0 He0) as (d' & Hl & name & j & x & Ho & Hk0).
    exists d'. rewrite <- Hke. split; [apply Hkb; exact Hl|]. rewrite Hk0.
    split; [eapply oneof_descr_in; eauto|eapply exposed_key_intro; eauto]. }
  split.
  - apply (finish_oneofs_canon m Hm); [intros e He; destruct (Hreg e He) as (? & _ & _ & Hx); exact Hx|apply Hkb, Hka; exact Hp|exact HCb].
  - intros e He. destruct (Hreg e He) as (d' & Hl & Hdesc & _). unfold decl_oneof_of. rewrite Hdesc.
    apply finish_oneofs_at; [rewrite Hkeys; exact Hnd|exact He| |eauto].
    intros e' He'. destruct (Hreg e' He') as (d2 & Hl2 & _). eauto.
Qed.

Lemma build_root_decl st m st1 r :
  In m (d_msgs D) -> Canon D st -> lookup st (msg_key m) = Some Placeholder ->
  build_root D rec st m = Ok (st1, r) -> Canon D st1 /\ decl_root D m = ROk r /\ oneofs_final D st1 m.
Proof.
  intros Hm HC Hp H. unfold build_root in H.
  destruct (message_properties D rec st m) as [[sta ps]| | |] eqn:Em; cbn [obind] in H; try discriminate.
  destruct (message_properties_decl _ _ _ _ Hm HC Hp Em) as (exs2 & Hd & Hpend & Hnames & HCa & Hfin).
  destruct (negb (props_valid ps)) eqn:Ev; [discriminate|].
  assert (Hprops : decl_props D m = ROk (exs2, ps)) by (unfold decl_props; rewrite Hd; cbn [rbind]; rewrite Hpend, Hnames, Ev; reflexivity).
  assert (Hof : forall st', st' = sta -> oneofs_final D st' m).
  { intros st' ->. intros exs ps' e Hd' He. rewrite Hprops in Hd'. inversion Hd'; subst exs ps'. apply Hfin. exact He. }
  unfold decl_root. rewrite Hprops. cbn [rbind].
  destruct (is_oneof_wrapper m).
  - inversion H; subst st1 r. split; [exact HCa|]. split; [reflexivity|apply Hof; reflexivity].
  - destruct (flatten_cycle sta (msg_key m) ps) as [[|]|]; try discriminate.
    destruct (find_psm D m) as [ent|cls]; cbn [lift obind rbind] in *; [|discriminate].
    inversion H; subst st1 r. split; [exact HCa|]. split; [reflexivity|apply Hof; reflexivity].
Qed.
End LevelC.

Lemma build_msg_decl : forall fuel st m st1 r,
  In m (d_msgs D) -> Canon D st -> lookup st (msg_key m) = Some Placeholder ->
  build_msg D fuel st m = Ok (st1, r) -> Canon D st1 /\ decl_root D m = ROk r /\ oneofs_final D st1 m.
Proof.
  induction fuel as [|fuel IH]; intros st m st1 r Hm HC Hp H; [discriminate|].
  cbn [build_msg] in H. eapply build_root_decl; [apply build_msg_k|exact IH|exact Hm|exact HC|exact Hp|exact H].
Qed.

Lemma message_schema_decl fuel st m st1 r :
  In m (d_msgs D) -> Canon D st -> message_schema D fuel st m = Ok (st1, r) ->
  Canon D st1 /\ decl_root D m = ROk r.
Proof.
  intros Hm HC H. unfold message_schema in H.
  destruct (lookup st (msg_key m)) as [[|r0]|] eqn:El; try discriminate.
  - inversion H; subst st1 r0. split; [exact HC|]. apply (proj2 HC m r Hm El).
  - destruct (build_msg D fuel ((msg_key m, Placeholder) :: st) m) as [[st2 r2]| | |] eqn:Eb; cbn [obind] in H; try discriminate.
    inversion H; subst st1 r.
    destruct (build_msg_decl fuel _ m st2 r2 Hm (Canon_cons_placeholder D st (msg_key m) HC El)
                ltac:(rewrite lookup_cons, ref_eqb_refl; reflexivity) Eb) as (HC2 & Hr & Hf).
    split; [apply Canon_update_msg; assumption|exact Hr].
Qed.
End CanonBuild.

(* ---------------------------------------------------------------- entry points *)
Section CanonTop.
Variable D : desc.
Hypothesis Hwf : wf_keys D.

Lemma messages_loop_decl fuel : forall ms st st1, Canon D st -> messages_loop D fuel st ms = Ok st1 -> Canon D st1.
Proof.
  induction ms as [|full r IH]; intros st st1 HC H; cbn [messages_loop] in H; [inversion H; subst; exact HC|].
  destruct (find_msg D full) as [m|] eqn:Ef; [|discriminate].
  assert (Hm : In m (d_msgs D)) by (eapply find_msg_In; eauto).
  destruct (message_schema D fuel st m) as [[st2 r2]| | |] eqn:Em; cbn [obind] in H; try discriminate.
  eapply IH; [|exact H]. eapply message_schema_decl; eauto.
Qed.

Lemma enums_loop_decl : forall es st st1, Canon D st -> enums_loop D st es = Ok st1 -> Canon D st1.
Proof.
  induction es as [|full r IH]; intros st st1 HC H; cbn [enums_loop] in H; [inversion H; subst; exact HC|].
  destruct (find_enum D full) as [e|] eqn:Ef; [|discriminate].
  assert (He : In e (d_enums D)) by (eapply find_enum_In; eauto).
  destruct (lookup st (enum_key e)) eqn:El; [eapply IH; eauto|].
  destruct (build_enum e) as [root| | |] eqn:Eb; cbn [obind] in H; try discriminate.
  eapply IH; [|exact H]. apply Canon_cons_enum; assumption.
Qed.

(* SchemaSetFromFiles: every entry of a reflected set is the declared schema of the descriptor of its name *)
Theorem reflect_declared fs S : reflect D fs = Ok S -> Canon D S.
Proof.
  unfold reflect, reflect_files. destruct (collect fs) as [ms es]. intros H.
  destruct (messages_loop D (size D) [] ms) as [st| | |] eqn:Em; cbn [obind] in H; try discriminate.
  eapply enums_loop_decl; [|exact H]. eapply messages_loop_decl; [apply Canon_nil|exact Em].
Qed.

(* the cache states any history of SchemaCache.Schema calls (successful or failed) can reach *)
Inductive cache_reach : sset -> Prop :=
| reach_new : cache_reach []
| reach_call st m : cache_reach st -> In m (d_msgs D) -> cache_reach (fst (cache_schema D (size D) st m)).

(* a failed call leaves the cache exactly as it was (the roll-back) *)
Lemma cache_failed_call_unchanged fuel st m :
  (forall r, snd (cache_schema D fuel st m) <> Ok r) -> fst (cache_schema D fuel st m) = st.
Proof.
  unfold cache_schema. destruct (message_schema D fuel st m) as [[st1 r]| | |]; cbn [fst snd]; intros H; try reflexivity.
  exfalso. apply (H r). reflexivity.
Qed.

(* a name already in the cache is answered from the cache, which does not change *)
Lemma cache_hit fuel st m r :
  lookup st (msg_key m) = Some (Linked r) -> cache_schema D fuel st m = (st, Ok r).
Proof. intros H. unfold cache_schema, message_schema. rewrite H. reflexivity. Qed.

Lemma cache_schema_decl st m :
  In m (d_msgs D) -> Canon D st ->
  Canon D (fst (cache_schema D (size D) st m)) /\
  forall r, snd (cache_schema D (size D) st m) = Ok r -> decl_root D m = ROk r.
Proof.
  intros Hm HC. unfold cache_schema.
  destruct (message_schema D (size D) st m) as [[st1 r]| | |] eqn:Em; cbn [fst snd]; try (split; [exact HC|intros r0 H0; discriminate]).
  destruct (message_schema_decl D Hwf _ _ _ _ _ Hm HC Em) as [HC1 Hr]. split; [exact HC1|].
  intros r0 H0. inversion H0; subst r0. exact Hr.
Qed.

Theorem cache_reach_declared st : cache_reach st -> Canon D st.
Proof.
  induction 1 as [|st m Hr IH Hm]; [apply Canon_nil|]. apply cache_schema_decl; assumption.
Qed.

(* cache transparency of values: whatever two histories did, the answers for one message are the same
   schema, and so are the schemas of its exposed oneofs and of every enum both caches hold *)
Theorem cache_answers_agree st st' m r r' :
  cache_reach st -> cache_reach st' -> In m (d_msgs D) ->
  snd (cache_schema D (size D) st m) = Ok r -> snd (cache_schema D (size D) st' m) = Ok r' ->
  r = r' /\
  (forall exs ps e, decl_props D m = ROk (exs, ps) -> In e exs ->
     lookup (fst (cache_schema D (size D) st m)) (ex_key e) = Some (Linked (decl_oneof_of m e)) /\
     lookup (fst (cache_schema D (size D) st' m)) (ex_key e) = Some (Linked (decl_oneof_of m e))).
Proof.
  intros Hr Hr' Hm H H'.
  pose proof (cache_reach_declared st Hr) as HC. pose proof (cache_reach_declared st' Hr') as HC'.
  destruct (cache_schema_decl st m Hm HC) as [HC1 Hd]. destruct (cache_schema_decl st' m Hm HC') as [HC1' Hd'].
  pose proof (Hd r H) as E. pose proof (Hd' r' H') as E'. rewrite E in E'. inversion E'; subst r'. split; [reflexivity|].
  (* after an Ok answer the message is linked in the cache *)
  assert (Hl : forall s rr, snd (cache_schema D (size D) s m) = Ok rr -> lookup (fst (cache_schema D (size D) s m)) (msg_key m) = Some (Linked rr)).
  { intros s rr. unfold cache_schema, message_schema.
    destruct (lookup s (msg_key m)) as [[|r0]|] eqn:El; cbn [fst snd]; try discriminate.
    - intros Hx; inversion Hx; subst. exact El.
    - destruct (build_msg D (size D) ((msg_key m, Placeholder) :: s) m) as [[st2 r2]| | |] eqn:Eb; cbn [obind fst snd]; try discriminate.
      intros Hx; inversion Hx; subst rr. rewrite lookup_update, ref_eqb_refl.
      pose proof (build_msg_k D (size D) ((msg_key m, Placeholder) :: s) m) as Hk. rewrite Eb in Hk. cbn [Pk fst] in Hk.
      rewrite (Hk (msg_key m) Placeholder); [reflexivity|]. rewrite lookup_cons, ref_eqb_refl. reflexivity. }
  intros exs ps e Hp He. split.
  - destruct (proj2 HC1 m r Hm (Hl st r H)) as [_ Hf]. eapply Hf; eauto.
  - destruct (proj2 HC1' m r Hm (Hl st' r H')) as [_ Hf]. eapply Hf; eauto.
Qed.

(* in particular: the answer of a cache with any history is the answer of a fresh cache, whenever both answer *)
Corollary cache_answer_is_fresh_answer st m r r' :
  cache_reach st -> In m (d_msgs D) ->
  snd (cache_schema D (size D) st m) = Ok r -> snd (cache_schema D (size D) [] m) = Ok r' -> r = r'.
Proof. intros Hr Hm H H'. eapply (proj1 (cache_answers_agree st [] m r r' Hr reach_new Hm H H')). Qed.

(* two reachable caches hold the same schema under every message and enum name they both hold *)
Theorem cache_states_agree st st' :
  cache_reach st -> cache_reach st' ->
  (forall m r r', In m (d_msgs D) -> lookup st (msg_key m) = Some (Linked r) -> lookup st' (msg_key m) = Some (Linked r') -> r = r') /\
  (forall e r r', In e (d_enums D) -> lookup st (enum_key e) = Some (Linked r) -> lookup st' (enum_key e) = Some (Linked r') -> r = r').
Proof.
  intros Hr Hr'. pose proof (cache_reach_declared st Hr) as [C1 C2]. pose proof (cache_reach_declared st' Hr') as [C1' C2'].
  split.
  - intros m r r' Hm H H'. destruct (C2 m r Hm H) as [E _]. destruct (C2' m r' Hm H') as [E' _]. rewrite E in E'. inversion E'. reflexivity.
  - intros e r r' He H H'. pose proof (C1 e r He H) as E. pose proof (C1' e r' He H') as E'. rewrite E in E'. inversion E'. reflexivity.
Qed.
End CanonTop.

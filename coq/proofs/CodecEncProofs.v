(* CodecEncProofs.v — lemmas behind props/C08.v: table agreement with the generated
   files, scalar printers produce the README's token, and the structural theorem
   "a successful encoding is print J for a well-formed tree J in the wire format". *)
From Coq Require Import String List Arith NArith ZArith Bool Lia ZifyN ZifyNat ZifyBool.
From J5V.lib Require Import Outcome Json JsonPrint Base64 Civil.
From J5V.model Require Import CodecTypes CodecEnc CodecEncSpec.
From J5V.gen Require ReadmeGen EncSwitchGen.
Import ListNotations.
Local Open Scope N_scope.
Local Open Scope bool_scope.
Arguments Nat.sub : simpl never.

(* ================================================================ the tie: generated tables *)
Lemma encode_scalar_arms_agree : EncSwitchGen.encode_scalar_arms = expected_encode_scalar_arms.
Proof. vm_compute. reflexivity. Qed.
Lemma encoder_helpers_agree : EncSwitchGen.encoder_helpers = expected_encoder_helpers.
Proof. vm_compute. reflexivity. Qed.
Lemma go_from_reflect_arms_agree : EncSwitchGen.go_from_reflect_arms = expected_go_from_reflect_arms.
Proof. vm_compute. reflexivity. Qed.
Lemma date_format_agree : EncSwitchGen.date_format = "%04d-%02d-%02d"%string.
Proof. vm_compute. reflexivity. Qed.
Lemma time_layout_agree : EncSwitchGen.time_layout = "time.RFC3339Nano"%string.
Proof. vm_compute. reflexivity. Qed.
Lemma base64_encoding_agree : EncSwitchGen.base64_encoding = "base64.StdEncoding"%string.
Proof. vm_compute. reflexivity. Qed.

(* every scalar kind has an arm in the Go switch, and that arm writes the value the way the model does *)
Lemma switch_repr_agree :
  forallb (fun k => arm_repr_eqb (repr_from_tables EncSwitchGen.encode_scalar_arms EncSwitchGen.encoder_helpers k)
                                 (model_repr k)) all_scalar_kinds = true.
Proof. vm_compute. reflexivity. Qed.

(* the specification's class per kind is the README's row, and the model's way of writing realises it *)
Lemma readme_agree :
  forallb (fun k => match readme_class_of k with
                    | Some c => wclass_eqb c (spec_class k) && repr_class_ok (model_repr k) c
                    | None => false
                    end) all_scalar_kinds = true.
Proof. vm_compute. reflexivity. Qed.

Lemma readme_rows_all_used :
  forallb (fun row => existsb (fun k => String.eqb (readme_name k) (fst (fst row))) all_scalar_kinds)
          ReadmeGen.scalar_rows = true.
Proof. vm_compute. reflexivity. Qed.

Lemma all_scalar_kinds_complete k : In k all_scalar_kinds.
Proof. destruct k; cbn; tauto. Qed.

(* ================================================================ helpers *)
Lemma obind_ok {A B} (o : outcome A) (f : A -> outcome B) b :
  obind o f = Ok b -> exists a, o = Ok a /\ f a = Ok b.
Proof. destruct o; cbn; try discriminate. intros H. eauto. Qed.

Lemma omap_ok {A B} (f : A -> B) (o : outcome A) b :
  omap f o = Ok b -> exists a, o = Ok a /\ b = f a.
Proof. unfold omap. intros H. apply obind_ok in H as (a & Ha & Hb). injection Hb as <-. eauto. Qed.

Lemma sequence_ok {A} (l : list (outcome A)) xs :
  sequence l = Ok xs -> Forall2 (fun o x => o = Ok x) l xs.
Proof.
  revert xs. induction l as [|o r IH]; intros xs H; cbn [sequence] in H.
  - injection H as <-. constructor.
  - apply obind_ok in H as (a & Ha & H). apply omap_ok in H as (ys & Hys & ->).
    constructor; [exact Ha|apply IH; exact Hys].
Qed.

Definition plain (b : N) : Prop := 32 <= b < 128 /\ b <> 34 /\ b <> 92.

Lemma plain_ascii l : Forall plain l -> Forall (fun b => b < 128) l.
Proof. apply Forall_impl. unfold plain. intros; lia. Qed.

Lemma print_plain_str l : Forall plain l -> print (JStr l) = quote l /\ wfb (JStr l) = true.
Proof.
  intros H. split.
  - cbn [print]. unfold print_str, quote. rewrite plain_esc; [reflexivity|exact H].
  - cbn [wfb]. apply valid_utf8_iff. apply utf8_ok_ascii. apply plain_ascii. exact H.
Qed.

Lemma digits_plain l : forallb is_digit l = true -> Forall plain l.
Proof.
  induction l as [|c r IH]; [constructor|]. cbn [forallb]. intros H. apply andb_true_iff in H as [H1 H2].
  constructor; [unfold is_digit, plain in *; lia|apply IH; exact H2].
Qed.

Lemma print_Z_plain z : Forall plain (print_Z z).
Proof.
  destruct z as [|p|p]; cbn [print_Z].
  - repeat constructor; unfold plain; lia.
  - apply digits_plain, digits_of_digits.
  - constructor; [unfold plain; lia|]. apply digits_plain, digits_of_digits.
Qed.

Lemma escape_ok s txt : escape s = Ok txt -> valid_utf8 s = true /\ txt = print (JStr s).
Proof.
  rewrite escape_spec. destruct (valid_utf8 s); [|discriminate]. intros [= <-]. split; reflexivity.
Qed.

Lemma field_int_z n m z : field_int n m = Ok z -> zfield n m = z.
Proof.
  unfold field_int, zfield. destruct (msg_get n m) as [[]|]; try discriminate; intros [= <-]; reflexivity.
Qed.

Lemma field_bytes_s n m s : field_bytes n m = Ok s -> sfield n m = s.
Proof.
  unfold field_bytes, sfield. destruct (msg_get n m) as [[]|]; try discriminate; intros [= <-]; reflexivity.
Qed.

Section Main.
  Variable fmt_float : bool -> N -> bytes.
  Variable any_inner : bytes -> bytes -> outcome bytes.
  Variable env : env.

  (* the two assumptions about what lies outside the model *)
  Definition float_text_ok : Prop :=
    forall is32 bits, float_finite is32 bits = true -> valid_number (fmt_float is32 bits) = true.
  Definition compact_json (t : bytes) : Prop := exists j, wfb j = true /\ t = print j.
  Definition inner_ok : Prop := forall tn pb t, any_inner tn pb = Ok t -> compact_json t.

  Hypothesis Hfloat : float_text_ok.
  Hypothesis Hinner : inner_ok.

  Notation enc_scalar := (enc_scalar fmt_float).
  Notation enc_value := (enc_value fmt_float any_inner env).
  Notation enc_object := (enc_object fmt_float any_inner env).
  Notation enc_oneof := (enc_oneof fmt_float any_inner env).
  Notation wire_scalar := (wire_scalar fmt_float).
  Notation wire_value := (wire_value fmt_float env).
  Notation wire_members := (wire_members fmt_float env).
  Notation wire_oneof := (wire_oneof fmt_float env).

  (* ---------------------------------------------------------------- scalars *)
  Lemma enc_float_tree is32 bits :
    exists J, wfb J = true /\ enc_float fmt_float is32 bits = print J /\
              (float_finite is32 bits = true -> J = JNum (fmt_float is32 bits)).
  Proof.
    unfold enc_float, float_is_nan, float_is_inf, float_finite.
    destruct (float_exp_all_ones is32 bits) eqn:E; cbn [andb negb].
    - destruct (float_mantissa is32 bits =? 0); cbn [negb].
      + destruct (float_negative is32 bits).
        * exists (JStr (45 :: txt_Infinity)). repeat split; try (vm_compute; reflexivity). discriminate.
        * exists (JStr txt_Infinity). repeat split; try (vm_compute; reflexivity). discriminate.
      + exists (JStr txt_NaN). repeat split; try (vm_compute; reflexivity). discriminate.
    - exists (JNum (fmt_float is32 bits)). split; [|split; [reflexivity|reflexivity]].
      cbn [wfb]. apply Hfloat. unfold float_finite. rewrite E. reflexivity.
  Qed.

  Theorem enc_scalar_tree k v txt :
    enc_scalar k v = Ok txt ->
    exists J, wfb J = true /\ txt = print J /\ wire_scalar k v J.
  Proof.
    intros H. destruct k, v; cbn [CodecEnc.enc_scalar] in H; try discriminate.
    - (* int32 *) injection H as <-. exists (JNum (print_Z z)). split; [apply print_Z_valid_number|]. split; reflexivity.
    - (* int64 *) injection H as <-. exists (JStr (print_Z z)).
      destruct (print_plain_str _ (print_Z_plain z)) as [Hp Hw]. split; [exact Hw|]. split; [symmetry; exact Hp|reflexivity].
    - (* uint32 *) injection H as <-. exists (JNum (print_Z z)). split; [apply print_Z_valid_number|]. split; reflexivity.
    - (* uint64 *) injection H as <-. exists (JStr (print_Z z)).
      destruct (print_plain_str _ (print_Z_plain z)) as [Hp Hw]. split; [exact Hw|]. split; [symmetry; exact Hp|reflexivity].
    - (* float32 *) injection H as <-. destruct (enc_float_tree true bits) as (J & Hw & Hp & Hf).
      exists J. split; [exact Hw|]. split; [exact Hp|]. unfold CodecEncSpec.wire_scalar, scalar_text.
      destruct (float_finite true bits) eqn:E; [|exact I]. rewrite (Hf eq_refl). reflexivity.
    - (* float64 *) injection H as <-. destruct (enc_float_tree false bits) as (J & Hw & Hp & Hf).
      exists J. split; [exact Hw|]. split; [exact Hp|]. unfold CodecEncSpec.wire_scalar, scalar_text.
      destruct (float_finite false bits) eqn:E; [|exact I]. rewrite (Hf eq_refl). reflexivity.
    - (* bool *) injection H as <-. exists (JBool b). split; [reflexivity|]. split; [destruct b; reflexivity|reflexivity].
    - (* string *) apply escape_ok in H as [Hv ->]. exists (JStr s). repeat split; assumption || reflexivity.
    - (* bytes *) apply escape_ok in H as [Hv ->]. exists (JStr (b64_encode s)). repeat split; assumption || reflexivity.
    - (* key *) apply escape_ok in H as [Hv ->]. exists (JStr s). repeat split; assumption || reflexivity.
    - (* date *) apply obind_ok in H as (y & Hy & H). apply obind_ok in H as (mo & Hmo & H).
      apply obind_ok in H as (d & Hd & H). apply escape_ok in H as [Hv ->].
      exists (JStr (date_string y mo d)). split; [exact Hv|]. split; [reflexivity|].
      unfold CodecEncSpec.wire_scalar, scalar_text.
      rewrite (field_int_z _ _ _ Hy), (field_int_z _ _ _ Hmo), (field_int_z _ _ _ Hd).
      destruct (date_in_range y mo d); [reflexivity|exact I].
    - (* decimal *) apply obind_ok in H as (s & Hs & H). apply escape_ok in H as [Hv ->].
      exists (JStr s). split; [exact Hv|]. split; [reflexivity|].
      unfold CodecEncSpec.wire_scalar, scalar_text. rewrite (field_bytes_s _ _ _ Hs). reflexivity.
    - (* timestamp *) apply obind_ok in H as (s & Hs & H). apply obind_ok in H as (ns & Hns & H).
      apply escape_ok in H as [Hv ->].
      exists (JStr (format_rfc3339nano s ns)). split; [exact Hv|]. split; [reflexivity|].
      unfold CodecEncSpec.wire_scalar, scalar_text.
      rewrite (field_int_z _ _ _ Hs), (field_int_z _ _ _ Hns).
      destruct (ts_in_range s ns); [reflexivity|exact I].
  Qed.

  (* The label table model_repr (the one the Go switch tables are proved to agree with) is what
     enc_scalar does: per kind, the shape of every successful output. *)
  Definition repr_holds (r : arm_repr) (is32 : bool) (txt : bytes) : Prop :=
    match r with
    | RBare => exists z, txt = print_Z z
    | RQuoted => exists z, txt = quote (print_Z z)
    | RFloat => (exists bits, txt = fmt_float is32 bits) \/ txt = quote txt_NaN \/
                txt = quote txt_Infinity \/ txt = quote (45 :: txt_Infinity)
    | RBoolLit => txt = [116; 114; 117; 101] \/ txt = [102; 97; 108; 115; 101]
    | RString => exists s, valid_utf8 s = true /\ txt = print (JStr s)
    | RUnknown => False
    end.

  Theorem enc_scalar_repr k v txt :
    enc_scalar k v = Ok txt ->
    repr_holds (model_repr k) (match k with KFloat32 => true | _ => false end) txt.
  Proof.
    intros H. destruct k, v; cbn [CodecEnc.enc_scalar] in H; try discriminate; cbn [model_repr repr_holds].
    - injection H as <-. eauto.
    - injection H as <-. eauto.
    - injection H as <-. eauto.
    - injection H as <-. eauto.
    - injection H as <-. unfold enc_float. destruct (float_is_nan true bits); [tauto|].
      destruct (float_is_inf true bits); [destruct (float_negative true bits); tauto|]. left. eauto.
    - injection H as <-. unfold enc_float. destruct (float_is_nan false bits); [tauto|].
      destruct (float_is_inf false bits); [destruct (float_negative false bits); tauto|]. left. eauto.
    - injection H as <-. destruct b; tauto.
    - apply escape_ok in H as [Hv ->]. eauto.
    - apply escape_ok in H as [Hv ->]. eauto.
    - apply escape_ok in H as [Hv ->]. eauto.
    - apply obind_ok in H as (y & Hy & H). apply obind_ok in H as (mo & Hmo & H).
      apply obind_ok in H as (d & Hd & H). apply escape_ok in H as [Hv ->]. eauto.
    - apply obind_ok in H as (s & Hs & H). apply escape_ok in H as [Hv ->]. eauto.
    - apply obind_ok in H as (s & Hs & H). apply obind_ok in H as (ns & Hns & H).
      apply escape_ok in H as [Hv ->]. eauto.
  Qed.

  (* ---------------------------------------------------------------- presence *)
  (* oneofs reached through exposure list members with a proto path *)
  Definition oneofs_flat : Prop :=
    forall name ps, lookup env name = Some (SOneof ps) -> Forall (fun p => p_path p <> []) ps.
  Hypothesis Hflat : oneofs_flat.

  Lemma walk_present path m : walk path m = present path m.
  Proof.
    revert m. induction path as [|n rest IH]; intros m; [reflexivity|].
    destruct rest as [|n2 rest']; [reflexivity|].
    cbn [walk present]. destruct (msg_get n m) as [[]|]; first [reflexivity | apply IH].
  Qed.

  Lemma prop_lookup_path f p m : p_path p <> [] ->
    prop_lookup env f p m = Ok (present (p_path p) m).
  Proof.
    intros H. destruct f; cbn [prop_lookup]; destruct (p_path p) as [|n r] eqn:E; try congruence;
      rewrite walk_present; reflexivity.
  Qed.

  Lemma get_one_members look ps m found :
    (forall q, In q ps -> look q = Ok (present (p_path q) m)) ->
    get_one_with look ps found =
      match members_present ps m, found with
      | [], _ => Ok found
      | [x], None => Ok (Some x)
      | _, _ => Err "multiple values set for oneof"%string
      end.
  Proof.
    revert found. induction ps as [|p r IH]; intros found Hl; [reflexivity|].
    cbn [get_one_with]. rewrite (Hl p (or_introl eq_refl)).
    unfold members_present in *. cbn [flat_map].
    assert (Hr : forall q, In q r -> look q = Ok (present (p_path q) m)) by (intros; apply Hl; right; assumption).
    destruct (present (p_path p) m) as [v|].
    - cbn [app]. destruct found as [x|].
      + destruct (flat_map _ r); reflexivity.
      + rewrite (IH (Some (p, v)) Hr). destruct (flat_map _ r) as [|y [|z t]]; reflexivity.
    - cbn [app]. apply IH. exact Hr.
  Qed.

  Lemma prop_lookup_present f p m ov :
    prop_lookup env f p m = Ok ov -> prop_present env p m = ov.
  Proof.
    destruct (p_path p) as [|n r] eqn:E.
    - destruct f as [|f]; cbn [prop_lookup]; rewrite E; [discriminate|].
      unfold prop_present. rewrite E.
      destruct (p_ty p); try discriminate.
      destruct (lookup env ref) as [[ps|ps|]|] eqn:El; try discriminate.
      rewrite (get_one_members _ ps m None).
      2:{ intros q Hq. apply prop_lookup_path. pose proof (Hflat _ _ El) as HF.
          rewrite Forall_forall in HF. apply HF. exact Hq. }
      destruct (members_present ps m) as [|x [|y t]]; intros [= <-]; reflexivity.
    - rewrite prop_lookup_path by congruence. intros [= <-]. unfold prop_present. rewrite E. reflexivity.
  Qed.

  Lemma members_spec ps m :
    match members_present ps m with
    | [] => forall p, In p ps -> present (p_path p) m = None
    | [(p, v)] => In p ps /\ present (p_path p) m = Some v /\
                  forall q, In q ps -> q <> p -> present (p_path q) m = None
    | _ => True
    end.
  Proof.
    unfold members_present. induction ps as [|p r IH]; cbn [flat_map].
    - intros p [].
    - destruct (present (p_path p) m) as [v|] eqn:Ep; cbn [app].
      + destruct (flat_map _ r) as [|y t] eqn:Er; [|destruct t; exact I].
        split; [left; reflexivity|]. split; [exact Ep|].
        intros q [->|Hq] Hne; [congruence|]. apply IH. exact Hq.
      + destruct (flat_map _ r) as [|[py vy] [|z t]] eqn:Er; [| |exact I].
        * intros q [->|Hq]; [exact Ep|]. apply IH. exact Hq.
        * destruct IH as (Hin & Hpr & Hoth). split; [right; exact Hin|]. split; [exact Hpr|].
          intros q [->|Hq] Hne; [exact Ep|]. apply Hoth; assumption.
  Qed.

  Lemma get_one_spec ps m o : Forall (fun p => p_path p <> []) ps ->
    get_one env ps m = Ok o ->
    match o with
    | None => forall p, In p ps -> prop_present env p m = None
    | Some (p, v) => In p ps /\ prop_present env p m = Some v /\
                     forall q, In q ps -> q <> p -> prop_present env q m = None
    end.
  Proof.
    intros HF. unfold get_one. rewrite (get_one_members _ ps m None).
    2:{ intros q Hq. apply prop_lookup_path. rewrite Forall_forall in HF. apply HF. exact Hq. }
    assert (Hpp : forall q, In q ps -> prop_present env q m = present (p_path q) m).
    { intros q Hq. rewrite Forall_forall in HF. specialize (HF q Hq). unfold prop_present.
      destruct (p_path q); [congruence|reflexivity]. }
    pose proof (members_spec ps m) as Hs.
    destruct (members_present ps m) as [|[p v] [|z t]]; intros [= <-].
    - intros p Hp. rewrite Hpp by exact Hp. apply Hs. exact Hp.
    - destruct Hs as (Hin & Hpr & Hoth). split; [exact Hin|]. split; [rewrite Hpp by exact Hin; exact Hpr|].
      intros q Hq Hne. rewrite Hpp by exact Hq. apply Hoth; assumption.
  Qed.

  (* ---------------------------------------------------------------- embedded JSON of j5 Any values *)
  (* every j5_json payload reachable along the schema is compact JSON text; this is what a
     representable message satisfies (the stored text is embedded verbatim) *)
  Inductive raw_ok_gen (Q : bytes -> Prop) : field_ty -> pval -> Prop :=
  | RO_scalar k v : raw_ok_gen Q (FScalar k) v
  | RO_enum r v : raw_ok_gen Q (FEnum r) v
  | RO_object r v :
      (forall ps m, lookup env r = Some (SObject ps) -> v = VMsg m -> raw_props_gen Q ps m) -> raw_ok_gen Q (FObject r) v
  | RO_oneof r v :
      (forall ps m, lookup env r = Some (SOneof ps) -> v = VMsg m -> raw_props_gen Q ps m) -> raw_ok_gen Q (FOneof r) v
  | RO_array it v : (forall l, v = VList l -> Forall (raw_ok_gen Q it) l) -> raw_ok_gen Q (FArray it) v
  | RO_map it v : (forall es, v = VMap es -> Forall (fun kv => raw_ok_gen Q it (snd kv)) es) -> raw_ok_gen Q (FMap it) v
  | RO_any pb v :
      (forall m s, v = VMsg m -> pb = false -> msg_get 3 m = Some (VBytes s) -> Q s) ->
      raw_ok_gen Q (FAny pb) v
  with raw_props_gen (Q : bytes -> Prop) : list property -> msg -> Prop :=
  | RP ps m : (forall p v, In p ps -> prop_present env p m = Some v -> raw_ok_gen Q (p_ty p) v) -> raw_props_gen Q ps m.
  Notation raw_ok := (raw_ok_gen compact_json).
  Notation raw_props := (raw_props_gen compact_json).

  (* ---------------------------------------------------------------- structure *)
  Definition tree_of (txt : bytes) (J : jvalue) : Prop := wfb J = true /\ txt = print J.

  Lemma print_obj' l : print (JObj l) = 123 :: join 44 (map member_text l) ++ [125].
  Proof. reflexivity. Qed.

  Lemma member_is_text k J : member (print (JStr k)) (print J) = member_text (k, J).
  Proof. reflexivity. Qed.

  Lemma print_two k1 J1 k2 J2 :
    print (JObj [(k1, J1); (k2, J2)]) =
    123 :: member (print (JStr k1)) (print J1) ++ 44 :: member (print (JStr k2)) (print J2) ++ [125].
  Proof. rewrite print_obj'. cbn [map join]. rewrite <- app_assoc. reflexivity. Qed.

  Lemma stored_json_ok js data : stored_json js = Ok data -> data = js /\ exists j, strict_parse js = Some j.
  Proof.
    unfold stored_json. destruct (strict_parse js) as [j|]; [|discriminate]. intros [= <-]. split; [reflexivity|exists j; reflexivity].
  Qed.

  Lemma enc_any_tree pb m txt :
    enc_any any_inner pb m = Ok txt -> raw_ok (FAny pb) (VMsg m) ->
    exists J, tree_of txt J /\ wire_value (FAny pb) (VMsg m) J.
  Proof.
    intros H Hraw. unfold enc_any in H.
    apply obind_ok in H as (tn0 & Htn & H). apply obind_ok in H as (data & Hdata & H).
    apply obind_ok in H as (l1 & Hl1 & H). apply obind_ok in H as (t & Ht & H).
    apply obind_ok in H as (l2 & Hl2 & H). injection H as <-.
    apply escape_ok in Hl1 as [_ ->]. apply escape_ok in Hl2 as [_ ->]. apply escape_ok in Ht as [Hvt ->].
    assert (Hc : compact_json data).
    { destruct pb.
      - apply obind_ok in Hdata as (pbytes & _ & Hd). eapply Hinner; exact Hd.
      - destruct (msg_get 3 m) as [[]|] eqn:E3;
          try (apply obind_ok in Hdata as (pbytes & _ & Hd); eapply Hinner; exact Hd).
        apply stored_json_ok in Hdata as [-> _]. inversion Hraw as [| | | | | |? ? Hr]; subst. eapply Hr; eauto. }
    destruct Hc as (Jd & Hwd & ->).
    set (tn := if pb then trim_prefix any_prefix tn0 else tn0) in *.
    exists (JObj [(txt_type, JStr tn); (txt_value, Jd)]). split.
    - split.
      + cbn [wfb forallb fst snd]. rewrite Hvt, Hwd. reflexivity.
      + rewrite print_two. reflexivity.
    - assert (tn = any_type_name pb m) as ->.
      { unfold any_type_name, tn. rewrite (field_bytes_s _ _ _ Htn). reflexivity. }
      constructor. intros s -> E3. rewrite E3 in Hdata. apply stored_json_ok in Hdata as [<- _]. apply parse_print. exact Hwd.
  Qed.

  Definition P_value (f : nat) : Prop := forall t v txt,
    enc_value f t v = Ok txt -> raw_ok t v -> exists J, tree_of txt J /\ wire_value t v J.
  Definition P_object (f : nat) : Prop := forall ps m txt,
    enc_object f ps m = Ok txt -> raw_props ps m ->
    exists ms, tree_of txt (JObj ms) /\ wire_members ps m ms.
  Definition P_oneof (f : nat) : Prop := forall ps m txt,
    Forall (fun p => p_path p <> []) ps ->
    enc_oneof f ps m = Ok txt -> raw_props ps m ->
    exists J, tree_of txt J /\ wire_oneof ps m J.

  Lemma array_step f it : P_value f -> forall l xs,
    sequence (map (enc_value f it) l) = Ok xs -> Forall (raw_ok it) l ->
    exists js, Forall2 (wire_value it) l js /\ forallb wfb js = true /\ xs = map print js.
  Proof.
    intros IH l. induction l as [|v r IHl]; intros xs H Hr; cbn [map sequence] in H.
    - injection H as <-. exists []. repeat split; constructor.
    - apply obind_ok in H as (x & Hx & H). apply omap_ok in H as (ys & Hys & ->).
      inversion Hr as [|? ? Hv Hrr]; subst.
      destruct (IH _ _ _ Hx Hv) as (J & [Hw ->] & Hwire).
      destruct (IHl _ Hys Hrr) as (js & Hf & Hwf & ->).
      exists (J :: js). split; [constructor; assumption|]. split; [cbn [forallb]; rewrite Hw, Hwf; reflexivity|reflexivity].
  Qed.

  Lemma map_step f it : P_value f -> forall es xs,
    sequence (map (fun kv => obind (escape (fst kv)) (fun l => omap (member l) (enc_value f it (snd kv)))) es) = Ok xs ->
    Forall (fun kv => raw_ok it (snd kv)) es ->
    exists ms, Forall2 (fun kv km => fst kv = fst km /\ wire_value it (snd kv) (snd km)) es ms /\
               forallb (fun kv => valid_utf8 (fst kv) && wfb (snd kv)) ms = true /\ xs = map member_text ms.
  Proof.
    intros IH es. induction es as [|[k v] r IHl]; intros xs H Hr; cbn [map sequence] in H.
    - injection H as <-. exists []. repeat split; constructor.
    - apply obind_ok in H as (x & Hx & H). apply omap_ok in H as (ys & Hys & ->).
      inversion Hr as [|? ? Hv Hrr]; subst. cbn [fst snd] in *.
      apply obind_ok in Hx as (l & Hl & Hx). apply omap_ok in Hx as (b & Hb & ->).
      apply escape_ok in Hl as [Hk ->].
      destruct (IH _ _ _ Hb Hv) as (J & [Hw ->] & Hwire).
      destruct (IHl _ Hys Hrr) as (ms & Hf & Hwf & ->).
      exists ((k, J) :: ms). split; [constructor; [split; [reflexivity|exact Hwire]|exact Hf]|].
      split; [cbn [forallb fst snd]; rewrite Hk, Hw, Hwf; reflexivity|reflexivity].
  Qed.

  Lemma object_step f m : P_value f -> forall ps xs,
    sequence (map (fun p => obind (prop_lookup env lookup_fuel p m) (fun ov =>
              match ov with
              | None => Ok []
              | Some v => obind (escape (p_json p)) (fun l => omap (fun b => [member l b]) (enc_value f (p_ty p) v))
              end)) ps) = Ok xs ->
    (forall p v, In p ps -> prop_present env p m = Some v -> raw_ok (p_ty p) v) ->
    exists ms, wire_members ps m ms /\
               forallb (fun kv => valid_utf8 (fst kv) && wfb (snd kv)) ms = true /\
               concat xs = map member_text ms.
  Proof.
    intros IH ps. induction ps as [|p r IHl]; intros xs H Hr; cbn [map sequence] in H.
    - injection H as <-. exists []. repeat split; constructor.
    - apply obind_ok in H as (x & Hx & H). apply omap_ok in H as (ys & Hys & ->).
      apply obind_ok in Hx as (ov & Hov & Hx).
      apply prop_lookup_present in Hov.
      destruct (IHl _ Hys ltac:(intros; eapply Hr; [right|]; eassumption)) as (ms & Hm & Hwf & Hc).
      destruct ov as [v|].
      + apply obind_ok in Hx as (l & Hl & Hx). apply omap_ok in Hx as (b & Hb & ->).
        apply escape_ok in Hl as [Hk ->].
        destruct (IH _ _ _ Hb (Hr p v (or_introl eq_refl) Hov)) as (J & [Hw ->] & Hwire).
        exists ((p_json p, J) :: ms). split; [eapply WM_set; eassumption|].
        split; [cbn [forallb fst snd]; rewrite Hk, Hw, Hwf; reflexivity|].
        cbn [concat map app]. rewrite Hc. reflexivity.
      + injection Hx as <-.
        exists ms. split; [apply WM_unset; assumption|]. split; [exact Hwf|]. cbn [concat app]. exact Hc.
  Qed.

  Lemma enc_value_S f t v :
    enc_value (S f) t v =
      match t with
      | FScalar k => enc_scalar k v
      | FEnum r =>
          match lookup env r, v with
          | Some (SEnum _ opts), VEnum n =>
              match option_by_number opts n with
              | Some name => escape name
              | None => Err "enum value not found"
              end
          | _, _ => Panic "schema/value mismatch"
          end
      | FObject r =>
          match lookup env r, v with
          | Some (SObject ps), VMsg m => enc_object f ps m
          | _, _ => Panic "schema/value mismatch"
          end
      | FOneof r =>
          match lookup env r, v with
          | Some (SOneof ps), VMsg m => enc_oneof f ps m
          | _, _ => Panic "schema/value mismatch"
          end
      | FArray it =>
          match v with
          | VList l => omap (fun xs => 91 :: join_b 44 xs ++ [93]) (sequence (map (enc_value f it) l))
          | _ => Panic "schema/value mismatch"
          end
      | FMap it =>
          match v with
          | VMap es =>
              omap (fun xs => 123 :: join_b 44 xs ++ [125])
                   (sequence (map (fun kv => obind (escape (fst kv)) (fun l =>
                                             omap (member l) (enc_value f it (snd kv)))) es))
          | _ => Panic "schema/value mismatch"
          end
      | FAny pb =>
          match v with
          | VMsg m => enc_any any_inner pb m
          | _ => Panic "schema/value mismatch"
          end
      end.
  Proof. reflexivity. Qed.

  Lemma enc_object_S f ps m :
    enc_object (S f) ps m =
      omap (fun xs => 123 :: join_b 44 (concat xs) ++ [125])
           (sequence (map (fun p =>
              obind (prop_lookup env lookup_fuel p m) (fun ov =>
              match ov with
              | None => Ok []
              | Some v => obind (escape (p_json p)) (fun l =>
                          omap (fun b => [member l b]) (enc_value f (p_ty p) v))
              end)) ps)).
  Proof. reflexivity. Qed.

  Lemma enc_oneof_S f ps m :
    enc_oneof (S f) ps m =
      obind (get_one env ps m) (fun o =>
      match o with
      | None => Ok [123; 125]
      | Some (p, v) =>
          obind (escape txt_type) (fun l1 =>
          obind (escape (p_json p)) (fun nm =>
          obind (enc_value f (p_ty p) v) (fun b =>
          Ok (123 :: member l1 nm ++ 44 :: member nm b ++ [125]))))
      end).
  Proof. reflexivity. Qed.

  Lemma structure : forall f, P_value f /\ P_object f /\ P_oneof f.
  Proof.
    induction f as [|f (IHv & IHo & IHn)].
    - repeat split; intros *; cbn; discriminate || (intros; discriminate).
    - assert (Hobj : P_object (S f)).
      { intros ps m txt H Hraw. rewrite enc_object_S in H.
        apply omap_ok in H as (xs & Hxs & ->).
        inversion Hraw as [? ? Hr]; subst.
        destruct (object_step f m IHv ps xs Hxs Hr) as (ms & Hm & Hwf & Hc).
        exists ms. split; [|exact Hm]. split; [exact Hwf|]. rewrite print_obj', Hc. reflexivity. }
      assert (Hone : P_oneof (S f)).
      { intros ps m txt HF H Hraw. rewrite enc_oneof_S in H.
        apply obind_ok in H as (o & Ho & H). apply (get_one_spec ps m o HF) in Ho.
        destruct o as [[p v]|].
        - destruct Ho as (Hin & Hp & Hoth).
          apply obind_ok in H as (l1 & Hl1 & H). apply obind_ok in H as (nm & Hnm & H).
          apply obind_ok in H as (b & Hb & H). injection H as <-.
          apply escape_ok in Hl1 as [_ ->]. apply escape_ok in Hnm as [Hk ->].
          inversion Hraw as [? ? Hr]; subst.
          destruct (IHv _ _ _ Hb (Hr p v Hin Hp)) as (J & [Hw ->] & Hwire).
          exists (JObj [(txt_type, JStr (p_json p)); (p_json p, J)]). split.
          + split; [cbn [wfb forallb fst snd]; rewrite Hk, Hw; reflexivity|rewrite print_two; reflexivity].
          + eapply WO_one; eassumption.
        - injection H as <-. exists (JObj []). split; [split; reflexivity|]. apply WO_empty. exact Ho. }
      split; [|split; assumption].
      intros t v txt H Hraw. rewrite enc_value_S in H. destruct t as [k|r|r|r|it|it|pb].
      + destruct (enc_scalar_tree k v txt H) as (J & Hw & Hp & Hs).
        exists J. split; [split; assumption|]. constructor. exact Hs.
      + destruct (lookup env r) as [[ps|ps|pre opts]|] eqn:El; try discriminate.
        destruct v; try discriminate. destruct (option_by_number opts n) as [name|] eqn:En; [|discriminate].
        apply escape_ok in H as [Hv ->]. exists (JStr name). split; [split; [exact Hv|reflexivity]|].
        econstructor; eassumption.
      + destruct (lookup env r) as [[ps|ps|pre opts]|] eqn:El; try discriminate.
        destruct v; try discriminate. inversion Hraw as [| |? ? Hr| | | |]; subst.
        destruct (IHo _ _ _ H (Hr _ _ El eq_refl)) as (ms & Ht & Hm).
        exists (JObj ms). split; [exact Ht|]. econstructor; eassumption.
      + destruct (lookup env r) as [[ps|ps|pre opts]|] eqn:El; try discriminate.
        destruct v; try discriminate. inversion Hraw as [| | |? ? Hr| | |]; subst.
        destruct (IHn _ _ _ (Hflat _ _ El) H (Hr _ _ El eq_refl)) as (J & Ht & Hm).
        exists J. split; [exact Ht|]. econstructor; eassumption.
      + destruct v; try discriminate. apply omap_ok in H as (xs & Hxs & ->).
        inversion Hraw as [| | | |? ? Hr| |]; subst.
        destruct (array_step f it IHv _ _ Hxs (Hr _ eq_refl)) as (js & Hf & Hwf & ->).
        exists (JArr js). split; [split; [exact Hwf|reflexivity]|]. constructor. exact Hf.
      + destruct v; try discriminate. apply omap_ok in H as (xs & Hxs & ->).
        inversion Hraw as [| | | | |? ? Hr|]; subst.
        destruct (map_step f it IHv _ _ Hxs (Hr _ eq_refl)) as (ms & Hf & Hwf & ->).
        exists (JObj ms). split; [split; [exact Hwf|reflexivity]|]. constructor. exact Hf.
      + destruct v; try discriminate. apply enc_any_tree; assumption.
  Qed.

  (* the root *)
  Definition raw_root_gen (Q : bytes -> Prop) (root : bytes) (m : msg) : Prop :=
    match lookup env root with
    | Some (SObject ps) | Some (SOneof ps) => raw_props_gen Q ps m
    | _ => True
    end.
  Notation raw_root := (raw_root_gen compact_json).

  Theorem encode_tree root m txt :
    encode fmt_float any_inner env root m = Ok txt -> raw_root root m ->
    exists J, wfb J = true /\ txt = print J /\ wire_format fmt_float env root m J.
  Proof.
    unfold encode, encode_fuel, raw_root_gen, wire_format. intros H Hraw.
    set (f := (4 * pval_depth (VMsg m) + 4)%nat) in *.
    destruct (structure f) as (_ & Ho & Hn).
    destruct (lookup env root) as [[ps|ps|pre opts]|] eqn:El; try discriminate.
    - destruct (Ho _ _ _ H Hraw) as (ms & [Hw Hp] & Hm). exists (JObj ms). eauto 6.
    - destruct (Hn _ _ _ (Hflat _ _ El) H Hraw) as (J & [Hw Hp] & Hm). exists J. auto.
  Qed.

  Theorem encode_wellformed root m txt :
    encode fmt_float any_inner env root m = Ok txt -> raw_root root m ->
    exists J, strict_parse txt = Some J /\ wire_format fmt_float env root m J.
  Proof.
    intros H Hraw. destruct (encode_tree root m txt H Hraw) as (J & Hw & -> & Hf).
    exists J. split; [apply parse_print; exact Hw|exact Hf].
  Qed.
End Main.
Notation raw_root env := (raw_root_gen env compact_json).

(* ================================================================ what the specification says, per type *)
Section Corollaries.
  Variable fmt_float : bool -> N -> bytes.

  Lemma spec_int32_bare z j : wire_scalar fmt_float KInt32 (VInt z) j ->
    j = JNum (print_Z z) /\ valid_number (print_Z z) = true /\ parse_Z (print_Z z) = Some z.
  Proof. intros H. split; [exact H|]. split; [apply print_Z_valid_number|apply parse_print_Z]. Qed.

  Lemma spec_uint32_bare z j : wire_scalar fmt_float KUint32 (VInt z) j ->
    j = JNum (print_Z z) /\ valid_number (print_Z z) = true /\ parse_Z (print_Z z) = Some z.
  Proof. intros H. split; [exact H|]. split; [apply print_Z_valid_number|apply parse_print_Z]. Qed.

  Lemma spec_int64_quoted z j : wire_scalar fmt_float KInt64 (VInt z) j ->
    j = JStr (print_Z z) /\ valid_number (print_Z z) = true /\ parse_Z (print_Z z) = Some z.
  Proof. intros H. split; [exact H|]. split; [apply print_Z_valid_number|apply parse_print_Z]. Qed.

  Lemma spec_uint64_quoted z j : wire_scalar fmt_float KUint64 (VInt z) j ->
    j = JStr (print_Z z) /\ valid_number (print_Z z) = true /\ parse_Z (print_Z z) = Some z.
  Proof. intros H. split; [exact H|]. split; [apply print_Z_valid_number|apply parse_print_Z]. Qed.

  Lemma spec_float_bare is32 bits j : float_finite is32 bits = true ->
    wire_scalar fmt_float (if is32 then KFloat32 else KFloat64) (VFloat bits) j -> j = JNum (fmt_float is32 bits).
  Proof.
    intros Hf H. destruct is32; unfold wire_scalar, scalar_text in H; rewrite Hf in H; exact H.
  Qed.

  Lemma spec_bool_bare b j : wire_scalar fmt_float KBool (VBool b) j -> j = JBool b.
  Proof. intros H. exact H. Qed.

  Lemma spec_bytes_padded_std s j : Forall is_byte s -> wire_scalar fmt_float KBytes (VBytes s) j ->
    j = JStr (b64_encode s) /\ (length (b64_encode s) mod 4 = 0)%nat /\ b64_std_decode (b64_encode s) = Some s.
  Proof. intros Hb H. split; [exact H|]. split; [apply b64_encode_padded|apply b64_decode_encode; exact Hb]. Qed.

  Lemma spec_decimal_quoted m j : wire_scalar fmt_float KDecimal (VMsg m) j -> j = JStr (sfield 1 m).
  Proof. intros H. exact H. Qed.

  Lemma spec_string s j : wire_scalar fmt_float KString (VStr s) j -> j = JStr s.
  Proof. intros H. exact H. Qed.

  Lemma spec_date_text m j : date_in_range (zfield 1 m) (zfield 2 m) (zfield 3 m) = true ->
    wire_scalar fmt_float KDate (VMsg m) j -> j = JStr (date_string (zfield 1 m) (zfield 2 m) (zfield 3 m)).
  Proof. intros Hr H. unfold wire_scalar, scalar_text in H. rewrite Hr in H. exact H. Qed.

  Lemma spec_timestamp_text m j : ts_in_range (zfield 1 m) (zfield 2 m) = true ->
    wire_scalar fmt_float KTimestamp (VMsg m) j -> j = JStr (format_rfc3339nano (zfield 1 m) (zfield 2 m)).
  Proof. intros Hr H. unfold wire_scalar, scalar_text in H. rewrite Hr in H. exact H. Qed.

  Variable env : env.

  Lemma spec_enum_short_name r v j : wire_value fmt_float env (FEnum r) v j ->
    exists pre opts n name, lookup env r = Some (SEnum pre opts) /\ v = VEnum n /\
                            option_by_number opts n = Some name /\ j = JStr name.
  Proof. intros H. inversion H; subst. eauto 10. Qed.

  Lemma spec_oneof_framing ps m j : wire_oneof fmt_float env ps m j ->
    j = JObj [] \/
    exists p v jv, In p ps /\ prop_present env p m = Some v /\
                   j = JObj [(txt_type, JStr (p_json p)); (p_json p, jv)] /\ wire_value fmt_float env (p_ty p) v jv.
  Proof. intros H. inversion H; subst; [left; reflexivity|right; eauto 10]. Qed.

  Lemma spec_any_framing pb v j : wire_value fmt_float env (FAny pb) v j ->
    exists m jv, v = VMsg m /\ j = JObj [(txt_type, JStr (any_type_name pb m)); (txt_value, jv)] /\
                 (forall s, pb = false -> msg_get 3 m = Some (VBytes s) -> strict_parse s = Some jv).
  Proof. intros H. inversion H; subst. eauto 6. Qed.

  (* members: exactly the present properties, in schema order, under their JSON names *)
  Lemma spec_members_names ps m ms : wire_members fmt_float env ps m ms ->
    map fst ms = map p_json (filter (fun p => match prop_present env p m with Some _ => true | None => false end) ps).
  Proof.
    induction 1 as [m|p ps m ms Hp _ IH|p ps m v j ms Hp _ _ IH]; cbn [filter map].
    - reflexivity.
    - rewrite Hp. exact IH.
    - rewrite Hp. cbn [map fst]. rewrite IH. reflexivity.
  Qed.

  (* a flattened property (path through a sub-message) is a member of the parent, not nested *)
  Lemma spec_flatten_inlined ps m ms p v : wire_members fmt_float env ps m ms ->
    In p ps -> prop_flattened p = true -> prop_present env p m = Some v -> In (p_json p) (map fst ms).
  Proof.
    intros H Hin _ Hv. rewrite (spec_members_names _ _ _ H). apply in_map. apply filter_In. split; [exact Hin|].
    rewrite Hv. reflexivity.
  Qed.

  Lemma spec_unset_omitted ps m ms k : wire_members fmt_float env ps m ms ->
    In k (map fst ms) -> exists p v, In p ps /\ p_json p = k /\ prop_present env p m = Some v.
  Proof.
    intros H Hk. rewrite (spec_members_names _ _ _ H) in Hk. apply in_map_iff in Hk as (p & <- & Hp).
    apply filter_In in Hp as [Hin Hs]. destruct (prop_present env p m) as [v|] eqn:E; [|discriminate]. eauto.
  Qed.
End Corollaries.

(* BclTextProofs.v — facts about lib/Text.v: UTF-8 decoding keeps the newline
   structure of the input (a 0x0A byte is never part of a multi-byte sequence and
   no other byte sequence decodes to U+000A), split/join are inverse. *)
From Coq Require Import String List NArith ZArith Bool Lia ZifyN ZifyNat ZifyBool.
From J5V.lib Require Import Text.
Import ListNotations.
Local Open Scope N_scope.
Arguments Nat.sub : simpl never.

Fixpoint count_nl (l : list N) : nat :=
  match l with [] => 0%nat | c :: r => ((if N.eqb c 10 then 1 else 0) + count_nl r)%nat end.

Lemma split_on_length l : length (split_on 10 l) = S (count_nl l).
Proof.
  induction l as [|c r IH]; [reflexivity|]. cbn [split_on count_nl].
  destruct (c =? 10); cbn [length]; [rewrite IH; reflexivity|].
  destruct (split_on 10 r) as [|x xs] eqn:E; cbn in *; lia.
Qed.

Lemma count_nl_app a b : count_nl (a ++ b) = (count_nl a + count_nl b)%nat.
Proof. induction a as [|c r IH]; cbn; [reflexivity|]. rewrite IH. lia. Qed.

Lemma in_byte_range_spec lo hi b : in_byte_range lo hi b = true <-> lo <= b <= hi.
Proof. unfold in_byte_range. lia. Qed.

Lemma lead_class_spec b0 n lo hi : lead_class b0 = Some (n, lo, hi) ->
  128 <= b0 /\ 128 <= lo /\ (n = 2 \/ n = 3 \/ n = 4) /\
  (n = 2 -> 194 <= b0) /\ (n = 3 -> 224 <= b0 /\ (b0 = 224 -> 160 <= lo)) /\ (n = 4 -> 240 <= b0 /\ (b0 = 240 -> 144 <= lo)).
Proof.
  unfold lead_class, in_byte_range.
  repeat match goal with |- context [if ?c then _ else _] => destruct c eqn:? end;
    intros [= <- <- <-]; lia.
Qed.

(* one step: the rune is a newline exactly when the single consumed byte is; multi-byte steps
   consume only bytes >= 128 and never give a newline *)
Lemma decode_rune_nl bs r n : decode_rune bs = Some (r, n) ->
  (1 <= N.to_nat n <= length bs)%nat /\
  count_nl [r] = count_nl (firstn (N.to_nat n) bs).
Proof.
  destruct bs as [|b0 r0]; [discriminate|]. cbn [decode_rune].
  destruct (b0 <? 128) eqn:E0.
  { intros [= <- <-]. change (N.to_nat 1) with 1%nat. cbn. split; [lia|]. destruct (b0 =? 10); reflexivity. }
  assert (Herr : (1 <= N.to_nat 1 <= length (b0 :: r0))%nat /\
                 count_nl [rune_error] = count_nl (firstn (N.to_nat 1) (b0 :: r0))).
  { change (N.to_nat 1) with 1%nat. cbn. split; [lia|]. replace (b0 =? 10) with false by lia. reflexivity. }
  destruct (lead_class b0) as [[[k lo] hi]|] eqn:El; [|intros [= <- <-]; exact Herr].
  destruct (lead_class_spec _ _ _ _ El) as (Hb0 & Hlo & Hk & H2 & H3 & H4).
  destruct r0 as [|b1 r1]; [intros [= <- <-]; exact Herr|].
  destruct (in_byte_range lo hi b1) eqn:E1; [|intros [= <- <-]; exact Herr].
  apply in_byte_range_spec in E1.
  destruct (k =? 2) eqn:Ek2.
  { intros [= <- <-]. change (N.to_nat 2) with 2%nat. cbn. split; [lia|].
    replace (b0 =? 10) with false by lia. replace (b1 =? 10) with false by lia.
    replace ((b0 - 192) * 64 + (b1 - 128) =? 10) with false by lia. reflexivity. }
  destruct r1 as [|b2 r2]; [intros [= <- <-]; exact Herr|].
  destruct (is_cont b2) eqn:E2; [|intros [= <- <-]; exact Herr].
  unfold is_cont in E2. apply in_byte_range_spec in E2.
  destruct (k =? 3) eqn:Ek3.
  { intros [= <- <-]. change (N.to_nat 3) with 3%nat. cbn. split; [lia|].
    replace (b0 =? 10) with false by lia. replace (b1 =? 10) with false by lia. replace (b2 =? 10) with false by lia.
    replace ((b0 - 224) * 4096 + (b1 - 128) * 64 + (b2 - 128) =? 10) with false by lia. reflexivity. }
  destruct r2 as [|b3 r3]; [intros [= <- <-]; exact Herr|].
  destruct (is_cont b3) eqn:E3; [|intros [= <- <-]; exact Herr].
  unfold is_cont in E3. apply in_byte_range_spec in E3.
  intros [= <- <-]. change (N.to_nat 4) with 4%nat. cbn. split; [lia|].
  replace (b0 =? 10) with false by lia. replace (b1 =? 10) with false by lia.
  replace (b2 =? 10) with false by lia. replace (b3 =? 10) with false by lia.
  replace ((b0 - 240) * 262144 + (b1 - 128) * 4096 + (b2 - 128) * 64 + (b3 - 128) =? 10) with false by lia.
  reflexivity.
Qed.

Lemma decode_count_nl : forall fuel bs, (length bs <= fuel)%nat ->
  count_nl (utf8_decode_fuel fuel bs) = count_nl bs.
Proof.
  induction fuel as [|f IH]; intros bs Hl.
  - destruct bs; [reflexivity|cbn in Hl; lia].
  - cbn [utf8_decode_fuel]. destruct (decode_rune bs) as [[r n]|] eqn:E.
    + destruct (decode_rune_nl bs r n E) as [Hn Hc].
      rewrite <- (firstn_skipn (N.to_nat n) bs) at 2. rewrite count_nl_app, <- Hc.
      change (r :: utf8_decode_fuel f (skipn (N.to_nat n) bs)) with ([r] ++ utf8_decode_fuel f (skipn (N.to_nat n) bs)).
      rewrite count_nl_app. f_equal. apply IH. rewrite skipn_length. lia.
    + destruct bs; [reflexivity|]. cbn in E. destruct (n <? 128); [discriminate|].
      destruct (lead_class n) as [[[k lo] hi]|]; [|discriminate].
      destruct bs as [|b1 r1]; [discriminate|]. destruct (in_byte_range lo hi b1); [|discriminate].
      destruct (k =? 2); [discriminate|]. destruct r1 as [|b2 r2]; [discriminate|].
      destruct (is_cont b2); [|discriminate]. destruct (k =? 3); [discriminate|].
      destruct r2 as [|b3 r3]; [discriminate|]. destruct (is_cont b3); discriminate.
Qed.

(* []rune(input) has as many lines as input *)
Theorem decode_line_count input :
  length (split_on 10 (utf8_decode input)) = length (split_on 10 input).
Proof.
  rewrite !split_on_length. f_equal. unfold utf8_decode. apply decode_count_nl. lia.
Qed.

(* ---- split / join --------------------------------------------------------------- *)
Definition no_nl (l : list N) : Prop := Forall (fun c => c <> 10) l.

Lemma split_on_no_nl l : Forall no_nl (split_on 10 l).
Proof.
  induction l as [|c r IH]; cbn [split_on]; [repeat constructor|].
  destruct (c =? 10) eqn:E; [constructor; [constructor|exact IH]|].
  destruct (split_on 10 r) as [|x xs]; [repeat constructor; lia|].
  inversion IH; subst. constructor; [constructor; [lia|assumption]|assumption].
Qed.

Lemma split_on_app_nl a b : no_nl a -> split_on 10 (a ++ 10 :: b) = a :: split_on 10 b.
Proof.
  induction a as [|c r IH]; intros H; cbn [app split_on].
  - replace (10 =? 10) with true by lia. reflexivity.
  - inversion H; subst. replace (c =? 10) with false by lia. rewrite IH by assumption. reflexivity.
Qed.

Lemma split_on_no_nl_id a : no_nl a -> split_on 10 a = [a].
Proof.
  induction a as [|c r IH]; intros H; cbn [split_on]; [reflexivity|].
  inversion H; subst. replace (c =? 10) with false by lia. rewrite IH by assumption. reflexivity.
Qed.

Lemma split_join ls : ls <> [] -> Forall no_nl ls -> split_on 10 (join_with 10 ls) = ls.
Proof.
  induction ls as [|l r IH]; intros Hne H; [congruence|].
  inversion H; subst. destruct r as [|l2 r2].
  - cbn. apply split_on_no_nl_id. assumption.
  - cbn [join_with]. rewrite split_on_app_nl by assumption. f_equal. apply IH; [discriminate|assumption].
Qed.

Lemma join_split l : join_with 10 (split_on 10 l) = l.
Proof.
  induction l as [|c r IH]; [reflexivity|]. cbn [split_on].
  destruct (c =? 10) eqn:E.
  - assert (c = 10) by lia. subst c. destruct (split_on 10 r) as [|x xs] eqn:Es.
    + exfalso. pose proof (split_on_length r). rewrite Es in H. cbn in H. lia.
    + cbn [join_with]. cbn [app]. f_equal. exact IH.
  - destruct (split_on 10 r) as [|x xs] eqn:Es.
    + exfalso. pose proof (split_on_length r). rewrite Es in H. cbn in H. lia.
    + destruct xs as [|y ys]; cbn [join_with] in *; cbn [app]; f_equal; exact IH.
Qed.

(* ---- []rune(input) line by line: decoding commutes with splitting at newlines ------------------ *)
Lemma in_byte_range_10 lo hi : 128 <= lo -> in_byte_range lo hi 10 = false.
Proof. unfold in_byte_range. lia. Qed.
Lemma is_cont_10 : is_cont 10 = false.
Proof. reflexivity. Qed.

(* a newline right after [a] can neither complete nor change the first rune of [a] *)
Lemma decode_rune_before_nl a b : a <> [] -> decode_rune (a ++ 10 :: b) = decode_rune a.
Proof.
  destruct a as [|b0 r0]; [congruence|]. intros _. cbn [app decode_rune].
  destruct (b0 <? 128); [reflexivity|].
  destruct (lead_class b0) as [[[k lo] hi]|] eqn:El; [|reflexivity].
  destruct (lead_class_spec _ _ _ _ El) as (Hb0 & Hlo & _).
  destruct r0 as [|b1 r1]; cbn [app].
  { rewrite (in_byte_range_10 lo hi Hlo). reflexivity. }
  destruct (in_byte_range lo hi b1); [|reflexivity].
  destruct (k =? 2); [reflexivity|].
  destruct r1 as [|b2 r2]; cbn [app].
  { rewrite is_cont_10. reflexivity. }
  destruct (is_cont b2); [|reflexivity].
  destruct (k =? 3); [reflexivity|].
  destruct r2 as [|b3 r3]; cbn [app].
  { rewrite is_cont_10. reflexivity. }
  reflexivity.
Qed.

Lemma decode_fuel_irrelevant : forall f1 f2 bs, (length bs <= f1)%nat -> (length bs <= f2)%nat ->
  utf8_decode_fuel f1 bs = utf8_decode_fuel f2 bs.
Proof.
  induction f1 as [|f1 IH]; intros f2 bs H1 H2.
  - destruct bs; [|cbn in H1; lia]. destruct f2; reflexivity.
  - destruct f2 as [|f2]; [destruct bs; [reflexivity|cbn in H2; lia]|].
    cbn [utf8_decode_fuel]. destruct (decode_rune bs) as [[r n]|] eqn:E; [|reflexivity].
    destruct (decode_rune_nl bs r n E) as [Hn _]. f_equal. apply IH; rewrite skipn_length; lia.
Qed.

Lemma decode_cons_step bs r n : decode_rune bs = Some (r, n) ->
  utf8_decode bs = r :: utf8_decode (skipn (N.to_nat n) bs).
Proof.
  intros E. destruct (decode_rune_nl bs r n E) as [Hn _].
  unfold utf8_decode. destruct (length bs) as [|l] eqn:El; [lia|].
  cbn [utf8_decode_fuel]. rewrite E. f_equal. apply decode_fuel_irrelevant; rewrite skipn_length; lia.
Qed.

Lemma decode_nil : utf8_decode [] = [].
Proof. reflexivity. Qed.

Lemma decode_app_nl : forall k a b, (length a <= k)%nat ->
  utf8_decode (a ++ 10 :: b) = utf8_decode a ++ 10 :: utf8_decode b.
Proof.
  induction k as [|k IH]; intros a b Hk.
  - destruct a; [|cbn in Hk; lia]. cbn [app]. rewrite (decode_cons_step (10 :: b) 10 1 eq_refl). reflexivity.
  - destruct a as [|a0 ar].
    + cbn [app]. rewrite (decode_cons_step (10 :: b) 10 1 eq_refl). reflexivity.
    + destruct (decode_rune (a0 :: ar)) as [[r n]|] eqn:E.
      * destruct (decode_rune_nl _ r n E) as [Hn _].
        rewrite (decode_cons_step (a0 :: ar) r n E).
        assert (E' : decode_rune ((a0 :: ar) ++ 10 :: b) = Some (r, n)).
        { rewrite decode_rune_before_nl by discriminate. exact E. }
        rewrite (decode_cons_step _ r n E').
        rewrite skipn_app. replace (N.to_nat n - length (a0 :: ar))%nat with 0%nat by lia.
        cbn [skipn]. rewrite IH; [reflexivity|]. rewrite skipn_length. cbn in *. lia.
      * exfalso. cbn in E. destruct (a0 <? 128); [discriminate|].
        destruct (lead_class a0) as [[[k0 lo] hi]|]; [|discriminate].
        destruct ar as [|b1 r1]; [discriminate|]. destruct (in_byte_range lo hi b1); [|discriminate].
        destruct (k0 =? 2); [discriminate|]. destruct r1 as [|b2 r2]; [discriminate|].
        destruct (is_cont b2); [|discriminate]. destruct (k0 =? 3); [discriminate|].
        destruct r2 as [|b3 r3]; [discriminate|]. destruct (is_cont b3); discriminate.
Qed.

Lemma count_nl_zero_no_nl l : count_nl l = 0%nat -> no_nl l.
Proof.
  induction l as [|c r IH]; cbn; [constructor|]. destruct (c =? 10) eqn:E; [discriminate|].
  intros H. constructor; [lia|]. apply IH. lia.
Qed.
Lemma no_nl_count l : no_nl l -> count_nl l = 0%nat.
Proof. induction 1 as [|c r Hc _ IH]; cbn; [reflexivity|]. replace (c =? 10) with false by lia. exact IH. Qed.

Lemma decode_no_nl a : no_nl a -> no_nl (utf8_decode a).
Proof.
  intros H. apply count_nl_zero_no_nl. unfold utf8_decode. rewrite decode_count_nl by lia.
  apply no_nl_count. exact H.
Qed.

(* split a text at its first newline *)
Lemma split_first_nl : forall l, no_nl l \/ exists a b, l = a ++ 10 :: b /\ no_nl a.
Proof.
  induction l as [|c r IH]; [left; constructor|].
  destruct (c =? 10) eqn:E.
  - right. exists [], r. apply N.eqb_eq in E. subst c. split; [reflexivity|constructor].
  - destruct IH as [H|(a & b & -> & Ha)].
    + left. constructor; [lia|exact H].
    + right. exists (c :: a), b. split; [reflexivity|constructor; [lia|exact Ha]].
Qed.

Theorem decode_split : forall k bs, (length bs <= k)%nat ->
  split_on 10 (utf8_decode bs) = map utf8_decode (split_on 10 bs).
Proof.
  induction k as [|k IH]; intros bs Hk.
  - destruct bs; [reflexivity|cbn in Hk; lia].
  - destruct (split_first_nl bs) as [H|(a & b & -> & Ha)].
    + rewrite (split_on_no_nl_id bs H), (split_on_no_nl_id _ (decode_no_nl bs H)). reflexivity.
    + rewrite (decode_app_nl (length a) a b (le_n _)).
      rewrite (split_on_app_nl a b Ha), (split_on_app_nl _ _ (decode_no_nl a Ha)).
      cbn [map]. f_equal. apply IH. rewrite app_length in Hk. cbn in Hk. lia.
Qed.

Theorem decode_lines bs : split_on 10 (utf8_decode bs) = map utf8_decode (split_on 10 bs).
Proof. apply (decode_split (length bs)). lia. Qed.

(* J5sCommentsProofs.v — the source-location model (model/J5sComments.v) on the declaration the
   real compiler was probed with: every location (descriptor path, leading comment), in the
   order the compiler writes them.  (The general statement is the correspondence: on every
   compiled case of every run the model's list equals the real SourceCodeInfo.) *)
From Coq Require Import String List NArith Bool.
From J5V.lib Require Import Strcase.
From J5V.model Require Import J5sAst Desc J5sWalk J5sComments.
Import ListNotations.
Local Open Scope N_scope.

Definition sf (n : string) : property := Property (b n) false false (FScalar SString).

(* object Foo { | Foo is lorem ipsum
     field fooId key:id62 { | The primary key ; required = true }
     field name string | Name of it
     field plain string
     field inner object { | inner desc (field)
        field x string | x desc
        field kind enum { | kind field desc ; option A | option a ; option B } }
     field tags map:string | the tags
     object Sub { | Sub desc ; field q string } }
   enum Status { | Status desc ; option UNSPECIFIED | Initial ; option ACTIVE ; option INACTIVE | not active }
   enum Plain { option ONE }
   oneof Choice { | choice desc ; option a string | opt a ; option b object { field z string } } *)
Definition probe_file : jfile :=
  mkJfile [b "foo"; b "v1"] (b "a") []
    [EObject (b "Foo")
       (mkprops [Property (b "fooId") true false (FScalar (SKey KId62)); sf "name"; sf "plain";
                 Property (b "inner") false false
                   (FObjInline [] (mkprops [sf "x"; Property (b "kind") false false (FEnumInline (mkEnum [] [] [b "A"; b "B"]))]));
                 Property (b "tags") false false (FMap (FScalar SString))])
       (mknesteds [NObject (b "Sub") (mkprops [sf "q"]) NNil]);
     EEnum (mkEnum (b "Status") [] [b "UNSPECIFIED"; b "ACTIVE"; b "INACTIVE"]);
     EEnum (mkEnum (b "Plain") [] [b "ONE"]);
     EOneof (b "Choice") (mkprops [sf "a"; Property (b "b") false false (FObjInline [] (mkprops [sf "z"]))]) NNil].

Definition probe_table : dtable :=
  [([b "Foo"], b "Foo is lorem ipsum"); ([b "Foo"; b "fooId"], b "The primary key"); ([b "Foo"; b "name"], b "Name of it");
   ([b "Foo"; b "inner"], b "inner desc (field)"); ([b "Foo"; b "Inner"; b "x"], b "x desc");
   ([b "Foo"; b "Inner"; b "kind"], b "kind field desc"); ([b "Foo"; b "Inner"; b "Kind"; b "A"], b "option a");
   ([b "Foo"; b "tags"], b "the tags"); ([b "Foo"; b "Sub"], b "Sub desc");
   ([b "Status"], b "Status desc"); ([b "Status"; b "UNSPECIFIED"], b "Initial"); ([b "Status"; b "INACTIVE"], b "not active");
   ([b "Choice"], b "choice desc"); ([b "Choice"; b "a"], b "opt a")].

(* what the real compiler wrote (harness probe, /repo HEAD d286176) *)
Definition nl (s : string) : str := b s ++ [10].
Definition probe_real : list (list N * str) :=
  [([4;0], nl " Foo is lorem ipsum"); ([4;0;2;0], nl " The primary key"); ([4;0;2;1], nl " Name of it"); ([4;0;2;2], []);
   ([4;0;3;0], []); ([4;0;3;0;2;0], nl " x desc"); ([4;0;3;0;4;0;2;1], nl " option a"); ([4;0;3;0;2;1], nl " kind field desc");
   ([4;0;2;3], nl " inner desc (field)"); ([4;0;2;4], nl " the tags"); ([4;0;3;2], nl " Sub desc"); ([4;0;3;2;2;0], []);
   ([5;0], nl " Status desc"); ([5;0;2;0], nl " Initial"); ([5;0;2;2], nl " not active");
   ([4;1], nl " choice desc"); ([4;1;2;0], nl " opt a"); ([4;1;3;0], []); ([4;1;3;0;2;0], []); ([4;1;2;1], [])].

Theorem probe_locations : locs_eqb (main_locs to_camel to_screaming_snake probe_table probe_file) probe_real = true.
Proof. vm_compute. reflexivity. Qed.

(* every location the model writes carries the declared name path it belongs to; for the
   probe: the path of each one and the name it stands for *)
Theorem probe_location_names :
  map (fun x => (lc_path x, lc_name x)) (main_locs to_camel to_screaming_snake probe_table probe_file) =
  [([4;0], [b "Foo"]); ([4;0;2;0], [b "Foo"; b "fooId"]); ([4;0;2;1], [b "Foo"; b "name"]); ([4;0;2;2], [b "Foo"; b "plain"]);
   ([4;0;3;0], [b "Foo"; b "Inner"]); ([4;0;3;0;2;0], [b "Foo"; b "Inner"; b "x"]);
   ([4;0;3;0;4;0;2;1], [b "Foo"; b "Inner"; b "Kind"; b "A"]); ([4;0;3;0;2;1], [b "Foo"; b "Inner"; b "kind"]);
   ([4;0;2;3], [b "Foo"; b "inner"]); ([4;0;2;4], [b "Foo"; b "tags"]); ([4;0;3;2], [b "Foo"; b "Sub"]);
   ([4;0;3;2;2;0], [b "Foo"; b "Sub"; b "q"]);
   ([5;0], [b "Status"]); ([5;0;2;0], [b "Status"; b "UNSPECIFIED"]); ([5;0;2;2], [b "Status"; b "INACTIVE"]);
   ([4;1], [b "Choice"]); ([4;1;2;0], [b "Choice"; b "a"]); ([4;1;3;0], [b "Choice"; b "B"]);
   ([4;1;3;0;2;0], [b "Choice"; b "B"; b "z"]); ([4;1;2;1], [b "Choice"; b "b"])].
Proof. vm_compute. reflexivity. Qed.

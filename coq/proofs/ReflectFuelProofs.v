(* ReflectFuelProofs.v — two results about the reader from ANY schema-set state, by one induction
   parametrised over a proposition [PanicOk] ("a Panic outcome is acceptable"):
   * PanicOk := True, no hypothesis at all: "never recurses forever" for EVERY descriptor set: the
     reader never exhausts the fuel [length (d_msgs D) + 1];
   * PanicOk := False, hypothesis: every enum has a value (what protodesc.NewFiles guarantees of a
     linked set; the only reader panic site left since the guard in buildEnumFieldSchema is
     buildEnum's sourceValues.Get(0)): the reader neither panics nor runs out of fuel, for every
     descriptor set whatever its names, and SchemaCache.Schema from any cache state.
   Same measure as in ReflectProofs: the messages whose key has no entry in the set; every nested
   build registers a new key first. *)
From Coq Require Import String List Arith NArith ZArith Bool Lia.
From J5V.lib Require Import Outcome.
From J5V.model Require Import ReflectDesc ReflectSchema Reflect ReflectSpec.
From J5V.proofs Require Import ReflectProofs.
Import ListNotations.
Local Open Scope bool_scope.

Section Fuel.
Variable D : desc.
Variable PanicOk : Prop.
Hypothesis Hne : forall e, In e (d_enums D) -> enum_nonempty e \/ PanicOk.

(* success never removes a key; the fuel is never exhausted; a panic only when acceptable *)
Definition Pw {X} (pr : X -> sset) (st : sset) (o : outcome X) : Prop :=
  match o with
  | Ok x => ext st (pr x)
  | OutOfFuel => False
  | Panic _ => PanicOk
  | Err _ => True
  end.

Lemma build_enum_w e : In e (d_enums D) ->
  match build_enum e with Ok _ | Err _ => True | Panic _ => PanicOk | OutOfFuel => False end.
Proof.
  intros He. destruct e as [a b c values eo d]. cbn [build_enum].
  destruct values as [|[first num info dv] rest].
  - (* an enum without values: only when panics are acceptable *)
    destruct (Hne _ He) as [Hn|Hp]; [|exact Hp]. exfalso. cbn in Hn. congruence.
  - destruct (negb (has_suffix s_UNSPECIFIED first)); exact I.
Qed.

Lemma Pw_bind {X Y} (prx : X -> sset) (pry : Y -> sset) st (o : outcome X) (g : X -> outcome Y) :
  Pw prx st o -> (forall x, ext st (prx x) -> Pw pry (prx x) (g x)) -> Pw pry st (obind o g).
Proof.
  intros Ho Hg. destruct o as [x| | |]; cbn in *; auto.
  specialize (Hg x Ho). destruct (g x) as [y| | |]; cbn in *; auto. eapply ext_trans; eauto.
Qed.

Lemma enum_ref_w st e : In e (d_enums D) -> Pw (fun s : sset => s) st (enum_ref st e).
Proof.
  intros He. unfold enum_ref.
  destruct (lookup st (enum_key e)) as [[|[| |a b c d g]]|]; try exact I; [apply ext_refl|].
  pose proof (build_enum_w e He) as Hb.
  destruct (build_enum e) as [r| | |]; cbn [obind Pw]; try exact Hb. apply ext_cons.
Qed.

(* after enum_ref the entry is a linked enum schema: the type assertion cannot fail *)
Lemma enum_ref_linked st e st1 :
  enum_ref st e = Ok st1 -> exists a b c d g, lookup st1 (enum_key e) = Some (Linked (REnum a b c d g)).
Proof.
  unfold enum_ref. destruct (lookup st (enum_key e)) as [[|[| |a b c d g]]|] eqn:El; try discriminate.
  - intros H; inversion H; subst. rewrite El. eauto 10.
  - destruct e as [a b c values eo d]. cbn [build_enum].
    destruct values as [|[first num info dv] rest]; [discriminate|].
    destruct (negb (has_suffix s_UNSPECIFIED first)); [discriminate|]. cbn [obind].
    intros H; inversion H; subst. rewrite lookup_cons, ref_eqb_refl. eauto 10.
Qed.

Lemma build_enum_field_w st f x : Pw fst st (build_enum_field D st f x).
Proof.
  unfold build_enum_field.
  destruct (f_ty f) as [|full|full]; try exact I.
  destruct (find_enum D full) as [e|] eqn:Ef; [|exact I].
  assert (He : In e (d_enums D)) by (eapply find_enum_In; eauto).
  pose proof (enum_ref_w st e He) as H1.
  destruct (enum_ref st e) as [st1| | |] eqn:Er; cbn [obind Pw] in *; try exact H1.
  destruct (enum_ref_linked st e st1 Er) as (a & b & c & d & g & Hl). rewrite Hl.
  destruct (x_vty x); cbn [obind Pw fst]; try exact H1.
  match goal with |- context [lift ?r] => destruct r as [v|cls] end; cbn [lift obind Pw fst]; [exact H1|exact I].
Qed.

Section LevelW.
Variable n : nat.
Variable rec : sset -> msgd -> outcome (sset * root).
Hypothesis Hrec : forall st m, In m (d_msgs D) -> unvisited D st < n -> Pw fst st (rec st m).

Lemma build_message_field_w st f x : unvisited D st <= n -> Pw fst st (build_message_field D rec st f x).
Proof.
  intros HU. unfold build_message_field.
  destruct (f_ty f) as [|full|full]; try exact I.
  destruct (wkt_schema full x) as [[s|]|cls]; cbn [lift obind]; try exact I; [apply ext_refl|].
  destruct (has_prefix s_google_protobuf full); [exact I|].
  destruct (find_msg D full) as [m|] eqn:Ef; [|exact I].
  assert (Hm : In m (d_msgs D)) by (eapply find_msg_In; eauto).
  destruct (lookup st (msg_key m)) as [en|] eqn:El; [destruct (is_enum_entry en); cbn [obind]; [exact I|apply ext_refl]|cbn [obind]].
  assert (Hk : has_key st (msg_key m) = false) by (unfold has_key; rewrite El; reflexivity).
  assert (HU' : unvisited D ((msg_key m, Placeholder) :: st) < n)
    by (pose proof (unvisited_cons D st m Placeholder Hm Hk); lia).
  pose proof (Hrec _ m Hm HU') as Hr.
  destruct (rec ((msg_key m, Placeholder) :: st) m) as [[st1 r]| | |]; cbn [obind Pw fst] in *; try exact I; try contradiction; try assumption.
  eapply ext_trans; [apply ext_cons|]. eapply ext_trans; [exact Hr|apply ext_update].
Qed.

Lemma build_schema_w st f x : unvisited D st <= n -> Pw fst st (build_schema D rec st f x).
Proof.
  intros HU. unfold build_schema.
  destruct (f_kind f);
    try (destruct (build_scalar _ x) as [p|cls]; cbn [lift obind Pw fst]; [apply ext_refl|exact I]).
  - apply build_enum_field_w.
  - apply build_message_field_w; assumption.
Qed.

Lemma build_field_prop_w st f : unvisited D st <= n -> Pw fst st (build_field_prop D rec st f).
Proof.
  intros HU. unfold build_field_prop.
  assert (Hk : forall x (mk : fschema -> prop),
             Pw fst st (obind (build_schema D rec st f x) (fun '(st1, s) => Ok (st1, mk s)))).
  { intros x mk. eapply (Pw_bind fst fst); [apply build_schema_w; assumption|].
    intros [st1 s] He. cbn. apply ext_refl. }
  destruct (f_card f) as [| | |kk]; try apply Hk.
  - destruct (x_vty (field_exts f)); cbn; apply Hk.
  - destruct (negb (kind_eqb kk KString)); [exact I|]. destruct (x_vty (field_exts f)); cbn; apply Hk.
Qed.

Lemma fields_loop_w m fs : forall st exs, unvisited D st <= n -> Pw pr3 st (fields_loop D rec m st exs fs).
Proof.
  induction fs as [|f r IH]; intros st exs HU; cbn [fields_loop]; [apply ext_refl|].
  eapply (Pw_bind fst pr3); [apply build_field_prop_w; assumption|].
  intros [st1 p] He1. cbn [fst] in He1.
  assert (HU1 : unvisited D st1 <= n) by (pose proof (unvisited_ext D _ _ He1); lia).
  assert (Hd : forall exs' (q : list prop -> list prop),
             Pw (@pr3 (list exposed) (list prop)) st1 (obind (fields_loop D rec m st1 exs' r)
                                (fun '(st2, exs2, ps) => Ok (st2, exs2, q ps)))).
  { intros exs' q. pose proof (IH st1 exs' HU1) as H.
    destruct (fields_loop D rec m st1 exs' r) as [[[st2 exs2] ps]| | |]; cbn in *; exact H. }
  cbn [fst].
  destruct (f_card f); try apply (Hd exs (cons p));
    (destruct (f_oneof f) as [idx|]; [|apply (Hd exs (cons p))];
     destruct (oneof_is_synthetic m idx); [apply (Hd exs (cons p))|];
     destruct (add_to_exposed exs idx p) as [[exs1 pending]|]; [|apply (Hd exs (cons p))];
     apply (Hd exs1 (fun ps => match pending with Some pp => pp :: ps | None => ps end))).
Qed.

Lemma register_oneofs_w m : forall os idx st,
  match register_oneofs m st idx os with ROk (st1, _) => ext st st1 | RErr _ => True end.
Proof.
  induction os as [|[name jname syn ext0 d] r IH]; intros idx st; cbn [register_oneofs]; [apply ext_refl|].
  destruct syn; [apply IH|]. destruct ext0 as [[|]|]; try apply IH.
  destruct (lookup st (oneof_key m name)); [exact I|].
  pose proof (IH (N.succ idx) ((oneof_key m name, Linked (ROneof (snd (oneof_key m name)) d [])) :: st)) as H.
  destruct (register_oneofs m _ (N.succ idx) r) as [[st2 exs]|]; cbn [rbind]; [|exact I].
  eapply ext_trans; [apply ext_cons|exact H].
Qed.

Lemma finish_oneofs_w : forall exs st, ext st (finish_oneofs st exs).
Proof.
  unfold finish_oneofs. induction exs as [|e r IH]; intros st; cbn [fold_left]; [apply ext_refl|].
  destruct (lookup st (ex_key e)) as [[|[| nm dd ps|]]|]; try apply IH.
  eapply ext_trans; [apply ext_update|apply IH].
Qed.

Lemma build_root_w st m : unvisited D st <= n -> Pw fst st (build_root D rec st m).
Proof.
  intros HU. unfold build_root, message_properties.
  pose proof (register_oneofs_w m (m_oneofs m) 0%N st) as Hreg.
  destruct (register_oneofs m st 0 (m_oneofs m)) as [[st1 exs]|cls]; cbn [lift obind]; [|exact I].
  assert (HU1 : unvisited D st1 <= n) by (pose proof (unvisited_ext D _ _ Hreg); lia).
  pose proof (fields_loop_w m (m_fields m) st1 exs HU1) as Hf.
  destruct (fields_loop D rec m st1 exs (m_fields m)) as [[[st2 exs2] ps]| | |]; cbn [obind Pw pr3 fst snd] in *; try exact I; try contradiction; try assumption.
  destruct (existsb ex_pending exs2); cbn [obind]; [exact I|]. destruct (negb (exs_names_ok exs2)); cbn [obind]; [exact I|].
  assert (He : ext st (finish_oneofs st2 exs2))
    by (eapply ext_trans; [exact Hreg|]; eapply ext_trans; [exact Hf|apply finish_oneofs_w]).
  destruct (negb (props_valid ps)); [exact I|].
  destruct (is_oneof_wrapper m); [exact He|].
  pose proof (flatten_cycle_fuel (finish_oneofs st2 exs2) (msg_key m) ps) as Hfc.
  destruct (flatten_cycle (finish_oneofs st2 exs2) (msg_key m) ps) as [[|]|]; [exact I| |contradiction].
  destruct (find_psm D m); cbn [lift obind Pw fst]; [exact He|exact I].
Qed.
End LevelW.

Lemma build_msg_w : forall fuel st m, In m (d_msgs D) -> unvisited D st < fuel -> Pw fst st (build_msg D fuel st m).
Proof.
  induction fuel as [|fuel IH]; intros st m Hm HU; [lia|].
  cbn [build_msg]. apply build_root_w with (n := fuel); [exact IH|lia].
Qed.

Lemma message_schema_w fuel st m :
  In m (d_msgs D) -> unvisited D st < fuel -> Pw fst st (message_schema D fuel st m).
Proof.
  intros Hm HU. unfold message_schema.
  destruct (lookup st (msg_key m)) as [[|r]|] eqn:El; [exact I|apply ext_refl|].
  assert (Hk : has_key st (msg_key m) = false) by (unfold has_key; rewrite El; reflexivity).
  assert (HU' : unvisited D ((msg_key m, Placeholder) :: st) < fuel)
    by (pose proof (unvisited_cons D st m Placeholder Hm Hk); lia).
  pose proof (build_msg_w fuel _ m Hm HU') as Hr.
  destruct (build_msg D fuel ((msg_key m, Placeholder) :: st) m) as [[st1 r]| | |]; cbn [obind Pw fst] in *; try exact I; try contradiction; try assumption.
  eapply ext_trans; [apply ext_cons|]. eapply ext_trans; [exact Hr|apply ext_update].
Qed.

Definition Pc {X} (o : outcome X) : Prop :=
  match o with Ok _ | Err _ => True | Panic _ => PanicOk | OutOfFuel => False end.

Lemma messages_loop_w fuel : length (d_msgs D) < fuel -> forall ms st, Pc (messages_loop D fuel st ms).
Proof.
  intros Hf. induction ms as [|full r IH]; intros st; cbn [messages_loop]; [exact I|].
  destruct (find_msg D full) as [m|] eqn:Ef; [|exact I].
  assert (Hm : In m (d_msgs D)) by (eapply find_msg_In; eauto).
  assert (HU : unvisited D st < fuel) by (pose proof (unvisited_le_msgs D st); lia).
  pose proof (message_schema_w fuel st m Hm HU) as H.
  destruct (message_schema D fuel st m) as [[st1 r1]| | |]; cbn [obind Pc Pw] in *; try exact H. apply IH.
Qed.

Lemma enums_loop_w : forall es st, Pc (enums_loop D st es).
Proof.
  induction es as [|full r IH]; intros st; cbn [enums_loop]; [exact I|].
  destruct (find_enum D full) as [e|] eqn:Ef; [|exact I].
  assert (He : In e (d_enums D)) by (eapply find_enum_In; eauto).
  destruct (lookup st (enum_key e)); [apply IH|].
  pose proof (build_enum_w e He) as Hb.
  destruct (build_enum e) as [root| | |]; cbn [obind Pc]; try exact Hb. apply IH.
Qed.

Lemma reflect_w fs : Pc (reflect D fs).
Proof.
  unfold reflect, reflect_files. destruct (collect fs) as [ms es].
  assert (Hsz : length (d_msgs D) < size D) by (unfold size; lia).
  pose proof (messages_loop_w (size D) Hsz ms []) as H.
  destruct (messages_loop D (size D) [] ms) as [st| | |]; cbn [obind Pc] in *; try exact H. apply enums_loop_w.
Qed.

Lemma cache_schema_w st m :
  In m (d_msgs D) -> ext st (fst (cache_schema D (size D) st m)) /\ Pc (snd (cache_schema D (size D) st m)).
Proof.
  intros Hm. unfold cache_schema.
  assert (HU : unvisited D st < size D) by (pose proof (unvisited_le_msgs D st); unfold size; lia).
  pose proof (message_schema_w (size D) st m Hm HU) as H.
  destruct (message_schema D (size D) st m) as [[st1 r]| | |]; cbn [fst snd Pc Pw] in *;
    (split; [try apply ext_refl|try exact I]); exact H.
Qed.
End Fuel.

(* ---------------------------------------------------------------- the two instances *)
(* for every descriptor set, no hypothesis: the reader never runs out of fuel *)
Theorem reflect_never_out_of_fuel D fs : reflect D fs <> OutOfFuel.
Proof.
  pose proof (reflect_w D True (fun e _ => or_intror I) fs) as H.
  destruct (reflect D fs); cbn in H; try discriminate. contradiction.
Qed.

Theorem cache_schema_never_out_of_fuel D st m :
  In m (d_msgs D) -> snd (cache_schema D (size D) st m) <> OutOfFuel.
Proof.
  intros Hm. destruct (cache_schema_w D True (fun e _ => or_intror I) st m Hm) as [_ H].
  destruct (snd (cache_schema D (size D) st m)); cbn in H; try discriminate. contradiction.
Qed.

(* what protodesc.NewFiles guarantees of every linked set: an enum has at least one value *)
Definition enums_nonempty (D : desc) : Prop := forall e, In e (d_enums D) -> enum_nonempty e.

(* for every descriptor set whose enums have a value (no condition on names): no panic, no fuel exhaustion *)
Theorem reflect_total_any_names D : enums_nonempty D -> forall fs,
  (forall s, reflect D fs <> Panic s) /\ reflect D fs <> OutOfFuel.
Proof.
  intros Hne fs. pose proof (reflect_w D False (fun e He => or_introl (Hne e He)) fs) as H.
  destruct (reflect D fs); cbn in H; try contradiction; split; try discriminate; intros; discriminate.
Qed.

(* SchemaCache.Schema from ANY cache state (whatever earlier calls, failed or not, left behind) *)
Theorem cache_schema_total_any_state D : enums_nonempty D -> forall st m, In m (d_msgs D) ->
  ext st (fst (cache_schema D (size D) st m)) /\
  (forall s, snd (cache_schema D (size D) st m) <> Panic s) /\ snd (cache_schema D (size D) st m) <> OutOfFuel.
Proof.
  intros Hne st m Hm.
  destruct (cache_schema_w D False (fun e He => or_introl (Hne e He)) st m Hm) as [He H].
  split; [exact He|].
  destruct (snd (cache_schema D (size D) st m)); cbn in H; try contradiction; split; try discriminate; intros; discriminate.
Qed.

(* the hypothesis cannot be dropped: an enum without values makes buildEnum panic (in the model;
   protodesc.NewFiles rejects such a file, so no linked set has one) *)

(* RulesInlineEnumProofs.v — a field with an inline enum reads back as declared: the field
   (over the environment the inline declaration denotes) and the nested enum as the root
   schema <Outer>_<Name>. Corollary of the property theorem and the enum theorem; what is
   new is that the fragment of the enum implies the standard-zero condition of the field
   theorem for the derived environment. *)
From Coq Require Import String List NArith ZArith Bool Lia.
From J5V.lib Require Import Outcome Strcase.
From J5V.model Require Import RulesDecl RulesWrite RulesRead RulesEnum RulesNested RulesInlineEnum.
From J5V.proofs Require Import RulesProofs RulesReadProofs.
Import ListNotations.

Lemma unspec_ok_zero_std e : unspec_ok e = true -> zero_std (env_of_decl e) = true.
Proof.
  intros _. unfold env_of_decl, zero_std. destruct (ed_options e) as [|[[n d] inf] r]; [reflexivity|].
  destruct (is_zero_opt (ed_prefix e) n) eqn:Ez; [|reflexivity]. cbn [ee_zero ee_prefix]. exact Ez.
Qed.

Theorem c04_inline_enum here idx d i c :
  inline_enum_rt d i = true -> write_inline_enum idx d i = Ok c ->
  read_inline_enum (env_of_decl (ie_decl (p_name d) i)) here c = Ok (norm_inline_enum here idx d i).
Proof.
  unfold inline_enum_rt, write_inline_enum, read_inline_enum, norm_inline_enum.
  intros Hrt Hw. apply andb_true_iff in Hrt as [Hd He].
  apply obind_ok in Hw as [o [Ho Hw]]. inversion Hw; subst c; clear Hw. cbn [fst snd].
  assert (Hstd : zero_std (env_of_decl (ie_decl (p_name d) i)) = true).
  { apply unspec_ok_zero_std. unfold enum_rt in He. apply andb_true_iff in He as [He _]. apply andb_true_iff in He as [He _]. exact He. }
  rewrite (c04_prop _ idx d o Hstd Hd Ho). cbn [obind].
  rewrite (c04_enum _ He). reflexivity.
Qed.

(* BclFmtFileProofs.v — C09 at file level, lexer half: lexing the whole text the formatter prints
   gives the canonical token stream of its fragments (BclWalkBackProofs.stream), line by line:
   single-line fragments by BclFmtLineProofs.fragment_line_relex, description blocks here. *)
From Coq Require Import String List NArith ZArith Bool Lia ZifyN ZifyNat ZifyBool.
From J5V.lib Require Import Text Outcome.
From J5V.model Require Import BclLexer BclParser BclFmt.
From J5V.proofs Require Import BclPosProofs BclLexerProofs BclParserProofs BclFmtLitProofs BclLexLitProofs
                               BclFmtSeqProofs BclFragWfProofs BclFmtLineProofs BclWalkBackProofs BclReflowProofs
                               BclTextProofs.
Import ListNotations.
Local Open Scope N_scope.
Arguments Nat.sub : simpl never.

(* ---- the lines of a re-flowed description ---------------------------------------------------- *)
(* a line the re-flow emits: words joined by single spaces (no words: the empty line) *)
Definition dline_ok (l : list N) : Prop := exists ws, Forall word_ok ws /\ l = join_with 32 ws.

Lemma reformat_lines_ok input maxw : Forall dline_ok (reformat_description input maxw).
Proof.
  rewrite (reformat_is_G maxw input). set (L := map fields (split_on 10 input)).
  assert (HW : Forall (Forall word_ok) (G maxw L)).
  { apply G_ok. apply Forall_forall. intros l Hl. apply in_map_iff in Hl. destruct Hl as (x & <- & _). apply fields_ok. }
  apply Forall_forall. intros l Hl. apply in_map_iff in Hl. destruct Hl as (ws & <- & Hin).
  exists ws. split; [|reflexivity]. apply (proj1 (Forall_forall _ _) HW). exact Hin.
Qed.

Lemma jn_last : forall ws, ws <> [] -> Forall word_ok ws ->
  exists a c, join_with 32 ws = a ++ [c] /\ is_space c = false.
Proof.
  induction ws as [|w r IH]; intros Hne H; [congruence|].
  inversion H as [|x l [Hw Hns] Hr]; subst. destruct r as [|w2 r2].
  - cbn [join_with]. destruct (exists_last Hw) as (a & c & ->). exists a, c. split; [reflexivity|].
    apply Forall_app in Hns. destruct Hns as [_ Hc]. inversion Hc; assumption.
  - destruct (IH ltac:(discriminate) Hr) as (a & c & E & Hc). exists (w ++ 32 :: a), c.
    change (join_with 32 (w :: w2 :: r2)) with (w ++ 32 :: join_with 32 (w2 :: r2)). rewrite E.
    split; [|exact Hc]. rewrite <- app_assoc. reflexivity.
Qed.

Lemma jn_first ws : ws <> [] -> Forall word_ok ws ->
  exists c r, join_with 32 ws = c :: r /\ is_space c = false.
Proof.
  intros Hne H. destruct ws as [|w r]; [congruence|]. inversion H as [|x l [Hw Hns] Hr]; subst.
  destruct w as [|c w']; [congruence|]. inversion Hns; subst.
  destruct r; cbn [join_with app]; eauto.
Qed.

Lemma trim_right_keep (p : N -> bool) a c : p c = false -> trim_right p (a ++ [c]) = a ++ [c].
Proof.
  intros H. unfold trim_right. rewrite rev_app_distr. cbn [rev app drop_while]. rewrite H.
  change (c :: rev a) with ([c] ++ rev a). rewrite rev_app_distr, rev_involutive. reflexivity.
Qed.

Lemma trim_right_drop (p : N -> bool) a c : p c = true -> trim_right p (a ++ [c]) = trim_right p a.
Proof. intros H. unfold trim_right. rewrite rev_app_distr. cbn [rev app drop_while]. rewrite H. reflexivity. Qed.

Lemma is_space_false_32 c : is_space c = false -> N.eqb 32 c = false.
Proof. intros H. destruct (N.eqb_spec 32 c) as [<-|]; [|reflexivity]. rewrite is_space_32 in H. discriminate. Qed.

(* what multiLineToken prints for one line *)
Definition dline_text (n : nat) (l : list N) : list N := trim_right (N.eqb 32) ((tabs n ++ [124; 32]) ++ l).

Lemma dline_text_cases n l : dline_ok l ->
  (l = [] /\ dline_text n l = tabs n ++ [124]) \/
  (l <> [] /\ dline_text n l = tabs n ++ 124 :: 32 :: l /\ no_nl l /\
   match l with [] => True | c :: _ => is_space c = false end).
Proof.
  intros (ws & Hws & ->). destruct ws as [|w r].
  - left. split; [reflexivity|]. unfold dline_text. cbn [join_with]. rewrite app_nil_r.
    replace (tabs n ++ [124; 32]) with ((tabs n ++ [124]) ++ [32]) by (rewrite <- app_assoc; reflexivity).
    rewrite trim_right_drop by reflexivity. apply trim_right_keep. reflexivity.
  - right. destruct (jn_last (w :: r) ltac:(discriminate) Hws) as (a & c & E & Hc).
    destruct (jn_first (w :: r) ltac:(discriminate) Hws) as (c0 & r0 & E0 & Hc0).
    split; [rewrite E0; discriminate|]. split.
    + unfold dline_text. rewrite E. rewrite app_assoc. rewrite trim_right_keep by (apply is_space_false_32; exact Hc).
      rewrite <- !app_assoc. reflexivity.
    + split; [apply jn_no_nl; exact Hws|]. rewrite E0. exact Hc0.
Qed.

(* one description line, then the newline *)
Lemma dline_relex n l REST s : dline_ok l ->
  rest s = dline_text n l ++ 10 :: REST ->
  exists s', lex_run s [(DESCRIPTION, l); eol_tok] s' /\ rest s' = REST.
Proof.
  intros Hl Hr.
  assert (Hbody : forall s0, rest s0 = (match l with [] => [124] | _ => 124 :: 32 :: l end) ++ 10 :: REST ->
            exists s', lex_run s0 [(DESCRIPTION, l); eol_tok] s' /\ rest s' = REST).
  { intros s0 H0.
    assert (Hd : lexes_to s0 DESCRIPTION l (10 :: REST)).
    { destruct (dline_text_cases n l Hl) as [[-> _]|(Hne & _ & Hnl & Hhd)].
      - (* bare | *)
        cbn [app] in H0. unfold lexes_to, next_token. cbn [next_token_fuel].
        destruct (next_cons s0 _ _ H0) as [Hc Ht]. rewrite Hc. rewrite (op_of_none 124) by auto.
        replace (N.eqb 124 47) with false by reflexivity. replace (N.eqb 124 34) with false by reflexivity.
        replace (N.eqb 124 124) with true by reflexivity.
        unfold lex_description_line. rewrite Ht. cbn [length skip_whitespace]. unfold peek. rewrite Ht. cbn [hd_error].
        replace (is_space 10 && negb (N.eqb 10 10))%bool with false by (rewrite is_space_10; reflexivity).
        destruct (take_line_inverse [] (S (length (rest (next s0)))) (next s0) [] (10 :: REST)) as (s' & E & Hs');
          [constructor|right; reflexivity|exact Ht|lia|].
        rewrite E. cbn. eauto.
      - apply relex_description; [exact Hnl|right; reflexivity|exact Hhd|].
        destruct l as [|c r]; [congruence|]. exact H0. }
    destruct Hd as (st & en & s1 & E1 & Hs1).
    destruct (relex_eol REST s1 Hs1) as (st2 & en2 & s2 & E2 & Hs2).
    exists s2. split; [|exact Hs2].
    change (DESCRIPTION, l) with (etok (mkTok DESCRIPTION l st en)). econstructor; [exact E1|].
    change eol_tok with (etok (mkTok EOL [10] st2 en2)). econstructor; [exact E2|constructor]. }
  assert (Htext : dline_text n l = tabs n ++ (match l with [] => [124] | _ => 124 :: 32 :: l end)).
  { destruct (dline_text_cases n l Hl) as [[-> E]|(Hne & E & _)]; [exact E|]. destruct l; [congruence|exact E]. }
  rewrite Htext, <- app_assoc in Hr.
  clear Htext. revert s Hr. induction n as [|n IH]; intros s Hr; [apply Hbody; exact Hr|].
  cbn [tabs repeat app] in Hr. destruct (next_cons s _ _ Hr) as [_ Hn].
  destruct (IH (next s) Hn) as (s' & Hrun' & Hs'). exists s'. split; [|exact Hs'].
  eapply (lex_run_skip s 9); [exact Hr|vm_compute; reflexivity|lia|discriminate|exact Hrun'].
Qed.

(* a description block *)
Lemma desc_ptoks_lines_cons l r : r <> [] ->
  desc_ptoks_lines (l :: r) = (DESCRIPTION, l) :: eol_tok :: desc_ptoks_lines r.
Proof. destruct r; [congruence|reflexivity]. Qed.

Lemma desc_block_relex n : forall ls REST s, ls <> [] -> Forall dline_ok ls ->
  rest s = join_with 10 (map (dline_text n) ls) ++ 10 :: REST ->
  exists s', lex_run s (desc_ptoks_lines ls ++ [eol_tok]) s' /\ rest s' = REST.
Proof.
  induction ls as [|l r IH]; intros REST s Hne Hok Hr; [congruence|].
  inversion Hok as [|x y Hl Hrr]; subst. destruct r as [|l2 r2].
  - cbn [map join_with] in Hr. cbn [desc_ptoks_lines app]. apply (dline_relex n l REST s Hl Hr).
  - change (join_with 10 (map (dline_text n) (l :: l2 :: r2))) with
      (dline_text n l ++ 10 :: join_with 10 (map (dline_text n) (l2 :: r2))) in Hr.
    rewrite <- app_assoc in Hr. cbn [app] in Hr.
    destruct (dline_relex n l _ s Hl Hr) as (s1 & Hrun1 & Hs1).
    destruct (IH REST s1 ltac:(discriminate) Hrr Hs1) as (s2 & Hrun2 & Hs2).
    exists s2. split; [|exact Hs2]. rewrite desc_ptoks_lines_cons by discriminate.
    change ((DESCRIPTION, l) :: eol_tok :: desc_ptoks_lines (l2 :: r2)) with
      ([(DESCRIPTION, l); eol_tok] ++ desc_ptoks_lines (l2 :: r2)).
    rewrite <- app_assoc. eapply lex_run_app; [exact Hrun1|exact Hrun2].
Qed.

(* ---- the whole file ------------------------------------------------------------------------------- *)
Definition desc_lines (n : nat) (d : descr) : list (list N) :=
  match reformat_description (dvalue d) (80 - Z.of_nat n * 4) with [] => [[]] | o => o end.

Lemma desc_lines_ok n d : desc_lines n d <> [] /\ Forall dline_ok (desc_lines n d).
Proof.
  unfold desc_lines. pose proof (reformat_lines_ok (dvalue d) (80 - Z.of_nat n * 4)) as H.
  destruct (reformat_description (dvalue d) (80 - Z.of_nat n * 4)) as [|l r].
  - split; [discriminate|]. constructor; [|constructor]. exists []. split; [constructor|reflexivity].
  - split; [discriminate|exact H].
Qed.

(* the fragments as stream entries, with the blank-line flag Fmt computes from the positions, following
   the indentation exactly as diffFile does *)
Fixpoint entries (fs : list fragment) (n : nat) (first : bool) (last_end : Z) : list (bool * entry) :=
  match fs with
  | [] => []
  | f :: r =>
    let blank (from : Z) := (negb first && Z.ltb last_end from)%bool in
    match f with
    | FHeader h => (blank (fst (hstart h)), EFrag f) :: entries r (if hopen h then S n else n) false (fst (hend h) + 1)
    | FClose t => (blank (fst (tstart t)), EFrag f) :: entries r (Nat.pred n) false (fst (tend t) + 1)
    | FAssign a => (blank (fst (astart a)), EFrag f) :: entries r n false (fst (aend a) + 1)
    | FDesc d => (blank (fst (dsstart d)), EDesc (desc_lines n d)) :: entries r n false (fst (dsend d) + 1)
    | FComment t => (blank (fst (tstart t)), EFrag f) :: entries r n false (fst (tend t) + 1)
    end
  end.

Lemma blank_step (b : bool) s X toks R : rest s = (if b then [10] else []) ++ X ->
  (forall s0, rest s0 = X -> exists s', lex_run s0 toks s' /\ rest s' = R) ->
  exists s', lex_run s ((if b then [eol_tok] else []) ++ toks) s' /\ rest s' = R.
Proof.
  intros Hr H. destruct b; [|apply H; exact Hr].
  destruct (relex_eol X s Hr) as (st & en & s1 & E & Hs1). destruct (H s1 Hs1) as (s' & Hrun & Hs').
  exists s'. split; [|exact Hs']. cbn [app]. change eol_tok with (etok (mkTok EOL [10] st en)).
  econstructor; [exact E|exact Hrun].
Qed.

Lemma single_line_step f n (b : bool) s REST ps pe :
  frag_lx f -> (forall d, f <> FDesc d) ->
  rest s = (if b then [10] else []) ++
           fd_text (single_line n ps pe (match f with FHeader h => hcomment h | FAssign a => acomment a | _ => None end)
                                (match f with FHeader h => header_text h | FAssign a => assign_text a
                                            | FComment t => token_source t | FClose t => token_source t | FDesc _ => [] end))
           ++ REST ->
  exists s', lex_run s ((if b then [eol_tok] else []) ++ entry_toks (EFrag f) ++ [eol_tok]) s' /\ rest s' = REST.
Proof.
  intros Hlx Hnd Hr. eapply blank_step; [exact Hr|]. intros s0 H0. cbn [entry_toks].
  apply (fragment_line_relex f n REST s0 Hlx Hnd). rewrite H0. unfold single_line. cbn [fd_text].
  rewrite <- !app_assoc. f_equal.
  destruct f as [h|a|d|t|t]; cbn [frag_line_text inline_comment]; rewrite <- ?app_assoc; reflexivity.
Qed.

Theorem fmt_join_lex : forall fs n first last s, Forall frag_lx fs ->
  rest s = fmt_join (diff_file fs n) first last ->
  exists s', lex_run s (stream (entries fs n first last)) s' /\ rest s' = [].
Proof.
  induction fs as [|f r IH]; intros n first last s Hlx Hr.
  - cbn in Hr. exists s. split; [constructor|exact Hr].
  - inversion Hlx as [|x y Hf Hrest]; subst.
    assert (Hcomb : forall (b : bool) toks n' last',
              (exists s1, lex_run s ((if b then [eol_tok] else []) ++ toks ++ [eol_tok]) s1 /\
                          rest s1 = fmt_join (diff_file r n') false last') ->
              exists s', lex_run s ((if b then [eol_tok] else []) ++ toks ++ eol_tok :: stream (entries r n' false last')) s' /\ rest s' = []).
    { intros b toks n' last' (s1 & Hrun1 & Hs1). destruct (IH n' false last' s1 Hrest Hs1) as (s' & Hrun2 & Hs').
      exists s'. split; [|exact Hs'].
      replace ((if b then [eol_tok] else []) ++ toks ++ eol_tok :: stream (entries r n' false last'))
        with (((if b then [eol_tok] else []) ++ toks ++ [eol_tok]) ++ stream (entries r n' false last'))
        by (rewrite <- !app_assoc; reflexivity).
      eapply lex_run_app; eassumption. }
    destruct f as [h|a|d|t|t]; cbn [diff_file fmt_join entries stream snd fst] in Hr |- *.
    + apply Hcomb. apply (single_line_step (FHeader h) n _ s _ (hstart h) (hend h) Hf); [discriminate|].
      exact Hr.
    + apply Hcomb. apply (single_line_step (FAssign a) n _ s _ (astart a) (aend a) Hf); [discriminate|].
      exact Hr.
    + apply Hcomb. cbn [entry_toks]. eapply blank_step.
      * cbn [description_diff multi_line fd_from fd_to fd_text] in Hr. rewrite <- app_assoc in Hr. exact Hr.
      * intros s0 H0. destruct (desc_lines_ok n d) as [Hne Hok].
        apply (desc_block_relex n (desc_lines n d) _ s0 Hne Hok). rewrite H0.
        unfold desc_lines, dline_text. destruct (reformat_description (dvalue d) (80 - Z.of_nat n * 4)); reflexivity.
    + apply Hcomb. apply (single_line_step (FComment t) n _ s _ (tstart t) (tend t) Hf); [discriminate|].
      exact Hr.
    + apply Hcomb. apply (single_line_step (FClose t) (Nat.pred n) _ s _ (tstart t) (tend t) Hf); [discriminate|].
      exact Hr.
Qed.

(* ---- from successive NextToken calls to AllTokens -------------------------------------------- *)
Lemma next_token_eof s : rest s = [] -> exists s', next_token s = (LEof, s').
Proof. intros H. unfold next_token. rewrite H. cbn. unfold next. rewrite H. cbn. eauto. Qed.

Lemma lex_run_all_tokens : forall s ptoks s', lex_run s ptoks s' -> rest s' = [] ->
  forall fuel ts ds, all_tokens_loop fuel true s = (ts, ds, false) -> ds = [] /\ map etok ts = ptoks.
Proof.
  induction 1 as [s|s t s1 ts0 s' E Hrun IH]; intros Hend fuel ts ds Hl.
  - destruct fuel as [|f]; [discriminate|]. cbn [all_tokens_loop] in Hl.
    destruct (next_token_eof s Hend) as (sx & Hx). rewrite Hx in Hl. injection Hl as <- <-. split; reflexivity.
  - destruct fuel as [|f]; [discriminate|]. cbn [all_tokens_loop] in Hl. rewrite E in Hl.
    destruct (all_tokens_loop f true s1) as [[ts1 ds1] b1] eqn:E1. injection Hl as <- <- ->.
    destruct (IH Hend f ts1 ds1 E1) as [-> <-]. split; reflexivity.
Qed.

Theorem lex_run_lexes data ptoks s' : lex_run (new_lexer data) ptoks s' -> rest s' = [] ->
  exists ts, all_tokens true data = LexOk ts /\ map etok ts = ptoks.
Proof.
  intros Hrun Hend. pose proof (all_tokens_ok true data) as Hok. unfold all_tokens in *.
  destruct (all_tokens_loop (S (S (length data))) true (new_lexer data)) as [[ts ds] b] eqn:E.
  destruct b; [contradiction|].
  destruct (lex_run_all_tokens _ _ _ Hrun Hend _ _ _ E) as [-> Hm]. exists ts. split; [reflexivity|exact Hm].
Qed.

(* the formatter's output lexes, without diagnostics, to the canonical stream of its fragments *)
Theorem fmt_output_tokens fs : Forall frag_lx fs ->
  exists ts, all_tokens true (fmt_join (diff_file fs 0) true (-1)) = LexOk ts /\
             map etok ts = stream (entries fs 0 true (-1)).
Proof.
  intros Hlx.
  destruct (fmt_join_lex fs 0 true (-1)%Z (new_lexer (fmt_join (diff_file fs 0) true (-1))) Hlx eq_refl) as (s' & Hrun & Hend).
  apply (lex_run_lexes _ _ s' Hrun Hend).
Qed.

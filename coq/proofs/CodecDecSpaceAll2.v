(* CodecDecSpaceAll2.v — white space inserted at every token boundary at once (C03), part 2:
   [sp J tx]: tx is a print of the tree J with arbitrary white space before every token and separator and behind every
   separator (i.e. at every token boundary inside the value); the tokenizer reads tx ++ rest as the tokens of J. *)
From Coq Require Import String List Arith NArith ZArith Bool Lia ZifyN ZifyNat ZifyBool.
From J5V.lib Require Import Outcome Json JsonPrint.
From J5V.proofs Require Import JsonLexProofs CodecEncLex CodecDecSpace CodecDecSpaceAll.
Import ListNotations.
Local Open Scope N_scope.
Local Open Scope bool_scope.
Arguments Nat.sub : simpl never.

Inductive sp : jvalue -> bytes -> Prop :=
| sp_null : sp JNull (print JNull)
| sp_bool b : sp (JBool b) (print (JBool b))
| sp_num l : sp (JNum l) l
| sp_str s : sp (JStr s) (print_str s)
| sp_arr l body : sp_items true l body -> sp (JArr l) (91 :: body)
| sp_obj l body : sp_members true l body -> sp (JObj l) (123 :: body)
with sp_items : bool -> list jvalue -> bytes -> Prop :=
| si_nil first ws : all_space ws -> sp_items first [] (ws ++ [93])
| si_cons first ws1 ws2 x r tx tr : all_space ws1 -> all_space ws2 -> sp x tx -> sp_items false r tr ->
    sp_items first (x :: r) (ws1 ++ (if first then ws2 else 44 :: ws2) ++ tx ++ tr)
with sp_members : bool -> list (bytes * jvalue) -> bytes -> Prop :=
| sm_nil first ws : all_space ws -> sp_members first [] (ws ++ [125])
| sm_cons first ws1 ws2 ws3 ws4 k v r tv tr :
    all_space ws1 -> all_space ws2 -> all_space ws3 -> all_space ws4 -> sp v tv -> sp_members false r tr ->
    sp_members first ((k, v) :: r)
      (ws1 ++ (if first then ws2 else 44 :: ws2) ++ print_str k ++ ws3 ++ 58 :: ws4 ++ tv ++ tr).

(* white space in front of the input, and directly behind a leading separator: same run, same fuel *)
Lemma lex_go_ws f st stack ws s : all_space ws -> lex_go f st stack (ws ++ s) = lex_go f st stack s.
Proof. intros H. destruct f as [|f]; [reflexivity|]. rewrite !lex_go_S. rewrite (token_call_ws ws st stack s H). reflexivity. Qed.

Lemma lex_go_sep_ws f st stack c ws s : all_space ws -> (c = 58 \/ c = 44) ->
  lex_go f st stack (c :: ws ++ s) = lex_go f st stack (c :: s).
Proof. intros H Hc. destruct f as [|f]; [reflexivity|]. rewrite !lex_go_S. rewrite (token_call_ws_after_sep ws st stack c s H Hc). reflexivity. Qed.

Lemma all_space_rest_ok2 ws c rest : all_space ws -> (c = 44 \/ c = 93 \/ c = 125) -> rest_ok2 (ws ++ c :: rest).
Proof.
  intros H Hc. destruct ws as [|w r]; cbn [app rest_ok2]; [lia|].
  inversion H as [|w0 r0 Hw _]; subst. unfold is_space in Hw. lia.
Qed.

Lemma sp_items_rest_ok r tr rest : sp_items false r tr -> rest_ok2 (tr ++ rest).
Proof.
  intros H. inversion H as [first ws Hws|first ws1 ws2 x r0 tx tr0 H1 H2 Hx Hr]; subst.
  - rewrite <- app_assoc. cbn [app]. apply all_space_rest_ok2; [exact Hws|lia].
  - rewrite <- app_assoc. cbn [app]. apply all_space_rest_ok2; [exact H1|lia].
Qed.

Lemma sp_members_rest_ok r tr rest : sp_members false r tr -> rest_ok2 (tr ++ rest).
Proof.
  intros H. inversion H; subst.
  - rewrite <- app_assoc. cbn [app]. apply all_space_rest_ok2; [assumption|lia].
  - rewrite <- app_assoc. cbn [app]. apply all_space_rest_ok2; [assumption|lia].
Qed.

Lemma sp_head J tx : sp J tx -> wfb J = true -> exists c t, tx = c :: t /\ head_class J c.
Proof.
  intros H Hw. destruct H.
  - apply (print_head JNull Hw).
  - apply (print_head (JBool b) Hw).
  - apply (print_head (JNum l) Hw).
  - apply (print_head (JStr s) Hw).
  - exists 91, body. split; reflexivity.
  - exists 123, body. split; reflexivity.
Qed.

Definition PS (J : jvalue) : Prop :=
  wfb J = true -> forall tx, sp J tx -> forall m f f' st stack rest,
    value_allowed st = true -> rest_ok2 rest ->
    (length (tx ++ rest) <= f)%nat -> (length rest < f')%nat ->
    after m f st stack (tx ++ rest) = cont_of f' (value_end st) stack rest (tokens_of J).

Ltac lens := repeat (rewrite ?app_length in *; cbn [length] in * ); lia.

Lemma lex_items_sp l : Forall PS l -> forallb wfb l = true ->
  forall first body, sp_items first l body ->
  forall f f' up stack rest, rest_ok2 rest ->
    (length (body ++ rest) < f)%nat -> (length rest < f')%nat ->
    lex_go f (arr_state first) (up :: stack) (body ++ rest) =
    cont_of f' (value_end up) stack rest (flat_map tokens_of l ++ [TCloseArr]).
Proof.
  induction 1 as [|x r Hx Hr IH]; intros Hw first body Hsp f f' up stack rest Hrest Hf Hf'.
  - inversion Hsp as [first0 ws Hws|]; subst. rewrite <- app_assoc in *. cbn [app] in *.
    rewrite lex_go_ws by exact Hws. destruct f as [|f]; [lia|]. apply after_close_arr; lens.
  - inversion Hsp as [|first0 ws1 ws2 x0 r0 tx tr H1 H2 Hx0 Htr]; subst.
    cbn [forallb] in Hw. apply andb_true_iff in Hw as [Hwx Hwr].
    destruct (sp_head x tx Hx0 Hwx) as (c & t & Hp & Hc).
    destruct (head_class_plain x c Hc) as (Hs & H58 & H44 & H93 & H125).
    set (rest' := tr ++ rest) in *.
    assert (Hrest' : rest_ok2 rest') by (apply (sp_items_rest_ok r tr rest Htr)).
    assert (E : (ws1 ++ (if first then ws2 else 44 :: ws2) ++ tx ++ tr) ++ rest =
                ws1 ++ (if first then ws2 else 44 :: ws2) ++ tx ++ rest')
      by (unfold rest'; destruct first; cbn [app]; rewrite <- ?app_assoc; cbn [app]; rewrite <- ?app_assoc; reflexivity).
    rewrite E in *. clear E.
    assert (Hstep : forall mm st0 f0, value_allowed st0 = true -> value_end st0 = StArrComma ->
              (length (tx ++ rest') <= f0)%nat ->
              after mm f0 st0 (up :: stack) (tx ++ rest') =
              cont_of f' (value_end up) stack rest (flat_map tokens_of (x :: r) ++ [TCloseArr])).
    { intros mm st0 f0 Hva Hve Hlen.
      rewrite (Hx Hwx tx Hx0 mm f0 f0 st0 (up :: stack) rest' Hva Hrest' Hlen) by (subst tx; lens).
      rewrite Hve. unfold cont_of at 1.
      assert (Hl2 : (length (tr ++ rest) < f0)%nat) by (fold rest'; subst tx; lens).
      pose proof (IH Hwr false tr Htr f0 f' up stack rest Hrest Hl2 Hf') as HI. cbn [arr_state] in HI. fold rest' in HI.
      rewrite HI. unfold cont_of. cbn [fst snd flat_map]. rewrite <- !app_assoc. reflexivity. }
    rewrite lex_go_ws by exact H1.
    destruct first; cbn [arr_state].
    + rewrite lex_go_ws by exact H2. destruct f as [|f]; [lia|]. rewrite lex_go_S.
      rewrite Hp. cbn [app]. rewrite token_call_plain by assumption.
      change (c :: t ++ rest') with ((c :: t) ++ rest'). rewrite <- Hp.
      fold (after (negb (c =? 93) && negb (c =? 125)) f StArrStart (up :: stack) (tx ++ rest')).
      apply Hstep; [reflexivity|reflexivity|]. lens.
    + cbn [app] in *. rewrite lex_go_sep_ws by (exact H2 || lia). destruct f as [|f]; [lia|]. rewrite lex_go_S.
      rewrite Hp. cbn [app]. rewrite token_call_comma_arr by assumption.
      change (c :: t ++ rest') with ((c :: t) ++ rest'). rewrite <- Hp.
      fold (after true f StArrValue (up :: stack) (tx ++ rest')).
      apply Hstep; [reflexivity|reflexivity|]. lens.
Qed.

Lemma lex_members_sp ms : Forall (fun kv => PS (snd kv)) ms ->
  forallb (fun kv => valid_utf8 (fst kv) && wfb (snd kv)) ms = true ->
  forall first body, sp_members first ms body ->
  forall f f' up stack rest, rest_ok2 rest ->
    (length (body ++ rest) < f)%nat -> (length rest < f')%nat ->
    lex_go f (obj_state first) (up :: stack) (body ++ rest) =
    cont_of f' (value_end up) stack rest
      (flat_map (fun kv => TStr (fst kv) :: tokens_of (snd kv)) ms ++ [TCloseObj]).
Proof.
  induction 1 as [|[k v] r Hx Hr IH]; intros Hw first body Hsp f f' up stack rest Hrest Hf Hf'.
  - inversion Hsp as [first0 ws Hws|]; subst. rewrite <- app_assoc in *. cbn [app] in *.
    rewrite lex_go_ws by exact Hws. destruct f as [|f]; [lia|]. apply after_close_obj; lens.
  - inversion Hsp as [|first0 ws1 ws2 ws3 ws4 k1 v1 r0 tv tr H1 H2 H3 H4 Hv0 Htr]; subst.
    cbn [forallb fst snd] in Hw, Hx. apply andb_true_iff in Hw as [Hwx Hwr]. apply andb_true_iff in Hwx as [Hk Hwv].
    destruct (sp_head v tv Hv0 Hwv) as (c & t & Hp & Hc).
    destruct (head_class_plain v c Hc) as (Hs & H58 & H44 & H93 & H125).
    set (rest' := tr ++ rest) in *.
    assert (Hrest' : rest_ok2 rest') by (apply (sp_members_rest_ok r tr rest Htr)).
    assert (E : (ws1 ++ (if first then ws2 else 44 :: ws2) ++ print_str k ++ ws3 ++ 58 :: ws4 ++ tv ++ tr) ++ rest =
                ws1 ++ (if first then ws2 else 44 :: ws2) ++ 34 :: esc_bytes k ++ 34 :: ws3 ++ 58 :: ws4 ++ tv ++ rest')
      by (unfold rest', print_str; destruct first; repeat (progress (rewrite <- ?app_assoc; cbn [app])); reflexivity).
    rewrite E in *. clear E.
    (* everything after the key token *)
    assert (Hvalue : forall f1, (length (ws3 ++ 58%N :: ws4 ++ tv ++ rest') < f1)%nat ->
              lex_go f1 StObjColon (up :: stack) (ws3 ++ 58 :: ws4 ++ tv ++ rest') =
              cont_of f' (value_end up) stack rest
                (tokens_of v ++ flat_map (fun kv => TStr (fst kv) :: tokens_of (snd kv)) r ++ [TCloseObj])).
    { intros f1 Hf1. rewrite lex_go_ws by exact H3. rewrite lex_go_sep_ws by (exact H4 || lia).
      destruct f1 as [|f1]; [lia|]. rewrite lex_go_S.
      rewrite Hp. cbn [app]. rewrite token_call_colon by exact Hs.
      change (c :: t ++ rest') with ((c :: t) ++ rest'). rewrite <- Hp.
      fold (after true f1 StObjValue (up :: stack) (tv ++ rest')).
      rewrite (Hx Hwv tv Hv0 true f1 f1 StObjValue (up :: stack) rest' eq_refl Hrest') by (subst tv; lens).
      cbn [value_end]. unfold cont_of at 1.
      assert (Hl2 : (length (tr ++ rest) < f1)%nat) by (fold rest'; subst tv; lens).
      pose proof (IH Hwr false tr Htr f1 f' up stack rest Hrest Hl2 Hf') as HI. cbn [obj_state] in HI. fold rest' in HI.
      rewrite HI. unfold cont_of. cbn [fst snd]. rewrite <- !app_assoc. reflexivity. }
    assert (Hfinish : forall mm st0 f0, (st0 = StObjStart \/ st0 = StObjKey) ->
              (length (ws3 ++ 58%N :: ws4 ++ tv ++ rest') < f0)%nat ->
              match token_at mm st0 (up :: stack) (34 :: esc_bytes k ++ 34 :: ws3 ++ 58 :: ws4 ++ tv ++ rest') with
              | TokFail more => ([], more)
              | TokOk t0 st' stack' rest0 => let '(ts, more) := lex_go f0 st' stack' rest0 in (t0 :: ts, more)
              end = cont_of f' (value_end up) stack rest
                      (flat_map (fun kv => TStr (fst kv) :: tokens_of (snd kv)) ((k, v) :: r) ++ [TCloseObj])).
    { intros mm st0 f0 Hst Hlen. rewrite (key_token mm st0 (up :: stack) k _ Hst Hk).
      rewrite (Hvalue f0 Hlen). unfold cont_of. cbn [fst snd flat_map app]. rewrite <- !app_assoc. reflexivity. }
    rewrite lex_go_ws by exact H1.
    destruct first; cbn [obj_state].
    + rewrite lex_go_ws by exact H2. destruct f as [|f]; [lia|]. rewrite lex_go_S.
      rewrite token_call_plain by (unfold is_space; lia).
      apply Hfinish; [left; reflexivity|]. lens.
    + cbn [app] in *. rewrite lex_go_sep_ws by (exact H2 || lia). destruct f as [|f]; [lia|]. rewrite lex_go_S.
      rewrite token_call_comma_obj by (unfold is_space; lia).
      apply Hfinish; [right; reflexivity|]. lens.
Qed.

(* every value: the tokenizer reads a spaced print as the tokens of the tree *)
Theorem sp_value : forall J, PS J.
Proof.
  apply json_ind2; unfold PS.
  - intros Hw tx Hsp. inversion Hsp; subst. apply (CodecDecSpaceAll.lex_value JNull Hw).
  - intros b Hw tx Hsp. inversion Hsp; subst. apply (CodecDecSpaceAll.lex_value (JBool b) Hw).
  - intros lit Hw tx Hsp. inversion Hsp; subst. apply (CodecDecSpaceAll.lex_value (JNum tx) Hw).
  - intros s Hw tx Hsp. inversion Hsp; subst. apply (CodecDecSpaceAll.lex_value (JStr s) Hw).
  - intros l Hl Hw tx Hsp m f f' st stack rest Hv Hr Hf Hf'. inversion Hsp as [| | | |l0 body Hb|]; subst.
    cbn [wfb tokens_of] in *. cbn [app] in *.
    unfold after, token_at. change (91 =? 91) with true. cbv iota. rewrite Hv.
    cbn [length] in Hf.
    pose proof (lex_items_sp l Hl Hw true body Hb f f' st stack rest Hr) as HI. cbn [arr_state] in HI.
    rewrite HI by lia. unfold cont_of. cbn [fst snd app]. reflexivity.
  - intros l Hl Hw tx Hsp m f f' st stack rest Hv Hr Hf Hf'. inversion Hsp as [| | | | |l0 body Hb]; subst.
    cbn [wfb tokens_of] in *. cbn [app] in *.
    unfold after, token_at. change (123 =? 91) with false. change (123 =? 123) with true. cbv iota. rewrite Hv.
    cbn [length] in Hf.
    pose proof (lex_members_sp l Hl Hw true body Hb f f' st stack rest Hr) as HI. cbn [obj_state] in HI.
    rewrite HI by lia. unfold cont_of. cbn [fst snd app]. reflexivity.
Qed.

Lemma all_space_alone_rest_ok2 ws : all_space ws -> rest_ok2 ws.
Proof. intros H. destruct ws as [|w r]; [exact I|]. inversion H as [|w0 r0 Hw _]; subst. cbn [rest_ok2]. unfold is_space in Hw. lia. Qed.

Lemma lex_go_only_space f ws : all_space ws -> lex_go (S f) StTop [] ws = ([], false).
Proof.
  intros H. rewrite lex_go_S. unfold token_call.
  pose proof (skip_ws_app ws [] H) as E. rewrite app_nil_r in E. rewrite E. reflexivity.
Qed.

(* a document with white space at every token boundary, in front and behind: the tokens of the tree, nothing pending *)
Theorem lex_spaced J tx w0 w1 : wfb J = true -> sp J tx -> all_space w0 -> all_space w1 ->
  lex (w0 ++ tx ++ w1) = (tokens_of J, false).
Proof.
  intros Hw Hsp H0 H1. unfold lex. rewrite lex_go_ws by exact H0.
  destruct (sp_head J tx Hsp Hw) as (c & t & Hp & Hc).
  destruct (head_class_plain J c Hc) as (Hs & H58 & H44 & _ & _).
  rewrite lex_go_S.
  assert (Hstep : token_call StTop [] (tx ++ w1) =
                  token_at (negb (c =? 93) && negb (c =? 125)) StTop [] (tx ++ w1)).
  { rewrite Hp. cbn [app]. apply token_call_plain; assumption. }
  rewrite Hstep.
  fold (after (negb (c =? 93) && negb (c =? 125)) (length (w0 ++ tx ++ w1)) StTop [] (tx ++ w1)).
  rewrite (sp_value J Hw tx Hsp _ (length (w0 ++ tx ++ w1)) (S (length w1)) StTop [] w1 eq_refl (all_space_alone_rest_ok2 w1 H1))
    by (rewrite ?app_length; lia).
  unfold cont_of. cbn [value_end]. rewrite (lex_go_only_space (length w1) w1 H1). cbn [fst snd]. rewrite app_nil_r. reflexivity.
Qed.

(* the compact print is the special case without white space *)
Lemma sp_print : forall J, sp J (print J).
Proof.
  apply json_ind2.
  - constructor.
  - constructor.
  - intros lit. constructor.
  - intros s. constructor.
  - intros l Hl. rewrite print_arr. apply sp_arr.
    assert (G : forall first, sp_items first l ((if first then [] else match l with [] => [] | _ => [44] end) ++ join 44 (map print l) ++ [93])).
    { induction Hl as [|x r Hx Hr IH]; intros first.
      - destruct first; apply (si_nil _ []); constructor.
      - assert (E : forall pre, pre ++ join 44 (map print (x :: r)) ++ [93] =
                    pre ++ print x ++ (match r with [] => [] | _ => [44] end) ++ join 44 (map print r) ++ [93]).
        { intros pre. destruct r as [|y r']; cbn [map join app]; rewrite <- ?app_assoc; cbn [app]; rewrite <- ?app_assoc; reflexivity. }
        rewrite E. specialize (IH false). cbn iota in IH.
        destruct first; cbn [app].
        + apply (si_cons true [] [] x r (print x) _ (Forall_nil _) (Forall_nil _) Hx IH).
        + apply (si_cons false [] [] x r (print x) _ (Forall_nil _) (Forall_nil _) Hx IH). }
    apply (G true).
  - intros l Hl. rewrite print_obj. apply sp_obj.
    assert (G : forall first, sp_members first l ((if first then [] else match l with [] => [] | _ => [44] end) ++ join 44 (map member_text l) ++ [125])).
    { induction Hl as [|[k v] r Hx Hr IH]; intros first.
      - destruct first; apply (sm_nil _ []); constructor.
      - assert (E : forall pre, pre ++ join 44 (map member_text ((k, v) :: r)) ++ [125] =
                    pre ++ print_str k ++ [] ++ 58 :: [] ++ print v ++ (match r with [] => [] | _ => [44] end) ++ join 44 (map member_text r) ++ [125]).
        { intros pre. cbn [map]. change (member_text (k, v)) with (print_str k ++ 58 :: print v).
          destruct r as [|y r']; cbn [map join app]; repeat (progress (rewrite <- ?app_assoc; cbn [app])); reflexivity. }
        rewrite E. specialize (IH false). cbn iota in IH. cbn [snd] in Hx.
        destruct first; cbn [app].
        + apply (sm_cons true [] [] [] [] k v r (print v) _ (Forall_nil _) (Forall_nil _) (Forall_nil _) (Forall_nil _) Hx IH).
        + apply (sm_cons false [] [] [] [] k v r (print v) _ (Forall_nil _) (Forall_nil _) (Forall_nil _) (Forall_nil _) Hx IH). }
    apply (G true).
Qed.

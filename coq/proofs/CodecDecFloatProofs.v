(* CodecDecFloatProofs.v — float values under the float oracle law (model/CodecDecFloat.v):
   a float64 / float32 field stores the correctly rounded (nearest, ties-to-even) value of the decimal
   number written, quoted or bare; the law holds of the closed instance used in the examples. *)
From Coq Require Import String List NArith ZArith Bool.
From J5V.lib Require Import Outcome Json.
From J5V.lib Require Decimal.
From J5V.model Require Import CodecTypes CodecDecScalar CodecDecFloat CodecDecTime.
From J5V.proofs Require CodecDecTime CodecDecDecimal.
Import ListNotations.
Local Open Scope Z_scope.

Definition float_text (v : goval) : option bytes :=
  match v with GNum l => Some l | GStr s => Some s | _ => None end.

Theorem float64_value_exact orc v s m e bits : float_oracle_law orc ->
  float_text v = Some s -> Decimal.dec_parse s = Some (m, e) -> Z.abs e <= float_exp_bound ->
  scalar_from_go orc KFloat64 v = Ok (Some (VFloat bits)) -> rounds binary64 m e bits = true.
Proof.
  intros L Hv Hd He H. specialize (L s). unfold float_obs_ok in L. rewrite Hd in L.
  destruct (float_exp_bound <? Z.abs e) eqn:Eb; [apply Z.ltb_lt in Eb; exfalso; apply (Z.lt_irrefl (Z.abs e)); eapply Z.le_lt_trans; eassumption|].
  apply andb_true_iff in L. destruct L as [L _].
  destruct v as [|b|l|s0]; try discriminate; inversion Hv; subst;
    cbn [scalar_from_go float_from_go obind] in H;
    destruct (fst (o_float orc s)) as [b0|]; try discriminate; inversion H; subst; exact L.
Qed.

Theorem float32_value_exact orc v s m e bits : float_oracle_law orc ->
  float_text v = Some s -> Decimal.dec_parse s = Some (m, e) -> Z.abs e <= float_exp_bound ->
  scalar_from_go orc KFloat32 v = Ok (Some (VFloat bits)) -> rounds binary32 m e bits = true.
Proof.
  intros L Hv Hd He H. specialize (L s). unfold float_obs_ok in L. rewrite Hd in L.
  destruct (float_exp_bound <? Z.abs e) eqn:Eb; [apply Z.ltb_lt in Eb; exfalso; apply (Z.lt_irrefl (Z.abs e)); eapply Z.le_lt_trans; eassumption|].
  apply andb_true_iff in L. destruct L as [_ L].
  destruct v as [|b|l|s0]; try discriminate; inversion Hv; subst;
    cbn [scalar_from_go float_from_go obind] in H;
    destruct (snd (o_float orc s)) as [b0|]; try discriminate; inversion H; subst; exact L.
Qed.

(* ---------------------------------------------------------------- a closed instance of the oracles
   The library models instantiated: time.Parse(RFC3339) = CodecDecTime.go_time_parse, decimal.NewFromString
   = lib/Decimal.v (canonical text), ParseFloat answering from a table of correctly rounded values and
   nothing else.  The premises of the timestamp / decimal / float theorems are satisfied by it, so those
   theorems have closed corollaries (no oracle premise left). *)
Definition model_decimal (s : bytes) : option (bytes * Z) :=
  match Decimal.dec_parse s with
  | Some (m, e) => Some (Decimal.dec_print m e, e)
  | None => None
  end.

(* 1, 0.1, -1.5, 5e-324 (smallest subnormal; 0 as float32), 2^53 + 1 and 2^24 + 1 (ties to even) *)
Definition float_probe : list (bytes * (option N * option N)) :=
  [([49%N], (Some 4607182418800017408%N, Some 1065353216%N));
   ([48%N; 46%N; 49%N], (Some 4591870180066957722%N, Some 1036831949%N));
   ([45%N; 49%N; 46%N; 53%N], (Some 13832806255468478464%N, Some 3217031168%N));
   ([53%N; 101%N; 45%N; 51%N; 50%N; 52%N], (Some 1%N, Some 0%N));
   ([57%N; 48%N; 48%N; 55%N; 49%N; 57%N; 57%N; 50%N; 53%N; 52%N; 55%N; 52%N; 48%N; 57%N; 57%N; 51%N], (Some 4845873199050653696%N, Some 1509949440%N));
   ([49%N; 54%N; 55%N; 55%N; 55%N; 50%N; 49%N; 55%N], (Some 4715268810125344768%N, Some 1266679808%N))].

Fixpoint probe_lookup (tbl : list (bytes * (option N * option N))) (s : bytes) : option N * option N :=
  match tbl with
  | [] => (None, None)
  | (k, r) :: t => if bytes_eqb k s then r else probe_lookup t s
  end.

Definition model_oracles : oracles := mkOracles (probe_lookup float_probe) go_time_parse model_decimal.

Lemma model_oracles_time : CodecDecTime.time_oracle_is_model model_oracles.
Proof. intros s. reflexivity. Qed.

Lemma model_oracles_decimal : CodecDecDecimal.decimal_oracle_is_model model_oracles.
Proof.
  intros s. cbn [model_oracles o_decimal]. unfold model_decimal.
  destruct (Decimal.dec_parse s) as [[m e]|]; [|reflexivity]. eexists. split; [reflexivity|]. intros _. reflexivity.
Qed.

Lemma bytes_eqb_true a : forall b, bytes_eqb a b = true -> a = b.
Proof.
  induction a as [|x a IH]; intros [|y b] H; cbn in H; try discriminate; [reflexivity|].
  apply andb_true_iff in H. destruct H as [H1 H2]. apply N.eqb_eq in H1. subst. f_equal. apply IH. exact H2.
Qed.

Lemma probe_law tbl : float_table_ok tbl = true -> forall s, float_obs_ok s (probe_lookup tbl s) = true.
Proof.
  induction tbl as [|[k r] t IH]; intros H s; cbn [probe_lookup].
  - unfold float_obs_ok. cbn [fst snd]. destruct (Decimal.dec_parse s) as [[m e]|]; [|reflexivity].
    destruct (float_exp_bound <? Z.abs e); reflexivity.
  - cbn [float_table_ok forallb fst snd] in H. apply andb_true_iff in H. destruct H as [H1 H2].
    destruct (bytes_eqb k s) eqn:E; [apply bytes_eqb_true in E; subst; exact H1|]. apply IH. exact H2.
Qed.

Lemma model_oracles_float : float_oracle_law model_oracles.
Proof. intros s. cbn [model_oracles o_float]. apply probe_law. vm_compute. reflexivity. Qed.

Corollary timestamp_any_offset_closed f g :
  CodecDecTime.shape f -> CodecDecTime.shape g -> CodecDecTime.in_range f = true -> CodecDecTime.in_range g = true ->
  CodecDecTime.instant f = CodecDecTime.instant g -> CodecDecTime.nanos f = CodecDecTime.nanos g ->
  scalar_from_go model_oracles KTimestamp (GStr (CodecDecTime.text f)) =
  scalar_from_go model_oracles KTimestamp (GStr (CodecDecTime.text g)).
Proof. apply CodecDecTime.timestamp_any_offset. exact model_oracles_time. Qed.

Corollary timestamp_reading_closed f : CodecDecTime.shape f -> CodecDecTime.in_range f = true ->
  scalar_from_go model_oracles KTimestamp (GStr (CodecDecTime.text f)) =
  Ok (Some (mk_timestamp (CodecDecTime.instant f) (CodecDecTime.nanos f))).
Proof. apply CodecDecTime.timestamp_reading. exact model_oracles_time. Qed.

Corollary decimal_exact_closed quoted s c :
  scalar_from_go model_oracles KDecimal (CodecDecDecimal.dec_goval quoted s) = Ok (Some (mk_decimal c)) ->
  exists m e b, Decimal.dec_parse s = Some (m, e) /\ c = Decimal.dec_print m e /\
                Decimal.dec_parse c = Some b /\ Decimal.dec_eq (m, e) b.
Proof. apply CodecDecDecimal.decimal_exact. exact model_oracles_decimal. Qed.

Corollary float64_value_exact_closed v s m e bits :
  float_text v = Some s -> Decimal.dec_parse s = Some (m, e) -> Z.abs e <= float_exp_bound ->
  scalar_from_go model_oracles KFloat64 v = Ok (Some (VFloat bits)) -> rounds binary64 m e bits = true.
Proof. apply float64_value_exact. exact model_oracles_float. Qed.

(* BclFmtGenProofs.v — the formatter model (model/BclFmt.v) against the decisions of fmt.go and
   description.go as the translator reads them (gen/BclFmtGen.v: conditions, return expressions,
   FmtDiff literals, newToken calls, call arguments, tokenSource arms, stringEscaper pairs, each a
   lib/GoExpr term).  Every lemma EVALUATES the Go expression of the table (GoExpr.g_eval) and the
   MODEL FUNCTION on the same probe inputs and compares the results; the probe sets are finite
   grids chosen to separate every operator the expressions contain (<, <=, off-by-one, equal texts,
   out-of-range slices).  A change of a condition, constant, literal or operator in the Go source
   changes the table and breaks the lemma of that decision at build time. *)
From Coq Require Import String List NArith ZArith Bool.
From J5V.lib Require Import Text Outcome GoExpr.
From J5V.gen Require BclFmtGen.
From J5V.model Require Import BclLexer BclParser BclFmt.
Import ListNotations.
Local Open Scope string_scope.
Local Open Scope list_scope.
Local Open Scope Z_scope.

(* ---- access to the tables ------------------------------------------------------------------- *)
Definition tbl {A} (t : list (string * list A)) (fn : string) (i : nat) (d : A) : A :=
  nth i (match assoc_s t fn with Some l => l | None => [] end) d.
Definition gbad : gexpr := GVar "?missing".
Definition cond_of fn i := tbl BclFmtGen.fmt_conds fn i gbad.
Definition ret_of fn i := tbl BclFmtGen.fmt_returns fn i gbad.
Definition assign_of fn i := snd (tbl BclFmtGen.fmt_assigns fn i ("", "", gbad)).
Definition assign_lhs fn i := fst (fst (tbl BclFmtGen.fmt_assigns fn i ("", "", gbad))).
Definition assign_op fn i := snd (fst (tbl BclFmtGen.fmt_assigns fn i ("", "", gbad))).
Definition lit_field fn i (field : string) : gexpr :=
  match assoc_s (tbl BclFmtGen.fmt_diff_literals fn i []) field with Some e => e | None => gbad end.
Definition call_arg fn i (k : nat) : gexpr := nth k (snd (tbl BclFmtGen.fmt_calls fn i ("", []))) gbad.
Definition call_name fn i : string := fst (tbl BclFmtGen.fmt_calls fn i ("", [])).
Definition newtok fn i : list N := snd (tbl BclFmtGen.fmt_new_tokens fn i (0%N, [])).
Definition newtok_ty fn i : N := fst (tbl BclFmtGen.fmt_new_tokens fn i (0%N, [])).

(* the Replacer pairs, keys as single bytes *)
Definition esc_pairs : list (N * list N) :=
  map (fun p => (match fst p with [k] => k | _ => 0%N end, snd p)) BclFmtGen.string_escaper_pairs.
Definition ev (env : list (string * gval)) (e : gexpr) : gval := g_eval (g_lookup env) no_calls esc_pairs e.

Definition gval_eqb (a b : gval) : bool :=
  match a, b with
  | VZ x, VZ y => x =? y
  | VS x, VS y => bytes_eqb x y
  | VB x, VB y => Bool.eqb x y
  | VL x, VL y => bytes_eqb (g_join [256%N] x) (g_join [256%N] y) && Nat.eqb (length x) (length y)
  | VPanic, VPanic => true
  | _, _ => false
  end.
Definition is_true (v : gval) : bool := match v with VB true => true | _ => false end.
Definition is_bool (v : gval) : bool := match v with VB _ => true | _ => false end.

Definition zrange (lo hi : Z) : list Z := map (fun k => lo + Z.of_nat k) (seq 0 (Z.to_nat (hi - lo + 1))).
Definition pairs_of {A B} (a : list A) (b : list B) : list (A * B) := flat_map (fun x => map (fun y => (x, y)) b) a.

(* literals used as probes: empty, plain, each escaped rune, slashes, star-slash, a format verb, non-ASCII *)
Definition lit_probes : list (list N) :=
  [[]; [97]; [92]; [34]; [10]; [47]; [97;92;34;10;47;47;98]; [42;47]; [37;115]; [233;8364;128512]; [32;32]; [92;92;34;34]]%N.

(* ---- tokenSource ------------------------------------------------------------------------------- *)
Lemma escaper_keys_single_bytes :
  forallb (fun p => match fst p with [_] => true | _ => false end) BclFmtGen.string_escaper_pairs = true.
Proof. vm_compute. reflexivity. Qed.

Definition arm_for (t : ttype) : gexpr :=
  match filter (fun a => existsb (N.eqb (tt_code t)) (fst a)) BclFmtGen.token_source_arms with
  | a :: _ => snd a
  | [] => ret_of "fmt.go:tokenSource" (length BclFmtGen.token_source_arms)   (* the final return *)
  end.
(* for every token type and every probe literal: the model's token_source is the arm of the Go switch *)
Lemma token_source_arms_agree :
  forallb (fun t => forallb (fun l =>
      gval_eqb (VS (token_source (mkTok t l pos0 pos0))) (ev [("tok.Lit", VS l)] (arm_for t)))
    lit_probes) all_tt = true.
Proof. vm_compute. reflexivity. Qed.
(* and the model's escaper is the Replacer of the code *)
Lemma escape_string_is_replacer :
  forallb (fun l => bytes_eqb (escape_string l) (g_replace esc_pairs l)) lit_probes = true.
Proof. vm_compute. reflexivity. Qed.

(* ---- Fmt: the blank line between two fragments ------------------------------------------------ *)
(* second fragment of two: idx = 1, lastEnd = ToLine of the first (the assignment `lastEnd = diff.ToLine`) *)
Lemma fmt_blank_line_agrees :
  forallb (fun ft : Z * Z =>
    let '(to1, from2) := ft in
    let last_end := ev [("diff.ToLine", VZ to1)] (assign_of "fmt.go:Fmt" 4) in
    let c := ev [("idx", VZ 1); ("diff.FromLine", VZ from2); ("lastEnd", last_end)] (cond_of "fmt.go:Fmt" 1) in
    is_bool c &&
    bytes_eqb (fmt_join [mkFD 0 to1 [120%N]; mkFD from2 (from2 + 1) [121%N]] true (-1))
              ([120%N] ++ (if is_true c then [10%N] else []) ++ [121%N]))
    (pairs_of (zrange 0 4) (zrange 0 5)) = true.
Proof. vm_compute. reflexivity. Qed.
(* first fragment: idx = 0 and the initial lastEnd *)
Lemma fmt_first_fragment_agrees :
  forallb (fun from1 =>
    let c := ev [("idx", VZ 0); ("diff.FromLine", VZ from1); ("lastEnd", ev [] (assign_of "fmt.go:Fmt" 1))] (cond_of "fmt.go:Fmt" 1) in
    is_bool c &&
    bytes_eqb (fmt_join [mkFD from1 (from1 + 1) [120%N]] true (-1)) ((if is_true c then [10%N] else []) ++ [120%N]))
    (zrange 0 4) = true.
Proof. vm_compute. reflexivity. Qed.

(* ---- FmtDiffs: merging fragments that share a line ---------------------------------------------- *)
Definition fd_eqb (a b : fdiff) : bool := (fd_from a =? fd_from b) && (fd_to a =? fd_to b) && bytes_eqb (fd_text a) (fd_text b).
Fixpoint list_eqb {A} (eqb : A -> A -> bool) (a b : list A) : bool :=
  match a, b with
  | [], [] => true
  | x :: r, y :: s => eqb x y && list_eqb eqb r s
  | _, _ => false
  end.
(* the merge loop of the code on the table's conditions and assignments *)
Fixpoint merge_tab (ds : list fdiff) (merged : list fdiff) : list fdiff :=
  match ds with
  | [] => merged
  | d :: r =>
    let last := ev [("len(merged)", VZ (Z.of_nat (length merged)))]
                   (match assign_of "fmt.go:FmtDiffs" 2 with
                    | GBin op (GCall "len" [GVar "merged"]) b => GBin op (GVar "len(merged)") b
                    | e => e end) in
    let lastfd := List.last merged (mkFD 0 0 []) in
    let env := [("last", last); ("diff.FromLine", VZ (fd_from d)); ("diff.ToLine", VZ (fd_to d));
                ("merged[last].ToLine", VZ (fd_to lastfd))] in
    if is_true (ev env (cond_of "fmt.go:FmtDiffs" 1)) then
      let to' := if is_true (ev env (cond_of "fmt.go:FmtDiffs" 2))
                 then match ev env (assign_of "fmt.go:FmtDiffs" 4) with VZ z => z | _ => -99 end
                 else fd_to lastfd in
      merge_tab r (removelast merged ++ [mkFD (fd_from lastfd) to' (fd_text lastfd ++ fd_text d)])
    else merge_tab r (merged ++ [d])
  end.
Definition merge_probes : list (list fdiff) :=
  map (fun q : (Z * Z) * (Z * Z) => let '((t1, f2), (t2, f3)) := q in
         [mkFD 0 t1 [1%N]; mkFD f2 t2 [2%N]; mkFD f3 (f3 + 1) [3%N]])
      (pairs_of (pairs_of (zrange 1 3) (zrange 0 3)) (pairs_of (zrange 1 4) (zrange 1 4))).
Lemma merge_assignment_shapes :
  assign_lhs "fmt.go:FmtDiffs" 2 = "last" /\ assign_lhs "fmt.go:FmtDiffs" 3 = "merged[last].NewText" /\
  assign_op "fmt.go:FmtDiffs" 3 = "+=" /\ assign_lhs "fmt.go:FmtDiffs" 4 = "merged[last].ToLine".
Proof. repeat split. Qed.
Lemma merge_diffs_agrees :
  forallb (fun ds => list_eqb fd_eqb (merge_diffs ds) (merge_tab ds [])) merge_probes = true.
Proof. vm_compute. reflexivity. Qed.

(* ---- lineSet.rangeLines -------------------------------------------------------------------------- *)
Definition range_tab (lines : list (list N)) (a b : gval) : gval :=
  match a, b with
  | VZ _, VZ _ => ev [("ls.lines", VL lines); ("from", a); ("to", b)] (ret_of "fmt.go:rangeLines" 0)
  | _, _ => VUnknown
  end.
Definition out_eqb (o : outcome (list N)) (v : gval) : bool :=
  match o, v with
  | Ok x, VS y => bytes_eqb x y
  | Panic _, VPanic => true
  | _, _ => false
  end.
Definition doc_probes : list (list (list N)) :=
  [ [[]]; [[120]; []]; [[120]; []; [121]; []]; [[120]; [32;32]; [121]]; [[]; []; [120]; [125;32;47;47]; []] ]%N.
Lemma range_lines_agrees :
  forallb (fun lines => forallb (fun ab : Z * Z =>
      out_eqb (range_lines lines (fst ab) (snd ab)) (range_tab lines (VZ (fst ab)) (VZ (snd ab))))
    (pairs_of (zrange (-1) 6) (zrange (-1) 6))) doc_probes = true.
Proof. vm_compute. reflexivity. Qed.

(* ---- FmtDiffs: leading edit, gap edit, suppression of unchanged ranges ------------------------------ *)
Definition edit_of_lit (env : list (string * gval)) (calls : string -> list gval -> gval) (i : nat) : option edit :=
  let e f := g_eval (g_lookup env) calls esc_pairs (lit_field "fmt.go:FmtDiffs" i f) in
  match e "FromLine", e "ToLine", e "NewText" with
  | VZ a, VZ b, VS t => Some (mkEdit a b t)
  | _, _, _ => None
  end.
(* the second loop of FmtDiffs on the table's conditions, literals and assignments; None = a Go panic *)
Fixpoint diffs_tab (lines : list (list N)) (ds : list fdiff) (idx : Z) (last_end : gval) : option (list edit) :=
  match ds with
  | [] => Some []
  | d :: r =>
    let calls f vs := if String.eqb f "lines.rangeLines"
                      then match vs with [a; b] => range_tab lines a b | _ => VUnknown end else VUnknown in
    let text := utf8_encode (fd_text d) in
    let env0 := [("idx", VZ idx); ("diff.FromLine", VZ (fd_from d)); ("diff.ToLine", VZ (fd_to d));
                 ("diff.NewText", VS text); ("lastEnd", last_end)] in
    let E e := g_eval (g_lookup env0) calls esc_pairs e in
    let pre :=
      match E (cond_of "fmt.go:FmtDiffs" 3) with
      | VB true => match E (cond_of "fmt.go:FmtDiffs" 4) with
                   | VB true => option_map (fun e => [e]) (edit_of_lit env0 calls 0)
                   | VB false => Some []
                   | _ => None
                   end
      | VB false => match E (cond_of "fmt.go:FmtDiffs" 5) with
                    | VB true => option_map (fun e => [e]) (edit_of_lit env0 calls 1)
                    | VB false => Some []
                    | _ => None
                    end
      | _ => None
      end in
    match pre with
    | None => None
    | Some pre =>
      let existing := E (assign_of "fmt.go:FmtDiffs" 11) in
      match g_eval (g_lookup (("existing", existing) :: env0)) calls esc_pairs (cond_of "fmt.go:FmtDiffs" 6) with
      | VB changed =>
        match diffs_tab lines r (idx + 1) (E (assign_of "fmt.go:FmtDiffs" 13)) with
        | Some rest => Some (pre ++ (if changed then [mkEdit (fd_from d) (fd_to d) text] else []) ++ rest)
        | None => None
        end
      | _ => None
      end
    end
  end.
Definition edit_eqb (a b : edit) : bool := (e_from a =? e_from b) && (e_to a =? e_to b) && bytes_eqb (e_text a) (e_text b).
Definition diffs_eqb (o : outcome (list edit)) (t : option (list edit)) : bool :=
  match o, t with
  | Ok a, Some b => list_eqb edit_eqb a b
  | Panic _, None => true
  | _, _ => false
  end.
(* fragment lists over the probe documents: one or two fragments at every pair of line ranges (also
   beyond the document: both sides must panic), with a text equal to / different from the existing lines *)
Definition frag_probes (lines : list (list N)) : list (list fdiff) :=
  let n := Z.of_nat (length lines) in
  let texts (a b : Z) : list (list N) :=
    [[122; 10]%N; match range_lines lines a b with Ok t => t | _ => [10%N] end] in
  flat_map (fun ab : Z * Z => let '(a, b) := ab in
    if b <? a then [] else
    flat_map (fun t1 =>
      [mkFD a b t1] ::
      flat_map (fun cd : Z * Z => let '(c, d) := cd in
        if (d <? c) || (c <? b) then [] else map (fun t2 => [mkFD a b t1; mkFD c d t2]) (texts c d))
        (pairs_of (zrange b (n + 1)) (zrange b (n + 1))))
      (texts a b))
    (pairs_of (zrange 0 n) (zrange 0 (n + 1))).
Lemma diffs_first_assignments :
  assign_lhs "fmt.go:FmtDiffs" 8 = "lastEnd" /\ assign_lhs "fmt.go:FmtDiffs" 11 = "existing" /\
  assign_lhs "fmt.go:FmtDiffs" 13 = "lastEnd" /\ call_name "fmt.go:FmtDiffs" 0 = "strings.Split" /\
  call_arg "fmt.go:FmtDiffs" 0 1 = GStr [10%N].
Proof. repeat split. Qed.
Lemma diffs_loop_agrees :
  forallb (fun lines => forallb (fun ds =>
      diffs_eqb (diffs_loop lines ds true (-1)) (diffs_tab lines ds 0 (ev [] (assign_of "fmt.go:FmtDiffs" 8))))
    (frag_probes lines)) doc_probes = true.
Proof. vm_compute. reflexivity. Qed.
Lemma diffs_probe_count : (400 <=? length (flat_map frag_probes doc_probes))%nat = true.
Proof. vm_compute. reflexivity. Qed.

(* ---- singleLineTokens / inlineComment -------------------------------------------------------------- *)
Definition inline_tab (c : option comment) : gval :=
  match c with
  | None => ev [] (ret_of "fmt.go:inlineComment" 0)
  | Some c => ev [("comment.Value", VS (cvalue c))] (ret_of "fmt.go:inlineComment" 1)
  end.
Lemma inline_comment_agrees :
  forallb (fun c => gval_eqb (VS (inline_comment c)) (inline_tab c))
    [None; Some (mkComment [] pos0 pos0); Some (mkComment [32;120]%N pos0 pos0)] = true.
Proof. vm_compute. reflexivity. Qed.
Definition single_probes : list (nat * (Z * Z) * option comment) :=
  pairs_of (pairs_of [0%nat; 1%nat; 3%nat] (pairs_of (zrange 0 2) (zrange 0 3)))
           [None; Some (mkComment [32;99]%N pos0 pos0)].
Lemma single_line_agrees :
  forallb (fun q : nat * (Z * Z) * option comment =>
    let '(indent, (sl, el), c) := q in
    let parts := [97; 32; 98]%N in
    let d := single_line indent (sl, 7) (el, 9) c parts in
    let line := match inline_tab c with VS ic => VS (parts ++ ic) | v => v end in
    let env := [("src.Start.Line", VZ sl); ("src.End.Line", VZ el); ("p.indent", VZ (Z.of_nat indent)); ("line", line)] in
    gval_eqb (VZ (fd_from d)) (ev env (lit_field "fmt.go:singleLineTokens" 0 "FromLine")) &&
    gval_eqb (VZ (fd_to d)) (ev env (lit_field "fmt.go:singleLineTokens" 0 "ToLine")) &&
    gval_eqb (VS (fd_text d)) (ev env (assign_of "fmt.go:singleLineTokens" 3)))
    single_probes = true.
Proof. vm_compute. reflexivity. Qed.

(* ---- doDescription / multiLineToken ------------------------------------------------------------------- *)
Definition width_tab (indent : nat) : Z :=
  match ev [("p.indent", VZ (Z.of_nat indent))] (call_arg "fmt.go:doDescription" 0 1) with VZ w => w | _ => -999 end.
Definition multi_tab (indent : nat) (s e : pos) (lines : list (list N)) : option fdiff :=
  let prefix := ev [] (call_arg "fmt.go:doDescription" 1 1) in
  let full := ev [("p.indent", VZ (Z.of_nat indent)); ("prefix", prefix)] (assign_of "fmt.go:multiLineToken" 0) in
  let trimmed := map (fun l => match ev [("fullPrefix", full); ("part", VS l)] (assign_of "fmt.go:multiLineToken" 1) with
                               | VS x => x | _ => [0%N] end) lines in
  let env := [("src.Start.Line", VZ (fst s)); ("src.End.Line", VZ (fst e)); ("lines", VL trimmed)] in
  match ev env (lit_field "fmt.go:multiLineToken" 0 "FromLine"), ev env (lit_field "fmt.go:multiLineToken" 0 "ToLine"),
        ev env (lit_field "fmt.go:multiLineToken" 0 "NewText") with
  | VZ a, VZ b, VS t => Some (mkFD a b t)
  | _, _, _ => None
  end.
(* multiLineToken on raw lines (trailing spaces and tabs, empty lines): prefix, TrimRight cutset, join *)
Lemma multi_line_agrees :
  forallb (fun indent =>
    let ls := [[97; 32; 32]; [97; 9]; [32; 32]; []; [32; 97]]%N in
    match multi_tab indent (2, 0) (6, 1) ls with
    | Some t => fd_eqb (multi_line indent (2, 0) (6, 1) ls) t
    | None => false
    end) [0; 1; 3]%nat = true.
Proof. vm_compute. reflexivity. Qed.
(* a text whose wrapping differs between any two neighbouring widths up to 190: a paragraph of one-letter
   words (line lengths of one parity) and a paragraph starting with a two-letter word (the other parity) *)
Definition desc_probe_text : list N :=
  flat_map (fun _ => [97; 32]%N) (seq 0 100) ++ [10; 32; 10; 10]%N ++ [98; 98; 32; 32]%N ++ flat_map (fun _ => [97; 32]%N) (seq 0 100).
Lemma description_diff_agrees :
  forallb (fun indent =>
    forallb (fun text =>
      let d := mkDescr [] text (2, 0) (4, 5) in
      let out := reformat_description text (width_tab indent) in
      match multi_tab indent (2, 0) (4, 5) (match out with [] => [[]] | _ => out end) with
      | Some t => fd_eqb (description_diff indent d) t
      | None => false
      end) [desc_probe_text; []; [32; 32]%N; [120]%N])
    [0; 1; 2; 5; 19; 20; 21; 30]%nat = true.
Proof. vm_compute. reflexivity. Qed.
(* the width really decides: at the probe text, widths w and w+1 re-flow differently somewhere in the range,
   so the lemma above separates 80 - 4*indent from neighbouring formulas *)
Lemma description_width_separates :
  negb (list_eqb bytes_eqb (reformat_description desc_probe_text (width_tab 0)) (reformat_description desc_probe_text (width_tab 0 + 1))) &&
  negb (list_eqb bytes_eqb (reformat_description desc_probe_text (width_tab 1)) (reformat_description desc_probe_text (width_tab 1 + 1))) = true.
Proof. vm_compute. reflexivity. Qed.

(* ---- reformatDescription: the wrap decision and the join ------------------------------------------------ *)
Lemma reflow_wrap_agrees :
  forallb (fun q : Z * (list N * list N) =>
    let '(maxw, (pend, w)) := q in
    let env := [("pend", VS (utf8_encode pend)); ("word", VS (utf8_encode w)); ("maxWidth", VZ maxw)] in
    match ev env (cond_of "description.go:reformatDescription" 4),
          ev [("pend", VS pend); ("word", VS w)] (GBin "+" (GVar "pend") (assign_of "description.go:reformatDescription" 13)) with
    | VB wrap, VS joined =>
      let '(p', out') := flow_words maxw [w] pend [] in
      if wrap then bytes_eqb p' w && list_eqb bytes_eqb out' [pend]
      else bytes_eqb p' joined && list_eqb bytes_eqb out' []
    | _, _ => false
    end)
    (pairs_of (zrange 0 9) [([97;97]%N, [98]%N); ([233;233]%N, [98;98]%N); ([97]%N, [8364]%N); ([97;97;97;97]%N, [98;98;98;98]%N)]) = true.
Proof. vm_compute. reflexivity. Qed.

(* ---- closeBlock: the indentation never goes below zero -------------------------------------------------- *)
Definition close_indent_tab (indent : nat) : Z :=
  let i1 := match assign_op "fmt.go:closeBlock" 0 with "--" => Z.of_nat indent - 1 | _ => -999 end in
  if is_true (ev [("p.indent", VZ i1)] (cond_of "fmt.go:closeBlock" 0))
  then match ev [] (assign_of "fmt.go:closeBlock" 1) with VZ z => z | _ => -999 end
  else i1.
Lemma close_block_indent_agrees :
  forallb (fun indent =>
    let t := mkTok RBRACE [125%N] (3, 0) (3, 0) in
    let c := mkTok COMMENT [120%N] (4, 0) (4, 3) in
    match diff_file [FClose t; FComment c] indent with
    | [d1; d2] => bytes_eqb (fd_text d1) (tabs (Z.to_nat (close_indent_tab indent)) ++ [125; 10]%N) &&
                  bytes_eqb (fd_text d2) (tabs (Z.to_nat (close_indent_tab indent)) ++ [47; 47; 120; 10]%N)
    | _ => false
    end) [0; 1; 2; 3]%nat = true.
Proof. vm_compute. reflexivity. Qed.
(* doBlockHeader: an open block indents what follows by one (p.indent++ under `if block.Open`) *)
Lemma open_block_indent_agrees :
  assign_lhs "fmt.go:doBlockHeader" 8 = "p.indent" /\ assign_op "fmt.go:doBlockHeader" 8 = "++" /\
  cond_of "fmt.go:doBlockHeader" 2 = GVar "block.Open" /\
  forallb (fun q : nat * bool => let '(indent, op) := q in
    let h := mkHeader [mkTok IDENT [97%N] pos0 pos0] [] [] None op (1, 0) (1, 3) None in
    let c := mkTok COMMENT [120%N] (4, 0) (4, 3) in
    match diff_file [FHeader h; FComment c] indent with
    | [_; d2] => bytes_eqb (fd_text d2) (tabs (if op then S indent else indent) ++ [47; 47; 120; 10]%N)
    | _ => false
    end) (pairs_of [0; 1; 2]%nat [true; false]) = true.
Proof. repeat split. Qed.

(* ---- the fixed tokens the formatter inserts (newToken calls) ------------------------------------------------ *)
Definition idt (c : N) : token := mkTok IDENT [c] pos0 pos0.
Definition sv (c : N) : value := VTok (mkTok INT [c] pos0 pos0) pos0 pos0.
Lemma assignment_tokens_agree :
  let key := [idt 97; idt 98] in
  let v := VArr [sv 49; VArr [sv 50; sv 51] pos0 pos0; VArr [] pos0 pos0] pos0 pos0 in
  let nt := newtok "fmt.go:doAssignment" in
  let vt := newtok "fmt.go:valueTokens" in
  let dot := newtok "fmt.go:referenceTokens" 0%nat in
  let ref := [97%N] ++ dot ++ [98%N] in
  let arr := vt 0%nat ++ [49%N] ++ vt 1%nat ++ vt 2%nat ++ (vt 0%nat ++ [50%N] ++ vt 1%nat ++ vt 2%nat ++ [51%N] ++ vt 3%nat) ++ vt 1%nat ++ vt 2%nat ++ (vt 0%nat ++ vt 3%nat) ++ vt 3%nat in
  bytes_eqb (assign_text (mkAssign key true v pos0 pos0 None)) (ref ++ nt 0%nat ++ nt 1%nat ++ nt 2%nat ++ nt 3%nat ++ arr) &&
  bytes_eqb (assign_text (mkAssign key false v pos0 pos0 None)) (ref ++ nt 4%nat ++ nt 5%nat ++ nt 6%nat ++ arr) &&
  is_true (ev [("assign.Append", VB true)] (cond_of "fmt.go:doAssignment" 0%nat)) = true.
Proof. vm_compute. reflexivity. Qed.
Lemma header_tokens_agree :
  let nt := newtok "fmt.go:doBlockHeader" in
  let sp1 := newtok "fmt.go:tagString" 0%nat in
  let bang := mkTok BANG [33%N] pos0 pos0 in
  let t1 := mkTag MarkNone None (TagRef [idt 120]) pos0 pos0 in
  let t2 := mkTag MarkBang (Some bang) (TagVal (VTok (mkTok STRING [115%N] pos0 pos0) pos0 pos0)) pos0 pos0 in
  let dt := mkTok DESCRIPTION [100%N] pos0 pos0 in
  let d := mkDescr [dt] [100%N] pos0 pos0 in
  let h op desc := mkHeader [idt 97] [t1; t2] [t2; t1] desc op pos0 pos0 None in
  let tags := nt 0%nat ++ [120%N] ++ nt 0%nat ++ ([33%N] ++ sp1 ++ [34; 115; 34]%N) in
  let quals := nt 1%nat ++ ([33%N] ++ sp1 ++ [34; 115; 34]%N) ++ nt 1%nat ++ [120%N] in
  bytes_eqb (header_text (h true None)) ([97%N] ++ tags ++ quals ++ nt 2%nat ++ nt 3%nat) &&
  bytes_eqb (header_text (h false (Some d))) ([97%N] ++ tags ++ quals ++ nt 4%nat ++ token_source dt) &&
  bytes_eqb (header_text (h false None)) ([97%N] ++ tags ++ quals) = true.
Proof. vm_compute. reflexivity. Qed.
(* the token types of the inserted tokens are the ones whose source is their literal (tokenSource's
   final return), so printing them adds exactly the literal *)
Lemma inserted_tokens_plain :
  forallb (fun fe : string * list (N * list N) =>
    forallb (fun tl : N * list N =>
      negb (existsb (fun a => existsb (N.eqb (fst tl)) (fst a)) BclFmtGen.token_source_arms)) (snd fe))
    BclFmtGen.fmt_new_tokens = true.
Proof. vm_compute. reflexivity. Qed.

(* ---- the one explicit panic( of the anchored files ----------------------------------------------------------- *)
(* diffFile's `default: panic(...)`: the type switch has an arm for each of the five fragment constructors of
   the model (the walker builds no other type), probed by running diff_file on one fragment of each kind: each
   yields exactly one FmtDiff, i.e. is handled by a non-default arm *)
Lemma diff_file_handles_every_fragment :
  let t := mkTok COMMENT [120%N] pos0 pos0 in
  forallb (fun f => Nat.eqb (length (diff_file [f] 1)) 1)
    [FHeader (mkHeader [idt 97] [] [] None false pos0 pos0 None); FAssign (mkAssign [idt 97] false (sv 49) pos0 pos0 None);
     FDesc (mkDescr [] [100%N] pos0 pos0); FComment t; FClose (mkTok RBRACE [125%N] pos0 pos0)] = true /\
  call_name "fmt.go:diffFile" 0 = "fmt.Sprintf".
Proof. split; vm_compute; reflexivity. Qed.
